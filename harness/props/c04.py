"""C04 — entry reads and writes behave like an F-ordered mutable array over any history.

Three parties per step of a history: the real tensor / sptensor object, the property oracle
(harness/props/c04_ref.py: a dict-of-cells mutable array that does what the property says) and the
Lean model (Driver/C04: `c04_dense`, `c04_sparse`, `c04_extract`; `c04_spec` is the Lean specification, which must
agree with the Python oracle).  After EVERY step the full state is compared.

An operation has a MEANING (which cells, which values: all the oracle and the operation models see) and a SPELLING
(which Python objects say it: Python int or NumPy integer scalar, list or array or tuple, 1-d or column values, how the
empty tensor was built, `S[subs]` or `S.extract(subs)`); every documented spelling of every meaning is generated, the
undocumented ones that still have one obvious meaning too (may be refused, must never be answered differently), and
objects that are no index at all (must be refused).  `key_dispatch` compares `get_index_variant` with its Lean model
(`c04_variant`) and with the documented kind of every key object.
"""
from __future__ import annotations

import copy
import json
import warnings

import numpy as np
import pyttb as ttb

from harness.lib import Family, Verdict, deep_eq, drive, jval
from harness.props.c04_ref import MutArr, Reject, all_subs, numel

RULE = ("random histories of 1..12 (thorough: up to 40) reads / writes on a dense tensor, a sparse tensor, and on "
        "both driven together, from empty (order 0), all-zero and random starts of order 1..3 (sparse starts stored "
        "sorted / reversed / shuffled); every key form: linear integer (also negative), linear slice (open, bounded, "
        "stepped, negative bounds), linear index array, subscript array (also growing extents and order, repeated "
        "rows), rectangular region of integers (also negative), slices (all forms) and index lists (also growing "
        "extents and order); right-hand sides scalar, zero, one value per position mixing zeros, arrays and tensors "
        "mixing zeros; after every step the whole state (dense data / sparse subs, vals, shape + well-formedness) is "
        "compared with the oracle and with the Lean model, reads are compared too.  Domain: an operation the oracle "
        "accepts must be accepted with the oracle's result, except for the documented capability limits, which may "
        "be rejected (sparse: linear-index writes unless the tensor is 1-way with a non-negative integer / non-empty "
        "slice, array right-hand sides of region writes, an open slice in a NEW mode, reads whose result has a zero "
        "extent).  Outside the domain (the oracle rejects: linear index out of range, subscript out of range in a "
        "read, key shorter than the order, right-hand side of another size, negative index below -extent, empty "
        "region in a new mode) only 'rejected or not' is recorded; the object is restored from a snapshot after "
        "every rejected or out-of-domain call (a rejected write may already have grown the shape).  Index lists "
        "hold non-negative entries, now and then with a repeated entry (not together with an array / tensor "
        "right-hand side); subscript arrays are non-negative; array right-hand sides have exactly "
        "the shape of the region's kept modes.  SPELLINGS (about half of the keys and 40 % of the right-hand sides "
        "are not in the plain one): linear integer as Python int / np.int64 / np.int32; slice bounds as Python or "
        "NumPy integers; linear indices as int64 / int32 array or Python list (every length, the ONE-element list "
        "on purpose); subscripts as C- / F-ordered int64 / int32 array; in a region integers as Python / NumPy "
        "integers and index lists as Python lists / 1-d arrays; sptensor.extract called directly with a p x n array or "
        "with one full subscript as a 1-d vector (sparse_history reads); scalars as float / int / np.float64; one value "
        "per position as 1-d array or list (tensor) / column (sptensor); the empty dense start as tensor(), "
        "tensor(np.array([])) or tenzeros((0,)) (shape (0,) = no modes).  All of these must be accepted with the "
        "oracle's result.  Spellings the documentation does not name but that have one obvious "
        "meaning - a float or 0-d array as linear integer, lists of NumPy integers / mixed lists / column lists / "
        "float arrays / no entry at all as linear indices, a nested list of subscripts, tuples and lists of NumPy "
        "integers as index lists, np.int64 as value, a column / row (tensor) or 1-d / list / row (sptensor) of "
        "values, a one-element list as the value of one cell - may be refused (then the step is not compared with "
        "the operation models, which start after the key dispatch), but if answered the answer is the oracle's "
        "and the stored sparse representation is one subscript row and one value in a COLUMN per entry; they are "
        "used only on writes that keep the shape.  Objects that are no index (None, str, Ellipsis, a non-integral "
        "float, dict, set, complex, list of str / None, ragged list, 3-d array, object()) must be refused by reads "
        "and writes of both classes: accepted = violation.  key_dispatch: get_index_variant on every kind of key "
        "object (all scalar / array / tuple / range / str kinds, lists of Python ints of length 0..4, 60 (400) random "
        "lists over int / bool / NumPy int / float / list / tuple / array / None / str elements) = Lean model = "
        "documented kind; a key object whose model variant is UNKNOWN or raising is then assigned through on six "
        "receivers (tensor / sptensor of order 2, 1, 0) and must be refused.  non-trivial = at least one accepted "
        "write changed a cell or the shape; distinct = distinct case hash")
ASSUMPTIONS = [
    "NumPy basic / advanced indexing, fancy assignment (last write wins) and assignment broadcasting behave as "
    "the model primitives npIndex / scatter / npBroadcast (exercised by this correspondence)",
    "a read result is compared with the specification up to singleton modes and scalar-vs-one-element kind "
    "(dense returns a scalar for a one-element index list where sparse returns a 1-element tensor); with the "
    "model the kind and shape are compared exactly",
    "values are small integers, so float arithmetic is exact",
    "which Python objects count as documented spellings of a key / value is the harness's reading of the docstrings "
    "of __getitem__ / __setitem__ and of IndexType in pyttb_utils (form_optional, documented_variant); the Lean "
    "model of get_index_variant sees the Python type of a key object as classify_obj reports it",
    "the empty tensor is recognised by its stored shape (0,) or (), not through tensor.ndims",
]
EXHAUSTIVE = {"quick": False, "thorough": False}

warnings.simplefilter("ignore")

# ----------------------------------------------------------------------------
# building the real objects
# ----------------------------------------------------------------------------


# The JSON key / right-hand side / start describe WHAT is addressed or assigned (that is all the oracle and the Lean
# model look at); optional "form" fields (per key, per region part "f", per right-hand side, per start) say HOW the
# Python object is spelled: Python int vs NumPy integer scalar, list vs array vs tuple, 1-d vs column values, ...
JUNK_KEYS = {
    "none": lambda: None, "str": lambda: "ab", "emptystr": lambda: "", "ellipsis": lambda: Ellipsis, "frac": lambda: 2.5,
    "dict": lambda: {0: 1}, "set": lambda: {1}, "complex": lambda: 1j, "strlist": lambda: ["a", "b"],
    "nonelist": lambda: [None], "ragged": lambda: [[0], [0, 1]], "arr3d": lambda: np.zeros((1, 1, 2), dtype=int),
    "object": lambda: object(),
}


def np_bounds(s):
    return [None if b is None else np.int64(b) for b in s]


def mk_key(key):
    k = key["k"]
    f = key.get("form")
    if k == "junk":
        return JUNK_KEYS[key["what"]]()
    if k == "lin":
        i = key["i"]
        if f == "np64":
            return np.int64(i)
        if f == "np32":
            return np.int32(i)
        if f == "float":
            return float(i)
        if f == "arr0":
            return np.array(i)
        return i
    if k == "linslice":
        return slice(*(np_bounds(key["s"]) if f == "np" else key["s"]))
    if k == "linlist":
        L = [int(i) for i in key["is"]]
        if f == "list":
            return L
        if f == "nplist":
            return [np.int64(i) for i in L]
        if f == "mixedlist":
            return L[:1] + [np.int64(i) for i in L[1:]]
        if f == "collist":
            return [[i] for i in L]
        if f == "floatarr":
            return np.array(L, dtype=float)
        return np.array(L, dtype=np.int32 if f == "array32" else int)
    if k == "subs":
        rows = key["rows"]
        w = len(rows[0]) if rows else 0
        if f == "nested":
            return [list(r) for r in rows]
        if f == "vec1d":  # one full subscript as a 1-d vector (sptensor.extract called directly)
            return np.array(rows[0], dtype=int)
        a = np.array(rows, dtype=np.int32 if f == "array32" else int).reshape(len(rows), w)
        return np.asfortranarray(a) if f == "arrayF" else a
    parts = []
    for p in key["parts"]:
        pf = p.get("f")
        if "int" in p:
            parts.append(np.int64(p["int"]) if pf == "np" else p["int"])
        elif "list" in p:
            L = [int(i) for i in p["list"]]
            parts.append(np.array(L, dtype=int) if pf == "array" else tuple(L) if pf == "tuple"
                         else [np.int64(i) for i in L] if pf == "nplist" else L)
        else:
            parts.append(slice(*(np_bounds(p["slice"]) if pf == "np" else p["slice"])))
    return tuple(parts)


def form_optional(cls, op):
    """Is some part of the operation SPELLED in a form the class does not document (it may then refuse the operation;
    if it answers, the answer must be the one of the plain spelling)?  Documented: Python int / NumPy integer scalar /
    slice, a non-empty list of Python ints or a 1-d integer array as linear indices, a 2-d integer array of subscripts,
    a tuple of integers, slices, lists of Python ints and 1-d integer arrays as region; values: a number, one value
    per position as a vector (tensor: 1-d array or list; sptensor: a column)."""
    key = op["key"]
    k, f = key["k"], key.get("form")
    if k == "lin" and f in ("float", "arr0"):
        return True
    if k == "linlist" and (f in ("nplist", "mixedlist", "collist", "floatarr") or not key["is"]):
        return True
    if k == "subs" and f == "nested":
        return True
    if k == "region" and any(p.get("f") in ("tuple", "nplist") for p in key["parts"]):
        return True
    rhs = op.get("rhs")
    if rhs:
        rf = rhs.get("form")
        if rhs["r"] == "scalar" and rf == "npint":
            return True
        if rhs["r"] == "col" and rf is not None:
            if cls == "dense" and rf == "list" and len(rhs["v"]) == 1:
                return True  # NumPy refuses a one-element LIST for one cell (it takes the one-element array)
            return rf in (("column", "row") if cls == "dense" else ("1d", "list", "row"))
    return False


def plain_spelling(op):
    """remove every spelling that a class may refuse (in place)"""
    key = op["key"]
    for c in ("dense", "sparse"):
        if not form_optional(c, op):
            continue
        if key["k"] in ("lin", "linlist", "subs") and key.get("form") in (
                "float", "arr0", "nplist", "mixedlist", "collist", "floatarr", "nested"):
            del key["form"]
        for p in key.get("parts", ()):
            if p.get("f") in ("tuple", "nplist"):
                del p["f"]
        if "rhs" in op:
            op["rhs"].pop("form", None)
    return op


def pooled_rhs(pool, rhs, cls, tr=None):
    """A tensor-valued right-hand side that occurs again later in the history is the same OBJECT again (a user who
    stamps one block into several regions, or assigns it twice): an assignment that renumbers or rescales its
    right-hand side in place is then visible in the receiver (seed C04v).  Scalars and arrays are rebuilt."""
    if rhs["r"] != "tensor":
        return mk_rhs(rhs, cls)
    k = json.dumps(rhs, sort_keys=True)
    if k in pool:
        if tr is not None:
            tr.tags.add("rhs-object-reused")
        return pool[k]
    pool[k] = mk_rhs(rhs, cls)
    return pool[k]


def mk_rhs(rhs, cls):
    r = rhs["r"]
    f = rhs.get("form")
    if r == "scalar":
        v = rhs["v"]
        return int(v) if f == "int" else np.float64(v) if f == "npfloat" else np.int64(v) if f == "npint" else float(v)
    if r == "col":
        a = np.array(rhs["v"], dtype=float)
        f = f or ("1d" if cls == "dense" else "column")
        return a if f == "1d" else a.reshape(-1, 1) if f == "column" else a.reshape(1, -1) if f == "row" else a.tolist()
    arr = np.array(rhs["data"], dtype=float).reshape(tuple(rhs["shape"]), order="F")
    if r == "arr":
        return arr
    t = ttb.tensor(arr, copy=True)
    return t if cls == "dense" else t.to_sptensor()


def mk_obj(start, cls):
    shape = start["shape"]
    if cls == "dense":
        if not shape:
            # the empty tensor, however it was built (no modes: the first assignment creates them)
            f = start.get("form")
            return ttb.tensor(np.array([])) if f == "array" else ttb.tenzeros((0,)) if f == "tenzeros" else ttb.tensor()
        return ttb.tensor(np.array(start["data"], dtype=float).reshape(tuple(shape), order="F"), copy=True)
    if not shape:
        return ttb.sptensor()
    if not start["subs"]:
        return ttb.sptensor(shape=tuple(shape))
    return ttb.sptensor(np.array(start["subs"], dtype=int), np.array(start["vals"], dtype=float).reshape(-1, 1),
                        tuple(shape))


def start_oracle(start, cls):
    shape = start["shape"]
    if cls == "dense":
        return MutArr(shape, dict(zip(all_subs(shape), start["data"])) if shape else {})
    return MutArr(shape, {tuple(s): v for s, v in zip(start["subs"], start["vals"])})


# canonical states --------------------------------------------------------------
def dense_state(x, receiver=False):
    d = np.asarray(x.data)
    shape = [int(s) for s in x.shape]
    if receiver and shape == [0]:
        shape = []  # tensor(np.array([])) / tenzeros((0,)) is the empty tensor: shape (0,) stands for "no modes"
    return {"shape": shape, "data": jval(d.flatten(order="F"))}


def sparse_state(x):
    subs = np.asarray(x.subs)
    vals = np.asarray(x.vals).reshape(-1)
    return {"shape": [int(s) for s in x.shape],
            "subs": [] if subs.size == 0 else [[int(q) if float(q).is_integer() else float(q) for q in r] for r in subs.tolist()],
            "vals": [] if vals.size == 0 else jval(vals)}


def sparse_repr(x):
    """defects of the stored representation itself: one subscript row and one value (a column) per stored entry"""
    subs, vals = np.asarray(x.subs), np.asarray(x.vals)
    if vals.size == 0 and subs.size == 0:
        return []
    bad = []
    if vals.ndim != 2 or vals.shape[1] != 1:
        bad.append(f"values stored with shape {tuple(vals.shape)}, not as a column")
    if subs.ndim != 2 or subs.shape[1] != len(x.shape):
        bad.append(f"subscripts stored with shape {tuple(subs.shape)} for order {len(x.shape)}")
    elif vals.ndim >= 1 and subs.shape[0] != vals.shape[0]:
        bad.append(f"{subs.shape[0]} subscripts for {vals.shape[0]} values")
    return bad


def sparse_wf(st):
    """well-formedness defects of a stored sparse state"""
    bad = []
    shape, subs, vals = st["shape"], st["subs"], st["vals"]
    if len(subs) != len(vals):
        bad.append("lengths differ")
    seen = set()
    for r in subs:
        if len(r) != len(shape):
            bad.append("subscript width")
        elif any(not isinstance(q, int) or not 0 <= q < e for q, e in zip(r, shape)):
            bad.append("subscript out of bounds")
        if tuple(r) in seen:
            bad.append("repeated subscript")
        seen.add(tuple(r))
    if any(v == 0 for v in vals):
        bad.append("stored zero")
    return sorted(set(bad))


def sparse_denote(st):
    cells = {}
    for r, v in zip(st["subs"], st["vals"]):
        cells[tuple(r)] = cells.get(tuple(r), 0) + v
    return MutArr(st["shape"], cells).dense_j()


def sparse_sorted(st):
    pairs = sorted(zip([tuple(r) for r in st["subs"]], [json.dumps(v) for v in st["vals"]]))
    return {"shape": st["shape"], "subs": [list(p[0]) for p in pairs], "vals": [json.loads(p[1]) for p in pairs]}


def read_canon(r):
    """impl read result -> exact form {"scalar"|"vec"|"tensor"|"sptensor"}"""
    if isinstance(r, (int, float, np.floating, np.integer)):
        return {"scalar": jval(r)}
    if isinstance(r, np.ndarray):
        return {"vec": jval(r.reshape(-1))}
    if isinstance(r, ttb.tensor):
        return {"tensor": dense_state(r)}
    if isinstance(r, ttb.sptensor):
        return {"sptensor": sparse_state(r)}
    return {"other": repr(r)[:80]}


def squeeze_form(o):
    """(shape without singleton modes, values in F order) of any read result"""
    if "scalar" in o:
        return [[], [o["scalar"]]]
    if "vec" in o:
        v = o["vec"]
        return [[len(v)] if len(v) != 1 else [], list(v)]
    if "sptensor" in o:
        o = {"tensor": sparse_denote(o["sptensor"])}
    t = o["tensor"]
    return [[d for d in t["shape"] if d != 1], list(t["data"])]


# ----------------------------------------------------------------------------
# domain classification
# ----------------------------------------------------------------------------
def is_d10(key):
    """dense region key that NumPy does not treat as a rectangle: a list plus (another list | an integer
    separated from it by a slice)"""
    if key["k"] != "region":
        return False
    parts = key["parts"]
    lists = [i for i, p in enumerate(parts) if "list" in p]
    if not lists:
        return False
    if len(lists) >= 2:
        return True
    adv = [i for i, p in enumerate(parts) if "list" in p or "int" in p]
    return adv[-1] - adv[0] + 1 != len(adv)


def has_repeated_list(key):
    return key["k"] == "region" and any("list" in p and len(set(p["list"])) < len(p["list"]) for p in key["parts"])


def sparse_may_reject(op, ref_before, out):
    """documented capability limits of sptensor (the oracle accepts, the class may refuse)"""
    key = op["key"]
    k = key["k"]
    n = len(ref_before.shape)
    if op["op"] == "write":
        if k in ("lin", "linslice", "linlist"):
            if n != 1 or k == "linlist":
                return True
            if k == "lin" and key["i"] < 0:
                return True
            if k == "linslice" and len(range(ref_before.n_cells())[slice(*key["s"])]) == 0:
                return True
            return False
        if k == "region":
            if op["rhs"]["r"] == "arr":
                return True
            for m, p in enumerate(key["parts"]):
                if m >= n and "slice" in p and p["slice"][1] is None:
                    return True
        return False
    # reads: a result with a zero extent cannot be a sptensor
    return isinstance(out, dict) and "tensor" in out and 0 in out["tensor"]["shape"]


# ----------------------------------------------------------------------------
# generators
# ----------------------------------------------------------------------------
def rnd_val(rng, zero=0.25):
    return 0 if rng.random() < zero else rng.choice([v for v in range(-9, 10) if v])


def gen_slice(rng, ext, hi, new_mode):
    """a slice for a mode of current extent `ext`; `hi` > ext allows growth"""
    if new_mode:
        form = rng.choice(["all", "ab1", "b1"])
        if form == "all":
            return [None, None, None]
        if form == "ab1":
            return [rng.randrange(hi), hi, None]
        return [None, rng.randint(1, hi), None]
    form = rng.choice(["all", "ab", "a", "b", "step", "neg", "negstep"])
    if form == "all":
        return [None, None, None]
    if form == "ab":
        a = rng.randrange(hi)
        return [a, rng.randint(a, hi), None]
    if form == "a":
        return [rng.randrange(max(1, ext)), None, None]
    if form == "b":
        return [None, rng.randint(0, hi), None]
    if form == "step":
        return [rng.choice([None, 0, 1]), rng.choice([None, hi]), rng.choice([2, 3])]
    if form == "neg":
        return [rng.choice([None, -1, -2]), rng.choice([None, -1]), None]
    return [rng.choice([None, -1, ext - 1]), rng.choice([None, 0]), rng.choice([-1, -2])]


def pick(rng, weighted):
    """weighted choice from [(item, weight), ...]"""
    r = rng.random() * sum(w for _, w in weighted)
    for item, w in weighted:
        r -= w
        if r < 0:
            return item
    return weighted[-1][0]


def gen_key(rng, shape, write, d10=False, for_sparse=False, cls=None):
    """an abstract key (gen_key_abstract) in one of its Python spellings"""
    key = gen_key_abstract(rng, shape, write, d10=d10, for_sparse=for_sparse)
    if rng.random() < 0.4:
        return key  # the plain spelling everywhere
    k = key["k"]
    if k == "lin":
        f = pick(rng, [(None, 2), ("np64", 4), ("np32", 2), ("float", 0.5), ("arr0", 0.3)])
    elif k == "linslice":
        f = pick(rng, [(None, 1), ("np", 1)])
    elif k == "linlist":
        f = pick(rng, [(None, 2), ("list", 6), ("array32", 1), ("nplist", 0.6), ("mixedlist", 0.4), ("collist", 0.3),
                       ("floatarr", 0.2)])
        if f in (None, "list") and rng.random() < 0.35:
            key["is"] = key["is"][:1]  # the one-element list / array
        elif rng.random() < 0.04:
            key["is"] = []  # no position at all
    elif k == "subs":
        f = pick(rng, [(None, 2), ("array32", 1), ("arrayF", 1), ("nested", 0.4)])
        if cls == "sparse" and not write:
            # sptensor.extract called directly, with a p x n array or with ONE full subscript as a 1-d vector
            if rng.random() < 0.6:
                key["call"] = "extract"
                f = None
                if rng.random() < 0.6:
                    key["rows"] = key["rows"][:1]
                    f = "vec1d"
    else:
        f = None
        for p in key["parts"]:
            if "int" in p:
                pf = pick(rng, [(None, 2), ("np", 1)])
            elif "slice" in p:
                pf = pick(rng, [(None, 3), ("np", 1)]) if any(b is not None for b in p["slice"]) else None
            else:
                pf = pick(rng, [(None, 3), ("array", 3), ("tuple", 0.3), ("nplist", 0.3)])
            if pf:
                p["f"] = pf
    if f:
        key["form"] = f
    return key


def gen_key_abstract(rng, shape, write, d10=False, for_sparse=False):
    n = len(shape)
    cells = numel(shape) if n else 0
    kinds = ["region"] * 5 + ["subs"] * 3 + ["lin", "linslice", "linlist"]
    if for_sparse and write and n == 1:
        kinds += ["lin", "linslice"]
    k = rng.choice(kinds)
    if n == 0 and k in ("lin", "linslice", "linlist"):
        k = rng.choice(["region", "subs"])
    if d10:
        k = "region"
    if k == "lin":
        return {"k": "lin", "i": rng.randint(-cells, cells - 1)}
    if k == "linslice":
        def b():
            return rng.choice([None, None, rng.randint(-cells - 1, cells + 1)])
        return {"k": "linslice", "s": [b(), b(), rng.choice([None, None, 1, 2, -1, -2])]}
    if k == "linlist":
        return {"k": "linlist", "is": [rng.randint(-cells, cells - 1) for _ in range(rng.randint(1, 4))]}
    grow = write and rng.random() < 0.3 and cells <= 120  # keep the states small over long histories
    w = n + (rng.randint(1, 2) if (grow and rng.random() < 0.4 and n < 4) or n == 0 else 0)
    if k == "subs":
        p = rng.randint(1, 4)
        rows = [[rng.randrange((shape[m] if m < n else 1) + (2 if grow else 0)) for m in range(w)] for _ in range(p)]
        if p > 1 and rng.random() < 0.25:
            rows[-1] = list(rows[0])
        return {"k": "subs", "rows": rows}
    parts = []
    for m in range(w):
        e = shape[m] if m < n else 1
        hi = e + (2 if grow else 0)
        t = rng.choice(["int", "int", "slice", "slice", "list"])
        if d10 and m in (0, w - 1) and w >= 2:
            t = "list"
        elif d10 and w >= 3:
            t = rng.choice(["slice", "int"])
        elif t == "list" and any("list" in q for q in parts):
            t = "int"  # several lists only in the d10 stream
        if t == "int":
            i = rng.randrange(hi)
            if m < n and rng.random() < 0.25:
                i = rng.randint(-e, -1)
            parts.append({"int": i})
        elif t == "list":
            L = rng.sample(range(hi), rng.randint(1, min(3, hi)))
            if rng.random() < 0.12:
                L = L + [L[0]]  # a repeated entry (writes: scalar right-hand sides only, see gen_rhs)
            parts.append({"list": L})
        else:
            parts.append({"slice": gen_slice(rng, e, hi, m >= n)})
    key = {"k": "region", "parts": parts}
    if not d10 and is_d10(key):
        # a single list separated from an integer by a slice: keep the list, make the integers slices
        for q in parts:
            if "int" in q:
                i = q.pop("int")
                q["slice"] = [i, i + 1, None] if i >= 0 else [None, None, None]
    return key


def region_shape(ref, key):
    try:
        _, lists, kept = ref._region(key["parts"], grow=True)
        return [len(L) for L, kp in zip(lists, kept) if kp], numel([len(L) for L in lists])
    except Reject:
        return None, 0


def gen_rhs(rng, ref, key, for_sparse=False):
    """a right-hand side (gen_rhs_abstract) in one of its Python spellings"""
    rhs = gen_rhs_abstract(rng, ref, key, for_sparse=for_sparse)
    if rhs["r"] == "scalar":
        f = pick(rng, [(None, 6), ("int", 2), ("npfloat", 1.5), ("npint", 0.4)])
    elif rhs["r"] == "col":
        # None = the documented vector of the class (tensor: 1-d array, sptensor: column)
        f = pick(rng, [(None, 6), ("1d", 1.5), ("list", 0.7), ("row", 0.4)] if for_sparse
                 else [(None, 5), ("list", 3), ("column", 0.5), ("row", 0.5)])
    else:
        f = None
    if f:
        rhs["form"] = f
    return rhs


def gen_rhs_abstract(rng, ref, key, for_sparse=False):
    k = key["k"]
    if k == "region":
        rshape, _ = region_shape(ref, key)
        t = rng.choice(["scalar", "scalar", "zero", "arr", "tensor", "tensor"] if for_sparse
                       else ["scalar", "scalar", "zero", "arr", "arr", "tensor"])
        if t == "zero":
            return {"r": "scalar", "v": 0}
        if t == "scalar" or not rshape or 0 in rshape or has_repeated_list(key):
            return {"r": "scalar", "v": rnd_val(rng, 0.1)}
        return {"r": t, "shape": rshape, "data": [rnd_val(rng) for _ in range(numel(rshape))]}
    try:
        p = len(ref._linear_targets(key)) if k != "subs" else len(key["rows"])
    except Reject:
        p = 1
    t = rng.choice(["scalar", "zero", "col", "col"])
    if t == "zero":
        return {"r": "scalar", "v": 0}
    if t == "scalar":
        return {"r": "scalar", "v": rnd_val(rng, 0.1)}
    return {"r": "col", "v": [rnd_val(rng) for _ in range(p)]}


def gen_malformed(rng, ref):
    """an operation outside the property's domain (the oracle rejects it)"""
    shape = ref.shape
    n = len(shape)
    cells = ref.n_cells()
    choice = rng.choice(["lin_oob", "read_oob", "short_key", "rhs_size", "neg_below", "subs_narrow", "junk", "junk"])
    if choice == "junk":
        # an object that is no index at all: must be refused, by reads and by writes, whatever the tensor is
        op = {"op": rng.choice(["read", "write", "write"]), "key": {"k": "junk", "what": rng.choice(sorted(JUNK_KEYS))}}
        if op["op"] == "write":
            op["rhs"] = {"r": "scalar", "v": rng.choice([5, 0])}
        return op
    if n == 0:
        return {"op": "read", "key": {"k": "region", "parts": [{"int": 0}]}}
    if choice == "lin_oob":
        op = {"op": rng.choice(["read", "write"]), "key": {"k": "lin", "i": rng.choice([cells, cells + 1, -cells - 1])}}
    elif choice == "read_oob":
        parts = [{"int": rng.randrange(e)} for e in shape]
        parts[rng.randrange(n)] = {"int": shape[0] + 3}
        op = {"op": "read", "key": {"k": "region", "parts": parts}}
    elif choice == "short_key" and n >= 2:
        op = {"op": rng.choice(["read", "write"]), "key": {"k": "region", "parts": [{"int": 0}] * (n - 1)}}
    elif choice == "rhs_size":
        rows = [[rng.randrange(e) for e in shape] for _ in range(2)]
        return {"op": "write", "key": {"k": "subs", "rows": rows}, "rhs": {"r": "col", "v": [1, 2, 3]}}
    elif choice == "neg_below":
        parts = [{"int": rng.randrange(e)} for e in shape]
        parts[0] = {"int": -shape[0] - 1}
        op = {"op": rng.choice(["read", "write"]), "key": {"k": "region", "parts": parts}}
    else:
        op = {"op": "read", "key": {"k": "subs", "rows": [[0] * (n + 1)]}}
    if op["op"] == "write":
        op["rhs"] = {"r": "scalar", "v": 5}
    return op


def gen_start(rng, cls):
    t = rng.choice(["empty", "zero", "random", "random", "random"])
    if t == "empty":
        shape, cells = [], {}
    else:
        shape = [rng.randint(1, 3) for _ in range(rng.randint(1, 3))]
        if rng.random() < 0.3:
            shape[rng.randrange(len(shape))] = 1
        cells = {} if t == "zero" else {s: rnd_val(rng, 0.45) for s in all_subs(shape)}
    m = MutArr(shape, cells)
    if cls == "dense":
        st = {"shape": shape, "data": m.dense_j()["data"]}
        if not shape:
            f = rng.choice([None, "array", "array", "tenzeros"])  # how the empty tensor was built
            if f:
                st["form"] = f
        return st
    items = sorted(m.cells.items(), key=lambda kv: tuple(reversed(kv[0])))
    order = rng.choice(["sorted", "reversed", "shuffled"])
    if order == "reversed":
        items.reverse()
    elif order == "shuffled":
        rng.shuffle(items)
    return {"shape": shape, "subs": [list(k) for k, _ in items], "vals": [v for _, v in items]}


def gen_history(rng, cls, length, d10_rate=0.0, malformed_rate=0.06):
    """ops are generated against the oracle's evolving shape (assuming every valid op is accepted)"""
    start = gen_start(rng, "sparse" if cls in ("sparse", "both") else "dense")
    ref = start_oracle(start, "sparse" if cls in ("sparse", "both") else "dense")
    ops = []
    for _ in range(length):
        if rng.random() < malformed_rate:
            ops.append(gen_malformed(rng, ref))
            continue
        write = rng.random() < 0.7 or not ref.shape
        key = gen_key(rng, ref.shape, write, d10=rng.random() < d10_rate, for_sparse=cls != "dense", cls=cls)
        op = {"op": "write" if write else "read", "key": key}
        if write:
            op["rhs"] = gen_rhs(rng, ref, key, for_sparse=cls != "dense")
            try:
                probe = ref.copy()
                probe.write(key, op["rhs"])
                classes = ("dense", "sparse") if cls == "both" else (cls,)
                if probe.shape != ref.shape and any(form_optional(c, op) for c in classes):
                    # a spelling that may be refused only on writes that keep the shape: the shapes the later operations
                    # are generated for do not depend on whether the class takes it
                    plain_spelling(op)
                if not (cls != "dense" and sparse_may_reject(op, ref, None)):
                    ref = probe
            except Reject:
                pass
        ops.append(op)
        if write and op["rhs"]["r"] == "tensor" and rng.random() < 0.4:
            # the same block assigned once more to the same key (same right-hand-side OBJECT, see pooled_rhs), directly
            # or after a read of the region
            if rng.random() < 0.5:
                ops.append({"op": "read", "key": copy.deepcopy(key)})
            ops.append(copy.deepcopy(op))
    return {"cls": cls, "start": start, "ops": ops}


def form_tags(op):
    key = op["key"]
    out = []
    if key["k"] == "junk":
        return ["key:junk/" + key["what"]]
    if key.get("form"):
        out.append(f"key:{key['k']}/{key['form']}")
    if key.get("call"):
        out.append("call:" + key["call"])
    if key["k"] == "linlist" and len(key["is"]) <= 1:
        out.append(f"key:linlist/{key.get('form') or 'array'}/{len(key['is'])}-element")
    for p in key.get("parts", ()):
        if p.get("f"):
            out.append(f"part:{'int' if 'int' in p else 'list' if 'list' in p else 'slice'}/{p['f']}")
    rhs = op.get("rhs")
    if rhs and rhs.get("form"):
        out.append(f"rhs:{rhs['r']}/{rhs['form']}")
    return out


# ----------------------------------------------------------------------------
# running one history
# ----------------------------------------------------------------------------
class Trace:
    """what happened to one object along a history"""

    def __init__(self):
        self.steps = []      # per op: dict(status, impl_out, impl_state, before_state, oracle_out, ...)
        self.violation = None  # (step, what, detail)
        self.tags = set()
        self.changed = False


def state_of(x, cls):
    return dense_state(x, receiver=True) if cls == "dense" else sparse_state(x)


def run_object(cls, start, ops):
    """drive one real object and the oracle through the history; returns Trace"""
    tr = Trace()
    x = mk_obj(start, cls)
    ref = start_oracle(start, cls)
    pool = {}  # tensor-valued right-hand sides live as long as the history: the same value is the same OBJECT
    for i, op in enumerate(ops):
        before = state_of(x, cls)
        snap = copy.deepcopy(x)
        ref_before = ref.copy()
        write = op["op"] == "write"
        # oracle
        try:
            probe = ref.copy()
            oout = probe.write(op["key"], op["rhs"]) if write else probe.read(op["key"])
            orej = False
        except Reject:
            orej, oout = True, None
        # implementation
        junk = op["key"]["k"] == "junk"
        optional = not junk and form_optional(cls, op)
        try:
            if write:
                x[mk_key(op["key"])] = pooled_rhs(pool, op["rhs"], cls, tr)
                iout = {"written": True}
            elif op["key"].get("call") == "extract":
                iout = read_canon(x.extract(mk_key(op["key"])))
            else:
                iout = read_canon(x[mk_key(op["key"])])
            irej = False
        except Exception as e:  # noqa: BLE001
            irej, iout = True, {"reject": True, "exc": type(e).__name__, "msg": str(e)[:120]}
        step = {"op": op, "before": before, "impl_out": iout, "oracle_rejects": orej, "status": "ok"}
        tr.steps.append(step)
        keytag = op["key"]["k"] + ("/" + op["rhs"]["r"] + ("0" if op["rhs"].get("v") == 0 else "") if write else "/read")
        tr.tags.add(keytag)
        for t in form_tags(op):
            tr.tags.add(t)
        if junk and not irej:
            # an object that is no index was taken for one (or silently ignored): the request is neither performed as
            # asked nor refused
            try:
                after = state_of(x, cls)
            except Exception:  # noqa: BLE001
                after = None
            what = ("was accepted and silently ignored" if after == before else "was accepted and changed the tensor") \
                if write else f"was answered with {json.dumps(iout)[:80]}"
            tr.violation = (i, f"{cls}: a {'write' if write else 'read'} whose key is no index ({op['key']['what']}) {what} "
                            f"instead of being refused", {"op": op, "before": before, "after": after})
            step["status"] = "violation"
            return tr
        if irej or orej:
            # the object continues from the snapshot
            try:
                if state_of(x, cls) != before:
                    tr.tags.add("mutated-on-reject" if irej else "accepted-out-of-domain")
            except Exception:  # noqa: BLE001
                tr.tags.add("mutated-on-reject")
            after_rej = x
            x = snap
            step["after"] = before
            if orej:
                step["status"] = "out-of-domain"
                tr.tags.add("out-of-domain:" + ("rejected" if irej else "accepted"))
                continue
            if optional:
                # an undocumented spelling may be refused (never answered differently, see below); the operation
                # models do not know spellings, so this step is not compared with them
                step["status"] = "form-limit"
                tr.tags.add("form-refused")
                continue
            allowed = cls == "sparse" and sparse_may_reject(op, ref_before, oout)
            if allowed:
                step["status"] = "capability-limit"
                tr.tags.add("capability-limit")
                continue
            del after_rej
            tr.violation = (i, f"{cls}: a valid operation was rejected ({iout['exc']}: {iout['msg']})",
                            {"op": op, "before": before})
            step["status"] = "violation"
            return tr
        # both accept
        ref = probe
        after = state_of(x, cls)
        step["after"] = after
        want = ref.dense_j()
        if write:
            got = after if cls == "dense" else sparse_denote(after)
            wf = [] if cls == "dense" else sparse_repr(x) + sparse_wf(after)
            if wf:
                tr.violation = (i, f"sparse tensor not well formed after the write: {', '.join(wf)}",
                                {"op": op, "before": before, "after": after})
            elif not deep_eq(got, want):
                tr.violation = (i, f"{cls}: state after the write differs from the mutable-array specification",
                                {"op": op, "before": before, "after": after, "want": want})
            if before != after:
                tr.changed = True
        else:
            if after != before:
                tr.violation = (i, f"{cls}: a read changed the tensor", {"op": op, "before": before, "after": after})
            elif "other" in iout or not deep_eq(squeeze_form(iout), squeeze_form(oout)):
                tr.violation = (i, f"{cls}: a read returned other values than the specification",
                                {"op": op, "before": before, "got": iout, "want": oout})
            elif "sptensor" in iout and sparse_wf(iout["sptensor"]):
                tr.violation = (i, "sparse read result not well formed", {"op": op, "before": before, "got": iout})
        if tr.violation:
            step["status"] = "violation"
            return tr
        step["oracle_out"] = oout
        step["oracle_state"] = want
    return tr


def model_requests(cls, tr):
    """one single-step request per executed step, from the implementation's state before the step (a key that is no
    index has no model counterpart: the step is checked against "must be refused" alone)"""
    name = "c04_dense" if cls == "dense" else "c04_sparse"
    out = []
    for s in tr.steps:
        key = s["op"]["key"]
        if key["k"] == "junk":
            out.append({"op": "c04_variant", "obj": {"t": "other"}})  # placeholder keeping steps and replies aligned
        elif key.get("call") == "extract":
            arg = {"vec": key["rows"][0]} if key.get("form") == "vec1d" else {"rows": key["rows"]}
            out.append({"op": "c04_extract", "start": s["before"], **arg})
        else:
            out.append({"op": name, "start": s["before"], "ops": [s["op"]]})
    return out


def compare_model(cls, tr, replies):
    """-> (kind, what, detail) or None; kind = 'violation' | 'corr'"""
    for i, (s, rep) in enumerate(zip(tr.steps, replies)):
        if s["op"]["key"]["k"] == "junk" or s["status"] == "form-limit":
            continue  # the Python spelling of a key / value is not part of the operation models
        m = rep["steps"][0]
        mrej = isinstance(m["out"], dict) and m["out"].get("reject") is True
        irej = isinstance(s["impl_out"], dict) and s["impl_out"].get("reject") is True
        if s["status"] == "out-of-domain":
            if mrej != irej:
                tr.tags.add("model-differs-out-of-domain")
            continue
        if s["status"] == "violation":
            continue
        if mrej != irej:
            return ("corr", f"{cls} step {i}: implementation {'rejects' if irej else 'accepts'}, model "
                    f"{'rejects' if mrej else 'accepts'}", {"op": s["op"], "before": s["before"]})
        if irej:
            continue
        if s["op"]["op"] == "write":
            if cls == "dense":
                same = deep_eq(s["after"], m["state"])
            else:
                same = deep_eq(sparse_sorted(s["after"]), sparse_sorted(m["state"]))
                if same and not deep_eq(s["after"], m["state"]):
                    tr.tags.add("stored-order-differs-from-model")
            if not same:
                return ("corr", f"{cls} step {i}: state after the write differs from the Lean model",
                        {"op": s["op"], "before": s["before"], "impl": s["after"], "model": m["state"]})
        else:
            io, mo = s["impl_out"], m["out"]
            if "sptensor" in io and "sptensor" in mo:
                same = deep_eq(sparse_sorted(io["sptensor"]), sparse_sorted(mo["sptensor"]))
            else:
                same = deep_eq(io, mo)
            if not same:
                return ("corr", f"{cls} step {i}: read result differs from the Lean model",
                        {"op": s["op"], "before": s["before"], "impl": io, "model": mo})
    return None


def effective_history(tr):
    return [s["op"] for s in tr.steps if s["status"] == "ok"]


def spec_request(start, cls, tr):
    st = start if cls == "dense" else sparse_denote(start)
    return {"op": "c04_spec", "start": st, "ops": effective_history(tr)}


def compare_spec(tr, reply):
    """Lean specification vs Python oracle on the effective history"""
    ok_steps = [s for s in tr.steps if s["status"] == "ok"]
    for i, (s, m) in enumerate(zip(ok_steps, reply["steps"])):
        if isinstance(m["out"], dict) and m["out"].get("reject"):
            return f"Lean specification rejects step {i} of the effective history, the oracle accepts: {json.dumps(s['op'])}"
        if not deep_eq(s["oracle_state"], m["state"]):
            return f"Lean specification and Python oracle disagree on the state after {json.dumps(s['op'])}"
        if s["op"]["op"] == "read" and not deep_eq(s["oracle_out"], m["out"]):
            return f"Lean specification and Python oracle disagree on the read {json.dumps(s['op'])}"
    return None


# ----------------------------------------------------------------------------
# shrinking
# ----------------------------------------------------------------------------
def shrink_case(case):
    ops = case["ops"]
    # drop one operation
    for i in range(len(ops) - 1, -1, -1):
        yield {**case, "ops": ops[:i] + ops[i + 1:]}
    # keep only a suffix / prefix
    if len(ops) > 2:
        yield {**case, "ops": ops[len(ops) // 2:]}
        yield {**case, "ops": ops[: len(ops) // 2 + 1]}
    # simpler start
    st = case["start"]
    if "data" in st and any(st["data"]):
        yield {**case, "start": {**st, "data": [0] * len(st["data"])}}
    if st.get("subs"):
        yield {**case, "start": {**st, "subs": st["subs"][:-1], "vals": st["vals"][:-1]}}
        order = sorted(range(len(st["subs"])), key=lambda k: tuple(reversed(st["subs"][k])))
        if order != list(range(len(order))):
            yield {**case, "start": {**st, "subs": [st["subs"][k] for k in order], "vals": [st["vals"][k] for k in order]}}
    if st.get("form"):
        yield {**case, "start": {k: v for k, v in st.items() if k != "form"}}
    # plain spellings
    for i, op in enumerate(ops):
        q = copy.deepcopy(op)
        changed = False
        for d in [q["key"], q.get("rhs") or {}] + list(q["key"].get("parts", ())):
            if d.get("form") == "vec1d":
                continue  # only `extract` takes one subscript as a 1-d vector (for X[...] a 1-d array is linear)
            for f in ("form", "f", "call"):
                if f in d:
                    del d[f]
                    changed = True
        if changed:
            yield {**case, "ops": ops[:i] + [q] + ops[i + 1:]}
    # simpler keys / right-hand sides
    for i, op in enumerate(ops):
        key = op["key"]
        if key["k"] == "junk":
            continue
        if key["k"] == "region":
            for m, p in enumerate(key["parts"]):
                if "slice" in p and p["slice"] != [None, None, None]:
                    q = copy.deepcopy(op)
                    q["key"]["parts"][m] = {"slice": [None, None, None]}
                    if "rhs" in q and q["rhs"]["r"] in ("arr", "tensor"):
                        q["rhs"] = {"r": "scalar", "v": 5}
                    yield {**case, "ops": ops[:i] + [q] + ops[i + 1:]}
                if "list" in p and len(p["list"]) > 1:
                    q = copy.deepcopy(op)
                    q["key"]["parts"][m] = {"list": p["list"][:-1]}
                    if "rhs" in q and q["rhs"]["r"] in ("arr", "tensor"):
                        q["rhs"] = {"r": "scalar", "v": 5}
                    yield {**case, "ops": ops[:i] + [q] + ops[i + 1:]}
        if key["k"] == "subs" and len(key["rows"]) > 1:
            q = copy.deepcopy(op)
            q["key"]["rows"] = key["rows"][:-1]
            if "rhs" in q and q["rhs"]["r"] == "col":
                q["rhs"]["v"] = q["rhs"]["v"][: len(q["key"]["rows"])]
            yield {**case, "ops": ops[:i] + [q] + ops[i + 1:]}
        if "rhs" in op and op["rhs"]["r"] in ("arr", "tensor") and any(op["rhs"]["data"]):
            q = copy.deepcopy(op)
            q["rhs"] = {"r": "scalar", "v": 5}
            yield {**case, "ops": ops[:i] + [q] + ops[i + 1:]}


# ----------------------------------------------------------------------------
# families
# ----------------------------------------------------------------------------
class History(Family):
    """one class driven through a history: implementation vs oracle vs Lean model, every step"""
    cls = "dense"

    def size(self, case):
        return len(case["ops"]) * 1000 + len(json.dumps(case))

    def shrink(self, case):
        return shrink_case(case)

    def fixed_cases(self):
        return []

    def gen(self, rng, tier):
        out = list(self.fixed_cases())
        n = 300 if tier == "quick" else 1600
        maxlen = 12 if tier == "quick" else 40
        for _ in range(n):
            length = rng.randint(1, maxlen) if rng.random() < 0.8 else rng.randint(1, 4)
            out.append(gen_history(rng, self.cls, length, d10_rate=0.02 if self.cls == "dense" else 0.0))
        return out

    def evaluate(self, cases):
        traces = [run_object(self.cls, c["start"], c["ops"]) for c in cases]
        reqs, spans = [], []
        for c, tr in zip(cases, traces):
            r = model_requests(self.cls, tr)
            spans.append((len(reqs), len(reqs) + len(r)))
            reqs += r
            reqs.append(spec_request(c["start"], self.cls, tr))
        replies = drive(reqs)
        out = []
        for c, tr, (a, b) in zip(cases, traces, spans):
            tags = [self.cls, f"len{min(len(c['ops']) // 5 * 5, 40)}", f"start-N{len(c['start']['shape'])}"] + sorted(tr.tags)
            if tr.violation:
                i, what, detail = tr.violation
                detail = {**detail, "step": i}
                out.append(Verdict("violation", f"step {i}: {what}", detail, None, detail.get("want"), tags, True))
                continue
            bad = compare_model(self.cls, tr, replies[a:b])
            spec_bad = compare_spec(tr, replies[b])
            tags = [t for t in tags if t not in tr.tags] + sorted(tr.tags)
            if bad:
                kind, what, detail = bad
                out.append(Verdict(kind, what, detail.get("impl"), detail.get("model"), None, tags, True))
            elif spec_bad:
                out.append(Verdict("corr", spec_bad, None, None, None, tags, True))
            else:
                out.append(Verdict("ok", "", {"steps": len(tr.steps)}, None, None, tags, tr.changed))
        return out


D10_TEXT_OPS = [
    # (start shape, op) : deterministic members of the known finding, run on every invocation
    ([2, 3, 4], {"op": "read", "key": {"k": "region", "parts": [{"int": 0}, {"slice": [None, 2, None]}, {"list": [0, 2]}]}}),
    ([2, 3, 4], {"op": "read", "key": {"k": "region", "parts": [{"list": [0, 1]}, {"list": [0, 2]}, {"int": 0}]}}),
    ([2, 2, 2], {"op": "write", "key": {"k": "region", "parts": [{"list": [0, 1]}, {"list": [1, 0]}, {"int": 1}]},
                 "rhs": {"r": "scalar", "v": 8}}),
]


class DenseHistory(History):
    name = "dense_history"
    cls = "dense"
    theorems = ("C04_dense_step", "C04_dense_history", "C04_dense_start", "C04_last_write_wins",
                "C04_frame", "C04_growth_zero_filled", "C04_dense_setitem_documented_form")

    def fixed_cases(self):
        out = []
        for shape, op in D10_TEXT_OPS:
            data = list(range(1, numel(shape) + 1))
            out.append({"cls": "dense", "start": {"shape": shape, "data": data}, "ops": [op]})
        # the first assignment to the empty tensor, however the empty tensor was built, through every kind of key that can
        # create modes (open slice first / last / alone, bounded slice, integers, index list, subscripts), then read back
        A = [None, None, None]
        firsts = [[{"slice": A}, {"int": 1}], [{"slice": A}], [{"int": 1}, {"slice": A}], [{"int": 1}, {"int": 2}],
                  [{"slice": [None, 2, None]}, {"slice": A}], [{"list": [0, 2]}, {"slice": A}, {"int": 0}],
                  [{"slice": A}, {"slice": A}]]
        for form in (None, "array", "tenzeros"):
            start = {"shape": [], "data": [], **({"form": form} if form else {})}
            for parts in firsts:
                w = {"op": "write", "key": {"k": "region", "parts": parts}, "rhs": {"r": "scalar", "v": 3}}
                r = {"op": "read", "key": {"k": "region", "parts": [{"slice": A} for _ in parts]}}
                out.append({"cls": "dense", "start": dict(start), "ops": [w, r]})
            out.append({"cls": "dense", "start": dict(start),
                        "ops": [{"op": "write", "key": {"k": "subs", "rows": [[1, 2], [0, 0]]}, "rhs": {"r": "col", "v": [5, -1]}},
                                {"op": "read", "key": {"k": "lin", "i": 5}}]})
        return out


class SparseHistory(History):
    name = "sparse_history"
    cls = "sparse"
    theorems = ("C04_sparse_step", "C04_sparse_step_wf", "C04_sparse_history",
                "C04_sparse_history_wf", "C04_sparse_start", "C04_sparse_setitem_documented_form", "C04_extract",
                "C04_extract_refuses")

    def fixed_cases(self):
        # deterministic member of the known finding "repeated entry in an index list of a sparse read"
        return [{"cls": "sparse", "start": {"shape": [2, 3], "subs": [[0, 0], [1, 0], [0, 1], [1, 1], [0, 2], [1, 2]],
                                            "vals": [1, 4, 2, 5, 3, 6]},
                 "ops": [{"op": "read", "key": {"k": "region", "parts": [{"list": [1, 1]}, {"slice": [None, None, None]}]}}]},
                # an index list spelled as a NumPy array of two or more entries in a sparse read (fixed ab1b50f)
                {"cls": "sparse", "start": {"shape": [2, 3], "subs": [[0, 0], [1, 0], [0, 1], [1, 1], [0, 2], [1, 2]],
                                            "vals": [1, 4, 2, 5, 3, 6]},
                 "ops": [{"op": "read", "key": {"k": "region", "parts": [{"int": 1}, {"list": [0, 2], "f": "array"}]}}]}
                ] + self.value_spellings()

    @staticmethod
    def value_spellings():
        """every spelling of "one value per subscript" assigned to a tensor without entries, to one with entries
        elsewhere and to one holding the addressed entries (refused or stored as a column), then read back by `extract`
        (2-d and 1-d argument) and by subscripts"""
        out = []
        rows = [[0, 0], [1, 1]]
        starts = [{"shape": [2, 2], "subs": [], "vals": []}, {"shape": [2, 2], "subs": [[1, 0]], "vals": [4]},
                  {"shape": [2, 2], "subs": [[1, 1], [0, 0]], "vals": [4, -3]}]
        for st in starts:
            for form in (None, "1d", "list", "row", "column"):
                w = {"op": "write", "key": {"k": "subs", "rows": rows},
                     "rhs": {"r": "col", "v": [1, 2], **({"form": form} if form else {})}}
                out.append({"cls": "sparse", "start": dict(st), "ops": [
                    w, {"op": "read", "key": {"k": "subs", "rows": rows, "call": "extract"}},
                    {"op": "read", "key": {"k": "subs", "rows": [[1, 1]], "call": "extract", "form": "vec1d"}},
                    {"op": "read", "key": {"k": "subs", "rows": [[1, 1], [1, 0]]}}]})
        return out


class PairedHistory(Family):
    """a dense and a sparse tensor driven by the same history remain equal"""
    name = "dense_sparse_agree"
    theorems = ("C04_dense_sparse_agree",)

    def size(self, case):
        return len(case["ops"]) * 1000 + len(json.dumps(case))

    def shrink(self, case):
        return shrink_case(case)

    def gen(self, rng, tier):
        n = 200 if tier == "quick" else 1000
        maxlen = 12 if tier == "quick" else 40
        return [gen_history(rng, "both", rng.randint(1, maxlen), malformed_rate=0.03) for _ in range(n)]

    def evaluate(self, cases):
        out = []
        for c in cases:
            st = c["start"]
            dstart = sparse_denote(st)
            D = mk_obj(dstart, "dense")
            S = mk_obj(st, "sparse")
            tags, bad, changed = ["both", f"start-N{len(st['shape'])}"], None, False
            accepted = 0
            ref = start_oracle(st, "sparse")
            for i, op in enumerate(c["ops"]):
                if op["key"]["k"] == "region" and (is_d10(op["key"]) or (
                        op["op"] == "read" and has_repeated_list(op["key"]))):
                    continue  # listed findings, exercised in dense_history / sparse_history
                # only operations of the property's domain (the oracle accepts them) drive the pair
                try:
                    probe = ref.copy()
                    if op["op"] == "write":
                        probe.write(op["key"], op["rhs"])
                    else:
                        probe.read(op["key"])
                except Reject:
                    tags.append("skipped:out-of-domain")
                    continue
                snapD, snapS = copy.deepcopy(D), copy.deepcopy(S)
                res = []
                for x, cls in ((D, "dense"), (S, "sparse")):
                    try:
                        if op["op"] == "write":
                            x[mk_key(op["key"])] = mk_rhs(op["rhs"], cls)
                            res.append({"written": True})
                        else:
                            res.append(read_canon(x[mk_key(op["key"])]))
                    except Exception:  # noqa: BLE001
                        res.append(None)
                if res[0] is None or res[1] is None:
                    # refused by one class (capability limit or out of domain): neither object advances
                    D, S = snapD, snapS
                    tags.append("skipped:" + ("both" if res[0] is None and res[1] is None else "one"))
                    continue
                accepted += 1
                ref = probe
                if op["op"] == "write":
                    sd, ss = dense_state(D), sparse_state(S)
                    if sparse_wf(ss):
                        bad = (i, f"sparse tensor not well formed: {sparse_wf(ss)}", {"op": op, "sparse": ss})
                    elif not deep_eq(sd, sparse_denote(ss)):
                        bad = (i, "dense and sparse tensor differ after the same write",
                               {"op": op, "dense": sd, "sparse": ss, "before": dense_state(snapD)})
                    changed = changed or dense_state(snapD) != sd
                elif "other" in res[0] or "other" in res[1] or not deep_eq(squeeze_form(res[0]), squeeze_form(res[1])):
                    bad = (i, "dense and sparse tensor return different values for the same read",
                           {"op": op, "dense": res[0], "sparse": res[1], "before": dense_state(snapD)})
                if bad:
                    break
            tags = sorted(set(tags)) + [f"accepted{min(accepted // 4 * 4, 40)}"]
            if bad:
                i, what, detail = bad
                out.append(Verdict("violation", f"step {i}: {what}", {**detail, "step": i}, None, None, tags, True))
            else:
                out.append(Verdict("ok", "", {"accepted": accepted}, None, None, tags, changed))
        return out


# ----------------------------------------------------------------------------
# the step in front of the operations: which Python object is which kind of key
# ----------------------------------------------------------------------------
ELEMS = {"int": lambda: 1, "bool": lambda: True, "np": lambda: np.int64(2), "float": lambda: 2.0, "list": lambda: [0],
         "tuple": lambda: (0,), "arr": lambda: np.array([0]), "none": lambda: None, "str": lambda: "a"}
OBJ_ATOMS = [
    {"t": "int", "v": 3}, {"t": "int", "v": -1}, {"t": "bool"}, {"t": "np64", "v": 3}, {"t": "np32", "v": 3}, {"t": "npuint8", "v": 3},
    {"t": "float", "v": 2.0}, {"t": "float", "v": 2.5}, {"t": "npfloat", "v": 2.0}, {"t": "npbool"}, {"t": "complex"}, {"t": "none"},
    {"t": "ellipsis"}, {"t": "str", "v": "ab"}, {"t": "str", "v": ""}, {"t": "dict"}, {"t": "set"}, {"t": "object"},
    {"t": "slice", "s": [1, 4, None]}, {"t": "slice", "s": [None, None, None]}, {"t": "slice", "s": [1, None, 2], "np": True},
    {"t": "tuple", "n": 0}, {"t": "tuple", "n": 1}, {"t": "tuple", "n": 2}, {"t": "tuple", "n": 3},
    {"t": "range", "n": 0}, {"t": "range", "n": 3},
] + [{"t": "ndarray", "shape": sh, "dtype": dt} for sh in ([], [0], [1], [3], [2, 2], [0, 2], [2, 1], [1, 2], [1, 1, 2])
     for dt in ("int", "int32", "float")]


def build_obj(d):
    t = d["t"]
    if t == "int":
        return int(d["v"])
    if t == "bool":
        return True
    if t in ("np64", "np32", "npuint8"):
        return {"np64": np.int64, "np32": np.int32, "npuint8": np.uint8}[t](d["v"])
    if t == "float":
        return float(d["v"])
    if t == "npfloat":
        return np.float64(d["v"])
    if t == "npbool":
        return np.bool_(True)
    if t in ("complex", "none", "ellipsis", "dict", "set", "object"):
        return {"complex": 1j, "none": None, "ellipsis": Ellipsis, "dict": {0: 1}, "set": {1}, "object": object()}[t]
    if t == "str":
        return d["v"]
    if t == "slice":
        return slice(*(np_bounds(d["s"]) if d.get("np") else d["s"]))
    if t == "tuple":
        return tuple([0, slice(None), 1][: d["n"]])
    if t == "range":
        return range(d["n"])
    if t == "ndarray":
        sh = tuple(d["shape"])
        return np.zeros(sh, dtype={"int": int, "int32": np.int32, "float": float}[d["dtype"]])
    return [ELEMS[e]() for e in d["elems"]]  # list


def classify_obj(obj):
    """the Python type of a key object, as `KeyObj` of Ops/IndexForms.lean (written against Python / NumPy, not against
    pyttb): int (bool is an int), NumPy integer, slice, array with its number of axes, tuple, any other Sequence with the
    types of its elements, anything else"""
    from collections.abc import Sequence

    def elem(e):
        if isinstance(e, int):
            return "int"
        if isinstance(e, np.integer):
            return "npint"
        if isinstance(e, (float, np.floating)):
            return "float"
        if isinstance(e, (list, tuple, np.ndarray)):
            return "seq"
        return "other"
    if isinstance(obj, int):
        return {"t": "int"}
    if isinstance(obj, np.integer):
        return {"t": "npint"}
    if isinstance(obj, slice):
        return {"t": "slice"}
    if isinstance(obj, np.ndarray):
        return {"t": "ndarray", "ndim": obj.ndim}
    if isinstance(obj, tuple):
        return {"t": "tuple"}
    if isinstance(obj, Sequence):
        return {"t": "seq", "elems": [elem(e) for e in obj]}
    return {"t": "other"}


def documented_variant(d):
    """the access kind the documentation promises for a key object (None: no promise): an integer (Python or NumPy) or a
    slice is a linear index; a 1-d array or a non-empty list of Python ints are linear indices; a 2-d array holds
    subscripts; a tuple is a region"""
    t = d["t"]
    if t in ("int", "np64", "np32", "npuint8", "slice"):
        return "LINEAR"
    if t == "ndarray" and d["dtype"] != "float" and len(d["shape"]) in (1, 2):
        return "LINEAR" if len(d["shape"]) == 1 else "SUBSCRIPTS"
    if t == "tuple":
        return "SUBTENSOR"
    if t == "list" and d["elems"] and all(e == "int" for e in d["elems"]):
        return "LINEAR"
    return None


NO_INDEX = ("float", "npfloat", "npbool", "complex", "none", "ellipsis", "str", "dict", "set", "object")


def dispatch_receivers():
    X = np.arange(1.0, 7.0).reshape(2, 3)
    v = np.array([1.0, 0.0, 3.0])
    return [("tensor 2x3", lambda: ttb.tensor(X.copy()), "dense"), ("tensor 3", lambda: ttb.tensor(v.copy()), "dense"),
            ("sptensor 2x3", lambda: ttb.tensor(X.copy()).to_sptensor(), "sparse"),
            ("sptensor 3", lambda: ttb.tensor(v.copy()).to_sptensor(), "sparse"),
            ("empty tensor", lambda: ttb.tensor(), "dense"), ("empty sptensor", lambda: ttb.sptensor(), "sparse")]


class KeyDispatch(Family):
    """get_index_variant on every kind of key object: implementation = Lean model (`getIndexVariant`) = the documented
    kind; a key object the dispatcher does not recognise is refused by `__setitem__` of both classes (never ignored)"""
    name = "key_dispatch"
    theorems = ("C04_dispatch_documented", "C04_dispatch_unrecognised_iff", "C04_dense_setitem_documented_form",
                "C04_sparse_setitem_documented_form", "C04_dense_setitem_unrecognised_refused",
                "C04_sparse_setitem_unrecognised_refused")

    def gen(self, rng, tier):
        out = [{"obj": dict(d)} for d in OBJ_ATOMS]
        for n in range(1, 5):  # lists of Python ints of every small length, the one-element list included
            out.append({"obj": {"t": "list", "elems": ["int"] * n}})
        out.append({"obj": {"t": "list", "elems": []}})
        names = sorted(ELEMS)
        for _ in range(60 if tier == "quick" else 400):
            n = rng.randint(1, 4)
            first = rng.choice(["int", "int", "int"] + names)
            out.append({"obj": {"t": "list", "elems": [first] + [rng.choice(["int", "int"] + names) for _ in range(n - 1)]}})
        return out

    def shrink(self, case):
        d = case["obj"]
        if d["t"] == "list":
            for i in range(len(d["elems"]) - 1, -1, -1):
                yield {"obj": {**d, "elems": d["elems"][:i] + d["elems"][i + 1:]}}

    def evaluate(self, cases):
        from pyttb.pyttb_utils import get_index_variant
        objs = [build_obj(c["obj"]) for c in cases]
        replies = drive([{"op": "c04_variant", "obj": classify_obj(o)} for o in objs])
        out = []
        for c, rep in zip(cases, replies):
            d = c["obj"]
            try:
                impl = get_index_variant(build_obj(d)).name
            except Exception as e:  # noqa: BLE001
                impl = "raises"
                exc = f"{type(e).__name__}: {str(e)[:80]}"
            model = "raises" if rep.get("reject") else rep["variant"]
            want = documented_variant(d)
            tags = [d["t"] + (f"/{len(d['shape'])}-d/{d['dtype']}" if d["t"] == "ndarray" else ""),
                    "model:" + model, "documented" if want else "undocumented"]
            if d["t"] == "list":
                tags.append(f"list-len{len(d['elems'])}")
                tags.append("list-first:" + (d["elems"][0] if d["elems"] else "none"))
            bad = None
            if want and impl != want:
                bad = ("violation", f"get_index_variant takes the documented key object {json.dumps(d)} for {impl}"
                       + (f" ({exc})" if impl == "raises" else "") + f", it is a {want} key")
            elif d["t"] in NO_INDEX and impl not in ("UNKNOWN", "raises"):
                bad = ("violation", f"get_index_variant takes {json.dumps(d)}, which is no index, for {impl}")
            elif impl != model:
                bad = ("corr", f"get_index_variant({json.dumps(d)}) = {impl}, the Lean model says {model}")
            if not bad and model in ("UNKNOWN", "raises"):
                # proved for the model (C04_*_setitem_unrecognised_refused): such a key object is refused by __setitem__
                for label, mk, cls in dispatch_receivers():
                    x = mk()
                    before = state_of(x, cls)
                    try:
                        x[build_obj(d)] = 7.0
                    except Exception:  # noqa: BLE001
                        continue
                    after = state_of(x, cls)
                    bad = ("violation", f"{label}: X[{json.dumps(d)}] = 7.0 is an assignment through a key object that "
                           f"the dispatcher does not recognise; it was not refused and "
                           + ("left the tensor unchanged (the assignment is lost)" if after == before else "changed the tensor"))
                    break
            if bad:
                out.append(Verdict(bad[0], bad[1], {"variant": impl}, {"variant": model}, want, tags, True))
            else:
                out.append(Verdict("ok", "", {"variant": impl}, {"variant": model}, want, tags, impl not in ("raises",)))
        return out


def families():
    return [DenseHistory(), SparseHistory(), PairedHistory(), KeyDispatch()]
