"""C20 — generators and aggregating constructors build what they advertise.

Everything random is RECORDED: `np.random.uniform` (the only numpy.random function the
generators call today; `random_sample` / `random` / `ranf` / `sample` / `rand` are recorded the same way) is replaced by a recording stand-in for the duration of one call and
restored in `finally`; the recorded draws are handed to the Lean model, which must
reproduce the object exactly.  Two draw sources: the real generator under a seed, and a
collision-heavy dyadic source (few distinct rows) that drives the redraw loop of
`sptensor.from_function` into its pooling branch.  The stand-in honours `low` / `high` /
`size` (it returns low + (high-low)*u for unit variates u it keeps), so "uniform on [0,1)"
is asserted on the result of tenrand / sptenrand: the entries are the unit variates
themselves, all in [0,1), with either draw source.
"""
from __future__ import annotations

import itertools
import math
import random
from fractions import Fraction

import numpy as np
import pyttb as ttb

from harness import gen
from harness.lib import (Family, Verdict, call, deep_eq, dense_j, drive, jval, ktensor_j, sparse_j,
                         sparse_sorted_j, strip_exc)

RULE = ("dense generators (ones / zeros / rand / from_function / diag) on every shape of order 1..4 with at most "
        "64 cells (thorough; a sample plus fixed shapes in quick) in every shape-argument convention, element "
        "vectors of length 0..5 against shorter / longer / absent shapes; teneye for orders 0..6 and sizes 0..4; "
        "tenrand / sptenrand values asserted to be the recorded unit variates (in [0,1)) whatever interval the code asks "
        "np.random.uniform for; "
        "random sparse generators with recorded draws (real seeded and collision-heavy dyadic) for requested "
        "counts 0..size and densities up to 1 on shapes up to 64 cells; aggregating constructor on duplicate-heavy "
        "subscript lists (sorted / reversed / shuffled / grouped) with reducers sum, max, min, prod, counting and "
        "order-sensitive lambdas, inferred / exact / malformed shapes; Kruskal from_function; non-trivial = "
        "accepted and more than one cell; distinct = distinct case hash")
ASSUMPTIONS = [
    "np.random.uniform(low, high, size) returns low + (high-low)*u with u uniform in [0,1) (the stand-in computes "
    "exactly that); the stand-in's unit variates lie in (0,1) (a value draw of exactly 0.0, "
    "probability 2^-53, would be stored as an explicit zero by sptenrand)",
    "u*extent is computed exactly by the model and in double precision by the code: for the dyadic stand-in "
    "draws both agree exactly, for real 53-bit draws they agree unless the product rounds up to an integer "
    "(probability about 2^-50 per entry)",
    "densities are chosen so that size*density has the same floor in double and in exact arithmetic",
    "np.unique(axis=0) returns the distinct rows in lexicographic order with a matching inverse; "
    "numpy_groupies.aggregate hands each group's values to a callable in stored order",
]
EXHAUSTIVE = {"quick": False, "thorough": False}


# ----------------------------------------------------------------------------------------
# recording of np.random.uniform
# ----------------------------------------------------------------------------------------
class Recorder:
    """Stand-in for np.random.uniform that honours its arguments: every call draws the UNIT variates u (the
    real generator under the seed, or the dyadic pool) in the requested `size` (validated by the real
    function) and returns `low + (high - low) * u`, exactly what numpy computes.  It records, per call,
    the returned array (`calls`), the unit variates (`units`) and the interval asked for (`args`), so that
    "uniform on [0,1)" can be asserted on the object that comes out: its values must be the unit variates
    themselves (hence in [0,1)), not an affine image of them."""

    def __init__(self, src, real):
        self.calls = []
        self.units = []
        self.args = []
        self.real = real
        self.kind = src["kind"]
        if self.kind == "real":
            np.random.seed(src["seed"])
        else:
            self.rng = random.Random(src["seed"])
            self.bits = src.get("bits", 8)
            self.npool = src["pool"]
            self.pools = {}

    def _row(self, ncols):
        pool = self.pools.setdefault(ncols, [])
        if len(pool) < self.npool:
            den = 1 << self.bits
            pool.append([self.rng.randrange(1, den) / den for _ in range(ncols)])
            return pool[-1]
        return self.rng.choice(pool)

    def __call__(self, low=0.0, high=1.0, size=None):
        lo, hi = float(low), float(high)      # the generators pass scalars; anything else raises here
        u = self.real(0.0, 1.0, size)          # size validation and (kind "real") the seeded stream
        return self._emit(u, lo, hi)

    def unit(self, draw):
        """the other spellings of 'unit variates from the global stream' (random_sample / random / ranf / sample /
        rand): `draw()` calls the real function (argument validation, and the same doubles of the seeded stream as
        uniform(0, 1, size) would take); recorded exactly like a uniform(0, 1, size) call"""
        return self._emit(draw(), 0.0, 1.0)

    def _emit(self, u, lo, hi):
        if self.kind != "real":
            a = np.asarray(u, dtype=float)
            if a.ndim == 2:
                for k in range(a.shape[0]):
                    a[k, :] = self._row(a.shape[1])
            elif a.ndim == 1:
                for k in range(a.shape[0]):
                    a[k] = self._row(1)[0]
            elif a.ndim == 0:
                a = np.float64(self._row(1)[0])
            u = a
        ref = u if (lo == 0.0 and hi == 1.0) else lo + (hi - lo) * u
        self.units.append(np.array(u, dtype=float, copy=True))
        self.args.append((lo, hi))
        self.calls.append(np.array(ref, dtype=float, copy=True))
        return ref


def with_recorder(src, fn, full=False):
    """Run fn() with np.random.uniform recorded; returns (call-result, recorded arrays) and, with `full`,
    the recorder itself (unit variates and requested intervals per call)."""
    real = np.random.uniform
    rec = Recorder(src, real)
    # the property speaks of "uniform on [0,1)" and "reproducibly under the global seed", not of WHICH function of the
    # legacy global stream is called: every spelling of a unit variate is recorded the same way (harmless/C20z)
    others = {n: getattr(np.random, n) for n in ("random_sample", "random", "ranf", "sample", "rand") if hasattr(np.random, n)}
    np.random.uniform = rec
    for n, f in others.items():
        if n == "rand":
            setattr(np.random, n, (lambda *dims, _f=f: rec.unit(lambda: _f(*dims))))
        else:
            setattr(np.random, n, (lambda size=None, _f=f: rec.unit(lambda: _f(size))))
    try:
        out = call(fn)
    finally:
        np.random.uniform = real
        for n, f in others.items():
            setattr(np.random, n, f)
    if full:
        return out, rec.calls, rec
    return out, rec.calls


def unit_interval(vals):
    """every value (a canonical number: int, or a string the exact value of a double) lies in [0,1)"""
    return all(0 <= Fraction(x) < 1 for x in vals)


def mat_j(a):
    a = np.asarray(a)
    if a.ndim == 1:
        return jval(a)
    return [jval(r) for r in a]


def shape_arg(s, conv):
    """The shape-argument conventions parse_shape accepts."""
    if conv == "tuple":
        return tuple(s)
    if conv == "list":
        return list(s)
    if conv == "array":
        return np.array(s, dtype=int)
    if conv == "column":
        return np.array(s, dtype=int).reshape(-1, 1)
    if conv == "int":
        return int(s[0])
    raise ValueError(conv)


def shape_convs(rng, s):
    c = ["tuple", "list", "array", "column"]
    if len(s) == 1:
        c.append("int")
    return c


def f_index(shape, i):
    idx, mult = 0, 1
    for s, x in zip(shape, i):
        idx += x * mult
        mult *= s
    return idx


def diag_shape(N, shape):
    return [N] * N if shape is None else [max(N, d) for d in shape]


# ----------------------------------------------------------------------------------------
# dense generators
# ----------------------------------------------------------------------------------------
class DenseGen(Family):
    name = "dense_gen"
    theorems = ("C20_ones", "C20_zeros", "C20_rand_range", "C20_from_function_layout", "C20_dense_rejects",
                "C20_diag_shape_rule", "C20_tendiag", "C20_tendiag_rejects")

    def gen(self, rng, tier):
        out = []
        if tier == "thorough":
            shapes = gen.all_shapes(64, 4)
        else:
            shapes = [[3], [1], [2, 3], [4, 3], [1, 4], [2, 3, 4], [3, 1, 2], [2, 2, 3, 2], [4, 4, 4], [64], [0, 2], [2, 0]]
            shapes += [gen.shape(rng, 1, 4, 4) for _ in range(12)]
        shapes = shapes + [[], [0], [0, 3], [3, 0, 2]]
        for s in shapes:
            convs = shape_convs(rng, s)
            for k in ("ones", "zeros"):
                out.append({"k": k, "shape": s, "conv": rng.choice(convs)})
            out.append({"k": "rand", "shape": s, "conv": rng.choice(convs),
                        "src": {"kind": "real", "seed": rng.randrange(2 ** 31)}})
            if rng.random() < 0.3:
                out.append({"k": "rand", "shape": s, "conv": rng.choice(convs),
                            "src": {"kind": "pool", "seed": rng.randrange(2 ** 31), "pool": 1000, "bits": 10}})
            # from_function with the layouts a user function may return
            n = gen.numel(s)
            lay = rng.choice(["C", "F", "flat", "other", "wrong"])
            data = gen.int_values(rng, n if lay != "wrong" else n + 1, distinct=False)
            out.append({"k": "fn", "shape": s, "conv": rng.choice(convs), "layout": lay, "data": data})
        # every layout on a few fixed non-palindromic shapes
        for s in ([2, 3], [2, 3, 4], [3, 1, 2], [4]):
            for lay in ("C", "F", "flat", "other", "wrong"):
                n = gen.numel(s)
                out.append({"k": "fn", "shape": s, "conv": "tuple", "layout": lay,
                            "data": gen.int_values(rng, n if lay != "wrong" else n - 1)})
        # tendiag: element vectors longer / shorter than the shape, no shape, zeros among the elements
        lens = range(0, 6) if tier == "thorough" else range(0, 5)
        dshapes = [None, [], [1], [3], [5], [2, 2], [3, 4], [4, 2], [1, 1], [2, 3, 4], [3, 3, 3], [2, 1, 3], [2, 2, 2, 2]]
        if tier == "thorough":
            dshapes += [s for s in gen.all_shapes(36, 4) if len(s) >= 1][::5]
        for N in lens:
            for ds in dshapes:
                if ds is None and N > 4:
                    continue
                if ds is not None and gen.numel(diag_shape(N, ds)) > 700:
                    continue
                el = gen.int_values(rng, N)
                if N and rng.random() < 0.3:
                    el[rng.randrange(N)] = 0
                out.append({"k": "diag", "elements": el, "shape": ds,
                            "conv": "tuple" if ds is None else rng.choice(shape_convs(rng, ds) if ds else ["tuple", "list"]),
                            "elconv": rng.choice(["list", "array", "row"])})
        return out

    @staticmethod
    def _user_fn(c):
        s, lay, data = c["shape"], c["layout"], c["data"]

        def fn(shape):
            a = np.array(data, dtype=float)
            if lay == "flat" or lay == "wrong":
                return a
            if lay == "C":
                return a.reshape(tuple(shape), order="C")
            if lay == "F":
                return a.reshape(tuple(shape), order="F")
            return a.reshape(tuple(reversed(shape)), order="C")  # same count, other shape
        return fn

    @staticmethod
    def _fn_out(c):
        """The array the user function returns, as the model's `out` (shape, F-order values)."""
        s, lay, data = c["shape"], c["layout"], c["data"]
        a = np.array(data, dtype=float)
        if lay in ("flat", "wrong"):
            pass
        elif lay == "C":
            a = a.reshape(tuple(s), order="C")
        elif lay == "F":
            a = a.reshape(tuple(s), order="F")
        else:
            a = a.reshape(tuple(reversed(s)), order="C")
        return {"shape": list(a.shape), "data": jval(a.flatten(order="F"))}

    def evaluate(self, cases):
        impls, reqs, extra = [], [], []
        for c in cases:
            k = c["k"]
            if k in ("ones", "zeros"):
                f = ttb.tenones if k == "ones" else ttb.tenzeros
                sa = shape_arg(c["shape"], c["conv"]) if c["shape"] or c["conv"] != "int" else ()
                impls.append(call(lambda f=f, sa=sa: dense_j(f(sa))))
                reqs.append({"op": "gen_ten" + k, "shape": c["shape"]})
                extra.append(None)
            elif k == "rand":
                sa = shape_arg(c["shape"], c["conv"])
                impl, calls, rec = with_recorder(c["src"], lambda sa=sa: dense_j(ttb.tenrand(sa)), full=True)
                impls.append(impl)
                draws = jval(calls[0].reshape(-1)) if calls else []
                reqs.append({"op": "gen_tenrand", "shape": c["shape"], "draws": draws})
                extra.append({"draws": draws, "units": jval(rec.units[0].reshape(-1)) if rec.units else [],
                              "ncalls": len(calls), "args": list(rec.args)})
            elif k == "fn":
                sa = shape_arg(c["shape"], c["conv"])
                fn = self._user_fn(c)
                impls.append(call(lambda fn=fn, sa=sa: dense_j(ttb.tensor.from_function(fn, sa))))
                o = self._fn_out(c) if (c["shape"] or c["layout"] in ("flat", "wrong")) else {"shape": [], "data": jval(c["data"])}
                reqs.append({"op": "gen_from_function", "shape": c["shape"], "out": o})
                extra.append(o)
            else:
                el = c["elements"]
                if c["elconv"] == "list" or not el:
                    ea = [float(v) for v in el]
                elif c["elconv"] == "array":
                    ea = np.array(el, dtype=float)
                else:
                    ea = np.array(el, dtype=float).reshape(1, -1)
                sa = None if c["shape"] is None else shape_arg(c["shape"], c["conv"])
                impls.append(call(lambda ea=ea, sa=sa: dense_j(ttb.tendiag(ea, sa))))
                reqs.append({"op": "gen_tendiag", "elements": el, "shape": c["shape"]})
                extra.append(None)
        models = drive(reqs)
        out = []
        for c, impl, m, ex in zip(cases, impls, models, extra):
            k = c["k"]
            s = c.get("shape")
            tags = [k, "N%s" % ("none" if s is None else len(s)), "conv=" + c.get("conv", "-")]
            ic = strip_exc(impl)
            cells = 0 if "ok" not in impl else len(impl["ok"]["data"])
            v = Verdict("ok", "", impl, m, None, tags + ["accepted" if "ok" in impl else "rejected"], "ok" in impl and cells > 1)
            mismatch = not deep_eq(ic, m)
            if k in ("ones", "zeros", "rand"):
                must = bool(s)
            elif k == "fn":
                must = bool(s) and c["layout"] != "wrong"
            else:
                must = len(c["elements"]) > 0 and len(diag_shape(len(c["elements"]), s)) > 0
            if "ok" not in impl:
                if must:
                    out.append(Verdict("violation", f"{k}: a valid request (shape {s}) was rejected", impl, m, None, tags))
                elif mismatch:
                    out.append(Verdict("corr", f"{k} on shape {s}: rejected, the model accepts", impl, m, None, tags))
                else:
                    out.append(v)
                continue
            if "ok" in impl:
                got = impl["ok"]
                what = None
                if k in ("ones", "zeros"):
                    want = 1 if k == "ones" else 0
                    if got["shape"] != s or len(got["data"]) != gen.numel(s) or any(x != want for x in got["data"]):
                        what = f"ten{k}{tuple(s)} is not the all-{want} tensor of that shape"
                elif k == "rand":
                    tags.append("src=" + c["src"]["kind"])
                    if got["shape"] != s or len(got["data"]) != gen.numel(s) or not unit_interval(got["data"]):
                        what = "tenrand entry outside [0,1) or wrong shape"
                    elif not deep_eq(got["data"], ex["draws"]):
                        what = "tenrand entries are not the draws in first-index-fastest order"
                    elif ex["ncalls"] == 1 and not deep_eq(got["data"], ex["units"]):
                        # the generator supplied unit variates u and the code asked for low + (high-low)*u
                        what = (f"tenrand entries are not uniform on [0,1): they are the unit variates mapped to "
                                f"[{ex['args'][0][0]:g},{ex['args'][0][1]:g})")
                elif k == "fn":
                    if got["shape"] != s or not deep_eq(got["data"], ex["data"]):
                        what = "from_function changed the first-index-fastest value order of the produced array"
                    elif c["layout"] in ("C", "F") and s:
                        # the produced array had the requested shape: entry-wise identical
                        a = self._user_fn(c)(tuple(s))
                        if not deep_eq(got["data"], jval(a.flatten(order="F"))):
                            what = "from_function moved an entry of a correctly shaped array"
                else:
                    N = len(c["elements"])
                    cs = diag_shape(N, s)
                    spec = [0] * gen.numel(cs)
                    for i, e in enumerate(c["elements"]):
                        spec[f_index(cs, [i] * len(cs))] = e
                    v.spec = {"shape": cs, "data": spec}
                    if not deep_eq(got, v.spec):
                        what = "tendiag is not the diagonal tensor of the documented shape"
                    tags.append("longer" if s is not None and any(N > d for d in s) else "fits")
                if what:
                    out.append(Verdict("violation", what, impl, m, v.spec, tags))
                    continue
                if mismatch:
                    out.append(Verdict("corr", f"{k} on shape {s} differs from the model (the property holds on this input)",
                                       impl, m, v.spec, tags))
                    continue
            out.append(v)
        return out

    def shrink(self, case):
        if case["k"] == "diag" and case["elements"]:
            yield dict(case, elements=case["elements"][:-1])
        s = case.get("shape")
        if s and case["k"] in ("ones", "zeros", "rand"):
            for k in range(len(s)):
                if s[k] > 1:
                    yield dict(case, shape=s[:k] + [s[k] - 1] + s[k + 1:])
            if len(s) > 1:
                yield dict(case, shape=s[:-1], conv="tuple")


# ----------------------------------------------------------------------------------------
# teneye
# ----------------------------------------------------------------------------------------
class Eye(Family):
    name = "teneye"
    theorems = ("C20_teneye_entry", "C20_teneye_sym", "C20_teneye_identity", "C20_teneye_unit", "C20_teneye_rejects")

    def gen(self, rng, tier):
        out = []
        for m in (0, 1, 2, 3, 4, 5, 6):
            for n in range(0, 5):
                if m == 6 and n == 4 and tier == "quick":
                    continue
                xs = []
                for _ in range(2 if tier == "quick" else 5):
                    xs.append(gen.int_values(rng, n, -4, 4))
                out.append({"m": m, "n": n, "xs": xs, "useed": rng.randrange(2 ** 31)})
        return out

    def evaluate(self, cases):
        impls, reqs, slots = [], [], []
        for c in cases:
            m, n = c["m"], c["n"]
            impl = call(lambda m=m, n=n: ttb.teneye(m, n))
            E = impl.get("ok")
            impls.append(impl if E is None else {"ok": dense_j(E), "E": E})
            slots.append(len(reqs))
            reqs.append({"op": "gen_teneye", "m": m, "n": n})
            if E is not None and m >= 2 and n >= 1:
                for x in c["xs"]:
                    reqs.append({"op": "gen_ttsv_first", "T": {"shape": [n] * m, "data": "MODEL"}, "x": x})
        # the ttsv requests need the model's own E: two passes
        first = drive([reqs[k] for k in slots])
        second_reqs = []
        for c, k, me in zip(cases, slots, first):
            if "ok" in me:
                j = k + 1
                while j < len(reqs) and reqs[j]["op"] == "gen_ttsv_first":
                    second_reqs.append(dict(reqs[j], T=me["ok"]))
                    j += 1
        second = drive(second_reqs)
        out, p = [], 0
        for c, impl, me in zip(cases, impls, first):
            m, n = c["m"], c["n"]
            tags = [f"m{m}", f"n{n}"]
            E = impl.pop("E", None)
            ic = strip_exc(impl)
            v = Verdict("ok", "", impl, me, None, tags + ["accepted" if E is not None else "rejected"],
                        E is not None and m >= 2 and n >= 2)
            mismatch = not deep_eq(ic, me)
            has_model_ttsv = "ok" in me and E is not None and m >= 2 and n >= 1
            if E is None:
                if m % 2 == 0 and m >= 2:
                    v = Verdict("violation", f"teneye({m},{n}) of even order rejected", impl, me, None, tags)
                elif mismatch:
                    v = Verdict("corr", f"teneye({m},{n}) rejected, the model accepts", impl, me, None, tags)
                out.append(v)
                continue
            what = None
            if m % 2 == 1:
                what = "teneye accepted an odd order"
            if what is None and E.shape != (n,) * m:
                what = "teneye has the wrong shape"
            # symmetric under every mode permutation
            if what is None and n >= 1:
                for perm in itertools.permutations(range(m)):
                    if not np.array_equal(np.transpose(E.data, perm), E.data):
                        what = f"teneye({m},{n}) is not symmetric under the mode permutation {perm}"
                        break
            # identity action: exact on the model (integer x), numerical on the implementation
            if m >= 2 and n >= 1:
                h = m // 2
                for x in c["xs"]:
                    xx = sum(t * t for t in x)
                    want = {"ok": [xx ** (h - 1) * t for t in x]}
                    if has_model_ttsv:
                        r = second[p]
                        p += 1
                        if what is None and not deep_eq(want, r):
                            what = f"model: ttsv(teneye({m},{n}), x, skip first mode) != (x.x)^(m/2-1) x for x={x}"
                    if what is None:
                        y = E.ttsv(np.array(x, dtype=float), skip_dim=0)
                        y = np.atleast_1d(np.asarray(y, dtype=float))
                        if not np.allclose(y, np.array(want["ok"], dtype=float), rtol=1e-12, atol=1e-9):
                            what = f"ttsv(teneye({m},{n}), x, skip first mode) != (x.x)^(m/2-1) x for x={x}"
                r = np.random.RandomState(c["useed"])
                for _ in range(4):
                    u = r.standard_normal(n)
                    u /= np.linalg.norm(u)
                    y = np.atleast_1d(np.asarray(E.ttsv(u, skip_dim=0), dtype=float))
                    if what is None and np.max(np.abs(y - u)) > 1e-12:
                        what = f"teneye({m},{n}) does not act as the identity on the unit vector {u.tolist()}"
            if what:
                v = Verdict("violation", what, impl, me, None, tags)
            elif mismatch:
                v = Verdict("corr", f"teneye({m},{n}) differs from the model (symmetric and acts as the identity)", impl, me, None, tags)
            out.append(v)
        return out


# ----------------------------------------------------------------------------------------
# random sparse generators
# ----------------------------------------------------------------------------------------
def dens_ok(size, d):
    """size*d has the same floor / the same side of 1 in double and exact arithmetic."""
    ex = Fraction(size) * Fraction(d)
    fl = float(size * d)
    return math.floor(ex) == math.floor(Fraction(fl)) and (ex < 1) == (fl < 1) and math.ceil(ex) == math.ceil(Fraction(fl))


class SparseRand(Family):
    name = "sparse_rand"
    theorems = ("C20_sptenrand_request", "C20_sptenrand_eq", "C20_sptenrand_wf", "C20_sptenrand_count",
                "C20_reproducible", "C20_sptenrand_rejects", "C20_sptenrand_pinned_counterexample")

    def gen(self, rng, tier):
        out = []

        def src(kind=None):
            kind = kind or rng.choice(["real", "real", "pool", "pool", "poolsmall"])
            if kind == "real":
                return {"kind": "real", "seed": rng.randrange(2 ** 31)}
            if kind == "pool":
                return {"kind": "pool", "seed": rng.randrange(2 ** 31), "pool": rng.choice([8, 20, 60, 200]), "bits": 8}
            return {"kind": "pool", "seed": rng.randrange(2 ** 31), "pool": rng.randint(1, 4), "bits": 6}

        if tier == "thorough":
            shapes = [s for s in gen.all_shapes(64, 3)]
            shapes += [s for s in gen.all_shapes(64, 4) if len(s) == 4][::7]
        else:
            shapes = [[3], [1], [2, 2], [2, 3], [4, 3], [3, 3, 3], [1, 4], [2, 3, 4], [3, 1, 2], [2, 2, 3, 2], [4, 4, 4], [64], [8, 8]]
            shapes += [gen.shape(rng, 1, 4, 4) for _ in range(6)]
        for s in shapes:
            size = gen.numel(s)
            small = size <= (12 if tier == "thorough" else 6)
            if small:
                counts = list(range(0, size + 2))
            else:
                counts = sorted({0, 1, size - 1, size, size + 1} | {rng.randint(1, size) for _ in range(2)})
            for k in counts:
                fn = rng.choice(["sptenrand", "from_function", "from_function"])
                c = {"fn": fn, "shape": s, "nonzeros": k, "density": None, "src": src(),
                     "conv": rng.choice(shape_convs(rng, s)), "vals": rng.choice(["ones", "ints", "ints", "intz"]),
                     "vseed": rng.randrange(2 ** 31)}
                if rng.random() < 0.2 and k >= 1:
                    c["nonzeros"] = {"float": k + rng.choice([0.0, 0.25, 0.5])}
                out.append(c)
            # near saturation: the redraw / pooling branch
            for k in {max(1, size - 1), size}:
                out.append({"fn": "sptenrand", "shape": s, "nonzeros": k, "density": None,
                            "src": src(rng.choice(["real", "pool", "poolsmall"])),
                            "conv": "tuple", "vals": "ones", "vseed": 0})
            # densities (sptenrand) and fractional nonzeros (from_function reads them as a density)
            dens = {Fraction(1), Fraction(rng.choice([1, 2, 3]), 4), Fraction(1, rng.choice([64, 1024]))}
            dens |= {Fraction(k, size) for k in range(1, size + 1)} if small else \
                {Fraction(rng.randint(1, size), size) for _ in range(2)}
            for d in sorted(dens):
                df = float(d)
                if not dens_ok(size, df):
                    continue
                out.append({"fn": "sptenrand", "shape": s, "nonzeros": None, "density": df, "src": src(),
                            "conv": rng.choice(shape_convs(rng, s)), "vals": "ones", "vseed": 0})
                if d < 1 and rng.random() < 0.3:
                    out.append({"fn": "from_function", "shape": s, "nonzeros": {"float": df}, "density": None, "src": src(),
                                "conv": "tuple", "vals": "ints", "vseed": rng.randrange(2 ** 31)})
        # malformed requests
        for s in ([2, 3], [4], [2, 2, 2]):
            size = gen.numel(s)
            for bad in ({"nonzeros": -1}, {"nonzeros": size + 1}, {"nonzeros": {"float": -0.5}},
                        {"nonzeros": None, "density": None}, {"nonzeros": 2, "density": 0.5},
                        {"nonzeros": None, "density": 0.0}, {"nonzeros": None, "density": 1.5},
                        {"nonzeros": None, "density": -0.25}):
                c = {"fn": "sptenrand", "shape": s, "nonzeros": None, "density": None, "src": src("real"),
                     "conv": "tuple", "vals": "ones", "vseed": 0, "bad": True}
                c.update(bad)
                out.append(c)
        return out

    @staticmethod
    def _nz(c):
        nz = c["nonzeros"]
        if isinstance(nz, dict):
            return float(nz["float"])
        return nz

    def _run(self, c):
        """One execution of the implementation with recorded draws."""
        s = c["shape"]
        sa = shape_arg(s, c["conv"])
        nz = self._nz(c)
        fvals = []

        def fh(shape):
            n = int(shape[0])
            r = random.Random(c["vseed"])
            if c["vals"] == "ones":
                a = np.ones(shape)
            else:
                pool = [v for v in range(-9, 10) if v or c["vals"] == "intz"]
                a = np.array([r.choice(pool) for _ in range(n)], dtype=float).reshape(shape)
            fvals.append(a.copy())
            return a

        if c["fn"] == "sptenrand":
            def run():
                kw = {}
                if c["density"] is not None:
                    kw["density"] = c["density"]
                if nz is not None:
                    kw["nonzeros"] = nz
                return ttb.sptenrand(sa, **kw)
        else:
            def run():
                return ttb.sptensor.from_function(fh, sa, nz)

        def wrapped():
            S = run()
            return {"S": sparse_j(S), "nnz": int(S.nnz), "vshape": list(np.asarray(S.vals).shape)}
        impl, calls, rec = with_recorder(c["src"], wrapped, full=True)
        info = {"units": None, "vargs": None, "sargs": list(rec.args)}
        if c["fn"] == "sptenrand":
            vdraw = calls[-1] if calls else np.zeros((0, 1))
            draws = calls[:-1]
            vals = jval(np.asarray(vdraw).reshape(-1))
            if calls:
                info = {"units": jval(rec.units[-1].reshape(-1)), "vargs": rec.args[-1], "sargs": list(rec.args[:-1])}
        else:
            draws = calls
            vals = jval(fvals[-1].reshape(-1)) if fvals else []
        return impl, draws, vals, info

    def evaluate(self, cases):
        impls, reqs, recs = [], [], []
        for c in cases:
            impl, draws, vals, info = self._run(c)
            # reproducibility under the global seed: the same seed twice gives the identical object
            if c["src"]["kind"] == "real":
                impl2, _, _, _ = self._run(c)
                if strip_exc(impl) != strip_exc(impl2):
                    impl = dict(impl, irreproducible=True)
            nz = self._nz(c)
            rq = {"op": "gen_sptenrand" if c["fn"] == "sptenrand" else "gen_sp_from_function", "shape": c["shape"],
                  "draws": [mat_j(d) for d in draws], "vals": vals}
            if c["fn"] == "sptenrand":
                rq["density"] = None if c["density"] is None else jval(c["density"])
                rq["nonzeros"] = None if nz is None else jval(nz)
            else:
                rq["nonzeros"] = jval(nz)
            if "ok" in impl:
                impl["ok"]["cnt"] = len(draws)
            impls.append(impl)
            reqs.append(rq)
            recs.append((draws, vals, info))
        models = drive(reqs)
        out = []
        for c, impl, m, (draws, vals, info) in zip(cases, impls, models, recs):
            s = c["shape"]
            size = gen.numel(s)
            tags = [c["fn"], f"N{len(s)}", "src=" + c["src"]["kind"] + ("-small" if c["src"].get("pool", 99) <= 4 else ""),
                    "draws=%d" % len(draws)]
            if impl.get("irreproducible"):
                out.append(Verdict("violation", f"{c['fn']} returned different tensors for the same seed", impl, m, None, tags))
                continue
            ic = strip_exc(impl)
            if "ok" in ic:
                ic = {"ok": {"S": sparse_sorted_j(ic["ok"]["S"]), "cnt": ic["ok"]["cnt"]}}
            mc = m if "ok" not in m else {"ok": {"S": sparse_sorted_j(m["ok"]["S"]), "cnt": m["ok"]["cnt"]}}
            if c.get("bad") and "ok" in impl:
                out.append(Verdict("violation", f"{c['fn']} accepted a malformed request", impl, m, None, tags + ["bad"]))
                continue
            mismatch = not deep_eq(ic, mc)
            if "ok" not in impl:
                nz = self._nz(c)
                legit = (not c.get("bad")) and (c["density"] is not None or (nz is not None and 0 <= nz <= size))
                if legit:
                    out.append(Verdict("violation", f"{c['fn']} rejected a request within the tensor size", impl, m, None, tags))
                elif mismatch:
                    out.append(Verdict("corr", f"{c['fn']} rejected, the model accepts", impl, m, None, tags))
                else:
                    out.append(Verdict("ok", "", impl, m, None, tags + ["rejected"], False))
                continue
            S = impl["ok"]["S"]
            subs, svals = S["subs"], S["vals"]
            # the request as a count
            nz = self._nz(c)
            if c["density"] is not None:
                q = Fraction(size) * Fraction(c["density"])
                want = max(1, math.floor(q))
            elif nz < 1:
                want = math.ceil(Fraction(size) * Fraction(nz))
            else:
                want = math.floor(nz)
            # what the draws make reachable: the loop stops at the first draw with `want` distinct rows,
            # otherwise all (at most ten) draws are pooled
            per_draw = []
            pool = set()
            for d in draws:
                rows = {tuple(int(math.floor(Fraction(float(u)) * e)) for u, e in zip(r, s)) for r in np.asarray(d)}
                per_draw.append(len(rows))
                pool |= rows
            reachable = want == 0 or any(k >= want for k in per_draw) or len(pool) >= want
            what = None
            tset = [tuple(r) for r in subs]
            if S["shape"] != s:
                what = "wrong shape"
            elif len(subs) != len(svals) or impl["ok"]["nnz"] != len(subs):
                what = "subscripts and values differ in number"
            elif any(len(r) != len(s) or any(not (0 <= x < e) for x, e in zip(r, s)) for r in subs):
                what = "subscript out of range"
            elif len(set(tset)) != len(tset):
                what = "repeated subscript"
            elif not deep_eq(sorted(svals, key=str), sorted(vals, key=str)):
                what = "values are not the ones the function returned"
            elif c["fn"] == "sptenrand" and not unit_interval(svals):
                what = "value outside [0,1)"
            elif c["fn"] == "sptenrand" and info["units"] is not None and \
                    not deep_eq(sorted(svals, key=str), sorted(info["units"], key=str)):
                # the generator supplied unit variates u and the code asked for low + (high-low)*u
                what = ("values are not uniform on [0,1): they are the unit variates mapped to "
                        f"[{info['vargs'][0]:g},{info['vargs'][1]:g})")
            elif c["vals"] != "intz" and any(x == 0 for x in svals):
                what = "stored zero"
            elif reachable and len(subs) != want:
                what = f"{len(subs)} nonzeros instead of the requested {want} although the draws contain {max(per_draw + [len(pool)])} distinct subscripts"
            elif not reachable and len(subs) != min(want, len(pool)):
                what = "count differs from the number of distinct drawn subscripts"
            elif want > 0 and len(draws) > 10:
                what = "more than ten draws"
            tags.append("reached" if len(subs) == want else "short")
            tags.append("pooled" if (per_draw and all(k < want for k in per_draw)) else "single")
            if c["density"] is not None:
                tags.append("density")
            v = Verdict("ok", "", impl, m, None, tags, len(subs) > 1)
            if what:
                v = Verdict("violation", f"{c['fn']}: {what}", impl, m, None, tags)
            elif mismatch:
                v = Verdict("corr", f"{c['fn']} with recorded draws differs from the model (well-formed, requested count)",
                            impl, m, None, tags)
            out.append(v)
        return out

    def shrink(self, case):
        s = case["shape"]
        nz = case["nonzeros"]
        if isinstance(nz, int) and nz > 1:
            yield dict(case, nonzeros=nz - 1)
        for k in range(len(s)):
            if s[k] > 1:
                yield dict(case, shape=s[:k] + [s[k] - 1] + s[k + 1:])


# ----------------------------------------------------------------------------------------
# aggregating constructor and sptendiag
# ----------------------------------------------------------------------------------------
def _altsum(x):
    return float(sum(x[::2]) - sum(x[1::2]))


REDUCERS = {
    "sum": ("sum", "sum"),
    "max": ("max", "max"),
    "min": ("min", "min"),
    "prod": ("prod", "prod"),
    "len": ("len", lambda x: len(x)),
    "first": ("first", lambda x: x[0]),
    "last": ("last", lambda x: x[-1]),
    "altsum": ("altsum", _altsum),
    "max_builtin": ("max", max),
    "np_min": ("min", np.min),
    "np_sum": ("sum", np.sum),
}
#: reducers whose value depends on the order in which a group's values are presented (the property speaks
#: about order-free reducers; for these a disagreement is a correspondence finding, not a violation)
ORDER_SENSITIVE = {"first", "last", "altsum"}
PY_REDUCER = {
    "sum": lambda x: sum(x), "max": max, "min": min, "prod": lambda x: math.prod(x), "len": len,
    "first": lambda x: x[0], "last": lambda x: x[-1], "altsum": _altsum,
}


class Aggregator(Family):
    name = "aggregator"
    theorems = ("C20_aggregator", "C20_aggregator_sum", "C20_aggregator_perm", "C20_aggregator_empty",
                "C20_aggregator_rejects", "C20_sptendiag", "C20_sptendiag_tendiag")

    def gen(self, rng, tier):
        out = []
        n = 150 if tier == "quick" else 2500
        for _ in range(n):
            s = gen.shape(rng, 1, 4, 4)
            cells = gen.all_subs(s)
            pool = rng.sample(cells, min(len(cells), rng.randint(1, 4)))
            k = rng.choice([0, 1, 1, 2, 3, 5, 8, 12])
            subs = [list(rng.choice(pool)) for _ in range(k)]
            order = rng.choice(["sorted", "reversed", "shuffled", "grouped"])
            if order == "sorted":
                subs.sort()
            elif order == "reversed":
                subs.sort(reverse=True)
            elif order == "grouped":
                subs.sort(key=lambda r: pool.index(r))
            vals = gen.int_values(rng, k, -6, 6)
            mode = rng.random()
            if mode < 0.2 and k >= 2:  # engineered cancellation: a group that sums to zero
                t = subs[0]
                idx = [i for i, r in enumerate(subs) if r == t]
                tot = sum(vals[i] for i in idx[:-1])
                vals[idx[-1]] = -tot
            elif mode < 0.3:
                vals = [min(v, 0) for v in vals]  # max can be zero
            elif mode < 0.4:
                vals = [max(v, 0) for v in vals]  # min can be zero
            red = rng.choice(list(REDUCERS))
            shp = rng.choice(["exact", "exact", "none", "bigger"])
            shape = {"exact": s, "none": None, "bigger": [e + rng.randint(0, 2) for e in s]}[shp]
            out.append({"k": "agg", "subs": subs, "vals": vals, "shape": shape, "reducer": red, "order": order,
                        "ncols": len(s)})
        # malformed / boundary requests
        for _ in range(20 if tier == "quick" else 200):
            s = gen.shape(rng, 1, 3, 3)
            cells = gen.all_subs(s)
            k = rng.randint(1, 5)
            subs = [list(rng.choice(cells)) for _ in range(k)]
            vals = gen.int_values(rng, k, -6, 6, nonzero=True)
            bad = rng.choice(["small", "short", "long", "zero", "neg", "len", "len1"])
            c = {"k": "agg", "subs": subs, "vals": vals, "shape": list(s), "reducer": rng.choice(["sum", "max", "len"]),
                 "order": "shuffled", "ncols": len(s), "bad": bad}
            if bad == "small":
                j = rng.randrange(len(s))
                c["shape"][j] = max(r[j] for r in subs)  # one too small
                if c["shape"][j] == 0:
                    c["bad"] = "zero"
            elif bad == "short":
                c["shape"] = s[:-1]
            elif bad == "long":
                c["shape"] = s + [2]
            elif bad == "zero":
                c["shape"][rng.randrange(len(s))] = 0
            elif bad == "neg":
                subs[rng.randrange(k)][rng.randrange(len(s))] = -1
            elif bad == "len":
                c["vals"] = vals + [1] if rng.random() < 0.5 else vals[:-1]
            else:
                c["subs"] = subs[:1]
                c["vals"] = vals[:1] + [3]
            out.append(c)
        # sptendiag next to tendiag
        lens = range(0, 5)
        for N in lens:
            for ds in (None, [], [1], [3], [5], [2, 2], [3, 4], [4, 2], [2, 3, 4], [2, 1, 3], [2, 2, 2, 2]):
                if ds is None and N > 4:
                    continue
                for _ in range(1 if tier == "quick" else 3):
                    el = gen.int_values(rng, N)
                    if N and rng.random() < 0.5:
                        el[rng.randrange(N)] = 0
                    out.append({"k": "diag", "elements": el, "shape": ds})
        return out

    def evaluate(self, cases):
        impls, reqs = [], []
        for c in cases:
            if c["k"] == "agg":
                ncols = c["ncols"]
                subs = np.array(c["subs"], dtype=int).reshape(len(c["subs"]), ncols)
                vals = np.array(c["vals"], dtype=float).reshape(-1, 1)
                name, fn = REDUCERS[c["reducer"]]
                shp = None if c["shape"] is None else tuple(c["shape"])
                impls.append(call(lambda subs=subs, vals=vals, shp=shp, fn=fn:
                                  sparse_j(ttb.sptensor.from_aggregator(subs, vals, shp, fn))))
                reqs.append({"op": "gen_aggregator", "subs": c["subs"], "vals": c["vals"], "shape": c["shape"], "reducer": name})
            else:
                el = [float(v) for v in c["elements"]]
                shp = None if c["shape"] is None else tuple(c["shape"])
                impls.append(call(lambda el=el, shp=shp: {"sp": sparse_j(ttb.sptendiag(el, shp)),
                                                          "dense": call(lambda: dense_j(ttb.tendiag(el, shp)))}))
                reqs.append({"op": "gen_sptendiag", "elements": c["elements"], "shape": c["shape"]})
        models = drive(reqs)
        out = []
        for c, impl, m in zip(cases, impls, models):
            if c["k"] == "diag":
                out.append(self._diag(c, impl, m))
                continue
            name = REDUCERS[c["reducer"]][0]
            tags = ["agg", "red=" + c["reducer"], "order=" + c["order"], f"N{c['ncols']}", "rows=%d" % min(len(c["subs"]), 3),
                    "shape=" + ("none" if c["shape"] is None else "given")]
            ic = strip_exc(impl)
            if c.get("bad"):
                tags.append("bad=" + c["bad"])
                if "ok" in impl and c["bad"] != "long" or ("ok" in impl and len(c["subs"]) > 0 and c["bad"] == "long"):
                    out.append(Verdict("violation", f"from_aggregator accepted a malformed request ({c['bad']})", impl, m, None, tags))
                    continue
            icmp = ic if "ok" not in ic else {"ok": sparse_sorted_j(ic["ok"])}
            mcmp = m if "ok" not in m else {"ok": sparse_sorted_j(m["ok"])}
            mismatch = not deep_eq(icmp, mcmp)
            if "ok" not in impl:
                ok_request = (not c.get("bad")) and (c["shape"] is not None or len(c["subs"]) > 0)
                if ok_request:
                    out.append(Verdict("violation", "from_aggregator rejected a well-formed request", impl, m, None, tags))
                elif mismatch:
                    out.append(Verdict("corr", "from_aggregator rejected, the model accepts", impl, m, None, tags))
                else:
                    out.append(Verdict("ok", "", impl, m, None, tags + ["rejected"], False))
                continue
            # the property itself, computed independently: group in stored order, reduce, drop zeros
            groups = {}
            for r, v in zip(c["subs"], c["vals"]):
                groups.setdefault(tuple(r), []).append(float(v))
            red = PY_REDUCER[name]
            spec = {k: red(g) for k, g in groups.items()}
            spec = {k: v for k, v in spec.items() if v != 0}
            S = impl["ok"]
            shape = c["shape"] if c["shape"] is not None else [max(r[j] for r in c["subs"]) + 1 for j in range(c["ncols"])]
            got = {tuple(r): v for r, v in zip(S["subs"], S["vals"])}
            tset = [tuple(r) for r in S["subs"]]
            what = None
            if S["shape"] != list(shape):
                what = "wrong shape"
            elif len(S["subs"]) != len(S["vals"]) or len(set(tset)) != len(tset):
                what = "result is not well-formed (lengths / repeated subscript)"
            elif any(v == 0 for v in S["vals"]):
                what = "a zero result was stored"
            elif set(got) != set(spec) or any(not deep_eq(jval(got[k]), jval(spec[k])) for k in spec):
                what = f"entries are not the {name} of the values stored under each subscript"
            tags.append("dropped" if len(spec) < len(groups) else "kept")
            tags.append("dups" if len(groups) < len(c["subs"]) else "nodups")
            v = Verdict("ok", "", impl, m, {"shape": list(shape), "entries": [[list(k), jval(x)] for k, x in sorted(spec.items())]},
                        tags, len(c["subs"]) > 1)
            if what and name in ORDER_SENSITIVE and what.startswith("entries"):
                v = Verdict("corr", "from_aggregator: " + what + " (order-sensitive reducer)", impl, m, v.spec, tags)
            elif what:
                v = Verdict("violation", "from_aggregator: " + what, impl, m, v.spec, tags)
            elif mismatch:
                v = Verdict("corr", "from_aggregator differs from the model (the property holds on this input)", impl, m, v.spec, tags)
            out.append(v)
        return out

    def _diag(self, c, impl, m):
        N = len(c["elements"])
        s = c["shape"]
        tags = ["sptendiag", "N%s" % ("none" if s is None else len(s)), f"len{N}"]
        ic = strip_exc(impl)
        if "ok" in ic:
            ic = {"ok": sparse_sorted_j(ic["ok"]["sp"])}
        mc = m if "ok" not in m else {"ok": sparse_sorted_j(m["ok"])}
        mismatch = not deep_eq(ic, mc)
        if "ok" not in impl:
            if N > 0 and (s is None or all(e > 0 for e in s)):
                return Verdict("violation", "sptendiag rejected a valid request", impl, m, None, tags + ["rejected"], False)
            return Verdict("corr" if mismatch else "ok", "sptendiag rejected, the model accepts" if mismatch else "",
                           impl, m, None, tags + ["rejected"], False)
        S = impl["ok"]["sp"]
        cs = diag_shape(N, s)
        spec = {tuple([i] * len(cs)): e for i, e in enumerate(c["elements"]) if e != 0} if cs else {}
        got = {tuple(r): v for r, v in zip(S["subs"], S["vals"])}
        what = None
        if S["shape"] != cs:
            what = "sptendiag has the wrong shape"
        elif len(got) != len(S["subs"]) or any(v == 0 for v in S["vals"]):
            what = "sptendiag result is not well-formed"
        elif set(got) != set(spec) or any(not deep_eq(jval(got[k]), jval(spec[k])) for k in spec):
            what = "sptendiag is not the diagonal tensor"
        d = impl["ok"]["dense"]
        if what is None and "ok" in d and cs:
            data = [0] * gen.numel(cs)
            for k, v in got.items():
                data[f_index(cs, list(k))] = v
            if d["ok"]["shape"] != cs or not deep_eq(d["ok"]["data"], jval(data)):
                what = "sptendiag and tendiag denote different tensors"
        tags.append("zero-elt" if any(e == 0 for e in c["elements"]) else "nonzero")
        if what:
            return Verdict("violation", what, impl, m, None, tags)
        if mismatch:
            return Verdict("corr", "sptendiag differs from the model (the property holds on this input)", impl, m, None, tags)
        return Verdict("ok", "", impl, m, None, tags, N > 1)

    def shrink(self, case):
        if case["k"] == "agg" and len(case["subs"]) > 0 and len(case["subs"]) == len(case["vals"]):
            for i in range(len(case["subs"])):
                yield dict(case, subs=case["subs"][:i] + case["subs"][i + 1:], vals=case["vals"][:i] + case["vals"][i + 1:])
        if case["k"] == "diag" and case["elements"]:
            yield dict(case, elements=case["elements"][:-1])


# ----------------------------------------------------------------------------------------
# ktensor.from_function
# ----------------------------------------------------------------------------------------
class KtensorGen(Family):
    name = "ktensor_gen"
    theorems = ("C20_ktensor_from_function", "C20_ktensor_rejects")

    def gen(self, rng, tier):
        out = []
        for _ in range(30 if tier == "quick" else 300):
            s = gen.shape(rng, 1, 4, 4)
            R = rng.randint(0, 3)
            out.append({"shape": s, "R": R, "fn": rng.choice(["ones", "ints", "ints", "zeros"]), "seed": rng.randrange(2 ** 31),
                        "conv": rng.choice(shape_convs(rng, s)), "bad": None})
        for s in ([2, 3], [3], [2, 2, 2]):
            out.append({"shape": s, "R": 2, "fn": "ints", "seed": 1, "conv": "tuple", "bad": "cols"})
        out.append({"shape": [], "R": 2, "fn": "ones", "seed": 1, "conv": "tuple", "bad": "order0"})
        return out

    def evaluate(self, cases):
        impls, reqs = [], []
        for c in cases:
            outs = []
            r = random.Random(c["seed"])

            def fh(shape, c=c, r=r, outs=outs):
                rows, cols = int(shape[0]), int(shape[1])
                if c["bad"] == "cols" and len(outs) == len(c["shape"]) - 1:
                    cols += 1
                if c["fn"] == "ones":
                    a = np.ones((rows, cols))
                elif c["fn"] == "zeros":
                    a = np.zeros((rows, cols))
                else:
                    a = np.array([[r.randint(-5, 5) for _ in range(cols)] for _ in range(rows)], dtype=float).reshape(rows, cols)
                outs.append(a.copy())
                return a
            sa = shape_arg(c["shape"], c["conv"]) if c["shape"] else ()
            impls.append(call(lambda fh=fh, sa=sa, c=c: ktensor_j(ttb.ktensor.from_function(fh, sa, c["R"]))))
            reqs.append({"op": "gen_k_from_function", "shape": c["shape"], "R": c["R"], "outs": [mat_j(a) for a in outs]})
        models = drive(reqs)
        out = []
        for c, impl, m, rq in zip(cases, impls, models, reqs):
            tags = [f"N{len(c['shape'])}", f"R{c['R']}", c["fn"], "bad=%s" % c["bad"]]
            ic = strip_exc(impl)
            mismatch = not deep_eq(ic, m)
            if "ok" not in impl:
                if not c["bad"]:
                    out.append(Verdict("violation", "ktensor.from_function rejected a valid request", impl, m, None, tags, False))
                else:
                    out.append(Verdict("corr" if mismatch else "ok", "rejected, the model accepts" if mismatch else "",
                                       impl, m, None, tags, False))
                continue
            K = impl["ok"]
            what = None
            if c["bad"]:
                what = "ktensor.from_function accepted factor matrices of different widths"
            elif K["weights"] != [1] * c["R"]:
                what = "weights are not all one"
            elif not deep_eq(K["factors"], rq["outs"]):
                what = "factor matrices are not the arrays the function returned, in mode order"
            elif [len(f) for f in K["factors"]] != c["shape"]:
                what = "wrong shape"
            if what:
                out.append(Verdict("violation", what, impl, m, None, tags))
            elif mismatch:
                out.append(Verdict("corr", "ktensor.from_function differs from the model", impl, m, None, tags))
            else:
                out.append(Verdict("ok", "", impl, m, None, tags, c["R"] > 0))
        return out


def families():
    return [DenseGen(), Eye(), SparseRand(), Aggregator(), KtensorGen()]
