"""C03 — sparse element-wise arithmetic, logic and comparison match dense semantics.

Every evaluation runs the real sptensor operation and checks, in this order,
 (1) it does not raise on a valid request,
 (2) a sparse result is well-formed by direct inspection (one value per subscript row,
     integer in-range distinct subscripts, no explicit zero, nnz = stored rows),
 (3) the result, expanded, equals the same operation applied by NumPy to the fully
     expanded operands at every cell (IEEE division under np.errstate),
 (4) the stored form (shape, subscript rows and values in stored order) equals the
     Lean model's, executed on the same inputs (division at the extended rationals).
(1)-(3) are the property on the implementation, (4) is the correspondence.
"""
from __future__ import annotations

import itertools
import operator
import random
import warnings

import numpy as np
import pyttb as ttb

from harness import gen
from harness.lib import Family, Verdict, call, deep_eq, dense_j, drive, jval, sparse_j

warnings.filterwarnings("ignore")

OPS = ["add", "sub", "mul", "div", "and", "or", "xor", "eq", "ne", "lt", "le", "gt", "ge"]
KINDS = ["scalar", "sparse", "dense"]
VALUES = [-2, -1, 1, 2]
ENUM_SCALARS = [-1, 0, 1]

RULE = ("binary operations + - * / and or xor == != < <= > >= of a sparse tensor with a scalar (int and float), a "
        "sparse and a dense right-hand side, values from {-2,-1,1,2}. Enumerated (thorough): (i) every shape "
        "with <= 4 cells (orders 1..3, singleton modes included): every pair of sparsity patterns x every "
        "operation x {sparse, dense} and every pattern x scalars {-1,0,1}; (ii) every shape with <= 3 cells and "
        "the shapes [4], [2,2]: every pair of patterns under EVERY stored order of both operands (<= 3 nonzeros: "
        "all n! orders, 4 nonzeros: sorted/reversed/2 shuffles) for the sparse right-hand side; (iii) the 1-way "
        "arrays with 5..8 cells and the shapes [2,3], [3,2]: every pair of sparsity patterns, one (operation, "
        "kind) per pair in rotation so that every operation meets every 13th/26th pair; quick enumerates (i) "
        "for <= 3 cells and (ii) for <= 2 cells. Sampled: random shapes of order 1..4 with up to 36 cells, "
        "operands empty / single / some / full, all operations and kinds, scalars {-2..2} as int and float; "
        "a family `value_dtypes`: every operation x rhs kind with stored values of dtype int64 / int32 / int16 / int8 / "
        "bool / float32 (sparse and dense right-hand sides of the same, of int64 and of float64 dtype; scalars 4, 0, -2 "
        "as Python int and float, np.int64 for `*`), operands (6,7,3,-5) over divisors (4,-2,8) so that quotients are "
        "non-integral and stored entries sit over implicit zeros of the divisor, reference = NumPy on the expanded "
        "arrays of the same dtypes, `/` must return floating values; unary - + not ones elemfun, c*S, c/S, S*ktensor, extract, mask, from_aggregator with repeated "
        "subscripts and cancelling values; shape mismatches; a family `kruskal_rhs`: S*K, K*S, S/K, K/S for Kruskal tensors of rank "
        "1..3 (entries of both signs and zeros; all-positive; all-negative; zero on a whole slice; two cancelling components) on "
        "12 fixed shapes (singleton modes, repeated and pairwise distinct extents, orders 1..4) and random ones, operands empty / "
        "single / some / full in sorted / reversed / shuffled stored order, `*` against the dense product, `/` against its "
        "documented semantics S.vals / np.maximum(eps, K[subs]) on the pattern of S (outside the letter of C03; an empty operand "
        "may raise or give an empty result), mismatching shapes, and S*T, S/T, T*S, T/S for Tucker tensors (all refused). Non-trivial = accepted and at least one operand "
        "with a stored entry; distinct = distinct case hash")
ASSUMPTIONS = [
    "IEEE double arithmetic on the generated small integers is exact; quotients are compared with the correctly "
    "rounded double of the model's exact rational",
    "signed zero is not modelled (generators never produce -0.0; 0/y is stored nowhere)",
    "np.unique(axis=0) orders rows lexicographically; numpy_groupies.aggregate hands the reducer the values in "
    "stored order",
]
EXHAUSTIVE = {"quick": False, "thorough": True}

B = lambda f: (lambda a, b: f(a, b).astype(float))  # noqa: E731
IMPL = {
    "add": lambda a, b: a + b, "sub": lambda a, b: a - b, "mul": lambda a, b: a * b, "div": lambda a, b: a / b,
    "and": lambda a, b: a.logical_and(b), "or": lambda a, b: a.logical_or(b), "xor": lambda a, b: a.logical_xor(b),
    "eq": operator.eq, "ne": operator.ne, "lt": operator.lt, "le": operator.le, "gt": operator.gt, "ge": operator.ge,
}
SPEC = {
    "add": np.add, "sub": np.subtract, "mul": np.multiply, "div": np.divide,
    "and": B(lambda a, b: np.logical_and(a != 0, b != 0)), "or": B(lambda a, b: np.logical_or(a != 0, b != 0)),
    "xor": B(lambda a, b: np.logical_xor(a != 0, b != 0)),
    "eq": B(np.equal), "ne": B(np.not_equal), "lt": B(np.less), "le": B(np.less_equal),
    "gt": B(np.greater), "ge": B(np.greater_equal),
}


# ----------------------------------------------------------------------------
# helpers
# ----------------------------------------------------------------------------
def expand_entries(shape, subs, vals):
    a = np.zeros(tuple(shape))
    for s, v in zip(subs, vals):
        a[tuple(s)] += v
    return a


def expand_result(r, shape):
    if isinstance(r, ttb.sptensor):
        a = np.zeros(tuple(shape))
        if r.subs.size:
            for s, v in zip(r.subs.tolist(), np.asarray(r.vals).reshape(-1).tolist()):
                a[tuple(int(k) for k in s)] += v
        return a
    if isinstance(r, ttb.tensor):
        return np.array(r.data, dtype=float)
    raise TypeError(f"unexpected result type {type(r).__name__}")


def wf_problem(x, no_zero=True):
    """Direct inspection of a returned sptensor; None when well-formed."""
    subs, vals = np.asarray(x.subs), np.asarray(x.vals)
    n = subs.shape[0] if subs.size else 0
    if vals.size != n:
        return f"{vals.size} values for {n} stored subscripts"
    if x.nnz != n:
        return f"nnz reports {x.nnz} for {n} stored subscripts"
    if n == 0:
        return None
    if subs.ndim != 2 or subs.shape[1] != len(x.shape):
        return f"subs has shape {subs.shape} for a {len(x.shape)}-way tensor"
    if vals.shape != (n, 1):
        return f"vals has shape {vals.shape} for {n} subscripts"
    if not np.issubdtype(subs.dtype, np.integer):
        return f"subscripts have dtype {subs.dtype}"
    if (subs < 0).any() or (subs >= np.array(x.shape)).any():
        return "a subscript is outside the shape"
    if len({tuple(r) for r in subs.tolist()}) != n:
        return "a subscript is stored twice"
    if no_zero and (vals == 0).any():
        return "an explicit zero is stored"
    return None


def canon(r):
    if isinstance(r, ttb.sptensor):
        return {"sp": sparse_j(r)}
    if isinstance(r, ttb.tensor):
        return {"dn": dense_j(r)}
    return {"other": jval(r)}


def mk_rhs(kind, shape, b):
    if kind == "scalar":
        return b
    if kind == "sparse":
        return gen.mk_sptensor(ttb, shape, b["subs"], b["vals"])
    return ttb.tensor(expand_entries(shape, b["subs"], b["vals"]).copy(order="F"), copy=False)


def rhs_req(kind, shape, b):
    if kind == "scalar":
        return {"kind": "scalar", "v": jval(b)}
    if kind == "sparse":
        return {"kind": "sparse", "v": {"shape": shape, "subs": b["subs"], "vals": b["vals"]}}
    d = expand_entries(shape, b["subs"], b["vals"])
    return {"kind": "dense", "v": {"shape": shape, "data": jval(d.flatten(order="F"))}}


DTYPES = {"float64": np.float64, "float32": np.float32, "int64": np.int64, "int32": np.int32, "int16": np.int16,
          "int8": np.int8, "bool": np.bool_}


def mk_sp_dt(shape, ent, dt):
    """sptensor whose stored values have dtype `dt` (float64 goes through the shared builder)."""
    if dt == "float64":
        return gen.mk_sptensor(ttb, shape, ent["subs"], ent["vals"])
    if not ent["subs"]:
        return ttb.sptensor(shape=tuple(shape))
    return ttb.sptensor(np.array(ent["subs"], dtype=int), np.array(ent["vals"], dtype=DTYPES[dt]).reshape(-1, 1), tuple(shape))


def expand_dt(shape, ent, dt):
    a = np.zeros(tuple(shape), dtype=DTYPES[dt])
    for sub, v in zip(ent["subs"], ent["vals"]):
        a[tuple(sub)] = v
    return a


def eval_binops(items):
    """items: list of explicit binop dicts {shape, a:{subs,vals}, op, kind, b[, dt, dtb, npscalar]}.  Returns per
    item (status, what, impl, model, spec).  `dt` / `dtb`: dtype of the stored values of the sparse operand / of
    the right-hand side (sparse values or dense data); the dense reference is computed on arrays of those dtypes."""
    impls, reqs, specs = [], [], []
    for x in items:
        shape = x["shape"]
        dt, dtb = x.get("dt", "float64"), x.get("dtb", "float64")
        A = mk_sp_dt(shape, x["a"], dt)
        if x["kind"] == "scalar":
            rhs = np.int64(x["b"]) if x.get("npscalar") else x["b"]
        elif x["kind"] == "sparse":
            rhs = mk_sp_dt(shape, x["b"], dtb)
        else:
            rhs = ttb.tensor(expand_dt(shape, x["b"], dtb).copy(order="F"), copy=False)
        Ad = expand_dt(shape, x["a"], dt)
        Bd = rhs if x["kind"] == "scalar" else expand_dt(shape, x["b"], dtb)
        with np.errstate(all="ignore"):
            specs.append(np.asarray(SPEC[x["op"]](Ad, Bd), dtype=float))
        f = IMPL[x["op"]]
        impls.append(call(lambda f=f, A=A, rhs=rhs: f(A, rhs)))
        num = lambda e: {"subs": e["subs"], "vals": jval(e["vals"])}  # noqa: E731
        reqs.append({"op": "sp_binop", "name": x["op"], "A": {"shape": shape, **num(x["a"])},
                     "rhs": rhs_req(x["kind"], shape, x["b"] if x["kind"] == "scalar" else num(x["b"]))})
    models = drive(reqs)
    out = []
    for x, impl, m, want in zip(items, impls, models, specs):
        r = judge(x["shape"], impl, m, want, f"{x['op']}/{x['kind']}" + (f"[{x.get('dt')},{x.get('dtb')}]" if "dt" in x else ""))
        if r[0] == "ok" and x["op"] == "div" and "ok" in impl and isinstance(impl["ok"], ttb.sptensor) \
                and np.asarray(impl["ok"].vals).size and np.asarray(impl["ok"].vals).dtype.kind != "f":
            r = ("violation", f"div/{x['kind']}[{x.get('dt')}]: true division returned values of dtype "
                 f"{np.asarray(impl['ok'].vals).dtype}", canon(impl["ok"]), m, jval(want))
        out.append(r)
    return out


def judge(shape, impl, m, want, label, no_zero=True):
    if "ok" not in impl:
        return ("violation", f"{label}: raised {impl.get('exc')}: {impl.get('msg')}", impl, m, jval(want))
    r = impl["ok"]
    try:
        c = canon(r)
    except Exception as e:  # noqa: BLE001
        return ("violation", f"{label}: result cannot be read: {e}", None, m, jval(want))
    if isinstance(r, ttb.sptensor):
        p = wf_problem(r, no_zero)
        if p:
            return ("violation", f"{label}: result not well-formed: {p}", c, m, jval(want))
    if "other" in c:
        return ("violation", f"{label}: result is neither sparse nor dense", c, m, jval(want))
    if tuple(r.shape) != tuple(shape):
        return ("violation", f"{label}: result has shape {r.shape}", c, m, jval(want))
    got = expand_result(r, shape)
    if not np.array_equal(got, want, equal_nan=True):
        return ("violation", f"{label}: differs from the dense result at some cell", c, m, jval(want))
    if "ok" not in m:
        return ("corr", f"{label}: the model rejects a request the implementation answers", c, m, jval(want))
    if not deep_eq(c, m["ok"]):
        return ("corr", f"{label}: stored form differs from the model's", c, m, jval(want))
    return ("ok", "", None, None, None)


def pattern_entries(cells, mask, rng, order):
    subs = [c for k, c in enumerate(cells) if mask >> k & 1]
    if order == "sorted":
        pass
    elif order == "reversed":
        subs = subs[::-1]
    elif order == "shuffled":
        rng.shuffle(subs)
    else:  # explicit permutation
        subs = [subs[k] for k in order]
    return {"subs": subs, "vals": [rng.choice(VALUES) for _ in subs]}


def orders_of(n, rng):
    if n <= 3:
        return [list(p) for p in itertools.permutations(range(n))]
    base = list(range(n))
    out = [base, base[::-1]]
    for _ in range(2):
        p = base[:]
        rng.shuffle(p)
        out.append(p)
    return out


# ----------------------------------------------------------------------------
# families
# ----------------------------------------------------------------------------
class Enumerated(Family):
    """Compact cases: one per (shape, pattern of A, mode); the patterns of B are enumerated
    inside the evaluation.  An explicit single evaluation is the case form {"x": {...}}."""
    name = "enumerated"
    theorems = tuple(f"C03_{o}_{k}" for o in ["add", "sub", "mul", "div", "and", "or", "xor", "eq", "ne", "lt", "le", "gt", "ge"]
                     for k in KINDS) + tuple(f"C03_result_wf_{o}" for o in ["add", "sub", "mul", "div", "and", "or", "xor", "eq", "ne", "lt", "le", "gt", "ge"])

    def __init__(self):
        self.failing = {}

    def gen(self, rng, tier):
        out = []
        full_cells = 3 if tier == "quick" else 4
        order_cells = 2 if tier == "quick" else 3
        for s in gen.all_shapes(full_cells, 3):
            n = gen.numel(s)
            for pa in range(2 ** n):
                out.append({"shape": s, "pa": pa, "mode": "full", "seed": rng.getrandbits(32)})
        oshapes = gen.all_shapes(order_cells, 3) + ([[4], [2, 2]] if tier == "thorough" else [])
        for s in oshapes:
            n = gen.numel(s)
            for pa in range(2 ** n):
                out.append({"shape": s, "pa": pa, "mode": "orders", "seed": rng.getrandbits(32)})
        if tier == "thorough":
            for s in [[5], [6], [2, 3], [3, 2], [7], [8]]:
                n = gen.numel(s)
                for pa in range(2 ** n):
                    out.append({"shape": s, "pa": pa, "mode": "rot", "seed": rng.getrandbits(32)})
        else:
            for s in [[5], [2, 3], [8]]:
                n = gen.numel(s)
                for pa in rng.sample(range(2 ** n), 6):
                    out.append({"shape": s, "pa": pa, "mode": "rot", "seed": rng.getrandbits(32)})
        return out

    def expand(self, c):
        if "x" in c:
            return [c["x"]]
        s, pa = c["shape"], c["pa"]
        rng = random.Random(c["seed"])
        cells = gen.all_subs(s)
        n = len(cells)
        items = []
        if c["mode"] == "full":
            a = pattern_entries(cells, pa, rng, rng.choice(["sorted", "reversed", "shuffled"]))
            for op in OPS:
                for sc in ENUM_SCALARS:
                    items.append({"shape": s, "a": a, "op": op, "kind": "scalar", "b": sc if rng.random() < 0.5 else float(sc)})
            for pb in range(2 ** n):
                b = pattern_entries(cells, pb, rng, rng.choice(["sorted", "reversed", "shuffled"]))
                for op in OPS:
                    for kind in ("sparse", "dense"):
                        items.append({"shape": s, "a": a, "op": op, "kind": kind, "b": b})
        elif c["mode"] == "orders":
            na = bin(pa).count("1")
            for pb in range(2 ** n):
                nb = bin(pb).count("1")
                a0 = pattern_entries(cells, pa, rng, "sorted")
                b0 = pattern_entries(cells, pb, rng, "sorted")
                for oa in orders_of(na, rng):
                    for ob in orders_of(nb, rng):
                        a = {"subs": [a0["subs"][k] for k in oa], "vals": [a0["vals"][k] for k in oa]}
                        b = {"subs": [b0["subs"][k] for k in ob], "vals": [b0["vals"][k] for k in ob]}
                        for op in OPS:
                            items.append({"shape": s, "a": a, "op": op, "kind": "sparse", "b": b})
        else:  # rot
            combos = [(op, kind) for op in OPS for kind in ("sparse", "dense")]
            for pb in range(2 ** n):
                a = pattern_entries(cells, pa, rng, "shuffled")
                b = pattern_entries(cells, pb, rng, "shuffled")
                op, kind = combos[(pa * 7 + pb) % len(combos)]
                items.append({"shape": s, "a": a, "op": op, "kind": kind, "b": b})
        return items

    def evaluate(self, cases):
        out = []
        buf, owner = [], []
        results = {}

        def flush():
            if not buf:
                return
            for k, r in zip(owner, eval_binops(buf)):
                results.setdefault(k, []).append(r)
            buf.clear()
            owner.clear()

        sizes = []
        for k, c in enumerate(cases):
            items = self.expand(c)
            sizes.append(len(items))
            for it in items:
                buf.append(it)
                owner.append(k)
            if len(buf) >= 20000:
                flush()
        flush()
        # second pass needs the items again only for failures: re-expand lazily
        for k, c in enumerate(cases):
            rs = results.get(k, [])
            bad = [(j, r) for j, r in enumerate(rs) if r[0] != "ok"]
            mode = c.get("mode", "explicit")
            tags = [mode, f"cells{gen.numel(c['shape'] if 'shape' in c else c['x']['shape'])}", f"evals{min(len(rs), 9999)}"]
            if "x" in c:
                tags += [c["x"]["op"], c["x"]["kind"]]
            if not bad:
                nontriv = ("x" not in c and c["pa"] != 0) or ("x" in c and bool(c["x"]["a"]["subs"]))
                out.append(Verdict("ok", "", None, None, None, tags, nontriv))
                continue
            viol = [b for b in bad if b[1][0] == "violation"]
            j, r = (viol or bad)[0]
            item = self.expand(c)[j]
            self.failing[repr(c)] = item
            out.append(Verdict(r[0], r[1] + f"  [{item}]", r[2], r[3], r[4], tags))
        return out

    def size(self, case):
        return len(repr(case["x"])) if "x" in case else 10 ** 6

    def shrink(self, case):
        if "x" not in case:
            it = self.failing.get(repr(case))
            if it is not None:
                yield {"x": it}
            return
        x = case["x"]
        for side in ("a", "b"):
            ent = x[side]
            if not isinstance(ent, dict):
                continue
            for k in range(len(ent["subs"])):
                y = dict(x)
                y[side] = {"subs": ent["subs"][:k] + ent["subs"][k + 1:], "vals": ent["vals"][:k] + ent["vals"][k + 1:]}
                yield {"x": y}


def rand_entries(rng, shape, klass=None):
    subs, vals = gen.sparse_entries(rng, shape, klass)
    return {"subs": subs, "vals": [rng.choice(VALUES) for _ in vals]}


class Sampled(Family):
    name = "sampled"
    theorems = Enumerated.theorems

    def gen(self, rng, tier):
        out = []
        n = 60 if tier == "quick" else 500
        for _ in range(n):
            while True:
                s = gen.shape(rng, 1, 4, 4)
                if gen.numel(s) <= 36:
                    break
            ka = rng.choice(["empty", "one", "some", "some", "all"])
            kb = rng.choice(["empty", "one", "some", "some", "all"])
            a = rand_entries(rng, s, ka)
            b = rand_entries(rng, s, kb)
            if rng.random() < 0.3 and a["subs"]:
                # make the operands share subscripts with equal and different values
                b = {"subs": list(a["subs"]), "vals": [v if rng.random() < 0.5 else rng.choice(VALUES) for v in a["vals"]]}
                order = list(range(len(b["subs"])))
                rng.shuffle(order)
                b = {"subs": [b["subs"][k] for k in order], "vals": [b["vals"][k] for k in order]}
            sc = rng.choice([-2, -1, 0, 1, 2])
            sc = sc if rng.random() < 0.5 else float(sc)
            for op in OPS:
                out.append({"x": {"shape": s, "a": a, "op": op, "kind": "sparse", "b": b}, "ka": ka, "kb": kb})
                out.append({"x": {"shape": s, "a": a, "op": op, "kind": "dense", "b": b}, "ka": ka, "kb": kb})
                out.append({"x": {"shape": s, "a": a, "op": op, "kind": "scalar", "b": sc}, "ka": ka, "kb": "scalar"})
        return out

    def evaluate(self, cases):
        rs = eval_binops([c["x"] for c in cases])
        out = []
        for c, r in zip(cases, rs):
            x = c["x"]
            tags = [x["op"], x["kind"], f"N{len(x['shape'])}", "A:" + c.get("ka", "?"), "B:" + c.get("kb", "?"),
                    "scalar0" if x["kind"] == "scalar" and x["b"] == 0 else ""]
            tags = [t for t in tags if t]
            if r[0] == "ok":
                out.append(Verdict("ok", "", None, None, None, tags, bool(x["a"]["subs"]) or (x["kind"] != "scalar" and bool(x["b"]["subs"]))))
            else:
                out.append(Verdict(r[0], r[1], r[2], r[3], r[4], tags))
        return out

    def shrink(self, case):
        x = case["x"]
        for side in ("a", "b"):
            ent = x[side]
            if not isinstance(ent, dict):
                continue
            for k in range(len(ent["subs"])):
                y = dict(x)
                y[side] = {"subs": ent["subs"][:k] + ent["subs"][k + 1:], "vals": ent["vals"][:k] + ent["vals"][k + 1:]}
                yield {**case, "x": y}



class Dtypes(Family):
    """every operation x rhs kind with stored values that are NOT float64 (int64/32/16/8, bool, float32),
    integer-typed dense operands and Python-int / np.integer scalars; quotients are non-integral and stored
    entries sit over implicit zeros of the divisor.  Reference: NumPy on the expanded arrays of the same dtypes
    (true division of integers is float)."""
    name = "value_dtypes"
    theorems = Enumerated.theorems

    SHAPES = [[2, 3], [4], [2, 2, 2]]

    def gen(self, rng, tier):
        out = []
        dts = ["int64", "int32", "int8", "bool", "float32"] + (["int16"] if tier == "thorough" else [])
        for s in self.SHAPES:
            cells = gen.all_subs(s)
            reps = 1 if tier == "quick" else 4
            for _ in range(reps):
                ca = rng.sample(cells, min(3, len(cells)))
                # B shares one cell with A, misses the others (implicit zeros under stored entries) and has its own
                cb = [ca[0]] + [c for c in cells if c not in ca][:2]
                rng.shuffle(cb)
                for dt in dts:
                    av = [6, 7, 3, -5][:len(ca)] if dt != "bool" else [True] * len(ca)
                    bv = [4, -2, 8][:len(cb)] if dt != "bool" else [True] * len(cb)
                    if dt == "int8" or dt == "float32":
                        pass
                    a = {"subs": ca, "vals": av}
                    b = {"subs": cb, "vals": bv}
                    for op in OPS:
                        if dt == "bool" and op in ("add", "sub"):
                            continue   # NumPy's bool + / - are logical operations or refused: not the arithmetic of the property
                        for dtb in ({dt, "int64", "float64"} if dt != "bool" else {"bool"}):
                            bb = b if dtb != "bool" or dt == "bool" else b
                            out.append({"x": {"shape": s, "a": a, "op": op, "kind": "sparse", "b": bb, "dt": dt, "dtb": dtb}})
                            out.append({"x": {"shape": s, "a": a, "op": op, "kind": "dense", "b": bb, "dt": dt, "dtb": dtb}})
                        for sc in (4, 0, -2, 4.0, 0.0):
                            out.append({"x": {"shape": s, "a": a, "op": op, "kind": "scalar", "b": sc, "dt": dt}})
                        if op == "mul":
                            out.append({"x": {"shape": s, "a": a, "op": op, "kind": "scalar", "b": 4, "dt": dt, "npscalar": True}})
        return out

    def evaluate(self, cases):
        rs = eval_binops([c["x"] for c in cases])
        out = []
        for c, r in zip(cases, rs):
            x = c["x"]
            tags = [x["op"], x["kind"], "A:" + x["dt"], "B:" + str(x.get("dtb", type(x["b"]).__name__ if x["kind"] == "scalar" else "")),
                    "npscalar" if x.get("npscalar") else ""]
            tags = [t for t in tags if t]
            out.append(Verdict("ok", "", None, None, None, tags, True) if r[0] == "ok" else Verdict(r[0], r[1] + f"  [{x}]", r[2], r[3], r[4], tags))
        return out

    def shrink(self, case):
        x = case["x"]
        for side in ("a", "b"):
            ent = x[side]
            if not isinstance(ent, dict):
                continue
            for k in range(len(ent["subs"])):
                y = dict(x)
                y[side] = {"subs": ent["subs"][:k] + ent["subs"][k + 1:], "vals": ent["vals"][:k] + ent["vals"][k + 1:]}
                yield {"x": y}

ELEMFUNS = {
    "neg": (lambda v: -v, lambda a: np.where(a != 0, -a, 0.0)),
    "id": (lambda v: v * 1, lambda a: a),
    "sqm1": (lambda v: v * v - 1, lambda a: np.where(a != 0, a * a - 1, 0.0)),
    "plus1": (lambda v: v + 1, lambda a: np.where(a != 0, a + 1, 0.0)),
    "zero": (lambda v: v * 0, lambda a: a * 0),
    "half": (lambda v: v / 2, lambda a: a / 2),
}


class Unary(Family):
    """- + logical_not ones elemfun, c*S, c/S, S*ktensor."""
    name = "unary_and_reflected"
    theorems = ("C03_neg", "C03_pos", "C03_not", "C03_ones", "C03_elemfun", "C03_mul_scalar", "C03_mul_kruskal", "C03_rdiv")

    def gen(self, rng, tier):
        out = []
        shapes = gen.all_shapes(3 if tier == "quick" else 4, 3)
        for s in shapes:
            cells = gen.all_subs(s)
            for pa in range(2 ** len(cells)):
                a = pattern_entries(cells, pa, rng, rng.choice(["sorted", "reversed", "shuffled"]))
                for u in ["neg", "pos", "not", "ones"]:
                    out.append({"shape": s, "a": a, "u": u})
                for f in ELEMFUNS:
                    out.append({"shape": s, "a": a, "u": "elemfun", "f": f})
                for c in (-1, 0, 2.0):
                    out.append({"shape": s, "a": a, "u": "rmul", "c": c})
                    out.append({"shape": s, "a": a, "u": "rdiv", "c": c})
        for _ in range(40 if tier == "quick" else 400):
            s = gen.shape(rng, 1, 4, 3)
            a = rand_entries(rng, s)
            u = rng.choice(["neg", "not", "ones", "elemfun", "rmul", "rdiv", "mulk", "mulk"])
            c = {"shape": s, "a": a, "u": u}
            if u == "elemfun":
                c["f"] = rng.choice(list(ELEMFUNS))
            if u in ("rmul", "rdiv"):
                c["c"] = rng.choice([-2, -1, 0, 1, 2, 0.0, 2.0])
            if u == "mulk":
                R = rng.randint(1, 2)
                c["K"] = {"weights": [rng.choice([-1, 1, 2]) for _ in range(R)],
                          "factors": [[[rng.choice([-1, 0, 1, 2]) for _ in range(R)] for _ in range(m)] for m in s]}
            out.append(c)
        return out

    def evaluate(self, cases):
        impls, reqs, specs = [], [], []
        for c in cases:
            s, a, u = c["shape"], c["a"], c["u"]
            A = gen.mk_sptensor(ttb, s, a["subs"], a["vals"])
            Ad = expand_entries(s, a["subs"], a["vals"])
            Aj = {"shape": s, **a}
            with np.errstate(all="ignore"):
                if u == "neg":
                    f, want, rq = (lambda A=A: -A), -Ad, {"op": "sp_unop", "name": "neg", "A": Aj}
                elif u == "pos":
                    f, want, rq = (lambda A=A: +A), Ad, {"op": "sp_unop", "name": "pos", "A": Aj}
                elif u == "not":
                    f, want, rq = (lambda A=A: A.logical_not()), (Ad == 0).astype(float), {"op": "sp_unop", "name": "not", "A": Aj}
                elif u == "ones":
                    f, want, rq = (lambda A=A: A.ones()), (Ad != 0).astype(float), {"op": "sp_unop", "name": "ones", "A": Aj}
                elif u == "elemfun":
                    g, sp = ELEMFUNS[c["f"]]
                    f, want, rq = (lambda A=A, g=g: A.elemfun(g)), sp(Ad), {"op": "sp_elemfun", "A": Aj, "f": c["f"]}
                elif u == "rmul":
                    f, want = (lambda A=A, k=c["c"]: k * A), c["c"] * Ad
                    rq = {"op": "sp_binop", "name": "mul", "A": Aj, "rhs": {"kind": "scalar", "v": jval(c["c"])}}
                elif u == "rdiv":
                    f, want, rq = (lambda A=A, k=c["c"]: k / A), c["c"] / Ad, {"op": "sp_rdiv", "A": Aj, "c": jval(c["c"])}
                else:
                    K = gen.mk_ktensor(ttb, c["K"]["weights"], c["K"]["factors"])
                    f, want, rq = (lambda A=A, K=K: A * K), Ad * K.full().data, {"op": "sp_mulk", "A": Aj, "K": c["K"]}
            impls.append(call(f))
            reqs.append(rq)
            specs.append(np.asarray(want, dtype=float))
        models = drive(reqs)
        out = []
        for c, impl, m, want in zip(cases, impls, models, specs):
            tags = [c["u"] + (":" + c["f"] if "f" in c else ""), f"nnz{min(len(c['a']['subs']), 3)}"]
            st, what, ic, mm, sp = judge(c["shape"], impl, m if "ok" in m else m, want, c["u"])
            if st == "ok":
                out.append(Verdict("ok", "", None, None, None, tags, bool(c["a"]["subs"])))
            else:
                out.append(Verdict(st, what + f"  [{c}]", ic, mm, sp, tags))
        return out

    def shrink(self, case):
        a = case["a"]
        for k in range(len(a["subs"])):
            yield {**case, "a": {"subs": a["subs"][:k] + a["subs"][k + 1:], "vals": a["vals"][:k] + a["vals"][k + 1:]}}


class Lookups(Family):
    """extract, mask, from_aggregator."""
    name = "extract_mask_aggregator"
    theorems = ("C03_extract", "C03_extract_rejects", "C03_mask", "C03_mask_rejects", "C06_aggregator_wf")

    def gen(self, rng, tier):
        out = []
        for _ in range(120 if tier == "quick" else 1500):
            s = gen.shape(rng, 1, 4, 3)
            cells = gen.all_subs(s)
            a = rand_entries(rng, s)
            k = rng.choice(["extract", "mask", "agg", "agg"])
            if k == "extract":
                q = [rng.choice(cells) for _ in range(rng.randint(1, 5))]
                if rng.random() < 0.1:
                    q[0] = [x for x in s]  # out of range
                out.append({"k": k, "shape": s, "a": a, "q": q})
            elif k == "mask":
                w = rand_entries(rng, s)
                ws = list(s)
                if rng.random() < 0.1:
                    ws[rng.randrange(len(ws))] += 1  # mask bigger than the tensor
                out.append({"k": k, "shape": s, "a": a, "w": w, "wshape": ws})
            else:
                n = rng.randint(0, 7)
                subs = [rng.choice(cells) for _ in range(n)]
                vals = [rng.choice(VALUES) for _ in range(n)]
                if rng.random() < 0.08 and subs:
                    subs[0] = list(s)  # out of range
                out.append({"k": k, "shape": s, "subs": subs, "vals": vals, "f": rng.choice(["sum", "sum", "max", "min", "len"])})
        return out

    def evaluate(self, cases):
        impls, reqs, specs = [], [], []
        for c in cases:
            s = c["shape"]
            if c["k"] in ("extract", "mask"):
                A = gen.mk_sptensor(ttb, s, c["a"]["subs"], c["a"]["vals"])
                Ad = expand_entries(s, c["a"]["subs"], c["a"]["vals"])
                Aj = {"shape": s, **c["a"]}
            if c["k"] == "extract":
                q = np.array(c["q"], dtype=int)
                impls.append(call(lambda A=A, q=q: jval(A.extract(q).reshape(-1))))
                reqs.append({"op": "sp_extract", "A": Aj, "q": c["q"]})
                ok = all(all(0 <= x < m for x, m in zip(r, s)) for r in c["q"])
                specs.append({"ok": [jval(Ad[tuple(r)]) for r in c["q"]]} if ok else {"reject": True})
            elif c["k"] == "mask":
                W = gen.mk_sptensor(ttb, c["wshape"], c["w"]["subs"], [1] * len(c["w"]["subs"]))
                impls.append(call(lambda A=A, W=W: jval(A.mask(W).reshape(-1))))
                reqs.append({"op": "sp_mask", "A": Aj, "W": {"shape": c["wshape"], "subs": c["w"]["subs"], "vals": [1] * len(c["w"]["subs"])}})
                ok = all(x <= m for x, m in zip(c["wshape"], s))
                specs.append({"ok": [jval(Ad[tuple(r)]) for r in c["w"]["subs"]]} if ok else {"reject": True})
            else:
                subs = np.array(c["subs"], dtype=int).reshape(len(c["subs"]), len(s))
                vals = np.array(c["vals"], dtype=float).reshape(-1, 1)
                fh = {"sum": "sum", "max": np.max, "min": np.min, "len": len}[c["f"]]
                impls.append(call(lambda subs=subs, vals=vals, fh=fh, s=s: ttb.sptensor.from_aggregator(subs, vals, tuple(s), fh)))
                reqs.append({"op": "sp_from_aggregator", "subs": c["subs"], "vals": c["vals"], "shape": s, "f": c["f"]})
                specs.append(None)
        models = drive(reqs)
        out = []
        for c, impl, m, spec in zip(cases, impls, models, specs):
            tags = [c["k"]]
            if c["k"] in ("extract", "mask"):
                ic = {"ok": impl["ok"]} if "ok" in impl else {"reject": True}
                tags.append("rejected" if "reject" in spec else "accepted")
                if not deep_eq(ic, spec):
                    out.append(Verdict("violation", f"{c['k']}: values differ from the cells of the expanded array", impl, m, spec, tags))
                elif not deep_eq(ic, m):
                    out.append(Verdict("corr", f"{c['k']}: differs from the model", impl, m, spec, tags))
                else:
                    out.append(Verdict("ok", "", None, None, None, tags, "ok" in spec and bool(c["a"]["subs"])))
                continue
            # from_aggregator
            s = c["shape"]
            inrange = all(all(0 <= x < mm for x, mm in zip(r, s)) for r in c["subs"])
            tags += [c["f"], "inrange" if inrange else "outofrange", "dups" if len({tuple(r) for r in c["subs"]}) < len(c["subs"]) else "nodups"]
            if not inrange:
                bad = "ok" in impl
                out.append(Verdict("violation" if bad else "ok", "from_aggregator accepted a subscript outside the shape" if bad else "",
                                   None if not bad else canon(impl["ok"]), m, None, tags, False))
                continue
            if "ok" not in impl:
                out.append(Verdict("violation", f"from_aggregator raised {impl.get('exc')}: {impl.get('msg')}", impl, m, None, tags))
                continue
            r = impl["ok"]
            p = wf_problem(r)
            groups = {}
            for rr, v in zip(c["subs"], c["vals"]):
                groups.setdefault(tuple(rr), []).append(v)
            red = {"sum": sum, "max": max, "min": min, "len": len}[c["f"]]
            want = np.zeros(tuple(s))
            for key, vs in groups.items():
                want[key] = red(vs)
            if p:
                out.append(Verdict("violation", f"from_aggregator: result not well-formed: {p}", canon(r), m, jval(want), tags))
            elif not np.array_equal(expand_result(r, s), want):
                out.append(Verdict("violation", "from_aggregator: a cell is not the reduction of the values given for it", canon(r), m, jval(want), tags))
            elif "ok" not in m or not deep_eq(sparse_j(r), m["ok"]):
                out.append(Verdict("corr", "from_aggregator: stored form differs from the model's", canon(r), m, jval(want), tags))
            else:
                out.append(Verdict("ok", "", None, None, None, tags, bool(c["subs"])))
        return out


class Mismatch(Family):
    """operands of different shapes are refused by the sparse-sparse operations."""
    name = "shape_mismatch"
    theorems = ()

    def gen(self, rng, tier):
        out = []
        for _ in range(20 if tier == "quick" else 150):
            s = gen.shape(rng, 1, 3, 3)
            t = list(s)
            if rng.random() < 0.5:
                t[rng.randrange(len(t))] += 1
            else:
                t = t + [1]
            for op in OPS:
                out.append({"shape": s, "a": rand_entries(rng, s), "tshape": t, "b": rand_entries(rng, t), "op": op})
        return out

    def evaluate(self, cases):
        impls, reqs = [], []
        for c in cases:
            A = gen.mk_sptensor(ttb, c["shape"], c["a"]["subs"], c["a"]["vals"])
            Bt = gen.mk_sptensor(ttb, c["tshape"], c["b"]["subs"], c["b"]["vals"])
            f = IMPL[c["op"]]
            impls.append(call(lambda f=f, A=A, Bt=Bt: canon(f(A, Bt))))
            reqs.append({"op": "sp_binop", "name": c["op"], "A": {"shape": c["shape"], **c["a"]},
                         "rhs": {"kind": "sparse", "v": {"shape": c["tshape"], **c["b"]}}})
        models = drive(reqs)
        out = []
        for c, impl, m in zip(cases, impls, models):
            tags = [c["op"]]
            if "ok" in impl:
                out.append(Verdict("violation", f"{c['op']}: operands of shapes {c['shape']} and {c['tshape']} were combined", impl, m, None, tags))
            elif "ok" in m:
                out.append(Verdict("corr", "the model accepts a shape mismatch", impl, m, None, tags))
            else:
                out.append(Verdict("ok", "", None, None, None, tags, False))
        return out

# ----------------------------------------------------------------------------
# Kruskal / Tucker right-hand sides
# ----------------------------------------------------------------------------
FLOAT_EPS = float(np.finfo(float).eps)


def k_expand(K, shape=None):
    """The array a Kruskal tensor denotes, by NumPy alone (sum over components of the scaled outer products)."""
    ws, fs = K["weights"], K["factors"]
    shp = tuple(len(f) for f in fs)
    out = np.zeros(shp)
    for r, w in enumerate(ws):
        comp = np.array(float(w))
        for f in fs:
            comp = np.multiply.outer(comp, np.array([row[r] for row in f], dtype=float))
        out = out + comp
    return out


def rand_ktensor(rng, shape, style):
    """style: any (entries of both signs and zeros) | positive (all entries >= 1: the floor of `/` never acts and no
    cell is zero) | zero_slice (one row of one factor is zero: the tensor vanishes on a whole slice, stored and
    unstored cells alike) | cancel (two components that cancel everywhere) | negative (all entries <= -1)."""
    R = rng.randint(1, 3)
    if style == "positive":
        return {"weights": [rng.choice([1, 2]) for _ in range(R)],
                "factors": [[[rng.choice([1, 2]) for _ in range(R)] for _ in range(m)] for m in shape]}
    if style == "negative":
        return {"weights": [rng.choice([-1, -2]) for _ in range(R)],
                "factors": [[[rng.choice([1, 2]) for _ in range(R)] for _ in range(m)] for m in shape]}
    if style == "cancel":
        col = [[rng.choice([-1, 1, 2]) for _ in range(m)] for m in shape]
        w = rng.choice([1, 2])
        return {"weights": [w, -w], "factors": [[[c, c] for c in cs] for cs in col]}
    K = {"weights": [rng.choice([-2, -1, 1, 2]) for _ in range(R)],
         "factors": [[[rng.choice([-1, 0, 1, 2]) for _ in range(R)] for _ in range(m)] for m in shape]}
    if style == "zero_slice":
        n = rng.randrange(len(shape))
        K["factors"][n][rng.randrange(shape[n])] = [0] * R
    return K


class KruskalRhs(Family):
    """S * K, S / K, K * S, K / S for a Kruskal tensor K, and the four combinations with a Tucker tensor, against the
    model and against NumPy on the expanded arrays: the dense product for `*`; for `/` the DOCUMENTED semantics (the
    stored pattern of S, each stored value divided by np.maximum(eps, K[j]), nothing else stored; an empty operand
    raises today, an empty result is accepted as well).  A Kruskal divisor is outside the letter of C03 (which names
    scalar, dense and sparse right-hand sides); where the documented semantics part from dense `/` (entries of K
    below eps at stored cells, K = 0 at unstored cells) is tagged, not judged."""
    name = "kruskal_rhs"
    theorems = ("C03_mul_kruskal", "C03_rmul_kruskal", "C03_div_kruskal", "C03_div_kruskal_xrat", "C03_div_kruskal_dense",
                "C03_div_kruskal_rejects_shape", "C03_div_kruskal_rejects_empty", "C03_mul_kruskal_rejects_shape",
                "C03_rdiv_kruskal_tucker_reject")
    SHAPES = [[1], [3], [1, 3], [2, 1], [2, 2], [2, 3], [3, 3], [2, 1, 2], [1, 1, 1], [3, 2, 4], [2, 2, 2], [2, 3, 1, 2]]

    def gen(self, rng, tier):
        out = []
        n = 10 if tier == "quick" else 60
        for s in self.SHAPES:
            for _ in range(n if gen.numel(s) > 1 else 3):
                for style in ("any", "positive", "zero_slice", "cancel", "negative"):
                    a = rand_entries(rng, s, rng.choice(["empty", "one", "some", "some", "all"]))
                    K = rand_ktensor(rng, s, style)
                    for op in ("mul", "div", "kmul"):
                        out.append({"shape": s, "a": a, "K": K, "op": op})
                    if rng.random() < 0.2:
                        out.append({"shape": s, "a": a, "K": K, "op": "rdivk"})
        for _ in range(30 if tier == "quick" else 300):   # other shapes, random
            s = gen.shape(rng, 1, 4, 3)
            a = rand_entries(rng, s)
            K = rand_ktensor(rng, s, rng.choice(["any", "any", "positive", "zero_slice"]))
            out.append({"shape": s, "a": a, "K": K, "op": rng.choice(["mul", "div", "kmul"])})
        for _ in range(12 if tier == "quick" else 120):   # shape mismatch
            s = gen.shape(rng, 1, 3, 3)
            t = list(s)
            if rng.random() < 0.5:
                t[rng.randrange(len(t))] += 1
            else:
                t = t + [1]
            a = rand_entries(rng, s, rng.choice(["empty", "some", "all"]))
            out.append({"shape": s, "a": a, "K": rand_ktensor(rng, t, "positive"), "op": rng.choice(["mul", "div", "kmul"]), "mismatch": True})
        for _ in range(12 if tier == "quick" else 80):    # Tucker operands: no element-wise operation exists
            s = gen.shape(rng, 1, 3, 3)
            cs = [rng.randint(1, 2) for _ in s]
            T = {"core": {"shape": cs, "data": [rng.choice([-1, 1, 2]) for _ in range(gen.numel(cs))]},
                 "factors": [[[rng.choice([-1, 0, 1, 2]) for _ in range(c)] for _ in range(m)] for m, c in zip(s, cs)]}
            out.append({"shape": s, "a": rand_entries(rng, s), "T": T, "op": rng.choice(["mult", "divt", "tmul", "rdivt"])})
        return out

    def evaluate(self, cases):
        impls, reqs, specs = [], [], []
        for c in cases:
            s, a, op = c["shape"], c["a"], c["op"]
            A = gen.mk_sptensor(ttb, s, a["subs"], a["vals"])
            Ad = expand_entries(s, a["subs"], a["vals"])
            Aj = {"shape": s, **a}
            if "T" in c:
                T = ttb.ttensor(ttb.tensor(np.array(c["T"]["core"]["data"], dtype=float).reshape(tuple(c["T"]["core"]["shape"]), order="F")),
                                [np.array(f, dtype=float).reshape(len(f), -1) for f in c["T"]["factors"]])
                f = {"mult": lambda A=A, T=T: A * T, "divt": lambda A=A, T=T: A / T,
                     "tmul": lambda A=A, T=T: T * A, "rdivt": lambda A=A, T=T: T / A}[op]
                impls.append(call(f))
                reqs.append({"op": "sp_tucker", "name": op, "A": Aj, "T": c["T"]})
                specs.append(None)
                continue
            K = gen.mk_ktensor(ttb, c["K"]["weights"], c["K"]["factors"])
            f = {"mul": lambda A=A, K=K: A * K, "div": lambda A=A, K=K: A / K,
                 "kmul": lambda A=A, K=K: K * A, "rdivk": lambda A=A, K=K: K / A}[op]
            impls.append(call(f))
            if op == "mul":
                reqs.append({"op": "sp_mulk", "A": Aj, "K": c["K"]})
            elif op == "div":
                reqs.append({"op": "sp_divk", "A": Aj, "K": c["K"]})
            else:
                reqs.append({"op": "sp_krefl", "name": op, "A": Aj, "K": c["K"]})
            if c.get("mismatch") or op == "rdivk":
                specs.append(None)
            else:
                Kd = k_expand(c["K"])
                with np.errstate(all="ignore"):
                    specs.append(np.asarray(Ad / Kd if op == "div" else Ad * Kd, dtype=float))
        models = drive(reqs)
        out = []
        for c, impl, m, want in zip(cases, impls, models, specs):
            op = c["op"]
            nn = len(c["a"]["subs"])
            tags = [op, f"nnz{min(nn, 3)}", f"order{len(c['shape'])}"]
            if 1 in c["shape"]:
                tags.append("singleton-mode")
            if "K" in c:
                tags.append(f"rank{len(c['K']['weights'])}")
            if want is None:   # nothing to compute: the request must be refused
                tags.append("mismatch" if c.get("mismatch") else "no-such-operation")
                if "ok" in impl:
                    out.append(Verdict("violation", f"{op}: accepted a request that has no element-wise meaning  [{c}]", canon(impl["ok"]), m, None, tags))
                elif "ok" in m:
                    out.append(Verdict("corr", f"{op}: the model accepts what the implementation refuses", impl, m, None, tags))
                else:
                    out.append(Verdict("ok", "", None, None, None, tags, False))
                continue
            Kd = k_expand(c["K"])
            stored = {tuple(r) for r in c["a"]["subs"]}
            kz_st = any(Kd[j] == 0 for j in stored)
            kz_un = bool(((Kd == 0) & (expand_entries(c["shape"], c["a"]["subs"], [1] * nn) == 0)).any())
            kneg = any(Kd[j] < 0 for j in stored)
            tags += [t for t, on in (("K=0@stored", kz_st), ("K=0@unstored", kz_un), ("K<0@stored", kneg)) if on]
            if op != "div":
                st, what, ic, mm, sp = judge(c["shape"], impl, m, want, f"{op}/kruskal")
                out.append(Verdict("ok", "", None, None, None, tags, nn > 0) if st == "ok" else Verdict(st, what + f"  [{c}]", ic, mm, sp, tags))
                continue
            out.append(self.judge_div(c, impl, m, want, Kd, stored, tags))
        return out

    @staticmethod
    def judge_div(c, impl, m, dense, Kd, stored, tags):
        """Oracle = the documented semantics of `S / K`: the stored pattern of S, each stored value divided by
        np.maximum(eps, K[j]) (NumPy on the expanded arrays), every other cell 0.  `dense` (the plain dense quotient)
        only feeds the tags that say where the documented semantics and dense `/` part."""
        shape, label = c["shape"], "div/kruskal"
        Ad = expand_entries(shape, c["a"]["subs"], c["a"]["vals"])
        with np.errstate(all="ignore"):
            want = np.where(Ad != 0, Ad / np.maximum(FLOAT_EPS, Kd), 0.0)
        if not stored:
            # today: IndexError (no nnz == 0 shortcut); an empty result of the same shape is equally acceptable
            if "ok" not in impl:
                if "ok" in m:
                    return Verdict("corr", f"{label}: the model answers for an empty operand, the implementation raises", impl, m, jval(want), tags)
                return Verdict("ok", "", None, None, None, tags + ["empty:raises"], False)
            r = impl["ok"]
            if not isinstance(r, ttb.sptensor) or tuple(r.shape) != tuple(shape) or r.nnz != 0:
                return Verdict("violation", f"{label}: an operand without stored entries gave something else than an empty sparse tensor "
                               f"of its shape  [{c}]", canon(r), m, jval(want), tags)
            return Verdict("ok", "", None, None, None, tags + ["empty:empty-result"], False)
        st, what, ic, mm, sp = judge(shape, impl, m, want, label)
        if st != "ok":
            return Verdict(st, what.replace("the dense result", "S.vals / maximum(eps, K[subs]) on the pattern of S") + f"  [{c}]", ic, mm, sp, tags)
        floor = any(Kd[j] < FLOAT_EPS for j in stored)
        nanc = bool(np.isnan(dense).any())
        return Verdict("ok", "", None, None, None,
                       tags + (["floor-active"] if floor else []) + (["dense-0/0-cell"] if nanc else []) +
                       (["equals-dense-quotient"] if not floor and not nanc else []), True)

    def shrink(self, case):
        a = case["a"]
        for k in range(len(a["subs"])):
            yield {**case, "a": {"subs": a["subs"][:k] + a["subs"][k + 1:], "vals": a["vals"][:k] + a["vals"][k + 1:]}}


def families():
    return [Dtypes(), Enumerated(), Sampled(), Unary(), KruskalRhs(), Lookups(), Mismatch()]
