"""C04 property oracle: a plain mutable array (dict of cells over a shape) that does exactly
what the property's words say.  No pyttb, no numpy.

State      : shape (list of extents; [] = the empty tensor, no cells) and the non-zero cells.
Keys (JSON): {"k":"lin","i":n} | {"k":"linslice","s":[a,b,c]} | {"k":"linlist","is":[..]}
             | {"k":"subs","rows":[[..]..]} | {"k":"region","parts":[{"int":i}|{"slice":[a,b,c]}|{"list":[..]}]}
RHS  (JSON): {"r":"scalar","v":x} | {"r":"col","v":[..]} (one value per addressed position, in key order)
             | {"r":"arr","shape":[..],"data":[F order]} | {"r":"tensor","shape":[..],"data":[F order]}
"""
from __future__ import annotations

import itertools


class Reject(Exception):
    pass


def numel(s):
    p = 1
    for x in s:
        p *= x
    return p


def all_subs(s):
    """F-order (first subscript fastest) enumeration."""
    return [tuple(reversed(t)) for t in itertools.product(*[range(x) for x in reversed(s)])]


def ind2sub(shape, i):
    out = []
    for s in shape:
        out.append(i % s)
        i //= s
    return tuple(out)


def py_slice(s):
    return slice(s[0], s[1], s[2])


class MutArr:
    def __init__(self, shape=(), cells=None):
        self.shape = [int(x) for x in shape]
        self.cells = {tuple(k): v for k, v in (cells or {}).items() if v != 0}

    def copy(self):
        return MutArr(self.shape, dict(self.cells))

    def at(self, sub):
        return self.cells.get(tuple(sub), 0)

    # canonical forms ---------------------------------------------------------
    def dense_j(self):
        return {"shape": list(self.shape), "data": [self.at(i) for i in all_subs(self.shape)] if self.shape else []}

    def n_cells(self):
        return numel(self.shape) if self.shape else 0

    # key resolution ------------------------------------------------------------
    def _linear_targets(self, key):
        n = self.n_cells()
        if key["k"] == "lin":
            idx = [key["i"]]
        elif key["k"] == "linslice":
            idx = list(range(n)[py_slice(key["s"])])
        else:
            idx = list(key["is"])
        out = []
        for i in idx:
            if i < 0:
                i += n
            if not 0 <= i < n:
                raise Reject("linear index out of range (a tensor is not resized by a linear index)")
            out.append(ind2sub(self.shape, i))
        return out

    def _region(self, parts, grow):
        """-> (new shape, per-mode index lists, kept-mode flags)."""
        n = len(self.shape)
        if len(parts) < n or (not grow and len(parts) != n) or len(parts) == 0:
            raise Reject("wrong number of subscripts")
        newshape, lists, kept = [], [], []
        for m, p in enumerate(parts):
            ext = self.shape[m] if m < n else 0
            if "int" in p:
                i = p["int"]
                if i < 0:
                    i += ext
                    if i < 0:
                        raise Reject("negative index out of range")
                if i >= ext and not grow:
                    raise Reject("index out of range")
                ext = max(ext, i + 1)
                lists.append([i])
                kept.append(False)
            elif "list" in p:
                L = list(p["list"])
                if any(i < 0 for i in L) or not L:
                    raise Reject("index lists hold non-negative indices")
                if max(L) >= ext and not grow:
                    raise Reject("index out of range")
                ext = max(ext, max(L) + 1)
                lists.append(L)
                kept.append(True)
            else:
                a, b, c = p["slice"]
                if grow:
                    if b is None:
                        if m >= n:
                            ext = 1  # a new mode starts with extent 1; an open slice covers it
                    elif b >= 0:
                        ext = max(ext, b)
                    elif m >= n:
                        raise Reject("negative stop in a new mode")
                if grow and m >= n and ext == 0:
                    # `0:0` on a mode that does not exist yet: a new mode of extent 0 would leave no cell at all
                    raise Reject("empty region in a new mode")
                lists.append(list(range(ext)[slice(a, b, c)]))
                kept.append(True)
            newshape.append(ext)
        return newshape, lists, kept

    # write ---------------------------------------------------------------------
    def write(self, key, rhs):
        """Returns nothing; raises Reject and leaves the state unchanged when the assignment is not defined."""
        k = key["k"]
        if k in ("lin", "linslice", "linlist"):
            targets = self._linear_targets(key)
            newshape = list(self.shape)
            vals = self._values_for_list(rhs, len(targets))
        elif k == "subs":
            rows = [tuple(r) for r in key["rows"]]
            n = len(self.shape)
            if not rows:
                raise Reject("no subscripts")
            w = len(rows[0])
            if w < n or w == 0 or any(len(r) != w for r in rows) or any(x < 0 for r in rows for x in r):
                raise Reject("bad subscripts")
            newshape = [max([self.shape[m] if m < n else 0] + [r[m] + 1 for r in rows]) for m in range(w)]
            targets = rows
            vals = self._values_for_list(rhs, len(targets))
        elif k == "region":
            newshape, lists, kept = self._region(key["parts"], grow=True)
            targets = [tuple(reversed(t)) for t in itertools.product(*reversed(lists))]
            rshape = [len(L) for L, kp in zip(lists, kept) if kp]
            vals = self._values_for_region(rhs, rshape, len(targets))
        else:
            raise Reject("unknown key")
        # grow (zero filled: cells is zero outside), then assign in order (last wins)
        pad = len(newshape) - len(self.shape)
        if pad:
            self.cells = {s + (0,) * pad: v for s, v in self.cells.items()}
        self.shape = newshape
        for t, v in zip(targets, vals):
            if v == 0:
                self.cells.pop(t, None)
            else:
                self.cells[t] = v

    @staticmethod
    def _values_for_list(rhs, p):
        if rhs["r"] == "scalar":
            return [rhs["v"]] * p
        if rhs["r"] == "col":
            v = list(rhs["v"])
            if len(v) == 1:
                return v * p
            if len(v) != p:
                raise Reject("number of values differs from number of positions")
            return v
        raise Reject("right-hand side of a position list is a scalar or one value per position")

    @staticmethod
    def _values_for_region(rhs, rshape, ncell):
        if rhs["r"] == "scalar":
            return [rhs["v"]] * ncell
        if rhs["r"] in ("arr", "tensor"):
            if list(rhs["shape"]) != list(rshape):
                raise Reject("right-hand side shape differs from the region")
            return list(rhs["data"])
        raise Reject("bad right-hand side")

    # read ----------------------------------------------------------------------
    def read(self, key):
        """-> {"scalar": v} | {"vec": [..]} | {"tensor": {"shape","data"}}"""
        k = key["k"]
        if k in ("lin", "linslice", "linlist"):
            t = self._linear_targets(key)
            vals = [self.at(s) for s in t]
            return {"scalar": vals[0]} if len(vals) == 1 else {"vec": vals}
        if k == "subs":
            rows = [tuple(r) for r in key["rows"]]
            n = len(self.shape)
            if not rows or any(len(r) != n for r in rows):
                raise Reject("bad subscripts")
            if any(not 0 <= x < e for r in rows for x, e in zip(r, self.shape)):
                raise Reject("subscript out of range")
            vals = [self.at(r) for r in rows]
            return {"scalar": vals[0]} if len(vals) == 1 else {"vec": vals}
        if k == "region":
            _, lists, kept = self._region(key["parts"], grow=False)
            rshape = [len(L) for L, kp in zip(lists, kept) if kp]
            targets = [tuple(reversed(t)) for t in itertools.product(*reversed(lists))]
            vals = [self.at(s) for s in targets]
            if not rshape:
                return {"scalar": vals[0]}
            return {"tensor": {"shape": rshape, "data": vals}}
        raise Reject("unknown key")
