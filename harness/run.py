"""./check entry point: build + audit the Lean theorems of one property, run its
correspondence families against /repo's working tree, decide, write evidence."""
from __future__ import annotations

import argparse
import fcntl
import importlib
import json
import os
import random
import re
import shutil
import subprocess
import sys
import time
import traceback
from collections import Counter
from pathlib import Path

sys.path.insert(0, str(Path(__file__).resolve().parent.parent))
from harness import lib  # noqa: E402
from harness.lib import ROOT, LEAN, WORK, DRIVER, Verdict, case_hash  # noqa: E402

ALLOWED_AXIOMS = {"propext", "Classical.choice", "Quot.sound"}
FORBIDDEN = re.compile(r"\bsorry\b|\badmit\b|^\s*axiom\s|native_decide|bv_decide|implemented_by|\bunsafe\s|maxHeartbeats\s+0\b")

TRUSTED_BASE = [
    "Lean 4.33.0 kernel (leanchecker re-check in the thorough tier)",
    "axioms allowed: propext, Classical.choice, Quot.sound (audited with #print axioms on every property theorem); no sorry/native_decide/bv_decide/own axioms",
    "Mathlib v4.33.0 as installed (single modules, proof files only)",
    "correspondence harness (Python, /verif/harness): generator coverage bounds what the tie sees",
    "translators (/verif/harness/translate): reading of the Python AST subset they accept",
    "modelled, not verified: IEEE rounding (theorems are over exact rings/fields), NumPy/SciPy/numpy_groupies below the primitives named in DESIGN.md 3.3, LAPACK/ARPACK/L-BFGS-B, np.random, libc number formatting",
]


def log(*a):
    print(*a, file=sys.stderr, flush=True)


class Lock:
    def __enter__(self):
        WORK.mkdir(exist_ok=True)
        self.f = open(WORK / "lock", "w")
        fcntl.flock(self.f, fcntl.LOCK_EX)
        return self

    def __exit__(self, *a):
        fcntl.flock(self.f, fcntl.LOCK_UN)
        self.f.close()


def strip_comments(src: str) -> str:
    src = re.sub(r"/-.*?-/", lambda m: "\n" * m.group(0).count("\n"), src, flags=re.S)
    return "\n".join(ln.split("--")[0] for ln in src.split("\n"))


def theorem_names(prop: str):
    """Property theorems: every `theorem Cxx_*` in Props/Cxx.lean and in the Props/Cxx*.lean files it imports."""
    f = LEAN / "PyttbModel" / "Props" / f"{prop}.lean"
    if not f.exists():
        return []
    files = [f]
    for imp in re.findall(rf"^import\s+PyttbModel\.Props\.({prop}\w+)", f.read_text(), flags=re.M):
        g = LEAN / "PyttbModel" / "Props" / f"{imp}.lean"
        if g.exists():
            files.append(g)
    names = []
    for g in files:
        src = strip_comments(g.read_text())
        names += re.findall(rf"^\s*theorem\s+({prop}_\w+)", src, flags=re.M)
    return names


def import_closure(prop: str):
    """Lean source files the property theorems depend on (transitive PyttbModel imports)."""
    seen, todo = set(), [f"PyttbModel.Props.{prop}"]
    while todo:
        m = todo.pop()
        if m in seen:
            continue
        f = LEAN / (m.replace(".", "/") + ".lean")
        if not f.exists():
            continue
        seen.add(m)
        for imp in re.findall(r"^import\s+(PyttbModel[\w.]*)", f.read_text(), flags=re.M):
            todo.append(imp)
    return sorted(LEAN / (m.replace(".", "/") + ".lean") for m in seen)


def forbidden_hits(prop: str):
    hits = []
    for f in import_closure(prop):
        src = strip_comments(f.read_text())
        for n, ln in enumerate(src.split("\n"), 1):
            if FORBIDDEN.search(ln):
                hits.append(f"{f.relative_to(LEAN)}:{n}: {ln.strip()[:80]}")
    return hits


def run_translators(prop: str, info: dict):
    """Regenerate PyttbModel/Generated/* from /repo's source.  Returns list of lost anchors."""
    try:
        tr = importlib.import_module("harness.translate")
    except ModuleNotFoundError:
        return []
    return tr.run(prop, info)


def lean_build(prop: str, tier: str, info: dict):
    """Build theorems + driver, audit axioms.  Returns (ok, broken:list[str])."""
    broken = []
    t0 = time.time()
    with Lock():
        lost = run_translators(prop, info)
        for a in lost:
            broken.append(f"anchor lost: {a}")
        targets = [f"PyttbModel.Props.{prop}", "driver"]
        p = subprocess.run(["lake", "build", *targets], cwd=LEAN, capture_output=True, text=True)
        info["lake_build_s"] = round(time.time() - t0, 2)
        if p.returncode != 0:
            # The translators may have READ the source as definitions that differ from the pinned ones (a rewritten formula):
            # the theorems are then re-checked about what the code says now and do not close.  That is either a harmful
            # change or an algebraically equal rewrite the proof script does not normalise.  Decide it the way a lost anchor
            # is decided (DESIGN 4.2): put the pinned definitions back, rebuild, and let the thorough-size correspondence -
            # which evaluates the pinned definitions against the source's own expressions and replays whole runs - say
            # whether the model still describes the code.
            gen_dir, pin_dir = LEAN / "PyttbModel" / "Generated", ROOT / "harness" / "translate" / "pinned"
            differing = [f.name for f in sorted(pin_dir.glob("*.lean"))
                         if (gen_dir / f.name).exists() and (gen_dir / f.name).read_text() != f.read_text()
                         and (gen_dir / f.name) in import_closure(prop)]
            if differing:
                read = {n: (gen_dir / n).read_text() for n in differing}
                for n in differing:
                    (gen_dir / n).write_text((pin_dir / n).read_text())
                p2 = subprocess.run(["lake", "build", *targets], cwd=LEAN, capture_output=True, text=True)
                if p2.returncode == 0:
                    errs = re.findall(r"error: ([^\n]*)", p.stdout + p.stderr)
                    info["generated_as_read"] = read
                    broken.append("anchor lost: the definitions read from the source (" + ", ".join(differing) + ") differ from the pinned "
                                  "ones and the theorems do not close for them (" + "; ".join(errs[:2])[:200] + "); pinned definitions used")
                    p = p2
                else:
                    for n, t in read.items():
                        (gen_dir / n).write_text(t)
        if p.returncode != 0:
            out = (p.stdout + p.stderr)
            errs = re.findall(r"error: ([^\n]*)", out)
            info["lake_errors"] = errs[:20]
            broken.append("lake build failed: " + "; ".join(errs[:5]))
            # the driver may still be stale; try to build it alone
            subprocess.run(["lake", "build", "driver"], cwd=LEAN, capture_output=True, text=True)
        names = theorem_names(prop)
        info["theorems"] = names
        info["obligations"] = len(names)
        discharged = 0
        if p.returncode == 0 and names:
            WORK.mkdir(exist_ok=True)
            af = WORK / f"Audit_{prop}_{os.getpid()}.lean"
            af.write_text(
                f"import PyttbModel.Props.{prop}\nopen Pyttb\n"
                + "".join(f"#print axioms {n}\n" for n in names)
            )
            a = subprocess.run(["lake", "env", "lean", str(af)], cwd=LEAN, capture_output=True, text=True)
            af.unlink(missing_ok=True)
            text = a.stdout + a.stderr
            axioms = {}
            for m in re.finditer(r"'([\w.]+)' depends on axioms: \[([^\]]*)\]", text, flags=re.S):
                axioms[m.group(1).split(".")[-1]] = {x.strip() for x in m.group(2).replace("\n", " ").split(",") if x.strip()}
            for m in re.finditer(r"'([\w.]+)' does not depend on any axioms", text):
                axioms[m.group(1).split(".")[-1]] = set()
            info["axioms"] = {k: sorted(v) for k, v in axioms.items()}
            for n in names:
                if n not in axioms:
                    broken.append(f"audit: no axiom report for {n}")
                elif not axioms[n] <= ALLOWED_AXIOMS:
                    broken.append(f"audit: {n} uses {sorted(axioms[n] - ALLOWED_AXIOMS)}")
                else:
                    discharged += 1
        hits = forbidden_hits(prop)
        info["lean_files"] = [str(f.relative_to(LEAN)) for f in import_closure(prop)]
        if hits:
            broken.append("forbidden tokens: " + "; ".join(hits[:5]))
            discharged = 0
        info["discharged"] = discharged
        if tier == "thorough" and p.returncode == 0 and os.environ.get("VERIF_LEANCHECKER", "1") == "1":
            t1 = time.time()
            mods = [f"PyttbModel.Props.{prop}"]
            c = subprocess.run(["lake", "env", "leanchecker", *mods], cwd=LEAN, capture_output=True, text=True)
            info["leanchecker"] = {"rc": c.returncode, "s": round(time.time() - t1, 1), "tail": (c.stdout + c.stderr)[-300:]}
            if c.returncode != 0:
                broken.append("leanchecker rejected the compiled modules")
    return (not broken), broken


def load_known():
    out = []
    f = ROOT / "known_findings.json"
    if f.exists():
        out += json.loads(f.read_text())
    for g in sorted((ROOT / "known").glob("*.json")):
        out += json.loads(g.read_text())
    seen, uniq = set(), []
    for e in out:  # known_findings.json is the merged list; known/*.json are its per-property sources
        if e.get("id") in seen:
            continue
        seen.add(e.get("id"))
        uniq.append(e)
    return uniq


def match_known(prop, fam, case, verdict, known):
    from harness import known as K
    for e in known:
        if e.get("property") != prop or e.get("status") != "known":
            continue
        fn = K.MATCHERS.get(e["matcher"])
        if fn is None:
            continue
        try:
            if fn(fam, case, verdict):
                return e
        except Exception:  # noqa: BLE001
            continue
    return None


def _raised_in_repo(tb) -> bool:
    from harness.lib import REPO
    root = str(Path(REPO).resolve())
    while tb is not None:
        f = tb.tb_frame.f_code.co_filename
        if str(Path(f).resolve()).startswith(root + os.sep) or "/pyttb/" in f.replace("\\", "/") and "/harness/" not in f:
            return True
        tb = tb.tb_next
    return False


def robust_evaluate(fam, cases, chunk=40):
    """Evaluate in chunks, then case by case inside a chunk that raises.  A case whose evaluation raises INSIDE the package
    under test (the family called it on an input it has to answer) is a violation with that case as the replay; an exception
    raised by the harness itself while digesting the implementation's answer is a broken correspondence (`corr`)."""
    from harness.lib import DriverError
    out = []
    for i in range(0, len(cases), chunk):
        part = cases[i:i + chunk]
        try:
            vs = fam.evaluate(part)
            assert len(vs) == len(part)
            out += vs
            continue
        except DriverError:
            raise
        except Exception:  # noqa: BLE001
            pass
        for c in part:
            try:
                v = fam.evaluate([c])
                assert len(v) == 1
                out.append(v[0])
            except DriverError:
                raise
            except Exception as e:  # noqa: BLE001
                tb = traceback.extract_tb(e.__traceback__)
                where = "; ".join(f"{Path(fr.filename).name}:{fr.lineno} {fr.name}" for fr in tb[-4:])
                if _raised_in_repo(e.__traceback__):
                    out.append(Verdict("violation", f"the implementation raised {type(e).__name__}: {str(e)[:200]} on an input it has "
                                       f"to answer ({where})", {"raised": type(e).__name__, "msg": str(e)[:300]}, None, None, ["impl-raised"]))
                else:
                    out.append(Verdict("corr", f"the harness could not digest the implementation's answer: {type(e).__name__}: "
                                       f"{str(e)[:200]} ({where})", {"raised": type(e).__name__, "msg": str(e)[:300]}, None, None, ["harness-raised"]))
    return out


def shrink(fam, case, is_bad, budget=60):
    """Greedy shrinking with the family's candidate generator."""
    best = case
    steps = 0
    improved = True
    while improved and steps < budget:
        improved = False
        for cand in fam.shrink(best):
            steps += 1
            if steps > budget:
                break
            try:
                v = robust_evaluate(fam, [cand])[0]
            except Exception:  # noqa: BLE001
                continue
            if is_bad(v):
                best = cand
                improved = True
                break
    return best


def write_replay(prop, kind, fam, case, v, extra=None):
    d = ROOT / "replays" / prop
    d.mkdir(parents=True, exist_ok=True)
    body = {
        "property": prop,
        "kind": kind,
        "family": fam,
        "case": case,
        "what": getattr(v, "what", ""),
        "impl": getattr(v, "impl", None),
        "model": getattr(v, "model", None),
        "spec": getattr(v, "spec", None),
    }
    if extra:
        body.update(extra)
    h = case_hash({"f": fam, "c": case, "k": kind, "x": extra})
    p = d / f"{h}.json"
    p.write_text(json.dumps(body, indent=1, default=str))
    return p


def main(argv=None):
    ap = argparse.ArgumentParser()
    ap.add_argument("prop")
    ap.add_argument("--tier", default=os.environ.get("VERIF_TIER", "quick"), choices=["quick", "thorough"])
    ap.add_argument("--replay")
    ap.add_argument("--no-lean", action="store_true", help="skip build/audit (development only)")
    ap.add_argument("--family")
    args = ap.parse_args(argv)
    prop = args.prop
    seed = int(os.environ.get("VERIF_SEED", "0"))
    t0 = time.time()
    try:
        return _main(prop, args, seed, t0)
    except Exception:  # noqa: BLE001
        traceback.print_exc()
        log(f"INTERNAL-ERROR property={prop}")
        return 2


def _main(prop, args, seed, t0):
    tier = args.tier
    info: dict = {}
    mod = importlib.import_module(f"harness.props.{prop.lower()}")
    fams = {f.name: f for f in mod.families()}

    if args.replay:
        body = json.loads(Path(args.replay).read_text())
        if body.get("kind") == "no-failing-input-found":
            ok, broken = lean_build(prop, "quick", info)
            if [b for b in broken if not b.startswith("anchor lost")]:
                print(f"VIOLATION property={prop} replay={args.replay} no-failing-input-found")
                return 1
            print(f"replay: {body.get('broken')} now checks")
            return 0
        if not args.no_lean:
            subprocess.run(["lake", "build", "driver"], cwd=LEAN, capture_output=True)
        fam = fams[body["family"]]
        v = fam.evaluate([body["case"]])[0]
        if v.status == "violation":
            print(f"replay: still failing: {v.what}")
            print(f"VIOLATION property={prop} replay={args.replay}")
            return 1
        print(f"replay: status={v.status} {v.what}")
        return 0

    # 1. Lean side ----------------------------------------------------------
    broken = []
    if not args.no_lean:
        ok, broken = lean_build(prop, tier, info)
        for b in broken:
            log(f"[{prop}] proof side: {b}")
    else:
        info["theorems"] = theorem_names(prop)
        info["obligations"] = info["discharged"] = len(info["theorems"])

    # 2. correspondence -------------------------------------------------------
    eff_tier = "thorough" if broken else tier  # widen the search when a proof broke
    drift_changed, drift_missing = [], []
    anchors = list(getattr(mod, "ANCHORS", None) or [])
    if os.environ.get("VERIF_NO_DRIFT") != "1":
        from harness import drift
        # the modelled functions the module names, plus every file the property is anchored in (properties.jsonl): ANY
        # change of the code the property speaks about is met with the thorough-size comparison (advisory, no verdict)
        anchors = anchors + drift.file_anchors(prop)
        drift_changed, drift_missing = drift.drifted(prop, anchors)
        if drift_changed or drift_missing:
            # advisory only: a modelled function was rewritten -> deepest comparison
            eff_tier = "thorough"
            log(f"[{prop}] source drift (advisory): changed={drift_changed} missing={drift_missing}")
    rng = random.Random(seed)
    known = load_known()
    evaluations = 0
    hashes, nontrivial = set(), set()
    samples = []
    dist = Counter()
    viols = []  # (fam, case, verdict)
    corrs = []
    known_hit = {}
    per_family = {}
    corpus_dir = ROOT / "corpus" / prop
    for name, fam in fams.items():
        if args.family and name != args.family:
            continue
        frng = random.Random(rng.getrandbits(64))
        cases = []
        if corpus_dir.exists():
            for cf in sorted(corpus_dir.glob("*.json")):
                b = json.loads(cf.read_text())
                if b.get("family") == name:
                    cases.append(b["case"])
        ncorpus = len(cases)
        cases += fam.gen(frng, eff_tier)
        tf = time.time()
        try:
            verdicts = fam.evaluate(cases)
            assert len(verdicts) == len(cases), f"{name}: {len(verdicts)} verdicts for {len(cases)} cases"
        except Exception as e0:  # noqa: BLE001
            # Never on the unchanged tree.  On a changed tree the implementation may raise where the family calls it
            # bare (on inputs it must answer), or return something the family cannot digest: find the cases, do not die.
            log(f"[{prop}] {name}: evaluation raised {type(e0).__name__}: {str(e0)[:160]} - evaluating case by case")
            verdicts = robust_evaluate(fam, cases)
        nfam_nt = 0
        for c, v in zip(cases, verdicts):
            evaluations += 1
            h = case_hash({"f": name, "c": c})
            hashes.add(h)
            if v.nontrivial:
                nontrivial.add(h)
                nfam_nt += 1
            for t in v.tags:
                dist[f"{name}:{t}"] += 1
            if v.status == "violation":
                viols.append((name, c, v))
            elif v.status == "corr":
                corrs.append((name, c, v))
        if cases:
            k = frng.randrange(len(cases))
            samples.append({"family": name, "case": cases[k], "status": verdicts[k].status,
                            "impl": verdicts[k].impl, "model": verdicts[k].model})
        per_family[name] = {"cases": len(cases), "corpus": ncorpus, "nontrivial": nfam_nt,
                            "wall_s": round(time.time() - tf, 2), "theorems": list(fam.theorems)}

    # 3. decide ---------------------------------------------------------------
    # A lost translator anchor is SOFT: the definition falls back to the pinned one (harness/translate/__init__.py), the
    # theorems are re-checked about that model, and the model is tied to the source by the correspondence alone, which
    # was therefore run at the thorough size above.  Only when that correspondence disagrees (or a proof / the build /
    # the audit broke) is the property "no longer shown to hold".
    soft_broken = [b for b in broken if b.startswith("anchor lost")]
    hard_broken = [b for b in broken if not b.startswith("anchor lost")]
    new_viol = []
    for name, c, v in viols:
        e = match_known(prop, name, c, v, known)
        if e is not None:
            known_hit.setdefault(e["id"], (e, name, c, v))
        else:
            new_viol.append((name, c, v))
    rc = 0
    out_lines = []
    for fid, (e, name, c, v) in sorted(known_hit.items()):
        out_lines.append(f"KNOWN-FINDING: property={prop} {fid}: {e['text']}")
    replay_paths = []
    if new_viol:
        # smallest failing case per family, shrunk
        byfam = {}
        for name, c, v in new_viol:
            if name not in byfam or fams[name].size(c) < fams[name].size(byfam[name][0]):
                byfam[name] = (c, v)
        for name, (c, v) in byfam.items():
            fam = fams[name]

            def bad(vv, _n=name):
                return vv.status == "violation" and match_known(prop, _n, None, vv, []) is None
            c2 = shrink(fam, c, lambda vv: vv.status == "violation")
            if match_known(prop, name, c2, v, known) is not None:
                c2 = c  # do not shrink into a listed finding
            v2 = robust_evaluate(fam, [c2])[0] if c2 is not c else v
            p = write_replay(prop, "failing-input", name, c2, v2, {"broken": broken} if broken else None)
            replay_paths.append(str(p))
            out_lines.append(f"VIOLATION property={prop} replay={p}")
            log(f"[{prop}] {name}: {v2.what}")
        rc = 1
    elif hard_broken or corrs:
        what = list(broken)
        extra = {"broken": what}
        if corrs:
            name, c, v = min(corrs, key=lambda t: fams[t[0]].size(t[1]))
            what.append(f"correspondence {name}: {v.what}")
            extra = {"broken": what, "correspondence_case": {"family": name, "case": c, "impl": v.impl, "model": v.model}}
            p = write_replay(prop, "no-failing-input-found", name, c, v, extra)
        else:
            p = write_replay(prop, "no-failing-input-found", "-", {}, Verdict(what="; ".join(what)), extra)
        replay_paths.append(str(p))
        out_lines.append(f"VIOLATION property={prop} replay={p} no-failing-input-found")
        rc = 1
    elif soft_broken:
        out_lines.append(f"ANCHOR-LOST (advisory): property={prop} {len(soft_broken)} source anchor(s) could not be read by the "
                         f"translator; the pinned definitions were used and agree with the implementation on all "
                         f"{evaluations} cases of the thorough-size correspondence: " + "; ".join(soft_broken)[:400])

    # 4. evidence ---------------------------------------------------------------
    obligations = info.get("obligations", 0)
    discharged = info.get("discharged", 0)
    ev = {
        "property_id": prop,
        "tier": tier,
        "seed": seed,
        "level": "proof",
        "coverage": {
            "obligations": max(obligations, 0),
            "discharged": discharged,
            "checker_cmd": f"cd lean && lake build PyttbModel.Props.{prop} && lake env lean <generated #print axioms file>"
                           + (" && lake env leanchecker PyttbModel.Props." + prop if tier == "thorough" else ""),
            "trusted_base": TRUSTED_BASE + list(getattr(mod, "TRUSTED_EXTRA", [])),
            "theorems": info.get("theorems", []),
            "axioms": info.get("axioms", {}),
            "partial_theorems": [n for n in info.get("theorems", []) if n.endswith("_partial")],
            "evaluations": evaluations,
            "distinct_nontrivial": len(nontrivial),
            "distinct_cases": len(hashes),
            "rule": getattr(mod, "RULE", ""),
            "samples": samples[:12],
            "exhaustive": bool(getattr(mod, "EXHAUSTIVE", {}).get(eff_tier, False)),
            "input_distribution": dict(sorted(dist.items())),
            "families": per_family,
            "proof_side_broken": hard_broken,
            "anchors_lost": soft_broken,
            "source_tie": ("translator + correspondence" if not soft_broken else
                           "correspondence only for the lost anchors (pinned definitions, thorough-size comparison)"),
            "drifted_functions": drift_changed,
            "missing_anchors": drift_missing,
            "known_findings_hit": sorted(known_hit),
            "replays": replay_paths,
            "lean": {k: info[k] for k in ("lake_build_s", "leanchecker", "lake_errors") if k in info},
            "effective_tier": eff_tier,
        },
        "assumptions": list(getattr(mod, "ASSUMPTIONS", [])),
        "wall_s": round(time.time() - t0, 2),
        "violations": len(new_viol) + (1 if (rc == 1 and not new_viol) else 0),
    }
    if obligations < 1 or discharged < 1:
        # no theorem was (re)checked in this run: do not present proof-level counts
        cov = ev["coverage"]
        cov["proof_status"] = {"obligations": cov.pop("obligations"), "discharged": cov.pop("discharged")}
    evdir = Path(os.environ.get("VERIF_EVIDENCE_DIR", str(ROOT / "evidence")))  # seeded-change experiments redirect this
    evdir.mkdir(parents=True, exist_ok=True)
    (evdir / f"{prop}.json").write_text(json.dumps(ev, indent=1, default=str))
    for ln in out_lines:
        print(ln)
    print(f"[{prop}] tier={tier} seed={seed} theorems={discharged}/{obligations} cases={evaluations} "
          f"nontrivial={len(nontrivial)} violations={len(new_viol)} known={len(known_hit)} "
          f"wall={ev['wall_s']}s rc={rc}")
    return rc


if __name__ == "__main__":
    sys.exit(main())
