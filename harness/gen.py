"""Shared generators (every choice comes from the rng that is passed in)."""
from __future__ import annotations

import itertools
from fractions import Fraction

import numpy as np


def shape(rng, nmin=1, nmax=4, smax=4, distinct=False):
    n = rng.randint(nmin, nmax)
    if distinct and n <= smax:
        s = rng.sample(range(1, smax + 1), n)
    else:
        s = [rng.randint(1, smax) for _ in range(n)]
    if rng.random() < 0.25 and n > 0:
        s[rng.randrange(n)] = 1  # force a singleton mode now and then
    return s


def all_shapes(max_cells, nmax=4):
    """Every shape with at most max_cells cells and order 1..nmax."""
    out = []

    def rec(prefix, cells):
        if prefix:
            out.append(list(prefix))
        if len(prefix) == nmax:
            return
        for s in range(1, max_cells // cells + 1):
            rec(prefix + [s], cells * s)

    rec([], 1)
    return out


def numel(s):
    p = 1
    for x in s:
        p *= x
    return p


def all_subs(s):
    """F-order enumeration of the subscripts of a shape."""
    return [list(reversed(t)) for t in itertools.product(*[range(x) for x in reversed(s)])]


def int_values(rng, n, lo=-9, hi=9, nonzero=False, distinct=False):
    pool = [v for v in range(lo, hi + 1) if not (nonzero and v == 0)]
    if distinct and n <= len(pool):
        return rng.sample(pool, n)
    return [rng.choice(pool) for _ in range(n)]


def dense_data(rng, s, zero_share=0.3):
    n = numel(s)
    vals = int_values(rng, n, nonzero=True)
    return [0 if rng.random() < zero_share else v for v in vals]


def sparse_entries(rng, s, klass=None, order=None):
    """(subs, vals) of a well-formed sparse tensor; klass in empty/one/some/all."""
    cells = all_subs(s)
    klass = klass or rng.choice(["empty", "one", "some", "some", "some", "all"])
    if klass == "empty":
        k = 0
    elif klass == "one":
        k = 1
    elif klass == "all":
        k = len(cells)
    else:
        k = rng.randint(0, len(cells))
    subs = rng.sample(cells, min(k, len(cells)))
    order = order or rng.choice(["sorted", "reversed", "shuffled"])
    if order == "sorted":
        subs.sort(key=lambda r: list(reversed(r)))
    elif order == "reversed":
        subs.sort(key=lambda r: list(reversed(r)), reverse=True)
    vals = int_values(rng, len(subs), nonzero=True)
    return subs, vals


def matrix(rng, r, c, lo=-5, hi=5, zero_share=0.15):
    return [[0 if rng.random() < zero_share else rng.choice([v for v in range(lo, hi + 1) if v]) for _ in range(c)]
            for _ in range(r)]


def perm(rng, n):
    p = list(range(n))
    rng.shuffle(p)
    return p


# builders of real pyttb objects ------------------------------------------------
def mk_tensor(ttb, shape_, data):
    arr = np.array(data, dtype=float).reshape(tuple(shape_), order="F")
    return ttb.tensor(arr, copy=True)


def mk_sptensor(ttb, shape_, subs, vals):
    if len(subs) == 0:
        return ttb.sptensor(shape=tuple(shape_))
    return ttb.sptensor(np.array(subs, dtype=int), np.array(vals, dtype=float).reshape(-1, 1), tuple(shape_))


def mk_ktensor(ttb, weights, factors):
    return ttb.ktensor([np.array(f, dtype=float).reshape(len(f), len(weights)) for f in factors],
                       np.array(weights, dtype=float))
