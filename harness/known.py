"""Matchers for the findings listed in /verif/known_findings.json.

A matcher receives (family name, case, verdict) and says whether this failing case
is the listed finding.  Anything no matcher accepts is reported as a violation.
"""
MATCHERS = {}


def matcher(fn):
    MATCHERS[fn.__name__] = fn
    return fn
