"""Matchers for the findings listed in /verif/known_findings.json and /verif/known/*.json.

A matcher receives (family name, case, verdict) and says whether this failing case
is the listed finding.  Anything no matcher accepts is reported as a violation.
Matchers live in harness/matchers/<property>.py and register with @matcher.
"""
import importlib
import pkgutil

MATCHERS = {}


def matcher(fn):
    MATCHERS[fn.__name__] = fn
    return fn


def _load():
    import harness.matchers as M
    for m in pkgutil.iter_modules(M.__path__):
        importlib.import_module(f"harness.matchers.{m.name}")


_load()
