"""Advisory source-drift detector (DESIGN.md 4.4).

Each property module may declare ANCHORS = [("pyttb/file.py", "func" | "Class.method"), ...]:
the functions its hand-written model mirrors.  A normalised-AST hash of each anchor is
stored in harness/anchors/<prop>.json (tools/update_anchors.py).  A changed hash never
produces a verdict: it widens the correspondence run to the thorough size and is recorded
in the evidence, so that a rewrite of a modelled function is always met with the deepest
comparison the check has.
"""
from __future__ import annotations

import ast
import hashlib
import json
from pathlib import Path

from harness.lib import REPO, ROOT

STORE = ROOT / "harness" / "anchors"


def _find(tree, dotted):
    parts = dotted.split(".")
    nodes = [tree]
    for p in parts:
        nxt = []
        for n in nodes:
            for c in ast.iter_child_nodes(n):
                if isinstance(c, (ast.FunctionDef, ast.AsyncFunctionDef, ast.ClassDef)) and c.name == p:
                    nxt.append(c)
        nodes = nxt
    return nodes


def _strip_doc(node):
    for n in ast.walk(node):
        if isinstance(n, (ast.FunctionDef, ast.ClassDef, ast.AsyncFunctionDef)):
            b = n.body
            if b and isinstance(b[0], ast.Expr) and isinstance(b[0].value, ast.Constant) and isinstance(b[0].value.value, str):
                n.body = b[1:] or [ast.Pass()]
    return node


def file_anchors(prop):
    """[(file, "*")] for the files the property is anchored in (properties.jsonl): the whole module, docstrings stripped"""
    for line in (ROOT / "properties.jsonl").read_text().splitlines():
        d = json.loads(line)
        if d["id"] == prop:
            return [(f, "*") for f in d["anchors"]["files"] if f.endswith(".py")]
    return []


def anchor_hash(path, dotted):
    try:
        src = (REPO / path).read_text()
        tree = ast.parse(src)
    except (OSError, SyntaxError):
        return None
    nodes = [tree] if dotted == "*" else _find(tree, dotted)
    if not nodes:
        return None
    dump = "|".join(ast.dump(_strip_doc(n), annotate_fields=False, include_attributes=False) for n in nodes)
    return hashlib.sha1(dump.encode()).hexdigest()[:16]


def current(anchors):
    return {f"{p}::{d}": anchor_hash(p, d) for p, d in anchors}


def drifted(prop, anchors):
    """-> (list of anchors whose hash differs from the stored one, list of missing anchors)"""
    f = STORE / f"{prop}.json"
    stored = json.loads(f.read_text()) if f.exists() else {}
    now = current(anchors)
    changed = [k for k, h in now.items() if h is not None and stored.get(k) not in (None, h)]
    missing = [k for k, h in now.items() if h is None]
    return changed, missing


def update(prop, anchors):
    STORE.mkdir(exist_ok=True)
    (STORE / f"{prop}.json").write_text(json.dumps(current(anchors), indent=1, sort_keys=True) + "\n")
