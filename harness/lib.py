"""Common machinery of the correspondence harness.

Everything that is random derives from one random.Random(VERIF_SEED).  The real
pyttb is imported from /repo (the current working tree); the Lean model is driven
through the compiled line-protocol driver.
"""
from __future__ import annotations

import hashlib
import json
import math
import os
import subprocess
import sys
import time
from collections import Counter
from fractions import Fraction
from pathlib import Path

ROOT = Path(__file__).resolve().parent.parent
LEAN = ROOT / "lean"
DRIVER = LEAN / ".lake" / "build" / "bin" / "driver"
REPO = Path(os.environ.get("PYTTB_REPO", "/repo"))
WORK = ROOT / ".work"

if str(REPO) not in sys.path:
    sys.path.insert(0, str(REPO))

import numpy as np  # noqa: E402


# ----------------------------------------------------------------------------
# canonical JSON values
# ----------------------------------------------------------------------------
def jnum(x):
    """Canonical JSON form of one scalar: int, "n/d", "nan", "inf", "-inf"."""
    if isinstance(x, (bool, np.bool_)):
        return int(bool(x))
    if isinstance(x, (int, np.integer)):
        return int(x)
    if isinstance(x, Fraction):
        return int(x) if x.denominator == 1 else f"{x.numerator}/{x.denominator}"
    if isinstance(x, (float, np.floating)):
        x = float(x)
        if math.isnan(x):
            return "nan"
        if math.isinf(x):
            return "inf" if x > 0 else "-inf"
        f = Fraction(x)
        return int(f) if f.denominator == 1 else f"{f.numerator}/{f.denominator}"
    if isinstance(x, complex) or isinstance(x, np.complexfloating):
        return f"complex({x})"
    raise TypeError(f"jnum: {type(x)}")


def jval(x):
    """Recursively canonicalise numpy / Fraction containers into JSON-able values."""
    if x is None or isinstance(x, str):
        return x
    if isinstance(x, dict):
        return {k: jval(v) for k, v in x.items()}
    if isinstance(x, np.ndarray):
        return jval(x.tolist())
    if isinstance(x, (list, tuple)):
        return [jval(v) for v in x]
    return jnum(x)


def frac(j):
    """Inverse of jnum for finite values."""
    if isinstance(j, int):
        return Fraction(j)
    if isinstance(j, str) and j not in ("nan", "inf", "-inf"):
        n, _, d = j.partition("/")
        return Fraction(int(n), int(d or 1))
    return j


def num_eq(impl, model):
    """impl: canonical number produced by floating point code; model: canonical exact
    number.  Equal iff the correctly rounded double of the exact value is the
    implementation's double (specials must coincide)."""
    if impl == model:
        return True
    a, b = frac(impl), frac(model)
    if isinstance(a, str) or isinstance(b, str):
        return False
    try:
        return float(a) == float(b)
    except OverflowError:
        return False


def deep_eq(impl, model):
    if isinstance(impl, list) and isinstance(model, list):
        return len(impl) == len(model) and all(deep_eq(a, b) for a, b in zip(impl, model))
    if isinstance(impl, dict) and isinstance(model, dict):
        return impl.keys() == model.keys() and all(deep_eq(impl[k], model[k]) for k in impl)
    if isinstance(impl, (list, dict)) or isinstance(model, (list, dict)):
        return False
    if impl is None or model is None or isinstance(impl, bool) or isinstance(model, bool):
        return impl == model
    return num_eq(impl, model)


# canonical forms of pyttb objects --------------------------------------------
def dense_j(t):
    """tensor -> {"shape", "data" in F order}"""
    data = np.asarray(t.data)
    return {"shape": [int(s) for s in t.shape], "data": jval(data.flatten(order="F"))}


def ndarray_j(a):
    a = np.asarray(a)
    return {"shape": [int(s) for s in a.shape], "data": jval(a.flatten(order="F"))}


def sparse_j(s):
    """sptensor as stored."""
    subs = np.asarray(s.subs)
    vals = np.asarray(s.vals)
    return {
        "shape": [int(x) for x in s.shape],
        "subs": [] if subs.size == 0 else jval(subs.astype(int)),
        "vals": [] if vals.size == 0 else jval(vals.reshape(-1)),
    }


def sparse_sorted_j(j):
    """Order-free canonical form of a sparse JSON object (for denotation compare)."""
    pairs = sorted(zip([tuple(r) for r in j["subs"]], [json.dumps(v) for v in j["vals"]]))
    return {
        "shape": j["shape"],
        "subs": [list(p[0]) for p in pairs],
        "vals": [json.loads(p[1]) for p in pairs],
    }


def ktensor_j(k):
    return {
        "weights": jval(np.asarray(k.weights).reshape(-1)),
        "factors": [jval(np.asarray(f)) for f in k.factor_matrices],
    }


REJECT = {"reject": True}


def call(fn, *a, **kw):
    """Run implementation code; any exception is the canonical rejection."""
    try:
        return {"ok": fn(*a, **kw)}
    except Exception as e:  # noqa: BLE001
        return {"reject": True, "exc": type(e).__name__, "msg": str(e)[:200]}


def strip_exc(out):
    if isinstance(out, dict) and out.get("reject"):
        return REJECT
    return out


# ----------------------------------------------------------------------------
# model driver
# ----------------------------------------------------------------------------
class DriverError(RuntimeError):
    pass


def drive(reqs):
    """Send requests (dicts) to the Lean driver, one per line; return parsed replies."""
    if not reqs:
        return []
    cmd = [str(DRIVER)]
    if os.environ.get("PYTTB_DRIVER_CMD"):
        # development only: e.g. "lake env lean --run MainC16.lean" (run from lean/)
        cmd = os.environ["PYTTB_DRIVER_CMD"].split()
    elif not DRIVER.exists():
        raise DriverError(f"driver not built: {DRIVER}")
    text = "\n".join(json.dumps(r, separators=(",", ":")) for r in reqs) + "\n"
    p = subprocess.run(cmd, input=text, capture_output=True, text=True, timeout=3600, cwd=str(LEAN))
    if p.returncode != 0:
        raise DriverError(f"driver exit {p.returncode}: {p.stderr[:500]}")
    lines = [ln for ln in p.stdout.split("\n") if ln.strip()]
    if len(lines) != len(reqs):
        raise DriverError(f"driver answered {len(lines)} of {len(reqs)} requests: {p.stderr[:300]}")
    out = [json.loads(ln) for ln in lines]
    for r, o in zip(reqs, out):
        if isinstance(o, dict) and "err" in o:
            raise DriverError(f"driver error on {json.dumps(r)[:300]}: {o['err']}")
    return out


# ----------------------------------------------------------------------------
# families, verdicts, bookkeeping
# ----------------------------------------------------------------------------
def case_hash(case):
    return hashlib.sha1(json.dumps(case, sort_keys=True).encode()).hexdigest()[:16]


class Verdict:
    __slots__ = ("status", "what", "impl", "model", "spec", "tags", "nontrivial")

    def __init__(self, status="ok", what="", impl=None, model=None, spec=None, tags=(), nontrivial=True):
        self.status = status  # ok | violation | corr
        self.what = what
        self.impl = impl
        self.model = model
        self.spec = spec
        self.tags = tuple(tags)
        self.nontrivial = nontrivial


class Family:
    """One family of cases of one property.  Subclasses define gen / evaluate."""

    name = "family"
    #: name of the theorem(s) that make model == spec for this family
    theorems: tuple = ()

    def gen(self, rng, tier):  # -> list of JSON-able case dicts (without "fam")
        raise NotImplementedError

    def evaluate(self, cases):  # -> list[Verdict]
        raise NotImplementedError

    def size(self, case):
        return len(json.dumps(case))

    def shrink(self, case):
        """Candidate smaller cases (default: none)."""
        return []


# ----------------------------------------------------------------------------------------
# every spelling of "unit variates from NumPy's global stream" goes through one stand-in
# ----------------------------------------------------------------------------------------
import contextlib as _contextlib

UNIT_SPELLINGS = ("random_sample", "random", "ranf", "sample", "rand")


@_contextlib.contextmanager
def unit_spellings(uniform_standin):
    """While active, np.random.random_sample / random / ranf / sample / rand are routed through
    `uniform_standin(0.0, 1.0, size)`, the harness's stand-in for np.random.uniform (recording, scripted or
    spying).  The properties speak of "uniform on [0,1)", "reproducibly under the global seed", "the random draws";
    none of them says WHICH function of the legacy global stream is called, and uniform(0, 1, size) takes exactly
    the doubles of the stream that the other spellings take - so a harmless switch between them (harmless/C20z)
    must look the same to every check, while a switch to a private generator is still seen (nothing recorded)."""
    saved = {n: getattr(np.random, n) for n in UNIT_SPELLINGS if hasattr(np.random, n)}
    for n in saved:
        if n == "rand":
            setattr(np.random, n, (lambda *dims, _u=uniform_standin: _u(0.0, 1.0, (dims if dims else None))))
        else:
            setattr(np.random, n, (lambda size=None, _u=uniform_standin: _u(0.0, 1.0, size)))
    try:
        yield
    finally:
        for n, f in saved.items():
            setattr(np.random, n, f)
