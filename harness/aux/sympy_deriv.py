"""Run under an interpreter that has sympy (python3-vt): symbolic d(loss)/d(model) of the
Python loss handles, independent of the harness' own translator.

stdin : {"source": <text of handles.py>, "points": [[name, x, p|null, m], ...]}
stdout: JSON list with one float (repr string) or null per point.

handles.py is executed with `np` replaced by a shim mapping log/exp/abs/sign/pi to sympy,
so the handle bodies run unchanged on symbols.
"""
import json
import sys
import types

import sympy as sp


def main():
    req = json.load(sys.stdin)
    def _where(c, a, b):
        return sp.Piecewise((a, c), (b, True))
    shim = types.SimpleNamespace(log=sp.log, exp=sp.exp, abs=sp.Abs, absolute=sp.Abs, fabs=sp.Abs, sign=sp.sign, pi=sp.pi,
                                 e=sp.E, ndarray=object, logical_not=lambda b: 1 - b, inf=sp.oo, sqrt=sp.sqrt,
                                 square=lambda a: a ** 2, power=lambda a, b: a ** b, float_power=lambda a, b: a ** b,
                                 log1p=lambda a: sp.log(1 + a), expm1=lambda a: sp.exp(a) - 1,
                                 maximum=sp.Max, minimum=sp.Min, fmax=sp.Max, fmin=sp.Min, where=_where,
                                 clip=lambda a, a_min, a_max: sp.Min(sp.Max(a, a_min), a_max),
                                 negative=lambda a: -a, reciprocal=lambda a: 1 / a, add=lambda a, b: a + b,
                                 subtract=lambda a, b: a - b, multiply=lambda a, b: a * b, divide=lambda a, b: a / b,
                                 true_divide=lambda a, b: a / b, asarray=lambda a: a, float64=lambda a: a)
    src_lines = []
    for ln in req["source"].split("\n"):
        if ln.startswith("import numpy") or ln.startswith("import pyttb") or ln.startswith("from __future__") \
                or ln.startswith("import math"):
            continue
        src_lines.append(ln)
    ns = {"np": shim, "ttb": types.SimpleNamespace(tensor=object),
          "math": types.SimpleNamespace(pi=sp.pi, e=sp.E, log=sp.log, exp=sp.exp, sqrt=sp.sqrt, fabs=sp.Abs,
                                        pow=lambda a, b: a ** b, inf=sp.oo)}
    exec(compile("\n".join(src_lines), "handles.py", "exec"), ns)
    x, m, p = sp.symbols("x m p", real=True)
    cache = {}
    out = []
    for name, xv, pv, mv in req["points"]:
        try:
            if name not in cache:
                fn = ns[name]
                nargs = fn.__code__.co_argcount + fn.__code__.co_kwonlyargcount
                if nargs == 3 and fn.__code__.co_kwonlyargcount == 1:
                    expr = fn(x, m, **{fn.__code__.co_varnames[2]: p})
                else:
                    expr = fn(x, m, p) if nargs == 3 else fn(x, m)
                cache[name] = sp.lambdify((x, p, m), sp.diff(expr, m), modules="mpmath")
            val = cache[name](sp.Float(xv, 40), sp.Float(0.0 if pv is None else pv, 40), sp.Float(mv, 40))
            out.append(repr(float(val)))
        except Exception:  # noqa: BLE001
            out.append(None)
    json.dump(out, sys.stdout)


if __name__ == "__main__":
    main()
