"""Matchers of the C14 findings listed in /verif/known/C14.json.

`what` of a C14 violation is a list of items `rep|clause|detail` joined by " ;; ".
"""
from harness.known import matcher


def _items(verdict):
    what = getattr(verdict, "what", "") or ""
    out = []
    for it in what.split(" ;; "):
        parts = it.split("|", 2)
        if len(parts) < 2:
            return None
        out.append((parts[0], parts[1]))
    return out


@matcher
def c14_sparse_dense_path_row_permutation(fam, case, verdict):
    """Only: representation sptensor, dense-solver path (r >= shape[n] - 1), and the ONLY failing
    clauses are the eigenvector / order / subspace ones and their consequence, the captured energy
    (orthonormality, shape, dtype, sign rule, Gram matrix and every other representation must be fine)."""
    if fam not in ("post_exact", "real_solver"):
        return False
    items = _items(verdict)
    if not items:
        return False
    if any(rep != "sparse" or clause not in ("eigvec", "subspace", "energy") for rep, clause in items):
        return False
    if case is None:
        return True
    if fam == "post_exact":
        if case.get("rep") != "sparse":
            return False
        m = len(case["w"])
    else:
        m = case["shape"][case["n"]]
    return case["r"] >= m - 1


@matcher
def c14_sparse_all_singleton_refused(fam, case, verdict):
    """Only: sptensor whose extents are all 1 is refused with the documented ValueError."""
    if fam != "gram":
        return False
    what = getattr(verdict, "what", "") or ""
    if not what.startswith("sparse|refused|all-singleton"):
        return False
    if case is None:
        return True
    return case.get("rep") == "sparse" and all(e == 1 for e in case["x"]["shape"])
