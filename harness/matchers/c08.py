"""Matchers of the C08 findings listed in /verif/known/C08.json."""
from harness.known import matcher


@matcher
def c08_from_vector_2d_weights(fam, case, verdict):
    """Only: from_vector given the parameter vector as an n x 1 column or a 1 x n row WITH weights
    (contains_weights=True) is refused by the constructor's assertion on the weights (an (R,1) slice)."""
    if fam != "algebra":
        return False
    what = getattr(verdict, "what", "") or ""
    if what not in ("from_vector: a valid request was refused", "vec: a valid request was refused"):
        return False
    impl = getattr(verdict, "impl", None)
    if not (isinstance(impl, dict) and impl.get("reject") and impl.get("exc") == "AssertionError"
            and str(impl.get("msg", "")).startswith("Input 'weights' must be")):
        return False
    if case is None:
        return True
    return case.get("op") in ("vec", "from_vector") and case.get("as") in ("col", "row") and case.get("w") is True
