"""Matchers of the recorded C05 findings (/verif/known/C05.json)."""
import re

from harness.known import matcher


def _pairs(verdict):
    """(result array, operand name) pairs that share memory, from the observation."""
    obs = getattr(verdict, "impl", None)
    if not isinstance(obs, dict) or "operands" not in obs:
        return None, None
    names = obs["operands"]
    pairs = {(r, names[i]) for r, i in list(obs.get("share", [])) + list(obs.get("visible", []))}
    return pairs, [names[i] for i in obs.get("mut", [])]


@matcher
def c05_sptensor_find_returns_internal_arrays(fam, case, verdict):
    """Only: sptensor.find() on the receiver, nothing mutated, and the sharing is exactly
    result[0] ~ self.subs, result[1] ~ self.vals (the documented accessor)."""
    what = getattr(verdict, "what", "") or ""
    if fam != "ops_sptensor" or not what.startswith("known-alias sptensor.find["):
        return False
    if case is not None and (case.get("cls"), case.get("method")) != ("sptensor", "find"):
        return False
    pairs, mut = _pairs(verdict)
    return pairs is not None and not mut and pairs <= {("0", "self.subs"), ("1", "self.vals")}


_ALG = re.compile(r"^known-alias alg\.(cp_als|cp_apr|tucker_als)\[")


@matcher
def c05_alg_returns_callers_initial_guess(fam, case, verdict):
    """Only: cp_als / cp_apr / tucker_als, nothing mutated, and every shared pair is either an
    array of the returned initial guess (result[1]) with the same array of the caller's `init`,
    or an entry of the output parameters with the caller's dimorder / optdims array."""
    what = getattr(verdict, "what", "") or ""
    if fam != "algorithms" or not _ALG.match(what):
        return False
    if case is not None and (case.get("cls") != "alg" or case.get("method") not in ("cp_als", "cp_apr", "tucker_als")):
        return False
    pairs, mut = _pairs(verdict)
    if pairs is None or mut:
        return False
    for r, o in pairs:
        if r.startswith("1.") and o == "k.init." + r[2:]:
            continue
        if (r, o) in {("2.params.dimorder", "k.dimorder"), ("2.params.optdims", "k.optdims"), ("2.params.3", "k.dimorder")}:
            continue
        return False
    return bool(pairs)
