"""Matchers of the recorded C06 findings about the sparse matricized tensor (/verif/known/C06.json).

Each one accepts only the family `sptenmat_ops`, the case class that was built to exhibit the finding, and the
verdict text of exactly that failure; any other failure of the same case (a raise, another matrix, another stored
order giving other triples, a disagreement with the model) is reported as a violation."""
from harness.known import matcher


def _is(fam, case, k, klass=None):
    return fam == "sptenmat_ops" and isinstance(case, dict) and case.get("k") == k and (klass is None or case.get("class") == klass)


@matcher
def c06_sptenmat_setitem_stores_assigned_zero(fam, case, verdict):
    """sptenmat.__setitem__ stores an assigned 0 like any other value (over a stored pair and as a new pair).
    Matches only: a `setitem` case of class `zero` whose failure is "explicit zero"."""
    return _is(fam, case, "setitem", "zero") and str(verdict.what).startswith("sptenmat.__setitem__: explicit zero:")


@matcher
def c06_sptenmat_setitem_repeated_cell_stored_twice(fam, case, verdict):
    """a cell that is not stored and is named twice by the key (a repeated index in a list) is appended twice.
    Matches only: a `setitem` case of class `repeat` whose failure is "a pair is stored twice"."""
    return _is(fam, case, "setitem", "repeat") and str(verdict.what).startswith("sptenmat.__setitem__: a pair is stored twice:")


@matcher
def c06_sptenmat_setitem_1d_values_corrupt(fam, case, verdict):
    """a 1-d value array / list for two or more new pairs on a non-empty object: np.vstack of the value column
    raises AFTER self.subs was extended.  Matches only: a `setitem` case of class `vec-new` whose failure is
    "1-d value array"."""
    return _is(fam, case, "setitem", "vec-new") and str(verdict.what).startswith("sptenmat.__setitem__: 1-d value array:")


@matcher
def c06_sptenmat_isequal_depends_on_stored_order(fam, case, verdict):
    """sptenmat.isequal compares subs / vals with np.array_equal: the same triples in another order are unequal.
    Matches only: an `isequal` case whose failure is the order dependence (not a raise, not a model mismatch)."""
    return _is(fam, case, "isequal") and verdict.status == "violation" and " is not isequal to the same triples " in str(verdict.what)


@matcher
def c06_sptenmat_empty_nnz_one(fam, case, verdict):
    """sptenmat() keeps vals = np.array([], ndmin=2) of shape (1, 0): nnz = len(vals) = 1.
    Matches only: the `empty` case whose failure is the nnz report."""
    return _is(fam, case, "empty") and str(verdict.what).startswith("sptenmat(): nnz reports ")
