"""Matchers for the recorded C02 findings."""
from harness.known import matcher


@matcher
def c02_sparse_collapse_reducer_sees_stored_values_only(fam, case, verdict):
    """sptensor.collapse(dims, fun) applies `fun` to the stored values of each group only
    (MATLAB behaviour); for reducers that change when zeros are inserted it differs from the
    reducer over the fiber of the array.  Matches only: sparse holder, collapse, such a reducer,
    and an implementation result that is exactly what the model of that behaviour returns."""
    if fam != "contract_collapse_scale" or case is None:
        return False
    if case.get("op") != "collapse" or case.get("X", {}).get("kind") != "sparse":
        return False
    from harness.props.c02 import ZERO_INSENSITIVE, canon_model
    from harness.lib import deep_eq
    if case.get("fun") in ZERO_INSENSITIVE:
        return False
    impl, model = verdict.impl, verdict.model
    if isinstance(impl, dict) and impl.get("reject") and not case["X"]["subs"]:
        # no stored value at all: the reducer is called on an empty array (np.max / np.min raise)
        return sorted(case.get("sel", [])) == list(range(len(case["X"]["shape"])))
    if not (isinstance(impl, dict) and "ok" in impl and isinstance(model, dict) and "ok" in model):
        return False
    return deep_eq(impl["ok"], canon_model(model["ok"]))
