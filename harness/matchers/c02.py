"""Matchers for the recorded C02 findings."""
from harness.known import matcher


@matcher
def c02_sparse_collapse_reducer_sees_stored_values_only(fam, case, verdict):
    """sptensor.collapse(dims, fun) applies `fun` to the stored values of each group only
    (MATLAB behaviour); for reducers that change when zeros are inserted it differs from the
    reducer over the fiber of the array.  Matches only: sparse holder, collapse, such a reducer,
    and an implementation result that is exactly what the model of that behaviour returns."""
    if fam != "contract_collapse_scale" or case is None:
        return False
    if case.get("op") != "collapse" or case.get("X", {}).get("kind") != "sparse":
        return False
    from harness.props.c02 import ZERO_INSENSITIVE, canon_model
    from harness.lib import deep_eq
    if case.get("fun") in ZERO_INSENSITIVE:
        return False
    impl, model = verdict.impl, verdict.model
    if isinstance(impl, dict) and impl.get("reject") and not case["X"]["subs"]:
        # no stored value at all: the reducer is called on an empty array (np.max / np.min raise)
        return sorted(case.get("sel", [])) == list(range(len(case["X"]["shape"])))
    if not (isinstance(impl, dict) and "ok" in impl and isinstance(model, dict) and "ok" in model):
        return False
    return deep_eq(impl["ok"], canon_model(model["ok"]))


def _stored(h):
    """numpy array of a dense holder in its storage type (F-order data), or None for float64 storage"""
    import numpy as np
    dt = h.get("dtype")
    if not dt or dt == "float64":
        return None
    a = np.array([int(x) for x in h["data"]], dtype=object).astype(dt)
    return a.reshape(tuple(h["shape"]), order="F")


def _same_values(got, want_arr, single):
    """canonical implementation result == numpy array `want_arr`, value by value (exactly; `single`: both are
    single precision numbers that agree to a few units in the last place of single precision)"""
    import numpy as np
    from fractions import Fraction
    from harness.props.c02 import value_of
    shp, vals = value_of(got)
    want_arr = np.asarray(want_arr)
    if list(shp) != list(want_arr.shape) or len(vals) != want_arr.size:
        return False
    for g, w in zip(vals, want_arr.flatten(order="F").tolist()):
        if isinstance(g, str):
            return False
        w = Fraction(int(w)) if isinstance(w, (bool, int)) else Fraction(float(w))
        if g == w:
            continue
        if not single:
            return False
        if float(np.float32(float(g))) != float(g) or abs(g - w) > abs(w) / 10 ** 6:
            return False
    return True


@matcher
def c02_ttt_computed_in_storage_dtype(fam, case, verdict):
    """tensor.ttt multiplies and sums in the storage type of its operands (its doctest pins an integer result for
    integer input).  Matches only: family dtypes, ttt, both operands stored in the same non-float64 type, and an
    implementation result that is exactly the contraction carried out by numpy in that type (wrap-around for
    integers, logical or / and for bool, single precision for float32)."""
    import numpy as np
    if fam != "dtypes" or case is None or case.get("op") != "ttt":
        return False
    A, B = _stored(case.get("X", {})), _stored(case.get("Y", {}))
    if A is None or B is None or A.dtype != B.dtype:
        return False
    impl = verdict.impl
    if not (isinstance(impl, dict) and "ok" in impl):
        return False
    with np.errstate(all="ignore"):
        want = np.tensordot(A, B, axes=(list(case["xd"]), list(case["yd"])))
    return _same_values(impl["ok"], want, A.dtype == np.float32)


@matcher
def c02_sparse_scale_computed_in_storage_dtype(fam, case, verdict):
    """sptensor.scale multiplies the stored values by the factor in their storage type (its doctest pins integer
    values for integer input).  Matches only: family dtypes, scale of a sparse holder, values and factor stored in
    the same non-float64 type, and an implementation result that is exactly the entry-wise product carried out by
    numpy in that type, zero products dropped."""
    import numpy as np
    if fam != "dtypes" or case is None or case.get("op") != "scale":
        return False
    X, F = case.get("X", {}), case.get("F", {})
    dt = X.get("dtype")
    if X.get("kind") != "sparse" or not dt or dt == "float64":
        return False
    fdt = case.get("mdtype") if F.get("kind") == "array" else F.get("dtype")
    if fdt != dt:
        return False
    impl = verdict.impl
    if not (isinstance(impl, dict) and "ok" in impl and isinstance(impl["ok"], dict) and impl["ok"].get("kind") == "sparse"):
        return False
    f = np.array([int(x) for x in F["data"]], dtype=object).astype(dt)
    if F.get("kind") != "array":
        f = f.reshape(tuple(F["shape"]), order="F")
    subs = np.array(X["subs"], dtype=int).reshape(len(X["subs"]), len(X["shape"]))
    vals = np.array([int(x) for x in X["vals"]], dtype=object).astype(dt)
    with np.errstate(all="ignore"):
        prod = vals * f[tuple(subs[:, list(case["dims"])].T)]
    want = np.zeros(tuple(X["shape"]), dtype=prod.dtype)
    want[tuple(subs.T)] = prod
    return _same_values(impl["ok"], want, np.dtype(dt) == np.float32)
