"""Matchers of the C19 findings listed in /verif/known/C19.json (status "known")."""
from harness.known import matcher


@matcher
def c19_sptensor_empty_subs_extent_unchecked(fam, case, verdict):
    """The plain `sptensor(subs, vals, shape)` constructor never tests the shape itself: with an EMPTY subscript
    array a shape holding a zero or negative extent is accepted (`from_aggregator` and `sptensor(shape=...)` refuse
    it).  Matches only: malformed / construct / k = sptensor, NOT the aggregator, no subscripts and no values, and
    the violated clause is the extent; a request with entries, or through from_aggregator, is still reported."""
    if fam != "malformed" or not isinstance(case, dict):
        return False
    if case.get("opname") != "construct" or case.get("k") != "sptensor" or case.get("agg") is not False:
        return False
    if case.get("subs") != [] or case.get("nvals") != 0 or case.get("bad") != "extent <= 0":
        return False
    what = getattr(verdict, "what", "") or ""
    return "was answered instead of rejected" in what and any(e <= 0 for e in case.get("shape", []))


@matcher
def c19_empty_sparse_innerprod_any_operand(fam, case, verdict):
    """`sptensor.innerprod(other)` returns 0 for a receiver WITHOUT nonzeros before it looks at the type of `other`
    (only the shape of a pyttb tensor is compared first): an operand of any type is answered.  Matches only:
    unsupported / sptensor.innerprod / all-zero receiver / the call was answered (a changed receiver, a receiver
    with nonzeros or another method is still reported)."""
    if fam != "unsupported" or not isinstance(case, dict):
        return False
    if case.get("cls") != "sptensor" or case.get("method") != "innerprod" or case.get("nnz") != 0:
        return False
    what = getattr(verdict, "what", "") or ""
    return what.startswith("unsupported-operand|sptensor.innerprod|")


@matcher
def c19_sumtensor_parts_untyped(fam, case, verdict):
    """The `sumtensor` constructor compares only `tensors[0].shape` with the shapes of the later parts and never
    looks at the type of a part: a single part of ANY type (`sumtensor(['a'])`) and a later part of any type that
    has a fitting `.shape` (an ndarray, a tenmat, another sumtensor) are accepted, whereas `sumtensor + part`
    refuses them.  Matches only: unsupported / sumtensor constructor / the call was answered."""
    if fam != "unsupported" or not isinstance(case, dict):
        return False
    if case.get("cls") != "sumtensor" or not str(case.get("method", "")).startswith("__init__:"):
        return False
    what = getattr(verdict, "what", "") or ""
    return what.startswith("unsupported-operand|sumtensor.__init__:")
