"""Matcher of the recorded C01 finding (/verif/known/C01.json)."""
from harness.known import matcher


@matcher
def c01_tenmat_ctor_shape(fam, case, verdict):
    """tenmat(data, rdims, cdims, tshape) keeps a matrix whose extents are not (prod tshape[rdims], prod tshape[cdims]).
    Matches only: family tenmat_ctor, the implementation accepted and agrees with the model (stored form, reports,
    double), the arguments are otherwise well-formed (matrix or vector-with-tshape, equal cell counts, the split a
    partition of the modes) and the ONLY inconsistency is the matrix shape."""
    if fam != "tenmat_ctor":
        return False
    spec = getattr(verdict, "spec", None)
    what = getattr(verdict, "what", "") or ""
    if not isinstance(spec, dict) or spec.get("accept") is not False:
        return False
    if not str(spec.get("why", "")).startswith("matrix shape "):
        return False
    if not what.startswith("the tenmat constructor accepts an inconsistent object: matrix shape "):
        return False
    impl = getattr(verdict, "impl", None)
    return isinstance(impl, dict) and "ok" in impl
