"""Matchers of the C11 findings listed in /verif/known/C11.json."""
from harness.known import matcher

_LBFGS = "L-BFGS first iterate is bad"


@matcher
def c11_pqnr_lbfgs_assert(fam, case, verdict):
    """Only: algorithm pqnr, the call raised (did not return) and the exception message is the
    fatal L-BFGS assertion of tt_cp_apr_pqnr."""
    what = getattr(verdict, "what", "") or ""
    if fam not in ("runs", "validation", "longruns"):
        return False
    if case is not None and case.get("alg") != "pqnr":
        return False
    return what.startswith("pqnr raised instead of returning:") and _LBFGS in what


@matcher
def c11_one_way_dense(fam, case, verdict):
    """Only: a 1-way DENSE data tensor with otherwise valid arguments, refused with the IndexError of
    khatrirao on an empty matrix list."""
    what = getattr(verdict, "what", "") or ""
    if fam != "validation" or (case is not None and (case.get("mut") != "one-way-dense" or case.get("sparse")
                                                      or len(case.get("shape", [])) != 1)):
        return False
    return what.startswith("cp_apr raised IndexError on a 1-way dense count tensor")


@matcher
def c11_empty_sparse(fam, case, verdict):
    """Only: a SPARSE data tensor without stored entry with otherwise valid arguments, refused with an
    IndexError from indexing the empty subscript array."""
    what = getattr(verdict, "what", "") or ""
    if fam != "validation" or (case is not None and (case.get("mut") != "empty-sparse" or not case.get("sparse")
                                                      or any(case.get("vals", [1])))):
        return False
    return what.startswith("cp_apr raised IndexError on a sparse count tensor without stored entry")

