"""Matcher of the recorded C04 finding (/verif/known/C04.json)."""
from harness.known import matcher


@matcher
def c04_dense_region_lists_are_numpy_advanced_indexing(fam, case, verdict):
    """tensor.__getitem__ / __setitem__ hand a region key straight to NumPy: several index lists are paired
    element by element, and an integer separated from a list by a slice moves the list's mode to the front.
    Matches only: dense_history, and the operation that failed is a region key of the dense class holding an
    index list plus (another index list | an integer separated from the list by a slice)."""
    if fam != "dense_history":
        return False
    detail = getattr(verdict, "impl", None)
    if not isinstance(detail, dict) or "op" not in detail:
        return False
    from harness.props.c04 import is_d10
    return is_d10(detail["op"]["key"])


@matcher
def c04_sparse_read_repeated_list_entry(fam, case, verdict):
    """sptensor.__getitem__ renumbers every stored entry of the region to ONE new coordinate
    (tt_renumberdim, last position wins): a read whose index list repeats an entry returns only the last copy.
    Matches only: sparse_history, the failing operation is a READ with a region key holding an index list
    with a repeated entry."""
    if fam != "sparse_history":
        return False
    detail = getattr(verdict, "impl", None)
    if not isinstance(detail, dict) or "op" not in detail:
        return False
    from harness.props.c04 import has_repeated_list
    op = detail["op"]
    return op["op"] == "read" and has_repeated_list(op["key"])

