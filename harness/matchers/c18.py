"""Matchers of the C18 findings listed in /verif/known/C18.json."""
from harness.known import matcher


@matcher
def c18_fixsigns_depends_on_mode_order(fam, case, verdict):
    """Only: cp_als / ktensor.fixsigns WITH sign fixing, the two results differ by nothing but column signs in
    components with an odd number (>= 3) of modes whose dominant entry is negative (the harness establishes exactly
    that before it words the verdict `fixsigns-relabel|...`); tensor, weights, fit, iteration count and every
    other clause must agree, and with fixsigns=False any difference is a violation."""
    if fam not in ("relabel", "relabel_cleanup"):
        return False
    what = getattr(verdict, "what", "") or ""
    if not what.startswith("fixsigns-relabel|"):
        return False
    if case is None:
        return True
    if fam == "relabel":
        return case.get("alg") == "cp_als" and case.get("fixsigns", True) is not False
    return bool(case.get("fixsigns")) and len(case.get("factors", [])) >= 3
