"""Matchers of the C13 findings listed in /verif/known/C13.json."""
from harness.known import matcher


@matcher
def c13_semistrat_zero_part(fam, case, verdict):
    """Only: a sample drawn by `semistrat` (directly or as the gradient sampler of a GCPSampler)
    is in range, has matching lengths, correct nonzero part and weights, and the ONLY thing
    wrong is that a subscript of its zero part holds a stored nonzero (by design)."""
    what = getattr(verdict, "what", "") or ""
    if fam == "samplers":
        return what.startswith("semistrat-zero-part:") and (case is None or case.get("k") == "semistrat")
    if fam == "gcpsampler":
        return what.startswith("gradient sample of GCPSampler: semistrat-zero-part:") and \
            (case is None or case.get("gkind") == "semistrat")
    return False



_NONNEG = ("RAYLEIGH", "GAMMA", "NEGATIVE_BINOMIAL", "BETA")


@matcher
def c13_setup_nonneg_dense_zero(fam, case, verdict):
    """Only: `fg_setup.setup` (directly or through gcp_opt) REFUSES a DENSE tensor for one of the four losses with a
    `valid_nonneg` check although every entry is >= 0 and some entry is exactly 0 (`data.data > 0` is strict; the same
    data as an sptensor are accepted).  Implementation and Lean model agree; any other refusal / acceptance of the
    family is still reported."""
    from fractions import Fraction
    what = getattr(verdict, "what", "") or ""
    if fam != "gcp_setup" or not what.startswith("setup-nonneg-dense-zero:"):
        return False
    if case is None:
        return True
    xs = [Fraction(x) for x in case.get("entries", [])]
    return case.get("rep") == "dense" and case.get("objective") in _NONNEG and bool(xs) and min(xs) == 0


@matcher
def c13_setup_natural_negative(fam, case, verdict):
    """Only: `fg_setup.setup` ACCEPTS for POISSON / POISSON_LOG a tensor all of whose entries are integers and some
    entry is negative (`valid_natural` tests `vals % 1 == 0` only)."""
    from fractions import Fraction
    what = getattr(verdict, "what", "") or ""
    if fam != "gcp_setup" or not what.startswith("setup-natural-negative:"):
        return False
    if case is None:
        return True
    xs = [Fraction(x) for x in case.get("entries", [])]
    return case.get("objective") in ("POISSON", "POISSON_LOG") and bool(xs) and min(xs) < 0 and \
        all(x.denominator == 1 for x in xs)
