"""Matchers of the C13 findings listed in /verif/known/C13.json."""
from harness.known import matcher


@matcher
def c13_semistrat_zero_part(fam, case, verdict):
    """Only: a sample drawn by `semistrat` (directly or as the gradient sampler of a GCPSampler)
    is in range, has matching lengths, correct nonzero part and weights, and the ONLY thing
    wrong is that a subscript of its zero part holds a stored nonzero (by design)."""
    what = getattr(verdict, "what", "") or ""
    if fam == "samplers":
        return what.startswith("semistrat-zero-part:") and (case is None or case.get("k") == "semistrat")
    if fam == "gcpsampler":
        return what.startswith("gradient sample of GCPSampler: semistrat-zero-part:") and \
            (case is None or case.get("gkind") == "semistrat")
    return False


