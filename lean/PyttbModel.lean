import PyttbModel.Core.Idx
import PyttbModel.Lemmas.Idx
