import PyttbModel.Driver.C17
import PyttbModel.Driver.C01
import PyttbModel.Driver.C16
import PyttbModel.Driver.C03
import PyttbModel.Driver.C04
import PyttbModel.Driver.C11
import PyttbModel.Driver.C20
import PyttbModel.Driver.C02
import PyttbModel.Driver.C19
import PyttbModel.Driver.C09
import PyttbModel.Driver.C14
import PyttbModel.Driver.C18
import PyttbModel.Driver.C15
import PyttbModel.Driver.C10
import PyttbModel.Driver.C08
import PyttbModel.Driver.C05
import PyttbModel.Driver.C13
import PyttbModel.Driver.C12
import PyttbModel.Driver.C06
open Lean Pyttb Pyttb.Codec Pyttb.Driver

def allOps : List (String × Op) := ops17 ++ ops07 ++ ops01 ++ ops16 ++ ops03 ++ C04.ops04 ++ ops11 ++ ops20 ++ ops02 ++ C19.ops19 ++ ops09 ++ ops14 ++ ops18 ++ ops15 ++ ops10 ++ ops08 ++ ops05 ++ ops13 ++ ops12 ++ ops06

def handle (line : String) : String :=
  match Json.parse line with
  | .error e => (Json.mkObj [("err", Json.str s!"parse: {e}")]).compress
  | .ok j =>
    match j.getObjVal? "op" >>= Json.getStr? with
    | .error e => (Json.mkObj [("err", Json.str e)]).compress
    | .ok name =>
      match allOps.lookup name with
      | none => (Json.mkObj [("err", Json.str s!"unknown op {name}")]).compress
      | some f =>
        match f j with
        | .ok r => r.compress
        | .error e => (Json.mkObj [("err", Json.str e)]).compress

partial def loop (h : IO.FS.Stream) (out : IO.FS.Stream) : IO Unit := do
  let line ← h.getLine
  if line.isEmpty then return ()
  let t := line.trimAscii.toString
  if t.isEmpty then loop h out else
  out.putStrLn (handle t)
  loop h out

def main : IO Unit := do
  let out ← IO.getStdout
  loop (← IO.getStdin) out
  out.flush
