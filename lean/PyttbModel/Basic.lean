def hello := "world"
