/-
C16 — the arithmetic behind `parse (fmt v) = v`: binary64 values, P-significant-digit decimals
and "nearest" (the contract of a correctly rounding `printf("%.16e")` / `strtod`).

Import-free and executable (core `Rat`).  Nothing here prints or parses text: a printed token
`±D.DDDDDDDDDDDDDDDDe±XX` IS the pair (17-digit integer `d`, exponent `k`) with value `±d·10^k`,
and a finite nonzero double IS (sign, mantissa `m`, exponent `e`) with value `±m·2^e`.
-/
namespace Pyttb.Digits

/-- `b^e` for an integer exponent, as a rational. -/
def scale (b : Nat) (e : Int) : Rat :=
  if 0 ≤ e then ((b ^ e.toNat : Nat) : Rat) else 1 / ((b ^ (-e).toNat : Nat) : Rat)

/-- |a − b| without Mathlib. -/
def dist (a b : Rat) : Rat := if a ≤ b then b - a else a - b

/-- A finite nonzero binary64 value: sign, integer mantissa, exponent of the last mantissa bit. -/
structure B64 where
  neg : Bool
  m : Nat
  e : Int
deriving DecidableEq, Repr

/-- Normal: `2^52 ≤ m < 2^53`, `−1074 ≤ e ≤ 971`; subnormal: `1 ≤ m < 2^52`, `e = −1074`. -/
def B64.WF (b : B64) : Prop :=
  -1074 ≤ b.e ∧ b.e ≤ 971 ∧ ((2 ^ 52 ≤ b.m ∧ b.m < 2 ^ 53) ∨ (1 ≤ b.m ∧ b.m < 2 ^ 52 ∧ b.e = -1074))

instance (b : B64) : Decidable b.WF := by unfold B64.WF; exact inferInstance

def B64.toRat (b : B64) : Rat :=
  if b.neg then -((b.m : Rat) * scale 2 b.e) else (b.m : Rat) * scale 2 b.e

def B64.negate (b : B64) : B64 := { b with neg := !b.neg }

/-- A decimal with integer significand `d` and exponent `k`: the value `±d·10^k`. -/
structure Dec where
  neg : Bool
  d : Nat
  k : Int
deriving DecidableEq, Repr

/-- Exactly `P` significant digits: `10^(P−1) ≤ d < 10^P` (`P = 17` for `"%.16e"`). -/
def Dec.WF (P : Nat) (y : Dec) : Prop := 10 ^ (P - 1) ≤ y.d ∧ y.d < 10 ^ P

instance (P : Nat) (y : Dec) : Decidable (y.WF P) := by unfold Dec.WF; exact inferInstance

def Dec.toRat (y : Dec) : Rat :=
  if y.neg then -((y.d : Rat) * scale 10 y.k) else (y.d : Rat) * scale 10 y.k

def Dec.negate (y : Dec) : Dec := { y with neg := !y.neg }

/-- `y` is a `P`-digit decimal at minimal distance from `x` among all `P`-digit decimals
(of both signs and all exponents); ties may be broken in any way. -/
def IsNearestDec (P : Nat) (x : Rat) (y : Dec) : Prop :=
  y.WF P ∧ ∀ z : Dec, z.WF P → dist x y.toRat ≤ dist x z.toRat

/-- `x` is a finite nonzero binary64 value at minimal distance from `y` among zero and all
finite nonzero binary64 values; ties may be broken in any way. -/
def IsNearestBin (y : Rat) (x : B64) : Prop :=
  x.WF ∧ dist y x.toRat ≤ dist y 0 ∧ ∀ z : B64, z.WF → dist y x.toRat ≤ dist y z.toRat

/-! ### decision procedures: compare with the two neighbours -/

/-- next `P`-digit decimal away from zero -/
def Dec.up (P : Nat) (y : Dec) : Dec :=
  if y.d + 1 < 10 ^ P then { y with d := y.d + 1 } else { y with d := 10 ^ (P - 1), k := y.k + 1 }

/-- next `P`-digit decimal towards zero -/
def Dec.down (P : Nat) (y : Dec) : Dec :=
  if 10 ^ (P - 1) < y.d then { y with d := y.d - 1 } else { y with d := 10 ^ P - 1, k := y.k - 1 }

/-- Decides `IsNearestDec P x y` for `x ≠ 0` of the sign of `y` (proved sound in
`Lemmas/Digits.lean`): `y` has `P` digits and is at least as close to `x` as its two
neighbours. -/
def nearestDecB (P : Nat) (x : Rat) (y : Dec) : Bool :=
  decide (y.WF P) && decide (dist x y.toRat ≤ dist x (y.up P).toRat) &&
    decide (dist x y.toRat ≤ dist x (y.down P).toRat)

/-- next binary64 value away from zero (`none`: overflow) -/
def B64.up (b : B64) : Option B64 :=
  if b.m + 1 < 2 ^ 53 then some { b with m := b.m + 1 }
  else if b.e < 971 then some { b with m := 2 ^ 52, e := b.e + 1 } else none

/-- next binary64 value towards zero (`none`: zero) -/
def B64.down (b : B64) : Option B64 :=
  if b.e = -1074 then (if 1 < b.m then some { b with m := b.m - 1 } else none)
  else if 2 ^ 52 < b.m then some { b with m := b.m - 1 }
  else some { b with m := 2 ^ 53 - 1, e := b.e - 1 }

/-- Decides `IsNearestBin y x` for `y ≠ 0` of the sign of `x` (proved sound in
`Lemmas/Digits.lean`): well formed and at
least as close to `y` as both neighbours (zero below the least subnormal; above the largest
finite value the competitor is the overflow threshold `2^1024`, as in IEEE 754 rounding). -/
def nearestBinB (y : Rat) (x : B64) : Bool :=
  decide x.WF &&
    (match x.up with
     | some u => decide (dist y x.toRat ≤ dist y u.toRat)
     | none => decide (dist y x.toRat ≤ dist y (if x.neg then -(scale 2 1024) else scale 2 1024))) &&
    (match x.down with
     | some d => decide (dist y x.toRat ≤ dist y d.toRat)
     | none => decide (dist y x.toRat ≤ dist y 0))

/-- The bit pattern of a finite nonzero double as (sign, mantissa, exponent); `none` for
zeros, infinities and NaN. -/
def B64.ofBits (bits : Nat) : Option B64 :=
  let neg := decide (2 ^ 63 ≤ bits % 2 ^ 64)
  let ex : Nat := (bits / 2 ^ 52) % 2 ^ 11
  let fr : Nat := bits % 2 ^ 52
  if ex = 2047 then none
  else if ex = 0 then (if fr = 0 then none else some ⟨neg, fr, -1074⟩)
  else some ⟨neg, 2 ^ 52 + fr, (ex : Int) - 1075⟩

end Pyttb.Digits
