/-
C19 — ill-formed requests are rejected, not answered, and leave their receiver unchanged.

For every operation: `Pre_<op>` (Spec/Preconditions.lean) is the decidable precondition written
from the property's list; `validate_<op>` (Ops/Validate.lean) is the validation prefix as the
code performs it.  `C19_rejects_<op>`: a request that violates the precondition is rejected;
`C19_accepts_<op>`: the validation prefix rejects nothing else (so the precondition is exactly
the guard; where the code refuses a little more, the extra hypothesis is stated).
`C19_receiver_unchanged_<op>`: the in-place operations validate before they touch the receiver.
Proofs are in Lemmas/Validate.lean.
-/
import PyttbModel.Lemmas.Validate
import PyttbModel.Lemmas.ShapeOps
namespace Pyttb
open V19

variable {α : Type}

/-! ### tt_dimscheck -/

/-- `dims` together with `exclude_dims`, a mode that is negative, `≥ N` or repeated (in either
argument), or a multiplicand count that is neither the order nor the number of selected modes:
rejected. -/
theorem C19_rejects_dimscheck (N : Nat) (M : Option Nat) (dims excl : Option (List Int))
    (h : ¬ Pre_dimscheck N M dims excl) : validate_dimscheck N M dims excl = .error .reject :=
  rejects_of_guard (validate_dimscheck_ok_iff N M dims excl) h

theorem C19_accepts_dimscheck (N : Nat) (M : Option Nat) (dims excl : Option (List Int))
    (h : Pre_dimscheck N M dims excl) : validate_dimscheck N M dims excl = .ok () :=
  (validate_dimscheck_ok_iff N M dims excl).2 h

/-- what an accepted request is answered with: the selected modes in increasing order and the
position of the multiplicand of each -/
theorem C19_dimscheck_answer (N : Nat) (M : Option Nat) (dims excl : Option (List Int)) (r : DimsCheck)
    (h : dimscheck19 N M dims excl = .ok r) :
    Pre_dimscheck N M dims excl ∧ r.sdims = sortedModes (selModes N dims excl) ∧
    (∀ m, M = some m → r.pairs.Perm (pairing m (selModes N dims excl))) := by
  obtain ⟨hp, rfl⟩ := (dimscheck19_ok_iff N M dims excl r).1 h
  refine ⟨hp, rfl, ?_⟩
  rintro m rfl
  exact pairs_perm _ _

/-! ### multilinear products -/

/-- `ttv` (dense, sparse, Kruskal, Tucker, sum): an ill-formed mode selection, a vector list of
the wrong length or a vector whose length is not the extent of its mode is rejected. -/
theorem C19_rejects_ttv (a : TtvArgs) (h : ¬ Pre_ttv a) : validate_ttv a = .error .reject :=
  rejects_of_guard (validate_ttv_ok_iff a) h

theorem C19_accepts_ttv (a : TtvArgs) (h : Pre_ttv a) : validate_ttv a = .ok () :=
  (validate_ttv_ok_iff a).2 h

/-- `ttm` (dense, sparse, Tucker; list or bare matrix; transposed or not): a matrix whose inner
size is not the extent of its mode, a list of the wrong length, an ill-formed mode selection or
a bare matrix for several modes is rejected. -/
theorem C19_rejects_ttm (a : TtmArgs) (h : ¬ Pre_ttm a) : validate_ttm a = .error .reject := by
  unfold validate_ttm
  by_cases hr : a.rep = Rep.ttensor
  · rw [if_pos hr]
    apply rejects_of_guard (validate_ttm_tucker_ok_iff a)
    intro hp
    apply h
    unfold Pre_ttm
    rw [if_neg (by simp [hr])]
    exact hp
  · rw [if_neg hr]
    apply rejects_of_guard (validate_ttm_seq_ok_iff a)
    intro hp
    apply h
    unfold Pre_ttm
    by_cases hs : a.single = true
    · rw [if_pos hs] at hp
      rw [if_pos ⟨hs, hr⟩]; exact hp
    · rw [if_neg hs] at hp
      rw [if_neg (by simp [hs])]; exact ⟨hp.1, hp.2.2⟩

/-- a well-formed `ttm` request passes validation; the dense and sparse list form additionally
needs at least one mode to multiply along (the code indexes the first matrix). -/
theorem C19_accepts_ttm (a : TtmArgs) (h : Pre_ttm a)
    (hne : a.rep ≠ Rep.ttensor → a.single = false →
      pairing a.mats.length (selModes a.shape.length a.dims a.excl) ≠ []) :
    validate_ttm a = .ok () := by
  unfold validate_ttm
  unfold Pre_ttm at h
  by_cases hr : a.rep = Rep.ttensor
  · rw [if_pos hr, validate_ttm_tucker_ok_iff]
    rw [if_neg (by simp [hr])] at h
    exact h
  · rw [if_neg hr, validate_ttm_seq_ok_iff]
    by_cases hs : a.single = true
    · rw [if_pos ⟨hs, hr⟩] at h
      rw [if_pos hs]; exact h
    · rw [if_neg (by simp [hs])] at h
      rw [if_neg hs]
      exact ⟨h.1, hne hr (by simpa using hs), h.2⟩

/-- `mttkrp` (dense, sparse, Kruskal, Tucker, sum): fewer than two modes, a factor list of the
wrong length, a mode that is negative or `≥ N`, a used factor with the wrong number of rows or a
column count different from the first used factor's: rejected.  (For a Tucker tensor the core
is the one the harness builds, `min 2` of every extent; `validate_mttkrp_ttensor_ok_iff` holds
for any core of the tensor's order.) -/
theorem C19_rejects_mttkrp (a : MttkrpArgs) (h : ¬ Pre_mttkrp a) : validate_mttkrp a = .error .reject :=
  rejects_of_guard (validate_mttkrp_ok_iff a) h

theorem C19_accepts_mttkrp (a : MttkrpArgs) (h : Pre_mttkrp a) : validate_mttkrp a = .ok () :=
  (validate_mttkrp_ok_iff a).2 h

/-- Tucker `mttkrp` with an arbitrary core of the right order. -/
theorem C19_rejects_mttkrp_ttensor (a : MttkrpArgs) (core : List Nat) (hc : core.length = a.shape.length)
    (h : ¬ Pre_mttkrp a) : validate_mttkrp_ttensor a core = .error .reject :=
  rejects_of_guard (validate_mttkrp_ttensor_ok_iff a core hc) h

/-- inner products and element-wise operations between tensors (dense, sparse, Kruskal, Tucker,
sum; `+ - * / == != < <= > >=`, `logical_and/or/xor`): operands of different shapes are rejected. -/
theorem C19_rejects_innerprod (sa sb : List Nat) (h : ¬ Pre_sameShape sa sb) :
    validate_sameShape sa sb = .error .reject :=
  rejects_of_guard (validate_sameShape_ok_iff sa sb) h

theorem C19_accepts_innerprod (sa sb : List Nat) (h : Pre_sameShape sa sb) : validate_sameShape sa sb = .ok () :=
  (validate_sameShape_ok_iff sa sb).2 h

theorem C19_rejects_elementwise (sa sb : List Nat) (h : ¬ Pre_sameShape sa sb) :
    validate_sameShape sa sb = .error .reject := C19_rejects_innerprod sa sb h

/-- matricized `+`/`-`: different matrix shapes are rejected; matricized product: inner sizes
must agree. -/
theorem C19_rejects_tenmat_arith (sa sb : List Nat) (a b : MatS) :
    (¬ Pre_tenmatAdd sa sb → validate_tenmatAdd sa sb = .error .reject) ∧
    (¬ Pre_tenmatMul a b → validate_tenmatMul a b = .error .reject) :=
  ⟨rejects_of_guard (validate_tenmatAdd_ok_iff sa sb), rejects_of_guard (validate_tenmatMul_ok_iff a b)⟩

theorem C19_accepts_tenmat_arith (sa sb : List Nat) (a b : MatS) :
    (Pre_tenmatAdd sa sb → validate_tenmatAdd sa sb = .ok ()) ∧
    (Pre_tenmatMul a b → validate_tenmatMul a b = .ok ()) :=
  ⟨(validate_tenmatAdd_ok_iff sa sb).2, (validate_tenmatMul_ok_iff a b).2⟩

/-- `ttt`: contracted modes that are negative, out of range, repeated, of different number or of
different extents are rejected. -/
theorem C19_rejects_ttt (a : TttArgs) (h : ¬ Pre_ttt a) : validate_ttt a = .error .reject :=
  rejects_of_guard (validate_ttt_ok_iff a) h

theorem C19_accepts_ttt (a : TttArgs) (h : Pre_ttt a) : validate_ttt a = .ok () :=
  (validate_ttt_ok_iff a).2 h

/-- `contract(i, j)` (dense, sparse): a mode that is negative or `≥ N`, the same mode twice, or
modes of different extent: rejected. -/
theorem C19_rejects_contract (shape : List Nat) (i j : Int) (h : ¬ Pre_contract shape i j) :
    validate_contract shape i j = .error .reject :=
  rejects_of_guard (validate_contract_ok_iff shape i j) h

theorem C19_accepts_contract (shape : List Nat) (i j : Int) (h : Pre_contract shape i j) :
    validate_contract shape i j = .ok () := (validate_contract_ok_iff shape i j).2 h

/-- `collapse(dims)` (dense, sparse). -/
theorem C19_rejects_collapse (shape : List Nat) (dims : Option (List Int)) (h : ¬ Pre_collapse shape dims) :
    validate_collapse shape dims = .error .reject :=
  rejects_of_guard (validate_collapse_ok_iff shape dims) h

theorem C19_accepts_collapse (shape : List Nat) (dims : Option (List Int)) (h : Pre_collapse shape dims) :
    validate_collapse shape dims = .ok () := (validate_collapse_ok_iff shape dims).2 h

/-- `scale(factor, dims)` (dense, sparse; array, tensor or sparse factor): ill-formed modes or a
factor whose shape is not the extents of the scaled modes are rejected. -/
theorem C19_rejects_scale (a : ScaleArgs) (h : ¬ Pre_scale a) : validate_scale a = .error .reject :=
  rejects_of_guard (validate_scale_ok_iff a) h

theorem C19_accepts_scale (a : ScaleArgs) (h : Pre_scale a) : validate_scale a = .ok () :=
  (validate_scale_ok_iff a).2 h

/-! ### index maps -/

/-- `permute(order)` (dense, sparse, Kruskal, Tucker): anything that is not a permutation of
`0 .. N-1` (repeats, negative entries, wrong length, shifted) is rejected. -/
theorem C19_rejects_permute (shape : List Nat) (order : List Int) (h : ¬ Pre_permute shape order) :
    validate_permute shape order = .error .reject :=
  rejects_of_guard (validate_permute_ok_iff shape order) h

theorem C19_accepts_permute (shape : List Nat) (order : List Int) (h : Pre_permute shape order) :
    validate_permute shape order = .ok () := (validate_permute_ok_iff shape order).2 h

theorem isPermI_ofNat_iff (order : List Nat) (n : Nat) : IsPermI (order.map Int.ofNat) n ↔ isPermOf order n = true := by
  rw [isPermOf_iff]
  unfold IsPermI
  simp only [List.length_map, List.mem_map]
  constructor
  · rintro ⟨hl, h⟩
    refine ⟨hl, fun m hm => ?_⟩
    obtain ⟨k, hk, he⟩ := h m hm
    have : k = m := Int.ofNat.inj he
    exact this ▸ hk
  · rintro ⟨hl, h⟩
    exact ⟨hl, fun m hm => ⟨m, h m hm, rfl⟩⟩

/-- the same for the full operation models of C07 (orders given as natural numbers): the
holders' `permute` refuses what `Pre_permute` excludes. -/
theorem C19_rejects_permute_models [Zero α] (T : Dense α) (S : Sparse α) (K : Ktensor α) (Tk : Ttensor α)
    (order : List Nat) :
    (¬ Pre_permute T.shape (order.map Int.ofNat) → T.permute order = .error .reject) ∧
    (¬ Pre_permute S.shape (order.map Int.ofNat) → S.permute order = .error .reject) ∧
    (¬ IsPermI (order.map Int.ofNat) K.factors.length → K.permute order = .error .reject) ∧
    (¬ IsPermI (order.map Int.ofNat) Tk.factors.length → Tk.permute order = .error .reject) := by
  have key : ∀ n, ¬ IsPermI (order.map Int.ofNat) n → isPermOf order n = false := by
    intro n h
    rw [isPermI_ofNat_iff] at h
    simpa using h
  obtain ⟨h1, h2, h3⟩ := permute_rejects_others S K Tk order
  exact ⟨fun h => permute_rejects_dense T order (key _ h), fun h => h1 (key _ h),
    fun h => h2 (key _ h), fun h => h3 (key _ h)⟩

/-- `reshape` (dense; sparse with or without `old_modes`): a target with another element count,
or `old_modes` that are negative, out of range or repeated: rejected. -/
theorem C19_rejects_reshape (shape target : List Nat) (old : Option (List Int)) (h : ¬ Pre_reshape shape target old) :
    validate_reshape shape target old = .error .reject :=
  rejects_of_guard (validate_reshape_ok_iff shape target old) h

theorem C19_accepts_reshape (shape target : List Nat) (old : Option (List Int)) (h : Pre_reshape shape target old) :
    validate_reshape shape target old = .ok () := (validate_reshape_ok_iff shape target old).2 h

/-- the full models of C07: a count-changing target is refused by dense and sparse `reshape`. -/
theorem C19_rejects_reshape_models (T : Dense α) (S : Sparse α) (target : List Nat) :
    (¬ Pre_tensor target T.shape → T.reshape target = .error .reject) ∧
    (¬ Pre_tensor target S.shape → S.reshape target none = .error .reject) :=
  reshape_rejects T S target

/-- `to_tenmat` / `to_sptenmat` (and Kruskal `to_tenmat`): neither `rdims` nor `cdims`, or row
and column modes that (after the `fc`/`bc`/`t` conventions) do not list every mode exactly once
— negative, out of range, repeated, missing — are rejected. -/
theorem C19_rejects_to_tenmat (n : Nat) (rdims cdims : Option (List Int)) (cyc : Option Cyclic)
    (h : ¬ Pre_toMat n rdims cdims cyc) :
    validate_toTenmat n rdims cdims cyc = .error .reject ∧ validate_toSptenmat n rdims cdims cyc = .error .reject :=
  ⟨rejects_of_guard (validate_toTenmat_ok_iff n rdims cdims cyc) h,
   rejects_of_guard (validate_toSptenmat_ok_iff n rdims cdims cyc) h⟩

theorem C19_accepts_to_tenmat (n : Nat) (rdims cdims : Option (List Int)) (cyc : Option Cyclic)
    (h : Pre_toMat n rdims cdims cyc) :
    validate_toTenmat n rdims cdims cyc = .ok () ∧ validate_toSptenmat n rdims cdims cyc = .ok () :=
  ⟨(validate_toTenmat_ok_iff n rdims cdims cyc).2 h, (validate_toSptenmat_ok_iff n rdims cdims cyc).2 h⟩

/-! ### constructors -/

/-- `tensor(data, shape)`: a shape with another number of cells than there are values. -/
theorem C19_rejects_tensor (dshape shape : List Nat) (hs : shape ≠ []) (h : ¬ Pre_tensor dshape shape) :
    validate_tensor dshape shape = .error .reject :=
  rejects_of_guard (validate_tensor_ok_iff dshape shape hs) h

theorem C19_accepts_tensor (dshape shape : List Nat) (hs : shape ≠ []) (h : Pre_tensor dshape shape) :
    validate_tensor dshape shape = .ok () := (validate_tensor_ok_iff dshape shape hs).2 h

/-- the model `Dense.mk?` of the same constructor. -/
theorem C19_rejects_tensor_model (shape : List Nat) (data : List α) (h : data.length ≠ numel shape) :
    Dense.mk? shape data = .error .reject := by
  unfold Dense.mk?
  rw [if_neg (by simpa using h)]

/-- `sptensor(subs, vals, shape)`: a value count different from the number of subscripts, a
subscript array with another number of columns than the shape has modes, a negative subscript
or one `≥` the extent: rejected. -/
theorem C19_rejects_sptensor (a : SubsArgs) (h : ¬ Pre_subs a) : validate_sptensor a = .error .reject :=
  rejects_of_guard (validate_sptensor_ok_iff a) h

theorem C19_accepts_sptensor (a : SubsArgs) (h : Pre_subs a) : validate_sptensor a = .ok () :=
  (validate_sptensor_ok_iff a).2 h

/-- `sptensor.from_aggregator` (the subscripts are a 2-d array: every row has `width` entries). -/
theorem C19_rejects_from_aggregator (a : SubsArgs) (hw : ∀ row ∈ a.subs, row.length = a.width)
    (h : ¬ Pre_subs a) : validate_fromAggregator a = .error .reject :=
  rejects_of_guard (validate_fromAggregator_ok_iff a hw) h

theorem C19_accepts_from_aggregator (a : SubsArgs) (hw : ∀ row ∈ a.subs, row.length = a.width)
    (h : Pre_subs a) : validate_fromAggregator a = .ok () := (validate_fromAggregator_ok_iff a hw).2 h

/-- `sptensor.extract(subs)`. -/
theorem C19_rejects_extract (a : SubsArgs) (h : ¬ Pre_extract a) : validate_extract a = .error .reject :=
  rejects_of_guard (validate_extract_ok_iff a) h

theorem C19_accepts_extract (a : SubsArgs) (h : Pre_extract a) : validate_extract a = .ok () :=
  (validate_extract_ok_iff a).2 h

/-- `ktensor(factors, weights)`: no factor, differing column counts, a weight vector of another
length. -/
theorem C19_rejects_ktensor (fs : List MatS) (nw : Option Nat) (h : ¬ Pre_ktensor fs nw) :
    validate_ktensor fs nw = .error .reject := rejects_of_guard (validate_ktensor_ok_iff fs nw) h

theorem C19_accepts_ktensor (fs : List MatS) (nw : Option Nat) (h : Pre_ktensor fs nw) :
    validate_ktensor fs nw = .ok () := (validate_ktensor_ok_iff fs nw).2 h

/-- `ttensor(core, factors)`: the number of factors is not the order of the core, or a factor
has another number of columns than its core mode. -/
theorem C19_rejects_ttensor (core : List Nat) (fs : List MatS) (h : ¬ Pre_ttensor core fs) :
    validate_ttensor core fs = .error .reject := rejects_of_guard (validate_ttensor_ok_iff core fs) h

theorem C19_accepts_ttensor (core : List Nat) (fs : List MatS) (h : Pre_ttensor core fs) :
    validate_ttensor core fs = .ok () := (validate_ttensor_ok_iff core fs).2 h

/-- `sumtensor(parts)` and `sumtensor + part`: parts of different shapes. -/
theorem C19_rejects_sumtensor (shapes : List (List Nat)) (h : ¬ Pre_sumtensor shapes) :
    validate_sumtensor shapes = .error .reject := rejects_of_guard (validate_sumtensor_ok_iff shapes) h

theorem C19_accepts_sumtensor (shapes : List (List Nat)) (h : Pre_sumtensor shapes) :
    validate_sumtensor shapes = .ok () := (validate_sumtensor_ok_iff shapes).2 h

/-- `tenmat(data, rdims, cdims, tshape)`: another number of values than cells, a mode split that is
not a permutation of the modes, or a matrix whose shape is not (cells of the row modes, cells of the
column modes) — a 1-d array is shaped by the constructor, only its size has to fit (commit 8a75720). -/
theorem C19_rejects_tenmat (a : TenmatArgs) (h : ¬ Pre_tenmat a) : validate_tenmat a = .error .reject :=
  rejects_of_guard (validate_tenmat_ok_iff a) h

theorem C19_accepts_tenmat (a : TenmatArgs) (h : Pre_tenmat a) : validate_tenmat a = .ok () :=
  (validate_tenmat_ok_iff a).2 h

/-- in particular: a `2 × 6` matrix for the split 0 | 1 of a `3 × 4` tensor is refused although the
cell counts agree, the `3 × 4` matrix and a vector of 12 are accepted. -/
example : ¬ Pre_tenmat { dshape := (2, 6), rdims := some [0], cdims := some [1], tshape := [3, 4] } ∧
    Pre_tenmat { dshape := (3, 4), rdims := some [0], cdims := some [1], tshape := [3, 4] } ∧
    Pre_tenmat { dshape := (1, 12), rdims := some [0], cdims := some [1], tshape := [3, 4], vec := true } := by
  decide

/-- `sptenmat(subs, vals, rdims, cdims, tshape)`: a mode split that is not a permutation, a
subscript array that is not (row, column) pairs, an index that is negative or `≥` the number
of rows / columns, a value count different from the number of pairs. -/
theorem C19_rejects_sptenmat (a : SptenmatArgs) (h : ¬ Pre_sptenmat a) : validate_sptenmat a = .error .reject :=
  rejects_of_guard (validate_sptenmat_ok_iff a) h

theorem C19_accepts_sptenmat (a : SptenmatArgs) (h : Pre_sptenmat a) : validate_sptenmat a = .ok () :=
  (validate_sptenmat_ok_iff a).2 h

/-- `ktensor.from_vector`: a data length that is not a whole number of components. -/
theorem C19_rejects_from_vector (shape : List Nat) (n : Nat) (cw : Bool) (h : ¬ Pre_fromVector shape n cw) :
    validate_fromVector shape n cw = .error .reject := rejects_of_guard (validate_fromVector_ok_iff shape n cw) h

theorem C19_accepts_from_vector (shape : List Nat) (n : Nat) (cw : Bool) (h : Pre_fromVector shape n cw) :
    validate_fromVector shape n cw = .ok () := (validate_fromVector_ok_iff shape n cw).2 h

/-! ### Kruskal operations with a mode or component argument; receivers -/

/-- `normalize(mode=)`, `normalize(weight_factor=)`, `arrange(weight_factor=)`, `redistribute`,
`tolist(mode)`, `nvecs(n, r)` (all holders): a mode that is negative or `≥ N` is rejected. -/
theorem C19_rejects_kmode (N : Nat) (m : Int) (h : ¬ Pre_kmode N m) : validate_kmode N m = .error .reject :=
  rejects_of_guard (validate_kmode_ok_iff N m) h

theorem C19_accepts_kmode (N : Nat) (m : Int) (h : Pre_kmode N m) : validate_kmode N m = .ok () :=
  (validate_kmode_ok_iff N m).2 h

/-- `arrange(permutation=p)`: anything but a permutation of the components. -/
theorem C19_rejects_karrange (R : Nat) (p : List Int) (h : ¬ Pre_karrange R p) :
    validate_karrange R p = .error .reject := rejects_of_guard (validate_karrange_ok_iff R p) h

theorem C19_accepts_karrange (R : Nat) (p : List Int) (h : Pre_karrange R p) : validate_karrange R p = .ok () :=
  (validate_karrange_ok_iff R p).2 h

/-- `ktensor.extract(idx)`. -/
theorem C19_rejects_kextract (R : Nat) (idx : List Int) (h : ¬ Pre_kextract R idx) :
    validate_kextract R idx = .error .reject := rejects_of_guard (validate_kextract_ok_iff R idx) h

theorem C19_accepts_kextract (R : Nat) (idx : List Int) (h : Pre_kextract R idx) :
    validate_kextract R idx = .ok () := (validate_kextract_ok_iff R idx).2 h

/-- the in-place Kruskal operations taking a mode (`normalize`, `arrange(weight_factor=)`,
`redistribute`, `tolist(mode)`): whatever they would do to the receiver, a rejected request
leaves it as it was. -/
theorem C19_receiver_unchanged_kmode {σ : Type} (N : Nat) (m : Int) (step : σ → σ) (s : σ)
    (h : ¬ Pre_kmode N m) : inPlace (validate_kmode N m) step s = (s, .error .reject) :=
  inPlace_reject _ step s (C19_rejects_kmode N m h)

/-- `arrange(permutation=p)` with a non-permutation leaves the receiver as it was. -/
theorem C19_receiver_unchanged_karrange {σ : Type} (R : Nat) (p : List Int) (step : σ → σ) (s : σ)
    (h : ¬ Pre_karrange R p) : inPlace (validate_karrange R p) step s = (s, .error .reject) :=
  inPlace_reject _ step s (C19_rejects_karrange R p h)

/-- an accepted in-place request does run its step (the receiver model is not vacuous). -/
theorem C19_receiver_updated {σ : Type} (v : Except Reject Unit) (step : σ → σ) (s : σ) (h : v = .ok ()) :
    inPlace v step s = (step s, .ok ()) := by subst h; rfl

/-! ### masks, Khatri-Rao -/

/-- `mask(W)` (dense, sparse, Kruskal): a mask of another order or larger in some mode. -/
theorem C19_rejects_mask (shape wshape : List Nat) (h : ¬ Pre_mask shape wshape) :
    validate_mask shape wshape = .error .reject := rejects_of_guard (validate_mask_ok_iff shape wshape) h

theorem C19_accepts_mask (shape wshape : List Nat) (h : Pre_mask shape wshape) : validate_mask shape wshape = .ok () :=
  (validate_mask_ok_iff shape wshape).2 h

/-- `khatrirao(*matrices, reverse)`: no matrix, or differing column counts. -/
theorem C19_rejects_khatrirao (ms : List MatS) (rev : Bool) (h : ¬ Pre_khatrirao ms) :
    validate_khatrirao ms rev = .error .reject := rejects_of_guard (validate_khatrirao_ok_iff ms rev) h

theorem C19_accepts_khatrirao (ms : List MatS) (rev : Bool) (h : Pre_khatrirao ms) :
    validate_khatrirao ms rev = .ok () := (validate_khatrirao_ok_iff ms rev).2 h

/-- the value-level model of C17 refuses the same requests. -/
theorem C19_rejects_khatrirao_model [Mul α] (M0 : Mat α) (rest : List (Mat α))
    (h : ∃ M ∈ rest, M.ncols ≠ M0.ncols) :
    khatrirao (M0 :: rest) false = .error .reject ∧ khatrirao ([] : List (Mat α)) false = .error .reject :=
  ⟨khatrirao_rejects M0 rest h, rfl⟩

/-! ### algorithm options -/

/-- `cp_als`: a non-positive rank, a `dimorder` that is not a permutation, `optdims` that are
negative, out of range, repeated or empty, an initial guess of another order, shape or number of
components, or an unknown initialisation name. -/
theorem C19_rejects_cp_als (a : CpAlsArgs) (h : ¬ Pre_cpAls a) : validate_cpAls a = .error .reject :=
  rejects_of_guard (validate_cpAls_ok_iff a) h

theorem C19_accepts_cp_als (a : CpAlsArgs) (h : Pre_cpAls a) : validate_cpAls a = .ok () :=
  (validate_cpAls_ok_iff a).2 h

/-- `cp_apr`: non-positive rank, negative data, unknown algorithm, an unfitting or negative guess. -/
theorem C19_rejects_cp_apr (a : CpAprArgs) (h : ¬ Pre_cpApr a) : validate_cpApr a = .error .reject :=
  rejects_of_guard (validate_cpApr_ok_iff a) h

theorem C19_accepts_cp_apr (a : CpAprArgs) (h : Pre_cpApr a) : validate_cpApr a = .ok () :=
  (validate_cpApr_ok_iff a).2 h

/-- `tucker_als`: negative `maxiters`, a rank vector of the wrong length, a rank below 1 or above
the extent of its mode, a `dimorder` that is not a permutation, a guess list of the wrong length
or with a matrix of the wrong size, an unknown name. -/
theorem C19_rejects_tucker_als (a : TuckerArgs) (h : ¬ Pre_tucker a) : validate_tucker a = .error .reject :=
  rejects_of_guard (validate_tucker_ok_iff a) h

theorem C19_accepts_tucker_als (a : TuckerArgs) (h : Pre_tucker a) : validate_tucker a = .ok () :=
  (validate_tucker_ok_iff a).2 h

/-- `hosvd`: a rank vector of the wrong length, a rank that is negative or larger than the extent
of its mode, or a `dimorder` that is not a permutation. -/
theorem C19_rejects_hosvd (shape : List Nat) (ranks : Option (List Int)) (dimorder : Option (List Int))
    (h : ¬ Pre_hosvd shape ranks dimorder) : validate_hosvd shape ranks dimorder = .error .reject :=
  rejects_of_guard (validate_hosvd_ok_iff shape ranks dimorder) h

theorem C19_accepts_hosvd (shape : List Nat) (ranks : Option (List Int)) (dimorder : Option (List Int))
    (h : Pre_hosvd shape ranks dimorder) : validate_hosvd shape ranks dimorder = .ok () :=
  (validate_hosvd_ok_iff shape ranks dimorder).2 h

/-- `gcp_opt`: a malformed objective, something that is not a solver, sparse data with L-BFGS-B
or with a mask, a mask with a stochastic solver or of another shape, a guess that does not fit
the data and the rank. -/
theorem C19_rejects_gcp_opt (a : GcpArgs) (h : ¬ Pre_gcp a) : validate_gcp a = .error .reject :=
  rejects_of_guard (validate_gcp_ok_iff a) h

theorem C19_accepts_gcp_opt (a : GcpArgs) (h : Pre_gcp a) : validate_gcp a = .ok () :=
  (validate_gcp_ok_iff a).2 h

/-! ### importer -/

/-- `import_data`: a header whose order differs from the shape line, too few values, entry lines
that are missing, of the wrong width or outside the shape, factor blocks that are missing or of
another size than the header announces, too few weights, an unknown type, a missing file. -/
theorem C19_rejects_import_data (a : ImportArgs) (h : ¬ Pre_import a) : validate_import a = .error .reject :=
  rejects_of_guard (validate_import_ok_iff a) h

theorem C19_accepts_import_data (a : ImportArgs) (h : Pre_import a) : validate_import a = .ok () :=
  (validate_import_ok_iff a).2 h

/-! ### the preconditions are satisfiable and refutable (non-vacuity) -/

example : Pre_ttv ⟨[2, 3, 4], [4, 2], some [2, 0], none⟩ ∧ ¬ Pre_ttv ⟨[2, 3, 4], [2, 4], some [2, 0], none⟩ ∧
    ¬ Pre_ttv ⟨[2, 3, 4], [2, 2], some [0, 0], none⟩ := by decide
example : Pre_ttm ⟨.dense, [2, 3, 4], [(5, 3)], some [1], none, false, true⟩ ∧
    ¬ Pre_ttm ⟨.dense, [2, 3, 4], [(3, 5)], some [1], none, false, true⟩ := by decide
example : Pre_mttkrp ⟨.sparse, [2, 3, 4], [(2, 2), (3, 2), (4, 2)], 1⟩ ∧
    ¬ Pre_mttkrp ⟨.sparse, [2, 3, 4], [(2, 2), (3, 2), (4, 3)], 1⟩ ∧
    ¬ Pre_mttkrp ⟨.dense, [1, 1], [(1, 2), (1, 2)], -1⟩ := by decide
example : Pre_permute [2, 3, 4] [2, 0, 1] ∧ ¬ Pre_permute [2, 3, 4] [-3, -2, -1] ∧ ¬ Pre_permute [2, 2] [1, 1] := by
  decide
example : Pre_toMat 3 (some [1]) none (some .bc) ∧ ¬ Pre_toMat 3 (some [3]) none (some .fc) := by decide
example : Pre_sptenmat ⟨2, [[5, 3]], 1, some [0, 1], some [2], [2, 3, 4]⟩ ∧
    ¬ Pre_sptenmat ⟨2, [[6, 0]], 1, some [0, 1], some [2], [2, 3, 4]⟩ := by decide
example : Pre_contract [2, 2, 3] 0 1 ∧ ¬ Pre_contract [2, 2, 3] 0 (-3) := by decide

/-! ### the remaining public operations -/

/-- `tensor.mttkrps(U)`: fewer than two modes, a factor list of the wrong length, a factor with
the wrong number of rows or a column count other than the first factor's. -/
theorem C19_rejects_mttkrps (shape : List Nat) (U : List MatS) (h : ¬ Pre_mttkrps shape U) :
    validate_mttkrps shape U = .error .reject := rejects_of_guard (validate_mttkrps_ok_iff shape U) h

theorem C19_accepts_mttkrps (shape : List Nat) (U : List MatS) (h : Pre_mttkrps shape U) :
    validate_mttkrps shape U = .ok () := (validate_mttkrps_ok_iff shape U).2 h

/-- `tensor.ttsv`: a `skip_dim` that is negative or `≥ N`, an unknown version, a vector whose
length is not the extent of a multiplied mode (version 1: the `ttv` request), or — for the
direct computation — modes of different sizes. -/
theorem C19_rejects_ttsv (a : TtsvArgs) (h : ¬ Pre_ttsv a) : validate_ttsv a = .error .reject :=
  rejects_of_guard (validate_ttsv_ok_iff a) h

theorem C19_accepts_ttsv (a : TtsvArgs) (h : Pre_ttsv a) : validate_ttsv a = .ok () :=
  (validate_ttsv_ok_iff a).2 h

/-- `tensor.symmetrize(grps, version)` (both versions): a group with a negative, out-of-range or
repeated mode, modes of different extent in a group, or a mode in two groups. -/
theorem C19_rejects_symmetrize (shape : List Nat) (grps : Option (List (List Int))) (old : Bool)
    (h : ¬ Pre_symmetrize shape grps) : validate_symmetrize shape grps old = .error .reject :=
  rejects_of_guard (validate_symmetrize_ok_iff shape grps old) h

theorem C19_accepts_symmetrize (shape : List Nat) (grps : Option (List (List Int))) (old : Bool)
    (h : Pre_symmetrize shape grps) : validate_symmetrize shape grps old = .ok () :=
  (validate_symmetrize_ok_iff shape grps old).2 h

/-- `tensor.issymmetric(grps, ...)`: a group with a negative, out-of-range or repeated mode. -/
theorem C19_rejects_issymmetric (shape : List Nat) (grps : Option (List (List Int)))
    (h : ¬ Pre_issymmetric shape grps) : validate_issymmetric shape grps = .error .reject :=
  rejects_of_guard (validate_issymmetric_ok_iff shape grps) h

theorem C19_accepts_issymmetric (shape : List Nat) (grps : Option (List (List Int)))
    (h : Pre_issymmetric shape grps) : validate_issymmetric shape grps = .ok () :=
  (validate_issymmetric_ok_iff shape grps).2 h

/-- `ktensor.symmetrize()`: modes of different sizes. -/
theorem C19_rejects_ksymmetrize (shape : List Nat) (h : ¬ Pre_ksymmetrize shape) :
    validate_ksymmetrize shape = .error .reject := rejects_of_guard (validate_ksymmetrize_ok_iff shape) h

theorem C19_accepts_ksymmetrize (shape : List Nat) (h : Pre_ksymmetrize shape) :
    validate_ksymmetrize shape = .ok () := (validate_ksymmetrize_ok_iff shape).2 h

/-- `ktensor.fixsigns(other)` and `ktensor.score(other)`: another shape, or more components. -/
theorem C19_rejects_kmatch (sa sb : List Nat) (ra rb : Nat) (h : ¬ Pre_kmatch sa sb ra rb) :
    validate_kmatch sa sb ra rb = .error .reject := rejects_of_guard (validate_kmatch_ok_iff sa sb ra rb) h

theorem C19_accepts_kmatch (sa sb : List Nat) (ra rb : Nat) (h : Pre_kmatch sa sb ra rb) :
    validate_kmatch sa sb ra rb = .ok () := (validate_kmatch_ok_iff sa sb ra rb).2 h

/-- a rejected `fixsigns(other)` leaves the receiver as it was. -/
theorem C19_receiver_unchanged_fixsigns {σ : Type} (sa sb : List Nat) (ra rb : Nat) (step : σ → σ) (s : σ)
    (h : ¬ Pre_kmatch sa sb ra rb) : inPlace (validate_kmatch sa sb ra rb) step s = (s, .error .reject) :=
  inPlace_reject _ step s (C19_rejects_kmatch sa sb ra rb h)

/-- `ktensor.update(modes, data)`: modes not strictly ascending (so repeated), below `-1` or `≥ N`,
or too little data. -/
theorem C19_rejects_update (a : UpdateArgs) (h : ¬ Pre_update a) : validate_update a = .error .reject :=
  rejects_of_guard (validate_update_ok_iff a) h

theorem C19_accepts_update (a : UpdateArgs) (h : Pre_update a) : validate_update a = .ok () :=
  (validate_update_ok_iff a).2 h

/-- a rejected `update` has not written any factor. -/
theorem C19_receiver_unchanged_update {σ : Type} (a : UpdateArgs) (step : σ → σ) (s : σ) (h : ¬ Pre_update a) :
    inPlace (validate_update a) step s = (s, .error .reject) :=
  inPlace_reject _ step s (C19_rejects_update a h)

/-- `ttensor.reconstruct(samples, modes)`: modes without samples; modes that are negative, out of
range or repeated; a different number of samples and modes; a row index `≥` the extent or a
sampling matrix with another number of columns. -/
theorem C19_rejects_reconstruct (shape : List Nat) (samples : Option (List SampleS)) (modes : Option (List Int))
    (h : ¬ Pre_reconstruct shape samples modes) : validate_reconstruct shape samples modes = .error .reject :=
  rejects_of_guard (validate_reconstruct_ok_iff shape samples modes) h

theorem C19_accepts_reconstruct (shape : List Nat) (samples : Option (List SampleS)) (modes : Option (List Int))
    (h : Pre_reconstruct shape samples modes) : validate_reconstruct shape samples modes = .ok () :=
  (validate_reconstruct_ok_iff shape samples modes).2 h

/-- `ktensor.from_function`: the handle returns an array of another size than requested. -/
theorem C19_rejects_kfrom_function (shape : List Nat) (R : Nat) (ret : List MatS) (h : ¬ Pre_kfromFunction shape R ret) :
    validate_kfromFunction shape R ret = .error .reject := rejects_of_guard (validate_kfromFunction_ok_iff shape R ret) h

theorem C19_accepts_kfrom_function (shape : List Nat) (R : Nat) (ret : List MatS) (h : Pre_kfromFunction shape R ret) :
    validate_kfromFunction shape R ret = .ok () := (validate_kfromFunction_ok_iff shape R ret).2 h

/-- `sptenmat[rows, cols] = values`: an index outside the matrix or a value count other than the
number of cells. -/
theorem C19_rejects_sptenmat_set (a : SpSetArgs) (h : ¬ Pre_sptenmatSet a) : validate_sptenmatSet a = .error .reject :=
  rejects_of_guard (validate_sptenmatSet_ok_iff a) h

theorem C19_accepts_sptenmat_set (a : SpSetArgs) (h : Pre_sptenmatSet a) : validate_sptenmatSet a = .ok () :=
  (validate_sptenmatSet_ok_iff a).2 h

/-- a rejected `sptenmat` assignment has stored nothing. -/
theorem C19_receiver_unchanged_sptenmat_set {σ : Type} (a : SpSetArgs) (step : σ → σ) (s : σ)
    (h : ¬ Pre_sptenmatSet a) : inPlace (validate_sptenmatSet a) step s = (s, .error .reject) :=
  inPlace_reject _ step s (C19_rejects_sptenmat_set a h)

/-- `tenmat[i, j]` (read and write): a position outside the matrix. -/
theorem C19_rejects_tenmat_index (mshape : MatS) (i j : Int) (h : ¬ Pre_tenmatIndex mshape i j) :
    validate_tenmatIndex mshape i j = .error .reject := rejects_of_guard (validate_tenmatIndex_ok_iff mshape i j) h

theorem C19_accepts_tenmat_index (mshape : MatS) (i j : Int) (h : Pre_tenmatIndex mshape i j) :
    validate_tenmatIndex mshape i j = .ok () := (validate_tenmatIndex_ok_iff mshape i j).2 h

/-- `nvecs(n, r)` (dense, sparse, Kruskal, Tucker): `n` negative or `≥ N`, `r ≤ 0` or `r` larger
than the extent of mode `n`. -/
theorem C19_rejects_nvecs (shape : List Nat) (n r : Int) (h : ¬ Pre_nvecs shape n r) :
    validate_nvecs shape n r = .error .reject := rejects_of_guard (validate_nvecs_ok_iff shape n r) h

theorem C19_accepts_nvecs (shape : List Nat) (n r : Int) (h : Pre_nvecs shape n r) :
    validate_nvecs shape n r = .ok () := (validate_nvecs_ok_iff shape n r).2 h

/-- `tenfun` with a function of the stacked operands: an operand of another shape. -/
theorem C19_rejects_tenfun_unary (shape : List Nat) (others : List (List Nat)) (h : ¬ Pre_tenfunUnary shape others) :
    validate_tenfunUnary shape others = .error .reject := rejects_of_guard (validate_tenfunUnary_ok_iff shape others) h

theorem C19_accepts_tenfun_unary (shape : List Nat) (others : List (List Nat)) (h : Pre_tenfunUnary shape others) :
    validate_tenfunUnary shape others = .ok () := (validate_tenfunUnary_ok_iff shape others).2 h

/-- `ktensor.viz`: an option list without one entry per mode; `sptensor.spmatrix`: not two modes. -/
theorem C19_rejects_viz_spmatrix (N : Nat) (lens shape : List Nat) :
    (¬ Pre_viz N lens → validate_viz N lens = .error .reject) ∧
    (¬ Pre_spmatrix shape → validate_spmatrix shape = .error .reject) :=
  ⟨rejects_of_guard (validate_viz_ok_iff N lens), rejects_of_guard (validate_spmatrix_ok_iff shape)⟩

theorem C19_accepts_viz_spmatrix (N : Nat) (lens shape : List Nat) :
    (Pre_viz N lens → validate_viz N lens = .ok ()) ∧ (Pre_spmatrix shape → validate_spmatrix shape = .ok ()) :=
  ⟨(validate_viz_ok_iff N lens).2, (validate_spmatrix_ok_iff shape).2⟩

/-- `sptensor.from_function`: a negative count, more than there are cells, or a handle that
returns another number of values than it was asked for. -/
theorem C19_rejects_sp_from_function (shape : List Nat) (nz : Int) (b : Bool) (h : ¬ Pre_spFromFunction shape nz b) :
    validate_spFromFunction shape nz b = .error .reject := rejects_of_guard (validate_spFromFunction_ok_iff shape nz b) h

theorem C19_accepts_sp_from_function (shape : List Nat) (nz : Int) (b : Bool) (h : Pre_spFromFunction shape nz b) :
    validate_spFromFunction shape nz b = .ok () := (validate_spFromFunction_ok_iff shape nz b).2 h

/-- `sptenmat.from_array`: a mode split that is not a permutation, or an array (without zero
entries) larger than the matricization. -/
theorem C19_rejects_from_array (ashape : MatS) (rdims cdims : Option (List Int)) (tshape : List Nat)
    (h : ¬ Pre_fromArray ashape rdims cdims tshape) : validate_fromArray ashape rdims cdims tshape = .error .reject :=
  rejects_of_guard (validate_fromArray_ok_iff ashape rdims cdims tshape) h

theorem C19_accepts_from_array (ashape : MatS) (rdims cdims : Option (List Int)) (tshape : List Nat)
    (h : Pre_fromArray ashape rdims cdims tshape) : validate_fromArray ashape rdims cdims tshape = .ok () :=
  (validate_fromArray_ok_iff ashape rdims cdims tshape).2 h

example : Pre_symmetrize [2, 2, 3] (some [[0, 1]]) ∧ ¬ Pre_symmetrize [2, 2, 3] (some [[0, 0]]) ∧
    ¬ Pre_symmetrize [2, 2, 2] (some [[0, 1], [1, 2]]) ∧ ¬ Pre_symmetrize [2, 2, 3] none := by decide
example : Pre_ttsv ⟨[3, 3, 3], 3, some 0, .default⟩ ∧ ¬ Pre_ttsv ⟨[4, 2, 8], 4, none, .default⟩ ∧
    ¬ Pre_ttsv ⟨[1, 1, 1], 1, some 3, .v2⟩ := by decide
example : Pre_update ⟨[2, 3, 4], 2, [-1, 0, 2], 14⟩ ∧ ¬ Pre_update ⟨[2, 3, 4], 2, [0, 0], 8⟩ ∧
    ¬ Pre_update ⟨[2, 3, 4], 2, [-2], 6⟩ := by decide
example : Pre_mttkrps [2, 3, 4] [(2, 2), (3, 2), (4, 2)] ∧ ¬ Pre_mttkrps [2, 3, 4] [(2, 2), (3, 2), (2, 2)] := by decide

/-! ### input classes added after the mutation study (one-token changes of the code that no check reported) -/

/-- `sptensor.from_aggregator(subs, vals, shape)` with the extents as the caller wrote them: an
extent that is zero or negative is rejected whether or not there are entries (also when the list
of subscripts is empty), and so is everything `Pre_subs` excludes — in particular a subscript
equal to its extent, whatever value (zero, or duplicates that cancel) is stored there: the model
never looks at a value. -/
theorem C19_rejects_from_aggregator_extents (a : SubsArgsI) (hw : ∀ row ∈ a.subs, row.length = a.width)
    (h : ¬ Pre_subsI a) : validate_fromAggregatorI a = .error .reject :=
  rejects_of_guard (validate_fromAggregatorI_ok_iff a hw) h

theorem C19_accepts_from_aggregator_extents (a : SubsArgsI) (hw : ∀ row ∈ a.subs, row.length = a.width)
    (h : Pre_subsI a) : validate_fromAggregatorI a = .ok () := (validate_fromAggregatorI_ok_iff a hw).2 h

/-- the plain `sptensor(subs, vals, shape)` constructor (after commit eaa8284): a zero or negative
extent is rejected with and without entries, like everything `Pre_subs` excludes. -/
theorem C19_rejects_sptensor_extents (a : SubsArgsI) (h : ¬ Pre_subsI a) :
    validate_sptensorI a = .error .reject :=
  rejects_of_guard (validate_sptensorI_ok_iff a) h

theorem C19_accepts_sptensor_extents (a : SubsArgsI) (h : Pre_subsI a) : validate_sptensorI a = .ok () :=
  (validate_sptensorI_ok_iff a).2 h

/-- before eaa8284 the constructor never tested the sign of an extent: with at least one entry its
range test rejected a non-positive extent all the same, without entries it answered
(`sptensor(empty, empty, (2, -3))` was a tensor with a negative extent; finding
`F19-sptensor-empty-nonpositive-extent`, fixed).  About an explicit copy of the old guard. -/
theorem C19_sptensor_extent_pinned_counterexample :
    Pinned.sptensorI ⟨[2, -3], 2, [], 0⟩ = .ok () ∧ ¬ Pre_subsI ⟨[2, -3], 2, [], 0⟩ ∧
    Pinned.sptensorI ⟨[2, 0], 2, [], 0⟩ = .ok () ∧ ¬ Pre_subsI ⟨[2, 0], 2, [], 0⟩ ∧
    validate_sptensorI ⟨[2, -3], 2, [], 0⟩ = .error .reject ∧ validate_sptensorI ⟨[2, 0], 2, [], 0⟩ = .error .reject ∧
    validate_fromAggregatorI ⟨[2, -3], 2, [], 0⟩ = .error .reject ∧
    (∀ a : SubsArgsI, a.subs ≠ [] → ¬ Pre_subsI a → Pinned.sptensorI a = .error .reject) :=
  ⟨(validate_sptensor_ok_iff _).2 (by decide), by decide, (validate_sptensor_ok_iff _).2 (by decide), by decide,
    C19_rejects_sptensor_extents _ (by decide), C19_rejects_sptensor_extents _ (by decide),
    C19_rejects_from_aggregator_extents _ (by simp) (by decide),
    fun a hne h => rejects_of_guard (pinned_sptensorI_ok_iff a hne) h⟩

example : Pre_subsI ⟨[2, 3], 2, [[1, 2], [0, 0]], 2⟩ ∧ ¬ Pre_subsI ⟨[2, 3], 2, [[2, 0], [0, 0]], 2⟩ ∧
    ¬ Pre_subsI ⟨[2, 0], 2, [], 0⟩ ∧ ¬ Pre_subsI ⟨[2, -3], 2, [], 0⟩ ∧ Pre_subsI ⟨[2, 3], 2, [], 0⟩ := by decide

/-- `tensor.ttsv(vector, skip_dim, version)` with the multiplicand given by shape and kind: an
array with more than one non-trivial dimension is rejected outright; otherwise the request is
rejected unless it is well formed for the length the multiplicand counts as — a nested list of
two dimensions, which is not squeezed, counts as a length no mode has. -/
theorem C19_rejects_ttsv_multiplicand (a : TtsvArgs) (vshape : List Nat) (isList : Bool)
    (h : ¬ Pre_ttsvM a vshape isList) : validate_ttsvM a vshape isList = .error .reject :=
  rejects_of_guard (validate_ttsvM_ok_iff a vshape isList) (fun hp => h hp.2)

/-- beyond the precondition the code refuses an ndarray that is not a vector even when no mode
is multiplied (`parse_one_d` comes first): that is the extra hypothesis. -/
theorem C19_accepts_ttsv_multiplicand (a : TtsvArgs) (vshape : List Nat) (isList : Bool)
    (hv : (vectorShape vshape isList).isSome = true) (h : Pre_ttsvM a vshape isList) :
    validate_ttsvM a vshape isList = .ok () := (validate_ttsvM_ok_iff a vshape isList).2 ⟨hv, h⟩

/-- what "a length no mode has" buys in the direct computation: a multiplicand that is not 1-d
after parsing (a nested list) is rejected as soon as one mode is multiplied. -/
theorem C19_ttsv_nonvector_rejected (a : TtsvArgs) (vshape : List Nat)
    (hv : vshape.length ≠ 1) (hver : a.version = .default ∨ a.version = .v2)
    (hused : (a.skip.getD (-1)) + 1 < (a.shape.length : Int)) :
    validate_ttsvM a vshape true = .error .reject := by
  apply C19_rejects_ttsv_multiplicand
  have hw : a.withMultiplicand vshape true = { a with veclen := a.shape.sum + 1 } := by
    unfold TtsvArgs.withMultiplicand vectorShape
    match vshape, hv with
    | [], _ => rfl
    | [_], hv => exact absurd rfl hv
    | _ :: _ :: _, _ => rfl
  unfold Pre_ttsvM
  rw [hw]
  rintro ⟨_, h2⟩
  have hd : TtsvArgs.directOK { a with veclen := a.shape.sum + 1 } := by
    rcases hver with hver | hver
    · have h3 : ({ a with veclen := a.shape.sum + 1 } : TtsvArgs).version = .default := hver
      rw [h3] at h2; exact h2
    · have h3 : ({ a with veclen := a.shape.sum + 1 } : TtsvArgs).version = .v2 := hver
      rw [h3] at h2; exact h2
  have := hd.2.2 hused
  have hle := getD_zero_le_sum a.shape
  simp only at this
  omega

example : Pre_ttsvM ⟨[2, 2, 2], 0, some 0, .default⟩ [2, 1] false ∧ ¬ Pre_ttsvM ⟨[2, 2, 2], 0, some 0, .default⟩ [2, 3] false ∧
    ¬ Pre_ttsvM ⟨[2, 2], 0, some 0, .default⟩ [2, 3] true ∧ ¬ Pre_ttsvM ⟨[2, 2], 0, some 0, .v1⟩ [2, 1] true ∧
    Pre_ttsvM ⟨[2, 2], 0, some 0, .v2⟩ [2] true ∧ Pre_ttsvM ⟨[2, 2], 0, some 1, .v2⟩ [2, 3] true := by decide

/-- `ttensor(core, factors)` with exactly one of the two components is rejected (neither is the
empty Tucker tensor). -/
theorem C19_rejects_ttensor_components (core factors : Bool) (h : ¬ Pre_ttensorGiven core factors) :
    validate_ttensorGiven core factors = .error .reject :=
  rejects_of_guard (validate_ttensorGiven_ok_iff core factors) h

theorem C19_accepts_ttensor_components (core factors : Bool) (h : Pre_ttensorGiven core factors) :
    validate_ttensorGiven core factors = .ok () := (validate_ttensorGiven_ok_iff core factors).2 h

/-- `ktensor(factors, weights)`: factor matrices or weights that are not arrays of floats are
rejected, like the size violations of `C19_rejects_ktensor`. -/
theorem C19_rejects_ktensor_typed (fs : List MatS) (nw : Option Nat) (ff wf : Bool)
    (h : ¬ Pre_ktensorTyped fs nw ff wf) : validate_ktensorTyped fs nw ff wf = .error .reject :=
  rejects_of_guard (validate_ktensorTyped_ok_iff fs nw ff wf) h

theorem C19_accepts_ktensor_typed (fs : List MatS) (nw : Option Nat) (ff wf : Bool)
    (h : Pre_ktensorTyped fs nw ff wf) : validate_ktensorTyped fs nw ff wf = .ok () :=
  (validate_ktensorTyped_ok_iff fs nw ff wf).2 h

example : Pre_ktensorTyped [(2, 2), (3, 2)] (some 2) true true ∧ ¬ Pre_ktensorTyped [(2, 2), (3, 2)] none false true ∧
    ¬ Pre_ktensorTyped [(2, 2), (3, 2)] (some 2) true false ∧ Pre_ttensorGiven false false ∧ ¬ Pre_ttensorGiven true false := by
  decide

/-- `sptensor.subdims(region)`: a region with another number of entries than the tensor has modes. -/
theorem C19_rejects_subdims (N len : Nat) (h : ¬ Pre_subdims N len) : validate_subdims N len = .error .reject :=
  rejects_of_guard (validate_subdims_ok_iff N len) h

theorem C19_accepts_subdims (N len : Nat) (h : Pre_subdims N len) : validate_subdims N len = .ok () :=
  (validate_subdims_ok_iff N len).2 h

/-- `S[region] = sptensor`: an index list of the region that is longer or shorter than the extent
of the right-hand side in the mode it is paired with (or that is paired with no mode at all) is
rejected by the size-match loop.  Slices are not compared (they grow the receiver or fail
depending on the stored values: property C04). -/
theorem C19_rejects_sp_assign (key : List KeyEntry) (rhs : List Nat) (h : ¬ Pre_spAssign key rhs) :
    validate_spAssign key rhs = .error .reject :=
  rejects_of_guard (validate_spAssign_ok_iff key rhs) h

/-- the size-match loop rejects nothing else (what follows it may: C04). -/
theorem C19_accepts_sp_assign (key : List KeyEntry) (rhs : List Nat) (h : Pre_spAssign key rhs) :
    validate_spAssign key rhs = .ok () := (validate_spAssign_ok_iff key rhs).2 h

/-- the loop runs before the first write: a rejected assignment leaves the receiver as it was. -/
theorem C19_receiver_unchanged_sp_assign {σ : Type} (key : List KeyEntry) (rhs : List Nat) (step : σ → σ) (s : σ)
    (h : ¬ Pre_spAssign key rhs) : inPlace (validate_spAssign key rhs) step s = (s, .error .reject) :=
  inPlace_reject _ step s (C19_rejects_sp_assign key rhs h)

example : Pre_spAssign [.list 3, .slice true] [3, 2] ∧ ¬ Pre_spAssign [.list 3, .slice true] [2, 2] ∧
    Pre_spAssign [.int, .list 2] [2] ∧ ¬ Pre_spAssign [.int, .list 2] [3] ∧ ¬ Pre_spAssign [.slice true, .list 2] [4] ∧
    Pre_subdims 3 3 ∧ ¬ Pre_subdims 3 4 := by decide

/-! ### the pinned commit answered some ill-formed requests (explicit copies of the old guards) -/

/-- pinned `tt_dimscheck` let repeated and too large modes through. -/
theorem C19_dimscheck_pinned_counterexample :
    Pinned.dimsAccepted [0, 0] = true ∧ ¬ Pre_dimscheck 3 none (some [0, 0]) none ∧
    Pinned.dimsAccepted [3] = true ∧ ¬ Pre_dimscheck 3 none (some [3]) none ∧
    validate_dimscheck 3 none (some [0, 0]) none = .error .reject := by
  refine ⟨by decide, by decide, by decide, by decide, C19_rejects_dimscheck _ _ _ _ (by decide)⟩

/-- pinned `sptenmat` accepted a row index equal to the number of rows. -/
theorem C19_sptenmat_pinned_counterexample :
    Pinned.rowIndexAccepted 6 6 = true ∧
    ¬ Pre_sptenmat ⟨2, [[6, 0]], 1, some [0, 1], some [2], [2, 3, 4]⟩ ∧
    validate_sptenmat ⟨2, [[6, 0]], 1, some [0, 1], some [2], [2, 3, 4]⟩ = .error .reject := by
  refine ⟨by decide, by decide, C19_rejects_sptenmat _ (by decide)⟩

/-- pinned dense `permute` accepted axes counted from the end. -/
theorem C19_permute_pinned_counterexample :
    Pinned.permuteAccepted 3 [-3, -2, -1] = true ∧ ¬ Pre_permute [2, 3, 4] [-3, -2, -1] ∧
    validate_permute [2, 3, 4] [-3, -2, -1] = .error .reject := by
  refine ⟨by decide, by decide, C19_rejects_permute _ _ (by decide)⟩

/-! ### argument forms (second mutation study) -/

/-- `ktensor.ttv` with multiplicands of any order: a multiplicand that is used and is not, after dropping its
singleton axes, a vector with the extent of its mode is rejected - in particular a matrix with the right number of
rows (which would broadcast against the weights). -/
theorem C19_rejects_ttv_multiplicand (a : TtvMArgs) (h : ¬ Pre_ttvM a) : validate_ttvM a = .error .reject :=
  rejects_of_guard (validate_ttvM_ok_iff a) h

theorem C19_accepts_ttv_multiplicand (a : TtvMArgs) (h : Pre_ttvM a) : validate_ttvM a = .ok () :=
  (validate_ttvM_ok_iff a).2 h

example : Pre_ttvM ⟨[2, 3, 4], [[2], [3, 1], [1, 4]], none, none⟩ ∧ ¬ Pre_ttvM ⟨[2, 3, 4], [[2], [3], [4, 2]], none, none⟩ ∧
    ¬ Pre_ttvM ⟨[2, 3, 4], [[4, 2]], some [2], none⟩ ∧ Pre_ttvM ⟨[2, 3, 4], [[4, 2], [3], [4, 4]], some [1], none⟩ := by decide

/-- `khatrirao` of arrays of any order: an argument that is not 2-dimensional is rejected whatever its extents
(before the column counts are looked at), in either order of multiplication. -/
theorem C19_rejects_khatrirao_order (shapes : List (List Nat)) (rev : Bool) (h : ¬ Pre_khatriraoND shapes) :
    validate_khatriraoND shapes rev = .error .reject :=
  rejects_of_guard (validate_khatriraoND_ok_iff shapes rev) h

theorem C19_accepts_khatrirao_order (shapes : List (List Nat)) (rev : Bool) (h : Pre_khatriraoND shapes) :
    validate_khatriraoND shapes rev = .ok () := (validate_khatriraoND_ok_iff shapes rev).2 h

example : Pre_khatriraoND [[2, 3], [5, 3]] ∧ ¬ Pre_khatriraoND [[2, 3, 4], [5, 3]] ∧ ¬ Pre_khatriraoND [[5, 3], [3]] := by decide

/-- `sptensor(subs, vals, …)` given exactly one of subscripts and values is rejected (neither: the empty tensor). -/
theorem C19_rejects_sptensor_given (subs vals : Bool) (h : ¬ Pre_sptensorGiven subs vals) :
    validate_sptensorGiven subs vals = .error .reject :=
  rejects_of_guard (validate_sptensorGiven_ok_iff subs vals) h

theorem C19_accepts_sptensor_given (subs vals : Bool) (h : Pre_sptensorGiven subs vals) :
    validate_sptensorGiven subs vals = .ok () := (validate_sptensorGiven_ok_iff subs vals).2 h

/-- `sptenmat` given subscripts or values without the other, or either without a mode split, is rejected. -/
theorem C19_rejects_sptenmat_given (subs vals dims : Bool) (h : ¬ Pre_sptenmatGiven subs vals dims) :
    validate_sptenmatGiven subs vals dims = .error .reject :=
  rejects_of_guard (validate_sptenmatGiven_ok_iff subs vals dims) h

theorem C19_accepts_sptenmat_given (subs vals dims : Bool) (h : Pre_sptenmatGiven subs vals dims) :
    validate_sptenmatGiven subs vals dims = .ok () := (validate_sptenmatGiven_ok_iff subs vals dims).2 h

example : Pre_sptenmatGiven true true true ∧ Pre_sptenmatGiven false false false ∧ ¬ Pre_sptenmatGiven true false false ∧
    ¬ Pre_sptenmatGiven true true false ∧ ¬ Pre_sptenmatGiven false true true := by decide

/-- data handed to `ktensor.from_vector` that is not a vector (an array of order 3 or more whatever its extents, a
matrix with several rows and columns, a 0-d array) is rejected. -/
theorem C19_rejects_nonvector (s : List Nat) (h : ¬ Pre_isVector s) : validate_isVector s = .error .reject :=
  rejects_of_guard (validate_isVector_ok_iff s) h

theorem C19_accepts_vector (s : List Nat) (h : Pre_isVector s) : validate_isVector s = .ok () :=
  (validate_isVector_ok_iff s).2 h

example : Pre_isVector [18] ∧ Pre_isVector [18, 1] ∧ Pre_isVector [1, 18] ∧ ¬ Pre_isVector [18, 1, 1] ∧
    ¬ Pre_isVector [1, 1, 18] ∧ ¬ Pre_isVector [9, 2] ∧ ¬ Pre_isVector [] := by decide

/-- an array with two or more axes longer than 1 (also an empty one, `(0, k)`) handed over as a shape is rejected. -/
theorem C19_rejects_shape_array (s : List Nat) (h : ¬ Pre_shapeArray s) : validate_shapeArray s = .error .reject :=
  rejects_of_guard (validate_shapeArray_ok_iff s) h

theorem C19_accepts_shape_array (s : List Nat) (h : Pre_shapeArray s) : validate_shapeArray s = .ok () :=
  (validate_shapeArray_ok_iff s).2 h

example : Pre_shapeArray [3] ∧ Pre_shapeArray [3, 1, 1] ∧ Pre_shapeArray [1, 1] ∧ ¬ Pre_shapeArray [0, 2] ∧
    ¬ Pre_shapeArray [2, 2] ∧ ¬ Pre_shapeArray [1, 2, 3] := by decide


/-- `tenfun` with a function of two arguments and none or several other operands (the surplus would be ignored), or
a function of no / three arguments: rejected. -/
theorem C19_rejects_tenfun_arity (nargs others : Nat) (h : ¬ Pre_tenfunArity nargs others) :
    validate_tenfunArity nargs others = .error .reject :=
  rejects_of_guard (validate_tenfunArity_ok_iff nargs others) h

theorem C19_accepts_tenfun_arity (nargs others : Nat) (h : Pre_tenfunArity nargs others) :
    validate_tenfunArity nargs others = .ok () := (validate_tenfunArity_ok_iff nargs others).2 h

example : Pre_tenfunArity 2 1 ∧ Pre_tenfunArity 1 3 ∧ ¬ Pre_tenfunArity 2 2 ∧ ¬ Pre_tenfunArity 2 0 ∧ ¬ Pre_tenfunArity 3 1 := by
  decide

/-- `S[subs] = value` with fewer subscript columns than modes is rejected … -/
theorem C19_rejects_set_subs_width (N width : Nat) (h : ¬ Pre_setSubsWidth N width) :
    validate_setSubsWidth N width = .error .reject :=
  rejects_of_guard (validate_setSubsWidth_ok_iff N width) h

theorem C19_accepts_set_subs_width (N width : Nat) (h : Pre_setSubsWidth N width) :
    validate_setSubsWidth N width = .ok () := (validate_setSubsWidth_ok_iff N width).2 h

/-- … and the receiver is as it was: the width test precedes the first write. -/
theorem C19_receiver_unchanged_set_subs_width {σ : Type} (N width : Nat) (step : σ → σ) (s : σ)
    (h : ¬ Pre_setSubsWidth N width) : inPlace (validate_setSubsWidth N width) step s = (s, .error .reject) :=
  inPlace_reject _ step s (C19_rejects_set_subs_width N width h)

example : Pre_setSubsWidth 2 2 ∧ Pre_setSubsWidth 2 3 ∧ ¬ Pre_setSubsWidth 2 1 ∧ ¬ Pre_setSubsWidth 3 0 := by decide


end Pyttb
