/-
C06 — sparse results are well-formed and independent of the stored order of nonzeros.

`Sparse.WF` says: one value per stored subscript row, every row inside the shape, rows pairwise
distinct, no stored zero.  `Reorder S' S` says that `S'` stores the same (subscript, value)
pairs as `S` in another order.  The theorems are about the operation models that are tied to
the implementation by the correspondence runs of C01 / C03 / C07 / C20 (element-wise
operations: Ops/SparseElem; permute / reshape / squeeze / matricization / conversion:
Ops/Sparse, Ops/Dense; the aggregating constructor: Ops/Generators; the multilinear kernels:
Ops/MultilinearSparse; indexing: Ops/IndexSparse; the operations of the sparse matricized tensor
and `sptensor.copy`: Ops/SptenmatOps).
Only property theorems and examples; proofs are in Lemmas/SparseOrderIndep.lean, the
Lemmas/SparseElem*.lean files, Lemmas/SparseOrderML / SparseOrderIndex / SparseSquash,
Lemmas/SptenmatOps.lean, Lemmas/SptenmatSorted.lean, Lemmas/SptenmatPinned.lean (explicit copies of
repaired behaviour, for the `_pinned_counterexample` theorems) and Lemmas/SparseReadWF.lean.
-/
import PyttbModel.Lemmas.SparseOrderIndep
import PyttbModel.Lemmas.SparseOrderML
import PyttbModel.Lemmas.SparseSquash
import PyttbModel.Lemmas.SparseOrderIndex
import PyttbModel.Lemmas.SptenmatOps
import PyttbModel.Lemmas.SptenmatSorted
import PyttbModel.Lemmas.SptenmatPinned
import PyttbModel.Lemmas.SparseReadWF
namespace Pyttb
open SpElem

variable {α : Type}

/-! ### stored order does not matter -/

/-- Permuting the stored entries changes neither the denoted array … -/
theorem C06_denote_perm [AddCommMonoid α] {S' S : Sparse α} (h : Reorder S' S) (i : List Nat) :
    S'.get i = S.get i := denote_perm h i

/-- … nor well-formedness. -/
theorem C06_wf_perm [Zero α] [BEq α] {S' S : Sparse α} (h : Reorder S' S) (hS : S.WF) : S'.WF :=
  wf_perm h hS

/-- The reported number of nonzeros is the number of stored rows, of stored values, and of
non-zero cells of the denoted array. -/
theorem C06_nnz_reports [AddMonoid α] [DecidableEq α] (S : Sparse α) (hS : S.WF) :
    S.nnz = S.subs.length ∧ S.nnz = S.vals.length ∧
    S.nnz = ((allSubs S.shape).filter (fun i => !(S.get i == 0))).length := nnz_reports S hS

/-! ### the two constructors -/

/-- The plain constructor stores exactly what it is given when there is one value per row and
every row lies inside the shape; it does not look for repeated subscripts or zero values, so
the result is well-formed only if the input is. -/
theorem C06_ctor_keeps (subs : List (List Nat)) (vals : List α) (s : List Nat)
    (hl : vals.length = subs.length) (hin : ∀ r ∈ subs, InBounds s r) :
    mk? subs vals s = .ok ⟨s, subs, vals⟩ := ctor_keeps subs vals s hl hin

/-- It refuses a value count different from the row count and rows outside the shape. -/
theorem C06_ctor_rejects (subs : List (List Nat)) (vals : List α) (s : List Nat)
    (h : vals.length ≠ subs.length ∨ ∃ r ∈ subs, ¬ InBounds s r) :
    mk? subs vals s = .error .reject := ctor_rejects subs vals s h

/-- `from_aggregator` (default reducer `sum`) returns a well-formed tensor: repeated subscripts
are merged into the sum of their values, sums equal to zero are dropped. -/
theorem C06_aggregator_wf [AddMonoid α] [DecidableEq α] (subs : List (List Nat)) (vals : List α) (s : List Nat)
    (hne : subs ≠ []) (hs : s ≠ []) (hin : ∀ i ∈ subs, InBounds s i) (hl : vals.length = subs.length) :
    ∃ S, fromAgg List.sum subs vals s = .ok S ∧ S.shape = s ∧ S.WF ∧
      (∀ i, S.get i = (⟨s, subs, vals⟩ : Sparse α).get i) ∧
      (∀ i, i ∈ S.subs ↔ i ∈ subs ∧ (⟨s, subs, vals⟩ : Sparse α).get i ≠ 0) := by
  obtain ⟨S, h1, h2, h3, h4⟩ := fromAggregator_sum subs vals s hne hs hin hl
  refine ⟨S, h1, h2, h3, h4, fun i => ?_⟩
  rw [← S.get_ne_zero_iff h3 i, h4 i]
  constructor
  · intro h
    refine ⟨?_, h⟩
    by_contra hn
    exact h (Sparse.get_of_not_mem _ i hn)
  · exact fun h => h.2

/-- For a reducer that does not depend on the order of the values it is given, listing the
same (subscript, value) pairs in another order gives a tensor with the same entries. -/
theorem C06_perm_aggregator [AddMonoid α] [DecidableEq α]
    (subs subs' : List (List Nat)) (vals vals' : List α) (s : List Nat) (r : List α → α)
    (hr : ∀ l₁ l₂ : List α, l₁.Perm l₂ → r l₁ = r l₂)
    (hne : subs ≠ []) (hs : s ≠ []) (hin : ∀ i ∈ subs, InBounds s i) (hl : vals.length = subs.length)
    (hl' : vals'.length = subs'.length) (hp : (subs'.zip vals').Perm (subs.zip vals)) :
    ∃ S S', fromAgg r subs vals s = .ok S ∧ fromAgg r subs' vals' s = .ok S' ∧
      S'.WF ∧ ∀ i, S'.get i = S.get i :=
  fromAggregator_perm subs subs' vals vals' s r hr hne hs hin hl hl' hp

/-! ### no explicit zero is left behind -/

/-- A well-formed tensor stores no zero; in particular the combining and filtering operations
below (all proved to return well-formed tensors) leave none: `S * 0` is empty and `S - S`
is empty. -/
theorem C06_no_explicit_zero [Ring α] [DecidableEq α] (A : Sparse α) (hA : A.WF) (hN : A.shape ≠ []) :
    (∀ v ∈ A.vals, v ≠ 0) ∧
    (∃ R, mul A (.scalar 0) = .ok R ∧ R.subs = [] ∧ R.vals = []) ∧
    (∃ R, sub A (.sparse A) = .ok (.sp R) ∧ R.subs = [] ∧ R.vals = []) := by
  refine ⟨fun v hv => by simpa using hA.nz v hv, ?_, ?_⟩
  · obtain ⟨R, e, w, _, g⟩ := mul_scalar_spec A hA 0
    refine ⟨R, e, ?_⟩
    have hs : R.subs = [] := by
      rw [List.eq_nil_iff_forall_not_mem]
      intro i hi
      exact (R.get_ne_zero_iff w i).2 hi (by rw [g i]; simp)
    exact ⟨hs, List.length_eq_zero_iff.1 (by rw [← w.len, hs]; rfl)⟩
  · obtain ⟨R, e, w, _, g⟩ := sub_sparse_spec A A hA hA rfl hN
    refine ⟨R, e, ?_⟩
    have hs : R.subs = [] := by
      rw [List.eq_nil_iff_forall_not_mem]
      intro i hi
      exact (R.get_ne_zero_iff w i).2 hi (by rw [g i]; simp)
    exact ⟨hs, List.length_eq_zero_iff.1 (by rw [← w.len, hs]; rfl)⟩

/-! ### well-formed operands give well-formed results -/

/-- `-S`, `S.ones()`, `S.logical_not()`, `S.elemfun(f)`. -/
theorem C06_wf_unary [Ring α] [DecidableEq α] (A : Sparse α) (hA : A.WF) (f : α → α) (h1 : (1 : α) ≠ 0) :
    (neg A).WF ∧ (ones A).WF ∧ (logicalNot A).WF ∧ (elemfun f A).WF := by
  exact ⟨(neg_spec A hA).1, (ones_spec A hA h1).1, (logicalNot_spec A hA h1).1, (elemfun_spec A hA f).1⟩

/-- `S + S2`, `S - S2`. -/
theorem C06_wf_add_sub [Ring α] [DecidableEq α] (A : Sparse α) (hA : A.WF) (B : Sparse α) (hB : B.WF) (hs : A.shape = B.shape) (hN : A.shape ≠ []) :
    (∃ R, add A (.sparse B) = .ok (.sp R) ∧ R.WF) ∧ (∃ R, sub A (.sparse B) = .ok (.sp R) ∧ R.WF) := by
  obtain ⟨R, e, w, _⟩ := add_sparse_spec A B hA hB hs hN
  obtain ⟨R', e', w', _⟩ := sub_sparse_spec A B hA hB hs hN
  exact ⟨⟨R, e, w⟩, ⟨R', e', w'⟩⟩

/-- `S * c`, `S * S2`, `S * D`. -/
theorem C06_wf_mul [Semiring α] [DecidableEq α] [NoZeroDivisors α] (A : Sparse α) (hA : A.WF) (c : α) (B : Sparse α) (hB : B.WF) (hs : A.shape = B.shape) (D : Dense α) (hd : A.shape = D.shape) :
    (∃ R, mul A (.scalar c) = .ok R ∧ R.WF) ∧ (∃ R, mul A (.sparse B) = .ok R ∧ R.WF) ∧
    (∃ R, mul A (.dense D) = .ok R ∧ R.WF) := by
  obtain ⟨R1, e1, w1, _⟩ := mul_scalar_spec A hA c
  obtain ⟨R2, e2, w2, _⟩ := mul_sparse_spec A B hA hB hs
  obtain ⟨R3, e3, w3, _⟩ := mul_dense_spec A hA D hd
  exact ⟨⟨R1, e1, w1⟩, ⟨R2, e2, w2⟩, ⟨R3, e3, w3⟩⟩

/-- `S / S2` at the extended rationals (finite stored values): the stored `nan` and `±inf` are not zeros. -/
theorem C06_wf_div (A B : Sparse XRat) (hA : A.WF) (hB : B.WF) (hs : A.shape = B.shape)
    (hfa : ∀ x ∈ A.vals, ∃ q : Rat, x = .fin q) (hfb : ∀ y ∈ B.vals, ∃ q : Rat, y = .fin q) :
    ∃ R, div .nan A (.sparse B) = .ok R ∧ R.WF := by
  obtain ⟨R, e, w, _⟩ := div_sparse_xrat A B hA hB hs hfa hfb
  exact ⟨R, e, w⟩

/-- `logical_and` (scalar, sparse, dense operand), `logical_or`, `logical_xor` (sparse operand). -/
theorem C06_wf_logic [AddMonoid α] [One α] [DecidableEq α] (A : Sparse α) (hA : A.WF) (c : α) (B : Sparse α) (hB : B.WF) (hs : A.shape = B.shape) (D : Dense α) (hD : D.WF) (hd : A.shape = D.shape) (hN : A.shape ≠ []) (hpos : ∀ e ∈ A.shape, 0 < e) (h1 : (1 : α) ≠ 0) :
    (∃ R, logicalAnd A (.scalar c) = .ok R ∧ R.WF) ∧ (∃ R, logicalAnd A (.sparse B) = .ok R ∧ R.WF) ∧
    (∃ R, logicalAnd A (.dense D) = .ok R ∧ R.WF) ∧ (∃ R, logicalOr A (.sparse B) = .ok (.sp R) ∧ R.WF) ∧
    (∃ R, logicalXor A (.sparse B) = .ok (.sp R) ∧ R.WF) := by
  obtain ⟨R1, e1, w1, _⟩ := and_scalar_spec A hA c h1
  obtain ⟨R2, e2, w2, _⟩ := and_sparse_spec A B hA hB hs hN hpos h1
  obtain ⟨R3, e3, w3, _⟩ := and_dense_spec A hA D hD hd hN hpos h1
  obtain ⟨R4, e4, w4, _⟩ := or_sparse_spec A B hA hB hs hN hpos h1
  obtain ⟨R5, e5, w5, _⟩ := xor_sparse_spec A B hA hB hs hN hpos h1
  exact ⟨⟨R1, e1, w1⟩, ⟨R2, e2, w2⟩, ⟨R3, e3, w3⟩, ⟨R4, e4, w4⟩, ⟨R5, e5, w5⟩⟩

/-- `==` and `!=` with a scalar, a sparse and a dense operand. -/
theorem C06_wf_eq_ne [AddMonoid α] [One α] [DecidableEq α] (A : Sparse α) (hA : A.WF) (c : α) (B : Sparse α) (hB : B.WF) (hs : A.shape = B.shape) (D : Dense α) (hD : D.WF) (hd : A.shape = D.shape) (h1 : (1 : α) ≠ 0) :
    (∃ R, SpElem.eq A (.scalar c) = .ok R ∧ R.WF) ∧ (∃ R, SpElem.eq A (.sparse B) = .ok R ∧ R.WF) ∧
    (∃ R, SpElem.eq A (.dense D) = .ok R ∧ R.WF) ∧ (∃ R, SpElem.ne A (.scalar c) = .ok R ∧ R.WF) ∧
    (∃ R, SpElem.ne A (.sparse B) = .ok R ∧ R.WF) ∧ (∃ R, SpElem.ne A (.dense D) = .ok R ∧ R.WF) := by
  obtain ⟨R1, e1, w1, _⟩ := eq_scalar_spec A hA c h1
  obtain ⟨R2, e2, w2, _⟩ := eq_sparse_spec A B hA hB hs h1
  obtain ⟨R3, e3, w3, _⟩ := eq_dense_spec A hA D hD hd h1
  obtain ⟨R4, e4, w4, _⟩ := ne_scalar_spec A hA c h1
  obtain ⟨R5, e5, w5, _⟩ := ne_sparse_spec A B hA hB hs h1
  obtain ⟨R6, e6, w6, _⟩ := ne_dense_spec A hA D hd h1
  exact ⟨⟨R1, e1, w1⟩, ⟨R2, e2, w2⟩, ⟨R3, e3, w3⟩, ⟨R4, e4, w4⟩, ⟨R5, e5, w5⟩, ⟨R6, e6, w6⟩⟩

/-- `lt` with a scalar, a sparse and a dense operand. -/
theorem C06_wf_lt [AddMonoid α] [One α] [LinearOrder α] (A : Sparse α) (hA : A.WF) (c : α) (B : Sparse α) (hB : B.WF) (hs : A.shape = B.shape) (D : Dense α) (hD : D.WF) (hd : A.shape = D.shape) (h1 : (1 : α) ≠ 0) :
    (∃ R, SpElem.lt A (.scalar c) = .ok R ∧ R.WF) ∧ (∃ R, SpElem.lt A (.sparse B) = .ok R ∧ R.WF) ∧
    (∃ R, SpElem.lt A (.dense D) = .ok R ∧ R.WF) := by
  obtain ⟨R1, e1, w1, _⟩ := lt_scalar_spec A hA c h1
  obtain ⟨R2, e2, w2, _⟩ := lt_sparse_spec A B hA hB hs h1
  obtain ⟨R3, e3, w3, _⟩ := lt_dense_spec A hA D hD hd h1
  exact ⟨⟨R1, e1, w1⟩, ⟨R2, e2, w2⟩, ⟨R3, e3, w3⟩⟩

/-- `le` with a scalar, a sparse and a dense operand. -/
theorem C06_wf_le [AddMonoid α] [One α] [LinearOrder α] (A : Sparse α) (hA : A.WF) (c : α) (B : Sparse α) (hB : B.WF) (hs : A.shape = B.shape) (D : Dense α) (hD : D.WF) (hd : A.shape = D.shape) (h1 : (1 : α) ≠ 0) :
    (∃ R, SpElem.le A (.scalar c) = .ok R ∧ R.WF) ∧ (∃ R, SpElem.le A (.sparse B) = .ok R ∧ R.WF) ∧
    (∃ R, SpElem.le A (.dense D) = .ok R ∧ R.WF) := by
  obtain ⟨R1, e1, w1, _⟩ := le_scalar_spec A hA c h1
  obtain ⟨R2, e2, w2, _⟩ := le_sparse_spec A B hA hB hs h1
  obtain ⟨R3, e3, w3, _⟩ := le_dense_spec A hA D hD hd h1
  exact ⟨⟨R1, e1, w1⟩, ⟨R2, e2, w2⟩, ⟨R3, e3, w3⟩⟩

/-- `gt` with a scalar, a sparse and a dense operand. -/
theorem C06_wf_gt [AddMonoid α] [One α] [LinearOrder α] (A : Sparse α) (hA : A.WF) (c : α) (B : Sparse α) (hB : B.WF) (hs : A.shape = B.shape) (D : Dense α) (hD : D.WF) (hd : A.shape = D.shape) (h1 : (1 : α) ≠ 0) :
    (∃ R, SpElem.gt A (.scalar c) = .ok R ∧ R.WF) ∧ (∃ R, SpElem.gt A (.sparse B) = .ok R ∧ R.WF) ∧
    (∃ R, SpElem.gt A (.dense D) = .ok R ∧ R.WF) := by
  obtain ⟨R1, e1, w1, _⟩ := gt_scalar_spec A hA c h1
  obtain ⟨R2, e2, w2, _⟩ := gt_sparse_spec A B hA hB hs h1
  obtain ⟨R3, e3, w3, _⟩ := gt_dense_spec A hA D hD hd h1
  exact ⟨⟨R1, e1, w1⟩, ⟨R2, e2, w2⟩, ⟨R3, e3, w3⟩⟩

/-- `ge` with a scalar, a sparse and a dense operand. -/
theorem C06_wf_ge [AddMonoid α] [One α] [LinearOrder α] (A : Sparse α) (hA : A.WF) (c : α) (B : Sparse α) (hB : B.WF) (hs : A.shape = B.shape) (D : Dense α) (hD : D.WF) (hd : A.shape = D.shape) (h1 : (1 : α) ≠ 0) :
    (∃ R, SpElem.ge A (.scalar c) = .ok R ∧ R.WF) ∧ (∃ R, SpElem.ge A (.sparse B) = .ok R ∧ R.WF) ∧
    (∃ R, SpElem.ge A (.dense D) = .ok R ∧ R.WF) := by
  obtain ⟨R1, e1, w1, _⟩ := ge_scalar_spec A hA c h1
  obtain ⟨R2, e2, w2, _⟩ := ge_sparse_spec A B hA hB hs h1
  obtain ⟨R3, e3, w3, _⟩ := ge_dense_spec A hA D hD hd h1
  exact ⟨⟨R1, e1, w1⟩, ⟨R2, e2, w2⟩, ⟨R3, e3, w3⟩⟩

/-- `permute`, `reshape`, `squeeze` (when it returns a tensor). -/
theorem C06_wf_shape_ops [Add α] [Zero α] [BEq α] (S : Sparse α) (hS : S.WF) (p s' : List Nat)
    (hp : isPermOf p S.shape.length = true) (hn : numel s' = numel S.shape) :
    (∃ P, S.permute p = .ok P ∧ P.WF) ∧ (∃ P, S.reshape s' none = .ok P ∧ P.WF) ∧
    (match S.squeeze with | .ok (.obj P) => P.WF | _ => True) :=
  ⟨permute_wf_sparse S p hS hp, reshape_wf_sparse S s' hS hn, squeeze_wf_sparse S hS⟩

/-- `tensor.to_sptensor()`, `sptensor.to_sptenmat()` (as a sparse matrix) and
`sptenmat.to_sptensor()` of its result. -/
theorem C06_wf_conversions [AddCommMonoid α] [DecidableEq α] (T : Dense α) (hT : T.WF)
    (S : Sparse α) (hS : S.WF) (r c : List Nat) (hp : isPermOf (r ++ c) S.shape.length = true)
    (hpos : ∀ e ∈ S.shape, 0 < e) :
    T.toSparse.WF ∧
    (∃ M, S.toSptenmat (some r) (some c) none = .ok M ∧
      Sparse.WF (⟨M.mshape, M.subs, M.vals⟩ : Sparse α) ∧ M.toSparse.WF) := by
  refine ⟨(toSparse_wf T hT).1, ?_⟩
  obtain ⟨M', e', _, _, w'⟩ := sptenmat_roundtrip S r c hS hp _ (inBounds_zeros hpos)
  have e := toSptenmat_ok S r c hS hp
  rw [e] at e'
  cases e'
  exact ⟨_, e, sptenmatOf_wf S r c hS hp, w'⟩

/-! ### reordered operands give the same result -/

/-- `S + S2` does not depend on the stored orders. -/
theorem C06_perm_add [Ring α] [DecidableEq α] (A A' B B' : Sparse α) (hA : A.WF) (hB : B.WF)
    (hs : A.shape = B.shape) (hN : A.shape ≠ []) (rA : Reorder A' A) (rB : Reorder B' B) :
    ∃ R R', add A (.sparse B) = .ok R ∧ add A' (.sparse B') = .ok R' ∧
      ∀ i, InBounds A.shape i → SpOrDense.get R' i = SpOrDense.get R i :=
  perm_binary SpOrDense.get (fun A B => add A (.sparse B)) (fun a b => a + b) (fun s => s ≠ [])
    (fun A B hA hB hs hQ => by
      obtain ⟨R, e, _, _, g⟩ := add_sparse_spec A B hA hB hs hQ
      exact ⟨.sp R, e, fun i hi => g i⟩) A A' B B' hA hB hs hN rA rB

/-- `S - S2`. -/
theorem C06_perm_sub [Ring α] [DecidableEq α] (A A' B B' : Sparse α) (hA : A.WF) (hB : B.WF)
    (hs : A.shape = B.shape) (hN : A.shape ≠ []) (rA : Reorder A' A) (rB : Reorder B' B) :
    ∃ R R', sub A (.sparse B) = .ok R ∧ sub A' (.sparse B') = .ok R' ∧
      ∀ i, InBounds A.shape i → SpOrDense.get R' i = SpOrDense.get R i :=
  perm_binary SpOrDense.get (fun A B => sub A (.sparse B)) (fun a b => a - b) (fun s => s ≠ [])
    (fun A B hA hB hs hQ => by
      obtain ⟨R, e, _, _, g⟩ := sub_sparse_spec A B hA hB hs hQ
      exact ⟨.sp R, e, fun i hi => g i⟩) A A' B B' hA hB hs hN rA rB

/-- `S * S2`: the statement that failed for the pinned code (values paired by position). -/
theorem C06_perm_mul [Semiring α] [NoZeroDivisors α] [DecidableEq α] (A A' B B' : Sparse α) (hA : A.WF) (hB : B.WF)
    (hs : A.shape = B.shape) (rA : Reorder A' A) (rB : Reorder B' B) :
    ∃ R R', mul A (.sparse B) = .ok R ∧ mul A' (.sparse B') = .ok R' ∧
      ∀ i, InBounds A.shape i → Sparse.get R' i = Sparse.get R i :=
  perm_binary Sparse.get (fun A B => mul A (.sparse B)) (fun a b => a * b) (fun _ => True)
    (fun A B hA hB hs hQ => by
      obtain ⟨R, e, _, _, g⟩ := mul_sparse_spec A B hA hB hs
      exact ⟨R, e, fun i hi => g i⟩) A A' B B' hA hB hs trivial rA rB

/-- `S.logical_and(S2)`. -/
theorem C06_perm_and [AddCommMonoid α] [One α] [DecidableEq α] (A A' B B' : Sparse α) (hA : A.WF) (hB : B.WF)
    (hs : A.shape = B.shape) (hN : A.shape ≠ []) (hpos : ∀ e ∈ A.shape, 0 < e) (h1 : (1 : α) ≠ 0) (rA : Reorder A' A) (rB : Reorder B' B) :
    ∃ R R', logicalAnd A (.sparse B) = .ok R ∧ logicalAnd A' (.sparse B') = .ok R' ∧
      ∀ i, InBounds A.shape i → Sparse.get R' i = Sparse.get R i :=
  perm_binary Sparse.get (fun A B => logicalAnd A (.sparse B)) (fun a b => if a ≠ 0 ∧ b ≠ 0 then 1 else 0) (fun s => s ≠ [] ∧ ∀ e ∈ s, 0 < e)
    (fun A B hA hB hs hQ => by
      obtain ⟨R, e, _, _, g⟩ := and_sparse_spec A B hA hB hs hQ.1 hQ.2 h1
      exact ⟨R, e, fun i hi => g i⟩) A A' B B' hA hB hs ⟨hN, hpos⟩ rA rB

/-- `S.logical_or(S2)`. -/
theorem C06_perm_or [AddCommMonoid α] [One α] [DecidableEq α] (A A' B B' : Sparse α) (hA : A.WF) (hB : B.WF)
    (hs : A.shape = B.shape) (hN : A.shape ≠ []) (hpos : ∀ e ∈ A.shape, 0 < e) (h1 : (1 : α) ≠ 0) (rA : Reorder A' A) (rB : Reorder B' B) :
    ∃ R R', logicalOr A (.sparse B) = .ok R ∧ logicalOr A' (.sparse B') = .ok R' ∧
      ∀ i, InBounds A.shape i → SpOrDense.get R' i = SpOrDense.get R i :=
  perm_binary SpOrDense.get (fun A B => logicalOr A (.sparse B)) (fun a b => if a ≠ 0 ∨ b ≠ 0 then 1 else 0) (fun s => s ≠ [] ∧ ∀ e ∈ s, 0 < e)
    (fun A B hA hB hs hQ => by
      obtain ⟨R, e, _, _, g⟩ := or_sparse_spec A B hA hB hs hQ.1 hQ.2 h1
      exact ⟨.sp R, e, fun i hi => g i⟩) A A' B B' hA hB hs ⟨hN, hpos⟩ rA rB

/-- `S.logical_xor(S2)`. -/
theorem C06_perm_xor [AddCommMonoid α] [One α] [DecidableEq α] (A A' B B' : Sparse α) (hA : A.WF) (hB : B.WF)
    (hs : A.shape = B.shape) (hN : A.shape ≠ []) (hpos : ∀ e ∈ A.shape, 0 < e) (h1 : (1 : α) ≠ 0) (rA : Reorder A' A) (rB : Reorder B' B) :
    ∃ R R', logicalXor A (.sparse B) = .ok R ∧ logicalXor A' (.sparse B') = .ok R' ∧
      ∀ i, InBounds A.shape i → SpOrDense.get R' i = SpOrDense.get R i :=
  perm_binary SpOrDense.get (fun A B => logicalXor A (.sparse B)) (fun a b => if (a ≠ 0) ≠ (b ≠ 0) then 1 else 0) (fun s => s ≠ [] ∧ ∀ e ∈ s, 0 < e)
    (fun A B hA hB hs hQ => by
      obtain ⟨R, e, _, _, g⟩ := xor_sparse_spec A B hA hB hs hQ.1 hQ.2 h1
      exact ⟨.sp R, e, fun i hi => g i⟩) A A' B B' hA hB hs ⟨hN, hpos⟩ rA rB

/-- `S == S2`. -/
theorem C06_perm_eq [AddCommMonoid α] [One α] [DecidableEq α] (A A' B B' : Sparse α) (hA : A.WF) (hB : B.WF)
    (hs : A.shape = B.shape) (h1 : (1 : α) ≠ 0) (rA : Reorder A' A) (rB : Reorder B' B) :
    ∃ R R', SpElem.eq A (.sparse B) = .ok R ∧ SpElem.eq A' (.sparse B') = .ok R' ∧
      ∀ i, InBounds A.shape i → Sparse.get R' i = Sparse.get R i :=
  perm_binary Sparse.get (fun A B => SpElem.eq A (.sparse B)) (fun a b => if a = b then 1 else 0) (fun _ => True)
    (fun A B hA hB hs hQ => by
      obtain ⟨R, e, _, _, g⟩ := eq_sparse_spec A B hA hB hs h1
      exact ⟨R, e, fun i hi => g i hi⟩) A A' B B' hA hB hs trivial rA rB

/-- `S != S2`. -/
theorem C06_perm_ne [AddCommMonoid α] [One α] [DecidableEq α] (A A' B B' : Sparse α) (hA : A.WF) (hB : B.WF)
    (hs : A.shape = B.shape) (h1 : (1 : α) ≠ 0) (rA : Reorder A' A) (rB : Reorder B' B) :
    ∃ R R', SpElem.ne A (.sparse B) = .ok R ∧ SpElem.ne A' (.sparse B') = .ok R' ∧
      ∀ i, InBounds A.shape i → Sparse.get R' i = Sparse.get R i :=
  perm_binary Sparse.get (fun A B => SpElem.ne A (.sparse B)) (fun a b => if a ≠ b then 1 else 0) (fun _ => True)
    (fun A B hA hB hs hQ => by
      obtain ⟨R, e, _, _, g⟩ := ne_sparse_spec A B hA hB hs h1
      exact ⟨R, e, fun i hi => g i⟩) A A' B B' hA hB hs trivial rA rB

/-- `lt` of two sparse tensors. -/
theorem C06_perm_lt [AddCommMonoid α] [One α] [LinearOrder α] (A A' B B' : Sparse α) (hA : A.WF) (hB : B.WF)
    (hs : A.shape = B.shape) (h1 : (1 : α) ≠ 0) (rA : Reorder A' A) (rB : Reorder B' B) :
    ∃ R R', SpElem.lt A (.sparse B) = .ok R ∧ SpElem.lt A' (.sparse B') = .ok R' ∧
      ∀ i, InBounds A.shape i → Sparse.get R' i = Sparse.get R i :=
  perm_binary Sparse.get (fun A B => SpElem.lt A (.sparse B)) (fun a b => if a < b then 1 else 0) (fun _ => True)
    (fun A B hA hB hs hQ => by
      obtain ⟨R, e, _, _, g⟩ := lt_sparse_spec A B hA hB hs h1
      exact ⟨R, e, fun i hi => g i hi⟩) A A' B B' hA hB hs trivial rA rB

/-- `le` of two sparse tensors. -/
theorem C06_perm_le [AddCommMonoid α] [One α] [LinearOrder α] (A A' B B' : Sparse α) (hA : A.WF) (hB : B.WF)
    (hs : A.shape = B.shape) (h1 : (1 : α) ≠ 0) (rA : Reorder A' A) (rB : Reorder B' B) :
    ∃ R R', SpElem.le A (.sparse B) = .ok R ∧ SpElem.le A' (.sparse B') = .ok R' ∧
      ∀ i, InBounds A.shape i → Sparse.get R' i = Sparse.get R i :=
  perm_binary Sparse.get (fun A B => SpElem.le A (.sparse B)) (fun a b => if a ≤ b then 1 else 0) (fun _ => True)
    (fun A B hA hB hs hQ => by
      obtain ⟨R, e, _, _, g⟩ := le_sparse_spec A B hA hB hs h1
      exact ⟨R, e, fun i hi => g i hi⟩) A A' B B' hA hB hs trivial rA rB

/-- `gt` of two sparse tensors. -/
theorem C06_perm_gt [AddCommMonoid α] [One α] [LinearOrder α] (A A' B B' : Sparse α) (hA : A.WF) (hB : B.WF)
    (hs : A.shape = B.shape) (h1 : (1 : α) ≠ 0) (rA : Reorder A' A) (rB : Reorder B' B) :
    ∃ R R', SpElem.gt A (.sparse B) = .ok R ∧ SpElem.gt A' (.sparse B') = .ok R' ∧
      ∀ i, InBounds A.shape i → Sparse.get R' i = Sparse.get R i :=
  perm_binary Sparse.get (fun A B => SpElem.gt A (.sparse B)) (fun a b => if b < a then 1 else 0) (fun _ => True)
    (fun A B hA hB hs hQ => by
      obtain ⟨R, e, _, _, g⟩ := gt_sparse_spec A B hA hB hs h1
      exact ⟨R, e, fun i hi => g i hi⟩) A A' B B' hA hB hs trivial rA rB

/-- `ge` of two sparse tensors. -/
theorem C06_perm_ge [AddCommMonoid α] [One α] [LinearOrder α] (A A' B B' : Sparse α) (hA : A.WF) (hB : B.WF)
    (hs : A.shape = B.shape) (h1 : (1 : α) ≠ 0) (rA : Reorder A' A) (rB : Reorder B' B) :
    ∃ R R', SpElem.ge A (.sparse B) = .ok R ∧ SpElem.ge A' (.sparse B') = .ok R' ∧
      ∀ i, InBounds A.shape i → Sparse.get R' i = Sparse.get R i :=
  perm_binary Sparse.get (fun A B => SpElem.ge A (.sparse B)) (fun a b => if b ≤ a then 1 else 0) (fun _ => True)
    (fun A B hA hB hs hQ => by
      obtain ⟨R, e, _, _, g⟩ := ge_sparse_spec A B hA hB hs h1
      exact ⟨R, e, fun i hi => g i hi⟩) A A' B B' hA hB hs trivial rA rB

/-- `S * c`. -/
theorem C06_perm_mul_scalar [Semiring α] [DecidableEq α] (A A' : Sparse α) (hA : A.WF) (c : α) (rA : Reorder A' A) :
    ∃ R R', mul A (.scalar c) = .ok R ∧ mul A' (.scalar c) = .ok R' ∧
      ∀ i, InBounds A.shape i → Sparse.get R' i = Sparse.get R i :=
  perm_unary Sparse.get (fun A => mul A (.scalar c)) (fun _ a => a * c) (fun _ => True)
    (fun A hA _ => by
      obtain ⟨R, e, _, _, g⟩ := mul_scalar_spec A hA c
      exact ⟨R, e, fun i hi => g i⟩) A A' hA trivial rA

/-- `S + c` (dense result). -/
theorem C06_perm_add_scalar [Ring α] [DecidableEq α] (A A' : Sparse α) (hA : A.WF) (c : α) (rA : Reorder A' A) :
    ∃ R R', add A (.scalar c) = .ok R ∧ add A' (.scalar c) = .ok R' ∧
      ∀ i, InBounds A.shape i → SpOrDense.get R' i = SpOrDense.get R i :=
  perm_unary SpOrDense.get (fun A => add A (.scalar c)) (fun _ a => a + c) (fun _ => True)
    (fun A hA _ => by
      obtain ⟨R, e, _, _, g⟩ := add_scalar_spec A hA c
      exact ⟨.dn R, e, fun i hi => g i hi⟩) A A' hA trivial rA

/-- `S == c`. -/
theorem C06_perm_eq_scalar [AddCommMonoid α] [One α] [DecidableEq α] (A A' : Sparse α) (hA : A.WF) (c : α) (h1 : (1 : α) ≠ 0) (rA : Reorder A' A) :
    ∃ R R', SpElem.eq A (.scalar c) = .ok R ∧ SpElem.eq A' (.scalar c) = .ok R' ∧
      ∀ i, InBounds A.shape i → Sparse.get R' i = Sparse.get R i :=
  perm_unary Sparse.get (fun A => SpElem.eq A (.scalar c)) (fun _ a => if a = c then 1 else 0) (fun _ => True)
    (fun A hA _ => by
      obtain ⟨R, e, _, _, g⟩ := eq_scalar_spec A hA c h1
      exact ⟨R, e, fun i hi => g i hi⟩) A A' hA trivial rA

/-- `S != c`. -/
theorem C06_perm_ne_scalar [AddCommMonoid α] [One α] [DecidableEq α] (A A' : Sparse α) (hA : A.WF) (c : α) (h1 : (1 : α) ≠ 0) (rA : Reorder A' A) :
    ∃ R R', SpElem.ne A (.scalar c) = .ok R ∧ SpElem.ne A' (.scalar c) = .ok R' ∧
      ∀ i, InBounds A.shape i → Sparse.get R' i = Sparse.get R i :=
  perm_unary Sparse.get (fun A => SpElem.ne A (.scalar c)) (fun _ a => if a ≠ c then 1 else 0) (fun _ => True)
    (fun A hA _ => by
      obtain ⟨R, e, _, _, g⟩ := ne_scalar_spec A hA c h1
      exact ⟨R, e, fun i hi => g i hi⟩) A A' hA trivial rA

/-- `S <= c` (a comparison that marks the empty positions when it holds for zero). -/
theorem C06_perm_le_scalar [AddCommMonoid α] [One α] [LinearOrder α] (A A' : Sparse α) (hA : A.WF) (c : α) (h1 : (1 : α) ≠ 0) (rA : Reorder A' A) :
    ∃ R R', SpElem.le A (.scalar c) = .ok R ∧ SpElem.le A' (.scalar c) = .ok R' ∧
      ∀ i, InBounds A.shape i → Sparse.get R' i = Sparse.get R i :=
  perm_unary Sparse.get (fun A => SpElem.le A (.scalar c)) (fun _ a => if a ≤ c then 1 else 0) (fun _ => True)
    (fun A hA _ => by
      obtain ⟨R, e, _, _, g⟩ := le_scalar_spec A hA c h1
      exact ⟨R, e, fun i hi => g i hi⟩) A A' hA trivial rA

/-- `S * D`, `S == D`, `S < D` for a dense `D`: the stored order of `S` does not matter. -/
theorem C06_perm_dense_rhs [AddCommMonoid α] [One α] [LinearOrder α] (A A' : Sparse α) (hA : A.WF)
    (D : Dense α) (hD : D.WF) (hs : A.shape = D.shape) (h1 : (1 : α) ≠ 0) (rA : Reorder A' A) :
    (∃ R R', SpElem.eq A (.dense D) = .ok R ∧ SpElem.eq A' (.dense D) = .ok R' ∧
      ∀ i, InBounds A.shape i → R'.get i = R.get i) ∧
    (∃ R R', SpElem.lt A (.dense D) = .ok R ∧ SpElem.lt A' (.dense D) = .ok R' ∧
      ∀ i, InBounds A.shape i → R'.get i = R.get i) := by
  have hA' := wf_perm rA hA
  have hs' : A'.shape = D.shape := by rw [rA.1, hs]
  obtain ⟨R1, e1, _, _, g1⟩ := eq_dense_spec A hA D hD hs h1
  obtain ⟨R1', e1', _, _, g1'⟩ := eq_dense_spec A' hA' D hD hs' h1
  obtain ⟨R2, e2, _, _, g2⟩ := lt_dense_spec A hA D hD hs h1
  obtain ⟨R2', e2', _, _, g2'⟩ := lt_dense_spec A' hA' D hD hs' h1
  refine ⟨⟨R1, R1', e1, e1', fun i hi => ?_⟩, ⟨R2, R2', e2, e2', fun i hi => ?_⟩⟩
  · rw [g1 i hi, g1' i (by rw [rA.1]; exact hi), denote_perm rA]
  · rw [g2 i hi, g2' i (by rw [rA.1]; exact hi), denote_perm rA]

/-- unary operations. -/
theorem C06_perm_unary [Ring α] [DecidableEq α] (A A' : Sparse α) (hA : A.WF) (f : α → α) (h1 : (1 : α) ≠ 0)
    (rA : Reorder A' A) (i : List Nat) (hi : InBounds A.shape i) :
    (neg A').get i = (neg A).get i ∧ (ones A').get i = (ones A).get i ∧
    (logicalNot A').get i = (logicalNot A).get i ∧ (elemfun f A').get i = (elemfun f A).get i := by
  have hA' := wf_perm rA hA
  have hi' : InBounds A'.shape i := by rw [rA.1]; exact hi
  refine ⟨?_, ?_, ?_, ?_⟩
  · rw [(neg_spec A hA).2.2 i, (neg_spec A' hA').2.2 i, denote_perm rA]
  · rw [(ones_spec A hA h1).2.2 i, (ones_spec A' hA' h1).2.2 i, denote_perm rA]
  · rw [(logicalNot_spec A hA h1).2.2 i hi, (logicalNot_spec A' hA' h1).2.2 i hi', denote_perm rA]
  · rw [(elemfun_spec A hA f).2.2 i, (elemfun_spec A' hA' f).2.2 i, denote_perm rA]

/-- `S / S2` at the extended rationals. -/
theorem C06_perm_div (A A' B B' : Sparse XRat) (hA : A.WF) (hB : B.WF) (hs : A.shape = B.shape)
    (hfa : ∀ x ∈ A.vals, ∃ q : Rat, x = .fin q) (hfb : ∀ y ∈ B.vals, ∃ q : Rat, y = .fin q)
    (rA : Reorder A' A) (rB : Reorder B' B) :
    ∃ R R', div .nan A (.sparse B) = .ok R ∧ div .nan A' (.sparse B') = .ok R' ∧
      ∀ i, InBounds A.shape i → R'.get i = R.get i := by
  obtain ⟨R, e, _, _, g⟩ := div_sparse_xrat A B hA hB hs hfa hfb
  obtain ⟨R', e', _, _, g'⟩ := div_sparse_xrat A' B' (wf_perm rA hA) (wf_perm rB hB) (by rw [rA.1, rB.1, hs])
    (fun x hx => hfa x ((rA.vals_mem hA x).1 hx)) (fun y hy => hfb y ((rB.vals_mem hB y).1 hy))
  refine ⟨R, R', e, e', fun i hi => ?_⟩
  rw [g i hi, g' i (by rw [rA.1]; exact hi), denote_perm rA, denote_perm rB]

/-- `X.mask(W)` and `X.extract(q)` return the same values whatever the stored order of `X`. -/
theorem C06_perm_lookups [AddCommMonoid α] [One α] [DecidableEq α] (X X' W : Sparse α) (hX : X.WF)
    (rX : Reorder X' X) (hl : W.shape.length = X.shape.length) (hle : ∀ p ∈ W.shape.zip X.shape, p.1 ≤ p.2)
    (q : List (List Nat)) (hq : ∀ r ∈ q, InBounds X.shape r) :
    mask X' W = mask X W ∧ extract X' q = extract X q := by
  have hX' := wf_perm rX hX
  constructor
  · rw [mask_spec X W hX hl hle, mask_spec X' W hX' (by rw [rX.1]; exact hl) (by rw [rX.1]; exact hle)]
    congr 1
    apply List.map_congr_left
    intro r _
    exact denote_perm rX r
  · rw [extract_eq X hX q hq, extract_eq X' hX' q (by rw [rX.1]; exact hq)]
    congr 1
    apply List.map_congr_left
    intro r _
    exact denote_perm rX r

/-- `permute`, `reshape`, `full`: reordering the operand does not change the result's array. -/
theorem C06_perm_shape_ops [AddCommMonoid α] [DecidableEq α] (S S' : Sparse α) (hS : S.WF) (rS : Reorder S' S)
    (p s' : List Nat) (hp : isPermOf p S.shape.length = true) (hn : numel s' = numel S.shape) :
    (∃ P P', S.permute p = .ok P ∧ S'.permute p = .ok P' ∧ ∀ j, j.length = S.shape.length → P'.get j = P.get j) ∧
    (∃ P P', S.reshape s' none = .ok P ∧ S'.reshape s' none = .ok P' ∧ ∀ j, InBounds s' j → P'.get j = P.get j) ∧
    S'.full = S.full := by
  have hS' := wf_perm rS hS
  have hlen : ∀ (T : Sparse α), T.WF → ∀ r ∈ T.subs, r.length = T.shape.length :=
    fun T hT r hr => (hT.inb r hr).length_eq
  refine ⟨?_, ?_, ?_⟩
  · obtain ⟨j0, hj0⟩ : ∃ j0 : List Nat, j0.length = S.shape.length := ⟨S.shape, rfl⟩
    obtain ⟨P, e, _, _, _, _⟩ := permute_at_sparse S p hp (hlen S hS) j0 hj0
    obtain ⟨P', e', _, _, _, _⟩ := permute_at_sparse S' p (by rw [rS.1]; exact hp) (hlen S' hS') j0
      (by rw [rS.1]; exact hj0)
    refine ⟨P, P', e, e', fun j hj => ?_⟩
    obtain ⟨Q, eq, _, _, _, g⟩ := permute_at_sparse S p hp (hlen S hS) j hj
    obtain ⟨Q', eq', _, _, _, g'⟩ := permute_at_sparse S' p (by rw [rS.1]; exact hp) (hlen S' hS') j
      (by rw [rS.1]; exact hj)
    rw [e] at eq; rw [e'] at eq'
    cases eq; cases eq'
    rw [g, g', denote_perm rS]
  · obtain ⟨P, e, _⟩ := reshape_wf_sparse S s' hS hn
    obtain ⟨P', e', _⟩ := reshape_wf_sparse S' s' hS' (by rw [rS.1]; exact hn)
    refine ⟨P, P', e, e', fun j hj => ?_⟩
    obtain ⟨Q, eq, _, _, g⟩ := reshape_at_sparse S s' hS hn j hj
    obtain ⟨Q', eq', _, _, g'⟩ := reshape_at_sparse S' s' hS' (by rw [rS.1]; exact hn) j hj
    rw [e] at eq; rw [e'] at eq'
    cases eq; cases eq'
    rw [g, g', rS.1, denote_perm rS]
  · apply Dense.ext_get (full_wf S') (full_wf S) (by simp [Sparse.full_eq, rS.1])
    intro i hi
    have hi' : InBounds S.shape i := by
      have : S'.full.shape = S'.shape := rfl
      rw [this, rS.1] at hi; exact hi
    rw [(sp_full_at S' hS' i (by rw [rS.1]; exact hi')).1, (sp_full_at S hS i hi').1, denote_perm rS]

/-! ### the multilinear kernels (models of property C02): ttv, ttm, collapse, contract, scale; squash

`ResWF r` says that a result handed back as a sparse tensor (resp. dense tensor) is well-formed;
`ResSame r' r` says that two results have the same shape, the same entry at every position and,
when both are sparse, the same stored (subscript, value) pairs up to order (`Reorder`). -/

/-- Two well-formed sparse tensors of one shape that denote the same array store the same
(subscript, value) pairs: equality of denotations IS equality of the stored sets. -/
theorem C06_same_array_same_entries [AddMonoid α] [DecidableEq α] (R R' : Sparse α) (hR : R.WF) (hR' : R'.WF)
    (hsh : R'.shape = R.shape) (hg : ∀ i, InBounds R.shape i → R'.get i = R.get i) : Reorder R' R :=
  reorder_of_get_eq R R' hR hR' hsh hg

/-- `sptensor.ttv`: whatever it returns (scalar, dense or sparse, on either side of the 50 % switch)
is well-formed: the aggregated subscripts are in range and pairwise distinct, zero sums are dropped. -/
theorem C06_wf_ttv [CommSemiring α] [DecidableEq α] (S : Sparse α) (hS : S.WF) (vs : List (List α))
    (dims excl : Option (List Int)) (r : ML.Res α) (h : S.ttv vs dims excl = .ok r) : ResWF r :=
  ttv_wf S hS vs dims excl r h

/-- … and reordering the stored entries of the operand gives the same result: same shape, same
entries, same stored pairs (this is the statement the seeded "adjacent runs" fast path violates). -/
theorem C06_perm_ttv [CommSemiring α] [DecidableEq α] (S S' : Sparse α) (hS : S.WF) (rS : Reorder S' S)
    (d : List Nat) (vs : List (List α)) (hd : d.Nodup) (hN : ∀ x ∈ d, x < S.shape.length)
    (hl : vs.length = d.length) (hsz : ∀ p ∈ d.zip vs, p.2.length = S.shape.getD p.1 0) :
    ∃ r r', S.ttv vs (some (d.map Int.ofNat)) none = .ok r ∧ S'.ttv vs (some (d.map Int.ofNat)) none = .ok r' ∧
      ResWF r ∧ ResWF r' ∧ ResSame r' r :=
  ttv_perm S S' hS rS d vs hd hN hl hsz

/-- the same for the kernel after `tt_dimscheck` (modes with their vectors). -/
theorem C06_perm_ttv_core [CommSemiring α] [DecidableEq α] (S S' : Sparse α) (hS : S.WF) (rS : Reorder S' S)
    (pairs : List (Nat × List α)) (hnd : (pairs.map (·.1)).Nodup) (hlt : ∀ p ∈ pairs, p.1 < S.shape.length)
    (hlen : ∀ p ∈ pairs, p.2.length = S.shape.getD p.1 0) :
    ∃ r r', S.ttvCore pairs = .ok r ∧ S'.ttvCore pairs = .ok r' ∧ ResWF r ∧ ResWF r' ∧ ResSame r' r :=
  ttvCore_perm S S' hS rS pairs hnd hlt hlen

/-- `sptensor.collapse` (any reducer): results are well-formed. -/
theorem C06_wf_collapse [CommSemiring α] [DecidableEq α] (S : Sparse α) (hS : S.WF) (dims : Option (List Int))
    (f : List α → α) (r : ML.Res α) (h : S.collapse dims f = .ok r) : ResWF r :=
  collapse_wf S hS dims f r h

/-- `sptensor.collapse` with a reducer that depends only on the multiset of its non-zero arguments
(sum, max of non-negatives, count, …): the stored order of the operand does not matter. -/
theorem C06_perm_collapse [CommSemiring α] [DecidableEq α] (S S' : Sparse α) (hS : S.WF) (rS : Reorder S' S)
    (dims : Option (List Nat)) (sel : List Nat)
    (hdims : match dims with
      | none => sel = List.range S.shape.length
      | some d => d.Nodup ∧ (∀ x ∈ d, x < S.shape.length) ∧ sel = sdimsOf d)
    (f : List α → α) (hf : ML.ZeroInsensitive f) (hf0 : f [] = 0) :
    ∃ r r', S.collapse (dims.map fun d => d.map Int.ofNat) f = .ok r ∧
      S'.collapse (dims.map fun d => d.map Int.ofNat) f = .ok r' ∧ ResWF r ∧ ResWF r' ∧ ResSame r' r :=
  collapse_perm S S' hS rS dims sel hdims f hf hf0

/-- `sptensor.contract`: results are well-formed. -/
theorem C06_wf_contract [CommSemiring α] [DecidableEq α] (S : Sparse α) (hS : S.WF) (a b : Nat) (r : ML.Res α)
    (h : S.contract a b = .ok r) : ResWF r :=
  contract_wf S hS a b r h

/-- `sptensor.contract`: the stored order of the operand does not matter. -/
theorem C06_perm_contract [CommSemiring α] [DecidableEq α] (S S' : Sparse α) (hS : S.WF) (rS : Reorder S' S)
    (a b : Nat) (ha : a < S.shape.length) (hb : b < S.shape.length) (hab : a ≠ b)
    (hsz : S.shape.getD a 0 = S.shape.getD b 0) :
    ∃ r r', S.contract a b = .ok r ∧ S'.contract a b = .ok r' ∧ ResWF r ∧ ResWF r' ∧ ResSame r' r :=
  contract_perm S S' hS rS a b ha hb hab hsz

/-- `sptensor.scale` with any factor (dense, sparse, plain vector): whenever it answers, the result
is well-formed (vanishing products are not stored), a reordered operand is answered too, and
the two results store the same pairs. -/
theorem C06_wf_perm_scale [CommSemiring α] [DecidableEq α] (S S' : Sparse α) (hS : S.WF) (rS : Reorder S' S)
    (F : Sparse.ScaleFactor α) (dims : List Int) (Y : Sparse α) (h : S.scale F dims = .ok Y) :
    ∃ Y', S'.scale F dims = .ok Y' ∧ Y.WF ∧ Y'.WF ∧ Reorder Y' Y :=
  scale_wf_perm S S' hS rS F dims Y h

/-- `sptensor.ttm` (always a dense result): well-formed with the expected extents … -/
theorem C06_wf_ttm [CommSemiring α] [DecidableEq α] (S : Sparse α) (hS : S.WF) (tr : Bool)
    (pairs : List (Nat × Dense.MatArg α)) (hne : pairs ≠ [])
    (hnd : (pairs.map (·.1)).Nodup) (hlt : ∀ p ∈ pairs, p.1 < S.shape.length)
    (hsz : ∀ p ∈ pairs, (if tr then p.2.m else p.2.n) = S.shape.getD p.1 0) :
    ∃ Y, S.ttmList pairs tr = .ok Y ∧ Y.WF ∧ Y.shape.length = S.shape.length := by
  obtain ⟨Y, e, w, l, _⟩ := ML.sparse_ttmList_spec S hS tr
    (fun d a b => match pairs.find? (fun p => p.1 == d) with
      | some p => if tr then p.2.rows.get b a else p.2.rows.get a b
      | none => 0) pairs hne hnd hlt hsz (by
      intro p hp a b
      have : pairs.find? (fun q => q.1 == p.1) = some p := by
        clear hlt hsz hne
        induction pairs with
        | nil => cases hp
        | cons q qs ih =>
          simp only [List.map_cons, List.nodup_cons] at hnd
          rcases List.mem_cons.1 hp with rfl | hp'
          · simp
          · have : q.1 ≠ p.1 := fun e => hnd.1 (e ▸ List.mem_map.2 ⟨p, hp', rfl⟩)
            have hb : (q.1 == p.1) = false := by simpa using this
            rw [List.find?_cons, hb]
            exact ih hnd.2 hp'
      rw [this])
  exact ⟨Y, e, w, l⟩

/-- … and literally the same answer (the same dense tensor, or the same refusal) for a reordered
operand, for every argument convention. -/
theorem C06_perm_ttm [CommSemiring α] [DecidableEq α] (S S' : Sparse α) (hS : S.WF) (rS : Reorder S' S)
    (Ms : List (Dense.MatArg α)) (dims excl : Option (List Int)) (tr : Bool) :
    S'.ttm Ms dims excl tr = S.ttm Ms dims excl tr :=
  ttm_perm S S' hS rS Ms dims excl tr

/-- `sptensor.squash`: the result is well-formed (renumbered coordinates stay distinct and below
the new extents), keeps the values and the number of stored entries. -/
theorem C06_wf_squash [Zero α] [BEq α] (S : Sparse α) (hS : S.WF) (h : S.subs ≠ []) :
    ∃ R m, squash S = .ok (R, m) ∧ R.WF ∧ R.vals = S.vals ∧ R.nnz = S.nnz :=
  squash_wf S hS h

/-- `sptensor.squash`: a reordered operand gives the same coordinate maps and the same stored
pairs. -/
theorem C06_perm_squash [Zero α] [BEq α] (S S' : Sparse α) (hS : S.WF) (rS : Reorder S' S) (h : S.subs ≠ []) :
    ∃ R R' m, squash S = .ok (R, m) ∧ squash S' = .ok (R', m) ∧ Reorder R' R :=
  squash_perm S S' hS rS h

/-! ### indexing (models and refinement of property C04), constructors and generators (C01, C20) -/

/-- `sptensor.__getitem__` / `__setitem__` (every key form and right-hand side covered by the C04
refinement, `provedAtSparse`): a read returns the same value / vector / array whatever the
stored order of the tensor; a write leaves a well-formed tensor (no repeated subscript, an
assigned zero deletes the entry) and the same stored pairs whatever the stored order before. -/
theorem C06_perm_indexing [AddCommMonoid α] [DecidableEq α] (S S' : Sparse α) (hS : S.WF) (rS : Reorder S' S)
    (op : IdxOp α) (hp : op.provedAtSparse S.shape = true) :
    (S'.step op).2 = (S.step op).2 ∧ (S.step op).1.WF ∧ (S'.step op).1.WF ∧
      Reorder (S'.step op).1 (S.step op).1 :=
  indexing_perm S S' hS rS op hp

/-- `sptenmat(subs, vals, rdims, cdims, tshape)` (copying constructor): whenever it accepts, the
stored matrix is well-formed — repeated (row, column) pairs are summed, zero sums dropped,
pairs inside the matrix — and denotes the sums of the given values. -/
theorem C06_wf_sptenmat_ctor [AddMonoid α] [DecidableEq α] (subs : List (List Nat)) (vals : List α)
    (r c ts : List Nat) (M : Sptenmat α) (h : Sptenmat.mkCopy subs vals r c ts = .ok M) :
    Sparse.WF (⟨M.mshape, M.subs, M.vals⟩ : Sparse α) ∧
    ∀ i, Sparse.get (⟨M.mshape, M.subs, M.vals⟩ : Sparse α) i = kvSum (subs.zip vals) i :=
  mkCopy_wf subs vals r c ts M h

/-- … and the same triples listed in another order give the same stored entries. -/
theorem C06_perm_sptenmat_ctor [AddCommMonoid α] [DecidableEq α] (subs subs' : List (List Nat)) (vals vals' : List α)
    (r c ts : List Nat) (M M' : Sptenmat α)
    (h : Sptenmat.mkCopy subs vals r c ts = .ok M) (h' : Sptenmat.mkCopy subs' vals' r c ts = .ok M')
    (hp : (subs'.zip vals').Perm (subs.zip vals)) :
    Reorder (⟨M'.mshape, M'.subs, M'.vals⟩ : Sparse α) ⟨M.mshape, M.subs, M.vals⟩ :=
  mkCopy_perm subs subs' vals vals' r c ts M M' h h' hp

/-- `sptendiag(elements, shape)` is well-formed: zero elements are not stored. -/
theorem C06_wf_sptendiag [AddMonoid α] [DecidableEq α] (elements : List α) (shape : Option (List Nat))
    (hN : elements ≠ []) (hs : diagShape elements.length shape ≠ []) :
    ∃ S, Sparse.sptendiag elements shape = .ok S ∧ S.WF := by
  obtain ⟨S, e, _, w, _⟩ := sptendiag_spec elements shape hN hs
  exact ⟨S, e, w⟩

/-- `sptenrand` / `sptensor.from_function` (the draws of `np.random.uniform` and the values handed
back by the user function are explicit inputs): the result is well-formed — distinct in-range
subscripts, one value each — provided the value function returns no exact zero. -/
theorem C06_wf_sptenrand [Zero α] [BEq α] (shape : List Nat) (q : Rat) (nz : Nat)
    (draw : Nat → List (List Rat)) (fh : Nat → List α)
    (hq : nonzerosRequest true shape q = .ok nz)
    (hdraw : ∀ k < 10, ∀ row ∈ draw k, row.length = shape.length ∧ ∀ u ∈ row, 0 ≤ u ∧ u < 1)
    (hfh : ∀ n, (fh n).length = n ∧ ∀ v ∈ fh n, (v == 0) = false) :
    ∃ S cnt, Sparse.fromFunction shape q draw fh = .ok (S, cnt) ∧ S.shape = shape ∧ S.WF := by
  obtain ⟨S, cnt, e, sh, w, _⟩ := fromFunction_spec shape q nz draw fh hq hdraw hfh
  exact ⟨S, cnt, e, sh, w⟩

/-! ### region reads and `sptensor.copy`

`C06_wf_getitem_region` is about every key the model of `__getitem__` accepts (a tuple of
integers — negative ones counted from the end —, slices with any bounds and step, index lists
with or without repeated entries); that the model and the code agree on the returned object is
the subject of the C04 / C06 correspondence runs. -/

/-- `S[key]` with a region key: whenever a sparse tensor comes back, it is well-formed — its
renumbered subscripts lie inside the shape of the result, are pairwise distinct, carry one
non-zero value each. -/
theorem C06_wf_getitem_region [Zero α] [BEq α] (S : Sparse α) (hS : S.WF) (parts : List RPart) (R : Sparse α)
    (h : S.getItem (.region parts) = .ok (.tensor R)) : R.WF :=
  getItem_region_wf S hS parts R h

/-- `S.copy()` / `copy.deepcopy(S)` (the plain constructor on the receiver's own components):
accepted for a well-formed tensor, and the copy stores the same rows and values. -/
theorem C06_wf_sptensor_copy [Zero α] [BEq α] (S : Sparse α) (hS : S.WF) :
    S.copy = .ok S ∧ S.WF := ⟨sparse_copy_wf S hS, hS⟩

/-- … so the copies of two tensors that store the same pairs store the same pairs. -/
theorem C06_perm_sptensor_copy [Zero α] [BEq α] (S S' : Sparse α) (hS : S.WF) (rS : Reorder S' S) :
    ∃ R R', S.copy = .ok R ∧ S'.copy = .ok R' ∧ R.WF ∧ R'.WF ∧ Reorder R' R :=
  ⟨S, S', sparse_copy_wf S hS, sparse_copy_wf S' (wf_perm rS hS), hS, wf_perm rS hS, rS⟩

/-! ### the operations of the sparse matricized tensor (`sptenmat`)

`M.mat` is the stored (row, column, value) triples seen as a 2-way sparse tensor of the matrix
shape; `M.mat.WF` says: one value per pair, pairs inside the matrix and pairwise distinct, no
stored zero.  `SameUpToOrder M' M` says that `M'` has the mode split of `M` and stores the same
triples in another order. -/

/-- `M.copy()` / `copy.deepcopy(M)`: whatever comes back is well-formed (repeated pairs summed,
zero sums dropped), has the receiver's mode split and denotes the receiver's matrix; a
well-formed receiver with a proper mode split is accepted. -/
theorem C06_wf_sptenmat_copy [AddMonoid α] [DecidableEq α] (M : Sptenmat α) :
    (∀ R, M.copy = .ok R → R.mat.WF ∧ R.tshape = M.tshape ∧ R.rdims = M.rdims ∧ R.cdims = M.cdims ∧
      ∀ i, R.mat.get i = M.mat.get i) ∧
    (M.mat.WF → isPermOf (M.rdims ++ M.cdims) M.tshape.length = true → ∃ R, M.copy = .ok R) :=
  ⟨fun R h => Sptenmat.copy_spec M R h, fun hM hp => Sptenmat.copy_ok M hM hp⟩

/-- `copy` of a reordered receiver: accepted too, same stored triples, same matrix. -/
theorem C06_perm_sptenmat_copy [AddCommMonoid α] [DecidableEq α] (M M' : Sptenmat α) (hM : M.mat.WF)
    (hp : isPermOf (M.rdims ++ M.cdims) M.tshape.length = true) (hs : Sptenmat.SameUpToOrder M' M) :
    ∃ R R', M.copy = .ok R ∧ M'.copy = .ok R' ∧ Sptenmat.SameUpToOrder R' R ∧
      ∀ i, R'.mat.get i = R.mat.get i := by
  obtain ⟨R, h⟩ := Sptenmat.copy_ok M hM hp
  obtain ⟨R', h'⟩ := Sptenmat.copy_ok M' (Sptenmat.sameUpToOrder_wf hs hM) (by rw [hs.1, hs.2.1, hs.2.2.1]; exact hp)
  have r := Sptenmat.copy_perm M M' R R' hs h h'
  exact ⟨R, R', h, h', r, fun i => denote_perm r.2.2.2 i⟩

/-- `+M` is `M.copy()`. -/
theorem C06_wf_sptenmat_pos [AddMonoid α] [DecidableEq α] (M R : Sptenmat α) (h : M.pos = .ok R) :
    M.pos = M.copy ∧ R.mat.WF ∧ R.tshape = M.tshape ∧ R.rdims = M.rdims ∧ R.cdims = M.cdims ∧
      ∀ i, R.mat.get i = M.mat.get i :=
  ⟨rfl, Sptenmat.copy_spec M R h⟩

theorem C06_perm_sptenmat_pos [AddCommMonoid α] [DecidableEq α] (M M' : Sptenmat α) (hM : M.mat.WF)
    (hp : isPermOf (M.rdims ++ M.cdims) M.tshape.length = true) (hs : Sptenmat.SameUpToOrder M' M) :
    ∃ R R', M.pos = .ok R ∧ M'.pos = .ok R' ∧ Sptenmat.SameUpToOrder R' R ∧
      ∀ i, R'.mat.get i = R.mat.get i :=
  C06_perm_sptenmat_copy M M' hM hp hs

/-- `-M`: whatever comes back is well-formed and denotes the negated matrix; it is accepted
exactly when `copy` is. -/
theorem C06_wf_sptenmat_neg [Ring α] [DecidableEq α] (M : Sptenmat α) :
    (∀ R, M.neg = .ok R → R.mat.WF ∧ R.tshape = M.tshape ∧ R.rdims = M.rdims ∧ R.cdims = M.cdims ∧
      ∀ i, R.mat.get i = - M.mat.get i) ∧
    ((∃ R, M.copy = .ok R) ↔ ∃ R, M.neg = .ok R) :=
  ⟨fun R h => Sptenmat.neg_spec M R h, Sptenmat.neg_ok_iff M⟩

theorem C06_perm_sptenmat_neg [Ring α] [DecidableEq α] (M M' : Sptenmat α) (hM : M.mat.WF)
    (hp : isPermOf (M.rdims ++ M.cdims) M.tshape.length = true) (hs : Sptenmat.SameUpToOrder M' M) :
    ∃ R R', M.neg = .ok R ∧ M'.neg = .ok R' ∧ Sptenmat.SameUpToOrder R' R ∧
      ∀ i, R'.mat.get i = R.mat.get i := by
  obtain ⟨R, h⟩ := (Sptenmat.neg_ok_iff M).1 (Sptenmat.copy_ok M hM hp)
  obtain ⟨R', h'⟩ := (Sptenmat.neg_ok_iff M').1
    (Sptenmat.copy_ok M' (Sptenmat.sameUpToOrder_wf hs hM) (by rw [hs.1, hs.2.1, hs.2.2.1]; exact hp))
  have r := Sptenmat.neg_perm M M' R R' hs h h'
  exact ⟨R, R', h, h', r, fun i => denote_perm r.2.2.2 i⟩

/-- What the checks of `M[rkey, ckey] = value` guarantee when they pass: every cell lies inside
the matrix; no cell is named twice when neither key element repeats an index (always so for
integers and slices); a number is used for every cell, an array supplies the values in loop
order. -/
theorem C06_sptenmat_setitem_cells [Zero α] [BEq α] (M : Sptenmat α) (key : List Sptenmat.KeyPart)
    (rhs : Sptenmat.SetRhs α) (cvs : List (List Nat × α)) (h : M.setCells key rhs = .ok cvs) :
    M.setitem key rhs = .ok (M.setApply cvs) ∧
    (∀ cv ∈ cvs, InBounds M.mshape cv.1) ∧
    (∃ rk ck, key = [rk, ck] ∧ (rk.NoRepeat → ck.NoRepeat → (cvs.map (·.1)).Nodup)) ∧
    (∀ v, rhs = .scalar v → ∀ cv ∈ cvs, cv.2 = v) ∧
    (∀ vs, rhs = .arr vs → cvs.map (·.2) = vs) := by
  refine ⟨?_, Sptenmat.setCells_spec M key rhs cvs h⟩
  unfold Sptenmat.setitem
  rw [h]

/-- `M[rkey, ckey] = value` on a well-formed receiver, for EVERY accepted key and value (a cell
may be named twice, values may be zero): the stored result is well-formed — one value per pair,
no pair twice, no explicit zero —, keeps the mode split, and every named cell holds its value
(the last one given for it; an assigned zero leaves the cell empty), every other cell what it
held before. -/
theorem C06_wf_sptenmat_setitem [AddCommMonoid α] [DecidableEq α] (M : Sptenmat α) (hM : M.mat.WF)
    (key : List Sptenmat.KeyPart) (rhs : Sptenmat.SetRhs α) (cvs : List (List Nat × α))
    (h : M.setCells key rhs = .ok cvs) :
    ∃ R, M.setitem key rhs = .ok R ∧ R.mat.WF ∧
      R.tshape = M.tshape ∧ R.rdims = M.rdims ∧ R.cdims = M.cdims ∧
      ∀ i, R.mat.get i = if i ∈ cvs.map (·.1) then kvLast cvs i else M.mat.get i := by
  obtain ⟨e, hin, _⟩ := C06_sptenmat_setitem_cells M key rhs cvs h
  obtain ⟨t1, t2, t3, _⟩ := Sptenmat.mshape_setApply M cvs
  exact ⟨_, e, Sptenmat.setApply_wf M cvs hM hin, t1, t2, t3, Sptenmat.setApply_get M cvs hM hin⟩

/-- … and a reordered receiver is refused exactly when the receiver is, and otherwise ends up
with the same stored triples — hence the same matrix. -/
theorem C06_perm_sptenmat_setitem [AddCommMonoid α] [DecidableEq α] (M M' : Sptenmat α)
    (hl : M.subs.length = M.vals.length)
    (hs : Sptenmat.SameUpToOrder M' M) (key : List Sptenmat.KeyPart) (rhs : Sptenmat.SetRhs α) :
    (M.setitem key rhs = .error .reject ∧ M'.setitem key rhs = .error .reject) ∨
    ∃ R R', M.setitem key rhs = .ok R ∧ M'.setitem key rhs = .ok R' ∧ Sptenmat.SameUpToOrder R' R ∧
      ∀ i, R'.mat.get i = R.mat.get i := by
  have hc := Sptenmat.setCells_congr M M' key rhs hs.1 hs.2.1 hs.2.2.1
  unfold Sptenmat.setitem
  rw [hc]
  cases hcv : M.setCells key rhs with
  | error e => cases e; exact Or.inl ⟨rfl, rfl⟩
  | ok cvs =>
    right
    obtain ⟨t1, t2, t3, _⟩ := Sptenmat.mshape_setApply M cvs
    obtain ⟨t1', t2', t3', _⟩ := Sptenmat.mshape_setApply M' cvs
    have r := Sptenmat.setApply_perm M M' cvs hl hs.2.2.2
    exact ⟨_, _, rfl, rfl, ⟨by rw [t1, t1', hs.1], by rw [t2, t2', hs.2.1], by rw [t3, t3', hs.2.2.1], r⟩,
      fun i => denote_perm r i⟩

/-- Before commit 83ce2cc the code stored an assigned zero like any other value (explicit copy
of the old writing part, `Sptenmat.Pinned.setApply`): `M[0, 0] = 0` on the 2×3 matrix holding 3 at
(1, 2) and 2 at (0, 0) left the triples (1, 2, 3), (0, 0, 0) — not well-formed; the repaired code
leaves (1, 2, 3) alone. -/
theorem C06_sptenmat_setitem_zero_pinned_counterexample :
    let M : Sptenmat Int := ⟨[2, 3], [0], [1], [[1, 2], [0, 0]], [3, 2]⟩
    M.mat.WF ∧ M.setCells [.int 0, .int 0] (.scalar 0) = .ok [([0, 0], 0)] ∧
      Sptenmat.Pinned.setApply M [([0, 0], 0)] = ⟨[2, 3], [0], [1], [[1, 2], [0, 0]], [3, 0]⟩ ∧
      ¬ (⟨[2, 3], [0], [1], [[1, 2], [0, 0]], [3, 0]⟩ : Sptenmat Int).mat.WF ∧
      M.setitem [.int 0, .int 0] (.scalar 0) = .ok ⟨[2, 3], [0], [1], [[1, 2]], [3]⟩ := by
  refine ⟨⟨rfl, by decide, by decide, by decide⟩, by decide, by decide, fun h => ?_, by decide⟩
  exact absurd (h.nz 0 (by decide)) (by decide)

/-- Before commit 50dcb12 a pair that is not stored and is named twice by the key was appended
twice (explicit copy of the old loop body, `Sptenmat.Pinned.setCell`): for `M[[0, 0], [1]] = [5, 6]`
the old loop queued (0, 1) with 5 and with 6; the repaired loop queues it once, with 6. -/
theorem C06_sptenmat_setitem_repeated_pinned_counterexample :
    let M : Sptenmat Int := ⟨[2, 3], [0], [1], [[1, 2], [0, 0]], [3, 2]⟩
    M.setCells [.list [0, 0], .list [1]] (.arr [5, 6]) = .ok [([0, 1], 5), ([0, 1], 6)] ∧
      ([([0, 1], 5), ([0, 1], 6)].foldl (Sptenmat.Pinned.setCell M.subs) (M.vals, [])).2
        = [([0, 1], 5), ([0, 1], 6)] ∧
      (Sptenmat.setLoop M.subs M.vals [([0, 1], 5), ([0, 1], 6)]).2 = [([0, 1], 6)] := by
  refine ⟨by decide, by decide, by decide⟩

/-- `M.nnz` (`self.vals.size`) of a well-formed receiver is the number of stored pairs and the
number of non-zero cells of the matrix. -/
theorem C06_wf_sptenmat_nnz [AddMonoid α] [DecidableEq α] (M : Sptenmat α) (hM : M.mat.WF) :
    M.nnz = M.subs.length ∧
    M.nnz = ((allSubs M.mshape).filter (fun i => !(M.mat.get i == 0))).length := by
  have h := nnz_reports M.mat hM
  have e : M.nnz = M.mat.nnz := hM.len.symm
  exact ⟨hM.len.symm, e.trans h.2.2⟩

/-- the component-free object `sptenmat()` and an object built without entries report 0. -/
theorem C06_wf_sptenmat_nnz_empty (ts r c : List Nat) :
    (⟨[], [], [], [], []⟩ : Sptenmat α).nnz = 0 ∧ (⟨ts, r, c, [], []⟩ : Sptenmat α).nnz = 0 := ⟨rfl, rfl⟩

theorem C06_perm_sptenmat_nnz (M M' : Sptenmat α) (hl : M.subs.length = M.vals.length)
    (hs : Sptenmat.SameUpToOrder M' M) : M'.nnz = M.nnz :=
  Sptenmat.nnz_perm M M' hl hs

/-- `M.norm()²` (sum of the squares of the stored values) is the sum of the squares of the
cells of the matrix … -/
theorem C06_wf_sptenmat_norm [CommSemiring α] [DecidableEq α] (M : Sptenmat α) (hM : M.mat.WF) :
    M.normSq = ((allSubs M.mshape).map fun k => M.mat.get k * M.mat.get k).sum :=
  Sptenmat.normSq_spec M hM

/-- … and the same number for a reordered receiver. -/
theorem C06_perm_sptenmat_norm [AddCommMonoid α] [Mul α] (M M' : Sptenmat α) (hl : M.subs.length = M.vals.length)
    (hs : Sptenmat.SameUpToOrder M' M) : M'.normSq = M.normSq :=
  Sptenmat.normSq_perm M M' hl hs

/-- `M.double()` (seen as a dense matrix): of the matrix shape, cell by cell the denoted matrix. -/
theorem C06_wf_sptenmat_double [Add α] [Zero α] (M : Sptenmat α) (D : Dense α) (h : M.double = .ok D) :
    D.WF ∧ D.shape = M.mshape ∧ ∀ i, InBounds M.mshape i → D.get i = M.mat.get i :=
  Sptenmat.double_spec M D h

/-- literally the same matrix (or the same refusal) for a reordered receiver. -/
theorem C06_perm_sptenmat_double [AddCommMonoid α] (M M' : Sptenmat α) (hs : Sptenmat.SameUpToOrder M' M) :
    M'.double = M.double :=
  Sptenmat.double_perm M M' hs

/-- `M.full()` of a well-formed receiver: a dense matricized tensor with the same mode split
holding the denoted matrix. -/
theorem C06_wf_sptenmat_full [AddMonoid α] [DecidableEq α] (M : Sptenmat α) (hM : M.mat.WF) (T : Tenmat α)
    (h : M.full? = .ok T) :
    T.tshape = M.tshape ∧ T.rdims = M.rdims ∧ T.cdims = M.cdims ∧ T.data.WF ∧ T.data.shape = M.mshape ∧
      ∀ i, InBounds M.mshape i → T.data.get i = M.mat.get i :=
  Sptenmat.full_spec M hM T h

/-- literally the same dense object (or the same refusal) for a reordered receiver. -/
theorem C06_perm_sptenmat_full [AddCommMonoid α] [DecidableEq α] (M M' : Sptenmat α) (hM : M.mat.WF)
    (hs : Sptenmat.SameUpToOrder M' M) : M'.full? = M.full? :=
  Sptenmat.full_perm M M' hM hs

/-- `M.to_sptensor()` of a well-formed receiver with a proper mode split: the `sptensor`
constructor accepts the expanded subscripts, the tensor is well-formed and holds at every
subscript what the matrix holds at the cell that subscript is matricized to. -/
theorem C06_wf_sptenmat_to_sptensor [AddMonoid α] [DecidableEq α] (M : Sptenmat α) (hM : M.mat.WF)
    (hp : isPermOf (M.rdims ++ M.cdims) M.tshape.length = true) :
    ∃ S, M.toSptensor = .ok S ∧ S.WF ∧ S.shape = M.tshape ∧
      ∀ j, InBounds M.tshape j → S.get j = M.mat.get (matSub M.tshape M.rdims M.cdims j) := by
  obtain ⟨e, w, sh⟩ := Sptenmat.toSptensor_wf M hM hp
  exact ⟨_, e, w, sh, fun j hj => Sptenmat.toSparse_get M hM hp j hj⟩

/-- the tensors of a receiver and of a reordered receiver store the same (subscript, value)
pairs. -/
theorem C06_perm_sptenmat_to_sptensor [AddMonoid α] [DecidableEq α] (M M' : Sptenmat α) (hM : M.mat.WF)
    (hp : isPermOf (M.rdims ++ M.cdims) M.tshape.length = true) (hs : Sptenmat.SameUpToOrder M' M) :
    ∃ S S', M.toSptensor = .ok S ∧ M'.toSptensor = .ok S' ∧ S.WF ∧ S'.WF ∧ Reorder S' S := by
  obtain ⟨e, w, _⟩ := Sptenmat.toSptensor_wf M hM hp
  obtain ⟨e', w', _⟩ := Sptenmat.toSptensor_wf M' (wf_perm hs.2.2.2 hM) (by rw [hs.1, hs.2.1, hs.2.2.1]; exact hp)
  exact ⟨_, _, e, e', w, w', Sptenmat.toSparse_perm M M' hs⟩

/-- `M.isequal(N)` (canonical forms compared): for well-formed operands with proper mode splits
it answers, and says `True` exactly when the two objects have the same tensor shape, the same
mode split and denote the same matrix. -/
theorem C06_sptenmat_isequal_iff [AddCommMonoid α] [DecidableEq α] (M N : Sptenmat α) (hM : M.mat.WF) (hN : N.mat.WF)
    (hpM : isPermOf (M.rdims ++ M.cdims) M.tshape.length = true)
    (hpN : isPermOf (N.rdims ++ N.cdims) N.tshape.length = true) :
    ∃ b, M.isequal N = .ok b ∧
      (b = true ↔ M.tshape = N.tshape ∧ M.rdims = N.rdims ∧ M.cdims = N.cdims ∧
        ∀ i, M.mat.get i = N.mat.get i) :=
  Sptenmat.isequal_spec M N hM hN hpM hpN

/-- `isequal` does not depend on the stored orders: the same answer (or the same refusal) for
any stored order of the receiver's triples and any stored order of the argument's. -/
theorem C06_perm_sptenmat_isequal [AddCommMonoid α] [DecidableEq α] (M M' N N' : Sptenmat α)
    (hlM : M.subs.length = M.vals.length) (hlN : N.subs.length = N.vals.length)
    (hM : Sptenmat.SameUpToOrder M' M) (hN : Sptenmat.SameUpToOrder N' N) :
    M'.isequal N' = M.isequal N :=
  Sptenmat.isequal_of_sameUpToOrder M M' N N' hlM hlN hM hN

/-- Before commit 4f6568f `isequal` compared the stored components literally (explicit copy:
`Sptenmat.Pinned.isequal`): the same triples listed in the other order were not equal; the
repaired `isequal` says `True`. -/
theorem C06_perm_sptenmat_isequal_pinned_counterexample :
    let M : Sptenmat Int := ⟨[2, 3], [0], [1], [[1, 2], [0, 0]], [3, 2]⟩
    let M' : Sptenmat Int := ⟨[2, 3], [0], [1], [[0, 0], [1, 2]], [2, 3]⟩
    M.mat.WF ∧ Sptenmat.SameUpToOrder M' M ∧ Sptenmat.Pinned.isequal M M = true ∧
      Sptenmat.Pinned.isequal M' M = false ∧ M'.isequal M = M.isequal M := by
  intro M M'
  have hs : Sptenmat.SameUpToOrder M' M := ⟨rfl, rfl, rfl, rfl, rfl, by decide⟩
  exact ⟨⟨rfl, by decide, by decide, by decide⟩, hs, by decide, by decide,
    Sptenmat.isequal_of_sameUpToOrder M M' M M rfl rfl hs ⟨rfl, rfl, rfl, Reorder.refl _ rfl⟩⟩

/-! ### canonical stored order: literally the same object for every stored order -/

/-- `M.copy()` / `copy.deepcopy(M)` / `+M` sort the triples by (row, column): a receiver that
stores the same triples in another order gets literally the same object — or the same refusal. -/
theorem C06_perm_sptenmat_copy_literal [AddCommMonoid α] [DecidableEq α] (M M' : Sptenmat α)
    (hl : M.subs.length = M.vals.length) (hs : Sptenmat.SameUpToOrder M' M) :
    M'.copy = M.copy ∧ M'.pos = M.pos :=
  ⟨Sptenmat.copy_eq_of_sameUpToOrder M M' hl hs, Sptenmat.copy_eq_of_sameUpToOrder M M' hl hs⟩

/-- the same for `-M`. -/
theorem C06_perm_sptenmat_neg_literal [Ring α] [DecidableEq α] (M M' : Sptenmat α)
    (hl : M.subs.length = M.vals.length) (hs : Sptenmat.SameUpToOrder M' M) : M'.neg = M.neg :=
  Sptenmat.neg_eq_of_sameUpToOrder M M' hl hs

/-- `M[key] = value` that appends at least one pair re-sorts the triples: for a well-formed
receiver the stored result is literally the same for every stored order of the receiver.  (When
only stored pairs are overwritten the stored order is kept, and `C06_perm_sptenmat_setitem`
gives the same triples up to order.) -/
theorem C06_perm_sptenmat_setitem_appended [Zero α] [BEq α] (M M' : Sptenmat α) (hM : M.mat.WF)
    (hs : Sptenmat.SameUpToOrder M' M) (key : List Sptenmat.KeyPart) (rhs : Sptenmat.SetRhs α)
    (cvs : List (List Nat × α)) (h : M.setCells key rhs = .ok cvs)
    (hnew : ∃ cv ∈ cvs, cv.1 ∉ M.subs) :
    M'.setitem key rhs = M.setitem key rhs := by
  have hc := Sptenmat.setCells_congr M M' key rhs hs.1 hs.2.1 hs.2.2.1
  unfold Sptenmat.setitem
  rw [hc, h]
  simp only
  congr 1
  apply Sptenmat.setApply_eq_of_appended M M' cvs hM hs
  obtain ⟨cv, hcv, hnot⟩ := hnew
  intro hempty
  have hin := (Sptenmat.setCells_spec M key rhs cvs h).1
  have : cv ∈ Sptenmat.freshOf M.subs cvs := by
    unfold Sptenmat.freshOf
    rw [List.mem_filter]
    refine ⟨hcv, ?_⟩
    simp only [Bool.not_eq_true', List.any_eq_false]
    intro s hs'
    rw [Sptenmat.hits_eq_beq (Sptenmat.mshape_length M) (hin cv hcv) (hM.inb s hs')]
    have : cv.1 ≠ s := fun e => hnot (e ▸ hs')
    simpa using this
  rw [hempty] at this
  cases this

/-! ### the statements are about something -/

example : Reorder (⟨[2, 2], [[1, 1], [0, 0]], [3, 2]⟩ : Sparse Int) ⟨[2, 2], [[0, 0], [1, 1]], [2, 3]⟩ :=
  ⟨rfl, rfl, by decide⟩
example : (⟨[2, 2], [[1, 1], [0, 0]], [3, 2]⟩ : Sparse Int).WF := ⟨rfl, by decide, by decide, by decide⟩
/-- a well-formed sparse matricized tensor (2×3, entries stored unsorted), an accepted assignment over a
stored and a new pair with non-zero values and a key that names no cell twice. -/
example : (⟨[2, 3], [0], [1], [[1, 2], [0, 0]], [3, 2]⟩ : Sptenmat Int).mat.WF ∧
    (⟨[2, 3], [0], [1], [[1, 2], [0, 0]], [3, 2]⟩ : Sptenmat Int).setCells [.slice none none none, .int 0] (.arr [5, 7])
      = .ok [([0, 0], 5), ([1, 0], 7)] ∧
    isPermOf ([0] ++ [1]) [2, 3].length = true :=
  ⟨⟨rfl, by decide, by decide, by decide⟩, by decide, by decide⟩
/-- a region read that returns a sparse tensor. -/
example : (⟨[2, 3], [[1, 2], [0, 0]], [3, 2]⟩ : Sparse Int).getItem (.region [.slice none none none, .list [2, 0]])
    = .ok (.tensor ⟨[2, 2], [[1, 0], [0, 1]], [3, 2]⟩) := by rfl

end Pyttb
