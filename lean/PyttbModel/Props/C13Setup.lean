/-
C13 — additions: the zero sampler without replacement (`samplers.zeros(..., with_replacement=
False)`, reachable only by a direct call) and the data checks of `fg_setup.setup` (which data a
loss accepts, through `gcp_opt` and directly).  Only property theorems and examples.
-/
import PyttbModel.Lemmas.C13Setup
import Mathlib.Data.Rat.Floor
namespace Pyttb
open Samp GcpSetup

section norepl
variable {α : Type} [Field α] [LinearOrder α] [IsStrictOrderedRing α]

/-- `zeros(..., with_replacement=False)`: every subscript of an accepted sample lies inside the
tensor (one column per mode), for every stream of draws. -/
theorem C13_zeros_norepl_in_range {floor ceil : α → Int} {shape nzIdx : List Nat} {samples : Nat}
    {rate : α} {draws : List (List α)} {z : List (List Int)}
    (h : zerosNoReplS floor ceil shape nzIdx samples rate draws = .ok z) :
    ∀ i ∈ z, InBoundsI shape i := fun i hi => ((zerosNoReplS_ok h).2.2.2 i hi).1

/-- `zeros(..., with_replacement=False)`: the subscripts returned are TRUE zeros of the data,
when `nz_idx` contains the linear index of every stored subscript. -/
theorem C13_zeros_norepl_true_zeros {floor ceil : α → Int} {S : Sparse α} {nzIdx : List Nat}
    {samples : Nat} {rate : α} {draws : List (List α)} {z : List (List Int)}
    (hcover : ∀ i ∈ S.subs, sub2ind S.shape i ∈ nzIdx)
    (h : zerosNoReplS floor ceil S.shape nzIdx samples rate draws = .ok z) :
    ∀ i ∈ z, S.get (i.map Int.toNat) = 0 := by
  intro i hi
  apply Sparse.get_of_not_mem
  intro hin
  exact ((zerosNoReplS_ok h).2.2.2 i hi).2.1 (hcover _ hin)

/-- `zeros(..., with_replacement=False)`: the subscripts are pairwise distinct (that is what
"without replacement" asks for), at most `samples` of them, each one a drawn row, and a request
is only accepted when the tensor has that many zeros. -/
theorem C13_zeros_norepl_distinct {floor ceil : α → Int} {shape nzIdx : List Nat} {samples : Nat}
    {rate : α} {draws : List (List α)} {z : List (List Int)}
    (h : zerosNoReplS floor ceil shape nzIdx samples rate draws = .ok z) :
    z.Nodup ∧ z.length ≤ samples ∧ samples ≤ numel shape - nzIdx.length ∧
    ∀ i ∈ z, i ∈ draws.map (drawRow (drawSub floor) shape) :=
  let ⟨h1, h2, h3, h4⟩ := zerosNoReplS_ok h
  ⟨h3, h1, h2, fun i hi => (h4 i hi).2.2⟩

/-- The branch without replacement answers every admissible request: rate ≥ 1.1, no more
samples than zeros, `ceil(samples·size/zeros) < size`, no empty mode, draws in `[0,1)`. -/
theorem C13_zeros_norepl_accepts {floor ceil : α → Int} (hf : FloorOk floor) {shape nzIdx : List Nat}
    {samples : Nat} {rate : α} {draws : List (List α)}
    (hrate : ¬ rate < ((11 : Nat) : α) / ((10 : Nat) : α))
    (hs : samples ≤ numel shape - nzIdx.length) (hz : nzIdx.length < numel shape)
    (hnt : ceil (((samples * numel shape : Nat) : α) / ((numel shape - nzIdx.length : Nat) : α))
      < (numel shape : Int))
    (hpos : ∀ s ∈ shape, 0 < s) (hrows : ∀ row ∈ draws, RowOk shape row) :
    ∃ z, zerosNoReplS floor ceil shape nzIdx samples rate draws = .ok z :=
  zerosNoReplS_accepts hf hrate hs hz hnt hpos hrows

/-- Non-vacuity: shape (3,2) with the cell (1,0) stored; five draws with a duplicate, a
nonzero and unsorted rows give three distinct sorted zeros. -/
example : zerosNoReplS Rat.floor Rat.ceil [3, 2] [1] 3 (11 / 10)
    [[3 / 4, 1 / 2], [1 / 3, 0], [0, 3 / 4], [3 / 4, 1 / 2], [0, 0]]
    = .ok [[0, 0], [0, 1], [2, 1]] := by decide +kernel

/-- More samples than zeros are refused. -/
example : zerosNoReplS Rat.floor Rat.ceil [2, 2] [0, 1, 2] 2 (11 / 10) [[0, 0]] = .error .reject := by
  decide +kernel

end norepl

/-! ### which data a loss accepts -/

namespace GcpSetup
variable {α : Type}

/-- The data check `setup` applies for an objective (`none`: no check). -/
def Objective.check [Zero α] [One α] [IntCast α] [LT α] [DecidableLT α] [LE α] [DecidableLE α]
    [DecidableEq α] (floor : α → Int) : Objective → Option (DataView α → Bool)
  | .gaussian | .huber => none
  | .bernoulliOdds | .bernoulliLogit => some validBinary
  | .poisson | .poissonLog => some (validNatural floor)
  | .rayleigh | .gamma | .negativeBinomial | .beta => some validNonneg

/-- Objectives that need the additional parameter. -/
def Objective.needsParam : Objective → Bool
  | .huber | .negativeBinomial | .beta => true
  | _ => false

/-- The lower bound of an objective (`none` = `-inf`). -/
def Objective.lowerBound [Zero α] : Objective → Option α
  | .bernoulliOdds | .poisson | .rayleigh | .gamma | .negativeBinomial | .beta => some 0
  | _ => none

end GcpSetup

section setup
variable {α : Type} [Field α] [LinearOrder α] [IsStrictOrderedRing α]

/-- `setup` as a table: a request is refused exactly when data are given that fail the check
of the objective, or the objective needs the additional parameter and none is given; an
accepted request returns the lower bound of the objective. -/
theorem C13_setup_table (floor : α → Int) (obj : Objective) (data : Option (DataView α))
    (param : Option α) :
    setupS floor obj data param =
      if (match obj.check floor, data with
          | some valid, some d => !valid d
          | _, _ => false) || (obj.needsParam && param.isNone)
      then .error .reject else .ok obj.lowerBound := by
  cases obj <;> cases data <;> cases param <;>
    simp [setupS, refused, Objective.check, Objective.needsParam, Objective.lowerBound]

/-- Binary data, dense: accepted exactly when every entry is 0 or 1. -/
theorem C13_setup_binary_dense (T : Dense α) :
    validBinary (ofDense T) = true ↔ ∀ v ∈ T.data, v = 0 ∨ v = 1 := by
  simp [validBinary, ofDense]

/-- Binary data, sparse (distinct stored subscripts, no stored zero): accepted exactly when
every ENTRY of the tensor (stored or not) is 0 or 1 — the same data are accepted in both
representations. -/
theorem C13_setup_binary_sparse (S : Sparse α) (hn : S.subs.Nodup)
    (hlen : S.subs.length = S.vals.length) (hnz : ∀ v ∈ S.vals, v ≠ 0) :
    validBinary (ofSparse S) = true ↔ ∀ i, S.get i = 0 ∨ S.get i = 1 := by
  rw [sparse_forall_get_iff S hn hlen (fun v => v = 0 ∨ v = 1) (Or.inl rfl)]
  simp only [validBinary, ofSparse, if_true, List.all_eq_true, decide_eq_true_eq]
  constructor
  · exact fun h v hv => Or.inr (h v hv)
  · intro h v hv
    rcases h v hv with h0 | h1
    · exact absurd h0 (hnz v hv)
    · exact h1

/-- Count data, dense: accepted exactly when every entry is a natural number (an integer that
is not negative). -/
theorem C13_setup_natural_dense {floor : α → Int} (hf : FloorOk floor) (T : Dense α) :
    validNatural floor (ofDense T) = true ↔ ∀ v ∈ T.data, ∃ n : Nat, v = (n : α) := by
  simp only [validNatural, ofDense, Bool.and_eq_true, List.all_eq_true, decide_eq_true_eq]
  constructor
  · rintro ⟨h1, h2⟩ v hv
    have hz : ((floor v : Int) : α) = v := h1 v hv
    have hv0 : (0 : α) ≤ v := h2 v hv
    have h0 : (0 : α) ≤ ((floor v : Int) : α) := by rw [hz]; exact hv0
    have h0' : (0 : Int) ≤ floor v := by exact_mod_cast h0
    have hn : (((floor v).toNat : Nat) : Int) = floor v := Int.toNat_of_nonneg h0'
    refine ⟨(floor v).toNat, ?_⟩
    calc v = ((floor v : Int) : α) := hz.symm
      _ = ((((floor v).toNat : Nat) : Int) : α) := by rw [hn]
      _ = (((floor v).toNat : Nat) : α) := Int.cast_natCast _
  · intro h
    constructor
    · intro v hv
      obtain ⟨n, rfl⟩ := h v hv
      obtain ⟨h1, h2⟩ := hf ((n : Int) : α)
      have h1' : floor ((n : Int) : α) ≤ (n : Int) := by exact_mod_cast h1
      have h2' : (n : Int) < floor ((n : Int) : α) + 1 := by exact_mod_cast h2
      have : floor ((n : Int) : α) = (n : Int) := by omega
      have hc : ((n : Int) : α) = (n : α) := by push_cast; rfl
      rw [← hc, this]
    · intro v hv
      obtain ⟨n, rfl⟩ := h v hv
      exact Nat.cast_nonneg n

/-- Count data, sparse (distinct stored subscripts): accepted exactly when every ENTRY of the
tensor is a natural number — the same data are accepted in both representations. -/
theorem C13_setup_natural_sparse {floor : α → Int} (hf : FloorOk floor) (S : Sparse α)
    (hn : S.subs.Nodup) (hlen : S.subs.length = S.vals.length) :
    validNatural floor (ofSparse S) = true ↔ ∀ i, ∃ n : Nat, S.get i = (n : α) := by
  rw [sparse_forall_get_iff S hn hlen (fun v => ∃ n : Nat, v = (n : α)) ⟨0, by simp⟩]
  exact C13_setup_natural_dense hf ⟨S.shape, S.vals⟩

/-- Non-negative data, sparse (distinct stored subscripts, no stored zero): accepted exactly
when every ENTRY of the tensor is ≥ 0. -/
theorem C13_setup_nonneg_sparse (S : Sparse α) (hn : S.subs.Nodup)
    (hlen : S.subs.length = S.vals.length) (hnz : ∀ v ∈ S.vals, v ≠ 0) :
    validNonneg (ofSparse S) = true ↔ ∀ i, 0 ≤ S.get i := by
  rw [sparse_forall_get_iff S hn hlen (fun v => 0 ≤ v) le_rfl]
  simp only [validNonneg, ofSparse, if_true, List.all_eq_true, decide_eq_true_eq]
  constructor
  · exact fun h v hv => (h v hv).le
  · exact fun h v hv => lt_of_le_of_ne (h v hv) (Ne.symm (hnz v hv))

/-- Non-negative data, dense: accepted exactly when every entry is ≥ 0 — with
`C13_setup_nonneg_sparse`, the same data are accepted in both representations. -/
theorem C13_setup_nonneg_dense (T : Dense α) :
    validNonneg (ofDense T) = true ↔ ∀ v ∈ T.data, 0 ≤ v := by
  simp [validNonneg, ofDense]

end setup

/-- The test before 083ca8e (`data.data > 0`, explicit copy): the non-negative dense tensor
`[[0, 2], [1/2, 1]]` was refused; the code now accepts it, as it accepts its sparse form. -/
theorem C13_setup_nonneg_dense_zero_pinned_counterexample :
    validNonnegPinned (ofDense (⟨[2, 2], [0, 1 / 2, 2, 1]⟩ : Dense Rat)) = false ∧
    setupS Rat.floor .rayleigh (some (ofDense (⟨[2, 2], [0, 1 / 2, 2, 1]⟩ : Dense Rat))) none
      = .ok (some 0) ∧
    setupS Rat.floor .rayleigh
      (some (ofSparse (⟨[2, 2], [[1, 0], [0, 1], [1, 1]], [1 / 2, 2, 1]⟩ : Sparse Rat))) none
      = .ok (some 0) := by decide +kernel

/-- The test before 18649ab (`vals % 1 == 0` only, explicit copy): a tensor with the entry −1
passed as a count tensor; the code now refuses it for POISSON. -/
theorem C13_setup_natural_negative_pinned_counterexample :
    validNaturalPinned Rat.floor (ofDense (⟨[2, 2], [-1, 0, 2, 1]⟩ : Dense Rat)) = true ∧
    setupS Rat.floor .poisson (some (ofDense (⟨[2, 2], [-1, 0, 2, 1]⟩ : Dense Rat))) none
      = .error .reject := by decide +kernel

/-- Non-vacuity: admissible and inadmissible requests of every kind. -/
example : setupS Rat.floor .bernoulliOdds (some (ofDense (⟨[2, 2], [0, 1, 1, 0]⟩ : Dense Rat))) none
    = .ok (some 0) := by decide +kernel
example : setupS Rat.floor .bernoulliLogit (some (ofDense (⟨[2, 2], [0, 2, 1, 0]⟩ : Dense Rat))) none
    = .error .reject := by decide +kernel
example : setupS Rat.floor .poissonLog
    (some (ofSparse (⟨[2, 2], [[1, 0], [0, 1]], [3, 1 / 2]⟩ : Sparse Rat))) none = .error .reject := by
  decide +kernel
example : setupS Rat.floor .beta (some (ofDense (⟨[2], [1, 2]⟩ : Dense Rat))) none = .error .reject ∧
    setupS Rat.floor .beta (some (ofDense (⟨[2], [1, 2]⟩ : Dense Rat))) (some 3) = .ok (some 0) := by
  decide +kernel

end Pyttb
