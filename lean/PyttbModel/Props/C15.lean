/-
C15 — symmetrisation averages over mode permutations and the symmetry test is exact.
Only property theorems and non-vacuity examples live here; proofs are in
Lemmas/Sym{Perms,Spec,Dense,Old,New,Kruskal,KruskalValue,KruskalNormal}.lean.  Model: Ops/Symmetrize.lean,
Ops/SymmetrizeKruskal.lean (tensor.py /
ktensor.py after the fixes dce0022, ea31d59, adf6713); specification: Spec/Symmetric.lean.

Throughout: `T.WF` (as many values as cells), `ValidGroups n grps` (every group a duplicate-free
list of modes `< n`, groups pairwise disjoint), `SizesOK s grps` (the modes of a group have one
extent).  These are exactly the inputs `symmetrize` accepts (`C15_symmetrize_accepts_iff`): both
routines first refuse groups that list a mode twice or a mode that does not exist (modes are naturals
in the model; the driver refuses a negative entry the same way), `symmetrize` then refuses unequal
extents and overlapping groups.  The class-based version (`version=None`) additionally refuses an
empty group, so its theorems ask for non-empty groups.  Scalars: any linearly ordered field (ℚ, ℝ); averages are exact.
-/
import PyttbModel.Lemmas.SymOld
import PyttbModel.Lemmas.SymNew
import PyttbModel.Lemmas.SymKruskal
import PyttbModel.Lemmas.SymKruskalValue
import PyttbModel.Lemmas.SymKruskalNormal
namespace Pyttb
open Sym

variable {α : Type}

/-! ### symmetrize -/

/-- `grps=None` means the single group of all modes. -/
theorem C15_symmetrize_default_groups [Field α] [LinearOrder α] (T : Dense α) (v : Bool) :
    Sym.symmetrize T none v = Sym.symmetrize T (some [List.range T.shape.length]) v := rfl

/-- Both versions (`v = false`: class exemplars, sums and counts; `v = true`: sum over all
permutations, one division, maximum fix-up) return the average of the permuted tensors over all
mode orders that permute inside the groups – one group or several, all modes or a proper subset. -/
theorem C15_symmetrize_eq_spec [Field α] [LinearOrder α] [IsStrictOrderedRing α] (T : Dense α) (hT : T.WF)
    (grps : List (List Nat)) (V : ValidGroups T.shape.length grps) (hs : SizesOK T.shape grps)
    (v : Bool) (hne : v = false → ∀ g ∈ grps, g ≠ []) :
    Sym.symmetrize T (some grps) v = .ok (symSpec T grps) := by
  rw [symmetrize_of_check T grps v V.groupsCheck]
  cases v with
  | true => exact symmetrizeOld_eq_spec T hT V hs
  | false => exact symmetrizeNewGo_eq_spec grps T hT V hs (hne rfl)

/-- The result is invariant under every permutation of the modes inside the groups, and every
variant of the symmetry test (either version, with or without details) says so. -/
theorem C15_symmetrize_is_sym [Field α] [LinearOrder α] [IsStrictOrderedRing α] (T : Dense α) (hT : T.WF)
    (grps : List (List Nat)) (V : ValidGroups T.shape.length grps) (hs : SizesOK T.shape grps)
    (hne : ∀ g ∈ grps, g ≠ []) (v : Bool) :
    ∃ R, Sym.symmetrize T (some grps) v = .ok R ∧ R.WF ∧ R.shape = T.shape ∧ IsSym R grps ∧
      ∀ v' d', ∃ out, Sym.issymmetric R (some grps) v' d' = .ok out ∧ out.answer = true := by
  refine ⟨symSpec T grps, C15_symmetrize_eq_spec T hT grps V hs v (fun _ => hne), symSpec_WF T grps, rfl,
    symSpec_isSym T V hs, ?_⟩
  intro v' d'
  have hsym := symSpec_isSym T V hs
  have hwf := symSpec_WF T grps
  by_cases hnew : (!v' && !d') = true
  · obtain ⟨b, hb1, hb2⟩ := issymmetricNewGo_spec (symSpec T grps) hwf grps (by simpa using V)
      (by simpa using hs) hne
    exact ⟨.plain b, issymmetric_new_of_check (symSpec T grps) grps v' d' V.groupsCheck hnew hb1, hb2.2 hsym⟩
  · obtain ⟨b, diffs, perms, h1, h2, _⟩ := issymmetricOld_spec (symSpec T grps) hwf
      (grps := grps) (by simpa using V) (by simpa using hs) d'
    refine ⟨if d' = true then .details b diffs perms else .plain b, ?_, ?_⟩
    · rw [issymmetric_old_of_check (symSpec T grps) grps v' d' V.groupsCheck hnew]; exact h1
    · cases d' <;> exact h2.2 hsym

/-- Symmetrising the result again (with either version) changes nothing. -/
theorem C15_symmetrize_idem [Field α] [LinearOrder α] [IsStrictOrderedRing α] (T : Dense α) (hT : T.WF)
    (grps : List (List Nat)) (V : ValidGroups T.shape.length grps) (hs : SizesOK T.shape grps)
    (hne : ∀ g ∈ grps, g ≠ []) (v v' : Bool) :
    ∃ R, Sym.symmetrize T (some grps) v = .ok R ∧ Sym.symmetrize R (some grps) v' = .ok R := by
  refine ⟨symSpec T grps, C15_symmetrize_eq_spec T hT grps V hs v (fun _ => hne), ?_⟩
  rw [C15_symmetrize_eq_spec (symSpec T grps) (symSpec_WF T grps) grps (by simpa using V) (by simpa using hs)
    v' (fun _ => hne), symSpec_idem T V hs]

/-- A tensor that is already invariant under the permutations inside the groups is returned unchanged. -/
theorem C15_symmetrize_fixes_sym [Field α] [LinearOrder α] [IsStrictOrderedRing α] (T : Dense α) (hT : T.WF)
    (grps : List (List Nat)) (V : ValidGroups T.shape.length grps) (hne : ∀ g ∈ grps, g ≠ [])
    (hsym : IsSym T grps) (v : Bool) : Sym.symmetrize T (some grps) v = .ok T := by
  have hs : SizesOK T.shape grps := hsym.sizesOK V.inRangeAll
  rw [C15_symmetrize_eq_spec T hT grps V hs v (fun _ => hne), symSpec_fixes T hT hs hsym]

/-- The two versions compute the same tensor. -/
theorem C15_versions_agree [Field α] [LinearOrder α] [IsStrictOrderedRing α] (T : Dense α) (hT : T.WF)
    (grps : List (List Nat)) (V : ValidGroups T.shape.length grps) (hs : SizesOK T.shape grps)
    (hne : ∀ g ∈ grps, g ≠ []) :
    Sym.symmetrize T (some grps) false = Sym.symmetrize T (some grps) true := by
  rw [C15_symmetrize_eq_spec T hT grps V hs false (fun _ => hne),
    C15_symmetrize_eq_spec T hT grps V hs true (fun _ => hne)]

/-- A mode listed twice in a group, a mode that does not exist, modes of different extents in one
group, or two groups sharing a mode: both versions refuse. -/
theorem C15_symmetrize_rejects [Field α] [LinearOrder α] (T : Dense α) (grps : List (List Nat))
    (h : ¬ (ValidGroups T.shape.length grps ∧ SizesOK T.shape grps)) (v : Bool) :
    Sym.symmetrize T (some grps) v = .error .reject := by
  by_cases hc : groupsCheck T.shape.length grps = true
  · have hv := (groupsCheck_iff _ _).1 hc
    have h' : ¬ (InRangeAll T.shape.length grps ∧ SizesOK T.shape grps ∧ NoOverlap grps) := by
      rintro ⟨_, h2, h3⟩
      exact h ⟨⟨hv, h3⟩, h2⟩
    rw [symmetrize_of_check T grps v hc]
    cases v with
    | true => exact symmetrizeOld_rejects T grps h'
    | false =>
      apply symmetrizeNewGo_rejects
      rw [acceptedNew_iff]
      intro h''
      exact h' h''.2
  · exact symmetrize_reject_of_check T grps v (by simpa using hc)

/-- The class-based version refuses a list of groups that contains an empty group. -/
theorem C15_symmetrize_rejects_empty_group [Field α] [LinearOrder α] (T : Dense α) (grps : List (List Nat))
    (h : [] ∈ grps) : Sym.symmetrize T (some grps) false = .error .reject := by
  by_cases hc : groupsCheck T.shape.length grps = true
  · rw [symmetrize_of_check T grps false hc]
    apply symmetrizeNewGo_rejects
    rw [acceptedNew_iff]
    intro h'
    exact h'.1 [] h rfl
  · exact symmetrize_reject_of_check T grps false (by simpa using hc)

/-- The hypotheses of the theorems above are exactly the accepted inputs: `symmetrize` returns a
tensor iff the groups are duplicate-free lists of existing modes, pairwise disjoint, with one
extent per group (and, for the class-based version, none of them empty). -/
theorem C15_symmetrize_accepts_iff [Field α] [LinearOrder α] [IsStrictOrderedRing α] (T : Dense α)
    (hT : T.WF) (grps : List (List Nat)) (v : Bool) :
    (∃ R, Sym.symmetrize T (some grps) v = .ok R) ↔
      (ValidGroups T.shape.length grps ∧ SizesOK T.shape grps ∧ (v = false → ∀ g ∈ grps, g ≠ [])) := by
  constructor
  · rintro ⟨R, hR⟩
    by_cases h : ValidGroups T.shape.length grps ∧ SizesOK T.shape grps
    · refine ⟨h.1, h.2, ?_⟩
      intro hv g hg hge
      subst hv; subst hge
      rw [C15_symmetrize_rejects_empty_group T grps hg] at hR
      cases hR
    · rw [C15_symmetrize_rejects T grps h v] at hR
      cases hR
  · rintro ⟨V, hs, hne⟩
    exact ⟨_, C15_symmetrize_eq_spec T hT grps V hs v hne⟩

/-! ### issymmetric -/

/-- Either version, with or without details, answers `True` exactly when the tensor is invariant
under every permutation of the modes inside the groups (in particular `False` as soon as a group
has modes of different extents). -/
theorem C15_issymmetric_iff [Field α] [LinearOrder α] [IsStrictOrderedRing α] (T : Dense α) (hT : T.WF)
    (grps : List (List Nat)) (V : ValidGroups T.shape.length grps) (hne : ∀ g ∈ grps, g ≠ [])
    (v d : Bool) :
    ∃ out, Sym.issymmetric T (some grps) v d = .ok out ∧ (out.answer = true ↔ IsSym T grps) := by
  by_cases hs : SizesOK T.shape grps
  · by_cases hnew : (!v && !d) = true
    · obtain ⟨b, hb1, hb2⟩ := issymmetricNewGo_spec T hT grps V hs hne
      exact ⟨.plain b, issymmetric_new_of_check T grps v d V.groupsCheck hnew hb1, hb2⟩
    · obtain ⟨b, diffs, perms, h1, h2, _⟩ := issymmetricOld_spec T hT V hs d
      refine ⟨if d = true then .details b diffs perms else .plain b, ?_, ?_⟩
      · rw [issymmetric_old_of_check T grps v d V.groupsCheck hnew]; exact h1
      · cases d <;> exact h2
  · have hnot : ¬ IsSym T grps := fun h => hs (h.sizesOK V.inRangeAll)
    by_cases hnew : (!v && !d) = true
    · exact ⟨.plain false, issymmetric_new_of_check T grps v d V.groupsCheck hnew
        (issymmetricNewGo_unequal T grps V.inRangeAll hne hs), by simp [TestOut.answer, hnot]⟩
    · refine ⟨.plain false, ?_, by simp [TestOut.answer, hnot]⟩
      rw [issymmetric_old_of_check T grps v d V.groupsCheck hnew]
      exact issymmetricOld_unequal T V.inRangeAll hs d

/-- `grps=None` tests the single group of all modes. -/
theorem C15_issymmetric_default_groups [Field α] [LinearOrder α] (T : Dense α) (v d : Bool) :
    Sym.issymmetric T none v d = Sym.issymmetric T (some [List.range T.shape.length]) v d := rfl

/-- The detail outputs of the permutation-based test: the listed orders are, group after group,
the identity order with each permutation of the group (in `itertools.permutations` order) written
into the group's positions, there is one difference per listed order, and a difference is zero
exactly when that order leaves the tensor unchanged. -/
theorem C15_issymmetric_details [Field α] [LinearOrder α] [IsStrictOrderedRing α] (T : Dense α) (hT : T.WF)
    (grps : List (List Nat)) (V : ValidGroups T.shape.length grps) (hs : SizesOK T.shape grps) (v : Bool) :
    ∃ (b : Bool) (diffs : List α) (perms : List (List Nat)),
      Sym.issymmetric T (some grps) v true = .ok (.details b diffs perms) ∧
      (b = true ↔ IsSym T grps) ∧
      perms = (grps.flatMap fun g => (permsLex g).map fun c => scatter (List.range T.shape.length) g c) ∧
      diffs.length = perms.length ∧
      ∀ k (h1 : k < diffs.length) (h2 : k < perms.length), (diffs[k] = 0 ↔ T.transpose perms[k] = T) := by
  obtain ⟨b, diffs, perms, h1, h2⟩ := issymmetricOld_spec T hT V hs true
  refine ⟨b, diffs, perms, ?_, h2⟩
  rw [issymmetric_old_of_check T grps v true V.groupsCheck (by simp)]
  exact h1

/-- Groups (of distinct existing modes, none empty) with modes of different extents: every variant
answers a bare `False`. -/
theorem C15_issymmetric_unequal_sizes [Field α] [LinearOrder α] (T : Dense α) (grps : List (List Nat))
    (hv : ∀ g ∈ grps, g.Nodup ∧ ∀ m ∈ g, m < T.shape.length) (hne : ∀ g ∈ grps, g ≠ [])
    (hs : ¬ SizesOK T.shape grps) (v d : Bool) :
    Sym.issymmetric T (some grps) v d = .ok (.plain false) := by
  have hc := (groupsCheck_iff _ _).2 hv
  have hr : InRangeAll T.shape.length grps := fun g hg => (hv g hg).2
  by_cases hnew : (!v && !d) = true
  · exact issymmetric_new_of_check T grps v d hc hnew (issymmetricNewGo_unequal T grps hr hne hs)
  · rw [issymmetric_old_of_check T grps v d hc hnew]
    exact issymmetricOld_unequal T hr hs d

/-- A mode listed twice in a group or a mode that does not exist: every variant of the symmetry
test refuses (before looking at the data). -/
theorem C15_issymmetric_rejects [Field α] [LinearOrder α] (T : Dense α) (grps : List (List Nat))
    (h : ¬ ∀ g ∈ grps, g.Nodup ∧ ∀ m ∈ g, m < T.shape.length) (v d : Bool) :
    Sym.issymmetric T (some grps) v d = .error .reject := by
  apply issymmetric_reject_of_check
  cases hc : groupsCheck T.shape.length grps with
  | false => rfl
  | true => exact absurd ((groupsCheck_iff _ _).1 hc) h

/-- "invariant under every permutation inside the groups" can be checked group by group, and it is
the same as being one's own transpose under every such mode order. -/
theorem C15_isSym_characterisations [Field α] (T : Dense α) (hT : T.WF) (grps : List (List Nat))
    (V : ValidGroups T.shape.length grps) (hs : SizesOK T.shape grps) :
    (IsSym T grps ↔ ∀ g ∈ grps, IsSym T [g]) ∧
    (IsSym T grps ↔ ∀ p, GroupPerm grps T.shape.length p → T.transpose p = T) :=
  ⟨isSym_iff_forall T V hs, isSym_iff_transpose T hT grps⟩

/-- The orders the specification averages over: `groupPerms` lists every permutation of the modes
that moves modes only inside their group, each exactly once; for disjoint groups they are closed
under composition and inversion and contain the identity. -/
theorem C15_groupPerms_spec (n : Nat) (grps : List (List Nat)) (V : ValidGroups n grps) :
    (groupPerms n grps).Nodup ∧ (∀ p, p ∈ groupPerms n grps ↔ GroupPerm grps n p) ∧
    GroupPerm grps n (List.range n) ∧
    (∀ p q, GroupPerm grps n p → GroupPerm grps n q → GroupPerm grps n (gather p q)) ∧
    (∀ p, GroupPerm grps n p → GroupPerm grps n (invPerm p)) :=
  ⟨nodup_groupPerms grps n, fun _ => mem_groupPerms, groupPerm_range grps n,
    fun _ _ hp hq => hp.comp V hq, fun _ hp => hp.inv⟩

/-- Before the fix dce0022 the class-based routines compared first-index-fastest class indices
with a last-index-fastest `data.ravel()`: this tensor is symmetric in modes 0 and 1, the repaired
comparison accepts it, the pinned comparison does not. -/
theorem C15_class_index_order_pinned_counterexample :
    classCheck (⟨[2, 2, 2], [0, 3, 3, 6, 8, 11, 11, 14]⟩ : Dense Int) [0, 1] = true ∧
    classCheckPinned (⟨[2, 2, 2], [0, 3, 3, 6, 8, 11, 11, 14]⟩ : Dense Int) [0, 1] = false := by
  decide

/-! ### Kruskal tensors -/

/-- `ktensor.symmetrize` (for any behaviour of the normalisation service) returns one factor
matrix repeated for every mode, so the tensor it denotes is invariant under every permutation of
all its modes. -/
theorem C15_kruskal_sym [Field α] [LinearOrder α] (norm : Ktensor α → Ktensor α) (K R : Ktensor α)
    (h : ksymmetrize norm K = .ok R) :
    ∃ V, R.factors = List.replicate (norm K).factors.length V ∧
      SymAllModes (norm K).factors.length R.get := by
  have hR := ksymmetrize_eq norm K R h
  obtain ⟨V, hV⟩ := ksymmetrizeCore_factors (norm K)
  rw [← hR] at hV
  exact ⟨V, hV, kget_symmetric R V _ hV⟩

/-- … and it passes `ktensor.issymmetric`. -/
theorem C15_kruskal_passes_test [Field α] [LinearOrder α] (norm : Ktensor α → Ktensor α) (K R : Ktensor α)
    (h : ksymmetrize norm K = .ok R) : (kissymmetric R).1 = true := by
  obtain ⟨V, hV, _⟩ := C15_kruskal_sym norm K R h
  exact kissymmetric_of_replicate R V _ hV

/-- `ktensor.issymmetric` answers whether all factor matrices are equal; when it says yes the
denoted tensor is invariant under every permutation of its modes. -/
theorem C15_kruskal_issymmetric_iff [Field α] [LinearOrder α] [IsStrictOrderedRing α] (K : Ktensor α)
    (hK : K.WF) :
    ((kissymmetric K).1 = true ↔ ∀ i, i < K.factors.length → ∀ j, j < K.factors.length →
      K.factors.getD i [] = K.factors.getD j []) ∧
    ((kissymmetric K).1 = true → SymAllModes K.factors.length K.get) := by
  refine ⟨kissymmetric_iff K hK, ?_⟩
  intro h
  have heq := (kissymmetric_iff K hK).1 h
  apply kget_symmetric K (K.factors.getD 0 []) K.factors.length
  apply List.ext_getElem (by simp)
  intro k h1 h2
  have := heq k h1 0 (by omega)
  simp only [List.getElem_replicate]
  rw [← this, List.getD_eq_getElem?_getD, List.getElem?_eq_getElem h1]
  rfl

/-- `ktensor.symmetrize` accepts exactly the cubic tensors (at least one mode, all extents equal). -/
theorem C15_kruskal_rejects [Field α] [LinearOrder α] (norm : Ktensor α → Ktensor α) (K : Ktensor α) :
    (∃ R, ksymmetrize norm K = .ok R) ↔ (K.shape ≠ [] ∧ ∀ e ∈ K.shape, e = K.shape.headD 0) :=
  ksymmetrize_ok_iff norm K

/-! ### Kruskal tensors: an already symmetric tensor keeps its value, symmetrising again changes nothing

`ktensor.symmetrize` first normalises a copy (`normalize("all")`: unit columns, the N-th root of the weight
absorbed into every factor, weights 1) and then works on that copy `Kn = norm K`.  `kaligned Kn` (decidable,
Ops/SymmetrizeKruskal.lean) says: order >= 1, all factors have the same number of rows and one entry per
component in every row, and column `j` of every factor is column `j` of the first factor or its negation —
the copy is symmetric component by component.  The array of a Kruskal tensor is `K.get i = Σ_r λ_r ∏ₙ Aₙ[iₙ,r]`. -/

/-- **An already symmetric Kruskal tensor keeps its value.**  If the normalised copy passes `kaligned`, the
tensor returned by `ktensor.symmetrize` denotes the array the copy denotes — for every order N >= 1 of either
parity (the odd-order repair of negative weights included), every rank, weights of either sign or zero, zero
columns, factors without rows; `norm` is any behaviour of the normalisation service. -/
theorem C15_kruskal_keeps_value [Field α] [LinearOrder α] [IsStrictOrderedRing α]
    (norm : Ktensor α → Ktensor α) (K R : Ktensor α) (h : ksymmetrize norm K = .ok R)
    (ha : kaligned (norm K) = true) (i : List Nat) (hi : i.length = (norm K).factors.length) :
    R.get i = (norm K).get i := by
  rw [ksymmetrize_eq norm K R h]
  exact ksymmetrizeCore_get_of_aligned (norm K) ha i hi

/-- … hence the array of the input itself, as soon as the normalisation keeps order and array (what
`normalize` promises, `C08_normalize_denote`). -/
theorem C15_kruskal_keeps_value_input [Field α] [LinearOrder α] [IsStrictOrderedRing α]
    (norm : Ktensor α → Ktensor α) (K R : Ktensor α) (h : ksymmetrize norm K = .ok R)
    (ha : kaligned (norm K) = true) (hl : (norm K).factors.length = K.factors.length)
    (hn : ∀ i : List Nat, i.length = K.factors.length → (norm K).get i = K.get i)
    (i : List Nat) (hi : i.length = K.factors.length) : R.get i = K.get i := by
  rw [C15_kruskal_keeps_value norm K R h ha i (by rw [hl]; exact hi)]
  exact hn i hi

/-- … and what is stored: when the copy is `⟨w, A0 :: rest⟩` with at least one row per factor, every
factor of the result is `A0` — with the columns of the components whose weight came out negative negated
when the order is odd — and weight `j` is `w j` times the signs `ksgn A0 A j` (`-1` when column `j` of `A`
points against column `j` of `A0`, else `1`) of the other factors, negated again by the odd-order repair. -/
theorem C15_kruskal_keeps_value_stored [Field α] [LinearOrder α] [IsStrictOrderedRing α]
    (norm : Ktensor α → Ktensor α) (K R : Ktensor α) (h : ksymmetrize norm K = .ok R)
    (ha : kaligned (norm K) = true) (A0 : Mat α) (rest : List (Mat α))
    (hf : (norm K).factors = A0 :: rest) (hne : A0 ≠ []) :
    R = ⟨flipVec (oddNeg (rest.length + 1) (loopWeights A0 rest (norm K).weights))
            (loopWeights A0 rest (norm K).weights),
         List.replicate (rest.length + 1)
           (flipCols (oddNeg (rest.length + 1) (loopWeights A0 rest (norm K).weights)) A0)⟩ ∧
    (loopWeights A0 rest (norm K).weights).length = (norm K).weights.length ∧
    ∀ j, j < (norm K).weights.length → (loopWeights A0 rest (norm K).weights).getD j 0
      = (rest.map fun A => ksgn A0 A j).prod * (norm K).weights.getD j 0 := by
  obtain ⟨A0', rest', hf', hal⟩ := kaligned_spec (norm K) ha
  rw [hf] at hf'
  injection hf' with e1 e2
  subst e1 e2
  have hK : norm K = ⟨(norm K).weights, A0 :: rest⟩ := by
    cases hn : norm K with
    | mk w fs => rw [hn] at hf; simp only at hf; rw [hf]
  refine ⟨?_, ?_⟩
  · rw [ksymmetrize_eq norm K R h]
    conv_lhs => rw [hK]
    exact ksymmetrizeCore_aligned _ A0 rest hal hne
  · have := foldl_flipVec A0 (norm K).weights.length rest (norm K).weights rfl
    rw [← foldl_flipVec_congr A0 _ rest _ rfl, ← loopWeights_eq] at this
    exact this

/-- **From the un-normalised input.**  With the `normalize("all")` model of Ops/KruskalReparam.lean
(`normAllOf S`; `S.Lawful`: the column norm is a norm, `root N` is the N-th root on non-negative numbers):
if `K` is well-formed and column `j` of every factor is a non-zero multiple of one vector, for every
component `j` (`Parallel K`; the vector may be zero, the multiples have any signs), then the normalised copy
passes `kaligned` and `ktensor.symmetrize` returns a Kruskal tensor denoting the array of `K`. -/
theorem C15_kruskal_keeps_value_of_parallel [Field α] [LinearOrder α] [IsStrictOrderedRing α]
    {S : Services α} (hS : S.Lawful) (K R : Ktensor α) (hwf : K.WF) (hp : Parallel K)
    (h : ksymmetrize (normAllOf S) K = .ok R) :
    kaligned (normAllOf S K) = true ∧ ∀ i : List Nat, i.length = K.factors.length → R.get i = K.get i := by
  obtain ⟨hN, hc⟩ := kcubicWF_of_accepted K hwf ((ksymmetrize_ok_iff (normAllOf S) K).1 ⟨R, h⟩)
  have ha := kaligned_normAllOf hS K hN hc hp
  have hrep := normAllOf_reparam hS K hN
  refine ⟨ha, ?_⟩
  intro i hi
  rw [C15_kruskal_keeps_value (normAllOf S) K R h ha i (by rw [hrep.ndims]; exact hi)]
  exact hrep.get i hi

/-- **A Kruskal tensor that passes the symmetry test keeps its value**: if `ktensor.issymmetric` answers true
for a well-formed `K` (all factor matrices equal; weights of either sign or zero), `ktensor.symmetrize` returns
a Kruskal tensor denoting the array of `K`. -/
theorem C15_kruskal_fixes_sym [Field α] [LinearOrder α] [IsStrictOrderedRing α]
    {S : Services α} (hS : S.Lawful) (K R : Ktensor α) (hwf : K.WF) (hs : (kissymmetric K).1 = true)
    (h : ksymmetrize (normAllOf S) K = .ok R) (i : List Nat) (hi : i.length = K.factors.length) :
    R.get i = K.get i := by
  have heq := (kissymmetric_iff K hwf).1 hs
  have hrep : K.factors = List.replicate K.factors.length (K.factors.getD 0 []) := by
    apply List.ext_getElem (by simp)
    intro k h1 h2
    have := heq k h1 0 (by omega)
    simp only [List.getElem_replicate]
    rw [← this, List.getD_eq_getElem?_getD, List.getElem?_eq_getElem h1]
    rfl
  exact (C15_kruskal_keeps_value_of_parallel hS K R hwf (parallel_of_replicate K _ _ hrep) h).2 i hi

/-- **Symmetrising again changes nothing.**  For a well-formed `K` that `ktensor.symmetrize` accepts with
result `R`: `R` is accepted again, its normalised copy passes `kaligned` (all factors of `R` are one matrix),
and the second result `R2` denotes the same array as `R`.  (The stored factors of `R2` are those of the
normalised copy of `R`, see `C15_kruskal_keeps_value_stored`; they are the factors of `R` up to what
`normalize("all")` does to `R`.) -/
theorem C15_kruskal_idem [Field α] [LinearOrder α] [IsStrictOrderedRing α]
    {S : Services α} (hS : S.Lawful) (K R : Ktensor α) (hwf : K.WF)
    (h : ksymmetrize (normAllOf S) K = .ok R) :
    ∃ R2, ksymmetrize (normAllOf S) R = .ok R2 ∧ kaligned (normAllOf S R) = true ∧
      ∀ i : List Nat, i.length = K.factors.length → R2.get i = R.get i := by
  obtain ⟨hN, hc⟩ := kcubicWF_of_accepted K hwf ((ksymmetrize_ok_iff (normAllOf S) K).1 ⟨R, h⟩)
  have hrep := normAllOf_reparam hS K hN
  have hcn := kcubicWF_normAllOf hS K hN hc
  have hR := ksymmetrize_eq (normAllOf S) K R h
  obtain ⟨V, hV⟩ := ksymmetrizeCore_factors (normAllOf S K)
  rw [← hR, hrep.ndims] at hV
  have hcR : kcubicWF R = true := by rw [hR]; exact kcubicWF_ksymmetrizeCore _ hcn
  have hRwf := ((kcubicWF_iff R).1 hcR).2
  have hNR : R.factors.length = K.factors.length := by rw [hV]; simp
  have hacc : ∃ R2, ksymmetrize (normAllOf S) R = .ok R2 := by
    rw [ksymmetrize_ok_iff]
    obtain ⟨n, hn⟩ := Nat.exists_eq_succ_of_ne_zero (Nat.pos_iff_ne_zero.1 hN)
    simp only [Ktensor.shape, hV, hn, List.replicate_succ, List.map_cons, List.map_replicate]
    refine ⟨by simp, ?_⟩
    intro e he
    simp only [List.headD_cons]
    rcases List.mem_cons.1 he with rfl | he
    · rfl
    · exact (List.mem_replicate.1 he).2
  obtain ⟨R2, h2⟩ := hacc
  obtain ⟨ha, hval⟩ := C15_kruskal_keeps_value_of_parallel hS R R2 hRwf
    (parallel_of_replicate R _ V hV) h2
  exact ⟨R2, h2, ha, fun i hi => hval i (by rw [hNR]; exact hi)⟩

/-- **The array of the result is invariant under every permutation of the modes** (all factors are one
matrix): `R.get (i ∘ p) = R.get i` for every permutation `p` of the modes and every subscript `i`. -/
theorem C15_kruskal_sym_array [Field α] [LinearOrder α] (norm : Ktensor α → Ktensor α) (K R : Ktensor α)
    (h : ksymmetrize norm K = .ok R) (p : List Nat) (hp : isPermOf p R.factors.length = true)
    (i : List Nat) (hi : i.length = R.factors.length) : R.get (gather i p) = R.get i := by
  obtain ⟨V, hV, hsym⟩ := C15_kruskal_sym norm K R h
  have hl : R.factors.length = (norm K).factors.length := by rw [hV]; simp
  rw [hl] at hp hi
  exact hsym p hp i hi

/-! ### the hypotheses are satisfiable, the statements are not vacuous -/

example : ValidGroups 4 [[0, 1], [2, 3]] ∧ SizesOK [2, 2, 3, 3] [[0, 1], [2, 3]] ∧
    ValidGroups 4 [[0, 2]] ∧ SizesOK [3, 2, 3, 2] [[0, 2], [1, 3]] := by
  refine ⟨⟨?_, ?_⟩, ?_, ⟨?_, ?_⟩, ?_⟩ <;> simp [SizesOK]

example : groupPerms 4 [[0, 1], [2, 3]] = [[0, 1, 2, 3], [0, 1, 3, 2], [1, 0, 2, 3], [1, 0, 3, 2]] := by decide

example : Sym.issymmetric (⟨[2, 2, 2], [0, 3, 3, 6, 8, 11, 11, 14]⟩ : Dense Int) (some [[0, 1]]) false false
    = .ok (.plain true) := by decide

/-! Kruskal: `kaligned` is satisfiable by non-trivial copies, and the routine really changes what is stored. -/

/-- order 3 (odd), a negative weight, the second factor points against the first in component 0: the loop
turns the weights into `[-2, -3]`, the odd-order repair negates both weights and all columns. -/
example : kaligned (⟨[2, -3], [[[1, 2], [-2, 1]], [[-1, 2], [2, 1]], [[1, 2], [-2, 1]]]⟩ : Ktensor ℚ) = true ∧
    ksymmetrizeCore (⟨[2, -3], [[[1, 2], [-2, 1]], [[-1, 2], [2, 1]], [[1, 2], [-2, 1]]]⟩ : Ktensor ℚ)
      = ⟨[2, 3], List.replicate 3 [[-1, -2], [2, -1]]⟩ := by decide +kernel

/-- order 4 (even), in component 0 two factors (modes 1, 2) and in component 1 two factors (modes 2, 3) point
against the first, component 2 has weight zero and zero columns: weights stay, all factors become the first. -/
example : kaligned (⟨[2, -3, 0], [[[1, 2, 0], [-2, 1, 0]], [[-1, 2, 0], [2, 1, 0]], [[-1, -2, 0], [2, -1, 0]],
      [[1, -2, 0], [-2, -1, 0]]]⟩ : Ktensor ℚ) = true ∧
    ksymmetrizeCore (⟨[2, -3, 0], [[[1, 2, 0], [-2, 1, 0]], [[-1, 2, 0], [2, 1, 0]], [[-1, -2, 0], [2, -1, 0]],
      [[1, -2, 0], [-2, -1, 0]]]⟩ : Ktensor ℚ) = ⟨[2, -3, 0], List.replicate 4 [[1, 2, 0], [-2, 1, 0]]⟩ := by
  decide +kernel

/-- order 4, one factor (an odd number) against the first in component 0: the weight changes sign. -/
example : kaligned (⟨[2, 5], [[[1, 2], [-2, 1]], [[-1, 2], [2, 1]], [[1, 2], [-2, 1]], [[1, -2], [-2, -1]]]⟩ : Ktensor ℚ)
      = true ∧
    ksymmetrizeCore (⟨[2, 5], [[[1, 2], [-2, 1]], [[-1, 2], [2, 1]], [[1, 2], [-2, 1]], [[1, -2], [-2, -1]]]⟩ : Ktensor ℚ)
      = ⟨[-2, -5], List.replicate 4 [[1, 2], [-2, 1]]⟩ := by decide +kernel

/-- The hypothesis is about the components, not only about the array: `e₁⊗e₂ + e₂⊗e₁` (unit columns, weights 1,
so it is its own normalised copy) denotes a symmetric matrix, is not `kaligned`, and `ktensor.symmetrize` turns it
into the constant matrix 1/2 — by design the routine averages the factor matrices, not the array. -/
example :
    kaligned (⟨[1, 1], [[[1, 0], [0, 1]], [[0, 1], [1, 0]]]⟩ : Ktensor ℚ) = false ∧
    (∀ i ∈ allSubs [2, 2], (⟨[1, 1], [[[1, 0], [0, 1]], [[0, 1], [1, 0]]]⟩ : Ktensor ℚ).get (gather i [1, 0])
      = (⟨[1, 1], [[[1, 0], [0, 1]], [[0, 1], [1, 0]]]⟩ : Ktensor ℚ).get i) ∧
    (⟨[1, 1], [[[1, 0], [0, 1]], [[0, 1], [1, 0]]]⟩ : Ktensor ℚ).get [0, 0] = 0 ∧
    (ksymmetrizeCore (⟨[1, 1], [[[1, 0], [0, 1]], [[0, 1], [1, 0]]]⟩ : Ktensor ℚ)).get [0, 0] = 1 / 2 := by
  decide +kernel

/-- not aligned: the second factor's column 1 is not ± the first factor's column 1. -/
example : kaligned (⟨[1, 1], [[[1, 2], [-2, 1]], [[1, 2], [-2, 3]]]⟩ : Ktensor ℚ) = false := by decide +kernel

/-- `Parallel`: column 0 of the three factors is `1, -3, 2` times `(1, -2)`, column 1 is `1, 2, -1` times `(2, 1)`. -/
example : Parallel (⟨[2, -3], [[[1, 2], [-2, 1]], [[-3, 4], [6, 2]], [[2, -2], [-4, -1]]]⟩ : Ktensor ℚ) := by
  intro j hj
  have : j = 0 ∨ j = 1 := by simp at hj; omega
  rcases this with rfl | rfl
  · refine ⟨[1, -2], ?_⟩
    intro A hA
    simp only [List.mem_cons, List.not_mem_nil, or_false] at hA
    rcases hA with rfl | rfl | rfl
    · exact ⟨1, by norm_num, by decide +kernel⟩
    · exact ⟨-3, by norm_num, by decide +kernel⟩
    · exact ⟨2, by norm_num, by decide +kernel⟩
  · refine ⟨[2, 1], ?_⟩
    intro A hA
    simp only [List.mem_cons, List.not_mem_nil, or_false] at hA
    rcases hA with rfl | rfl | rfl
    · exact ⟨1, by norm_num, by decide +kernel⟩
    · exact ⟨2, by norm_num, by decide +kernel⟩
    · exact ⟨-1, by norm_num, by decide +kernel⟩

end Pyttb
