/-
C13 — GCP solvers keep the best model, respect bounds, sample validly and are reusable.
Only property theorems and their non-vacuity examples live here.

Setting: the scalar type `α` is any linearly ordered field.  Random draws, the rounding
functions `np.floor` / `np.ceil`, `np.sqrt`, the two estimate oracles and SciPy's L-BFGS-B are
parameters; what is assumed about them is written as a hypothesis of the theorem that uses it.
-/
import PyttbModel.Lemmas.Samplers
import PyttbModel.Lemmas.Optim
import PyttbModel.Lemmas.OptimVec
import PyttbModel.Lemmas.C13Witness
import PyttbModel.Props.C13Setup
import Mathlib.Data.Rat.Floor
namespace Pyttb
open Samp Opt

section samplers
variable {α : Type} [Field α] [LinearOrder α] [IsStrictOrderedRing α]

/-! ### samplers: subscripts inside the tensor -/

/-- `stratified` (the sampler `GCPSampler` binds for sparse data): every subscript of an
accepted sample lies inside the tensor — for every stream of draws, including draws of exactly
0.0 and requests above the number of available zeros / nonzeros.  The nonzero part needs the
stored subscripts of the data to be inside its shape (well-formed sparse tensor). -/
theorem C13_sample_in_range {floor ceil : α → Int} {S : Sparse α} {nzIdx : List Nat} {a b : Nat}
    {rate : α} {idx : List Nat} {draws : List (List α)} {s : Sample α}
    (hinb : ∀ i ∈ S.subs, InBounds S.shape i)
    (h : stratifiedS floor ceil S nzIdx a b rate idx draws = .ok s) :
    ∀ i ∈ s.subs, InBoundsI S.shape i := by
  obtain ⟨nsubs, nvals, z, hnz, hz, rfl⟩ := stratifiedS_ok h
  obtain ⟨_, _, hmem, _⟩ := nonzerosS_ok' hnz
  obtain ⟨_, _, hzin⟩ := zerosS_ok hz
  obtain ⟨l1, l2, _⟩ := nonzerosS_ok' hnz
  intro i hi
  rcases List.mem_append.mp hi with hi | hi
  · simp only [List.mem_map] at hi
    obtain ⟨j, hj, rfl⟩ := hi
    rw [inBoundsI_ofNat]
    obtain ⟨k, hk, rfl⟩ := List.mem_iff_getElem.mp hj
    have : (nsubs[k], nvals[k]'(by omega)) ∈ nsubs.zip nvals := by
      rw [List.mem_iff_getElem]
      exact ⟨k, by simp; omega, by simp⟩
    exact hinb _ (List.of_mem_zip (hmem _ this)).1
  · exact (hzin i hi).1

/-- `uniform` on a dense tensor: with `np.floor` honouring its contract and draws `≥ 0`
(0.0 included), every subscript of an accepted sample is inside the tensor. -/
theorem C13_sample_in_range_uniform {floor : α → Int} (hf : FloorOk floor) {T : Dense α}
    {samples : Nat} {draws : List (List α)} (hrows : ∀ row ∈ draws, ∀ u ∈ row, 0 ≤ u) {s : Sample α}
    (h : uniformS floor T samples draws = .ok s) : ∀ i ∈ s.subs, InBoundsI T.shape i :=
  (uniformS_ok hf hrows h).2.1

/-- `semistrat`: draws in `[0,1)`, no empty mode, well-formed data: all subscripts inside. -/
theorem C13_sample_in_range_semistrat {ceil : α → Int} (hc : CeilOk ceil) {S : Sparse α} {a b : Nat}
    {idx : List Nat} {draws : List (List α)} {s : Sample α}
    (hinb : ∀ i ∈ S.subs, InBounds S.shape i) (hpos : ∀ e ∈ S.shape, 0 < e)
    (hrows : ∀ row ∈ draws, RowOk S.shape row)
    (h : semistratS ceil S a b idx draws = .ok s) : ∀ i ∈ s.subs, InBoundsI S.shape i := by
  obtain ⟨nsubs, nvals, hnz, _, rfl⟩ := semistratS_ok h
  obtain ⟨l1, l2, hmem, _⟩ := nonzerosS_ok' hnz
  intro i hi
  rcases List.mem_append.mp hi with hi | hi
  · simp only [List.mem_map] at hi
    obtain ⟨j, hj, rfl⟩ := hi
    rw [inBoundsI_ofNat]
    obtain ⟨k, hk, rfl⟩ := List.mem_iff_getElem.mp hj
    have : (nsubs[k], nvals[k]'(by omega)) ∈ nsubs.zip nvals := by
      rw [List.mem_iff_getElem]
      exact ⟨k, by simp; omega, by simp⟩
    exact hinb _ (List.of_mem_zip (hmem _ this)).1
  · simp only [List.mem_map] at hi
    obtain ⟨row, hrow, rfl⟩ := hi
    exact drawRow_inBounds _ (fun u h0 h1 e he => drawSubSemi_range hc h0 h1 he) hpos (hrows row hrow)

/-- The samplers do not hide behind their error path: for every stream the generator can
produce (`[0,1)`, one number per mode), a tensor without empty modes, an admissible rate and at
least one zero cell, `zeros` and `uniform` return a sample. -/
theorem C13_sampler_accepts {floor ceil : α → Int} (hf : FloorOk floor) :
    (∀ (shape nzIdx : List Nat) (samples : Nat) (rate : α) (draws : List (List α)),
      ¬ rate < ((11 : Nat) : α) / ((10 : Nat) : α) → nzIdx.length < numel shape →
      (∀ e ∈ shape, 0 < e) → (∀ row ∈ draws, RowOk shape row) →
      ∃ z, zerosS floor ceil shape nzIdx samples rate draws = .ok z) ∧
    (∀ (T : Dense α) (samples : Nat) (draws : List (List α)),
      (∀ e ∈ T.shape, 0 < e) → (∀ row ∈ draws, RowOk T.shape row) →
      ∃ s, uniformS floor T samples draws = .ok s) :=
  ⟨fun _ _ samples _ _ hr hz hp hrows => zerosS_accepts hf samples hr hz hp hrows,
   fun T samples _ hp hrows => uniformS_accepts hf T samples hp hrows⟩

/-- `Rat.floor` / `Rat.ceil` (what the driver runs the model with) honour the contracts. -/
theorem C13_floor_ceil_contract : FloorOk (α := ℚ) Rat.floor ∧ CeilOk (α := ℚ) Rat.ceil := by
  constructor
  · intro x
    refine ⟨Rat.floor_le x, ?_⟩
    have := Rat.lt_floor_add_one x
    push_cast at this
    exact this
  · intro x
    refine ⟨?_, Rat.le_ceil⟩
    have := @Rat.ceil_lt x
    linarith

/-- The code before 1b8148d (`ceil(u·s) − 1`): a draw of exactly 0.0 gives subscript −1. -/
theorem C13_sample_in_range_counterexample :
    uniformSPinned Rat.ceil (⟨[2, 3], [0, 1, 2, 3, 4, 5]⟩ : Dense Rat) 1 [[0, 0]]
      = .ok ⟨[[-1, -1]], [5], [6]⟩ := by decide +kernel

/-! ### samplers: values are the data at the subscripts -/

/-- `stratified`: every value of an accepted sample is the entry of the data tensor at its
subscript — stored entries in the nonzero part, and the subscripts reported as zeros are true
zeros.  Needs distinct stored subscripts inside the shape and `nz_idx` to contain the linear
index of every stored subscript (what `GCPSampler` passes). -/
theorem C13_sample_values {floor ceil : α → Int} {S : Sparse α} {nzIdx : List Nat} {a b : Nat}
    {rate : α} {idx : List Nat} {draws : List (List α)} {s : Sample α}
    (hnd : S.subs.Nodup) (hcover : ∀ i ∈ S.subs, sub2ind S.shape i ∈ nzIdx)
    (h : stratifiedS floor ceil S nzIdx a b rate idx draws = .ok s) :
    ∀ p ∈ s.subs.zip s.vals, S.get (p.1.map Int.toNat) = p.2 := by
  obtain ⟨nsubs, nvals, z, hnz, hz, rfl⟩ := stratifiedS_ok h
  obtain ⟨l1, l2, hmem, _⟩ := nonzerosS_ok' hnz
  obtain ⟨_, _, hzin⟩ := zerosS_ok hz
  intro p hp
  simp only at hp
  rw [List.zip_append (by simp [l1, l2])] at hp
  rcases List.mem_append.mp hp with hp | hp
  · exact nonzero_part_values hnd hmem p hp
  · obtain ⟨h1, h2⟩ := List.of_mem_zip hp
    rw [List.eq_of_mem_replicate h2]
    apply Sparse.get_of_not_mem
    intro hin
    exact (hzin p.1 h1).2 (hcover _ hin)

/-- `uniform`: the values are the data at the sampled subscripts. -/
theorem C13_sample_values_uniform {floor : α → Int} (hf : FloorOk floor) {T : Dense α}
    {samples : Nat} {draws : List (List α)} (hrows : ∀ row ∈ draws, ∀ u ∈ row, 0 ≤ u) {s : Sample α}
    (h : uniformS floor T samples draws = .ok s) :
    s.vals = s.subs.map fun i => T.get (i.map Int.toNat) :=
  (uniformS_ok hf hrows h).2.2.1

/-- `semistrat`, PARTIAL: only the nonzero part (the first `num_nonzeros` samples) is the
data at its subscripts.  Missing: the remaining samples carry the value 0 whatever the tensor
holds there — by design of the semi-stratified sampler (see the counterexample). -/
theorem C13_sample_values_semistrat_partial {ceil : α → Int} {S : Sparse α} {a b : Nat}
    {idx : List Nat} {draws : List (List α)} {s : Sample α} (hnd : S.subs.Nodup)
    (h : semistratS ceil S a b idx draws = .ok s) :
    (∀ p ∈ (s.subs.zip s.vals).take a, S.get (p.1.map Int.toNat) = p.2) ∧
    (∀ v ∈ s.vals.drop a, v = 0) := by
  obtain ⟨nsubs, nvals, hnz, _, rfl⟩ := semistratS_ok h
  obtain ⟨l1, l2, hmem, _⟩ := nonzerosS_ok' hnz
  constructor
  · intro p hp
    simp only at hp
    rw [List.zip_append (by simp [l1, l2])] at hp
    rw [List.take_append_of_le_length (by simp [List.length_zip, l1, l2])] at hp
    exact nonzero_part_values hnd hmem p (List.mem_of_mem_take hp)
  · intro v hv
    simp only at hv
    rw [List.drop_append_of_le_length (by omega), ← l2, List.drop_length, List.nil_append] at hv
    exact List.eq_of_mem_replicate hv

/-- `semistrat` reports a stored nonzero as a zero (by design): tensor `{(1): 8}` of shape
`(2,)`, one nonzero and one "zero" sample, draw 1/2. -/
theorem C13_sample_values_semistrat_counterexample :
    semistratS Rat.ceil (⟨[2], [[1]], [8]⟩ : Sparse Rat) 1 1 [] [[1 / 2]]
      = .ok ⟨[[1], [1]], [8, 0], [1, 2]⟩ := by decide +kernel

/-! ### samplers: one value and one weight per subscript -/

/-- `stratified` (after 8b499c4): as many values and weights as subscripts, whatever the
rejection sampler found; the first `num_nonzeros` samples are the nonzero part. -/
theorem C13_sample_lengths {floor ceil : α → Int} {S : Sparse α} {nzIdx : List Nat} {a b : Nat}
    {rate : α} {idx : List Nat} {draws : List (List α)} {s : Sample α}
    (h : stratifiedS floor ceil S nzIdx a b rate idx draws = .ok s) :
    s.vals.length = s.subs.length ∧ s.wgts.length = s.subs.length ∧
      a ≤ s.subs.length ∧ s.subs.length ≤ a + b := by
  obtain ⟨nsubs, nvals, z, hnz, hz, rfl⟩ := stratifiedS_ok h
  obtain ⟨l1, l2, _, _⟩ := nonzerosS_ok' hnz
  obtain ⟨hzl, _, _⟩ := zerosS_ok hz
  simp [l1, l2]
  omega

/-- `uniform` and `semistrat`: the same, given that the generator returned the number of
rows it was asked for. -/
theorem C13_sample_lengths_uniform_semistrat {floor ceil : α → Int} (hf : FloorOk floor) :
    (∀ (T : Dense α) (samples : Nat) (draws : List (List α)) (s : Sample α),
      (∀ row ∈ draws, ∀ u ∈ row, 0 ≤ u) → draws.length = samples →
      uniformS floor T samples draws = .ok s →
      s.subs.length = samples ∧ s.vals.length = samples ∧ s.wgts.length = samples) ∧
    (∀ (S : Sparse α) (a b : Nat) (idx : List Nat) (draws : List (List α)) (s : Sample α),
      draws.length = b → semistratS ceil S a b idx draws = .ok s →
      s.subs.length = a + b ∧ s.vals.length = a + b ∧ s.wgts.length = a + b) := by
  constructor
  · intro T samples draws s hrows hlen h
    obtain ⟨h1, _, h3, h4⟩ := uniformS_ok hf hrows h
    simp [h1, h3, h4, hlen]
  · intro S a b idx draws s hlen h
    obtain ⟨nsubs, nvals, hnz, _, rfl⟩ := semistratS_ok h
    obtain ⟨l1, l2, _, _⟩ := nonzerosS_ok' hnz
    simp [l1, l2, hlen]

/-- The code before 8b499c4: when the rejection sampler finds fewer zeros than requested the
values and weights keep the requested length (3 subscripts, 5 values, 5 weights). -/
theorem C13_sample_lengths_counterexample :
    stratifiedSPinned Rat.floor Rat.ceil (⟨[2, 2], [[0, 0], [0, 1], [1, 0]], [1, 2, 3]⟩ : Sparse Rat)
      [0, 1, 2] 3 2 (3 / 2) [] (List.replicate 12 [1 / 4, 1 / 4])
      = .ok ⟨[[0, 0], [0, 1], [1, 0]], [1, 2, 3, 0, 0], [1, 1, 1, 1 / 2, 1 / 2]⟩ := by
  decide +kernel

/-! ### samplers: the weights total the number of entries the sample stands for -/

/-- `stratified`: the weights of the nonzero part total the number of stored entries, the
weights of the zero part total the number of zero cells (each when the part is non-empty). -/
theorem C13_weights_total {floor ceil : α → Int} {S : Sparse α} {nzIdx : List Nat} {a b : Nat}
    {rate : α} {idx : List Nat} {draws : List (List α)} {s : Sample α}
    (h : stratifiedS floor ceil S nzIdx a b rate idx draws = .ok s) :
    (0 < a → (s.wgts.take a).sum = (S.subs.length : α)) ∧
    (a < s.subs.length → (s.wgts.drop a).sum = ((numel S.shape - S.subs.length : Nat) : α)) := by
  obtain ⟨nsubs, nvals, z, hnz, hz, rfl⟩ := stratifiedS_ok h
  obtain ⟨l1, l2, _, _⟩ := nonzerosS_ok' hnz
  constructor
  · intro ha
    simp only
    rw [List.take_append_of_le_length (by simp), List.take_of_length_le (by simp)]
    exact sum_replicate_div a _ ha
  · intro hz
    simp only [List.length_append, List.length_map, l1] at hz
    simp only
    rw [List.drop_append_of_le_length (by simp), List.drop_of_length_le (by simp), List.nil_append]
    exact sum_replicate_div _ _ (by omega)

/-- `uniform`: the weights total the number of cells of the tensor; `semistrat`: the nonzero
part totals the number of stored entries, the remaining (uniformly drawn) part the number of
cells. -/
theorem C13_weights_total_uniform_semistrat {floor ceil : α → Int} (hf : FloorOk floor) :
    (∀ (T : Dense α) (samples : Nat) (draws : List (List α)) (s : Sample α),
      (∀ row ∈ draws, ∀ u ∈ row, 0 ≤ u) → 0 < samples →
      uniformS floor T samples draws = .ok s → s.wgts.sum = (numel T.shape : α)) ∧
    (∀ (S : Sparse α) (a b : Nat) (idx : List Nat) (draws : List (List α)) (s : Sample α),
      semistratS ceil S a b idx draws = .ok s →
      (s.wgts.take a).sum = (S.subs.length : α) ∧
      (0 < b → (s.wgts.drop a).sum = (numel S.shape : α))) := by
  constructor
  · intro T samples draws s hrows hpos h
    obtain ⟨_, _, _, h4⟩ := uniformS_ok hf hrows h
    rw [h4]
    exact sum_replicate_div samples _ hpos
  · intro S a b idx draws s h
    obtain ⟨nsubs, nvals, hnz, ha, rfl⟩ := semistratS_ok h
    constructor
    · simp only
      rw [List.take_append_of_le_length (by simp), List.take_of_length_le (by simp)]
      exact sum_replicate_div a _ ha
    · intro hb
      simp only
      rw [List.drop_append_of_le_length (by simp), List.drop_of_length_le (by simp), List.nil_append]
      exact sum_replicate_div b _ hb

example : stratifiedS Rat.floor Rat.ceil (⟨[2, 2], [[0, 0], [0, 1], [1, 0]], [1, 2, 3]⟩ : Sparse Rat)
    [0, 1, 2] 2 1 (3 / 2) [2, 0] [[3 / 4, 3 / 4], [1 / 4, 0], [0, 3 / 4], [3 / 4, 1 / 2], [1 / 2, 1 / 2], [0, 0]]
    = .ok ⟨[[1, 0], [0, 0], [1, 1]], [3, 1, 0], [3 / 2, 3 / 2, 1]⟩ := by decide +kernel

end samplers

/-! ### `GCPSampler` defaults -/

/-- The default sample counts never exceed what the tensor offers (so the default samplers
never run into the "more than available" branches). -/
theorem C13_default_counts_available (sparse : Bool) (size nnz maxIters : Nat) :
    (∀ p, functionPlan sparse size nnz none .none = .ok p →
      (p.kind = .stratified → p.numNonzeros ≤ nnz ∧ p.numZeros ≤ size - nnz) ∧
      (p.kind = .uniform → p.numNonzeros ≤ size)) ∧
    (∀ p, gradientPlan sparse size nnz none .none maxIters = .ok p →
      (p.kind = .stratified → p.numNonzeros ≤ nnz ∧ p.numZeros ≤ size - nnz) ∧
      (p.kind = .uniform → p.numNonzeros ≤ size)) := by
  constructor
  · intro p hp
    cases sparse <;> simp only [functionPlan, Option.getD_none, if_true, if_false, Bool.false_eq_true,
      Bool.not_true] at hp <;> injection hp with hp <;> subst hp <;>
      simp <;> omega
  · intro p hp
    have hk : (Samp.Kind.stratified == Samp.Kind.semistrat) = false := by decide
    by_cases hm : maxIters = 0
    · cases sparse <;> simp [gradientPlan, hm] at hp
    · cases sparse <;> simp [gradientPlan, hm, hk] at hp <;> subst hp <;> simp <;> omega

/-! ### stochastic solvers -/

section solvers
variable {α : Type} [Field α] [LinearOrder α] [IsStrictOrderedRing α]

/-- What holds of the locals of `solve` when the epoch loop has ended (all solver classes,
all hyper-parameters, all estimate streams): the invariant after `n` completed epochs, the
failure budget, and why the loop ended. -/
theorem C13_solve_invariant {sqrt : α → α} {h : Hyper α} {st : OptState α} {init : Ktensor α}
    {lb : Option α} {fEst : Nat → Ktensor α → α} {gEst : Nat → Ktensor α → Factors α} {L : Loop α}
    (hs : solveLoop sqrt h st init lb fEst gEst = .ok L) :
    ∃ n, Inv h lb fEst init (fEst 0 init) st.kind n L ∧ L.opt.nfails ≤ h.maxFails + 1 ∧
      (n = h.maxIters ∨ h.maxFails < L.opt.nfails ∨
        ∃ t, h.fEstTol = some t ∧ ∃ p, L.seen.getLast? = some p ∧ p.2 < t) := by
  unfold solveLoop at hs
  have hk : (resetState (st.setNfails 0)).kind = st.kind := by cases st <;> rfl
  have hn : (resetState (st.setNfails 0)).nfails = 0 := by cases st <;> rfl
  have I0 := inv_init h lb (resetState (st.setNfails 0)) init fEst hn
  rw [hk] at I0
  obtain ⟨n, I, _, h1, h2⟩ := epochs_spec h.maxIters 0 _ L I0 (by omega)
    (by simp [initLoop, hn]) hs
  exact ⟨n, I, h1, h2⟩

/-- **Best model.**  The model `solve` returns is one of the models seen at an epoch boundary
(the start or the state after the steps of some epoch, before any reset); the estimate recorded
for it is no worse than the estimate of every boundary — in particular of the starting guess —
and the reported `f_est_trace` is exactly the list of those estimates (start first), so the
estimate of the returned model is the smallest value of the reported trace. -/
theorem C13_best_model {sqrt : α → α} {h : Hyper α} {st : OptState α} {init : Ktensor α}
    {lb : Option α} {fEst : Nat → Ktensor α → α} {gEst : Nat → Ktensor α → Factors α} {L : Loop α}
    (hs : solveLoop sqrt h st init lb fEst gEst = .ok L) :
    ((report L).model, L.fPrev) ∈ L.seen ∧
    (report L).fEstTrace = L.seen.map (·.2) ∧
    L.fPrev ∈ (report L).fEstTrace ∧
    (∀ x ∈ (report L).fEstTrace, L.fPrev ≤ x) ∧
    L.seen.head? = some (init, fEst 0 init) ∧
    L.fPrev ≤ fEst 0 init := by
  obtain ⟨n, I, _, _⟩ := C13_solve_invariant hs
  obtain ⟨rest, hrest, _⟩ := I.fails
  have hmem : ((report L).model, L.fPrev) ∈ L.seen := by
    show (L.model, L.fPrev) ∈ L.seen
    rw [I.model_best]; exact I.mem
  have htr : (report L).fEstTrace = L.seen.map (·.2) := I.trace
  refine ⟨hmem, htr, ?_, ?_, by rw [hrest]; rfl, ?_⟩
  · rw [htr]; exact List.mem_map.mpr ⟨_, hmem, rfl⟩
  · intro x hx
    rw [htr] at hx
    obtain ⟨p, hp, rfl⟩ := List.mem_map.mp hx
    exact I.min p hp
  · exact I.min (init, fEst 0 init) (by rw [hrest]; simp)

/-- The same in the words of the property, when the function estimate is a function `F` of
the model alone (the function sample is fixed for the whole solve): the estimated objective of
the returned model is the smallest value of the reported trace and is no worse than the
starting guess's. -/
theorem C13_best_model_estimate {sqrt : α → α} {h : Hyper α} {st : OptState α} {init : Ktensor α}
    {lb : Option α} {F : Ktensor α → α} {gEst : Nat → Ktensor α → Factors α} {L : Loop α}
    (hs : solveLoop sqrt h st init lb (fun _ => F) gEst = .ok L) :
    F (report L).model ∈ (report L).fEstTrace ∧
    (∀ x ∈ (report L).fEstTrace, F (report L).model ≤ x) ∧
    F (report L).model ≤ F init := by
  obtain ⟨n, I, _, _⟩ := C13_solve_invariant hs
  obtain ⟨hmem, _, h3, h4, _, h6⟩ := C13_best_model hs
  obtain ⟨k, hk⟩ := I.est _ hmem
  simp only at hk
  rw [← hk]
  exact ⟨h3, h4, h6⟩

/-- **Trace length.**  With `n` the number of completed epochs: the function-value trace and
the step trace both have `n + 1` entries (the start plus one per completed epoch), `n` is at
most `max_iters`, and `info["n_epoch"]` is the index of the last epoch run. -/
theorem C13_trace_length {sqrt : α → α} {h : Hyper α} {st : OptState α} {init : Ktensor α}
    {lb : Option α} {fEst : Nat → Ktensor α → α} {gEst : Nat → Ktensor α → Factors α} {L : Loop α}
    (hs : solveLoop sqrt h st init lb fEst gEst = .ok L) :
    ∃ n, L.seen.length = n + 1 ∧ (report L).fEstTrace.length = n + 1 ∧
      (report L).stepTrace.length = n + 1 ∧ n ≤ h.maxIters ∧ (report L).nEpoch = n - 1 := by
  obtain ⟨n, I, _, _⟩ := C13_solve_invariant hs
  refine ⟨n, I.seen_length, ?_, ?_, I.nle, I.nepoch⟩
  · have : (report L).fEstTrace = L.seen.map (·.2) := I.trace
    rw [this, List.length_map, I.seen_length]
  · show (L.steps.take (L.nRecorded + 1)).length = n + 1
    rw [List.length_take, I.slen, I.nrec]
    have := I.nle
    omega

/-- **Failure counting.**  `_nfails` is the number of epochs whose estimate was larger than
the best estimate before them, the best estimate is the running minimum, at most
`max_fails + 1` failures are ever counted, and the loop ends only because `max_iters` epochs
were run, the failure budget was exceeded, or the last estimate fell below `f_est_tol`. -/
theorem C13_nfails {sqrt : α → α} {h : Hyper α} {st : OptState α} {init : Ktensor α}
    {lb : Option α} {fEst : Nat → Ktensor α → α} {gEst : Nat → Ktensor α → Factors α} {L : Loop α}
    (hs : solveLoop sqrt h st init lb fEst gEst = .ok L) :
    (L.fPrev, L.opt.nfails) = (report L).fEstTrace.tail.foldl failStep (fEst 0 init, 0) ∧
    L.opt.nfails ≤ h.maxFails + 1 ∧
    (L.seen.length = h.maxIters + 1 ∨ h.maxFails < L.opt.nfails ∨
      ∃ t, h.fEstTol = some t ∧ ∃ x, (report L).fEstTrace.getLast? = some x ∧ x < t) := by
  obtain ⟨n, I, h1, h2⟩ := C13_solve_invariant hs
  obtain ⟨rest, hrest, hfold⟩ := I.fails
  have htr : (report L).fEstTrace = L.seen.map (·.2) := I.trace
  refine ⟨?_, h1, ?_⟩
  · rw [htr, hrest]; exact hfold
  · rcases h2 with h2 | h2 | ⟨t, ht, p, hp, hpt⟩
    · left; rw [I.seen_length, h2]
    · exact Or.inr (Or.inl h2)
    · refine Or.inr (Or.inr ⟨t, ht, p.2, ?_, hpt⟩)
      rw [htr, List.getLast?_map, hp]; rfl

/-- **Lower bound, one step.**  Whatever the class of the solver, its fields, the gradient and
the square-root service: after `update_step` every factor entry is at least the lower bound. -/
theorem C13_lower_bound {sqrt : α → α} {h : Hyper α} {st : OptState α} {model : Ktensor α}
    {grad : Factors α} {l : α} {fm : Factors α} {step : α} {st' : OptState α}
    (hs : updateStep sqrt h st model grad (some l) = .ok (fm, step, st')) :
    ∀ A ∈ fm, ∀ row ∈ A, ∀ x ∈ row, l ≤ x :=
  (updateStep_spec hs).1.lbOk l rfl

/-- **Lower bound, whole solve.**  If the starting guess respects the bound, so does every
model seen at an epoch boundary and the model returned. -/
theorem C13_lower_bound_solve {sqrt : α → α} {h : Hyper α} {st : OptState α} {init : Ktensor α}
    {l : α} {fEst : Nat → Ktensor α → α} {gEst : Nat → Ktensor α → Factors α} {L : Loop α}
    (hinit : ∀ A ∈ init.factors, ∀ row ∈ A, ∀ x ∈ row, l ≤ x)
    (hs : solveLoop sqrt h st init (some l) fEst gEst = .ok L) :
    (∀ A ∈ (report L).model.factors, ∀ row ∈ A, ∀ x ∈ row, l ≤ x) ∧
    (∀ p ∈ L.seen, ∀ A ∈ p.1.factors, ∀ row ∈ A, ∀ x ∈ row, l ≤ x) := by
  obtain ⟨n, I, _, _⟩ := C13_solve_invariant hs
  have hl : LBOk (some l) init.factors := by
    intro l' hl'; cases hl'; exact hinit
  have hall := I.lbok hl
  refine ⟨?_, fun p hp => hall p hp l rfl⟩
  have := hall _ I.mem l rfl
  show ∀ A ∈ L.model.factors, _
  rw [I.model_best]; exact this

/-- **Reusable.**  A solve on an object with arbitrary left-over fields `st` is the solve on
a freshly constructed object of the same class: result, traces and the fields left behind are
equal.  Together with the second part (a solve leaves an object of the same class) every solve
of a sequence issued to one object depends only on its own arguments and streams. -/
theorem C13_reusable {sqrt : α → α} {h : Hyper α} (st : OptState α) (init : Ktensor α)
    (lb : Option α) (fEst : Nat → Ktensor α → α) (gEst : Nat → Ktensor α → Factors α) :
    solve sqrt h st init lb fEst gEst = solve sqrt h (OptState.fresh st.kind) init lb fEst gEst ∧
    ∀ r st', solve sqrt h st init lb fEst gEst = .ok (r, st') → st'.kind = st.kind := by
  constructor
  · unfold solve solveLoop
    cases st <;> rfl
  · intro r st' hs
    unfold solve at hs
    simp only [bind, Except.bind] at hs
    split at hs
    · cases hs
    rename_i L hL
    injection hs with hs
    simp only [Prod.mk.injEq] at hs
    obtain ⟨n, I, _, _⟩ := C13_solve_invariant hL
    rw [← hs.2]; exact I.kind

/-- The request `solve` itself refuses: `epoch_iters = 0` with at least one epoch to run (the
local `step` is never bound, the code raises). -/
theorem C13_solve_rejects_zero_epoch_iters {sqrt : α → α} {h : Hyper α} (st : OptState α)
    (init : Ktensor α) (lb : Option α) (fEst : Nat → Ktensor α → α)
    (gEst : Nat → Ktensor α → Factors α) (hE : h.epochIters = 0) (hT : 0 < h.maxIters) :
    solveLoop sqrt h st init lb fEst gEst = .error .reject := by
  obtain ⟨k, hk⟩ : ∃ k, h.maxIters = k + 1 := ⟨h.maxIters - 1, by omega⟩
  simp [solveLoop, hk, epochs, epochBody, innerIters, initLoop, hE, bind, Except.bind]

/-- **Reusable, with the sampler made explicit.**  A solve on an object with arbitrary
left-over fields, given data `data` and no sampler, is the solve of a freshly constructed object
of the same class whose estimates come from the default sampler of THAT data (`mkDefault data`) —
not from the sampler or the data of any earlier solve; with an explicit sampler it is the solve
with that sampler.  The sampler is a per-solve function of the arguments. -/
theorem C13_reusable_sampler {D S : Type} {sqrt : α → α} {h : Hyper α} (st : OptState α)
    (init : Ktensor α) (lb : Option α) (data : D) (mkDefault : D → S)
    (fOracle : S → D → Nat → Ktensor α → α) (gOracle : S → D → Nat → Ktensor α → Factors α) :
    solveData sqrt h st init lb data none mkDefault fOracle gOracle =
      solve sqrt h (OptState.fresh st.kind) init lb (fOracle (mkDefault data) data)
        (gOracle (mkDefault data) data) ∧
    ∀ s : S, solveData sqrt h st init lb data (some s) mkDefault fOracle gOracle =
      solve sqrt h (OptState.fresh st.kind) init lb (fOracle s data) (gOracle s data) :=
  ⟨(C13_reusable st init lb _ _).1, fun s => (C13_reusable st init lb _ _).1⟩

end solvers

/-! #### the tree before ee5fefa / e9e4a44 -/

/-- Traces sliced `[0 : n_epoch + 1]` (before ee5fefa): one epoch completes with estimate 7,
the reported trace is `[8]` — its minimum is not the estimate of the returned model — while the
repaired code reports `[8, 7]`. -/
theorem C13_trace_length_counterexample :
    (solvePinned (fun x => x) c13Hyper (.sgd 0) c13Init none c13F c13G).map (·.1.fEstTrace) = .ok [8] ∧
    (solve (fun x => x) c13Hyper (.sgd 0) c13Init none c13F c13G).map (·.1.fEstTrace) = .ok [8, 7] ∧
    (solve (fun x => x) c13Hyper (.sgd 0) c13Init none c13F c13G).map (·.1.model.factors)
      = .ok [[[0], [2]], [[3]]] := by
  decide +kernel

/-- No `_reset_state()` (before e9e4a44): an Adagrad object that kept `_gnormsum = 5` from an
earlier solve returns another model than a fresh object for the same arguments and streams
(step 1/3 instead of 1/2); an Adam object that kept moments of another problem size raises. -/
theorem C13_reusable_counterexample :
    (solvePinned c13Sqrt c13Hyper (.adagrad 0 5) c13Init none c13F c13G).map (·.1.model.factors)
      = .ok [[[1 / 3], [2]], [[3]]] ∧
    (solvePinned c13Sqrt c13Hyper (.adagrad 0 0) c13Init none c13F c13G).map (·.1.model.factors)
      = .ok [[[0], [2]], [[3]]] ∧
    (solve c13Sqrt c13Hyper (.adagrad 0 5) c13Init none c13F c13G).map (·.1.model.factors)
      = .ok [[[0], [2]], [[3]]] ∧
    (solvePinned c13Sqrt c13Hyper (.adam 0 1 [[[0], [0], [0]]] [] [[[0], [0], [0]]] []) c13Init none
      c13F c13G).map (·.1.model.factors) = .error .reject := by
  decide +kernel

/-! ### L-BFGS-B -/

section lbfgsb
variable {α : Type} [LinearOrder α]

/-- **L-BFGS-B never returns a higher objective than it started from.**  Assumed of SciPy's
optimiser (checked by the harness on every recorded call): from a feasible start it returns a
feasible point whose objective is not larger.  Assumed of `tovec` / `update` (C08; the harness
compares both with `tovecF` / `updateF` exactly): writing a model's own vector back gives the
model.  Then the objective of the returned model is at most that of the initial model and the
returned vector respects the bounds. -/
theorem C13_lbfgsb_not_worse (tovec : Ktensor α → List α) (update : Ktensor α → List α → Ktensor α)
    (svc : (List α → α) → List α → Option α → List α × α) (objective : Ktensor α → α)
    (init : Ktensor α) (lb : Option α)
    (hrt : update init (tovec init) = init)
    (hfeas : C13Feasible lb (tovec init))
    (hsvc : ∀ (f : List α → α) (x0 : List α), C13Feasible lb x0 →
      f (svc f x0 lb).1 ≤ f x0 ∧ C13Feasible lb (svc f x0 lb).1) :
    objective (lbfgsbSolve tovec update svc objective init lb).1 ≤ objective init ∧
    ∃ v, (lbfgsbSolve tovec update svc objective init lb).1 = update init v ∧ C13Feasible lb v := by
  have := hsvc (fun v => objective (update init v)) (tovec init) hfeas
  simp only [hrt] at this
  exact ⟨this.1, _, rfl, this.2⟩

/-- `tovec(False)` then `update(all modes, ·)` (as modelled by `tovecF` / `updateF`, which the
harness compares with the implementation exactly) returns the Kruskal tensor it started from,
for every tensor whose factor rows have one entry per component. -/
theorem C13_lbfgsb_roundtrip {β : Type} [Zero β] (K : Ktensor β)
    (hwf : ∀ A ∈ K.factors, ∀ row ∈ A, row.length = K.weights.length) :
    updateF K (tovecF K) = K := updateF_tovecF K hwf

/-- `C13_lbfgsb_not_worse` with the modelled `tovec` / `update`: only the optimiser's contract
is assumed. -/
theorem C13_lbfgsb_not_worse_model [Zero α] (svc : (List α → α) → List α → Option α → List α × α)
    (objective : Ktensor α → α) (init : Ktensor α) (lb : Option α)
    (hwf : ∀ A ∈ init.factors, ∀ row ∈ A, row.length = init.weights.length)
    (hfeas : C13Feasible lb (tovecF init))
    (hsvc : ∀ (f : List α → α) (x0 : List α), C13Feasible lb x0 →
      f (svc f x0 lb).1 ≤ f x0 ∧ C13Feasible lb (svc f x0 lb).1) :
    objective (lbfgsbSolve tovecF updateF svc objective init lb).1 ≤ objective init :=
  (C13_lbfgsb_not_worse tovecF updateF svc objective init lb (updateF_tovecF init hwf) hfeas hsvc).1

/-- **The returned model is the optimiser's solution vector, decoded** — not whatever the last
objective evaluation left in the model object that `lbfgsb_func_grad` updates in place.  First
part: the wrapper returns `update init x` and `f` for the pair `(x, f)` the optimiser reports.
Second part (with the modelled `tovec` / `update`): whatever points the optimiser evaluated, in
whatever order — in particular when the last evaluated point is a rejected line-search trial —
the result is the same as if nothing had been written into the model in between. -/
theorem C13_lbfgsb_returns_service_point {β : Type} [Zero β] :
    (∀ (tovec : Ktensor β → List β) (update : Ktensor β → List β → Ktensor β)
        (svc : (List β → β) → List β → Option β → List β × β) (objective : Ktensor β → β)
        (init : Ktensor β) (lb : Option β),
      lbfgsbSolve tovec update svc objective init lb =
        (update init (svc (fun v => objective (update init v)) (tovec init) lb).1,
         objective (update init (svc (fun v => objective (update init v)) (tovec init) lb).1))) ∧
    (∀ (svc : (List β → β) → List β → Option β → (List β × β) × List (List β))
        (objective : Ktensor β → β) (init : Ktensor β) (lb : Option β),
      lbfgsbSolveInPlace tovecF updateF svc objective init lb =
        lbfgsbSolve tovecF updateF (fun f x l => (svc f x l).1) objective init lb) := by
  refine ⟨fun _ _ _ _ _ _ => rfl, fun svc objective init lb => ?_⟩
  unfold lbfgsbSolveInPlace lbfgsbSolve
  simp only [updateF_updateF, updateF_foldl]

/-- **The reported final objective** (`info["final_f"]`, after 6b9ef45) is the objective of the
model that is returned, and — under the optimiser's contract (from a feasible start it returns a
point that is no worse), with `tovec` / `update` round-tripping on the start — it is at most the
objective of the starting guess.  The value the optimiser itself reports is not used. -/
theorem C13_lbfgsb_final_f {β : Type} [LinearOrder β] (tovec : Ktensor β → List β)
    (update : Ktensor β → List β → Ktensor β)
    (svc : (List β → β) → List β → Option β → List β × β) (objective : Ktensor β → β)
    (init : Ktensor β) (lb : Option β) :
    (lbfgsbSolve tovec update svc objective init lb).2 =
      objective (lbfgsbSolve tovec update svc objective init lb).1 ∧
    (update init (tovec init) = init → C13Feasible lb (tovec init) →
      (∀ (f : List β → β) (x0 : List β), C13Feasible lb x0 →
        f (svc f x0 lb).1 ≤ f x0 ∧ C13Feasible lb (svc f x0 lb).1) →
      (lbfgsbSolve tovec update svc objective init lb).2 ≤ objective init) := by
  refine ⟨rfl, fun hrt hfeas hsvc => ?_⟩
  have := (hsvc (fun v => objective (update init v)) (tovec init) hfeas).1
  simp only [hrt] at this
  exact this

/-- **Reusable, L-BFGS-B.**  A solve leaves the options stored in the `LBFGSB` object exactly
as they were (in particular no size-dependent tolerance of this problem is written back), and
its result is what the bare wrapper computes from these options, the arguments and the
optimiser service alone.  Hence the `k`-th solve issued to one object equals the same solve
on a freshly constructed object with the same options, whatever was solved before. -/
theorem C13_reusable_lbfgsb {β : Type} (tovec : Ktensor β → List β)
    (update : Ktensor β → List β → Ktensor β)
    (svc : LbfgsbCall β → (List β → β) → List β → Option β → List β × β) (o : LbfgsbOpts β)
    (objective : Ktensor β → β) (init : Ktensor β) (lb : Option β) :
    (lbfgsbSolveObj tovec update svc o objective init lb).2 = o ∧
    (lbfgsbSolveObj tovec update svc o objective init lb).1 =
      lbfgsbSolve tovec update (svc ⟨o, o.callback⟩) objective init lb := ⟨rfl, rfl⟩

end lbfgsb

/-! ### non-vacuity: accepted runs with failed epochs, a finite bound, every solver class -/

example : (solve (fun x => x) c13Hyper2 (.sgd 3) c13Init (some 0) c13F2 c13G).map
    (fun r => (r.1.fEstTrace, r.1.nEpoch, r.2.nfails, r.1.model.factors))
    = .ok ([8, 9, 7, 10], 2, 2, [[[0], [2]], [[3]]]) := by decide +kernel

example : (solve (fun x => x) c13Hyper2 (.adam 0 7 [] [] [] []) c13Init (some 0) c13F2 c13G).map
    (fun r => (r.1.fEstTrace, r.1.nEpoch, r.2.nfails)) = .ok ([8, 9, 7, 10], 2, 2) := by decide +kernel

example : (solve c13Sqrt c13Hyper2 (.adagrad 0 3) c13Init (some 0) c13F2 c13G).map
    (fun r => (r.1.fEstTrace, r.1.nEpoch, r.2.nfails)) = .ok ([8, 9, 7, 10], 2, 2) := by decide +kernel

example : uniformS Rat.floor (⟨[2, 3], [0, 1, 2, 3, 4, 5]⟩ : Dense Rat) 2 [[0, 0], [3 / 4, 1 / 2]]
    = .ok ⟨[[0, 0], [1, 1]], [0, 3], [3, 3]⟩ := by decide +kernel

end Pyttb
