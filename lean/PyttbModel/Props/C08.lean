/-
C08 — Kruskal re-parameterisations preserve the tensor and reach their normal form.

The model (`Ops/KruskalReparam.lean`) mirrors `pyttb/ktensor.py`.  The theorems are over any
linear ordered field.  The column norm, `np.argsort` and the N-th root enter through
`Services` with the laws collected in `Services.Lawful` (`NormLaws`: `nrm v ≥ 0`,
`nrm v = 0 → v = 0`, `nrm (c • v) = |c| nrm v`; `argsort` returns a sorting permutation;
`(root N x)^N = x` for `x ≥ 0`); `C08_std_lawful` shows that the services the driver runs
(1-norm, max-norm, 2-norm from any square root, stable insertion argsort) satisfy them.
"Denotes the same array" is spelled out as: same number of components, same shape, and
`K'.get i = K.get i` for every subscript `i` with one entry per mode (in or out of bounds).
Proofs are in `Lemmas/Kruskal*.lean`.
-/
import PyttbModel.Lemmas.KruskalServices
import PyttbModel.Lemmas.KruskalVec
import PyttbModel.Lemmas.KruskalScore
import PyttbModel.Lemmas.KruskalEqual
import PyttbModel.Lemmas.KruskalSignsForm
import PyttbModel.Lemmas.KruskalSeq
import PyttbModel.Lemmas.KruskalGreedy
import PyttbModel.Lemmas.KruskalSignsRef
import PyttbModel.Lemmas.KruskalCompose
import PyttbModel.Lemmas.KruskalRealServices
namespace Pyttb

open Ktensor

variable {α : Type}

section field
variable [Field α] [LinearOrder α] [IsStrictOrderedRing α]

/-! ### normalize -/

/-- `normalize` with any argument pattern (weight_factor None / a mode / 'all', sort or not,
any norm, all modes or the single-mode form) changes only the parameterisation: same rank,
same shape, same array. -/
theorem C08_normalize_denote {S : Services α} (hS : S.Lawful) (K : Ktensor α) (wf : Option WeightFactor)
    (sort : Bool) (nt : NormType) (mode : Option Int) {K' : Ktensor α}
    (h : normalize S K wf sort nt mode = .ok K') :
    K'.ncomp = K.ncomp ∧ K'.shape = K.shape ∧
      ∀ i : List Nat, i.length = K.factors.length → K'.get i = K.get i :=
  let r := normalize_reparam hS K wf sort nt mode h
  ⟨r.ncomp, r.shape, r.get⟩

/-- After `normalize` over all modes, every column of every mode that did not absorb the
weights has unit norm in the requested norm — or is a zero column, which has no unit multiple
(the code skips it). -/
theorem C08_normalize_unit {S : Services α} (hS : S.Lawful) (K : Ktensor α) (wf : Option WeightFactor)
    (sort : Bool) (nt : NormType) {K' : Ktensor α} (h : normalize S K wf sort nt none = .ok K')
    (hall : wf ≠ some .all) (m : Nat) (hm : m < K.factors.length)
    (hmk : ∀ k, wf = some (.mode k) → k ≠ (m : Int)) (r : Nat) (hr : r < K.ncomp) :
    S.nrm nt ((K'.factors.getD m []).col r) = 1 ∨ ∀ x ∈ (K'.factors.getD m []).col r, x = 0 :=
  normalize_unit hS K wf sort nt h hall m hm hmk r hr

/-- The single-mode form `normalize(mode=m)` makes the columns of mode `m` unit (or leaves a
zero column). -/
theorem C08_normalize_unit_mode {S : Services α} (hS : S.Lawful) (K : Ktensor α) (wf : Option WeightFactor)
    (sort : Bool) (nt : NormType) (m : Int) {K' : Ktensor α}
    (h : normalize S K wf sort nt (some m) = .ok K') (r : Nat) (hr : r < K.ncomp) :
    S.nrm nt ((K'.factors.getD m.toNat []).col r) = 1 ∨ ∀ x ∈ (K'.factors.getD m.toNat []).col r, x = 0 :=
  normalize_unit_mode hS K wf sort nt m h r hr

/-- After `normalize` over all modes no weight is negative. -/
theorem C08_normalize_nonneg {S : Services α} (hS : S.Lawful) (K : Ktensor α) (wf : Option WeightFactor)
    (sort : Bool) (nt : NormType) {K' : Ktensor α} (h : normalize S K wf sort nt none = .ok K') :
    ∀ w ∈ K'.weights, 0 ≤ w := normalize_nonneg hS K wf sort nt h

/-- With `sort=True` the weights come out in decreasing order. -/
theorem C08_normalize_sorted {S : Services α} (hS : S.Lawful) (K : Ktensor α) (wf : Option WeightFactor)
    (nt : NormType) {K' : Ktensor α} (h : normalize S K wf true nt none = .ok K') :
    K'.weights.Pairwise (· ≥ ·) := normalize_sorted hS K wf nt h

/-- When the weights are absorbed (into one mode or, as N-th roots, into all) they are all one
afterwards. -/
theorem C08_normalize_absorb {S : Services α} (hS : S.Lawful) (K : Ktensor α) (wf : Option WeightFactor)
    (sort : Bool) (nt : NormType) {K' : Ktensor α} (h : normalize S K wf sort nt none = .ok K')
    (hwf : wf ≠ none) : ∀ w ∈ K'.weights, w = 1 := normalize_absorb hS K wf sort nt h hwf

/-- `normalize` accepts every request on a tensor with at least one mode whose weight_factor is
None, 'all' or a mode and whose `mode` (if given) is a mode … -/
theorem C08_normalize_accepts (S : Services α) (K : Ktensor α) (wf : Option WeightFactor) (sort : Bool)
    (nt : NormType) (mode : Option Int) (hN : 0 < K.factors.length) (hwf : wfValid wf K.ndims = true)
    (hm : ∀ m, mode = some m → inRange m K.ndims = true) :
    ∃ K', normalize S K wf sort nt mode = .ok K' := normalize_accepts S K wf sort nt mode hN hwf hm

/-- … and rejects a weight_factor or a `mode` that is not a mode of the tensor. -/
theorem C08_normalize_rejects (S : Services α) (K : Ktensor α) (wf : Option WeightFactor) (sort : Bool)
    (nt : NormType) (mode : Option Int)
    (h : wfValid wf K.ndims = false ∨ ∃ m, mode = some m ∧ inRange m K.ndims = false) :
    normalize S K wf sort nt mode = .error .reject := normalize_rejects S K wf sort nt mode h

/-- `normalize()` is idempotent: normalising the result again with the same norm (nothing
absorbed, nothing sorted) returns it unchanged — stored weights and factor matrices, not just the
array.  (Exact arithmetic; with `sort=True` a second call may reorder components of equal
weight, and absorbed weights are re-extracted and re-absorbed, so those forms are not claimed.) -/
theorem C08_normalize_idem {S : Services α} (hS : S.Lawful) (nt : NormType) (K : Ktensor α) {K' : Ktensor α}
    (h : normalize S K none false nt none = .ok K') : normalize S K' none false nt none = .ok K' :=
  normalize_idem hS nt K h

/-- What makes the second call the identity: after `normalize()` the weights are non-negative,
every column has unit norm or is a zero column of a component whose weight is zero, and no row
is longer than the number of components; any tensor of that form is a fixed point. -/
theorem C08_normalize_fixed_point {S : Services α} (hS : S.Lawful) (nt : NormType) (K : Ktensor α) :
    (∀ K', normalize S K none false nt none = .ok K' → NF (S.nrm nt) K') ∧
    (NF (S.nrm nt) K → normalize S K none false nt none = .ok K) :=
  ⟨fun _ h => normalize_nf hS nt K h, normalize_fixed S nt K⟩

/-! ### arrange -/

/-- `arrange(permutation=p)` for ANY permutation `p` of the components is accepted, puts
component `p[k]` at position `k`, and denotes the same array. -/
theorem C08_arrange_perm_denote (S : Services α) (K : Ktensor α) (p : List Nat)
    (hp : isPermOf p K.ncomp = true) :
    arrange S K none (some (p.map Int.ofNat)) = .ok (K.permuteComps p) ∧
    (K.permuteComps p).weights = p.map (fun r => K.weights.getD r 0) ∧
    (K.permuteComps p).shape = K.shape ∧
    ∀ i : List Nat, (K.permuteComps p).get i = K.get i :=
  ⟨arrange_perm_eq S K p hp, rfl, permuteComps_shape K p, fun i => permuteComps_get_perm K p i hp⟩

/-- Whatever index list `arrange(permutation=…)` accepts, the result denotes the same array. -/
theorem C08_arrange_perm_accepted_denote (S : Services α) (K : Ktensor α) (p : List Int) {K' : Ktensor α}
    (h : arrange S K none (some p) = .ok K') :
    K'.ncomp = K.ncomp ∧ K'.shape = K.shape ∧
      ∀ i : List Nat, i.length = K.factors.length → K'.get i = K.get i :=
  let r := arrange_perm_reparam S K p h
  ⟨r.ncomp, r.shape, r.get⟩

/-- An index list that is not a permutation of the components (wrong length, repeated,
out of range or negative entry) is rejected. -/
theorem C08_arrange_perm_rejects (S : Services α) (K : Ktensor α) (p : List Int)
    (h : isPermOf (p.map Int.toNat) K.ncomp = false ∨ ∃ k ∈ p, k < 0) :
    arrange S K none (some p) = .error .reject := arrange_perm_rejects S K p h

/-- `arrange()` and `arrange(weight_factor=k)` (normalise, sort, optionally absorb) denote the
same array. -/
theorem C08_arrange_denote {S : Services α} (hS : S.Lawful) (K : Ktensor α) (wf : Option Int) {K' : Ktensor α}
    (h : arrange S K wf none = .ok K') :
    K'.ncomp = K.ncomp ∧ K'.shape = K.shape ∧
      ∀ i : List Nat, i.length = K.factors.length → K'.get i = K.get i :=
  let r := arrange_sort_reparam hS K wf h
  ⟨r.ncomp, r.shape, r.get⟩

/-- `arrange()`: weights non-negative and in decreasing order. -/
theorem C08_arrange_sorted {S : Services α} (hS : S.Lawful) (K : Ktensor α) {K' : Ktensor α}
    (h : arrange S K none none = .ok K') : K'.weights.Pairwise (· ≥ ·) ∧ ∀ w ∈ K'.weights, 0 ≤ w :=
  arrange_sorted hS K h

/-- `arrange(weight_factor=k)`: all weights one afterwards. -/
theorem C08_arrange_absorb (S : Services α) (K : Ktensor α) (k : Int) {K' : Ktensor α}
    (h : arrange S K (some k) none = .ok K') : ∀ w ∈ K'.weights, w = 1 := arrange_absorb S K k h

/-- `arrange()` / `arrange(weight_factor=k)`: every column of a mode other than `k` has unit
2-norm (or is zero). -/
theorem C08_arrange_unit {S : Services α} (hS : S.Lawful) (K : Ktensor α) (wf : Option Int) {K' : Ktensor α}
    (h : arrange S K wf none = .ok K') (m : Nat) (hm : m < K.factors.length) (hmk : wf ≠ some (m : Int))
    (r : Nat) (hr : r < K.ncomp) :
    S.nrm .two ((K'.factors.getD m []).col r) = 1 ∨ ∀ x ∈ (K'.factors.getD m []).col r, x = 0 :=
  arrange_unit hS K wf h m hm hmk r hr

/-- Passing both a permutation and a weight factor is an error. -/
theorem C08_arrange_rejects_both (S : Services α) (K : Ktensor α) (k : Int) (p : List Int) :
    arrange S K (some k) (some p) = .error .reject := arrange_rejects_both S K k p

/-- A weight factor that is not a mode is an error. -/
theorem C08_arrange_rejects_mode (S : Services α) (K : Ktensor α) (k : Int) (hk : inRange k K.ndims = false) :
    arrange S K (some k) none = .error .reject := arrange_rejects_mode S K k hk

/-- Arranging by `p` and then by `q` is arranging once by the composition `p[q]` (which is again
a permutation): all three calls are accepted and the two routes end in the same stored tensor. -/
theorem C08_arrange_perm_compose (S : Services α) (K : Ktensor α) (p q : List Nat)
    (hp : isPermOf p K.ncomp = true) (hq : isPermOf q K.ncomp = true) :
    isPermOf (gatherD p q 0) K.ncomp = true ∧
    arrange S K none (some (p.map Int.ofNat)) = .ok (K.permuteComps p) ∧
    arrange S (K.permuteComps p) none (some (q.map Int.ofNat)) = .ok (K.permuteComps (gatherD p q 0)) ∧
    arrange S K none (some ((gatherD p q 0).map Int.ofNat)) = .ok (K.permuteComps (gatherD p q 0)) :=
  arrange_perm_compose S K p q hp hq

/-! ### fixsigns -/

/-- `fixsigns()` flips factor columns in pairs within a component: same array (weights and
shape untouched). -/
theorem C08_fixsigns_denote (K : Ktensor α) :
    (fixsigns K).ncomp = K.ncomp ∧ (fixsigns K).shape = K.shape ∧
      ∀ i : List Nat, i.length = K.factors.length → (fixsigns K).get i = K.get i :=
  let r := fixsigns_reparam K
  ⟨r.ncomp, r.shape, r.get⟩

/-- Normal form of `fixsigns()`: `negModes K r` lists the modes whose column `r` has a negative
entry of largest magnitude (first such entry, as `np.argmax`); after the call their number is
the original number modulo 2 — none if it was even, exactly one if it was odd. -/
theorem C08_fixsigns_form (K : Ktensor α) (r : Nat) (hr : r < K.ncomp) :
    (negModes (fixsigns K) r).length = (negModes K r).length % 2 := fixsigns_form K r hr

/-- `fixsigns(other)` (the code after 13c8da4: the number of flipped columns per component is
the number of negatively correlated modes, plus or minus one when that number is odd — always
even) denotes the same array, for every reference tensor. -/
theorem C08_fixsigns_ref_denote {S : Services α} (hS : S.Lawful) (K other : Ktensor α) {K' : Ktensor α}
    (h : fixsignsRef S K other = .ok K') :
    K'.ncomp = K.ncomp ∧ K'.shape = K.shape ∧
      ∀ i : List Nat, i.length = K.factors.length → K'.get i = K.get i :=
  let r := fixsignsRef_reparam hS K other h
  ⟨r.ncomp, r.shape, r.get⟩

/-- `fixsigns(other)` accepts exactly the references of the receiver's shape with no more
components than the receiver (on a tensor with at least one mode) … -/
theorem C08_fixsigns_ref_accepts {S : Services α} (hS : S.Lawful) (K other : Ktensor α)
    (hN : 0 < K.factors.length) (hs : K.shape = other.shape) (hR : other.ncomp ≤ K.ncomp) :
    ∃ K', fixsignsRef S K other = .ok K' := fixsignsRef_accepts hS K other hN hs hR

/-- … and rejects every other reference. -/
theorem C08_fixsigns_ref_rejects (S : Services α) (K other : Ktensor α)
    (h : K.shape ≠ other.shape ∨ K.ncomp < other.ncomp) : fixsignsRef S K other = .error .reject :=
  fixsignsRef_rejects S K other h

/-- Alignment normal form of `fixsigns(other)`.  Let `B` be the normalised copy of the reference
the code works with and `s_n = K'_n[:, r] · B_n[:, r]` the sign score of mode `n` in component
`r` after the call.  For every component `r` of the reference: at most one mode is negatively
correlated with the reference (`s_n < 0`), and if there is one then every other mode `m` has
`s_m ≥ -s_n > 0` — the mode left negative is one of least magnitude, so no even number of further
flips could raise the sum of the scores.  Ties and zero scores included (any `argsort` that
returns a sorting permutation). -/
theorem C08_fixsigns_ref_normal_form {S : Services α} (hS : S.Lawful) (K other : Ktensor α) {K' B : Ktensor α}
    (h : fixsignsRef S K other = .ok K') (hB : normalize S other none false .two none = .ok B)
    (r : Nat) (hr : r < other.ncomp) :
    (∀ n m, n < K.factors.length → m < K.factors.length →
        refScore K' B r n < 0 → refScore K' B r m < 0 → n = m) ∧
    (∀ n, n < K.factors.length → refScore K' B r n < 0 →
        ∀ m, m < K.factors.length → m ≠ n → -(refScore K' B r n) ≤ refScore K' B r m) ∧
    alignedComp K' B r = true := by
  have hal := fixsignsRef_aligned hS K other h hB r hr
  have hN := (fixsignsRef_reparam hS K other h).ndims
  refine ⟨?_, ?_, (alignedComp_iff K' B r).2 hal⟩
  · intro n m hn hm h1 h2
    exact hal.unique (by rw [hN]; exact hn) (by rw [hN]; exact hm) h1 h2
  · intro n hn h1 m hm hmn
    exact hal n (by rw [hN]; exact hn) h1 m (by rw [hN]; exact hm) hmn

/-- The normal form is optimal: after `fixsigns(other)`, for every component `r` of the reference,
the sign scores of ANY even number of distinct modes add up to a non-negative number — so no
further sign change that keeps the tensor (an even number of flipped columns in component `r`)
can raise the sum `Σ_n K'_n[:, r] · B_n[:, r]` of the correlations with the reference. -/
theorem C08_fixsigns_ref_optimal {S : Services α} (hS : S.Lawful) (K other : Ktensor α) {K' B : Ktensor α}
    (h : fixsignsRef S K other = .ok K') (hB : normalize S other none false .two none = .ok B)
    (r : Nat) (hr : r < other.ncomp) (F : List Nat) (hnd : F.Nodup) (hF : ∀ n ∈ F, n < K.factors.length)
    (hev : F.length % 2 = 0) : 0 ≤ (F.map (refScore K' B r)).sum := by
  have hN := (fixsignsRef_reparam hS K other h).ndims
  exact (fixsignsRef_aligned hS K other h hB r hr).sum_nonneg F hnd (fun n hn => by rw [hN]; exact hF n hn) hev

/-- When the number of modes of component `r` that are negatively correlated with the reference
(receiver and reference both normalised, as the code does first) is even, no mode is negatively
correlated afterwards. -/
theorem C08_fixsigns_ref_even {S : Services α} (hS : S.Lawful) (K other : Ktensor α) {K' A B : Ktensor α}
    (h : fixsignsRef S K other = .ok K') (hA : normalize S K none false .two none = .ok A)
    (hB : normalize S other none false .two none = .ok B) (r : Nat) (hr : r < other.ncomp)
    (hev : negCount A B r % 2 = 0) : ∀ n, n < K.factors.length → 0 ≤ refScore K' B r n :=
  fixsignsRef_even hS K other h hA hB r hr hev

/-- `fixsigns(other)` is idempotent: a second call with the same reference returns the stored
tensor unchanged (weights and factor matrices). -/
theorem C08_fixsigns_ref_idem {S : Services α} (hS : S.Lawful) (K other : Ktensor α) {K' : Ktensor α}
    (h : fixsignsRef S K other = .ok K') : fixsignsRef S K' other = .ok K' :=
  fixsignsRef_idem hS K other h

/-! ### redistribute -/

/-- `redistribute(mode)` denotes the same array … -/
theorem C08_redistribute_denote (K : Ktensor α) (mode : Int) {K' : Ktensor α}
    (h : redistribute K mode = .ok K') :
    K'.ncomp = K.ncomp ∧ K'.shape = K.shape ∧
      ∀ i : List Nat, i.length = K.factors.length → K'.get i = K.get i :=
  let r := (redistribute_spec K mode h).1
  ⟨r.ncomp, r.shape, r.get⟩

/-- … with all weights one … -/
theorem C08_redistribute_weights_one (K : Ktensor α) (mode : Int) {K' : Ktensor α}
    (h : redistribute K mode = .ok K') : ∀ w ∈ K'.weights, w = 1 := (redistribute_spec K mode h).2

/-- … is accepted for every mode of the tensor and rejected for anything else. -/
theorem C08_redistribute_accepts_rejects (K : Ktensor α) :
    (∀ n, n < K.factors.length → redistribute K (Int.ofNat n) = .ok (K.absorbMode n)) ∧
    (∀ mode : Int, mode < 0 ∨ (K.factors.length : Int) ≤ mode → redistribute K mode = .error .reject) :=
  ⟨redistribute_accepts K, redistribute_rejects K⟩

/-! ### tolist -/

/-- The factor matrices returned by `tolist()` / `tolist(mode)`, taken with unit weights, denote
the tensor and have the tensor's shape. -/
theorem C08_tolist_denote {S : Services α} (hS : S.Lawful) (K : Ktensor α) (mode : Option Int)
    {fs : List (Mat α)} (h : tolist S K mode = .ok fs) (i : List Nat) (hi : i.length = K.factors.length) :
    (⟨K.weights.map fun _ => 1, fs⟩ : Ktensor α).get i = K.get i ∧ fs.map List.length = K.shape :=
  tolist_get hS K mode h i hi

/-! ### the services that are run -/

/-- The 1-norm `Σ|x|` is a norm. -/
theorem C08_norm1_laws (sqrt : α → α) : NormLaws (colNorm sqrt .one : List α → α) := norm1_laws sqrt

/-- The max-norm is a norm. -/
theorem C08_normInf_laws (sqrt : α → α) : NormLaws (colNorm sqrt .inf : List α → α) := normInf_laws sqrt

/-- The 2-norm `sqrt (Σ x²)` is a norm for any function `sqrt` that is a non-negative square
root on the non-negative numbers. -/
theorem C08_norm2_laws (sqrt : α → α) (hs1 : ∀ x, 0 ≤ x → 0 ≤ sqrt x) (hs2 : ∀ x, 0 ≤ x → sqrt x * sqrt x = x) :
    NormLaws (colNorm sqrt .two : List α → α) := norm2_laws sqrt hs1 hs2

/-- The stable insertion argsort returns a permutation of the positions that sorts the keys. -/
theorem C08_argsort_contract (w : List α) :
    isPermOf (argsortStable w) w.length = true ∧
    ((argsortStable w).map fun k => w.getD k 0).Pairwise (· ≤ ·) :=
  ⟨argsortStable_perm w, argsortStable_sorted w⟩

/-- Hence the services executed by the driver are lawful as soon as `sqrt` and `root` are what
their names say. -/
theorem C08_std_lawful (sqrt : α → α) (root : Nat → α → α)
    (hs1 : ∀ x, 0 ≤ x → 0 ≤ sqrt x) (hs2 : ∀ x, 0 ≤ x → sqrt x * sqrt x = x)
    (hr : ∀ (N : Nat) (x : α), 0 < N → 0 ≤ x → (root N x) ^ N = x) :
    (Services.std sqrt root).Lawful := std_lawful sqrt root hs1 hs2 hr

end field

/-! ### extract -/

/-- `extract(idx)` for a non-empty list of at most R valid component indices (repeats
allowed) is accepted and denotes the sum of the selected components. -/
theorem C08_extract_denote [CommSemiring α] (K : Ktensor α) (l : List Int) (h1 : l ≠ [])
    (h2 : l.length ≤ K.ncomp) (h3 : ∀ k ∈ l, 0 ≤ k ∧ k < (K.ncomp : Int)) (hN : K.factors ≠ []) :
    ∃ K', K.extract (.list l) = .ok K' ∧ K'.shape = K.shape ∧ K'.ncomp = l.length ∧
      ∀ i : List Nat, K'.get i = (l.map fun k => K.weights.getD k.toNat 0 * K.comp k.toNat i).sum := by
  refine ⟨_, extract_go_ok K l h1 h2 h3 hN, permuteComps_shape K _, by simp [permuteComps_ncomp], ?_⟩
  intro i
  rw [permuteComps_get, List.map_map]
  rfl

/-- a single int is the one-element list -/
theorem C08_extract_int [Zero α] (K : Ktensor α) (k : Int) : K.extract (.int k) = K.extract (.list [k]) := rfl

/-- no argument: a copy -/
theorem C08_extract_none [Zero α] (K : Ktensor α) : K.extract .none = .ok K := rfl

/-- An empty list, more indices than components, or any index outside `0..R-1` (negative
included) is rejected. -/
theorem C08_extract_rejects [Zero α] (K : Ktensor α) (l : List Int)
    (h : l = [] ∨ K.ncomp < l.length ∨ ∃ k ∈ l, k < 0 ∨ (K.ncomp : Int) ≤ k) :
    K.extract (.list l) = .error .reject := extract_go_rejects K l h

/-! ### vectors -/

/-- `from_vector(tovec(K, w), K.shape, w)` reproduces `K` exactly when the weights are included,
and `K` with unit weights when they are not (for a well-formed tensor with at least one mode;
without weights the shape must not be all zero, otherwise the code divides by zero). -/
theorem C08_vec_roundtrip [Zero α] [One α] (K : Ktensor α) (w : Bool) (hK : K.WF) (hN : K.factors ≠ [])
    (hpos : 0 < K.shape.sum + if w then 1 else 0) :
    fromVector (K.tovec w) K.shape w
      = .ok ⟨if w then K.weights else List.replicate K.ncomp 1, K.factors⟩ :=
  fromVector_tovec K w hK hN hpos

/-- `update` with the weights and every mode, fed with `L.tovec()`, turns any tensor of the same
shape and rank into `L`. -/
theorem C08_update_roundtrip [Zero α] (K L : Ktensor α) (hL : L.WF) (hs : K.shape = L.shape)
    (hR : K.ncomp = L.ncomp) :
    K.update ((-1 : Int) :: (List.range K.factors.length).map Int.ofNat) (L.tovec true) = .ok L :=
  update_tovec K L hL hs hR

/-! ### arithmetic -/

/-- `K + L` (same shape) denotes the entry-wise sum. -/
theorem C08_add [CommSemiring α] (K L : Ktensor α) (hK : K.WF) (hs : K.shape = L.shape) (hN : K.factors ≠ []) :
    ∃ M, K.add L = .ok M ∧ M.ncomp = K.ncomp + L.ncomp ∧ ∀ i : List Nat, M.get i = K.get i + L.get i := by
  refine ⟨⟨K.weights ++ L.weights, List.zipWith Mat.hcat K.factors L.factors⟩, ?_, by simp [ncomp],
    fun i => get_concat K L hK hs i⟩
  unfold Ktensor.add
  have : (K.ndims == 0) = false := by simp [ndims]; exact hN
  simp [hs, this]

/-- `K - L` denotes the entry-wise difference. -/
theorem C08_sub [CommRing α] (K L : Ktensor α) (hK : K.WF) (hs : K.shape = L.shape) (hN : K.factors ≠ []) :
    ∃ M, K.sub L = .ok M ∧ M.ncomp = K.ncomp + L.ncomp ∧ ∀ i : List Nat, M.get i = K.get i - L.get i := by
  refine ⟨⟨K.weights ++ L.weights.map (- ·), List.zipWith Mat.hcat K.factors L.factors⟩, ?_, by simp [ncomp], ?_⟩
  · unfold Ktensor.sub
    have : (K.ndims == 0) = false := by simp [ndims]; exact hN
    simp [hs, this]
  · intro i
    have := get_concat K ⟨L.weights.map (- ·), L.factors⟩ hK hs i
    simp only at this
    rw [this, get_map_weights_neg, sub_eq_add_neg]

/-- tensors of different shape cannot be added or subtracted -/
theorem C08_add_sub_rejects [Neg α] (K L : Ktensor α) (hs : K.shape ≠ L.shape) :
    K.add L = .error .reject ∧ K.sub L = .error .reject := by
  unfold Ktensor.add Ktensor.sub
  simp [hs]

/-- `-K` denotes the negated array. -/
theorem C08_neg [CommRing α] (K : Ktensor α) (hN : K.factors ≠ []) :
    ∃ M, K.neg = .ok M ∧ M.factors = K.factors ∧ ∀ i : List Nat, M.get i = - K.get i := by
  refine ⟨⟨K.weights.map (- ·), K.factors⟩, ?_, rfl, fun i => get_map_weights_neg K.weights K.factors i⟩
  unfold Ktensor.neg
  have : (K.ndims == 0) = false := by simp [ndims]; exact hN
  simp [this]

/-- `c * K` and `K * c` denote the multiple. -/
theorem C08_smul [CommRing α] (c : α) (K : Ktensor α) (hN : K.factors ≠ []) :
    ∃ M, K.smul c = .ok M ∧ M.factors = K.factors ∧ ∀ i : List Nat, M.get i = c * K.get i := by
  refine ⟨⟨K.weights.map (c * ·), K.factors⟩, ?_, rfl, fun i => get_map_weights_mul c K.weights K.factors i⟩
  unfold Ktensor.smul
  have : (K.ndims == 0) = false := by simp [ndims]; exact hN
  simp [this]

/-- `+K` and `copy()` are the object itself (storage identity is C05's subject). -/
theorem C08_pos_copy (K : Ktensor α) : K.pos = K ∧ K.copy = K := ⟨rfl, rfl⟩

/-! ### score -/

section score
variable [Field α] [LinearOrder α] [IsStrictOrderedRing α]

/-- Whenever `score` returns, the returned matching is a permutation of the receiver's
components and the returned tensor (the receiver, normalised, with its components reordered
by the matching) denotes the receiver.  (That `score` does return on valid input is
`C08_score_returns`.) -/
theorem C08_score_perm {S : Services α} (hS : S.Lawful) (ten : α) (thr : Nat → α) (nc : Nat → α)
    (K other : Ktensor α) (wp : Bool) (t : Option α) {r : ScoreResult α}
    (h : score S ten thr nc K other wp t = .ok r) :
    isPermOf (r.perm.map Int.toNat) K.ncomp = true ∧ (∀ k ∈ r.perm, 0 ≤ k) ∧
    r.A.ncomp = K.ncomp ∧ r.A.shape = K.shape ∧
      ∀ i : List Nat, i.length = K.factors.length → r.A.get i = K.get i :=
  score_denote hS ten thr nc K other wp t h

/-- `score` RETURNS on every valid request: for two Kruskal tensors of the same shape with at
least one mode, `1 ≤ ncomponents(other) ≤ ncomponents(self)` and a threshold in `[0, 1]`, the
greedy loop finds an un-blanked entry in each of its `RB` rounds (every penalised congruence is
`≥ 0 > -10`, and fewer than `RB ≤ RA` rows and columns are blanked), so the model returns `ok`;
the returned index list is a permutation of the receiver's components with non-negative entries;
the returned tensor is the normalised receiver with its components in that order; the reported
score is the mean over the reference's components `j` of the entry `C[perm[j], j]` of the matrix
of (penalised) congruences `C` that the code builds; and the flag is `score ≤ threshold`. -/
theorem C08_score_returns {S : Services α} (hS : S.Lawful) (ten : α) (hten : 0 < ten) (thr : Nat → α)
    (nc : Nat → α) (K other : Ktensor α) (wp : Bool) (t : Option α)
    (hshape : K.shape = other.shape) (hN : 0 < K.factors.length)
    (hthr : 0 ≤ t.getD (thr K.ndims) ∧ t.getD (thr K.ndims) ≤ 1)
    (hR : other.ncomp ≤ K.ncomp) (hRB : 0 < other.ncomp) :
    ∃ (A B : Ktensor α) (r : ScoreResult α),
      normalize S K none false .two none = .ok A ∧ normalize S other none false .two none = .ok B ∧
      scoreMatrix S K other wp = .ok (A, B, congruenceMat A B wp) ∧
      score S ten thr nc K other wp t = .ok r ∧
      isPermOf (r.perm.map Int.toNat) K.ncomp = true ∧ (∀ k ∈ r.perm, 0 ≤ k) ∧
      r.A = A.permuteComps (r.perm.map Int.toNat) ∧
      r.score = ((List.range other.ncomp).map fun j =>
        Mat.get (congruenceMat A B wp) (r.perm.getD j 0).toNat j).sum / nc other.ncomp ∧
      r.flag = !(decide (t.getD (thr K.ndims) < r.score)) := by
  obtain ⟨A, B, r, _, hA, hB, h1, h2, h3, h4, h5, h6, _⟩ :=
    score_returns hS ten hten thr nc K other wp t hshape hN hthr hR hRB
  exact ⟨A, B, r, hA, hB, scoreMatrix_eq S K other wp hA hB, h1, h2, h3, h4, h5, h6⟩

/-- The matching is the greedy one: there is an order in which the reference's components were
matched such that each matched pair holds a largest entry of `C` among the rows (components of
the receiver) and columns (components of the reference) not used by the earlier pairs. -/
theorem C08_score_greedy {S : Services α} (hS : S.Lawful) (ten : α) (hten : 0 < ten) (thr : Nat → α)
    (nc : Nat → α) (K other : Ktensor α) (wp : Bool) (t : Option α) {r : ScoreResult α} {A B : Ktensor α}
    (h : score S ten thr nc K other wp t = .ok r)
    (hA : normalize S K none false .two none = .ok A) (hB : normalize S other none false .two none = .ok B)
    (hshape : K.shape = other.shape) (hN : 0 < K.factors.length)
    (hthr : 0 ≤ t.getD (thr K.ndims) ∧ t.getD (thr K.ndims) ≤ 1)
    (hR : other.ncomp ≤ K.ncomp) (hRB : 0 < other.ncomp) :
    ∃ order : List Nat, order.Perm (List.range other.ncomp) ∧
      ∀ s, s < other.ncomp → ∀ a b, a < K.ncomp → b < other.ncomp →
        (∀ j' ∈ order.take s, (r.perm.getD j' 0).toNat ≠ a) → b ∉ order.take s →
        Mat.get (congruenceMat A B wp) a b
          ≤ Mat.get (congruenceMat A B wp) (r.perm.getD (order.getD s 0) 0).toNat (order.getD s 0) := by
  obtain ⟨A', B', r', order, hA', hB', h1, _, _, _, _, _, h7, h8⟩ :=
    score_returns hS ten hten thr nc K other wp t hshape hN hthr hR hRB
  rw [hA] at hA'; injection hA' with hA'; subst hA'
  rw [hB] at hB'; injection hB' with hB'; subst hB'
  rw [h] at h1; injection h1 with h1; subst h1
  exact ⟨order, h7, h8⟩

/-- Requests that the code refuses: another shape, a threshold outside `[0, 1]`, a reference with
more components than the receiver. -/
theorem C08_score_rejects (S : Services α) (ten : α) (thr : Nat → α) (nc : Nat → α)
    (K other : Ktensor α) (wp : Bool) (t : Option α)
    (h : K.shape ≠ other.shape ∨ t.getD (thr K.ndims) < 0 ∨ 1 < t.getD (thr K.ndims) ∨ K.ncomp < other.ncomp) :
    score S ten thr nc K other wp t = .error .reject := by
  unfold score
  by_cases h1 : K.shape = other.shape
  · have e1 : (K.shape != other.shape) = false := by simp [h1]
    simp only [e1, Bool.false_eq_true, if_false]
    by_cases h2 : (decide (t.getD (thr K.ndims) < 0) || decide (1 < t.getD (thr K.ndims))) = true
    · rw [if_pos h2]
    · rw [if_neg h2]
      rw [Bool.or_eq_true, decide_eq_true_eq, decide_eq_true_eq, not_or] at h2
      rcases h with h | h | h | h
      · exact absurd h1 h
      · exact absurd h h2.1
      · exact absurd h h2.2
      · rw [if_pos (decide_eq_true h)]
  · have e1 : (K.shape != other.shape) = true := by simp [h1]
    simp only [e1, if_true]

/-- `greedy=False` is not implemented: the code's first statement is `assert greedy`; with
`greedy=True` (the default) `scoreG` is `score`. -/
theorem C08_score_nongreedy_rejects (S : Services α) (ten : α) (thr : Nat → α) (nc : Nat → α)
    (K other : Ktensor α) (wp : Bool) (t : Option α) :
    scoreG S ten thr nc K other wp t false = .error .reject ∧
    scoreG S ten thr nc K other wp t true = score S ten thr nc K other wp t := ⟨rfl, rfl⟩

end score

/-! ### sequences of calls on live objects -/

section seq
variable [Field α] [LinearOrder α] [IsStrictOrderedRing α]

/-- In a sequence of calls on an environment of live Kruskal tensors, parameter vectors and
factor lists (`Ops/KruskalSeq.lean`), a re-parameterising call (`normalize` with any arguments,
`arrange`, `fixsigns` with or without a reference, `redistribute`) replaces its receiver by a
tensor of the same rank and shape denoting the same array — wherever in the sequence it
happens, whatever produced the receiver (`update` from a shared vector, `from_vector`,
`extract`, `copy`, `+`, `-`, unary `-` / `+`, scalar `*` on either side, `permute`, `symmetrize`,
the constructor applied to a returned factor list or to another tensor's arrays, …). -/
theorem C08_seq_inplace {S : Services α} (hS : S.Lawful) (E E' : Env α) (op : SeqOp) (k : Nat)
    (hr : op.isReparam = true) (ht : op.target = some k) (h : runStep S E op = .ok E') :
    ∃ K K', E.ks[k]? = some K ∧ E'.ks[k]? = some K' ∧ K'.ncomp = K.ncomp ∧ K'.shape = K.shape ∧
      ∀ i : List Nat, i.length = K.factors.length → K'.get i = K.get i := by
  obtain ⟨K, K', h1, h2, r⟩ := runStep_reparam hS E E' op k hr ht h
  exact ⟨K, K', h1, h2, r.ncomp, r.shape, r.get⟩

/-- Frame, for all twenty kinds of step (six in place, fourteen creating — every `ktensor`
operation that returns a Kruskal tensor, vector or factor list): every call changes at most the
slot of its receiver; every other live tensor, every
live vector (the data vector of `update` included) and every live factor list keeps its value,
new objects are appended.  This is the value-level statement; that the real objects share no
storage, so that NumPy's in-place writes cannot reach them, is `C05_inplace_only_ktensor` /
`C05_fresh_ktensor_ops`, and the harness compares every other live object bit for bit after
every step. -/
theorem C08_seq_frame (S : Services α) (E E' : Env α) (op : SeqOp) (h : runStep S E op = .ok E') :
    (∀ j, j < E.ks.length → op.target ≠ some j → E'.ks[j]? = E.ks[j]?) ∧
    (∃ t, E'.vs = E.vs ++ t) ∧ (∃ t, E'.ls = E.ls ++ t) := runStep_frame S E E' op h

end seq

/-! ### isequal -/

/-- `isequal` answers True exactly when weights and factor matrices coincide (so the exact
round trips above can be observed with it), and it never raises. -/
theorem C08_isequal [Field α] [LinearOrder α] [IsStrictOrderedRing α] (K L : Ktensor α) :
    (isequal K L = .ok true ↔ K = L) ∧ ∃ b, isequal K L = .ok b :=
  ⟨isequal_iff K L, isequal_total K L⟩

/-- Before 8acb721 `isequal` ignored the number of modes: a 1-way and a 2-way tensor sharing the
first factor matrix compared equal, and the comparison the other way round raised. -/
theorem C08_isequal_pinned_counterexample :
    let K : Ktensor Int := ⟨[1, 1], [[[1, 2], [3, 4]]]⟩
    let L : Ktensor Int := ⟨[1, 1], [[[1, 2], [3, 4]], [[5, 6]]]⟩
    isequalG false K L = .ok true ∧ isequalG false L K = .error .reject ∧
    isequalG true K L = .ok false ∧ isequalG true L K = .ok false := by decide

/-! ### the defect repaired in 13c8da4, and non-vacuity -/

/-- 1-norm services over ℚ-like fields for the examples below (on columns `(±1, 0)` the 1-, 2-
and max-norm coincide). -/
def exampleServices : Services Int :=
  ⟨fun _ v => (v.map absOf).sum, argsortStable, fun _ x => x⟩

/-- The code before 13c8da4 changed the tensor: with one negatively correlated mode out of
three (scores -1, 0, 1) it flipped ONE column, so entry `[0,0,0]` went from `-2` to `2`; the
repaired code flips two columns here and keeps the tensor. -/
theorem C08_fixsigns_ref_pinned_counterexample :
    let K : Ktensor Int := ⟨[2], [[[-1], [0]], [[1], [0]], [[1], [0]]]⟩
    let O : Ktensor Int := ⟨[1], [[[1], [0]], [[0], [1]], [[1], [0]]]⟩
    (fixsignsRefG exampleServices false K O).map (fun A => A.get [0, 0, 0]) = .ok 2 ∧
    (fixsignsRefG exampleServices true K O).map (fun A => A.get [0, 0, 0]) = .ok (-2) ∧
    K.get [0, 0, 0] = -2 := by decide

/-- The witness of the repaired defect, seen through the alignment normal form: before the call
component 0 has sign scores `-1, 0, 1` (not aligned: the negative one is not of least magnitude);
the call flips modes 0 and 1 and the component is aligned; a second call changes nothing. -/
example :
    let K : Ktensor Int := ⟨[2], [[[-1], [0]], [[1], [0]], [[1], [0]]]⟩
    let O : Ktensor Int := ⟨[1], [[[1], [0]], [[0], [1]], [[1], [0]]]⟩
    refScores K O 0 = [-1, 0, 1] ∧ alignedComp K O 0 = false ∧
    (fixsignsRefG exampleServices true K O).map (fun A => (refScores A O 0, alignedComp A O 0))
      = .ok ([1, 0, 1], true) ∧
    ((fixsignsRefG exampleServices true K O).bind fun A => fixsignsRefG exampleServices true A O)
      = fixsignsRefG exampleServices true K O := by decide

example : isPermOf [2, 0, 1] 3 = true := by decide
example : (⟨[2, 3], [[[1, 2], [3, 4]]]⟩ : Ktensor Int).WF := by
  intro A hA row hrow
  simp only [List.mem_singleton] at hA
  subst hA
  rcases List.mem_cons.1 hrow with rfl | hrow
  · rfl
  · rw [List.mem_singleton.1 hrow]; rfl
example : ((⟨[2, -3], [[[1, 2], [3, 4]], [[1, 0]]]⟩ : Ktensor Int).redistribute 1).map (·.weights) = .ok [1, 1] := by
  decide
example : (⟨[2, -3], [[[1, 2], [3, 4]]]⟩ : Ktensor Int).tovec true = [2, -3, 1, 3, 2, 4] := by decide

/-! ### non-vacuity of the new theorems: lawful services exist over ℝ, and the hypotheses of
`C08_score_returns` / `C08_fixsigns_ref_accepts` hold for concrete tensors -/

example : realServices.Lawful := realServices_lawful

/-- a 2 × 3 tensor with two components (one weight negative, one zero entry per column) … -/
noncomputable def exK : Ktensor ℝ := ⟨[2, -3], [[[1, 0], [0, 2]], [[1, 1], [0, -1], [2, 0]]]⟩
/-- … and a one-component reference of the same shape -/
noncomputable def exO : Ktensor ℝ := ⟨[1], [[[0], [-1]], [[1], [1], [0]]]⟩

example : ∃ r, score realServices 10 (fun n => (99 / 100 : ℝ) ^ n) (fun n => (n : ℝ)) exK exO true (some 1) = .ok r := by
  obtain ⟨_, _, r, _, _, _, h, _⟩ := C08_score_returns realServices_lawful (10 : ℝ) (by norm_num)
    (fun n => (99 / 100 : ℝ) ^ n) (fun n => (n : ℝ)) exK exO true (some 1) rfl (by decide)
    (by simp) (by decide) (by decide)
  exact ⟨r, h⟩

example : ∃ K', fixsignsRef realServices exK exO = .ok K' ∧ fixsignsRef realServices K' exO = .ok K' := by
  obtain ⟨K', h⟩ := C08_fixsigns_ref_accepts realServices_lawful exK exO (by decide) rfl (by decide)
  exact ⟨K', h, C08_fixsigns_ref_idem realServices_lawful exK exO h⟩

end Pyttb
