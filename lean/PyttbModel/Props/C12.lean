/-
C12 — GCP losses, gradients and their tensor-level evaluation are mutually consistent.
Part A: the ten built-in (loss, gradient) pairs, as *generated from the current source*
(`Generated/Handles.lean`), are derivative pairs on the domain given by the selection
table's lower bound, and the table pairs every objective with its own loss, gradient and
bound.  Part B: tensor-level evaluation (`Alg/GcpFg.lean`).
Only property theorems and their non-vacuity examples live here.
-/
import PyttbModel.Lemmas.GcpHandles
import PyttbModel.Lemmas.GcpFg
set_option linter.unusedTactic false
set_option linter.unreachableTactic false
set_option linter.unnecessarySeqFocus false
namespace Pyttb
open Handles Expr

/-! ### Part A — every gradient handle is the derivative of its loss handle -/

/-- Gaussian `(m - x)²`: derivative `2 (m - x)` everywhere. -/
theorem C12_deriv_gaussian (x p m : ℝ) :
    HasDerivAt (fun m => gaussian.evalR x p m) (gaussian_grad.evalR x p m) m := by
  have h := hasDerivAt_D x p gaussian m (by gcp_defined [gaussian])
  refine h.congr_deriv ?_
  simp [gaussian, gaussian_grad, D, evalR] <;> gcp_close

/-- Bernoulli with odds link `log (m + 1) - x log (m + EPS)` on `m ≥ 0`. -/
theorem C12_deriv_bernoulli_odds (x p m : ℝ) (hm : 0 ≤ m) :
    HasDerivAt (fun m => bernoulli_odds.evalR x p m) (bernoulli_odds_grad.evalR x p m) m := by
  gcp_facts m hm
  have h := hasDerivAt_D x p bernoulli_odds m (by gcp_defined [bernoulli_odds])
  refine h.congr_deriv ?_
  simp [bernoulli_odds, bernoulli_odds_grad, D, evalR] <;> gcp_close

/-- Bernoulli with logit link `log (eᵐ + 1) - x m` everywhere. -/
theorem C12_deriv_bernoulli_logit (x p m : ℝ) :
    HasDerivAt (fun m => bernoulli_logit.evalR x p m) (bernoulli_logit_grad.evalR x p m) m := by
  have h1 : 0 < Real.exp m + 1 := by positivity
  have h1' : 0 < 1 + Real.exp m := by positivity
  have h := hasDerivAt_D x p bernoulli_logit m (by gcp_defined [bernoulli_logit])
  refine h.congr_deriv ?_
  simp [bernoulli_logit, bernoulli_logit_grad, D, evalR] <;> gcp_close

/-- Poisson `m - x log (m + EPS)` on `m ≥ 0`. -/
theorem C12_deriv_poisson (x p m : ℝ) (hm : 0 ≤ m) :
    HasDerivAt (fun m => poisson.evalR x p m) (poisson_grad.evalR x p m) m := by
  gcp_facts m hm
  have h := hasDerivAt_D x p poisson m (by gcp_defined [poisson])
  refine h.congr_deriv ?_
  simp [poisson, poisson_grad, D, evalR] <;> gcp_close

/-- Poisson with log link `eᵐ - x m` everywhere. -/
theorem C12_deriv_poisson_log (x p m : ℝ) :
    HasDerivAt (fun m => poisson_log.evalR x p m) (poisson_log_grad.evalR x p m) m := by
  have h := hasDerivAt_D x p poisson_log m (by gcp_defined [poisson_log])
  refine h.congr_deriv ?_
  simp [poisson_log, poisson_log_grad, D, evalR] <;> gcp_close

/-- Rayleigh `2 log (m + EPS) + (π/4) (x / (m + EPS))²` on `m ≥ 0`. -/
theorem C12_deriv_rayleigh (x p m : ℝ) (hm : 0 ≤ m) :
    HasDerivAt (fun m => rayleigh.evalR x p m) (rayleigh_grad.evalR x p m) m := by
  gcp_facts m hm
  have h := hasDerivAt_D x p rayleigh m (by gcp_defined [rayleigh])
  refine h.congr_deriv ?_
  simp [rayleigh, rayleigh_grad, D, evalR] <;> gcp_close

/-- Gamma `x / (m + EPS) + log (m + EPS)` on `m ≥ 0`. -/
theorem C12_deriv_gamma (x p m : ℝ) (hm : 0 ≤ m) :
    HasDerivAt (fun m => gamma.evalR x p m) (gamma_grad.evalR x p m) m := by
  gcp_facts m hm
  have h := hasDerivAt_D x p gamma m (by gcp_defined [gamma])
  refine h.congr_deriv ?_
  simp [gamma, gamma_grad, D, evalR] <;> gcp_close

/-- Negative binomial `(r + x) log (m + 1) - x log (m + EPS)` on `m ≥ 0`, any number of
trials `r` (holds for the repaired code, /repo 782e982). -/
theorem C12_deriv_negative_binomial (x r m : ℝ) (hm : 0 ≤ m) :
    HasDerivAt (fun m => negative_binomial.evalR x r m) (negative_binomial_grad.evalR x r m) m := by
  gcp_facts m hm
  have h := hasDerivAt_D x r negative_binomial m (by gcp_defined [negative_binomial])
  refine h.congr_deriv ?_
  simp [negative_binomial, negative_binomial_grad, D, evalR] <;> gcp_close

/-- The pair of the pinned commit (explicit copies `negbinLossPinned`, `negbinGradPinned` of the
old source, not the generated definitions) was not a derivative pair: with `r = 2`, `x = 3` the
old gradient `(r + 1)/(1 + m) - x/(m + EPS)` is not the derivative of the loss at `m = 1`
(it is off by `(x - 1)/(m + 1) = 1`).  Fixed in /repo by 782e982. -/
theorem C12_negbin_counterexample :
    ¬ HasDerivAt (fun m => negbinLossPinned.evalR 3 2 m) (negbinGradPinned.evalR 3 2 1) 1 := by
  intro h
  have he := EPS_pos
  have h1 := hasDerivAt_D 3 2 negbinLossPinned 1
    (by simp only [negbinLossPinned, Defined, evalR]; norm_num; linarith)
  have := h.unique h1
  norm_num [negbinGradPinned, negbinLossPinned, D, evalR] at this
  have e : (3 : ℝ) / (1 + ((EPS : ℚ) : ℝ)) = 3 * (1 + ((EPS : ℚ) : ℝ))⁻¹ := div_eq_mul_inv _ _
  rw [e] at this
  linarith

/-- Beta divergence `(1/b)(m + EPS)ᵇ - (1/(b-1)) x (m + EPS)ᵇ⁻¹` on `m ≥ 0`, `b ∉ {0, 1}`. -/
theorem C12_deriv_beta (x b m : ℝ) (hm : 0 ≤ m) (hb0 : b ≠ 0) (hb1 : b ≠ 1) :
    HasDerivAt (fun m => beta.evalR x b m) (beta_grad.evalR x b m) m := by
  gcp_facts m hm
  have hb1' : b - 1 ≠ 0 := sub_ne_zero.2 hb1
  have h := hasDerivAt_D x b beta m (by gcp_defined [beta])
  refine h.congr_deriv ?_
  simp [beta, beta_grad, D, evalR]
  gcp_rpow_close

/-- Huber, inner open region `|x - m| < t`. -/
theorem C12_deriv_huber_inside (x t m : ℝ) (h : |x - m| < t) :
    HasDerivAt (fun m => huber.evalR x t m) (huber_grad.evalR x t m) m :=
  huber_deriv_inside x t m h

/-- Huber, outer open region `t < |x - m|`. -/
theorem C12_deriv_huber_outside (x t m : ℝ) (ht : 0 ≤ t) (h : t < |x - m|) :
    HasDerivAt (fun m => huber.evalR x t m) (huber_grad.evalR x t m) m :=
  huber_deriv_outside x t m ht h

/-- Huber at the kink `|x - m| = t` (value and both one-sided derivatives agree). -/
theorem C12_deriv_huber_kink (x t m : ℝ) (ht : 0 < t) (h : |x - m| = t) :
    HasDerivAt (fun m => huber.evalR x t m) (huber_grad.evalR x t m) m :=
  huber_deriv_kink x t m ht h

/-- Huber with threshold `t > 0`: everywhere. -/
theorem C12_deriv_huber (x t m : ℝ) (ht : 0 < t) :
    HasDerivAt (fun m => huber.evalR x t m) (huber_grad.evalR x t m) m := by
  rcases lt_trichotomy |x - m| t with h | h | h
  · exact huber_deriv_inside x t m h
  · exact huber_deriv_kink x t m ht h
  · exact huber_deriv_outside x t m ht.le h

/-- The selection table of `fg_setup.setup` pairs every objective with its own loss, its
own gradient and the lower bound of that loss's domain, and binds the extra parameter
exactly for the handles that mention one (the whole finite table is checked). -/
theorem C12_table_pairs (o : Objective) :
    (setupTable o).fn = lossOf o ∧ (setupTable o).grad = gradOf o ∧
    (setupTable o).lower = lowerOf o ∧
    (setupTable o).hasParam = !((setupTable o).fn.noParam && (setupTable o).grad.noParam) := by
  cases o <;> exact ⟨rfl, rfl, rfl, by decide⟩

/-- What `fg_setup.setup` returns for an objective is a (loss, derivative) pair at every
model value that respects the returned lower bound, for every data value and every
admissible extra parameter. -/
theorem C12_deriv_table (o : Objective) (x p m : ℝ) (hp : ParamOK o p)
    (hm : (setupTable o).lower.holds m) :
    HasDerivAt (fun m => (setupTable o).fn.evalR x p m) ((setupTable o).grad.evalR x p m) m := by
  cases o <;> simp only [setupTable, Bound.holds, Rat.cast_zero] at hm ⊢
  · exact C12_deriv_gaussian x p m
  · exact C12_deriv_bernoulli_odds x p m hm
  · exact C12_deriv_bernoulli_logit x p m
  · exact C12_deriv_poisson x p m hm
  · exact C12_deriv_poisson_log x p m
  · exact C12_deriv_rayleigh x p m hm
  · exact C12_deriv_gamma x p m hm
  · exact C12_deriv_huber x p m hp
  · exact C12_deriv_negative_binomial x p m hm
  · exact C12_deriv_beta x p m hm hp.1 hp.2

example : ParamOK .HUBER 1 ∧ (setupTable .POISSON).lower.holds 2 ∧ ParamOK .BETA (1/2) := by
  simp [ParamOK, setupTable, Bound.holds]


/-! ### Part B — tensor-level evaluation (`fg.evaluate`, `fg_est.estimate`) -/

/-- The objective `evaluate` returns for a Kruskal model is the (optionally weighted) sum of
the loss over all entries: `Σ_i w_i · f(x_i, m_i)` with `m_i` the value the model denotes. -/
theorem C12_objective_sum {α : Type} [Add α] [Mul α] [One α] [Zero α] (K : Ktensor α) (X : Dense α)
    (W : Option (Dense α)) (f : Handle α) (g : Option (Handle α))
    (hN : 2 ≤ K.factors.length) (hX : X.shape = K.shape) (hXwf : X.WF)
    (hW : ∀ W', W = some W' → W'.shape = K.shape ∧ W'.WF) :
    ∃ G, evaluate K X W (some f) g = .ok ⟨some (gcpObjective K X W f), G⟩ :=
  ⟨_, evaluate_ok K X W (some f) g (Or.inl rfl) hN hX hXwf hW⟩

/-- Computing all mode gradients at once equals computing them one mode at a time: the `k`-th
matrix `evaluate` returns is the mode-`k` MTTKRP (by its defining sum) of the weighted
derivative tensor with the model — the factor matrices give the products and every column
carries the model weight of its component.  (That `tensor.mttkrps` itself agrees with the
per-mode `tensor.mttkrp` on the real code is checked by the harness on every run.) -/
theorem C12_all_modes_eq_each {α : Type} [Add α] [Mul α] [One α] [Zero α] (K : Ktensor α) (X : Dense α)
    (W : Option (Dense α)) (f : Option (Handle α)) (g : Handle α)
    (hN : 2 ≤ K.factors.length) (hX : X.shape = K.shape) (hXwf : X.WF)
    (hW : ∀ W', W = some W' → W'.shape = K.shape ∧ W'.WF) (k : Nat) (hk : k < K.factors.length) :
    ∃ F G, evaluate K X W f (some g) = .ok ⟨F, some G⟩ ∧ G.length = K.factors.length ∧
      G[k]? = some (scaleCols (mttkrpDef ⟨K.shape, wY K X W g⟩ K.factors K.ncomp k) K.weights) := by
  refine ⟨_, _, evaluate_ok K X W f (some g) (Or.inr rfl) hN hX hXwf hW, ?_, ?_⟩
  · simp [mttkrpsK, mttkrpsDef, length_shape]
  · simp [mttkrpsK, mttkrpsDef, length_shape, hk]

/-- **The gradients are the exact partial derivatives of the objective.**  For every mode `k`,
row `a` and component `r`, and for a model with *arbitrary* weights `λ` (non-unit, negative,
zero): the objective, as a function of the single factor entry `A_k[a, r]`, has derivative
`G_k[a, r]` there, `G` the gradient list `evaluate` returns — for any handle pair that is a
(loss, derivative) pair at the model values that occur.  (Holds since /repo 05825c3, where
`evaluate` hands the model itself to `mttkrps`; before, the entry was off by the factor
`λ_r`.) -/
theorem C12_gradient_is_partial_derivative (K : Ktensor ℝ) (X : Dense ℝ) (W : Option (Dense ℝ)) (f g : Handle ℝ)
    (k a r : Nat) (hN : 2 ≤ K.factors.length) (hWF : K.WF) (hX : X.shape = K.shape) (hXwf : X.WF)
    (hW : ∀ W', W = some W' → W'.shape = K.shape ∧ W'.WF)
    (hk : k < K.factors.length) (ha : a < (K.factors.getD k []).length) (hr : r < K.ncomp)
    (hfg : ∀ i ∈ allSubs K.shape, HasDerivAt (f (X.get i)) (g (X.get i) (K.get i)) (K.get i)) :
    ∃ G, evaluate K X W (some f) (some g) = .ok ⟨some (gcpObjective K X W f), some G⟩ ∧
      HasDerivAt (fun t => gcpObjective (K.setEntry k a r t) X W f)
        ((G.getD k []).get a r) ((K.factors.getD k []).get a r) := by
  refine ⟨_, evaluate_ok K X W (some f) (some g) (Or.inl rfl) hN hX hXwf hW, ?_⟩
  have h := gradient_is_partial K X W f g k a r hWF hk ha hr hfg
  have e : (mttkrpsK ⟨K.shape, wY K X W g⟩ K).getD k []
      = scaleCols (mttkrpDef ⟨K.shape, wY K X W g⟩ K.factors K.ncomp k) K.weights := by
    simp [mttkrpsK, mttkrpsDef, length_shape, hk]
  rw [e, scaleCols_get, mul_comm]
  exact h

/-- Parts A and B together: for every built-in objective, with the handles `fg_setup.setup`
returns (as generated from the current source), admissible parameter, and all model values
inside the returned lower bound, the gradient matrices of `evaluate` are the partial
derivatives of the objective (any model weights). -/
theorem C12_gradient_is_partial_derivative_builtin (o : Objective) (p : ℝ) (K : Ktensor ℝ) (X : Dense ℝ)
    (W : Option (Dense ℝ)) (k a r : Nat) (hp : ParamOK o p)
    (hN : 2 ≤ K.factors.length) (hWF : K.WF) (hX : X.shape = K.shape) (hXwf : X.WF)
    (hW : ∀ W', W = some W' → W'.shape = K.shape ∧ W'.WF)
    (hk : k < K.factors.length) (ha : a < (K.factors.getD k []).length) (hr : r < K.ncomp)
    (hdom : ∀ i ∈ allSubs K.shape, (setupTable o).lower.holds (K.get i)) :
    ∃ G, evaluate K X W (some fun x m => (setupTable o).fn.evalR x p m)
          (some fun x m => (setupTable o).grad.evalR x p m)
        = .ok ⟨some (gcpObjective K X W fun x m => (setupTable o).fn.evalR x p m), some G⟩ ∧
      HasDerivAt (fun t => gcpObjective (K.setEntry k a r t) X W fun x m => (setupTable o).fn.evalR x p m)
        ((G.getD k []).get a r) ((K.factors.getD k []).get a r) :=
  C12_gradient_is_partial_derivative K X W _ _ k a r hN hWF hX hXwf hW hk ha hr
    (fun i hi => C12_deriv_table o (X.get i) p (K.get i) hp (hdom i hi))

/-- The code before /repo 05825c3 handed only the factor matrices to `mttkrps`: for the
two-mode, one-component model `λ = 2`, `A₀ = A₁ = [[1]]`, data `0` and the Gaussian pair
the old gradient entry was `4`, the partial derivative of `(2·t·1 - 0)²` at `t = 1` is `8`
(which is what the repaired `evaluate` returns). -/
theorem C12_evaluate_weights_pinned_counterexample :
    (mttkrpsDef (α := Int) ⟨[1, 1], [2 * (2 - 0)]⟩ [[[1]], [[1]]] 1).getD 0 [] = [[4]] ∧
    evaluate (α := Int) ⟨[2], [[[1]], [[1]]]⟩ ⟨[1, 1], [0]⟩ none
      (some fun x m => (m - x) * (m - x)) (some fun x m => 2 * (m - x))
      = .ok ⟨some 4, some [[[8]], [[8]]]⟩ := by
  constructor <;> rfl

/-- What `evaluate` refuses: no handle at all, a model with fewer than two modes, data of
another shape. -/
theorem C12_evaluate_rejects {α : Type} [Add α] [Mul α] [One α] [Zero α] (K : Ktensor α) (X : Dense α)
    (W : Option (Dense α)) (f g : Option (Handle α)) :
    evaluate K X W none none = .error .reject ∧
    (K.factors.length < 2 → evaluate K X W f g = .error .reject) ∧
    (X.shape ≠ K.shape → evaluate K X W f g = .error .reject) := by
  refine ⟨by simp [evaluate], ?_, ?_⟩
  · intro h
    by_cases h0 : (f.isNone && g.isNone) = true <;> simp only [evaluate, h0, h, if_true] <;> rfl
  · intro h
    have h' : ¬ K.factors.length < 2 ∨ K.factors.length < 2 := by omega
    by_cases h0 : (f.isNone && g.isNone) = true <;> rcases h' with h1 | h1 <;>
      simp only [evaluate, h0, h1, h, ne_eq, not_false_eq_true, if_true, if_false] <;> rfl

/-- `estimate_helper`'s two passes: whatever the gathered factor rows `Uexp[0..ndim-1]`
(each with `n` rows) are, afterwards `Zexp[k]` has `n` rows and its entry `(s, r)` is the
product of the `(s, r)` entries of all `Uexp[j]`, `j ≠ k` — `Zexp[k] = ∏_{j≠k} Uexp[j]`. -/
theorem C12_zexp {α : Type} [CommSemiring α] (Uexp : List (Mat α)) (ndim n : Nat)
    (hU : Uexp.length = ndim) (h2 : 2 ≤ ndim) (hUn : ∀ j < ndim, (Uexp.getD j []).length = n)
    (k : Nat) (hk : k < ndim) :
    ((zexpOf Uexp ndim).getD k []).length = n ∧
    ∀ s r, ((zexpOf Uexp ndim).getD k []).get s r = ((Uexp.eraseIdx k).map fun A => A.get s r).prod :=
  zexpOf_good Uexp ndim n hU h2 hUn k hk

/-- `estimate_helper` on in-range sample subscripts (repeats allowed) of a model with unit
weights: the model values are the values the Kruskal tensor denotes at the samples, and
`Zexp[k][s, r] = ∏_{n≠k} A_n[i_n, r]` for the `s`-th sample `i`. -/
theorem C12_estimate_helper {α : Type} [CommRing α] (K : Ktensor α) (subs : List (List Nat))
    (hne : subs ≠ []) (hN : 2 ≤ K.factors.length) (hWF : K.WF)
    (hunit : ∀ r < K.ncomp, K.weights.getD r 0 = 1) (hin : ∀ i ∈ subs, InBounds K.shape i) :
    ∃ Zexp, estimateHelper K.factors subs = .ok (subs.map K.get, Zexp) ∧
      ∀ k s r, k < K.factors.length → s < subs.length →
        (Zexp.getD k []).get s r = compExcept K.factors k r (subs.getD s []) := by
  refine ⟨_, ?_, fun k s r hk hs => zexp_get K subs hN hin k s r hk hs⟩
  rw [estimateHelper_ok K subs hne hN hin, mvals_eq K subs hN hWF hunit hin]

/-- A sample set with a single subscript column is refused (`Zexp[1] = …` fails). -/
theorem C12_estimate_helper_rejects_one_mode {α : Type} [Add α] [Mul α] [Zero α] (A : Mat α)
    (i : Nat) (rest : List (List Nat)) : estimateHelper [A] ([i] :: rest) = .error .reject := by
  unfold estimateHelper
  simp only [List.length_cons, List.length_nil, Nat.zero_add, gt_iff_lt, Nat.lt_irrefl, if_false]
  cases h : (List.range 1).mapM fun k => gatherRows ([A].getD k []) (([i] :: rest).map fun s => s.getD k 0) with
  | error e => cases e; rfl
  | ok U => simp [bind, Except.bind]

/-- **The sampled estimator evaluated on every entry with unit weights equals the exact
evaluation** (objective and all gradient matrices), for a model with unit weights, at least
two modes and no empty mode. -/
theorem C12_estimate_full_sample {α : Type} [CommRing α] (K : Ktensor α) (X : Dense α) (f g : Handle α)
    (hN : 2 ≤ K.factors.length) (hWF : K.WF) (hunit : ∀ r < K.ncomp, K.weights.getD r 0 = 1)
    (hpos : 0 < numel K.shape) (hX : X.shape = K.shape) (hXwf : X.WF) :
    estimate K (allSubs K.shape) X.data (List.replicate (numel K.shape) 1) (some f) (some g) none
      = evaluate K X none (some f) (some g) :=
  estimate_full_sample K X f g hN hWF hunit hpos hX hXwf

/-- a concrete run of the model (non-vacuity of the hypotheses above: two modes, unit
weights, well-formed data) -/
example : evaluate (α := Int) ⟨[1, 1], [[[1, 2], [3, 4]], [[5, 6], [7, 8]]]⟩ ⟨[2, 2], [1, 2, 3, 4]⟩ none
    (some fun x m => (m - x) * (m - x)) (some fun x m => 2 * (m - x))
    = .ok ⟨some 4426, some [[[440, 512], [1056, 1228]], [[254, 360], [334, 472]]]⟩ := by rfl

example : evaluate (α := Int) ⟨[2, -1], [[[1, 2], [3, 4]], [[5, 6], [7, 8]]]⟩ ⟨[2, 2], [1, 2, 3, 4]⟩ none
    none (some fun x m => 2 * (m - x))
    = .ok ⟨none, some [[[-200, 116], [248, -144]], [[36, -20], [52, -28]]]⟩ := by rfl

example : estimate (α := Int) ⟨[1, 1], [[[1, 2], [3, 4]], [[5, 6], [7, 8]]]⟩ (allSubs [2, 2]) [1, 2, 3, 4]
    [1, 1, 1, 1] (some fun x m => (m - x) * (m - x)) (some fun x m => 2 * (m - x)) none
    = .ok ⟨some 4426, some [[[440, 512], [1056, 1228]], [[254, 360], [334, 472]]]⟩ := by rfl

end Pyttb
