/-
C12 — GCP losses, gradients and their tensor-level evaluation are mutually consistent.
Part A: the ten built-in (loss, gradient) pairs, as *generated from the current source*
(`Generated/Handles.lean`), are derivative pairs on the domain given by the selection
table's lower bound, and the table pairs every objective with its own loss, gradient and
bound.  Part B: tensor-level evaluation (`Alg/GcpFg.lean`).
Only property theorems and their non-vacuity examples live here.
-/
import PyttbModel.Lemmas.GcpHandles
import PyttbModel.Lemmas.GcpFg
import PyttbModel.Lemmas.GcpEstimate
import PyttbModel.Lemmas.GcpMask
set_option linter.unusedTactic false
set_option linter.unreachableTactic false
set_option linter.unnecessarySeqFocus false
namespace Pyttb
open Handles Expr

/-! ### Part A — every gradient handle is the derivative of its loss handle -/

/-- Gaussian `(m - x)²`: derivative `2 (m - x)` everywhere. -/
theorem C12_deriv_gaussian (x p m : ℝ) :
    HasDerivAt (fun m => gaussian.evalR x p m) (gaussian_grad.evalR x p m) m := by
  have h := hasDerivAt_D x p gaussian m (by gcp_defined [gaussian])
  refine h.congr_deriv ?_
  simp [gaussian, gaussian_grad, D, evalR] <;> gcp_close

/-- Bernoulli with odds link `log (m + 1) - x log (m + EPS)` on `m ≥ 0`. -/
theorem C12_deriv_bernoulli_odds (x p m : ℝ) (hm : 0 ≤ m) :
    HasDerivAt (fun m => bernoulli_odds.evalR x p m) (bernoulli_odds_grad.evalR x p m) m := by
  gcp_facts m hm
  have h := hasDerivAt_D x p bernoulli_odds m (by gcp_defined [bernoulli_odds])
  refine h.congr_deriv ?_
  simp [bernoulli_odds, bernoulli_odds_grad, D, evalR] <;> gcp_close

/-- Bernoulli with logit link `log (eᵐ + 1) - x m` everywhere.  (Second alternative: an overflow-safe
spelling of the softplus, `max(m, 0) + log1p(exp(−|m|))`, is not differentiable piece by piece at `0`; it is
handled through its closed form.) -/
theorem C12_deriv_bernoulli_logit (x p m : ℝ) :
    HasDerivAt (fun m => bernoulli_logit.evalR x p m) (bernoulli_logit_grad.evalR x p m) m := by
  have h1 : 0 < Real.exp m + 1 := by positivity
  have h1' : 0 < 1 + Real.exp m := by positivity
  first
  | (have h := hasDerivAt_D x p bernoulli_logit m (by gcp_defined [bernoulli_logit])
     refine h.congr_deriv ?_
     simp [bernoulli_logit, bernoulli_logit_grad, D, evalR] <;> gcp_close)
  | (have hcf : ∀ y, bernoulli_logit.evalR x p y = Real.log (Real.exp y + 1) - x * y := by
       intro y
       softplus_closed [bernoulli_logit] at y
     have hg : bernoulli_logit_grad.evalR x p m = Real.exp m / (Real.exp m + 1) - x := by
       simp [bernoulli_logit_grad, evalR] <;> gcp_close
     rw [hg]
     exact (logit_spec_deriv x m).congr_of_eventuallyEq (Filter.Eventually.of_forall hcf))

/-- Poisson `m - x log (m + EPS)` on `m ≥ 0`. -/
theorem C12_deriv_poisson (x p m : ℝ) (hm : 0 ≤ m) :
    HasDerivAt (fun m => poisson.evalR x p m) (poisson_grad.evalR x p m) m := by
  gcp_facts m hm
  have h := hasDerivAt_D x p poisson m (by gcp_defined [poisson])
  refine h.congr_deriv ?_
  simp [poisson, poisson_grad, D, evalR] <;> gcp_close

/-- Poisson with log link `eᵐ - x m` everywhere. -/
theorem C12_deriv_poisson_log (x p m : ℝ) :
    HasDerivAt (fun m => poisson_log.evalR x p m) (poisson_log_grad.evalR x p m) m := by
  have h := hasDerivAt_D x p poisson_log m (by gcp_defined [poisson_log])
  refine h.congr_deriv ?_
  simp [poisson_log, poisson_log_grad, D, evalR] <;> gcp_close

/-- Rayleigh `2 log (m + EPS) + (π/4) (x / (m + EPS))²` on `m ≥ 0`. -/
theorem C12_deriv_rayleigh (x p m : ℝ) (hm : 0 ≤ m) :
    HasDerivAt (fun m => rayleigh.evalR x p m) (rayleigh_grad.evalR x p m) m := by
  gcp_facts m hm
  have h := hasDerivAt_D x p rayleigh m (by gcp_defined [rayleigh])
  refine h.congr_deriv ?_
  simp [rayleigh, rayleigh_grad, D, evalR] <;> gcp_close

/-- Gamma `x / (m + EPS) + log (m + EPS)` on `m ≥ 0`. -/
theorem C12_deriv_gamma (x p m : ℝ) (hm : 0 ≤ m) :
    HasDerivAt (fun m => gamma.evalR x p m) (gamma_grad.evalR x p m) m := by
  gcp_facts m hm
  have h := hasDerivAt_D x p gamma m (by gcp_defined [gamma])
  refine h.congr_deriv ?_
  simp [gamma, gamma_grad, D, evalR] <;> gcp_close

/-- Negative binomial `(r + x) log (m + 1) - x log (m + EPS)` on `m ≥ 0`, any number of
trials `r` (holds for the repaired code, /repo 782e982). -/
theorem C12_deriv_negative_binomial (x r m : ℝ) (hm : 0 ≤ m) :
    HasDerivAt (fun m => negative_binomial.evalR x r m) (negative_binomial_grad.evalR x r m) m := by
  gcp_facts m hm
  have h := hasDerivAt_D x r negative_binomial m (by gcp_defined [negative_binomial])
  refine h.congr_deriv ?_
  simp [negative_binomial, negative_binomial_grad, D, evalR] <;> gcp_close

/-- The pair of the pinned commit (explicit copies `negbinLossPinned`, `negbinGradPinned` of the
old source, not the generated definitions) was not a derivative pair: with `r = 2`, `x = 3` the
old gradient `(r + 1)/(1 + m) - x/(m + EPS)` is not the derivative of the loss at `m = 1`
(it is off by `(x - 1)/(m + 1) = 1`).  Fixed in /repo by 782e982. -/
theorem C12_negbin_counterexample :
    ¬ HasDerivAt (fun m => negbinLossPinned.evalR 3 2 m) (negbinGradPinned.evalR 3 2 1) 1 := by
  intro h
  have he := EPS_pos
  have h1 := hasDerivAt_D 3 2 negbinLossPinned 1
    (by simp only [negbinLossPinned, Defined, evalR]; norm_num; linarith)
  have := h.unique h1
  norm_num [negbinGradPinned, negbinLossPinned, D, evalR] at this
  have e : (3 : ℝ) / (1 + ((EPS : ℚ) : ℝ)) = 3 * (1 + ((EPS : ℚ) : ℝ))⁻¹ := div_eq_mul_inv _ _
  rw [e] at this
  linarith

/-- Beta divergence `(1/b)(m + EPS)ᵇ - (1/(b-1)) x (m + EPS)ᵇ⁻¹` on `m ≥ 0`, `b ∉ {0, 1}`. -/
theorem C12_deriv_beta (x b m : ℝ) (hm : 0 ≤ m) (hb0 : b ≠ 0) (hb1 : b ≠ 1) :
    HasDerivAt (fun m => beta.evalR x b m) (beta_grad.evalR x b m) m := by
  gcp_facts m hm
  have hb1' : b - 1 ≠ 0 := sub_ne_zero.2 hb1
  have h := hasDerivAt_D x b beta m (by gcp_defined [beta])
  refine h.congr_deriv ?_
  simp [beta, beta_grad, D, evalR]
  gcp_rpow_close

/-- Huber, inner open region `|x - m| < t`. -/
theorem C12_deriv_huber_inside (x t m : ℝ) (h : |x - m| < t) :
    HasDerivAt (fun m => huber.evalR x t m) (huber_grad.evalR x t m) m :=
  huber_deriv_inside x t m h

/-- Huber, outer open region `t < |x - m|`. -/
theorem C12_deriv_huber_outside (x t m : ℝ) (ht : 0 ≤ t) (h : t < |x - m|) :
    HasDerivAt (fun m => huber.evalR x t m) (huber_grad.evalR x t m) m :=
  huber_deriv_outside x t m ht h

/-- Huber at the kink `|x - m| = t` (value and both one-sided derivatives agree). -/
theorem C12_deriv_huber_kink (x t m : ℝ) (ht : 0 < t) (h : |x - m| = t) :
    HasDerivAt (fun m => huber.evalR x t m) (huber_grad.evalR x t m) m :=
  huber_deriv_kink x t m ht h

/-- Huber with threshold `t > 0`: everywhere. -/
theorem C12_deriv_huber (x t m : ℝ) (ht : 0 < t) :
    HasDerivAt (fun m => huber.evalR x t m) (huber_grad.evalR x t m) m := by
  rcases lt_trichotomy |x - m| t with h | h | h
  · exact huber_deriv_inside x t m h
  · exact huber_deriv_kink x t m ht h
  · exact huber_deriv_outside x t m ht.le h

/-- The selection table of `fg_setup.setup` pairs every objective with its own loss, its
own gradient and the lower bound of that loss's domain, and binds the extra parameter
exactly for the handles that mention one (the whole finite table is checked). -/
theorem C12_table_pairs (o : Objective) :
    (setupTable o).fn = lossOf o ∧ (setupTable o).grad = gradOf o ∧
    (setupTable o).lower = lowerOf o ∧
    (setupTable o).hasParam = !((setupTable o).fn.noParam && (setupTable o).grad.noParam) := by
  cases o <;> exact ⟨rfl, rfl, rfl, by decide⟩

/-- What `fg_setup.setup` returns for an objective is a (loss, derivative) pair at every
model value that respects the returned lower bound, for every data value and every
admissible extra parameter. -/
theorem C12_deriv_table (o : Objective) (x p m : ℝ) (hp : ParamOK o p)
    (hm : (setupTable o).lower.holds m) :
    HasDerivAt (fun m => (setupTable o).fn.evalR x p m) ((setupTable o).grad.evalR x p m) m := by
  cases o <;> simp only [setupTable, Bound.holds, Rat.cast_zero] at hm ⊢
  · exact C12_deriv_gaussian x p m
  · exact C12_deriv_bernoulli_odds x p m hm
  · exact C12_deriv_bernoulli_logit x p m
  · exact C12_deriv_poisson x p m hm
  · exact C12_deriv_poisson_log x p m
  · exact C12_deriv_rayleigh x p m hm
  · exact C12_deriv_gamma x p m hm
  · exact C12_deriv_huber x p m hp
  · exact C12_deriv_negative_binomial x p m hm
  · exact C12_deriv_beta x p m hm hp.1 hp.2

example : ParamOK .HUBER 1 ∧ (setupTable .POISSON).lower.holds 2 ∧ ParamOK .BETA (1/2) := by
  simp [ParamOK, setupTable, Bound.holds]


/-! ### Part B — tensor-level evaluation (`fg.evaluate`, `fg_est.estimate`) -/

/-- The objective `evaluate` returns for a Kruskal model is the (optionally weighted) sum of
the loss over all entries: `Σ_i w_i · f(x_i, m_i)` with `m_i` the value the model denotes. -/
theorem C12_objective_sum {α : Type} [Add α] [Mul α] [One α] [Zero α] (K : Ktensor α) (X : Dense α)
    (W : Option (Dense α)) (f : Handle α) (g : Option (Handle α))
    (hN : 2 ≤ K.factors.length) (hX : X.shape = K.shape) (hXwf : X.WF)
    (hW : ∀ W', W = some W' → W'.shape = K.shape ∧ W'.WF) :
    ∃ G, evaluate K X W (some f) g = .ok ⟨some (gcpObjective K X W f), G⟩ :=
  ⟨_, evaluate_ok K X W (some f) g (Or.inl rfl) hN hX hXwf hW⟩

/-- Computing all mode gradients at once equals computing them one mode at a time: the `k`-th
matrix `evaluate` returns is the mode-`k` MTTKRP (by its defining sum) of the weighted
derivative tensor with the model — the factor matrices give the products and every column
carries the model weight of its component.  (That `tensor.mttkrps` itself agrees with the
per-mode `tensor.mttkrp` on the real code is checked by the harness on every run.) -/
theorem C12_all_modes_eq_each {α : Type} [Add α] [Mul α] [One α] [Zero α] (K : Ktensor α) (X : Dense α)
    (W : Option (Dense α)) (f : Option (Handle α)) (g : Handle α)
    (hN : 2 ≤ K.factors.length) (hX : X.shape = K.shape) (hXwf : X.WF)
    (hW : ∀ W', W = some W' → W'.shape = K.shape ∧ W'.WF) (k : Nat) (hk : k < K.factors.length) :
    ∃ F G, evaluate K X W f (some g) = .ok ⟨F, some G⟩ ∧ G.length = K.factors.length ∧
      G[k]? = some (scaleCols (mttkrpDef ⟨K.shape, wY K X W g⟩ K.factors K.ncomp k) K.weights) := by
  refine ⟨_, _, evaluate_ok K X W f (some g) (Or.inr rfl) hN hX hXwf hW, ?_, ?_⟩
  · simp [mttkrpsK, mttkrpsDef, length_shape]
  · simp [mttkrpsK, mttkrpsDef, length_shape, hk]

/-- **The gradients are the exact partial derivatives of the objective.**  For every mode `k`,
row `a` and component `r`, and for a model with *arbitrary* weights `λ` (non-unit, negative,
zero): the objective, as a function of the single factor entry `A_k[a, r]`, has derivative
`G_k[a, r]` there, `G` the gradient list `evaluate` returns — for any handle pair that is a
(loss, derivative) pair at the model values that occur.  (Holds since /repo 05825c3, where
`evaluate` hands the model itself to `mttkrps`; before, the entry was off by the factor
`λ_r`.) -/
theorem C12_gradient_is_partial_derivative (K : Ktensor ℝ) (X : Dense ℝ) (W : Option (Dense ℝ)) (f g : Handle ℝ)
    (k a r : Nat) (hN : 2 ≤ K.factors.length) (hWF : K.WF) (hX : X.shape = K.shape) (hXwf : X.WF)
    (hW : ∀ W', W = some W' → W'.shape = K.shape ∧ W'.WF)
    (hk : k < K.factors.length) (ha : a < (K.factors.getD k []).length) (hr : r < K.ncomp)
    (hfg : ∀ i ∈ allSubs K.shape, HasDerivAt (f (X.get i)) (g (X.get i) (K.get i)) (K.get i)) :
    ∃ G, evaluate K X W (some f) (some g) = .ok ⟨some (gcpObjective K X W f), some G⟩ ∧
      HasDerivAt (fun t => gcpObjective (K.setEntry k a r t) X W f)
        ((G.getD k []).get a r) ((K.factors.getD k []).get a r) := by
  refine ⟨_, evaluate_ok K X W (some f) (some g) (Or.inl rfl) hN hX hXwf hW, ?_⟩
  have h := gradient_is_partial K X W f g k a r hWF hk ha hr hfg
  have e : (mttkrpsK ⟨K.shape, wY K X W g⟩ K).getD k []
      = scaleCols (mttkrpDef ⟨K.shape, wY K X W g⟩ K.factors K.ncomp k) K.weights := by
    simp [mttkrpsK, mttkrpsDef, length_shape, hk]
  rw [e, scaleCols_get, mul_comm]
  exact h

/-- Parts A and B together: for every built-in objective, with the handles `fg_setup.setup`
returns (as generated from the current source), admissible parameter, and all model values
inside the returned lower bound, the gradient matrices of `evaluate` are the partial
derivatives of the objective (any model weights). -/
theorem C12_gradient_is_partial_derivative_builtin (o : Objective) (p : ℝ) (K : Ktensor ℝ) (X : Dense ℝ)
    (W : Option (Dense ℝ)) (k a r : Nat) (hp : ParamOK o p)
    (hN : 2 ≤ K.factors.length) (hWF : K.WF) (hX : X.shape = K.shape) (hXwf : X.WF)
    (hW : ∀ W', W = some W' → W'.shape = K.shape ∧ W'.WF)
    (hk : k < K.factors.length) (ha : a < (K.factors.getD k []).length) (hr : r < K.ncomp)
    (hdom : ∀ i ∈ allSubs K.shape, (setupTable o).lower.holds (K.get i)) :
    ∃ G, evaluate K X W (some fun x m => (setupTable o).fn.evalR x p m)
          (some fun x m => (setupTable o).grad.evalR x p m)
        = .ok ⟨some (gcpObjective K X W fun x m => (setupTable o).fn.evalR x p m), some G⟩ ∧
      HasDerivAt (fun t => gcpObjective (K.setEntry k a r t) X W fun x m => (setupTable o).fn.evalR x p m)
        ((G.getD k []).get a r) ((K.factors.getD k []).get a r) :=
  C12_gradient_is_partial_derivative K X W _ _ k a r hN hWF hX hXwf hW hk ha hr
    (fun i hi => C12_deriv_table o (X.get i) p (K.get i) hp (hdom i hi))

/-- The code before /repo 05825c3 handed only the factor matrices to `mttkrps`: for the
two-mode, one-component model `λ = 2`, `A₀ = A₁ = [[1]]`, data `0` and the Gaussian pair
the old gradient entry was `4`, the partial derivative of `(2·t·1 - 0)²` at `t = 1` is `8`
(which is what the repaired `evaluate` returns). -/
theorem C12_evaluate_weights_pinned_counterexample :
    (mttkrpsDef (α := Int) ⟨[1, 1], [2 * (2 - 0)]⟩ [[[1]], [[1]]] 1).getD 0 [] = [[4]] ∧
    evaluate (α := Int) ⟨[2], [[[1]], [[1]]]⟩ ⟨[1, 1], [0]⟩ none
      (some fun x m => (m - x) * (m - x)) (some fun x m => 2 * (m - x))
      = .ok ⟨some 4, some [[[8]], [[8]]]⟩ := by
  constructor <;> rfl

/-- What `evaluate` refuses: no handle at all, a model with fewer than two modes, data of
another shape. -/
theorem C12_evaluate_rejects {α : Type} [Add α] [Mul α] [One α] [Zero α] (K : Ktensor α) (X : Dense α)
    (W : Option (Dense α)) (f g : Option (Handle α)) :
    evaluate K X W none none = .error .reject ∧
    (K.factors.length < 2 → evaluate K X W f g = .error .reject) ∧
    (X.shape ≠ K.shape → evaluate K X W f g = .error .reject) := by
  refine ⟨by simp [evaluate], ?_, ?_⟩
  · intro h
    by_cases h0 : (f.isNone && g.isNone) = true <;> simp only [evaluate, h0, h, if_true] <;> rfl
  · intro h
    have h' : ¬ K.factors.length < 2 ∨ K.factors.length < 2 := by omega
    by_cases h0 : (f.isNone && g.isNone) = true <;> rcases h' with h1 | h1 <;>
      simp only [evaluate, h0, h1, h, ne_eq, not_false_eq_true, if_true, if_false] <;> rfl

/-- `estimate_helper`'s two passes: whatever the gathered factor rows `Uexp[0..ndim-1]`
(each with `n` rows) are, afterwards `Zexp[k]` has `n` rows and its entry `(s, r)` is the
product of the `(s, r)` entries of all `Uexp[j]`, `j ≠ k` — `Zexp[k] = ∏_{j≠k} Uexp[j]`. -/
theorem C12_zexp {α : Type} [CommSemiring α] (Uexp : List (Mat α)) (ndim n : Nat)
    (hU : Uexp.length = ndim) (h2 : 2 ≤ ndim) (hUn : ∀ j < ndim, (Uexp.getD j []).length = n)
    (k : Nat) (hk : k < ndim) :
    ((zexpOf Uexp ndim).getD k []).length = n ∧
    ∀ s r, ((zexpOf Uexp ndim).getD k []).get s r = ((Uexp.eraseIdx k).map fun A => A.get s r).prod :=
  zexpOf_good Uexp ndim n hU h2 hUn k hk

/-- `estimate_helper` on in-range sample subscripts (repeats allowed) of a model with unit
weights: the model values are the values the Kruskal tensor denotes at the samples, and
`Zexp[k][s, r] = ∏_{n≠k} A_n[i_n, r]` for the `s`-th sample `i`. -/
theorem C12_estimate_helper {α : Type} [CommRing α] (K : Ktensor α) (subs : List (List Nat))
    (hne : subs ≠ []) (hN : 2 ≤ K.factors.length) (hWF : K.WF)
    (hunit : ∀ r < K.ncomp, K.weights.getD r 0 = 1) (hin : ∀ i ∈ subs, InBounds K.shape i) :
    ∃ Zexp, estimateHelper K.factors subs = .ok (subs.map K.get, Zexp) ∧
      ∀ k s r, k < K.factors.length → s < subs.length →
        (Zexp.getD k []).get s r = compExcept K.factors k r (subs.getD s []) := by
  refine ⟨_, ?_, fun k s r hk hs => zexp_get K subs hN hin k s r hk hs⟩
  rw [estimateHelper_ok K subs hne hN hin, mvals_eq K subs hN hWF hunit hin]

/-- A sample set with a single subscript column is refused (`Zexp[1] = …` fails). -/
theorem C12_estimate_helper_rejects_one_mode {α : Type} [Add α] [Mul α] [Zero α] (A : Mat α)
    (i : Nat) (rest : List (List Nat)) : estimateHelper [A] ([i] :: rest) = .error .reject := by
  unfold estimateHelper
  simp only [List.length_cons, List.length_nil, Nat.zero_add, gt_iff_lt, Nat.lt_irrefl, if_false]
  cases h : (List.range 1).mapM fun k => gatherRows ([A].getD k []) (([i] :: rest).map fun s => s.getD k 0) with
  | error e => cases e; rfl
  | ok U => simp [bind, Except.bind]

/-- **The sampled estimator evaluated on every entry with unit weights equals the exact
evaluation** (objective and all gradient matrices), for a model with unit weights, at least
two modes and no empty mode. -/
theorem C12_estimate_full_sample {α : Type} [CommRing α] (K : Ktensor α) (X : Dense α) (f g : Handle α)
    (hN : 2 ≤ K.factors.length) (hWF : K.WF) (hunit : ∀ r < K.ncomp, K.weights.getD r 0 = 1)
    (hpos : 0 < numel K.shape) (hX : X.shape = K.shape) (hXwf : X.WF) :
    estimate K (allSubs K.shape) X.data (List.replicate (numel K.shape) 1) (some f) (some g) none
      = evaluate K X none (some f) (some g) :=
  estimate_full_sample K X f g hN hWF hunit hpos hX hXwf

/-- **The sampled estimator with arbitrary sample weights.**  For any list of in-range sample
subscripts `i_0 … i_{n-1}` (repeats allowed: a subscript sampled twice contributes twice), sample values
`x_s` and sample weights `w_s` (any ring elements: non-unit, zero, negative), and a model with unit
weights, at least two modes: `estimate` returns the objective `Σ_s w_s · f(x_s, m_{i_s})` and one gradient
matrix per mode whose entry `(a, r)` for mode `k` is
`Σ_s w_s · g(x_s, m_{i_s}) · ∂m_{i_s}/∂A_k[a, r]`, with `∂m_i/∂A_k[a, r] = [i_k = a] ∏_{n≠k} A_n[i_n, r]`
and `m_i` the value the Kruskal tensor denotes at `i`.  (`C12_estimate_helper` / `C12_estimate_full_sample`
are the unit-weight / full-sample cases.) -/
theorem C12_estimate_weighted {α : Type} [CommRing α] (K : Ktensor α) (subs : List (List Nat)) (xvals w : List α)
    (f g : Handle α) (hne : subs ≠ []) (hN : 2 ≤ K.factors.length) (hWF : K.WF)
    (hunit : ∀ r < K.ncomp, K.weights.getD r 0 = 1) (hin : ∀ i ∈ subs, InBounds K.shape i)
    (hx : xvals.length = subs.length) (hw : w.length = subs.length) :
    ∃ G, estimate K subs xvals w (some f) (some g) none
        = .ok ⟨some ((List.range subs.length).map fun s =>
            w.getD s 0 * f (xvals.getD s 0) (K.get (subs.getD s []))).sum, some G⟩ ∧
      G.length = K.factors.length ∧
      ∀ k a r, k < K.factors.length → a < (K.factors.getD k []).length → r < K.ncomp →
        (G.getD k []).get a r = ((List.range subs.length).map fun s =>
          if (subs.getD s []).getD k 0 = a then
            w.getD s 0 * g (xvals.getD s 0) (K.get (subs.getD s [])) * compExcept K.factors k r (subs.getD s [])
          else 0).sum := by
  refine ⟨sampledGrad K subs xvals w none g,
    estimate_ok K subs xvals w (some f) (some g) none (Or.inl rfl) hne hN hWF hunit hin hx hw (by intro c h; cases h),
    by simp [sampledGrad], ?_⟩
  intro k a r hk ha hr
  unfold sampledGrad Mat.get
  rw [getD_map_range _ _ _ _ hk, getD_map_range _ _ _ _ ha, getD_map_range _ _ _ _ hr]
  rfl

/-- **The correction range of the semi-stratified sampler.**  With `crng = c` (positions in the sample
list, all `< n`; repeats in `c` do not matter) every listed sample contributes the *difference* to the
zero-data term: `estimate` returns `Σ_s w_s · term_s` with `term_s = h(x_s, m_{i_s}) − h(0, m_{i_s})` for
`s ∈ c` and `h(x_s, m_{i_s})` otherwise (`h = f` for the objective, `h = g` inside the gradient sums
`Σ_s w_s · term'_s · ∂m_{i_s}/∂A_k[a, r]`); whichever of the two handles is given.  The last two parts
spell the term out and say that an empty range is no correction. -/
theorem C12_estimate_crng {α : Type} [CommRing α] (K : Ktensor α) (subs : List (List Nat)) (xvals w : List α)
    (f g : Option (Handle α)) (c : List Nat) (hfg : f.isSome ∨ g.isSome)
    (hne : subs ≠ []) (hN : 2 ≤ K.factors.length) (hWF : K.WF)
    (hunit : ∀ r < K.ncomp, K.weights.getD r 0 = 1) (hin : ∀ i ∈ subs, InBounds K.shape i)
    (hx : xvals.length = subs.length) (hw : w.length = subs.length) (hc : ∀ s ∈ c, s < subs.length) :
    estimate K subs xvals w f g (some c)
      = .ok ⟨f.map (sampledObjective K subs xvals w (some c)), g.map (sampledGrad K subs xvals w (some c))⟩ ∧
    (∀ (h : Handle α) s x m, sampleTerm h (some c) s x m = if s ∈ c then h x m - h 0 m else h x m) ∧
    estimate K subs xvals w f g (some []) = estimate K subs xvals w f g none := by
  refine ⟨estimate_ok K subs xvals w f g (some c) hfg hne hN hWF hunit hin hx hw
      (by intro c' h; cases h; exact hc), ?_, ?_⟩
  · intro h s x m
    simp [sampleTerm]
  · rw [estimate_ok K subs xvals w f g (some []) hfg hne hN hWF hunit hin hx hw (by intro c' h; cases h; simp),
      estimate_ok K subs xvals w f g none hfg hne hN hWF hunit hin hx hw (by intro c' h; cases h)]
    have e : ∀ h : Handle α, ∀ s x m, sampleTerm h (some []) s x m = sampleTerm h none s x m := by
      intro h s x m; simp [sampleTerm]
    have e1 : sampledObjective K subs xvals w (some []) = sampledObjective K subs xvals w none := by
      funext h; simp only [sampledObjective, e]
    have e2 : sampledGrad K subs xvals w (some []) = sampledGrad K subs xvals w none := by
      funext h; simp only [sampledGrad, sampledGradEntry, e]
    rw [e1, e2]

/-- **The sampled gradients are the exact partial derivatives of the sampled objective**, with or
without a correction range: for every mode `k`, row `a`, component `r`, the objective `estimate`
returns — as a function of the factor entry `A_k[a, r]` — has derivative `G_k[a, r]`, `G` the gradient
list `estimate` returns.  The handles need to be a (loss, derivative) pair only at the model values of
the samples (and at data value `0` for the samples in the correction range). -/
theorem C12_estimate_weighted_is_partial_derivative (K : Ktensor ℝ) (subs : List (List Nat)) (xvals w : List ℝ)
    (crng : Option (List Nat)) (f g : Handle ℝ) (k a r : Nat)
    (hne : subs ≠ []) (hN : 2 ≤ K.factors.length) (hWF : K.WF)
    (hunit : ∀ r < K.ncomp, K.weights.getD r 0 = 1) (hin : ∀ i ∈ subs, InBounds K.shape i)
    (hx : xvals.length = subs.length) (hw : w.length = subs.length)
    (hc : ∀ c, crng = some c → ∀ s ∈ c, s < subs.length)
    (hk : k < K.factors.length) (ha : a < (K.factors.getD k []).length) (hr : r < K.ncomp)
    (hfg : ∀ s < subs.length, HasDerivAt (f (xvals.getD s 0))
      (g (xvals.getD s 0) (K.get (subs.getD s []))) (K.get (subs.getD s [])))
    (hfg0 : ∀ c, crng = some c → ∀ s ∈ c, s < subs.length →
      HasDerivAt (f 0) (g 0 (K.get (subs.getD s []))) (K.get (subs.getD s []))) :
    ∃ G, estimate K subs xvals w (some f) (some g) crng
        = .ok ⟨some (sampledObjective K subs xvals w crng f), some G⟩ ∧
      HasDerivAt (fun t => sampledObjective (K.setEntry k a r t) subs xvals w crng f)
        ((G.getD k []).get a r) ((K.factors.getD k []).get a r) := by
  refine ⟨_, estimate_ok K subs xvals w (some f) (some g) crng (Or.inl rfl) hne hN hWF hunit hin hx hw hc, ?_⟩
  have e : ((sampledGrad K subs xvals w crng g).getD k []).get a r = sampledGradEntry K subs xvals w crng g k a r := by
    unfold sampledGrad Mat.get
    rw [getD_map_range _ _ _ _ hk, getD_map_range _ _ _ _ ha, getD_map_range _ _ _ _ hr]
  rw [e]
  exact sampled_gradient_is_partial K subs xvals w crng f g k a r hWF hunit hin hk ha hr hfg hfg0

/-- `estimate` never reads the model's weight vector (only its length, the number of components):
it is the estimator of the model with the same factor matrices and unit weights — the documented
assumption of `fg_est.estimate` ("decomposition weights are all ones") on the path without
re-normalisation. -/
theorem C12_estimate_ignores_model_weights {α : Type} [Add α] [Sub α] [Mul α] [Zero α] [One α] (K : Ktensor α)
    (subs : List (List Nat)) (xvals w : List α) (f g : Option (Handle α)) (crng : Option (List Nat)) :
    estimate K subs xvals w f g crng = estimate K.unitWeights subs xvals w f g crng := by
  simp [estimate, Ktensor.unitWeights, Ktensor.ncomp]

/-- What `estimate` refuses: no handle at all; value / weight vectors whose length is not the number
of samples; a correction index past the last sample. -/
theorem C12_estimate_rejects {α : Type} [Add α] [Sub α] [Mul α] [Zero α] (K : Ktensor α)
    (subs : List (List Nat)) (xvals w : List α) (f g : Option (Handle α)) (crng : Option (List Nat)) :
    estimate K subs xvals w none none crng = .error .reject ∧
    (xvals.length ≠ subs.length ∨ w.length ≠ subs.length → estimate K subs xvals w f g crng = .error .reject) ∧
    (∀ c s, crng = some c → s ∈ c → subs.length ≤ s → estimate K subs xvals w f g crng = .error .reject) := by
  refine ⟨by simp [estimate], ?_, ?_⟩
  · intro h
    have h2 : (decide (xvals.length ≠ subs.length) || decide (w.length ≠ subs.length)) = true := by
      rcases h with h | h <;> simp [h]
    by_cases h0 : (f.isNone && g.isNone) = true <;> simp only [estimate, h0, h2, if_true] <;> rfl
  · intro c s hc hs hle
    subst hc
    have h3 : (c.any fun s => decide (subs.length ≤ s)) = true := by
      simp only [List.any_eq_true, decide_eq_true_eq]
      exact ⟨s, hs, hle⟩
    by_cases h0 : (f.isNone && g.isNone) = true
    · simp only [estimate, h0, if_true]
    · by_cases h2 : (decide (xvals.length ≠ subs.length) || decide (w.length ≠ subs.length)) = true
      · simp only [estimate, h0, h2, if_true, Bool.false_eq_true, if_false]
      · simp only [estimate, h0, h2, h3, if_true, Bool.false_eq_true, if_false]

/-- **A 0/1 mask as weights: the objective is the loss summed over the unmasked entries only** (any
commutative semiring; `unmasked W` lists the subscripts whose mask entry is not zero, i.e. is one). -/
theorem C12_evaluate_mask_objective {α : Type} [CommSemiring α] [DecidableEq α] (K : Ktensor α) (X W : Dense α)
    (f : Handle α) (g : Option (Handle α)) (hN : 2 ≤ K.factors.length) (hX : X.shape = K.shape) (hXwf : X.WF)
    (hW : W.shape = K.shape) (hWwf : W.WF) (hmask : IsMask W) :
    ∃ G, evaluate K X (some W) (some f) g
      = .ok ⟨some (((unmasked W).map fun i => f (X.get i) (K.get i)).sum), G⟩ := by
  refine ⟨g.map fun g => mttkrpsK ⟨K.shape, wY K X (some W) g⟩ K, ?_⟩
  rw [evaluate_ok K X (some W) (some f) g (Or.inl rfl) hN hX hXwf (by intro W' h; cases h; exact ⟨hW, hWwf⟩)]
  simp only [Option.map_some, objective_mask K X W f hW hmask]
  rfl

/-- **With a 0/1 mask the objective and the gradients are those of the loss summed over the unmasked
entries only**: `evaluate` returns the masked objective, and for every mode `k`, row `a`, component `r`
the masked objective as a function of the factor entry `A_k[a, r]` has derivative `G_k[a, r]` (any model
weights).  The handles need to be a (loss, derivative) pair at the *unmasked* entries only — what the
loss does at a masked-out entry (e.g. a data value outside its domain) is irrelevant.  The unmasked
entries are exactly those where the mask is `1`. -/
theorem C12_evaluate_mask (K : Ktensor ℝ) (X W : Dense ℝ) (f g : Handle ℝ) (k a r : Nat)
    (hN : 2 ≤ K.factors.length) (hWF : K.WF) (hX : X.shape = K.shape) (hXwf : X.WF)
    (hW : W.shape = K.shape) (hWwf : W.WF) (hmask : IsMask W)
    (hk : k < K.factors.length) (ha : a < (K.factors.getD k []).length) (hr : r < K.ncomp)
    (hfg : ∀ i ∈ unmasked W, HasDerivAt (f (X.get i)) (g (X.get i) (K.get i)) (K.get i)) :
    (∀ i, i ∈ unmasked W ↔ InBounds W.shape i ∧ W.get i = 1) ∧
    ∃ G, evaluate K X (some W) (some f) (some g) = .ok ⟨some (maskedObjective K X W f), some G⟩ ∧
      HasDerivAt (fun t => maskedObjective (K.setEntry k a r t) X W f)
        ((G.getD k []).get a r) ((K.factors.getD k []).get a r) := by
  refine ⟨mem_unmasked W hmask, mttkrpsK ⟨K.shape, wY K X (some W) g⟩ K, ?_, ?_⟩
  · rw [evaluate_ok K X (some W) (some f) (some g) (Or.inl rfl) hN hX hXwf
      (by intro W' h; cases h; exact ⟨hW, hWwf⟩)]
    simp only [Option.map_some, objective_mask K X W f hW hmask]
  · have h := masked_gradient_is_partial K X W f g k a r hWF hW hmask hk ha hr hfg
    have e : (mttkrpsK ⟨K.shape, wY K X (some W) g⟩ K).getD k []
        = scaleCols (mttkrpDef ⟨K.shape, wY K X (some W) g⟩ K.factors K.ncomp k) K.weights := by
      simp [mttkrpsK, mttkrpsDef, length_shape, hk]
    rw [e, scaleCols_get, mul_comm]
    exact h

/-- a concrete run of the model (non-vacuity of the hypotheses above: two modes, unit
weights, well-formed data) -/
example : evaluate (α := Int) ⟨[1, 1], [[[1, 2], [3, 4]], [[5, 6], [7, 8]]]⟩ ⟨[2, 2], [1, 2, 3, 4]⟩ none
    (some fun x m => (m - x) * (m - x)) (some fun x m => 2 * (m - x))
    = .ok ⟨some 4426, some [[[440, 512], [1056, 1228]], [[254, 360], [334, 472]]]⟩ := by rfl

example : evaluate (α := Int) ⟨[2, -1], [[[1, 2], [3, 4]], [[5, 6], [7, 8]]]⟩ ⟨[2, 2], [1, 2, 3, 4]⟩ none
    none (some fun x m => 2 * (m - x))
    = .ok ⟨none, some [[[-200, 116], [248, -144]], [[36, -20], [52, -28]]]⟩ := by rfl

example : estimate (α := Int) ⟨[1, 1], [[[1, 2], [3, 4]], [[5, 6], [7, 8]]]⟩ (allSubs [2, 2]) [1, 2, 3, 4]
    [1, 1, 1, 1] (some fun x m => (m - x) * (m - x)) (some fun x m => 2 * (m - x)) none
    = .ok ⟨some 4426, some [[[440, 512], [1056, 1228]], [[254, 360], [334, 472]]]⟩ := by rfl

/-- non-vacuity of `C12_estimate_weighted` / `C12_estimate_crng`: a repeated sample, weights `2, -1, 0, 3`,
correction on positions `0` and `2` -/
example : estimate (α := Int) ⟨[1, 1], [[[1, 2], [3, 4]], [[5, 6], [7, 8]]]⟩ [[0, 1], [1, 0], [0, 1], [1, 1]]
    [1, -2, 3, 0] [2, -1, 0, 3] (some fun x m => (m - x) * (m - x)) (some fun x m => 2 * (m - x)) (some [0, 2])
    = .ok ⟨some 6656, some [[[-28, -32], [1816, 2052]], [[-246, -328], [950, 1264]]]⟩ := by rfl

example : sampledObjective (α := Int) ⟨[1, 1], [[[1, 2], [3, 4]], [[5, 6], [7, 8]]]⟩ [[0, 1], [1, 0], [0, 1], [1, 1]]
    [1, -2, 3, 0] [2, -1, 0, 3] (some [0, 2]) (fun x m => (m - x) * (m - x)) = 6656 := by rfl

/-- non-vacuity of `C12_evaluate_mask`: a mask with two unmasked entries -/
example : evaluate (α := Int) ⟨[2, -1], [[[1, 2], [3, 4]], [[5, 6], [7, 8]]]⟩ ⟨[2, 2], [1, 2, 3, 4]⟩
    (some ⟨[2, 2], [1, 0, 0, 1]⟩) (some fun x m => (m - x) * (m - x)) (some fun x m => 2 * (m - x))
    = .ok ⟨some 45, some [[[-60, 36], [168, -96]], [[-12, 12], [72, -48]]]⟩ ∧
    unmasked (⟨[2, 2], [1, 0, 0, 1]⟩ : Dense Int) = [[0, 0], [1, 1]] ∧
    maskedObjective (α := Int) ⟨[2, -1], [[[1, 2], [3, 4]], [[5, 6], [7, 8]]]⟩ ⟨[2, 2], [1, 2, 3, 4]⟩
      ⟨[2, 2], [1, 0, 0, 1]⟩ (fun x m => (m - x) * (m - x)) = 45 := ⟨by rfl, by decide, by decide⟩

end Pyttb
