/-
C12 — GCP losses, gradients and their tensor-level evaluation are mutually consistent.
Part A: the ten built-in (loss, gradient) pairs, as *generated from the current source*
(`Generated/Handles.lean`), are derivative pairs on the domain given by the selection
table's lower bound, and the table pairs every objective with its own loss, gradient and
bound.  Part B: tensor-level evaluation (`Alg/GcpFg.lean`).
Only property theorems and their non-vacuity examples live here.
-/
import PyttbModel.Lemmas.GcpHandles
set_option linter.unusedTactic false
set_option linter.unreachableTactic false
set_option linter.unnecessarySeqFocus false
namespace Pyttb
open Handles Expr

/-! ### Part A — every gradient handle is the derivative of its loss handle -/

/-- Gaussian `(m - x)²`: derivative `2 (m - x)` everywhere. -/
theorem C12_deriv_gaussian (x p m : ℝ) :
    HasDerivAt (fun m => gaussian.evalR x p m) (gaussian_grad.evalR x p m) m := by
  have h := hasDerivAt_D x p gaussian m (by simp [gaussian, Defined])
  refine h.congr_deriv ?_
  simp [gaussian, gaussian_grad, D, evalR] <;> gcp_close

/-- Bernoulli with odds link `log (m + 1) - x log (m + EPS)` on `m ≥ 0`. -/
theorem C12_deriv_bernoulli_odds (x p m : ℝ) (hm : 0 ≤ m) :
    HasDerivAt (fun m => bernoulli_odds.evalR x p m) (bernoulli_odds_grad.evalR x p m) m := by
  have he := EPS_pos
  have h1 : 0 < m + 1 := by linarith
  have h2 : 0 < m + ((EPS : ℚ) : ℝ) := by linarith
  have h := hasDerivAt_D x p bernoulli_odds m (by simp [bernoulli_odds, Defined, evalR, h1, h2])
  refine h.congr_deriv ?_
  simp [bernoulli_odds, bernoulli_odds_grad, D, evalR] <;> gcp_close

/-- Bernoulli with logit link `log (eᵐ + 1) - x m` everywhere. -/
theorem C12_deriv_bernoulli_logit (x p m : ℝ) :
    HasDerivAt (fun m => bernoulli_logit.evalR x p m) (bernoulli_logit_grad.evalR x p m) m := by
  have h1 : 0 < Real.exp m + 1 := by positivity
  have h := hasDerivAt_D x p bernoulli_logit m (by simp [bernoulli_logit, Defined, evalR, h1])
  refine h.congr_deriv ?_
  simp [bernoulli_logit, bernoulli_logit_grad, D, evalR] <;> gcp_close

/-- Poisson `m - x log (m + EPS)` on `m ≥ 0`. -/
theorem C12_deriv_poisson (x p m : ℝ) (hm : 0 ≤ m) :
    HasDerivAt (fun m => poisson.evalR x p m) (poisson_grad.evalR x p m) m := by
  have he := EPS_pos
  have h2 : 0 < m + ((EPS : ℚ) : ℝ) := by linarith
  have h := hasDerivAt_D x p poisson m (by simp [poisson, Defined, evalR, h2])
  refine h.congr_deriv ?_
  simp [poisson, poisson_grad, D, evalR] <;> gcp_close

/-- Poisson with log link `eᵐ - x m` everywhere. -/
theorem C12_deriv_poisson_log (x p m : ℝ) :
    HasDerivAt (fun m => poisson_log.evalR x p m) (poisson_log_grad.evalR x p m) m := by
  have h := hasDerivAt_D x p poisson_log m (by simp [poisson_log, Defined])
  refine h.congr_deriv ?_
  simp [poisson_log, poisson_log_grad, D, evalR] <;> gcp_close

/-- Rayleigh `2 log (m + EPS) + (π/4) (x / (m + EPS))²` on `m ≥ 0`. -/
theorem C12_deriv_rayleigh (x p m : ℝ) (hm : 0 ≤ m) :
    HasDerivAt (fun m => rayleigh.evalR x p m) (rayleigh_grad.evalR x p m) m := by
  have he := EPS_pos
  have h2 : 0 < m + ((EPS : ℚ) : ℝ) := by linarith
  have h := hasDerivAt_D x p rayleigh m (by simp [rayleigh, Defined, evalR, h2, h2.ne'])
  refine h.congr_deriv ?_
  simp [rayleigh, rayleigh_grad, D, evalR] <;> gcp_close

/-- Gamma `x / (m + EPS) + log (m + EPS)` on `m ≥ 0`. -/
theorem C12_deriv_gamma (x p m : ℝ) (hm : 0 ≤ m) :
    HasDerivAt (fun m => gamma.evalR x p m) (gamma_grad.evalR x p m) m := by
  have he := EPS_pos
  have h2 : 0 < m + ((EPS : ℚ) : ℝ) := by linarith
  have h := hasDerivAt_D x p gamma m (by simp [gamma, Defined, evalR, h2, h2.ne'])
  refine h.congr_deriv ?_
  simp [gamma, gamma_grad, D, evalR] <;> gcp_close

/-- Negative binomial `(r + x) log (m + 1) - x log (m + EPS)` on `m ≥ 0`, any number of
trials `r` (holds for the repaired code, /repo 782e982). -/
theorem C12_deriv_negative_binomial (x r m : ℝ) (hm : 0 ≤ m) :
    HasDerivAt (fun m => negative_binomial.evalR x r m) (negative_binomial_grad.evalR x r m) m := by
  have he := EPS_pos
  have h1 : 0 < m + 1 := by linarith
  have h2 : 0 < m + ((EPS : ℚ) : ℝ) := by linarith
  have h := hasDerivAt_D x r negative_binomial m (by simp [negative_binomial, Defined, evalR, h1, h2])
  refine h.congr_deriv ?_
  simp [negative_binomial, negative_binomial_grad, D, evalR] <;> gcp_close

/-- The pair of the pinned commit was not a derivative pair: with `r = 2`, `x = 3` the old
gradient `(r + 1)/(1 + m) - x/(m + EPS)` is not the derivative of the loss at `m = 1`
(it is off by `(x - 1)/(m + 1) = 1`).  Fixed in /repo by 782e982. -/
theorem C12_negbin_counterexample :
    ¬ HasDerivAt (fun m => negative_binomial.evalR 3 2 m) (negbinGradPinned.evalR 3 2 1) 1 := by
  intro h
  have h1 := C12_deriv_negative_binomial 3 2 1 (by norm_num)
  have := h.unique h1
  norm_num [negbinGradPinned, negative_binomial_grad, evalR] at this

/-- Beta divergence `(1/b)(m + EPS)ᵇ - (1/(b-1)) x (m + EPS)ᵇ⁻¹` on `m ≥ 0`, `b ∉ {0, 1}`. -/
theorem C12_deriv_beta (x b m : ℝ) (hm : 0 ≤ m) (hb0 : b ≠ 0) (hb1 : b ≠ 1) :
    HasDerivAt (fun m => beta.evalR x b m) (beta_grad.evalR x b m) m := by
  have he := EPS_pos
  have h2 : 0 < m + ((EPS : ℚ) : ℝ) := by linarith
  have hb1' : b - 1 ≠ 0 := sub_ne_zero.2 hb1
  have h := hasDerivAt_D x b beta m (by simp [beta, Defined, evalR, h2, hb0, hb1', noVar])
  refine h.congr_deriv ?_
  simp [beta, beta_grad, D, evalR]
  rw [show b - 1 - 1 = b - 2 by ring]
  gcp_close

/-- Huber, inner open region `|x - m| < t`. -/
theorem C12_deriv_huber_inside (x t m : ℝ) (h : |x - m| < t) :
    HasDerivAt (fun m => huber.evalR x t m) (huber_grad.evalR x t m) m :=
  huber_deriv_inside x t m h

/-- Huber, outer open region `t < |x - m|`. -/
theorem C12_deriv_huber_outside (x t m : ℝ) (ht : 0 ≤ t) (h : t < |x - m|) :
    HasDerivAt (fun m => huber.evalR x t m) (huber_grad.evalR x t m) m :=
  huber_deriv_outside x t m ht h

/-- Huber at the kink `|x - m| = t` (value and both one-sided derivatives agree). -/
theorem C12_deriv_huber_kink (x t m : ℝ) (ht : 0 < t) (h : |x - m| = t) :
    HasDerivAt (fun m => huber.evalR x t m) (huber_grad.evalR x t m) m :=
  huber_deriv_kink x t m ht h

/-- Huber with threshold `t > 0`: everywhere. -/
theorem C12_deriv_huber (x t m : ℝ) (ht : 0 < t) :
    HasDerivAt (fun m => huber.evalR x t m) (huber_grad.evalR x t m) m := by
  rcases lt_trichotomy |x - m| t with h | h | h
  · exact huber_deriv_inside x t m h
  · exact huber_deriv_kink x t m ht h
  · exact huber_deriv_outside x t m ht.le h

/-- The selection table of `fg_setup.setup` pairs every objective with its own loss, its
own gradient and the lower bound of that loss's domain, and binds the extra parameter
exactly for the handles that mention one (the whole finite table is checked). -/
theorem C12_table_pairs (o : Objective) :
    (setupTable o).fn = lossOf o ∧ (setupTable o).grad = gradOf o ∧
    (setupTable o).lower = lowerOf o ∧
    (setupTable o).hasParam = !((setupTable o).fn.noParam && (setupTable o).grad.noParam) := by
  cases o <;> exact ⟨rfl, rfl, rfl, by decide⟩

/-- What `fg_setup.setup` returns for an objective is a (loss, derivative) pair at every
model value that respects the returned lower bound, for every data value and every
admissible extra parameter. -/
theorem C12_deriv_table (o : Objective) (x p m : ℝ) (hp : ParamOK o p)
    (hm : (setupTable o).lower.holds m) :
    HasDerivAt (fun m => (setupTable o).fn.evalR x p m) ((setupTable o).grad.evalR x p m) m := by
  cases o <;> simp only [setupTable, Bound.holds, Rat.cast_zero] at hm ⊢
  · exact C12_deriv_gaussian x p m
  · exact C12_deriv_bernoulli_odds x p m hm
  · exact C12_deriv_bernoulli_logit x p m
  · exact C12_deriv_poisson x p m hm
  · exact C12_deriv_poisson_log x p m
  · exact C12_deriv_rayleigh x p m hm
  · exact C12_deriv_gamma x p m hm
  · exact C12_deriv_huber x p m hp
  · exact C12_deriv_negative_binomial x p m hm
  · exact C12_deriv_beta x p m hm hp.1 hp.2

example : ParamOK .HUBER 1 ∧ (setupTable .POISSON).lower.holds 2 ∧ ParamOK .BETA (1/2) := by
  simp [ParamOK, setupTable, Bound.holds]

end Pyttb
