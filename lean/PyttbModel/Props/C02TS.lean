/-
C02 (continued) — `tensor.ttsv` (both code paths, every accepted `skip_dim`, every result kind, the
rejections) and the kernels of a Tucker tensor whose core is an `sptensor` (`innerprod` with every kind
of operand, `norm`, `mttkrp`).  Only property theorems and non-vacuity examples; proofs are in
Lemmas/MLTtsv.lean and Lemmas/MLTuckerSparseOps.lean.
`Spec.ttsv X x dnew i = Σ_j X[i ++ j] ∏_l x[j_l]` (Spec/MultilinearTtsv.lean); `ML.ttsvKeep skip` is the number
of kept modes (`skip_dim + 1`, `0` when absent), `ML.TtsvSkipOk d skip` says `skip_dim` is absent or a mode;
`MLK.tsDen T` is the array a Tucker tensor with a sparse core denotes (`Σ_j G[j] ∏ₙ Uₙ[iₙ, jₙ]`, `G` the core),
`MLK.taDen` the same for a Tucker tensor of either core kind.
-/
import PyttbModel.Lemmas.MLTtsv
import PyttbModel.Lemmas.MLTuckerSparseOps
import PyttbModel.Lemmas.MLRejects
namespace Pyttb

variable {α : Type}

/-! ### tensor times same vector -/

/-- `tensor.ttsv(x, skip_dim, version)` on a cubical tensor of any order `d ≥ 1` and extent `n`, for `skip_dim`
absent or any mode, on BOTH code paths (`version = 1` through `ttv`; the default and `version = 2` through the
reshape·dot loop); the vector needs the length `n` only when a mode is multiplied.  The result is accepted, its
entry at every kept coordinate `i` is `Σ_j X[i ++ j] ∏_l x[j_l]`, its shape is the kept extents and its kind the one
that belongs to `skip_dim` (0 scalar — nothing kept, 1 one-dimensional array, 2 two-dimensional array, 3 tensor),
for every extent (after the fix 0527d3b also for extent 1). -/
theorem C02_ttsv_dense [CommSemiring α] (T : Dense α) (hT : T.WF) (d n : Nat) (hd : 1 ≤ d)
    (hshape : T.shape = List.replicate d n) (x : List α) (skip : Option Int) (hskip : ML.TtsvSkipOk d skip)
    (hx : ML.ttsvKeep skip < d → x.length = n) (ver : ML.TtsvVer) (hver : ver ≠ .other) :
    ∃ r, T.ttsv x skip ver = .ok r ∧ r.shape = List.replicate (ML.ttsvKeep skip) n ∧
      r.kind = min (ML.ttsvKeep skip) 3 ∧
      ∀ i, InBounds (List.replicate (ML.ttsvKeep skip) n) i → r.get i = Spec.ttsv T.den x (ML.ttsvKeep skip) i :=
  ML.ttsv_cubical_spec T hT d n hd hshape x skip hskip hx ver hver

/-- `version = 1` goes through `ttv`, which only looks at the multiplied modes: for ANY shape whose modes after
the first `skip_dim + 1` have the vector's length the result has the kept extents, the kind that belongs to
`skip_dim`, and the entries `Σ_j X[i ++ j] ∏_l x[j_l]`. -/
theorem C02_ttsv_v1_dense [CommSemiring α] (T : Dense α) (hT : T.WF) (x : List α)
    (skip : Option Int) (hskip : ML.TtsvSkipOk T.shape.length skip)
    (hx : ∀ k, ML.ttsvKeep skip ≤ k → k < T.shape.length → T.shape.getD k 0 = x.length) :
    ∃ r, T.ttsv x skip .v1 = .ok r ∧ r.shape = Spec.ttsvShape T.shape (ML.ttsvKeep skip) ∧
      r.kind = min (ML.ttsvKeep skip) 3 ∧
      ∀ i, InBounds (Spec.ttsvShape T.shape (ML.ttsvKeep skip)) i →
        r.get i = Spec.ttsv T.den x (ML.ttsvKeep skip) i := ML.ttsv_v1_spec T hT x skip hskip hx

/-- The two code paths agree on every cubical tensor: no `version` is `version = 2`, and `version = 1` returns
literally the same result as `version = 2` (both run the `ttv` loop on the tensor's own data). -/
theorem C02_ttsv_versions_agree [CommSemiring α] (T : Dense α) (hT : T.WF) (d n : Nat) (hd : 1 ≤ d)
    (hshape : T.shape = List.replicate d n) (x : List α) (skip : Option Int) (hskip : ML.TtsvSkipOk d skip)
    (hx : ML.ttsvKeep skip < d → x.length = n) :
    T.ttsv x skip .default = T.ttsv x skip .v2 ∧ T.ttsv x skip .v1 = T.ttsv x skip .v2 :=
  ML.ttsv_versions_agree T hT d n hd hshape x skip hskip hx

/-- The behaviour before the fix 0527d3b, on an explicit copy of the old tail of the default version
(`if len(y) == 1: return y.item()`): for the `1 × 1` tensor `[5]`, vector `[2]`, `skip_dim = 0` the loop leaves the
length-1 vector `[10]`, which the old tail handed back as the scalar `10`; the repaired code returns the vector. -/
theorem C02_ttsv_extent1_pinned_counterexample :
    ML.ttsvTailPinned (Dense.ttsvLoop ([2] : List Int) 1 1 1 [5]) = .scalar 10 ∧
    (⟨[1, 1], [5]⟩ : Dense Int).ttsv [2] (some 0) .default = .ok (.vec [10]) := by decide +kernel

/-- What `ttsv` refuses: a `skip_dim` that is negative or not below the order (every version); a `version` other
than absent / 1 / 2; on the default path a tensor of order 0, a tensor that is not cubical, a vector whose length
is not the common extent while a mode is multiplied; on the `version = 1` path a multiplied mode whose extent is
not the vector's length. -/
theorem C02_ttsv_rejects [Add α] [Mul α] [Zero α] (T : Dense α) (x : List α) :
    (∀ s ver, (s < 0 ∨ (T.shape.length : Int) ≤ s) → T.ttsv x (some s) ver = .error .reject) ∧
    (∀ skip, T.ttsv x skip .other = .error .reject) ∧
    (∀ skip, ((∃ e ∈ T.shape, e ≠ T.shape.headD 0) ∨ T.shape = [] ∨
        (ML.ttsvKeep skip < T.shape.length ∧ x.length ≠ T.shape.headD 0)) →
      T.ttsv x skip .v2 = .error .reject ∧ T.ttsv x skip .default = .error .reject) ∧
    (∀ skip, ML.TtsvSkipOk T.shape.length skip →
      (∃ k, ML.ttsvKeep skip ≤ k ∧ k < T.shape.length ∧ T.shape.getD k 0 ≠ x.length) →
      T.ttsv x skip .v1 = .error .reject) :=
  ⟨fun s ver h => ML.ttsv_rejects_skip T x s ver h, fun skip => ML.ttsv_rejects_version T x skip,
   fun skip h => ML.ttsv_v2_rejects T x skip h, fun skip hs h => ML.ttsv_v1_rejects T x skip hs h⟩

/-- The definition of `ttsv` is the definition of `ttv` with the same vector in the modes `dnew, …, N-1`
(`ML.trailing N dnew`). -/
theorem C02_ttsv_spec_eq_ttv [CommSemiring α] (X : Den α) (x : List α) (dnew : Nat) (hd : dnew ≤ X.shape.length)
    (i : List Nat) (hi : InBounds (X.shape.take dnew) i) :
    Spec.ttsv X x dnew i = Spec.ttv X (ML.trailing X.shape.length dnew) (fun _ k => x.getD k 0) i :=
  ML.spec_ttsv_eq_ttv X x dnew hd i hi

/-! ### Tucker tensors with a sparse core -/

/-- `ttensor.innerprod(other)` for a Tucker tensor with a SPARSE core and a dense or a sparse `other` (also reached
as `other.innerprod(ttensor)`), on both sides of the size switch — through `full()` (sparse `ttm` kernel) when the
tensor is smaller than its core, otherwise `other.ttm(factors, transpose=True)` (dense or sparse kernel) paired
with the core by the sparse · dense inner product: `Σ_k ⟦T⟧[k]·other[k]`, the value the dense-core code is
specified to have; a dense operand of another shape is rejected. -/
theorem C02_innerprod_tucker_sparse_core [CommSemiring α] [DecidableEq α] (T : TtensorS α) (hT : MLK.TuckerSWF T)
    (hN : 1 ≤ T.factors.length) :
    (∀ D : Dense α, D.WF → MLK.tsShape T = D.shape → T.innerprodDense D = .ok (Spec.inner (MLK.tsDen T) D.den)) ∧
    (∀ D : Dense α, MLK.tsShape T ≠ D.shape → T.innerprodDense D = .error .reject) ∧
    (∀ S : Sparse α, S.WF → MLK.tsShape T = S.shape → T.innerprodSparse S = .ok (Spec.inner (MLK.tsDen T) S.den)) :=
  ⟨fun D hD hs => MLK.tuckerS_innerprodDense_spec T hT hN D hD hs,
   fun D hs => MLK.tuckerS_innerprodDense_rejects T D hs,
   fun S hS hs => MLK.tuckerS_innerprodSparse_spec T hT hN S hS hs⟩

/-- `ttensor.innerprod(ttensor)` when either core — or both — is sparse (dense · dense is
`C02_innerprod_tucker_tucker`): the operand with the smaller core comes first (the call is repeated with the
arguments reversed otherwise), the other core goes through its own `ttm` kernel with the matrices `AₙᵀBₙ`, and the
result is paired with the first core by its own inner-product kernel: `Σ_k ⟦T⟧[k]·⟦O⟧[k]`, whichever core is
smaller; different shapes are rejected. -/
theorem C02_innerprod_tucker_sparse_core_tucker [CommSemiring α] [DecidableEq α] (T O : TuckerAny α)
    (hT : MLK.TuckerAnyWF T) (hO : MLK.TuckerAnyWF O) (hN : 1 ≤ T.factors.length) :
    (T.shape = O.shape → TuckerAny.innerprodT T O = .ok (Spec.inner (MLK.taDen T) (MLK.taDen O))) ∧
    (T.shape ≠ O.shape → TuckerAny.innerprodT T O = .error .reject) :=
  ⟨MLK.tuckerAny_innerprodT_spec T O hT hO hN, MLK.tuckerAny_innerprodT_rejects T O⟩

/-- `ktensor.innerprod(ttensor)` / `ttensor.innerprod(ktensor)` with a sparse core: one full `ttv` per component,
each through the sparse `ttv` kernel on the core (scalar result), weighted and added, is `Σ_k ⟦K⟧[k]·⟦T⟧[k]`. -/
theorem C02_innerprod_tucker_sparse_core_kruskal [CommSemiring α] [DecidableEq α] (T : TtensorS α)
    (hT : MLK.TuckerSWF T) (K : Ktensor α) (hs : K.shape = MLK.tsShape T) :
    T.innerprodKruskal K = .ok (Spec.inner K.den (MLK.tsDen T)) := MLK.tuckerS_innerprodKruskal_spec T hT K hs

/-- The square of `ttensor.norm()` with a sparse core on both sides of its size switch (Gram matrices through the
sparse `ttm` and the sparse · dense inner product when the tensor is larger than its core, `full()` otherwise)
is `Σ_k ⟦T⟧[k]²`. -/
theorem C02_norm_tucker_sparse_core [CommSemiring α] [DecidableEq α] (T : TtensorS α) (hT : MLK.TuckerSWF T)
    (hN : 1 ≤ T.factors.length) : T.normSq = .ok (Spec.normSq (MLK.tsDen T)) := MLK.tuckerS_normSq_spec T hT hN

/-- `ttensor.mttkrp(U, n)` with a sparse core and a list of factor matrices: the matrices `UₘᵀVₘ` go into
`sptensor.mttkrp` of the core (one sparse `ttv` per column, each of which may come back sparse or densified), whose
result is multiplied by `Uₙ`.  An `I_n × R` matrix with entry `[i, r]` `Σ_{k, k_n = i} ⟦T⟧[k] ∏_{m ≠ n} V_m[k_m, r]` —
the specification of the dense-core kernel (`C02_mttkrp_tucker`), for every mode `n`. -/
theorem C02_mttkrp_tucker_sparse_core [CommSemiring α] [DecidableEq α] (T : TtensorS α) (hT : MLK.TuckerSWF T)
    (U : List (Mat α)) (n R : Nat)
    (hN2 : 2 ≤ T.factors.length) (hn : n < T.factors.length) (hlen : U.length = T.factors.length)
    (hrows : ∀ m, m < T.factors.length → m ≠ n → (U.getD m []).length = (T.factors.getD m []).length)
    (hcols : ∀ m, m < T.factors.length → m ≠ n → ∀ row ∈ U.getD m [], row.length = R)
    (hpos : ∀ m, m < T.factors.length → m ≠ n → 0 < (T.factors.getD m []).length)
    (hcpos : ∀ e ∈ T.core.shape, 0 < e) :
    ∃ V, T.mttkrp (.list U) n = .ok V ∧ V.length = (T.factors.getD n []).length ∧ (∀ row ∈ V, row.length = R) ∧
      ∀ i r, i < (T.factors.getD n []).length → r < R →
        V.get i r = Spec.mttkrp (MLK.tsDen T) (fun m x c => (U.getD m []).get x c) (fun _ => 1) n i r :=
  MLK.tuckerS_mttkrp_list_spec T hT U n R hN2 hn hlen hrows hcols hpos hcpos

/-- `ttensor.mttkrp(L, n)` with a sparse core and a Kruskal operand: its weights (absorbed by
`get_mttkrp_factors`) scale the columns. -/
theorem C02_mttkrp_tucker_sparse_core_kruskal [CommSemiring α] [DecidableEq α] (T : TtensorS α)
    (hT : MLK.TuckerSWF T) (L : Ktensor α) (n R : Nat)
    (hN2 : 2 ≤ T.factors.length) (hn : n < T.factors.length) (hlen : L.factors.length = T.factors.length)
    (hw : L.weights.length = R)
    (hrows : ∀ m, m < T.factors.length → m ≠ n → (L.factors.getD m []).length = (T.factors.getD m []).length)
    (hcols : ∀ m, m < T.factors.length → m ≠ n → ∀ row ∈ L.factors.getD m [], row.length = R)
    (hpos : ∀ m, m < T.factors.length → m ≠ n → 0 < (T.factors.getD m []).length)
    (hcpos : ∀ e ∈ T.core.shape, 0 < e) :
    ∃ V, T.mttkrp (.kruskal L) n = .ok V ∧ V.length = (T.factors.getD n []).length ∧ (∀ row ∈ V, row.length = R) ∧
      ∀ i r, i < (T.factors.getD n []).length → r < R →
        V.get i r = Spec.mttkrp (MLK.tsDen T) (fun m x c => (L.factors.getD m []).get x c)
          (fun r => L.weights.getD r 0) n i r :=
  MLK.tuckerS_mttkrp_kruskal_spec T hT L n R hN2 hn hlen hw hrows hcols hpos hcpos

/-- Cross-representation form: with a sparse core, `innerprod(tensor)`, `innerprod(sptensor)` and `norm` return
exactly what the dense-core code returns for the same Tucker tensor with the core expanded (`MLK.expandS`) —
accepted or rejected — and the two Tucker tensors denote the same array. -/
theorem C02_tucker_sparse_core_eq_dense_core [CommSemiring α] [DecidableEq α] (T : TtensorS α)
    (hT : MLK.TuckerSWF T) (hN : 1 ≤ T.factors.length) :
    (∀ D : Dense α, D.WF → T.innerprodDense D = (MLK.expandS T).innerprodDense D) ∧
    (∀ S : Sparse α, S.WF → T.innerprodSparse S = (MLK.expandS T).innerprodSparse S) ∧
    T.normSq = (MLK.expandS T).normSq ∧
    (∀ k, (MLK.tsDen T).get k = (MLK.expandS T).den.get k) :=
  ⟨fun D hD => MLK.tuckerS_innerprodDense_eq T hT hN D hD, fun S hS => MLK.tuckerS_innerprodSparse_eq T hT hN S hS,
   MLK.tuckerS_normSq_eq T hT hN, fun k => MLK.expandS_den_get T hT.core k⟩

/-! ### what the Kruskal / Tucker / sum kernels refuse -/

/-- `get_mttkrp_factors` refuses a factor list or a Kruskal operand with another number of factors than the tensor
has modes, and a Kruskal operand that lacks the factor its weights would be absorbed into (mode 1 for `n = 0`,
else mode 0). -/
theorem C02_get_mttkrp_factors_rejects [Mul α] (n N : Nat) :
    (∀ L : List (Mat α), L.length ≠ N → getMttkrpFactors (.list L) n N = .error .reject) ∧
    (∀ K : Ktensor α, (K.factors.length ≠ N ∨ K.factors.length ≤ (if n == 0 then 1 else 0)) →
      getMttkrpFactors (.kruskal K) n N = .error .reject) :=
  ⟨fun L h => MLK.getMttkrpFactors_rejects (.list L) n N h, fun K h => MLK.getMttkrpFactors_rejects (.kruskal K) n N h⟩

/-- `mttkrp` of every representation refuses what `get_mttkrp_factors` refuses; the sparse, Kruskal and Tucker
kernels refuse a mode index that is not a mode. -/
theorem C02_mttkrp_parts_rejects [Add α] [Mul α] [Zero α] [BEq α] (p : ML.Part α) (U : KOperand α) (n : Nat) :
    (getMttkrpFactors U n p.shape.length = .error .reject → p.mttkrp U n = .error .reject) ∧
    (p.shape.length ≤ n → (∀ t, p ≠ .dense t) → p.mttkrp U n = .error .reject) :=
  ⟨MLK.part_mttkrp_rejects_factors p U n, MLK.part_mttkrp_rejects_mode p U n⟩

/-- `ttensor.mttkrp` (dense or sparse core) refuses a factor matrix of a mode other than `n` whose number of rows
is not the extent of its mode; with a sparse core it also refuses what `get_mttkrp_factors` refuses and a mode
index that is not a mode. -/
theorem C02_mttkrp_tucker_rejects [Add α] [Mul α] [Zero α] [BEq α] (F : List (Mat α)) (cd : Dense α) (cs : Sparse α)
    (n : Nat) :
    (∀ (U : List (Mat α)) (m : Nat), m < F.length → m ≠ n → (U.getD m []).length ≠ (F.getD m []).length →
      Ttensor.mttkrp ⟨cd, F⟩ (.list U) n = .error .reject ∧ TtensorS.mttkrp ⟨cs, F⟩ (.list U) n = .error .reject) ∧
    (∀ U : KOperand α, (getMttkrpFactors U n F.length = .error .reject ∨ F.length ≤ n) →
      TtensorS.mttkrp ⟨cs, F⟩ U n = .error .reject) :=
  ⟨fun U m hm hmn hrow => MLK.tucker_mttkrp_rejects_rows F cd cs U n m hm hmn hrow,
   fun U h => MLK.tuckerS_mttkrp_rejects ⟨cs, F⟩ U n h⟩

/-- `ktensor.ttv` refuses a mode that is paired with two vectors. -/
theorem C02_ttv_kruskal_rejects_repeated_mode [Add α] [Mul α] [Zero α] (K : Ktensor α) (pairs : List (Nat × List α))
    (hdup : ¬ (pairs.map (·.1)).Nodup) : K.ttvCore pairs = .error .reject := MLK.kruskal_ttvCore_rejects_dup K pairs hdup

/-- `ttensor.ttm` refuses whatever mode designation `tt_dimscheck` refuses and a matrix whose size does not fit
the extent of its mode (rows when transposed, columns otherwise). -/
theorem C02_ttm_tucker_rejects [Add α] [Mul α] [Zero α] (T : Ttensor α) (Ms : List (Dense.MatArg α))
    (dims excl : Option (List Int)) (tr : Bool) :
    (resolveModes T.factors.length Ms dims excl = .error .reject → T.ttm Ms dims excl tr = .error .reject) ∧
    (∀ pairs, resolveModes T.factors.length Ms dims excl = .ok pairs →
      (∃ p ∈ pairs, (if tr then p.2.m else p.2.n) ≠ (T.factors.getD p.1 []).length) →
      T.ttm Ms dims excl tr = .error .reject) := MLK.tucker_ttm_rejects T Ms dims excl tr

/-- `x.innerprod(y)` of two objects of different shapes is refused, for every pair of representations (all 16
dispatch cases); with a sparse core, `ttensor.innerprod` refuses a sparse or Kruskal operand of another shape. -/
theorem C02_innerprod_parts_rejects [Add α] [Mul α] [Zero α] [BEq α] :
    (∀ x y : ML.Part α, x.shape ≠ y.shape → x.innerprod y = .error .reject) ∧
    (∀ (T : TtensorS α) (S : Sparse α), T.shape ≠ S.shape → T.innerprodSparse S = .error .reject) ∧
    (∀ (T : TtensorS α) (K : Ktensor α), K.shape ≠ T.shape → T.innerprodKruskal K = .error .reject) :=
  ⟨MLK.part_innerprod_rejects, fun T => (MLK.tuckerS_innerprod_rejects T).1, fun T => (MLK.tuckerS_innerprod_rejects T).2⟩

/-- A sum tensor without parts, or with a part for which the operation is refused, is refused: `mttkrp`, `ttv`
and `full` (for `innerprod` see `C02_innerprod_sum_rejects`). -/
theorem C02_sum_rejects [Add α] [Mul α] [Zero α] [BEq α] (S : ML.Sumtensor α) :
    (∀ U n, (S = [] ∨ ∃ p ∈ S, p.mttkrp U n = .error .reject) → ML.Sumtensor.mttkrp S U n = .error .reject) ∧
    (∀ vs dims excl, (∃ p ∈ S, p.ttv vs dims excl = .error .reject) → ML.Sumtensor.ttv S vs dims excl = .error .reject) ∧
    ((S = [] ∨ ∃ p ∈ S, p.full = .error .reject) → ML.Sumtensor.full S = .error .reject) :=
  ⟨fun U n h => MLK.sum_mttkrp_rejects S U n h, fun vs dims excl h => MLK.sum_ttv_rejects S vs dims excl h,
   fun h => MLK.sum_full_rejects S h⟩

/-! ### non-vacuity -/

/-- A cubical `2 × 2 × 2` tensor and a vector with a negative entry. -/
example : (⟨[2, 2, 2], [1, -2, 3, 0, 5, 6, -7, 8]⟩ : Dense Int).ttsv [1, -1] (some 0) .default = .ok (.vec [-14, 0]) := by
  decide +kernel
example : (⟨[2, 2, 2], [1, -2, 3, 0, 5, 6, -7, 8]⟩ : Dense Int).ttsv [1, -1] none .v2 = .ok (.scalar (-14)) := by
  decide +kernel
example : (⟨[2, 2, 2], [1, -2, 3, 0, 5, 6, -7, 8]⟩ : Dense Int).ttsv [1, -1] (some 1) .v2 =
    .ok (.mat ⟨[2, 2], [-4, -8, 10, -8]⟩) := by decide +kernel
example : Spec.ttsv (⟨[2, 2, 2], [1, -2, 3, 0, 5, 6, -7, 8]⟩ : Dense Int).den [1, -1] 1 [0] = -14 := by decide +kernel
example : ML.TtsvSkipOk 3 (some 0) ∧ ML.ttsvKeep (some 0) = 1 ∧ ¬ ML.TtsvSkipOk 3 (some 3) := by decide
/-- The hypotheses of `C02_ttsv_versions_agree` hold for this input, so `version = 1` returns the same vector. -/
example : (⟨[2, 2, 2], [1, -2, 3, 0, 5, 6, -7, 8]⟩ : Dense Int).ttsv [1, -1] (some 0) .v1 = .ok (.vec [-14, 0]) := by
  rw [(C02_ttsv_versions_agree (⟨[2, 2, 2], [1, -2, 3, 0, 5, 6, -7, 8]⟩ : Dense Int) rfl 3 2 (by decide) rfl [1, -1] (some 0)
    (by decide) (fun _ => rfl)).2]
  decide +kernel
/-- An extent-1 tensor, `skip_dim = 0`: a vector of length 1 on both code paths. -/
example : (⟨[1, 1], [5]⟩ : Dense Int).ttsv [2] (some 0) .v1 = .ok (.vec [10]) := by
  rw [(C02_ttsv_versions_agree (⟨[1, 1], [5]⟩ : Dense Int) rfl 2 1 (by decide) rfl [2] (some 0) (by decide) (fun _ => rfl)).2]
  decide +kernel
/-- The default version refuses a non-cubical tensor (`version = 1` accepts it: `C02_ttsv_v1_dense`). -/
example : (⟨[1, 2], [3, 4]⟩ : Dense Int).ttsv [1, 1] (some 0) .default = .error .reject := by decide +kernel
example : ∃ r, (⟨[1, 2], [3, 4]⟩ : Dense Int).ttsv [1, 1] (some 0) .v1 = .ok r ∧ r.kind = 1 := by
  obtain ⟨r, h1, _, h3, _⟩ := C02_ttsv_v1_dense (⟨[1, 2], [3, 4]⟩ : Dense Int) rfl [1, 1] (some 0) (by decide)
    (by intro k h1 h2; change 1 ≤ k at h1; change k < 2 at h2; have : k = 1 := by omega
        subst this; rfl)
  exact ⟨r, h1, h3⟩

/-- A well-formed Tucker tensor with a sparse `2 × 2` core holding two entries (shape `3 × 2`). -/
example : MLK.TuckerSWF (⟨⟨[2, 2], [[0, 1], [1, 0]], [3, -2]⟩, [[[1, 0], [0, 1], [1, -1]], [[1, 2], [0, 1]]]⟩ : TtensorS Int) :=
  ⟨⟨rfl, by decide, by decide, by decide⟩, rfl, by decide⟩
example : Spec.normSq (MLK.tsDen (⟨⟨[2, 2], [[0, 1], [1, 0]], [3, -2]⟩, [[[1, 0], [0, 1], [1, -1]], [[1, 2], [0, 1]]]⟩ :
    TtensorS Int)) = 122 := by decide +kernel
/-- … so by `C02_norm_tucker_sparse_core` the sparse-core code returns that value. -/
example : (⟨⟨[2, 2], [[0, 1], [1, 0]], [3, -2]⟩, [[[1, 0], [0, 1], [1, -1]], [[1, 2], [0, 1]]]⟩ : TtensorS Int).normSq =
    .ok 122 := by
  rw [C02_norm_tucker_sparse_core _ ⟨⟨rfl, by decide, by decide, by decide⟩, rfl, by decide⟩ (by decide)]
  decide +kernel
example : (⟨⟨[2, 2], [[0, 1], [1, 0]], [3, -2]⟩, [[[1, 0], [0, 1], [1, -1]], [[1, 2], [0, 1]]]⟩ : TtensorS Int).innerprodDense
    ⟨[3, 2], [1, 0, 2, 0, 1, 1]⟩ = .ok 25 := by
  rw [(C02_innerprod_tucker_sparse_core _ ⟨⟨rfl, by decide, by decide, by decide⟩, rfl, by decide⟩ (by decide)).1
    ⟨[3, 2], [1, 0, 2, 0, 1, 1]⟩ rfl rfl]
  decide +kernel

/-- Inputs on the reject side: a mode paired twice, a factor list that is too short, shapes that differ. -/
example : ¬ (([(0, [1, 2]), (0, [3, 4])] : List (Nat × List Int)).map (·.1)).Nodup := by decide
example : getMttkrpFactors (.list [[[1, 2]]] : KOperand Int) 0 2 = .error .reject := by decide +kernel
example : (ML.Part.dense ⟨[2], [1, 2]⟩ : ML.Part Int).innerprod (.kruskal ⟨[1], [[[1], [2], [3]]]⟩) = .error .reject := by
  decide +kernel
example : (ML.Part.dense ⟨[2], [1, 2]⟩ : ML.Part Int).shape ≠ (ML.Part.kruskal ⟨[1], [[[1], [2], [3]]]⟩ : ML.Part Int).shape := by
  decide

end Pyttb
