/-
C09 — CP-ALS returns a model consistent with everything it reports.

The model is `PyttbModel/Alg/CpAls.lean` (`run`, `iterStep`, `modeUpdate`, `finish`); its scalar
formulas are the ones generated from `pyttb/cp_als.py` on every run
(`Generated/CpAlsFormulas.lean`), so a change of `normresidual`, `fit`, `fitchange`, the stop
test or the column scale in the source changes the statements proved here.

Scalars: any linear ordered field `α` whose `NumOps` are lawful (`sqrt x · sqrt x = x` for
`x ≥ 0`, `abs = |·|`, `<`, `== 0`, literals) — ℝ with `Real.sqrt` is an instance
(`C09_real_lawful`).  External services enter through contracts that the harness checks on
every recorded call:
* the data object: `DataLaws D X` (it denotes the array `X`; `innerprod` is the inner product
  with `X`; the MTTKRP law `⟨X, [[w;U]]⟩ = Σ_{i,r} w_r · mttkrp(X,U,n)[i,r] · U_n[i,r]`;
  `mttkrp(X,U,n)` ignores `U[n]`) — C02;
* `np.linalg.solve`: `SolveContract S` (an answer `A` satisfies `A · Y = B`).
`ktensor.norm()` is modelled (`knorm`) and the Kruskal norm identity is proved (`C09_knorm`).
Monotonicity of the fit (`C09_fit_monotone_mode_update`, `_sweep`, `C09_fit_monotone`, `_run`) is
proved for the list model itself under exactly these contracts (`Lemmas/CpAlsMonotone.lean`).
Only theorems named `C09_*` and their non-vacuity examples live here.
-/
import PyttbModel.Lemmas.CpAlsRun
import PyttbModel.Lemmas.CpAlsKnorm
import PyttbModel.Lemmas.CpAlsMatrix
import PyttbModel.Lemmas.CpAlsMonotone
import PyttbModel.Lemmas.CpAlsMonotoneWitness
import Mathlib.Analysis.Real.Sqrt

set_option linter.unusedSectionVars false
namespace Pyttb
open Pyttb.CpAls Matrix

variable {α : Type} [Field α] [LinearOrder α] [IsStrictOrderedRing α]

/-! ### shape, rank, normal form -/

/-- The returned Kruskal tensor has the requested rank and the shape of the data: `rank`
weights, one factor per mode, factor `n` is `shape[n] × rank`. -/
theorem C09_shape_rank {D : Data α} {S : Services α} {o : NumOps α} (ho : o.Lawful) {P : Params α}
    {init : Init α} {out : Output α} (h : run D S o P init = .ok out) (hi : InitOK D P.rank init) :
    out.M.weights.length = P.rank ∧ out.M.factors.length = D.shape.length ∧
    ∀ n < D.shape.length, IsMat (D.shape.getD n 0) P.rank (out.M.factors.getD n []) := by
  obtain ⟨di, od, dims, K, sprev, st, _, _, rfl, _, _, hinv, hw, _, _, _, _⟩ := run_final h hi
  rw [finish_M]
  obtain ⟨c1, c2, c3, _, _, _, c7⟩ := cleanup_spec ho P.fixsigns ⟨st.weights, st.U⟩
  refine ⟨by rw [c2]; exact hw, by rw [c1]; exact hinv.shape.1, fun n hn => ⟨?_, ?_⟩⟩
  · rw [c3]; exact (hinv.shape.2 n hn).1
  · intro row hrow
    rw [c7 n (by show n < st.U.length; rw [hinv.shape.1]; exact hn) row hrow]; exact hw

/-- The returned model is in normal form: every column of every factor has 2-norm one (or is
entirely zero — impossible when no weight vanishes), the weights are non-negative and in
decreasing order. -/
theorem C09_normal_form {D : Data α} {S : Services α} {o : NumOps α} (ho : o.Lawful) {P : Params α}
    {init : Init α} {out : Output α} (h : run D S o P init = .ok out) :
    (∀ n < out.M.factors.length, ∀ r < out.M.weights.length,
      colNorm2 o (out.M.factors.getD n []) r = 1 ∨
        ∀ i < (out.M.factors.getD n []).length, (out.M.factors.getD n []).get i r = 0) ∧
    (∀ w ∈ out.M.weights, 0 ≤ w) ∧ out.M.weights.Pairwise (fun a b => b ≤ a) := by
  obtain ⟨di, od, dims, K, st, _, _, _, rfl⟩ := run_ok h
  rw [finish_M]
  obtain ⟨_, _, _, c4, c5, c6, _⟩ := cleanup_spec ho P.fixsigns ⟨st.weights, st.U⟩
  exact ⟨c4, c5, c6⟩

/-! ### what a pass reports -/

/-- The Kruskal norm identity: the square of what `ktensor.norm()` computes from the Gram matrices
of the factors, `Σ_{a,b} w_a w_b ∏ₙ (UₙᵀUₙ)[a,b]`, is `Σ_i M[i]²` for the array `M = [[w; U]]`. -/
theorem C09_knorm {o : NumOps α} (ho : o.Lawful) (s : List Nat) (w : List α) (U : List (Mat α))
    (hU : ShapeOK s w.length U) :
    knormSq w U = ip s (Ktensor.get ⟨w, U⟩) (Ktensor.get ⟨w, U⟩) ∧
    knorm o w U * knorm o w U = ip s (Ktensor.get ⟨w, U⟩) (Ktensor.get ⟨w, U⟩) :=
  ⟨knormLaw s w U hU, knorm_mul_self ho (knormLaw s) w U hU⟩

/-- `iprod`, the expression built from the MTTKRP saved at the last mode update, is the inner
product `⟨X, M⟩` of the data with the model `M = [[weights; U]]` assembled after that update. -/
theorem C09_iprod {D : Data α} {S : Services α} {o : NumOps α} (ho : o.Lawful) {rank : Nat} {stoptol : α}
    {dims : List Nat} {it : Nat} {st st' : State α} {X : List Nat → α}
    (h : iterStep D S o rank stoptol dims it st = .ok st') (hI : PassInv D rank st)
    (hne : dims ≠ []) (hlast : dims.getLastD 0 < D.shape.length) (hD : DataLaws D X) :
    iprodOf rank (D.shape.getD (dims.getLastD 0) 0) (st'.U.getD (dims.getLastD 0) []) st'.Umttkrp st'.weights
      = ip D.shape X (Ktensor.get ⟨st'.weights, st'.U⟩) :=
  (iterStep_report ho h hI hne hlast hD (knormLaw _)).1

/-- After every pass `normresidual = ‖X − M‖` (it is non-negative and its square is
`Σ_i (X[i] − M[i])²`) and `fit = 1 − normresidual / ‖X‖`, for the model `M = [[weights; U]]` the
pass has assembled (data with a non-zero norm). -/
theorem C09_residual {D : Data α} {S : Services α} {o : NumOps α} (ho : o.Lawful) {rank : Nat} {stoptol : α}
    {dims : List Nat} {it : Nat} {st st' : State α} {X : List Nat → α}
    (h : iterStep D S o rank stoptol dims it st = .ok st') (hI : PassInv D rank st)
    (hne : dims ≠ []) (hlast : dims.getLastD 0 < D.shape.length) (hD : DataLaws D X)
    (hnz : D.norm ≠ 0) (hnorm : D.norm * D.norm = ip D.shape X X) :
    0 ≤ st'.normresidual ∧
    st'.normresidual * st'.normresidual =
      ip D.shape (fun i => X i - Ktensor.get ⟨st'.weights, st'.U⟩ i)
        (fun i => X i - Ktensor.get ⟨st'.weights, st'.U⟩ i) ∧
    st'.fit = 1 - st'.normresidual / D.norm :=
  (iterStep_report ho h hI hne hlast hD (knormLaw _)).2.1 hnz hnorm

/-- Data whose `norm()` is reported as zero (sum tensors): the value reported both as
`normresidual` and as `fit` is `‖M‖² − 2⟨X, M⟩`. -/
theorem C09_residual_sum {D : Data α} {S : Services α} {o : NumOps α} (ho : o.Lawful) {rank : Nat} {stoptol : α}
    {dims : List Nat} {it : Nat} {st st' : State α} {X : List Nat → α}
    (h : iterStep D S o rank stoptol dims it st = .ok st') (hI : PassInv D rank st)
    (hne : dims ≠ []) (hlast : dims.getLastD 0 < D.shape.length) (hD : DataLaws D X)
    (hz : D.norm = 0) :
    let M : List Nat → α := Ktensor.get ⟨st'.weights, st'.U⟩
    st'.normresidual = ip D.shape M M - 2 * ip D.shape X M ∧ st'.fit = ip D.shape M M - 2 * ip D.shape X M :=
  (iterStep_report ho h hI hne hlast hD (knormLaw _)).2.2 hz

/-- The values in the output dictionary.  There is a Kruskal tensor `M0` (the model assembled by
the last pass) of which the returned `M` is the clean-up `fixsigns?(arrange(M0))`, and
`normresidual = ‖X − Mrep‖`, `fit = 1 − normresidual/‖X‖` where `Mrep` is the RETURNED model
when printing is on (the report is recomputed from it) and `M0` otherwise.
(That `arrange` / `fixsigns` do not change the array — so that `Mrep` may be read as the
returned model in both cases — is `C08_arrange_denote` / `C08_fixsigns_denote`, proved for the
C08 model of the same two methods; it is not re-proved for the copies used here.) -/
theorem C09_residual_returned {D : Data α} {S : Services α} {o : NumOps α} (ho : o.Lawful) {P : Params α}
    {init : Init α} {out : Output α} {X : List Nat → α}
    (h : run D S o P init = .ok out) (hi : InitOK D P.rank init) (hD : DataLaws D X)
    (hnz : D.norm ≠ 0) (hnorm : D.norm * D.norm = ip D.shape X X) :
    ∃ M0 : Ktensor α, out.M = cleanup o P.fixsigns M0 ∧
      let Mrep : Ktensor α := if P.printing then out.M else M0
      0 ≤ out.normresidual ∧
      out.normresidual * out.normresidual =
        ip D.shape (fun i => X i - Mrep.get i) (fun i => X i - Mrep.get i) ∧
      out.fit = 1 - out.normresidual / D.norm := by
  have hshape := C09_shape_rank ho h hi
  obtain ⟨di, od, dims, K, sprev, st, _, _, rfl, hprev, hstep, hinv, hw, _, _, hne, hlast⟩ := run_final h hi
  refine ⟨⟨st.weights, st.U⟩, rfl, ?_⟩
  cases hp : P.printing with
  | false =>
    have := (iterStep_report ho hstep hprev hne hlast hD (knormLaw _)).2.1 hnz hnorm
    simpa [finish, hp] using this
  | true =>
    rw [finish_M] at hshape
    set M := cleanup o P.fixsigns ⟨st.weights, st.U⟩ with hM
    have hMs : ShapeOK D.shape M.weights.length M.factors := by
      rw [hshape.1]; exact ⟨hshape.2.1, hshape.2.2⟩
    have hnm := knorm_mul_self ho (knormLaw _) M.weights M.factors hMs
    have hr := (report_spec ho D.shape X M.get D.norm (knorm o M.weights M.factors) (D.innerprod M) hnm
      (hD.innerprod_eq M hMs)).1 hnz hnorm
    have e1 : (finish D o P di od K st).normresidual =
        (report o D.norm (knorm o M.weights M.factors) (D.innerprod M)).1 := by
      simp [finish, hp, hM, cleanup]
    have e2 : (finish D o P di od K st).fit =
        (report o D.norm (knorm o M.weights M.factors) (D.innerprod M)).2 := by
      simp [finish, hp, hM, cleanup]
    have e3 : (finish D o P di od K st).M = M := rfl
    simp only [if_true, e1, e2, e3]
    exact hr

/-! ### the mode update -/

/-- Normal equations of a mode update (relative to the solver's contract): with the column
weights multiplied back in, the updated factor `Â = U_n · diag(weights)` satisfies
`Â · (∗_{m≠n} U_mᵀU_m) = mttkrp(X, U, n)`, entry by entry, the Gram matrices being those of the
factors after the update.  For the mode updated last in a pass the right-hand side is the saved
`U_mttkrp` and the left-hand side is built from the final factors and weights of the pass. -/
theorem C09_normal_equations {D : Data α} {S : Services α} {o : NumOps α} (ho : o.Lawful)
    (hS : SolveContract S) {rank it last n : Nat} {st st' : State α}
    (h : modeUpdate D S o rank it last n st = .ok st')
    (hI : PassInv D rank st) (hn : n < D.shape.length)
    (hY : allZero o (coef st.UtU D.shape.length rank n) = false)
    (hw : ∀ r < rank, st'.weights.getD r 0 ≠ 0) :
    (∀ i < D.shape.getD n 0, ∀ r < rank,
      sumRange rank (fun a => ((st'.U.getD n []).get i a * st'.weights.getD a 0) *
        prodOver ((List.range D.shape.length).filter (· != n))
          fun m => (gram (st'.U.getD m []) rank).get a r) = (D.mttkrp st.U n).get i r) ∧
    (n = last → st'.Umttkrp = D.mttkrp st.U n) := by
  refine ⟨modeUpdate_normal_eq_after ho hS h hI.shape hI.gram hn hY hw, fun hl => ?_⟩
  obtain ⟨A0, _, rfl⟩ := modeUpdate_ok h
  simp [applyUpdate, hl]

/-- Gram matrix of a Khatri-Rao product = Hadamard product of the Gram matrices (bridge lemma (a)
below, at the level of the list kernels): for factors `fs` of the modes of shape `s`, with
`Z[j, r] = ∏ₘ fsₘ[jₘ, r]` over the subscripts `j` of `s`,
`(ZᵀZ)[a, b] = Σ_j Z[j,a]·Z[j,b] = ∏ₘ Σ_k fsₘ[k,a]·fsₘ[k,b]`. -/
theorem C09_gram_khatrirao (s : List Nat) (fs : List (Mat α)) (hl : fs.length = s.length) (a b : Nat) :
    ((allSubs s).map fun j => compOf fs a j * compOf fs b j).sum =
      (List.zipWith (fun A sn => sumRange sn fun k => Mat.get A k a * Mat.get A k b) fs s).prod :=
  sum_comp_mul s fs hl a b

/-- Least-squares optimality of a mode update.  Let `Xn` be the mode-`n` unfolding of the data
and `Z` the Khatri-Rao product of the other factors, i.e. matrices with `ZᵀZ = Y` (the
coefficient matrix the code forms) and `Xn·Z = mttkrp(X, U, n)`.  Then the updated factor
`Â = U_n·diag(weights)` minimises `‖Xn − A·Zᵀ‖²` over all `A`. -/
theorem C09_mode_update_optimal {D : Data α} {S : Services α} {o : NumOps α} (ho : o.Lawful)
    (hS : SolveContract S) {rank it last n : Nat} {st st' : State α}
    (h : modeUpdate D S o rank it last n st = .ok st') (hn : n < st.U.length)
    (hY : allZero o (coef st.UtU D.shape.length rank n) = false)
    (hw : ∀ r < rank, st'.weights.getD r 0 ≠ 0)
    {κ : Type} [Fintype κ]
    (Xn : Matrix (Fin (D.shape.getD n 0)) κ α) (Z : Matrix κ (Fin rank) α)
    (hZ : Zᵀ * Z = toMatrix (coef st.UtU D.shape.length rank n) rank rank)
    (hB : Xn * Z = toMatrix (D.mttkrp st.U n) (D.shape.getD n 0) rank)
    (A : Matrix (Fin (D.shape.getD n 0)) (Fin rank) α) :
    fro2 (Xn - toMatrix (scaledFactor st' n (D.shape.getD n 0) rank) (D.shape.getD n 0) rank * Zᵀ)
      ≤ fro2 (Xn - A * Zᵀ) := by
  apply ls_optimal
  rw [hZ, hB]
  exact modeUpdate_normal_eq_matrix ho hS h hn hY hw

/-- The fit never gets worse — matrix level.  With `Xn`, `Z` as in `C09_mode_update_optimal`, the
residual after the update of mode `n` is at most the residual of ANY model that shares the other
factors, in particular of the model before the update (`Aold` = old factor times old weights).
Missing for the statement about `fit` itself (bridge from the list kernels to `Matrix`):
(a) Gram of a Khatri-Rao product = Hadamard product of the Grams (`ZᵀZ = Y`; proved for the
    list kernels as `C09_gram_khatrirao`, not yet transported to `Matrix`),
(b) `mttkrp(X, U, n) = X_(n) · Z`,
(c) `‖X − [[w; U]]‖² = ‖X_(n) − (U_n diag w) Zᵀ‖²_F` for every mode `n`,
after which monotonicity of `normresidual` over a pass, and of `fit = 1 − normresidual/‖X‖`,
follows from `C09_residual` by chaining this inequality over the modes of the sweep.
(The statement about `fit` itself is now `C09_fit_monotone` below; its proof does not pass through
`Matrix`: (a)–(c) are established as identities between finite sums over the list kernels, see
`Lemmas/CpAlsMonotone.lean`.) -/
theorem C09_fit_monotone_partial {D : Data α} {S : Services α} {o : NumOps α} (ho : o.Lawful)
    (hS : SolveContract S) {rank it last n : Nat} {st st' : State α}
    (h : modeUpdate D S o rank it last n st = .ok st') (hn : n < st.U.length)
    (hY : allZero o (coef st.UtU D.shape.length rank n) = false)
    (hw : ∀ r < rank, st'.weights.getD r 0 ≠ 0)
    {κ : Type} [Fintype κ]
    (Xn : Matrix (Fin (D.shape.getD n 0)) κ α) (Z : Matrix κ (Fin rank) α)
    (hZ : Zᵀ * Z = toMatrix (coef st.UtU D.shape.length rank n) rank rank)
    (hB : Xn * Z = toMatrix (D.mttkrp st.U n) (D.shape.getD n 0) rank) :
    fro2 (Xn - toMatrix (scaledFactor st' n (D.shape.getD n 0) rank) (D.shape.getD n 0) rank * Zᵀ)
      ≤ fro2 (Xn - toMatrix (scaledFactor st n (D.shape.getD n 0) rank) (D.shape.getD n 0) rank * Zᵀ) :=
  C09_mode_update_optimal ho hS h hn hY hw Xn Z hZ hB _

/-! ### the fit never gets worse — list model -/

/-- One mode update does not increase the distance between the data and the model:
`‖X − [[weights'; U']]‖² ≤ ‖X − [[weights; U]]‖²` for the states before and after the body of
`for n in dimorder`, for data obeying the C02 laws and a solver obeying its contract.
Both branches of the guard are covered: on the solve branch the answer `A0` of the solver
minimises `A ↦ ‖X − [[1; U with U_n := A]]‖²` (normal equations; the coefficient matrix
`∗_{m≠n} U_mᵀU_m` is symmetric positive semi-definite and, like the MTTKRP, does not depend on
mode `n`), and the model before the update is of that form with `A = U_n·diag(weights)`; on the
all-zero branch the coefficient matrix vanishes, so the model before and the model after are both
the zero array.  The column re-scaling does not change the model (`U'_n·diag(weights') = A0`)
provided no `0/0` occurs in `Unew / weights`: the new scales are all non-zero, or all zero (then
nothing is divided).  This is hypothesis `hreg`; it can only fail in pass `0` (2-norm scale, a
solver answer with some but not all columns zero — NumPy then produces NaN), from pass `1` on the
scale is `≥ 1` (`C09_fit_monotone_sweep`, `C09_fit_monotone` need no such hypothesis). -/
theorem C09_fit_monotone_mode_update {D : Data α} {S : Services α} {o : NumOps α} (ho : o.Lawful)
    (hS : SolveContract S) {X : List Nat → α} (hD : DataLaws D X) {rank it last n : Nat} {st st' : State α}
    (h : modeUpdate D S o rank it last n st = .ok st') (hI : PassInv D rank st)
    (hw : st.weights.length = rank) (hn : n < D.shape.length)
    (hreg : (∀ r < rank, st'.weights.getD r 0 ≠ 0) ∨ (∀ r < rank, st'.weights.getD r 0 = 0)) :
    ip D.shape (fun i => X i - Ktensor.get ⟨st'.weights, st'.U⟩ i)
        (fun i => X i - Ktensor.get ⟨st'.weights, st'.U⟩ i) ≤
      ip D.shape (fun i => X i - Ktensor.get ⟨st.weights, st.U⟩ i)
        (fun i => X i - Ktensor.get ⟨st.weights, st.U⟩ i) :=
  modeUpdate_resid_le ho hS hD h hI hw hn hreg

/-- A whole pass (all mode updates of `for n in dimorder`, any pass index `it`) does not increase
`‖X − M‖²`, `M = [[weights; U]]`, provided every mode update of the sweep is free of `0/0` in the
column re-scaling (`hreg`: after each update that succeeds the new scales are all non-zero or all
zero; automatic for `it > 0`, see `C09_fit_monotone`). -/
theorem C09_fit_monotone_sweep {D : Data α} {S : Services α} {o : NumOps α} (ho : o.Lawful)
    (hS : SolveContract S) {X : List Nat → α} (hD : DataLaws D X) {rank : Nat} {stoptol : α}
    {dims : List Nat} {it : Nat} {st st' : State α}
    (h : iterStep D S o rank stoptol dims it st = .ok st') (hI : PassInv D rank st)
    (hw : st.weights.length = rank) (hdims : ∀ n ∈ dims, n < D.shape.length)
    (hreg : SweepAll (fun n s => modeUpdate D S o rank it (dims.getLastD 0) n s)
      (fun s => (∀ r < rank, s.weights.getD r 0 ≠ 0) ∨ (∀ r < rank, s.weights.getD r 0 = 0)) dims st) :
    ip D.shape (fun i => X i - Ktensor.get ⟨st'.weights, st'.U⟩ i)
        (fun i => X i - Ktensor.get ⟨st'.weights, st'.U⟩ i) ≤
      ip D.shape (fun i => X i - Ktensor.get ⟨st.weights, st.U⟩ i)
        (fun i => X i - Ktensor.get ⟨st.weights, st.U⟩ i) :=
  iterStep_resid_le ho hS hD h hI hw hdims hreg

/-- The fit never gets worse from one iteration to the next.  Let `st` be the state after some pass
(`h0`) and `st'` the state after the following pass (`h`; its index `it` is then positive — in
`cp_als` it is the index of the first pass plus one).  For data obeying the C02 laws with
`‖X‖ = D.norm > 0`, a solver obeying its contract and a lawful number system:
`‖X − M'‖² ≤ ‖X − M‖²` for the models `M`, `M'` the two passes assemble, the reported
`normresidual` does not increase and the reported `fit = 1 − normresidual/‖X‖` does not decrease.
No assumption on which branch of the all-zero guard the updates take, nor on the column scales
(from the second pass on they are `max(max|column|, 1) ≥ 1`). -/
theorem C09_fit_monotone {D : Data α} {S : Services α} {o : NumOps α} (ho : o.Lawful)
    (hS : SolveContract S) {X : List Nat → α} (hD : DataLaws D X) {rank : Nat} {stoptol : α}
    {dims : List Nat} {it0 it : Nat} {st0 st st' : State α}
    (h0 : iterStep D S o rank stoptol dims it0 st0 = .ok st) (hI : PassInv D rank st0)
    (h : iterStep D S o rank stoptol dims it st = .ok st') (hit : 0 < it)
    (hne : dims ≠ []) (hdims : ∀ n ∈ dims, n < D.shape.length)
    (hpos : 0 < D.norm) (hnorm : D.norm * D.norm = ip D.shape X X) :
    ip D.shape (fun i => X i - Ktensor.get ⟨st'.weights, st'.U⟩ i)
        (fun i => X i - Ktensor.get ⟨st'.weights, st'.U⟩ i) ≤
      ip D.shape (fun i => X i - Ktensor.get ⟨st.weights, st.U⟩ i)
        (fun i => X i - Ktensor.get ⟨st.weights, st.U⟩ i) ∧
    st'.normresidual ≤ st.normresidual ∧ st.fit ≤ st'.fit := by
  have hlast : dims.getLastD 0 < D.shape.length := by
    apply hdims
    rw [List.getLastD_eq_getLast?, List.getLast?_eq_some_getLast hne]
    exact List.getLast_mem hne
  have hR := iterStep_reported ho h0 hI hne hlast hD hpos.ne' hnorm
  exact ⟨iterStep_resid_le ho hS hD h hR.inv hR.wlen hdims (sweepAll_later ho hit _ _),
    (iterStep_fit_le ho hS hD h hit hR hne hdims hpos hnorm).2⟩

/-- The fit never gets worse over a whole run.  A successful `cp_als` run executes passes
`0, 1, …, iters`; `tr` lists the loop states after these passes (`IsTrace`: each is `iterStep` of
the previous one, the first of the start state), the output is computed from the last of them, and
along `tr` — for ANY two passes, the earlier one first — the reported `normresidual` does not
increase and the reported `fit` does not decrease. -/
theorem C09_fit_monotone_run {D : Data α} {S : Services α} {o : NumOps α} (ho : o.Lawful)
    (hS : SolveContract S) {X : List Nat → α} (hD : DataLaws D X) {P : Params α} {init : Init α}
    {out : Output α} (h : run D S o P init = .ok out) (hi : InitOK D P.rank init)
    (hpos : 0 < D.norm) (hnorm : D.norm * D.norm = ip D.shape X X) :
    ∃ (di od dims : List Nat) (K : Ktensor α) (tr : List (State α)),
      setup D P init = .ok (di, od, dims, K) ∧
      IsTrace (iterStep D S o P.rank P.stoptol dims) 0 (initState D P.rank dims K) tr ∧
      tr.length = out.iters + 1 ∧
      out = finish D o P di od K (tr.getLastD (initState D P.rank dims K)) ∧
      tr.Pairwise (fun s s' => s'.normresidual ≤ s.normresidual ∧ s.fit ≤ s'.fit) := by
  obtain ⟨di, od, dims, K, st, hs, hm, hl, rfl⟩ := run_ok h
  obtain ⟨s1, _, s3, _, s5, s6, _⟩ := setup_spec hs hi
  have hdims : ∀ n ∈ dims, n < D.shape.length := fun n hn =>
    isPermOf_lt s5 _ (List.mem_filter.1 (s6 ▸ hn)).1
  have hlast : dims.getLastD 0 < D.shape.length := by
    apply hdims
    rw [List.getLastD_eq_getLast?, List.getLast?_eq_some_getLast s3]
    exact List.getLast_mem s3
  obtain ⟨tr, t1, t2, t3⟩ := loopFrom_trace _ _ _ _ _ hl
  have hne := t3 (Nat.pos_of_ne_zero hm)
  have hlen := isTrace_iteration (fun k s s' hk => by
    obtain ⟨st1, _, rfl⟩ := iterStep_ok hk; rfl) tr 0 _ t1 hne
  refine ⟨di, od, dims, K, tr, hs, t1, ?_, by rw [t2], ?_⟩
  · rw [t2] at hlen
    show tr.length = st.iteration + 1
    omega
  · cases tr with
    | nil => exact absurd rfl hne
    | cons s tr =>
      have hR := iterStep_reported ho t1.1 (passInv_init dims s1) s3 hlast hD hpos.ne' hnorm
      exact trace_monotone ho hS hD s3 hdims hpos hnorm tr 1 s Nat.one_pos hR t1.2

/-! ### the loop -/

/-- `iters` (the index of the last pass) is below `maxiters`. -/
theorem C09_iters_le {D : Data α} {S : Services α} {o : NumOps α} {P : Params α}
    {init : Init α} {out : Output α} (h : run D S o P init = .ok out) (hi : InitOK D P.rank init) :
    out.iters < P.maxiters ∧ out.iters ≤ P.maxiters := by
  obtain ⟨di, od, dims, K, sprev, st, _, _, rfl, _, _, _, _, hlt, _, _, _⟩ := run_final h hi
  exact ⟨hlt, Nat.le_of_lt hlt⟩

/-- The loop ends at pass `iters` because the limit is reached or because the stop test held, and
the stop test of the last pass is exactly `iters > 0 ∧ |fit_before − fit| < stoptol`. -/
theorem C09_stop_rule {D : Data α} {S : Services α} {o : NumOps α} (ho : o.Lawful) {P : Params α}
    {init : Init α} {out : Output α} (h : run D S o P init = .ok out) (hi : InitOK D P.rank init) :
    ∃ (dims : List Nat) (sprev st : State α),
      iterStep D S o P.rank P.stoptol dims out.iters sprev = .ok st ∧ st.iteration = out.iters ∧
      (st.stop = true ∨ out.iters + 1 = P.maxiters) ∧
      (st.stop = true ↔ 0 < out.iters ∧ |sprev.fit - st.fit| < P.stoptol) := by
  obtain ⟨di, od, dims, K, sprev, st, _, _, rfl, _, hstep, _, _, _, hstop, _, _⟩ := run_final h hi
  refine ⟨dims, sprev, st, hstep, rfl, hstop, ?_⟩
  obtain ⟨st1, _, hst⟩ := iterStep_ok hstep
  have : st.stop = Gen.stopTest o st.iteration (Gen.fitchange o sprev.fit st.fit) P.stoptol := by
    rw [hst]; rfl
  rw [this]
  exact stopTest_spec ho _ _ _ _

/-- The returned initial guess is the one actually used: `output.init` is the Kruskal tensor the
set-up produced, the loop starts from its factor matrices, and a caller's guess is returned as it
was given. -/
theorem C09_init_returned {D : Data α} {S : Services α} {o : NumOps α} {P : Params α}
    {init : Init α} {out : Output α} (h : run D S o P init = .ok out) :
    ∃ di od dims st,
      setup D P init = .ok (di, od, dims, out.init) ∧
      (initState D P.rank dims out.init).U = out.init.factors ∧
      loopFrom (iterStep D S o P.rank P.stoptol dims) P.maxiters 0 (initState D P.rank dims out.init) = .ok st ∧
      out = finish D o P di od out.init st ∧
      ∀ K0, init = .given K0 → out.init = K0 := by
  obtain ⟨di, od, dims, K, st, hs, _, hl, rfl⟩ := run_ok h
  refine ⟨di, od, dims, st, hs, rfl, hl, rfl, fun K0 hK => ?_⟩
  subst hK
  exact (setup_spec hs trivial).2.2.2.2.2.2 K0 rfl

/-- Requests `cp_als` refuses: an iteration limit of zero, a rank of zero, a `dimorder` that is
not a permutation of the modes, an `optdims` with a repeated entry or an entry that is not a mode,
no mode left to optimise. -/
theorem C09_rejects (D : Data α) (S : Services α) (o : NumOps α) (P : Params α) (init : Init α)
    (h : P.maxiters = 0 ∨ P.rank = 0 ∨
      isPermOf (P.dimorder.getD (List.range D.shape.length)) D.shape.length = false ∨
      (∃ od, P.optdims = some od ∧ optdimsOK od D.shape.length = false) ∨
      (P.dimorder.getD (List.range D.shape.length)).filter
        (fun d => (P.optdims.getD (List.range D.shape.length)).contains d) = []) :
    run D S o P init = .error .reject := by
  rcases h with h | h | h | h | h
  · exact run_rejects D S o P init (Or.inl h)
  · exact run_rejects D S o P init (Or.inr (setup_rejects D P init (Or.inr (Or.inl h))))
  · exact run_rejects D S o P init (Or.inr (setup_rejects D P init (Or.inl h)))
  · exact run_rejects D S o P init (Or.inr (setup_rejects D P init (Or.inr (Or.inr (Or.inl h)))))
  · exact run_rejects D S o P init (Or.inr (setup_rejects D P init (Or.inr (Or.inr (Or.inr h)))))

/-! ### non-vacuity -/

/-- ℝ with `Real.sqrt` as the number system of the model. -/
noncomputable def CpAls.realOps : NumOps ℝ :=
  { sqrt := Real.sqrt, abs := fun x => |x|, lt := fun a b => decide (a < b),
    isZero := fun a => decide (a = 0), ofNat := fun n => (n : ℝ) }

/-- ℝ with `Real.sqrt` is a lawful number system: every theorem above applies to it. -/
theorem C09_real_lawful : CpAls.realOps.Lawful :=
  { sqrt_nonneg := fun x _ => Real.sqrt_nonneg x,
    sqrt_mul_self := fun _ hx => Real.mul_self_sqrt hx,
    abs_eq := fun _ => rfl,
    lt_iff := fun a b => by simp [CpAls.realOps],
    isZero_iff := fun a => by simp [CpAls.realOps],
    ofNat_eq := fun _ => rfl }

/-- `DataLaws` is satisfiable: the zero array with the zero services.  (For the dense, sparse,
Kruskal and Tucker representations the laws are the C02 theorems about `innerprod` / `mttkrp`.) -/
example (s : List Nat) :
    DataLaws (α := ℝ) { shape := s, norm := 0, mttkrp := fun _ _ => [], innerprod := fun _ => 0, nvecs := none }
      (fun _ => 0) :=
  { innerprod_eq := fun K _ => by simp [ip],
    mttkrp_law := fun w U n _ _ => by simp [ip, sumRange, Mat.get],
    mttkrp_indep := fun _ _ _ => rfl }

/-- a solver that answers `B · Y⁻¹` for `1 × 1` systems satisfies the contract on a concrete
non-trivial call. -/
example : ∃ S : Services ℝ, SolveContract S ∧ S.solve 0 [[2]] [[6]] = .ok [[3]] := by
  refine ⟨{ solve := fun _ Y B => if Y = [[2]] ∧ B = [[6]] then .ok [[3]] else .error .reject }, ?_, by simp⟩
  intro n Y B A h R i r hR hr
  by_cases hc : Y = [[2]] ∧ B = [[6]]
  · simp only [hc, and_self, if_true, Except.ok.injEq] at h
    subst h
    obtain ⟨rfl, rfl⟩ := hc
    simp at hR
    subst hR
    have : r = 0 := by omega
    subst this
    cases i with
    | zero => norm_num [sumRange, Mat.get]
    | succ i => simp [sumRange, Mat.get]
  · simp [hc] at h

/-- `C09_fit_monotone` is not vacuous: the `2 × 1` array `X = [[3], [4]]` (`‖X‖ = 5`; it obeys
the data laws, `exD_laws`), rank one, a solver for `1 × 1` systems (`exS_contract`), the start
`U = ([[1], [1]], [[1]])`, ℝ with `Real.sqrt`.  Pass `0` and pass `1` both succeed through the
solve branch (pass `0` ends in `U = ([[3/5], [4/5]], [[1]])`, `weights = [5]`), all hypotheses of
the theorem hold, and it yields `fit` after pass `0` `≤ fit` after pass `1`. -/
example : ∃ st st' : State ℝ,
    iterStep exD exS CpAls.realOps 1 0 [0, 1] 0 exSt0 = .ok st ∧
    iterStep exD exS CpAls.realOps 1 0 [0, 1] 1 st = .ok st' ∧
    DataLaws exD exX ∧ SolveContract exS ∧ PassInv exD 1 exSt0 ∧
    (0 < exD.norm ∧ exD.norm * exD.norm = ip exD.shape exX exX) ∧
    st'.normresidual ≤ st.normresidual ∧ st.fit ≤ st'.fit := by
  have hsweep0 : [0, 1].foldlM (fun s n => modeUpdate exD exS CpAls.realOps 1 0 1 n s) exSt0 = .ok exSt1 := by
    norm_num [modeUpdate, exSt0, exSt1, initState, exD, exS, solveStep, allZero, coef, gram, tab, ex_range1,
      ex_range2, prodOver, sumRange, Mat.get, CpAls.realOps, applyUpdate, colWeights, scaleCols, CpAls.col,
      Gen.colWeight, Gen.firstIteration, Gen.colWeightFirst, sumL, bind, Except.bind, pure, Except.pure,
      ex_sqrt25, ex_sqrt3344]
  have h0 : iterStep exD exS CpAls.realOps 1 0 [0, 1] 0 exSt0 =
      .ok (closePass CpAls.realOps 0 0 0 (passReport exD CpAls.realOps 1 [0, 1] exSt1).1
        (passReport exD CpAls.realOps 1 [0, 1] exSt1).2 exSt1) := by
    unfold iterStep
    simp only [List.getLastD_cons, List.getLastD_nil]
    rw [hsweep0]
    rfl
  have h1 : ∀ nr fit : ℝ, ∃ st', iterStep exD exS CpAls.realOps 1 0 [0, 1] 1
      (closePass CpAls.realOps 0 0 0 nr fit exSt1) = .ok st' := by
    intro nr fit
    norm_num [iterStep, closePass, modeUpdate, exSt1, exD, exS, solveStep, allZero, coef, gram, tab, ex_range1,
      ex_range2, prodOver, sumRange, Mat.get, CpAls.realOps, applyUpdate, colWeights, scaleCols, CpAls.col,
      Gen.colWeight, Gen.firstIteration, Gen.colWeightLater, NumOps.max, maxL, sumL, bind, Except.bind, pure,
      Except.pure]
  obtain ⟨st', h1⟩ := h1 _ _
  have hdims : ∀ n ∈ [0, 1], n < exD.shape.length := by
    intro n hn
    simp only [List.mem_cons, List.not_mem_nil, or_false] at hn
    rcases hn with rfl | rfl <;> decide
  exact ⟨_, st', h0, h1, exD_laws, exS_contract, exSt0_inv, exD_norm,
    (C09_fit_monotone C09_real_lawful exS_contract exD_laws h0 exSt0_inv h1 Nat.one_pos (by simp) hdims
      exD_norm.1 exD_norm.2).2⟩

/-- least squares on a concrete instance: `A⋆ = [1]`, `Z = [[1],[1]]`, `X = [[1, 1]]`. -/
example (A : Matrix (Fin 1) (Fin 1) ℝ) :
    fro2 ((!![1, 1] : Matrix (Fin 1) (Fin 2) ℝ) - (!![1] : Matrix (Fin 1) (Fin 1) ℝ) * (!![1; 1] : Matrix (Fin 2) (Fin 1) ℝ)ᵀ)
      ≤ fro2 ((!![1, 1] : Matrix (Fin 1) (Fin 2) ℝ) - A * (!![1; 1] : Matrix (Fin 2) (Fin 1) ℝ)ᵀ) := by
  apply ls_optimal
  ext i j
  fin_cases i; fin_cases j
  simp [Matrix.mul_apply, Fin.sum_univ_two]

end Pyttb
