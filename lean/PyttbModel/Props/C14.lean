/-
C14 — leading mode-n vectors (`nvecs`) span the dominant subspace in every representation.
Only property theorems and non-vacuity examples; proofs are in Lemmas/Nvecs*.lean.

Reading guide.  `T.nvecsGram n` (Alg/Nvecs.lean) is the matrix the code of the respective
class hands to its eigen-solver; `gramSpec get shape n a b` (Spec/Nvecs.lean) is the property's
`(X₍ₙ₎ X₍ₙ₎ᵀ)[a,b] = Σ_{j over the other modes} X[j with a at n] · X[j with b at n]`.
The eigen-solvers are a service with the contract `EigContract G m K w V`: `K` orthonormal
eigenpairs of `G`, in any order.  `nvecsPost` is the code's post-processing.
-/
import PyttbModel.Lemmas.NvecsGram
import PyttbModel.Lemmas.NvecsPost
namespace Pyttb

variable {α : Type}

/-! ### the matrix handed to the solver is the Gram matrix of the mode-n unfolding -/

/-- `tensor.nvecs`: `to_tenmat(rdims=[n])` times its transpose is, entry by entry and for every
shape and mode, the sum over the other modes of products of entries. -/
theorem C14_gram_dense [Semiring α] (T : Dense α) (hT : T.WF) (n : Nat) (hn : n < T.shape.length) :
    ∃ Y, T.nvecsGram n = .ok Y ∧ Y.length = T.shape.getD n 0 ∧ (∀ row ∈ Y, row.length = T.shape.getD n 0) ∧
      ∀ a b, a < T.shape.getD n 0 → b < T.shape.getD n 0 → Y.get a b = gramSpec T.get T.shape n a b :=
  gram_dense T hT n hn

/-- `ktensor.nvecs`: `A_n (λλᵀ ∗ ∏_{i≠n} A_iᵀA_i) A_nᵀ` is the Gram matrix of the mode-n unfolding
of the array the Kruskal tensor denotes, for every order, rank, shape and mode. -/
theorem C14_gram_kruskal [CommSemiring α] (K : Ktensor α) (hK : K.WF) (n : Nat) (hn : n < K.factors.length) :
    ∃ Y, K.nvecsGram n = .ok Y ∧ Y.length = K.shape.getD n 0 ∧ (∀ row ∈ Y, row.length = K.shape.getD n 0) ∧
      ∀ a b, a < K.shape.getD n 0 → b < K.shape.getD n 0 → Y.get a b = gramSpec K.get K.shape n a b :=
  gram_kruskal K hK n hn

/-! ### solver choice -/

/-- the iterative solver is used exactly when `r < size - 1` (never for sizes below 3). -/
theorem C14_solver_choice (m r : Nat) : (nvecsPath m r = .iter ↔ r + 1 < m) ∧ (nvecsPath m r = .dense ↔ m ≤ r + 1) := by
  unfold nvecsPath
  constructor <;> split <;> simp <;> omega

/-! ### post-processing, relative to the contract of the solver service -/

/-- Given `K` orthonormal eigenpairs `(w, V)` of `G` in ANY order, `v[:, (-|w|).argsort()][:, :r]`
followed by the optional sign flips is an `m × r` matrix whose columns are orthonormal, column `k`
is an eigenvector of `G` for `w[p k]`, where `p` is a permutation of `0..K-1` that lists the
eigenvalues by decreasing magnitude: the result belongs to the `r` returned eigenvalues of largest
magnitude, in decreasing order.  (`tensor`, `ktensor`, `ttensor`, and the iterative path of
`sptensor`.) -/
theorem C14_postprocess [Field α] [LinearOrder α] [IsStrictOrderedRing α] (G V : Mat α) (w : List α)
    (m K r : Nat) (flip : Bool) (hc : EigContract G m K w V) (hr : r ≤ K) :
    (argsortDescAbs w).Perm (List.range K) ∧
    (nvecsPost w V r flip).length = m ∧ (∀ row ∈ nvecsPost w V r flip, row.length = r) ∧
    OrthonormalCols (nvecsPost w V r flip) m r ∧
    (∀ k, k < r → IsEigCol G (nvecsPost w V r flip) m k (w.getD ((argsortDescAbs w).getD k 0) 0)) ∧
    (∀ k l, k ≤ l → l < K →
      |w.getD ((argsortDescAbs w).getD l 0) 0| ≤ |w.getD ((argsortDescAbs w).getD k 0) 0|) :=
  nvecsPost_contract G V w m K r flip hc hr

/-- The matrix handed to the solver is a Gram matrix `X Xᵀ`, so every eigenvalue that comes with a
unit eigenvector is non-negative: ordering by magnitude is ordering by value, `|w| = w`. -/
theorem C14_gram_eigenvalues_nonneg [Field α] [LinearOrder α] [IsStrictOrderedRing α] (X V : Mat α)
    (m P K : Nat) (w : List α) (hX : X.length = m) (hXr : ∀ row ∈ X, row.length = P)
    (hc : EigContract (matMulT X X) m K w V) :
    ∀ k, k < K → 0 ≤ w.getD k 0 ∧ |w.getD k 0| = w.getD k 0 := by
  intro k hk
  have h := gram_eigenvalue_nonneg X V m P k (w.getD k 0) hX hXr (hc.eig k hk) (by simpa using hc.ortho k k hk hk)
  exact ⟨h, abs_of_nonneg h⟩

/-- `(-np.abs(w)).argsort()` as modelled is a permutation listing the magnitudes in decreasing
order (any such permutation gives the same statement of `C14_postprocess`). -/
theorem C14_argsort_spec [Field α] [LinearOrder α] [IsStrictOrderedRing α] (w : List α) :
    (argsortDescAbs w).Perm (List.range w.length) ∧
    ∀ k l, k ≤ l → l < w.length →
      |w.getD ((argsortDescAbs w).getD l 0) 0| ≤ |w.getD ((argsortDescAbs w).getD k 0) 0| :=
  ⟨argsortDescAbs_perm w, fun k l hkl hl => argsortDescAbs_sorted w k l hkl hl⟩

/-- With sign normalisation on, every column of the result has an entry equal to the column's
largest magnitude: an entry of largest magnitude is positive (non-negative for a zero column).
Holds for every path of every class, since all of them end with the same `flipsign` block. -/
theorem C14_sign_rule [Field α] [LinearOrder α] [IsStrictOrderedRing α] (w : List α) (V : Mat α) (m K r : Nat)
    (hw : w.length = K) (hrows : V.length = m) (hm : 0 < m) (hr : r ≤ K) :
    ∀ k, k < r → ∃ idx, idx < m ∧
      ∀ i, i < m → |(nvecsPost w V r true).get i k| ≤ (nvecsPost w V r true).get idx k := by
  intro k hk
  have hl : (takeCols (permCols V (argsortDescAbs w)) r).length = m := by
    rw [length_takeCols_permCols, hrows]
  have := flipSigns_rule (takeCols (permCols V (argsortDescAbs w)) r) r k
    (rows_takeCols_permCols V _ r (by rw [length_argsortDescAbs, hw]; exact hr)) (by omega) hk
  rw [hl] at this
  exact this

/-- … the same for the dense-solver path of `sptensor.nvecs`. -/
theorem C14_sign_rule_sparse_dense_path [Field α] [LinearOrder α] [IsStrictOrderedRing α] (w : List α) (V : Mat α)
    (r k : Nat) (hV : ∀ row ∈ takeCols (permRows V (argsortDescAbs w)) r, row.length = r)
    (hm : 0 < (permRows V (argsortDescAbs w)).length) (hk : k < r) :
    ∃ idx, idx < (permRows V (argsortDescAbs w)).length ∧
      ∀ i, i < (permRows V (argsortDescAbs w)).length →
        |(nvecsPostSparseDense w V r true).get i k| ≤ (nvecsPostSparseDense w V r true).get idx k := by
  have := flipSigns_rule (takeCols (permRows V (argsortDescAbs w)) r) r k hV (by simpa [takeCols] using hm) hk
  simpa [nvecsPostSparseDense, takeCols] using this

/-! ### the dense-solver path of `sptensor.nvecs` does NOT satisfy `C14_postprocess` -/

/-- `sptensor.nvecs` with `r ≥ size - 1` permutes the ROWS of the eigenvector matrix
(`v = v[(-np.abs(w)).argsort()]`).  For `G = diag(1, 25, 49)` and the exact orthonormal eigenpairs
returned in the order `25, 49, 1`, the first returned column is `e₀`, an eigenvector for the
SMALLEST eigenvalue 1 and not for the largest, 49; the column version used everywhere else
returns `e₂`.  Known finding F14-sparse-dense-path-rows. -/
theorem C14_sparse_dense_path_counterexample :
    let G : Mat Int := [[1, 0, 0], [0, 25, 0], [0, 0, 49]]
    let w : List Int := [25, 49, 1]
    let V : Mat Int := [[0, 0, 1], [1, 0, 0], [0, 1, 0]]
    (orthonormalColsB V 3 3 = true ∧ isEigColB G V 3 0 25 = true ∧ isEigColB G V 3 1 49 = true ∧
      isEigColB G V 3 2 1 = true) ∧
    nvecsPostSparseDense w V 3 true = [[1, 0, 0], [0, 0, 1], [0, 1, 0]] ∧
    isEigColB G (nvecsPostSparseDense w V 3 true) 3 0 49 = false ∧
    nvecsPost w V 3 true = [[0, 0, 1], [0, 1, 0], [1, 0, 0]] ∧
    isEigColB G (nvecsPost w V 3 true) 3 0 49 = true := by
  have hp : argsortDescAbs ([25, 49, 1] : List Int) = [1, 0, 2] := by
    simp [argsortDescAbs, List.mergeSort, absM, List.range, List.range.loop,
      List.MergeSort.Internal.splitInTwo]
  simp only [nvecsPostSparseDense, nvecsPost, hp]
  decide

/-! ### non-vacuity -/

example : (⟨[2, 2], [1, 3, 2, 0]⟩ : Dense Int).nvecsGram 0 = .ok [[5, 3], [3, 9]] := by decide
example : (⟨[1, 2], [[[1, 0], [0, 1]], [[1, 1], [0, 1]]]⟩ : Ktensor Int).nvecsGram 1 = .ok [[5, 4], [4, 4]] := by
  decide
example : gramSpec (⟨[2, 2], [1, 3, 2, 0]⟩ : Dense Int).get [2, 2] 0 0 1 = 3 := by decide

end Pyttb
