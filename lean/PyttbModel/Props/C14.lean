/-
C14 — leading mode-n vectors (`nvecs`) span the dominant subspace in every representation.
Only property theorems and non-vacuity examples; proofs are in Lemmas/Nvecs*.lean.

Reading guide.  `T.nvecsGram n` (Alg/Nvecs.lean) is the matrix the code of the respective
class hands to its eigen-solver; `gramSpec get shape n a b` (Spec/Nvecs.lean) is the property's
`(X₍ₙ₎ X₍ₙ₎ᵀ)[a,b] = Σ_{j over the other modes} X[j with a at n] · X[j with b at n]`.
The eigen-solvers are a service with the contract `EigContract G m K w V`: `K` orthonormal
eigenpairs of `G`, in any order.  `nvecsPost` is the code's post-processing.
-/
import PyttbModel.Lemmas.NvecsGramTucker
import PyttbModel.Lemmas.NvecsPost
import PyttbModel.Lemmas.NvecsSubspace
import PyttbModel.Lemmas.NvecsEnergy
namespace Pyttb

variable {α : Type}

/-! ### the matrix handed to the solver is the Gram matrix of the mode-n unfolding -/

/-- `tensor.nvecs`: `to_tenmat(rdims=[n])` times its transpose is, entry by entry and for every
shape and mode, the sum over the other modes of products of entries. -/
theorem C14_gram_dense [Semiring α] (T : Dense α) (hT : T.WF) (n : Nat) (hn : n < T.shape.length) :
    ∃ Y, T.nvecsGram n = .ok Y ∧ Y.length = T.shape.getD n 0 ∧ (∀ row ∈ Y, row.length = T.shape.getD n 0) ∧
      ∀ a b, a < T.shape.getD n 0 → b < T.shape.getD n 0 → Y.get a b = gramSpec T.get T.shape n a b :=
  gram_dense T hT n hn

/-- `ktensor.nvecs`: `A_n (λλᵀ ∗ ∏_{i≠n} A_iᵀA_i) A_nᵀ` is the Gram matrix of the mode-n unfolding
of the array the Kruskal tensor denotes, for every order, rank, shape and mode. -/
theorem C14_gram_kruskal [CommSemiring α] (K : Ktensor α) (hK : K.WF) (n : Nat) (hn : n < K.factors.length) :
    ∃ Y, K.nvecsGram n = .ok Y ∧ Y.length = K.shape.getD n 0 ∧ (∀ row ∈ Y, row.length = K.shape.getD n 0) ∧
      ∀ a b, a < K.shape.getD n 0 → b < K.shape.getD n 0 → Y.get a b = gramSpec K.get K.shape n a b :=
  gram_kruskal K hK n hn

/-- `sptensor.nvecs` (repaired code, commits a015f52 / 9e6d090): the Gram matrix formed from
`to_sptenmat(rdims=[n]).double()` is that of the denoted array, for every shape that is not
all-singleton (singleton modes included), every stored order and every mode. -/
theorem C14_gram_sparse [Semiring α] [DecidableEq α] (S : Sparse α) (hS : S.WF) (n : Nat) (hn : n < S.shape.length)
    (hns : S.shape.all (· == 1) = false) :
    ∃ Y, S.nvecsGram n = .ok Y ∧ Y.length = S.shape.getD n 0 ∧ (∀ row ∈ Y, row.length = S.shape.getD n 0) ∧
      ∀ a b, a < S.shape.getD n 0 → b < S.shape.getD n 0 → Y.get a b = gramSpec S.get S.shape n a b :=
  gram_sparse S hS n hn hns

/-- … and an `sptensor` whose extents are all 1 is refused (documented `ValueError`, kept by design:
known finding F14-sparse-all-singleton-refused). -/
theorem C14_gram_sparse_refuses [Add α] [Mul α] [Zero α] [BEq α] (S : Sparse α) (n : Nat)
    (h : S.shape.all (· == 1) = true) : S.nvecsGram n = .error .reject := gram_sparse_refuses S n h

/-- `ttensor.nvecs` (dense core): `H₍ₙ₎ · (G₍ₙ₎ᵀ U_nᵀ)` with `H = G ×ₙ U_n ×_{i≠n} U_iᵀU_i` is the Gram
matrix of the mode-n unfolding of the array the Tucker tensor denotes.  (`tensor.ttm` with a list of
matrices enters through its entry-wise meaning, which is property C02.) -/
theorem C14_gram_tucker [CommSemiring α] (T : Ttensor α) (hT : T.WFn) (n : Nat) (hn : n < T.factors.length) :
    ∃ Y, T.nvecsGram n = .ok Y ∧ Y.length = T.shape.getD n 0 ∧ (∀ row ∈ Y, row.length = T.shape.getD n 0) ∧
      ∀ a b, a < T.shape.getD n 0 → b < T.shape.getD n 0 → Y.get a b = gramSpec T.get T.shape n a b :=
  gram_tucker T hT n hn

/-- Representations that denote the same array hand their solvers THE SAME matrix: a dense, a sparse,
a Kruskal and a Tucker holder of one array (same shape, equal entries at every subscript). -/
theorem C14_gram_agree [CommSemiring α] [DecidableEq α] (T : Dense α) (S : Sparse α) (K : Ktensor α)
    (Tk : Ttensor α) (hT : T.WF) (hS : S.WF) (hK : K.WF) (hTk : Tk.WFn) (n : Nat) (hn : n < T.shape.length)
    (hsS : S.shape = T.shape) (hsK : K.shape = T.shape) (hsTk : Tk.shape = T.shape)
    (hns : T.shape.all (· == 1) = false)
    (hdS : ∀ i, InBounds T.shape i → T.get i = S.get i) (hdK : ∀ i, InBounds T.shape i → T.get i = K.get i)
    (hdTk : ∀ i, InBounds T.shape i → T.get i = Tk.get i) :
    ∃ Y, T.nvecsGram n = .ok Y ∧ S.nvecsGram n = .ok Y ∧ K.nvecsGram n = .ok Y ∧ Tk.nvecsGram n = .ok Y := by
  obtain ⟨Y, h1, hd⟩ := gram_dense T hT n hn
  obtain ⟨Y2, h2, hs⟩ := gram_sparse S hS n (by rw [hsS]; exact hn) (by rw [hsS]; exact hns)
  obtain ⟨Y3, h3, hk⟩ := gram_kruskal K hK n (by
    have : K.shape.length = K.factors.length := by simp [Ktensor.shape]
    rw [← this, hsK]; exact hn)
  obtain ⟨Y4, h4, ht⟩ := gram_tucker Tk hTk n (by
    have : Tk.shape.length = Tk.factors.length := by simp [Ttensor.shape]
    rw [← this, hsTk]; exact hn)
  rw [hsS] at hs; rw [hsK] at hk; rw [hsTk] at ht
  refine ⟨Y, h1, ?_, ?_, ?_⟩
  · rw [h2, gram_unique T.get S.get T.shape n hn rfl hd hs hdS]
  · rw [h3, gram_unique T.get K.get T.shape n hn rfl hd hk hdK]
  · rw [h4, gram_unique T.get Tk.get T.shape n hn rfl hd ht hdTk]

/-! ### solver choice -/

/-- the iterative solver is used exactly when `r < size - 1` (never for sizes below 3). -/
theorem C14_solver_choice (m r : Nat) : (nvecsPath m r = .iter ↔ r + 1 < m) ∧ (nvecsPath m r = .dense ↔ m ≤ r + 1) := by
  unfold nvecsPath
  constructor <;> split <;> simp <;> omega

/-! ### post-processing, relative to the contract of the solver service -/

/-- Given `K` orthonormal eigenpairs `(w, V)` of `G` in ANY order, `v[:, (-|w|).argsort()][:, :r]`
followed by the optional sign flips is an `m × r` matrix whose columns are orthonormal, column `k`
is an eigenvector of `G` for `w[p k]`, where `p` is a permutation of `0..K-1` that lists the
eigenvalues by decreasing magnitude: the result belongs to the `r` returned eigenvalues of largest
magnitude, in decreasing order.  (`tensor`, `ktensor`, `ttensor`, and the iterative path of
`sptensor`.) -/
theorem C14_postprocess [Field α] [LinearOrder α] [IsStrictOrderedRing α] (G V : Mat α) (w : List α)
    (m K r : Nat) (flip : Bool) (hc : EigContract G m K w V) (hr : r ≤ K) :
    (argsortDescAbs w).Perm (List.range K) ∧
    (nvecsPost w V r flip).length = m ∧ (∀ row ∈ nvecsPost w V r flip, row.length = r) ∧
    OrthonormalCols (nvecsPost w V r flip) m r ∧
    (∀ k, k < r → IsEigCol G (nvecsPost w V r flip) m k (w.getD ((argsortDescAbs w).getD k 0) 0)) ∧
    (∀ k l, k ≤ l → l < K →
      |w.getD ((argsortDescAbs w).getD l 0) 0| ≤ |w.getD ((argsortDescAbs w).getD k 0) 0|) :=
  nvecsPost_contract G V w m K r flip hc hr

/-- The matrix handed to the solver is a Gram matrix `X Xᵀ`, so every eigenvalue that comes with a
unit eigenvector is non-negative: ordering by magnitude is ordering by value, `|w| = w`. -/
theorem C14_gram_eigenvalues_nonneg [Field α] [LinearOrder α] [IsStrictOrderedRing α] (X V : Mat α)
    (m P K : Nat) (w : List α) (hX : X.length = m) (hXr : ∀ row ∈ X, row.length = P)
    (hc : EigContract (matMulT X X) m K w V) :
    ∀ k, k < K → 0 ≤ w.getD k 0 ∧ |w.getD k 0| = w.getD k 0 := by
  intro k hk
  have h := gram_eigenvalue_nonneg X V m P k (w.getD k 0) hX hXr (hc.eig k hk) (by simpa using hc.ortho k k hk hk)
  exact ⟨h, abs_of_nonneg h⟩

/-- `(-np.abs(w)).argsort()` as modelled is a permutation listing the magnitudes in decreasing
order (any such permutation gives the same statement of `C14_postprocess`). -/
theorem C14_argsort_spec [Field α] [LinearOrder α] [IsStrictOrderedRing α] (w : List α) :
    (argsortDescAbs w).Perm (List.range w.length) ∧
    ∀ k l, k ≤ l → l < w.length →
      |w.getD ((argsortDescAbs w).getD l 0) 0| ≤ |w.getD ((argsortDescAbs w).getD k 0) 0| :=
  ⟨argsortDescAbs_perm w, fun k l hkl hl => argsortDescAbs_sorted w k l hkl hl⟩

/-- With sign normalisation on, every column of the result has an entry equal to the column's
largest magnitude: an entry of largest magnitude is positive (non-negative for a zero column).
Holds for every path of every class, since all of them end with the same `flipsign` block. -/
theorem C14_sign_rule [Field α] [LinearOrder α] [IsStrictOrderedRing α] (w : List α) (V : Mat α) (m K r : Nat)
    (hw : w.length = K) (hrows : V.length = m) (hm : 0 < m) (hr : r ≤ K) :
    ∀ k, k < r → ∃ idx, idx < m ∧
      ∀ i, i < m → |(nvecsPost w V r true).get i k| ≤ (nvecsPost w V r true).get idx k := by
  intro k hk
  have hl : (takeCols (permCols V (argsortDescAbs w)) r).length = m := by
    rw [length_takeCols_permCols, hrows]
  have := flipSigns_rule (takeCols (permCols V (argsortDescAbs w)) r) r k
    (rows_takeCols_permCols V _ r (by rw [length_argsortDescAbs, hw]; exact hr)) (by omega) hk
  rw [hl] at this
  exact this

/-- … the same for the dense-solver path of `sptensor.nvecs`. -/
theorem C14_sign_rule_sparse_dense_path [Field α] [LinearOrder α] [IsStrictOrderedRing α] (w : List α) (V : Mat α)
    (r k : Nat) (hV : ∀ row ∈ takeCols (permRows V (argsortDescAbs w)) r, row.length = r)
    (hm : 0 < (permRows V (argsortDescAbs w)).length) (hk : k < r) :
    ∃ idx, idx < (permRows V (argsortDescAbs w)).length ∧
      ∀ i, i < (permRows V (argsortDescAbs w)).length →
        |(nvecsPostSparseDense w V r true).get i k| ≤ (nvecsPostSparseDense w V r true).get idx k := by
  have := flipSigns_rule (takeCols (permRows V (argsortDescAbs w)) r) r k hV (by simpa [takeCols] using hm) hk
  simpa [nvecsPostSparseDense, takeCols] using this

/-! ### the whole call, relative to the contract of the solver service -/

/-- `tensor.nvecs(n, r, flipsign)` end to end: the matrix `Y` handed to the solver is `X₍ₙ₎X₍ₙ₎ᵀ`; if the
solver keeps its contract on it (`ServiceOK`: orthonormal eigenpairs in any order, `r` of them on the
iterative path `r < size-1`, all on the dense path), the returned `size × r` matrix has orthonormal
columns that are eigenvectors of `Y`, column `k` for `lam k`, with `|lam|` decreasing. -/
theorem C14_nvecs_dense [Field α] [LinearOrder α] [IsStrictOrderedRing α] (svc : EigService α) (T : Dense α)
    (hT : T.WF) (n r : Nat) (flip : Bool) (hn : n < T.shape.length) (hr : r ≤ T.shape.getD n 0)
    (hs : ∀ Y, T.nvecsGram n = .ok Y → ServiceOK svc false Y (T.shape.getD n 0) r) :
    ∃ Y R, T.nvecsGram n = .ok Y ∧ T.nvecs svc n r flip = .ok R ∧
      (∀ a b, a < T.shape.getD n 0 → b < T.shape.getD n 0 → Y.get a b = gramSpec T.get T.shape n a b) ∧
      R.length = T.shape.getD n 0 ∧ (∀ row ∈ R, row.length = r) ∧ OrthonormalCols R (T.shape.getD n 0) r ∧
      ∃ lam : Nat → α, (∀ k, k < r → IsEigCol Y R (T.shape.getD n 0) k (lam k)) ∧
        (∀ k l, k ≤ l → l < r → |lam l| ≤ |lam k|) := by
  obtain ⟨Y, h1, h2, _, h4⟩ := gram_dense T hT n hn
  obtain ⟨g1, g2, g3, g4⟩ := nvecsFromGram_contract svc false Y _ r flip h2 hr (by simp) (hs Y h1)
  exact ⟨Y, _, h1, by simp [Dense.nvecs, h1, Except.map], h4, g1, g2, g3, g4⟩

/-- `ktensor.nvecs` end to end (as `C14_nvecs_dense`). -/
theorem C14_nvecs_kruskal [Field α] [LinearOrder α] [IsStrictOrderedRing α] (svc : EigService α) (K : Ktensor α)
    (hK : K.WF) (n r : Nat) (flip : Bool) (hn : n < K.factors.length) (hr : r ≤ K.shape.getD n 0)
    (hs : ∀ Y, K.nvecsGram n = .ok Y → ServiceOK svc false Y (K.shape.getD n 0) r) :
    ∃ Y R, K.nvecsGram n = .ok Y ∧ K.nvecs svc n r flip = .ok R ∧
      (∀ a b, a < K.shape.getD n 0 → b < K.shape.getD n 0 → Y.get a b = gramSpec K.get K.shape n a b) ∧
      R.length = K.shape.getD n 0 ∧ (∀ row ∈ R, row.length = r) ∧ OrthonormalCols R (K.shape.getD n 0) r ∧
      ∃ lam : Nat → α, (∀ k, k < r → IsEigCol Y R (K.shape.getD n 0) k (lam k)) ∧
        (∀ k l, k ≤ l → l < r → |lam l| ≤ |lam k|) := by
  obtain ⟨Y, h1, h2, _, h4⟩ := gram_kruskal K hK n hn
  obtain ⟨g1, g2, g3, g4⟩ := nvecsFromGram_contract svc false Y _ r flip h2 hr (by simp) (hs Y h1)
  exact ⟨Y, _, h1, by simp [Ktensor.nvecs, h1, Except.map], h4, g1, g2, g3, g4⟩

/-- `ttensor.nvecs` end to end (as `C14_nvecs_dense`). -/
theorem C14_nvecs_tucker [Field α] [LinearOrder α] [IsStrictOrderedRing α] (svc : EigService α) (T : Ttensor α)
    (hT : T.WFn) (n r : Nat) (flip : Bool) (hn : n < T.factors.length) (hr : r ≤ T.shape.getD n 0)
    (hs : ∀ Y, T.nvecsGram n = .ok Y → ServiceOK svc false Y (T.shape.getD n 0) r) :
    ∃ Y R, T.nvecsGram n = .ok Y ∧ T.nvecs svc n r flip = .ok R ∧
      (∀ a b, a < T.shape.getD n 0 → b < T.shape.getD n 0 → Y.get a b = gramSpec T.get T.shape n a b) ∧
      R.length = T.shape.getD n 0 ∧ (∀ row ∈ R, row.length = r) ∧ OrthonormalCols R (T.shape.getD n 0) r ∧
      ∃ lam : Nat → α, (∀ k, k < r → IsEigCol Y R (T.shape.getD n 0) k (lam k)) ∧
        (∀ k l, k ≤ l → l < r → |lam l| ≤ |lam k|) := by
  obtain ⟨Y, h1, h2, _, h4⟩ := gram_tucker T hT n hn
  obtain ⟨g1, g2, g3, g4⟩ := nvecsFromGram_contract svc false Y _ r flip h2 hr (by simp) (hs Y h1)
  exact ⟨Y, _, h1, by simp [Ttensor.nvecs, h1, Except.map], h4, g1, g2, g3, g4⟩

/-- `sptensor.nvecs` end to end on the ITERATIVE path `r < size - 1` (repaired code).  The dense-solver
path is excluded: it is the known finding shown in `C14_sparse_dense_path_counterexample`. -/
theorem C14_nvecs_sparse_iterative_path [Field α] [LinearOrder α] [IsStrictOrderedRing α] (svc : EigService α)
    (S : Sparse α) (hS : S.WF) (n r : Nat) (flip : Bool) (hn : n < S.shape.length)
    (hns : S.shape.all (· == 1) = false) (hr : r + 1 < S.shape.getD n 0)
    (hs : ∀ Y, S.nvecsGram n = .ok Y → ServiceOK svc true Y (S.shape.getD n 0) r) :
    ∃ Y R, S.nvecsGram n = .ok Y ∧ S.nvecs svc n r flip = .ok R ∧
      (∀ a b, a < S.shape.getD n 0 → b < S.shape.getD n 0 → Y.get a b = gramSpec S.get S.shape n a b) ∧
      R.length = S.shape.getD n 0 ∧ (∀ row ∈ R, row.length = r) ∧ OrthonormalCols R (S.shape.getD n 0) r ∧
      ∃ lam : Nat → α, (∀ k, k < r → IsEigCol Y R (S.shape.getD n 0) k (lam k)) ∧
        (∀ k l, k ≤ l → l < r → |lam l| ≤ |lam k|) := by
  obtain ⟨Y, h1, h2, _, h4⟩ := gram_sparse S hS n hn hns
  obtain ⟨g1, g2, g3, g4⟩ := nvecsFromGram_contract svc true Y _ r flip h2 (by omega)
    (fun _ => (C14_solver_choice _ r).1.2 hr) (hs Y h1)
  exact ⟨Y, _, h1, by simp [Sparse.nvecs, h1, Except.map], h4, g1, g2, g3, g4⟩

/-! ### equal matrices, equal leading subspaces -/

/-- Spectral gap at `r` ⇒ the leading invariant subspace is unique.  Let `G` have the complete
orthonormal eigenbasis `Q` with eigenvalues `q` of which those at positions `≥ r` are at most `γ`
(the part of the spectrum below the gap), and let `(a, U)`, `(b, V)` be two families of `r` orthonormal
eigenpairs of `G` with all eigenvalues above `γ` — e.g. what `nvecs` returns for two representations
of one array (they hand the solver the same `G`, `C14_gram_agree`).  Then `U Uᵀ = V Vᵀ` entry by
entry (both are the projector onto the span of the first `r` columns of `Q`): the columns span the
same subspace, whatever solver, order or signs produced them. -/
theorem C14_same_subspace [Field α] [LinearOrder α] [IsStrictOrderedRing α] (G Q U V : Mat α) (q a b : List α)
    (m r : Nat) (γ : α) (hr : r ≤ m) (hQ : EigContract G m m q Q)
    (hlow : ∀ j, r ≤ j → j < m → q.getD j 0 ≤ γ)
    (hU : EigContract G m r a U) (hV : EigContract G m r b V)
    (ha : ∀ k, k < r → γ < a.getD k 0) (hb : ∀ k, k < r → γ < b.getD k 0) :
    ∀ i l, i < m → l < m → projEntry U r i l = projEntry V r i l := by
  intro i l hi hl
  rw [projEntry_eq_of_gap G Q U q a m r hr hQ hU
      (fun j k hj hjm hk => ne_of_lt (lt_of_le_of_lt (hlow j hj hjm) (ha k hk))) i l hi hl,
    projEntry_eq_of_gap G Q V q b m r hr hQ hV
      (fun j k hj hjm hk => ne_of_lt (lt_of_le_of_lt (hlow j hj hjm) (hb k hk))) i l hi hl]

/-! ### maximal energy (Ky Fan's maximum principle) -/

/-- `energy G W m r = Σ_k w_kᵀ G w_k = trace(Wᵀ G W)`; for `G = X₍ₙ₎ X₍ₙ₎ᵀ` this is `‖Wᵀ X₍ₙ₎‖²`, the energy
of the unfolding captured by the columns of `W`.  If `G` has the complete orthonormal eigenbasis `Q`
with eigenvalues `q` in decreasing order, then NO `r` orthonormal columns capture more than
`q₀ + … + q_{r-1}`, and `r` orthonormal eigenvectors capture exactly the sum of their eigenvalues — so
orthonormal eigenvectors for the `r` largest eigenvalues capture the maximal energy.  (For the
iterative path "the returned eigenvalues are the `r` largest of the spectrum" is the contract of
`eigsh(which='LM')` on a positive semi-definite matrix; for the dense path see the next theorem.) -/
theorem C14_max_energy [Field α] [LinearOrder α] [IsStrictOrderedRing α] (G Q W U : Mat α) (q : List α)
    (a : Nat → α) (m r : Nat) (hr : r ≤ m) (hQ : EigContract G m m q Q)
    (hsorted : ∀ i j, i ≤ j → j < m → q.getD j 0 ≤ q.getD i 0) (hW : OrthonormalCols W m r)
    (hU : OrthonormalCols U m r) (hUe : ∀ k, k < r → IsEigCol G U m k (a k)) :
    energy G W m r ≤ ∑ k ∈ Finset.range r, q.getD k 0 ∧ energy G U m r = ∑ k ∈ Finset.range r, a k :=
  ⟨ky_fan_list G Q W q m r hr hQ hsorted hW, energy_of_eig G U a m r hU hUe⟩

/-- Dense-solver path (`tensor`, `ktensor`, `ttensor`): the solver returns a complete orthonormal
eigenbasis in any order; the eigenvalues of a Gram matrix are non-negative
(`C14_gram_eigenvalues_nonneg`); then the returned matrix captures at least as much energy as ANY
matrix with `r` orthonormal columns, namely the sum of the `r` largest eigenvalues. -/
theorem C14_max_energy_dense_path [Field α] [LinearOrder α] [IsStrictOrderedRing α] (G V W : Mat α) (w : List α)
    (m r : Nat) (flip : Bool) (hc : EigContract G m m w V) (hpos : ∀ k, k < m → 0 ≤ w.getD k 0) (hr : r ≤ m)
    (hW : OrthonormalCols W m r) :
    energy G W m r ≤ energy G (nvecsPost w V r flip) m r ∧
    energy G (nvecsPost w V r flip) m r =
      ∑ k ∈ Finset.range r, w.getD ((argsortDescAbs w).getD k 0) 0 :=
  nvecsPost_max_energy G V W w m r flip hc hpos hr hW

/-! ### the dense-solver path of `sptensor.nvecs` does NOT satisfy `C14_postprocess` -/

/-- `sptensor.nvecs` with `r ≥ size - 1` permutes the ROWS of the eigenvector matrix
(`v = v[(-np.abs(w)).argsort()]`).  For `G = diag(1, 25, 49)` and the exact orthonormal eigenpairs
returned in the order `25, 49, 1`, the first returned column is `e₀`, an eigenvector for the
SMALLEST eigenvalue 1 and not for the largest, 49; the column version used everywhere else
returns `e₂`.  Known finding F14-sparse-dense-path-rows. -/
theorem C14_sparse_dense_path_counterexample :
    let G : Mat Int := [[1, 0, 0], [0, 25, 0], [0, 0, 49]]
    let w : List Int := [25, 49, 1]
    let V : Mat Int := [[0, 0, 1], [1, 0, 0], [0, 1, 0]]
    (orthonormalColsB V 3 3 = true ∧ isEigColB G V 3 0 25 = true ∧ isEigColB G V 3 1 49 = true ∧
      isEigColB G V 3 2 1 = true) ∧
    nvecsPostSparseDense w V 3 true = [[1, 0, 0], [0, 0, 1], [0, 1, 0]] ∧
    isEigColB G (nvecsPostSparseDense w V 3 true) 3 0 49 = false ∧
    nvecsPost w V 3 true = [[0, 0, 1], [0, 1, 0], [1, 0, 0]] ∧
    isEigColB G (nvecsPost w V 3 true) 3 0 49 = true := by
  have hp : argsortDescAbs ([25, 49, 1] : List Int) = [1, 0, 2] := by
    simp [argsortDescAbs, List.mergeSort, absM, List.range, List.range.loop,
      List.MergeSort.Internal.splitInTwo]
  simp only [nvecsPostSparseDense, nvecsPost, hp]
  decide

/-! ### non-vacuity -/

/-- the service contract is satisfiable by eigenpairs that are NOT in decreasing order. -/
example : EigContract ([[4, 0], [0, 1]] : Mat Int) 2 2 [1, 4] [[0, 1], [1, 0]] :=
  ⟨by decide, by decide, by decide, by unfold IsEigCol mulCol; decide, by
    intro j k hj hk
    have hj' : j = 0 ∨ j = 1 := by omega
    have hk' : k = 0 ∨ k = 1 := by omega
    rcases hj' with rfl | rfl <;> rcases hk' with rfl | rfl <;> decide⟩

example : (⟨[2, 2], [1, 3, 2, 0]⟩ : Dense Int).nvecsGram 0 = .ok [[5, 3], [3, 9]] := by decide
example : (⟨[1, 2], [[[1, 0], [0, 1]], [[1, 1], [0, 1]]]⟩ : Ktensor Int).nvecsGram 1 = .ok [[5, 4], [4, 4]] := by
  decide
example : gramSpec (⟨[2, 2], [1, 3, 2, 0]⟩ : Dense Int).get [2, 2] 0 0 1 = 3 := by decide
example : (⟨[2, 2], [[0, 0], [0, 1], [1, 0]], [1, 2, 3]⟩ : Sparse Int).WF ∧ ([2, 2].all (· == 1)) = false :=
  ⟨⟨by decide, by decide, by decide, by decide⟩, by decide⟩
example : (⟨⟨[2, 2], [1, 3, 2, 0]⟩, [[[1, 0], [0, 1]], [[1, 0], [0, 1]]]⟩ : Ttensor Int).nvecsGram 0 =
    .ok [[5, 3], [3, 9]] := by decide

end Pyttb
