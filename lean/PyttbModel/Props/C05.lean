/-
C05 — operations never modify their operands and never alias them.

Model: lean/PyttbModel/Heap (stores of buffers, arrays as views, NumPy calls classified as
view / fresh / in-place write, every public operation as a short program of such calls, table
`Heap.table`).  This file states what is proved about that model; proofs are in
Lemmas/Heap*.lean.  `ValidOps st ops` = the operand arrays live in buffers of the store;
`Untouched st st'` = every buffer of `st` has the same contents in `st'`;
`Invisible st v w` = in `st`, a write through `v` does not change what is read through `w`,
and vice versa.
-/
import PyttbModel.Lemmas.HeapSem
namespace Pyttb
open Heap

variable {α : Type}

/-! ### generic statements about stores and programs -/

/-- If two arrays have no cell in common (different buffers, or disjoint address sets inside
one buffer), writing any value through one of them is not observable through the other, in
either direction. -/
theorem C05_no_visibility (st : Store α) (v w : View) (h : v.overlaps w = false) (x : α) :
    read (writeAll st v x) w = read st w ∧ read (writeAll st w x) v = read st v :=
  invisible_of_disjoint st v w h x

/-- Buffer granularity: every array reachable from the result lives in a buffer that no operand
array lives in ⇒ no write through either side is visible through the other. -/
theorem C05_no_visibility_buffers (st : Store α) (results operands : List View)
    (h : ∀ r ∈ results, ∀ o ∈ operands, r.buf ≠ o.buf) :
    ∀ r ∈ results, ∀ o ∈ operands, Invisible st r o :=
  fun r hr o ho => invisible_of_disjoint st r o (overlaps_of_buf_ne r o (h r hr o ho))

/-- A program in which every write goes to an array the program allocated itself leaves every
buffer that existed before bit-for-bit unchanged – for every store, every operand list, every
shape and stride pattern. -/
theorem C05_pure_sound (d : α) (st : Store α) (ops : List View) (p : Prog)
    (h : pureProg ops.length p = true) : Untouched st (exec d st ops p).st :=
  pure_sound d st ops p h

/-- A result register that the static classification calls fresh lives in a buffer that did
not exist before the operation, hence in no operand's buffer. -/
theorem C05_fresh_sound (d : α) (st : Store α) (ops : List View) (p : Prog) (res : List Nat)
    (h : freshResults ops.length p res = true) (hv : ValidOps st ops) :
    ∀ r ∈ res, ∀ o ∈ ops, ((exec d st ops p).reg r).buf ≠ o.buf := by
  intro r hr o ho
  have := freshResults_sound d st ops p res h r hr
  have := hv o ho
  omega

/-- The documented in-place operations change their receiver's buffers and no others: if all
writes of a program go to fresh arrays or into the receiver operands `recv`, every other
buffer that existed before is unchanged. -/
theorem C05_inplace_only (d : α) (st : Store α) (ops : List View) (p : Prog) (recv : List Nat)
    (h : writesWithin ops.length recv p = true) :
    ∀ b < st.length, (∀ k ∈ recv, (ops.getD k default).buf ≠ b) → (exec d st ops p).st[b]? = st[b]? :=
  writesWithin_sound d st ops p recv h

/-- Documented no-copy parameters: a result register is fresh or inside the buffer of one of
the operands the parameter is documented to share with – never anywhere else. -/
theorem C05_nocopy_within (d : α) (st : Store α) (ops : List View) (p : Prog) (allowed res : List Nat)
    (h : resultsWithin ops.length allowed p res = true) :
    ∀ r ∈ res, st.length ≤ ((exec d st ops p).reg r).buf ∨
      ∃ k ∈ allowed, ((exec d st ops p).reg r).buf = (ops.getD k default).buf :=
  resultsWithin_sound d st ops p allowed res h

/-! ### the table of operations -/

/-- Every entry of the operation table (constructors with and without copying, `copy`,
`permute`, `reshape`, `squeeze`, conversions, `find`, Kruskal in-place operations, the four
`__setitem__`s, the helpers, the algorithm entry points, the step-level entries of `tenmat`,
`sptenmat`, `ttensor`, `sumtensor` and the remaining `ktensor` methods (part 4), and the generic
"computed" entry used for every other public method) passes the static check of its
specification, for all parameters – identity permutations, size-preserving reshapes,
`copy=False`, real or complex data, any number of factor matrices, any list of parts of a sum
tensor – and every operand list that satisfies the entry's precondition. -/
theorem C05_table_sound : ∀ e ∈ table, ∀ (p : Params) (ops : List View), e.check p ops = true :=
  table_sound

/-- … and therefore has the meaning of its specification on every store: `pureFresh` –
operands unchanged, results share no cell with any operand, later writes invisible;
`noCopy` – operands unchanged, sharing only with the documented operands; `inPlace` – only
the receiver's buffers change and the receiver never picks up another operand's storage. -/
theorem C05_table_semantics (d : α) (e : Entry) (he : e ∈ table) (p : Params) (st : Store α)
    (ops : List View) (hv : ValidOps st ops) (hpre : e.pre p ops.length = true) :
    SpecSem d st ops (e.build p ops) (e.spec p) :=
  entry_sem d e he p st ops hv hpre

/-- The flags the driver computes for the harness are consequences: for an entry that passes the
`pureFresh` check, the executed program's exact cell-level outcome is "no operand mutated, no
(result, operand) pair shares a cell" – on every store and every operand layout. -/
theorem C05_outcome_pureFresh (d : α) (st : Store α) (ops : List View) (B : Built)
    (hv : ValidOps st ops) (h : specCheck .pureFresh ops.length B = true) :
    outcome d st ops B.prog (B.res.map (·.2)) = ⟨[], []⟩ :=
  outcome_pureFresh d st ops B hv h

/-! ### named instances -/

/-- `tensor.permute(order)` (repaired code) for every order – the identity and orders that move
only singleton modes included: the operand is unchanged and the result is independent. -/
theorem C05_fresh_tensor_permute (d : α) (st : Store α) (ops : List View) (p : Params)
    (hv : ValidOps st ops) : PureFreshSem d st ops (tensor_permute p ops) :=
  pureFresh_sem d st ops _ hv (chk_tensor_permute p ops)

/-- `tensor.reshape(shape)` (repaired code) for every target shape, size-preserving ones
included. -/
theorem C05_fresh_tensor_reshape (d : α) (st : Store α) (ops : List View) (p : Params)
    (hv : ValidOps st ops) : PureFreshSem d st ops (tensor_reshape p ops) :=
  pureFresh_sem d st ops _ hv (chk_tensor_reshape p ops)

/-- `tensor.squeeze()` in all three cases (no singleton mode, some, all). -/
theorem C05_fresh_tensor_squeeze (d : α) (st : Store α) (ops : List View) (p : Params)
    (hv : ValidOps st ops) : PureFreshSem d st ops (tensor_squeeze p ops) :=
  pureFresh_sem d st ops _ hv (chk_tensor_squeeze p ops)

/-- `tensor.find()`, `tensor.to_sptensor()`. -/
theorem C05_fresh_tensor_find (d : α) (st : Store α) (ops : List View) (p : Params)
    (hv : ValidOps st ops) :
    PureFreshSem d st ops (tensor_find p ops) ∧ PureFreshSem d st ops (tensor_to_sptensor p ops) :=
  ⟨pureFresh_sem d st ops _ hv (chk_tensor_find p ops),
   pureFresh_sem d st ops _ hv (chk_tensor_to_sptensor p ops)⟩

/-- `tensor.to_tenmat(..., copy)` with the repaired `permute`: independent of the operand for
`copy=True` and for `copy=False` alike, for every mode partition. -/
theorem C05_fresh_tensor_to_tenmat (d : α) (st : Store α) (ops : List View) (p : Params)
    (hv : ValidOps st ops) : PureFreshSem d st ops (tensor_to_tenmat p ops) :=
  pureFresh_sem d st ops _ hv (chk_tensor_to_tenmat p ops)

/-- `copy()` / `__deepcopy__` / `__pos__` / `full()` of a dense tensor. -/
theorem C05_copy_independent_tensor (d : α) (st : Store α) (ops : List View) (p : Params)
    (hv : ValidOps st ops) : PureFreshSem d st ops (tensor_copy p ops) :=
  pureFresh_sem d st ops _ hv (chk_tensor_copy p ops)

/-- `copy()` of a sparse tensor. -/
theorem C05_copy_independent_sptensor (d : α) (st : Store α) (ops : List View) (p : Params)
    (hv : ValidOps st ops) : PureFreshSem d st ops (sptensor_copy p ops) :=
  pureFresh_sem d st ops _ hv (chk_sptensor_copy p ops)

/-- `copy()` of a Kruskal tensor with any number of factor matrices. -/
theorem C05_copy_independent_ktensor (d : α) (st : Store α) (ops : List View) (p : Params)
    (hv : ValidOps st ops) : PureFreshSem d st ops (ktensor_copy p ops) :=
  pureFresh_sem d st ops _ hv (chk_ktensor_copy p ops)

/-- `copy()` of a Tucker tensor, a sum tensor, a `tenmat`, a `sptenmat` (every array of the
receiver is copied; any number of arrays). -/
theorem C05_copy_independent_all (d : α) (st : Store α) (ops : List View) (p : Params)
    (hv : ValidOps st ops) : PureFreshSem d st ops (copy_all p ops) :=
  pureFresh_sem d st ops _ hv (chk_copy_all p ops)

/-- Construction with copying enabled yields fully independent objects; with `copy=False`
the object may share storage with the arrays it was given and with nothing else – dense,
sparse, Kruskal (all-or-nothing over the factor list), Tucker, `tenmat`, `sptenmat`. -/
theorem C05_construction (d : α) (st : Store α) (ops : List View) (p : Params)
    (hv : ValidOps st ops) :
    (1 ≤ ops.length → SpecSem d st ops (tensor_init p ops) (noCopyIf [0] p)) ∧
    (2 ≤ ops.length → SpecSem d st ops (sptensor_init p ops) (noCopyIf [0, 1] p)) ∧
    (p.n + (if p.flag == "w" then 1 else 0) ≤ ops.length →
      SpecSem d st ops (ktensor_init p ops) (noCopyIf (List.range (p.n + 1)) p)) ∧
    (p.k + p.n ≤ ops.length →
      SpecSem d st ops (ttensor_init p ops) (noCopyIf (List.range (p.k + p.n)) p)) ∧
    (1 ≤ ops.length → SpecSem d st ops (tenmat_init2 p ops) (noCopyIf [0] p)) ∧
    (2 ≤ ops.length → SpecSem d st ops (sptenmat_init2 p ops) (noCopyIf [0, 1] p)) :=
  ⟨fun h => spec_sem d st ops _ _ hv (chk_tensor_init p ops (by simp [atLeast]; omega)),
   fun h => spec_sem d st ops _ _ hv (chk_sptensor_init p ops (by simp [atLeast]; omega)),
   fun h => spec_sem d st ops _ _ hv (chk_ktensor_init p ops h),
   fun h => spec_sem d st ops _ _ hv (chk_ttensor_init p ops h),
   fun h => spec_sem d st ops _ _ hv (chk_tenmat_init2 p ops (by simp [flagOr]; omega)),
   fun h => spec_sem d st ops _ _ hv (chk_sptenmat_init2 p ops (by simp [flagOr]; omega))⟩

/-- `tenmat.to_tensor(copy)`: independent for `copy=True`; for `copy=False` it can share
storage with the receiver's data only. -/
theorem C05_tenmat_to_tensor (d : α) (st : Store α) (ops : List View) (p : Params)
    (hv : ValidOps st ops) (h : 1 ≤ ops.length) :
    SpecSem d st ops (tenmat_to_tensor p ops) (noCopyIf [0] p) :=
  spec_sem d st ops _ _ hv (chk_tenmat_to_tensor p ops (by simp [atLeast]; omega))

/-- Kruskal operations that return a new tensor – `permute`, `ttv` (repaired), `tolist`
(repaired): operands unchanged, result independent, for any number of factors. -/
theorem C05_fresh_ktensor_ops (d : α) (st : Store α) (ops : List View) (p : Params)
    (hv : ValidOps st ops) :
    PureFreshSem d st ops (ktensor_permute p ops) ∧ PureFreshSem d st ops (ktensor_ttv p ops) ∧
    PureFreshSem d st ops (ktensor_tolist p ops) :=
  ⟨pureFresh_sem d st ops _ hv (chk_ktensor_permute p ops),
   pureFresh_sem d st ops _ hv (chk_ktensor_ttv p ops),
   pureFresh_sem d st ops _ hv (chk_ktensor_tolist p ops)⟩

/-- The documented in-place Kruskal operations `normalize`, `arrange`, `fixsigns` (with and
without a reference tensor, repaired), `redistribute`, `update` (and `viz`, which normalizes):
only the receiver's buffers (operands `0 … n`) can change – in particular the reference tensor
of `fixsigns` and the data vector of `update` are unchanged – and the receiver afterwards
holds its own or new arrays, never an argument's. -/
theorem C05_inplace_only_ktensor (d : α) (st : Store α) (ops : List View) (p : Params)
    (hv : ValidOps st ops) (hn : p.n + 1 ≤ ops.length) (hk : p.k < p.n) :
    InPlaceSem d st ops (List.range (p.n + 1)) (ktensor_normalize p ops) ∧
    InPlaceSem d st ops (List.range (p.n + 1)) (ktensor_arrange p ops) ∧
    InPlaceSem d st ops (List.range (p.n + 1)) (ktensor_fixsigns p ops) ∧
    InPlaceSem d st ops (List.range (p.n + 1)) (ktensor_redistribute p ops) ∧
    InPlaceSem d st ops (List.range (p.n + 1)) (ktensor_update p ops) ∧
    InPlaceSem d st ops (List.range (p.n + 1)) (ktensor_viz p ops) :=
  ⟨inPlace_sem d st ops _ _ hv (chk_ktensor_normalize p ops (by simp [hn, hk])),
   inPlace_sem d st ops _ _ hv (chk_ktensor_arrange p ops (by simp [hn, hk])),
   inPlace_sem d st ops _ _ hv (chk_ktensor_fixsigns p ops (by simp [hn])),
   inPlace_sem d st ops _ _ hv (chk_ktensor_redistribute p ops (by simp [hn, hk])),
   inPlace_sem d st ops _ _ hv (chk_ktensor_update p ops (by simp [hn])),
   inPlace_sem d st ops _ _ hv (chk_ktensor_viz p ops (by simp [hn]))⟩

/-- The four `__setitem__`s change their receiver's buffers only (the key and value arrays are
unchanged – including an index array with negative entries, repaired `tt_ind2sub`), and the
receiver never ends up holding the value's storage (repaired sparse assignment). -/
theorem C05_inplace_only_setitem (d : α) (st : Store α) (ops : List View) (p : Params)
    (hv : ValidOps st ops) :
    (1 ≤ ops.length → InPlaceSem d st ops [0] (tensor_setitem p ops)) ∧
    (2 ≤ ops.length → InPlaceSem d st ops [0, 1] (sptensor_setitem p ops)) ∧
    (3 ≤ ops.length → InPlaceSem d st ops [0, 1, 2] (tenmat_setitem p ops)) ∧
    (4 ≤ ops.length → InPlaceSem d st ops [0, 1, 2, 3] (sptenmat_setitem p ops)) :=
  ⟨fun h => inPlace_sem d st ops _ _ hv (chk_tensor_setitem p ops (by simp [atLeast]; omega)),
   fun h => inPlace_sem d st ops _ _ hv (chk_sptensor_setitem p ops (by simp [atLeast]; omega)),
   fun h => inPlace_sem d st ops _ _ hv (chk_tenmat_setitem p ops (by simp [atLeast]; omega)),
   fun h => inPlace_sem d st ops _ _ hv (chk_sptenmat_setitem p ops (by simp [atLeast]; omega))⟩

/-- Every public method that computes its result into new arrays (arithmetic, comparisons,
`ttv`, `ttm`, `mttkrp`, `collapse`, `extract`, `full`, … – the generic table entry) and the
algorithm entry points with a random / computed start: all inputs unchanged, every returned
array independent of every input. -/
theorem C05_alg_inputs_untouched (d : α) (st : Store α) (ops : List View) (resultNames : List String)
    (hv : ValidOps st ops) : PureFreshSem d st ops (computed ops.length resultNames) :=
  pureFresh_sem d st ops _ hv (chk_computed _ _)

/-- Algorithm entry points called with the caller's initial guess (`cp_als`, `cp_apr`,
`tucker_als`; recorded by-design finding): data and guess are unchanged; the returned model
and outputs are independent of them – the only sharing is the returned initial guess with
the caller's guess and the output parameters with the caller's `dimorder` / `optdims`. -/
theorem C05_alg_returns_init (d : α) (st : Store α) (ops : List View) (p : Params)
    (hv : ValidOps st ops) (hpre : alg_returns_init_pre p ops.length = true) :
    SpecSem d st ops (alg_returns_init p ops) (alg_returns_init_spec p) :=
  spec_sem d st ops _ _ hv (chk_alg_returns_init p ops hpre)

/-- `sptensor.find()` (recorded by-design finding): the two returned arrays ARE the receiver's
`subs` and `vals` – a write through the result is a write to the tensor. -/
theorem C05_sptensor_find_is_alias (d : α) (st : Store α) (subs vals : View) (p : Params) :
    let S := exec d st [subs, vals] (sptensor_find p [subs, vals]).prog
    S.st = st ∧ S.reg 2 = subs ∧ S.reg 3 = vals := by
  simp [sptensor_find, exec, step, State.push, State.reg]

/-! ### matricized tensors (part 4 of the table) -/

/-- `tenmat.ctranspose()` for real / integer / boolean data (`conj()` is the array itself) and for
complex data, for every matrix shape – 1-row, 1-column and 1×1 matrices, whose transpose is
F-contiguous, included: the operand is unchanged and the result shares nothing with it. -/
theorem C05_fresh_tenmat_ctranspose (d : α) (st : Store α) (ops : List View) (p : Params)
    (hv : ValidOps st ops) : PureFreshSem d st ops (tenmat_ctranspose p ops) :=
  pureFresh_sem d st ops _ hv (chk_tenmat_ctranspose p ops)

/-- Why `ctranspose` passes `copy=True`: with a real 1-row matrix, `data.conj().T` is the
receiver's own storage and F-contiguous, so `to_memory_order(.., "F")` alone (a `copy=False`
variant) would hand it out – the table's program does not. -/
theorem C05_ctranspose_needs_copy_example :
    let v : View := ⟨0, 0, [1, 3], [1, 1]⟩
    (outcome (0 : Int) [bufferFor 0 v] [v] [.alias 0, .tr 1, .asF 2] [3]).share = [(0, 0)] ∧
    (outcome (0 : Int) [bufferFor 0 v] [v] (tenmat_ctranspose {} [v]).prog
      ((tenmat_ctranspose {} [v]).res.map (·.2))).share = [] := by decide

/-- `tenmat.copy()` / `__pos__` / `__deepcopy__`, `double()`, `__neg__`, `+`, `-` (either side)
with a scalar or a tenmat, `*` with a scalar, and `*` with a tenmat (matrix product, incl. the
scalar case): operands unchanged, every returned array new. -/
theorem C05_fresh_tenmat_ops (d : α) (st : Store α) (ops : List View) (p : Params)
    (hv : ValidOps st ops) :
    PureFreshSem d st ops (tenmat_copy p ops) ∧ PureFreshSem d st ops (tenmat_double p ops) ∧
    PureFreshSem d st ops (tenmat_arith p ops) ∧ PureFreshSem d st ops (tenmat_matmul p ops) :=
  ⟨pureFresh_sem d st ops _ hv (chk_tenmat_copy p ops), pureFresh_sem d st ops _ hv (chk_tenmat_double p ops),
   pureFresh_sem d st ops _ hv (chk_tenmat_arith p ops), pureFresh_sem d st ops _ hv (chk_tenmat_matmul p ops)⟩

/-- `tenmat(data, rdims, cdims, tshape, copy)` for every layout of `data` (F-contiguous: kept
with `copy=False`; C-ordered or strided: copied whatever the flag; 1-d: copied and reshaped),
and the empty constructor: with `copy=True` independent of every argument, with `copy=False`
sharing with `data` only; the mode arrays are always new. -/
theorem C05_nocopy_tenmat_ctor (d : α) (st : Store α) (ops : List View) (p : Params)
    (hv : ValidOps st ops) (h : flagOr ["empty"] 1 p ops.length = true) :
    SpecSem d st ops (tenmat_init2 p ops) (noCopyIf [0] p) :=
  spec_sem d st ops _ _ hv (chk_tenmat_init2 p ops h)

/-- `sptenmat(subs, vals, rdims, cdims, tshape, copy)` with and without entries / subscripts /
mode arguments: `copy=True` accumulates into new arrays, `copy=False` keeps `subs` and `vals`
and nothing else (the mode arrays are new in both cases). -/
theorem C05_nocopy_sptenmat_ctor (d : α) (st : Store α) (ops : List View) (p : Params)
    (hv : ValidOps st ops) (h : flagOr ["none", "nosubs"] 2 p ops.length = true) :
    SpecSem d st ops (sptenmat_init2 p ops) (noCopyIf [0, 1] p) :=
  spec_sem d st ops _ _ hv (chk_sptenmat_init2 p ops h)

/-- `sptenmat.copy()` / `__pos__` / `__deepcopy__`, `__neg__` (an in-place product – on the
copy), `from_array` (dense and scipy-sparse sources), `to_sptensor()`, `full()` (a write into
the new matrix through views of the receiver's arrays): operands unchanged, results new. -/
theorem C05_fresh_sptenmat_ops (d : α) (st : Store α) (ops : List View) (p : Params)
    (hv : ValidOps st ops) :
    PureFreshSem d st ops (sptenmat_copy p ops) ∧ PureFreshSem d st ops (sptenmat_neg p ops) ∧
    PureFreshSem d st ops (sptenmat_from_array p ops) ∧ PureFreshSem d st ops (sptenmat_to_sptensor p ops) ∧
    PureFreshSem d st ops (sptenmat_full p ops) :=
  ⟨pureFresh_sem d st ops _ hv (chk_sptenmat_copy p ops), pureFresh_sem d st ops _ hv (chk_sptenmat_neg p ops),
   pureFresh_sem d st ops _ hv (chk_sptenmat_from_array p ops),
   pureFresh_sem d st ops _ hv (chk_sptenmat_to_sptensor p ops),
   pureFresh_sem d st ops _ hv (chk_sptenmat_full p ops)⟩

/-! ### programs that call programs (Tucker tensors, sum tensors, Kruskal conversions) -/

/-- The static classification is compositional: analysing a callee's program placed in a caller
(`Built.at`: callee operand `j` = caller register `args[j]`, new registers numbered from the
caller's first free one) gives the callee's own classification with "inside operand `j`"
replaced by the caller's classification of `args[j]`. -/
theorem C05_static_compositional (k : Nat) (args : List Nat) (free : Nat) (ρ0 ω0 : List Root)
    (hlen : ρ0.length = free) (hargs : ∀ j, j < k → args.getD j 0 < free) (q : Prog) :
    (q.map (Step.reloc k args free)).foldl staticStep (ρ0, ω0) =
      (ρ0 ++ ((roots k q).drop k).map (Root.subst ρ0 args),
       ω0 ++ (writeRoots k q).map (Root.subst ρ0 args)) :=
  static_at k args free ρ0 ω0 hlen hargs q

/-- … hence a callee that passes the `pureFresh` check keeps doing so wherever it is called and
whatever registers it is given: it writes only to arrays it allocated and its results are new
(the rule by which the entries for any number of factor matrices / parts are proved). -/
theorem C05_call_pureFresh (b : Nat) (W A : List Nat) (free : Nat) (R0 : List Nat) (B : Built) (k : Nat)
    (args : List Nat) (pre : String) (hB : specCheck .pureFresh k B = true)
    (hargs : ∀ j, j < k → args.getD j 0 < free) :
    Blk b W A free R0 (B.at k args free pre).prog ((B.at k args free pre).res.map (·.2)) :=
  Blk.call B k args pre hB hargs

/-- Tucker tensors with a dense or sparse core (`p.k` = 1 / 2 core arrays) and any number `p.n`
of factor matrices: `copy()` / `__pos__` / `__deepcopy__`, `full()` / `to_tensor()` /
`reconstruct()` (a chain of `ttm`s), `double()`, `__neg__` / `__mul__` / `__rmul__`. -/
theorem C05_fresh_ttensor_ops (d : α) (st : Store α) (ops : List View) (p : Params)
    (hv : ValidOps st ops) (hk : p.k = 1 ∨ p.k = 2) (hb : p.k + p.n ≤ ops.length) :
    PureFreshSem d st ops (ttensor_copy p ops) ∧ PureFreshSem d st ops (ttensor_scale p ops) ∧
    (0 < p.n → PureFreshSem d st ops (ttensor_full p ops) ∧ PureFreshSem d st ops (ttensor_double p ops)) := by
  have hpre : ttPre (fun _ _ => true) p ops.length = true := by
    rcases hk with h | h <;> simp [ttPre, h] <;> omega
  refine ⟨pureFresh_sem d st ops _ hv (chk_ttensor_copy p ops hpre),
    pureFresh_sem d st ops _ hv (chk_ttensor_scale p ops hpre), fun hN => ?_⟩
  have hpre2 : ttPre (fun p _ => decide (0 < p.n)) p ops.length = true := by
    rcases hk with h | h <;> simp [ttPre, h, hN] <;> omega
  exact ⟨pureFresh_sem d st ops _ hv (chk_ttensor_full p ops hpre2),
    pureFresh_sem d st ops _ hv (chk_ttensor_double p ops hpre2)⟩

/-- `ttensor.ttm` (any subset of modes, matrices in the operand registers `p.perm`), `ttv` (any
subset; a scalar, a Tucker tensor with a dense or with a sparse new core), `mttkrp`: operands –
matrices and vectors included – unchanged, results new. -/
theorem C05_fresh_ttensor_products (d : α) (st : Store α) (ops : List View) (p : Params)
    (hv : ValidOps st ops) (hk : p.k = 1 ∨ p.k = 2) (hb : p.k + p.n ≤ ops.length)
    (hperm : ∀ r ∈ p.perm, r < ops.length) :
    PureFreshSem d st ops (ttensor_ttm p ops) ∧ PureFreshSem d st ops (ttensor_ttv p ops) ∧
    (p.dims.getD 0 0 < p.n → PureFreshSem d st ops (ttensor_mttkrp p ops)) := by
  have hpre : ttPre (regsBelow (·.perm)) p ops.length = true := by
    have : regsBelow (·.perm) p ops.length = true := by
      simp only [regsBelow, List.all_eq_true, decide_eq_true_eq]; exact hperm
    rcases hk with h | h <;> simp [ttPre, h, this] <;> omega
  refine ⟨pureFresh_sem d st ops _ hv (chk_ttensor_ttm p ops hpre),
    pureFresh_sem d st ops _ hv (chk_ttensor_ttv p ops hpre), fun hd => ?_⟩
  have hpre2 : ttPre (fun p _ => decide (p.dims.getD 0 0 < p.n)) p ops.length = true := by
    have hd' : decide (p.dims.getD 0 0 < p.n) = true := by simpa using hd
    simp only [ttPre, Bool.and_eq_true, Bool.or_eq_true, beq_iff_eq, decide_eq_true_eq]
    exact ⟨⟨hk, hb⟩, by simpa using hd⟩
  exact pureFresh_sem d st ops _ hv (chk_ttensor_mttkrp p ops hpre2)

/-- `ttensor.permute(order)` for every order (the identity included) and `reconstruct(samples,
modes)` (kept and sampled modes in any combination). -/
theorem C05_fresh_ttensor_permute_reconstruct (d : α) (st : Store α) (ops : List View) (p : Params)
    (hv : ValidOps st ops) (hk : p.k = 1 ∨ p.k = 2) (hb : p.k + p.n ≤ ops.length) :
    ((∀ r ∈ p.perm, p.k + r < ops.length) → PureFreshSem d st ops (ttensor_permute p ops)) ∧
    ((∀ r ∈ p.perm, r < ops.length) → 0 < p.n → PureFreshSem d st ops (ttensor_reconstruct p ops)) := by
  constructor
  · intro hperm
    have : regsBelow (fun p => p.perm.map (p.k + ·)) p ops.length = true := by
      simp only [regsBelow, List.all_eq_true, decide_eq_true_eq]
      intro r hr; obtain ⟨x, hx, rfl⟩ := List.mem_map.mp hr; exact hperm x hx
    have hpre : ttPre (regsBelow (fun p => p.perm.map (p.k + ·))) p ops.length = true := by
      rcases hk with h | h <;> simp [ttPre, h, this] <;> omega
    exact pureFresh_sem d st ops _ hv (chk_ttensor_permute p ops hpre)
  · intro hperm hN
    have : regsBelow (·.perm) p ops.length = true := by
      simp only [regsBelow, List.all_eq_true, decide_eq_true_eq]; exact hperm
    have hpre : ttPre (fun p b => regsBelow (·.perm) p b && decide (0 < p.n)) p ops.length = true := by
      rcases hk with h | h <;> simp [ttPre, h, this, hN] <;> omega
    exact pureFresh_sem d st ops _ hv (chk_ttensor_reconstruct p ops hpre)

/-- Sum tensors over ANY list of parts (`p.kinds`: dense, sparse, Kruskal, Tucker with a dense or
a sparse core, in any order and multiplicity): construction with copying, `copy()` / `__pos__` /
`__deepcopy__`, `__add__` / `__radd__` (the receiver's parts and the added tensors, all
copied), `__neg__`, `innerprod`, `mttkrp` (the in-place `+=` goes into the first, new, result),
`ttv` (any mode subset; per part a dense, sparse, Kruskal or Tucker result). -/
theorem C05_fresh_sumtensor_ops (d : α) (st : Store α) (ops : List View) (p : Params)
    (hv : ValidOps st ops) (hb : partTotal p.n p.kinds ≤ ops.length) :
    PureFreshSem d st ops (sumtensor_copy p ops) ∧ PureFreshSem d st ops (sumtensor_neg p ops) ∧
    PureFreshSem d st ops (sumtensor_innerprod p ops) ∧ PureFreshSem d st ops (sumtensor_mttkrp p ops) ∧
    (partTotal p.n p.kinds + p.dims.length ≤ ops.length → PureFreshSem d st ops (sumtensor_ttv p ops)) := by
  have hpre : sumPre (fun _ => 0) p ops.length = true := by simp [sumPre]; exact hb
  refine ⟨pureFresh_sem d st ops _ hv (chk_sumtensor_copy p ops hpre),
    pureFresh_sem d st ops _ hv (chk_sumtensor_neg p ops hpre),
    pureFresh_sem d st ops _ hv (chk_sumtensor_innerprod p ops hpre),
    pureFresh_sem d st ops _ hv (chk_sumtensor_mttkrp p ops hpre), fun h => ?_⟩
  exact pureFresh_sem d st ops _ hv (chk_sumtensor_ttv p ops (by simp [sumPre]; exact h))

/-- `sumtensor.full()` / `to_tensor()` / `double()` for any non-empty list of parts: `full()` of
the first part, then one new sum per further part (a dense part is added as it is). -/
theorem C05_fresh_sumtensor_full (d : α) (st : Store α) (ops : List View) (p : Params)
    (hv : ValidOps st ops) (hb : partTotal p.n p.kinds ≤ ops.length) (hk : p.kinds ≠ []) (hN : 0 < p.n) :
    PureFreshSem d st ops (sumtensor_full p ops) ∧ PureFreshSem d st ops (sumtensor_double p ops) := by
  have hpre : sumFullPre p ops.length = true := by
    have : p.kinds.isEmpty = false := by cases hc : p.kinds <;> simp_all
    simp [sumFullPre, sumPre, this, hN]; exact hb
  exact ⟨pureFresh_sem d st ops _ hv (chk_sumtensor_full p ops hpre),
    pureFresh_sem d st ops _ hv (chk_sumtensor_double p ops hpre)⟩

/-- `sumtensor(parts, copy=False)` (documented no-copy): the parts are kept – every array of the
result IS the caller's, nothing else is touched. -/
theorem C05_nocopy_sumtensor_ctor (d : α) (st : Store α) (ops : List View) (p : Params)
    (hv : ValidOps st ops) (h : p.m ≤ ops.length) :
    SpecSem d st ops (alias_all p ops) (.noCopy (List.range p.m)) :=
  spec_sem d st ops _ _ hv (chk_alias_all p ops h)

/-- The remaining Kruskal operations, for any number of factor matrices: `extract`, `__neg__` /
`__mul__` / `__rmul__`, `__add__` / `__sub__`, `double`, `to_tenmat` (`full()` then
`tensor.to_tenmat`, every mode split, both copy flags), `tovec`, `mask` (dense and sparse
masks), `tolist(mode)`, `mttkrp`. -/
theorem C05_fresh_ktensor_more (d : α) (st : Store α) (ops : List View) (p : Params)
    (hv : ValidOps st ops) (hn : p.n + 2 ≤ ops.length) (hk : p.k < p.n) :
    PureFreshSem d st ops (ktensor_extract p ops) ∧ PureFreshSem d st ops (ktensor_scale p ops) ∧
    PureFreshSem d st ops (ktensor_addsub p ops) ∧ PureFreshSem d st ops (ktensor_double p ops) ∧
    PureFreshSem d st ops (ktensor_to_tenmat p ops) ∧ PureFreshSem d st ops (ktensor_tovec p ops) ∧
    PureFreshSem d st ops (ktensor_mask p ops) ∧ PureFreshSem d st ops (ktensor_tolist_mode p ops) ∧
    PureFreshSem d st ops (ktensor_mttkrp p ops) := by
  have h1 : atLeastN 1 p ops.length = true := by simp [atLeastN]; omega
  have h2 : atLeastN 2 p ops.length = true := by simp [atLeastN]; omega
  exact ⟨pureFresh_sem d st ops _ hv (chk_ktensor_extract p ops h1),
    pureFresh_sem d st ops _ hv (chk_ktensor_scale p ops h1),
    pureFresh_sem d st ops _ hv (chk_ktensor_addsub p ops h1),
    pureFresh_sem d st ops _ hv (chk_ktensor_double p ops h1),
    pureFresh_sem d st ops _ hv (chk_ktensor_to_tenmat p ops h1),
    pureFresh_sem d st ops _ hv (chk_ktensor_tovec p ops),
    pureFresh_sem d st ops _ hv (chk_ktensor_mask p ops h2),
    pureFresh_sem d st ops _ hv (chk_ktensor_tolist_mode p ops (by simpa using hk)),
    pureFresh_sem d st ops _ hv (chk_ktensor_mttkrp p ops)⟩

/-! ### parameter corner cases: nothing to compute, still a copy -/

/-- Operations whose general case computes new arrays, in the corner cases where there is nothing
to compute and the result carries the operand's own entries – for every flag of the entries, i.e.
the corner case AND the general case: `tensor.ttv` (flag "none": an empty mode selection, `dims=[]`
or every mode excluded; "scalar"; general), `tensor.symmetrize` (flag "same": every group is
already symmetric; averaging; version 1 with its in-place maximum on the result's own array),
`tensor.ttsv` (flag "none": `skip_dim` is the last mode, nothing is multiplied; results of 0, 1, 2
and more modes), `khatrirao` (`p.n = 1`: a single matrix; several): the operands are unchanged and
no returned array shares a cell with an operand. -/
theorem C05_fresh_corner_cases (d : α) (st : Store α) (ops : List View) (p : Params)
    (hv : ValidOps st ops) :
    PureFreshSem d st ops (tensor_ttv p ops) ∧ PureFreshSem d st ops (tensor_symmetrize p ops) ∧
    PureFreshSem d st ops (tensor_ttsv p ops) ∧ PureFreshSem d st ops (func_khatrirao p ops) :=
  ⟨pureFresh_sem d st ops _ hv (chk_tensor_ttv p ops), pureFresh_sem d st ops _ hv (chk_tensor_symmetrize p ops),
   pureFresh_sem d st ops _ hv (chk_tensor_ttsv p ops), pureFresh_sem d st ops _ hv (chk_func_khatrirao p ops)⟩

/-- Why these branches copy: on F-ordered 2×3 data, the same programs WITHOUT their first copy –
`ttv` with no mode selected (identity transposition, no-copy constructor), `symmetrize` of a
symmetric tensor (`to_memory_order`, no-copy constructor), `khatrirao` of one matrix (F-reshape
to the same shape) – hand out the operand's own cells; the table's programs do not. -/
theorem C05_corner_cases_need_copy_example :
    let v : View := ⟨0, 0, [2, 3], [1, 2]⟩
    let st : Store Int := [bufferFor 0 v]
    (outcome 0 st [v] ([.transpose 0 [0, 1]] ++ tensorCtor 1 2 [2, 3] false) [3]).share = [(0, 0)] ∧
    (outcome 0 st [v] ([.asF 0] ++ tensorCtor 1 2 [2, 3] false) [3]).share = [(0, 0)] ∧
    (outcome 0 st [v] [.reshapeF 0 [2, 3]] [1]).share = [(0, 0)] ∧
    (outcome 0 st [v] (tensor_ttv { perm := [0, 1], shape := [2, 3], flag := "none" } [v]).prog [6]).share = [] ∧
    (outcome 0 st [v] (tensor_symmetrize { shape := [2, 3], flag := "same" } [v]).prog [6]).share = [] ∧
    (outcome 0 st [v] (tensor_ttsv { shape := [2, 3], k := 2, flag := "none" } [v]).prog [5]).share = [] ∧
    (outcome 0 st [v] (func_khatrirao { n := 1, shape := [2, 3] } [v]).prog [4]).share = [] := by decide

/-- `ttensor.ttv` and `sumtensor.ttv` with an EMPTY mode selection call `tensor.ttv` in its
"none" case on the dense core / dense part: the composite entries cover it (their preconditions
hold with `p.dims = []`), so the new Tucker tensor / the new parts share nothing with the
receiver. -/
theorem C05_fresh_empty_selection_composites (d : α) (st : Store α) (ops : List View) (p : Params)
    (hv : ValidOps st ops) (hd : p.dims = []) (hp : p.perm = []) :
    ((p.k = 1 ∨ p.k = 2) → p.k + p.n ≤ ops.length → PureFreshSem d st ops (ttensor_ttv p ops)) ∧
    (partTotal p.n p.kinds ≤ ops.length → PureFreshSem d st ops (sumtensor_ttv p ops)) := by
  refine ⟨fun hk hb => ?_, fun hb => ?_⟩
  · refine pureFresh_sem d st ops _ hv (chk_ttensor_ttv p ops ?_)
    have hk' : (p.k == 1 || p.k == 2) = true := by rcases hk with h | h <;> simp [h]
    simp [ttPre, regsBelow, hp, hk', hb]
  · exact pureFresh_sem d st ops _ hv (chk_sumtensor_ttv p ops (by simp [sumPre, hd]; exact hb))

/-! ### when is a NumPy call a view? -/

/-- For an F-ordered array without singleton or empty modes, `np.transpose(a, order)` is
F-contiguous – so that `asfortranarray` / `to_memory_order` return it without copying – iff
`order` is the identity.  ("The identity permutation returns a view, every other one copies"
is a consequence of NumPy's contiguity rule, not a table entry.) -/
theorem C05_view_iff_fcontig (b off : Nat) (s p : List Nat) (hs : ∀ d ∈ s, 2 ≤ d)
    (hp : ∀ k ∈ p, k < s.length) (hl : p.length = s.length) :
    ((⟨b, off, s, fStrides s⟩ : View).transpose p).isF = true ↔ p = List.range s.length :=
  isF_transpose_iff b off s p hs hp hl

/-- … and with singleton modes other orders stay F-contiguous too: moving a mode of extent one
changes nothing in memory (the second half of the repaired `permute` defect). -/
theorem C05_view_singleton_example :
    ((⟨0, 0, [2, 1, 3], fStrides [2, 1, 3]⟩ : View).transpose [1, 0, 2]).isF = true := by decide

/-- Transposing by the identity returns the very same array. -/
theorem C05_transpose_identity_view (v : View) (h : v.strides.length = v.shape.length) :
    v.transpose (List.range v.shape.length) = v := transpose_identity v h

/-- `asfortranarray` of F-contiguous data returns the array itself and does not touch the
store; of anything else it returns a copy in a new buffer. -/
theorem C05_asF_view_or_copy (d : α) (st : Store α) (v : View) :
    (v.isF = true → asF d st v = (st, v)) ∧ (v.isF = false → (asF d st v).2.buf = st.length) :=
  ⟨asF_view d st v, fun h => by rw [asF_copy d st v h]; rfl⟩

/-- An F-order reshape of F-contiguous data is a view of the same buffer. -/
theorem C05_reshape_view_of_fcontig (d : α) (st : Store α) (v : View) (s : List Nat)
    (h : v.isF = true) : (reshapeF d st v s).1 = st ∧ (reshapeF d st v s).2.buf = v.buf :=
  reshapeF_view d st v s h

/-- F-order reshape followed by `asfortranarray` of data that is not F-contiguous always ends in
a new buffer (this is why the coarse model of `reshape` on non-contiguous data is harmless). -/
theorem C05_asF_reshape_fresh (d : α) (st : Store α) (v : View) (s : List Nat) (h : v.isF = false) :
    (asF d (reshapeF d st v s).1 (reshapeF d st v s).2).2.buf = st.length :=
  asF_reshapeF_fresh d st v s h

/-- No-copy construction of a dense tensor from F-contiguous data of the right shape returns
the caller's array itself. -/
theorem C05_nocopy_construction_shares (d : α) (st : Store α) (v : View) (hF : v.isF = true)
    (hs : v.size ≠ 0) (hne : v.shape ≠ []) :
    let p : Params := { shape := v.shape, copy := false }
    (exec d st [v] (tensor_init p [v]).prog).reg 2 = v ∧ (exec d st [v] (tensor_init p [v]).prog).st = st := by
  have h1 : (v.size == 0) = false := by simpa using hs
  have h2 : v.shape.isEmpty = false := by cases hv : v.shape <;> simp_all
  simp [tensor_init, tensorCtor, exec, step, State.push, State.reg, reshapeF, asF, hF, h1, h2]

/-! ### the pinned defects, as concrete runs of explicit copies of the old code -/

/-- Pinned `tensor.permute` with the identity order returned a view of the operand (shares
cell-for-cell), the repaired one does not. -/
theorem C05_permute_identity_pinned_counterexample :
    let v : View := ⟨0, 0, [2, 3], [1, 2]⟩
    let p : Params := { perm := [0, 1], shape := [2, 3] }
    (outcome (0 : Int) [bufferFor 0 v] [v] (tensor_permute_pinned p [v]).prog [4]).share = [(0, 0)] ∧
    (outcome (0 : Int) [bufferFor 0 v] [v] (tensor_permute p [v]).prog [3]).share = [] := by decide

/-- Pinned `tensor.reshape` shared the operand's data. -/
theorem C05_reshape_pinned_counterexample :
    let v : View := ⟨0, 0, [2, 3], [1, 2]⟩
    let p : Params := { shape := [3, 2] }
    (outcome (0 : Int) [bufferFor 0 v] [v] (tensor_reshape_pinned p [v]).prog [3]).share = [(0, 0)] ∧
    (outcome (0 : Int) [bufferFor 0 v] [v] (tensor_reshape p [v]).prog [3]).share = [] := by decide

/-- Pinned `ktensor.ttv` returned a Kruskal tensor holding the operand's remaining factor
matrix; pinned `tt_ind2sub` wrote into the caller's index array. -/
theorem C05_ttv_ind2sub_pinned_counterexample :
    let w : View := ⟨0, 0, [2], [1]⟩
    let f0 : View := ⟨1, 0, [2, 2], [1, 2]⟩
    let f1 : View := ⟨2, 0, [3, 2], [1, 3]⟩
    let vec : View := ⟨3, 0, [2], [1]⟩
    let ops := [w, f0, f1, vec]
    let p : Params := { n := 2, dims := [1] }
    (outcome (0 : Int) (ops.map (bufferFor 0)) ops (ktensor_ttv_pinned p ops).prog [6, 7]).share = [(1, 2)] ∧
    (outcome (0 : Int) (ops.map (bufferFor 0)) ops (ktensor_ttv p ops).prog [6, 7]).share = [] ∧
    (outcome (0 : Int) [bufferFor 0 vec] [⟨0, 0, [2], [1]⟩]
        (tt_ind2sub_pinned { flag := "neg" } [⟨0, 0, [2], [1]⟩]).prog [1]).mutated = [0] := by decide

/-! ### the hypotheses are satisfiable -/

example : ValidOps [[1, 2, 3, 4, 5, 6]] [(⟨0, 0, [2, 3], [1, 2]⟩ : View)] := by
  intro o ho; simp at ho; subst ho; decide

example : (exec (0 : Int) [[1, 2, 3, 4, 5, 6]] [⟨0, 0, [2, 3], [1, 2]⟩]
    (tensor_permute { perm := [1, 0], shape := [3, 2] } [⟨0, 0, [2, 3], [1, 2]⟩]).prog).st =
    [[1, 2, 3, 4, 5, 6], [1, 3, 5, 2, 4, 6]] := by decide

/-- a sum tensor with a dense, a sparse, a Kruskal and two Tucker parts of order 3 fits 17 operand
arrays; a Tucker receiver with a sparse core and three factor matrices five -/
example : partTotal 3 [0, 1, 2, 3, 4] ≤ 17 ∧
    ttPre (fun p _ => decide (0 < p.n)) { k := 2, n := 3 } 5 = true := by decide

/-- the composite programs run: `ttensor.full()` with a dense 2×2 core and 3×2, 2×2 factors ends
in a new buffer -/
example :
    let ops : List View := [⟨0, 0, [2, 2], [1, 2]⟩, ⟨1, 0, [3, 2], [1, 3]⟩, ⟨2, 0, [2, 2], [1, 2]⟩]
    (outcome (0 : Int) (ops.map (bufferFor 0)) ops (ttensor_full { k := 1, n := 2 } ops).prog
      ((ttensor_full { k := 1, n := 2 } ops).res.map (·.2))) = ⟨[], []⟩ := by decide

end Pyttb
