/-
C11 — CP-APR returns a non-negative model and a truthful objective.
Only property theorems and their non-vacuity examples live here.

All theorems are about the model `Alg/CpApr.lean` (code-mirroring; tied to /repo by the
correspondence harness) instantiated with the lawful number-system services of an arbitrary
linear ordered field `α` (`NumOps.ofField log`: `<`, `≤`, `|·|`, `= 0` are the field's, `log`
is ANY function `α → α`).  The search direction of the Newton variants is ANY function
`dir : Dir α` (it may also fail: pqnr's fatal assertion).  `sortPerm` stands for
`np.argsort(weights)[::-1]`.
Hypotheses used: `0 ≤ kappa` (the inadmissible-zero bump adds `kappa`), `0 < epsDivZero`
(so that `maximum(v, eps)` is a genuine positive divisor — in a field `x / 0 = 0` would make
the claim true for the wrong reason), `0 ≤ 1e-8` for the zero-row fill, `0 ≤ 1e-4` for the
sufficient-decrease constant.
-/
import PyttbModel.Lemmas.CpAprObjective
import PyttbModel.Lemmas.CpAprDescent
import PyttbModel.Lemmas.CpAprMajoriseModel
import PyttbModel.Lemmas.CpAprMonoNewton
import Mathlib.Analysis.SpecialFunctions.Log.Basic
namespace Pyttb
open Pyttb.CpApr Pyttb.CpApr.Gen

variable {α : Type} [Field α] [LinearOrder α] [IsStrictOrderedRing α]

/-! ### non-negativity: every reachable state -/

/-- CORE THEOREM.  Every state of the outer loop of each of the three solvers — the state
after `k` outer iterations, for every `k`, from any guess that passed the argument checks —
has non-negative weights and non-negative factor entries.  For PDNR and PQNR this holds
WHATEVER the direction service returns: a wrong direction is still projected. -/
theorem C11_nonneg_invariant (log : α → α) (c : Consts α) (cfg : Cfg α) (alg : Alg) (dir : Dir α)
    (X : Data α) (init : Ktensor α) (hk : 0 ≤ cfg.kappa) (heps : 0 < cfg.eps)
    (hfill : 0 ≤ c.zeroRowFill)
    (hv : validate (NumOps.ofField log) c cfg alg X init = true) (k : Nat) :
    (∀ s, muStates (NumOps.ofField log) cfg X init k = .ok s → NonnegK s.M) ∧
    (∀ s, nwStates (NumOps.ofField log) c cfg alg dir X init k = .ok s → NonnegK s.M) := by
  obtain ⟨hX, hi, _⟩ := validate_spec log hv
  exact ⟨fun s h => (muStates_inv log hk heps hX hi k s h).1,
         fun s h => (nwStates_inv log hfill cfg alg dir X hi k s h).1⟩

/-- Inside an outer iteration of MU: after each mode (inadmissible-zero bump, `redistribute`,
up to `maxinneriters` multiplicative updates, L1 `normalize(mode)`) the model is non-negative. -/
theorem C11_nonneg_mu_mode (log : α → α) (cfg : Cfg α) (X : Data α) (hk : 0 ≤ cfg.kappa)
    (heps : 0 < cfg.eps) (hX : NonnegData X) (iterPos : Bool) (s s' : MuIt α) (n : Nat)
    (hs : NonnegK s.M ∧ NonnegL s.kktMode)
    (h : muMode (NumOps.ofField log) cfg X iterPos s n = .ok s') : NonnegK s'.M :=
  (muMode_inv log hk heps hX iterPos s n s' hs h).1

/-- Inside a mode of MU: after ANY number of inner iterations (`fuel`) the factor is
non-negative, provided `Phi` of a non-negative factor is non-negative (which
`calculate_phi` guarantees for non-negative data and `0 < epsDivZero`: `phiOf_nonneg`). -/
theorem C11_nonneg_mu_inner (log : α → α) (stoptol : α) (phi : Mat α → Mat α) (I R fuel : Nat)
    (s : MuInner α) (hA : NonnegM s.A) (hphi : ∀ A, NonnegM A → NonnegM (phi A)) (hkkt : 0 ≤ s.kkt) :
    NonnegM (muInnerLoop (NumOps.ofField log) stoptol phi I R fuel s).A :=
  (muInnerLoop_nonneg log I R fuel s hA hphi hkkt).1

/-- The projected line search returns a non-negative row with `R` entries for ANY direction,
gradient, current row, data row, Pi and phi (`model_new *= model_new > 0` after the trial step
and after the multiplicative fall-back). -/
theorem C11_nonneg_linesearch (log : α → α) (c : Consts α) (sparse : Bool)
    (dir grad mOld x : List α) (Pi : Mat α) (phi : List α) (R : Nat) :
    NonnegL (lineSearch (NumOps.ofField log) c sparse dir grad mOld x Pi phi R) ∧
    (lineSearch (NumOps.ofField log) c sparse dir grad mOld x Pi phi R).length = R :=
  lineSearch_inv log c sparse dir grad mOld x Pi phi R

/-- Row sub-problem of PDNR and of PQNR: after ANY number of inner iterations (`fuel`), with
ANY direction service, a non-negative row stays non-negative. -/
theorem C11_nonneg_row (log : α → α) (c : Consts α) (cfg : Cfg α)
    (dir : Nat → List α → List α → Option (List α)) (sparse : Bool) (x : List α) (Pi : Mat α)
    (R fuel i : Nat) (s r : RowSt α) (hs : NonnegL s.m ∧ 0 ≤ s.kktMode) :
    (pdnrRow (NumOps.ofField log) c cfg dir sparse x Pi R fuel i s = some r → NonnegL r.m) ∧
    (pqnrRow (NumOps.ofField log) c cfg dir sparse x Pi R fuel i s = some r → NonnegL r.m) :=
  ⟨fun h => (pdnrRow_inv log c cfg dir sparse x Pi R fuel i s r hs h).1,
   fun h => (pqnrRow_inv log c cfg dir sparse x Pi R fuel i s r hs h).1⟩

/-- After each mode of PDNR / PQNR (`redistribute`, all row sub-problems incl. the empty-row
shortcut, L1 `normalize(mode)`) the model is non-negative, whatever `dir` returns. -/
theorem C11_nonneg_newton_mode (log : α → α) (c : Consts α) (cfg : Cfg α) (alg : Alg) (dir : Dir α)
    (X : Data α) (iteration : Nat) (s s' : NwIt α) (n : Nat) (hs : NonnegK s.M ∧ NonnegL s.kktMode)
    (h : nwMode (NumOps.ofField log) c cfg alg dir X iteration s n = .ok s') : NonnegK s'.M :=
  (nwMode_inv log c cfg alg dir X iteration s n s' hs h).1

/-- The model `cp_apr` returns (after `normalize(sort=True, normtype=1)` and the in-place
normalisation of `tt_loglikelihood`) has non-negative weights and factor entries. -/
theorem C11_nonneg_returned (log : α → α) (c : Consts α) (cfg : Cfg α) (alg : Alg) (dir : Dir α)
    (sortPerm : List α → List Nat) (X : Data α) (init : Ktensor α) (out : Out α)
    (hk : 0 ≤ cfg.kappa) (heps : 0 < cfg.eps) (hfill : 0 ≤ c.zeroRowFill)
    (h : cpApr (NumOps.ofField log) c cfg alg dir sortPerm X init = .ok out) : NonnegK out.M := by
  obtain ⟨hv, F, hF, hM, _⟩ := cpApr_ok _ h
  obtain ⟨hX, hi, _⟩ := validate_spec log hv
  have hFM : NonnegK F.M := by
    rcases hF with ⟨_, s, hs, rfl⟩ | ⟨_, s, hs, rfl⟩
    · exact (muStates_inv log hk heps hX hi _ s hs).1
    · exact (nwStates_inv log hfill cfg alg dir X hi _ s hs).1
  rw [hM, logLik_model]
  exact normalizeAbsorb0_nonneg log (normalizeSort_nonneg log hFM sortPerm)

/-! ### shape and rank -/

/-- The returned Kruskal tensor has the requested rank and the shape of the data: `rank`
weights, one factor per mode with as many rows as the mode's extent and `rank` columns.
(`sortPerm` must return one index per component, as `np.argsort` does.) -/
theorem C11_shape_rank (log : α → α) (c : Consts α) (cfg : Cfg α) (alg : Alg) (dir : Dir α)
    (sortPerm : List α → List Nat) (hsp : ∀ w, (sortPerm w).length = w.length)
    (X : Data α) (init : Ktensor α) (out : Out α)
    (h : cpApr (NumOps.ofField log) c cfg alg dir sortPerm X init = .ok out) :
    out.M.weights.length = cfg.rank ∧ out.M.factors.map List.length = X.shape ∧
    ∀ A ∈ out.M.factors, ∀ row ∈ A, row.length = cfg.rank := by
  obtain ⟨hv, F, hF, hM, _⟩ := cpApr_ok _ h
  obtain ⟨_, _, hshape, _⟩ := validate_spec log hv
  have hFM : ShapeK X.shape cfg.rank F.M := by
    rcases hF with ⟨_, s, hs, rfl⟩ | ⟨_, s, hs, rfl⟩
    · exact muStates_shape _ cfg X hshape _ s hs
    · exact nwStates_shape log c cfg alg dir X hshape _ s hs
  rw [hM, logLik_model]
  exact normalizeAbsorb0_shape _ (normalizeSort_shape _ sortPerm hsp hFM)

/-- Rank and shape are kept by every state of the three outer loops. -/
theorem C11_shape_rank_states (log : α → α) (c : Consts α) (cfg : Cfg α) (alg : Alg) (dir : Dir α)
    (X : Data α) (init : Ktensor α) (hv : validate (NumOps.ofField log) c cfg alg X init = true)
    (k : Nat) :
    (∀ s, muStates (NumOps.ofField log) cfg X init k = .ok s → ShapeK X.shape cfg.rank s.M) ∧
    (∀ s, nwStates (NumOps.ofField log) c cfg alg dir X init k = .ok s → ShapeK X.shape cfg.rank s.M) := by
  obtain ⟨_, _, hshape, _⟩ := validate_spec log hv
  exact ⟨fun s h => muStates_shape _ cfg X hshape k s h,
         fun s h => nwStates_shape log c cfg alg dir X hshape k s h⟩

/-! ### KKT list, iteration counts -/

/-- Every reported KKT violation is non-negative. -/
theorem C11_kkt_nonneg (log : α → α) (c : Consts α) (cfg : Cfg α) (alg : Alg) (dir : Dir α)
    (sortPerm : List α → List Nat) (X : Data α) (init : Ktensor α) (out : Out α)
    (hk : 0 ≤ cfg.kappa) (heps : 0 < cfg.eps) (hfill : 0 ≤ c.zeroRowFill)
    (h : cpApr (NumOps.ofField log) c cfg alg dir sortPerm X init = .ok out) :
    ∀ v ∈ out.kkt, 0 ≤ v := by
  obtain ⟨hv, F, hF, _, _, hkkt, _⟩ := cpApr_ok _ h
  obtain ⟨hX, hi, _⟩ := validate_spec log hv
  rw [hkkt]
  rcases hF with ⟨_, s, hs, rfl⟩ | ⟨_, s, hs, rfl⟩
  · exact (muStates_inv log hk heps hX hi _ s hs).2.2.1
  · exact (nwStates_inv log hfill cfg alg dir X hi _ s hs).2.1

/-- One KKT entry — and one inner-iteration count — per outer iteration performed. -/
theorem C11_kkt_length (log : α → α) (c : Consts α) (cfg : Cfg α) (alg : Alg) (dir : Dir α)
    (sortPerm : List α → List Nat) (X : Data α) (init : Ktensor α) (out : Out α)
    (hk : 0 ≤ cfg.kappa) (heps : 0 < cfg.eps) (hfill : 0 ≤ c.zeroRowFill)
    (h : cpApr (NumOps.ofField log) c cfg alg dir sortPerm X init = .ok out) :
    out.kkt.length = out.iters ∧ out.nInner.length = out.iters := by
  obtain ⟨hv, F, hF, _, _, hkkt, hin, hit⟩ := cpApr_ok _ h
  obtain ⟨hX, hi, _⟩ := validate_spec log hv
  rw [hkkt, hin, hit]
  rcases hF with ⟨_, s, hs, rfl⟩ | ⟨_, s, hs, rfl⟩
  · have := muStates_inv log hk heps hX hi _ s hs
    exact ⟨this.2.2.2.1, this.2.2.2.2.1⟩
  · have := nwStates_inv log hfill cfg alg dir X hi _ s hs
    exact ⟨this.2.2.1, this.2.2.2.1⟩

/-- The iteration limit is respected. -/
theorem C11_iters_le (log : α → α) (c : Consts α) (cfg : Cfg α) (alg : Alg) (dir : Dir α)
    (sortPerm : List α → List Nat) (X : Data α) (init : Ktensor α) (out : Out α)
    (hk : 0 ≤ cfg.kappa) (heps : 0 < cfg.eps) (hfill : 0 ≤ c.zeroRowFill)
    (h : cpApr (NumOps.ofField log) c cfg alg dir sortPerm X init = .ok out) :
    out.iters ≤ cfg.maxiters := by
  obtain ⟨hv, F, hF, _, _, _, _, hit⟩ := cpApr_ok _ h
  obtain ⟨hX, hi, _⟩ := validate_spec log hv
  rw [hit]
  rcases hF with ⟨_, s, hs, rfl⟩ | ⟨_, s, hs, rfl⟩
  · exact (muStates_inv log hk heps hX hi _ s hs).2.2.2.2.2.2
  · exact (nwStates_inv log hfill cfg alg dir X hi _ s hs).2.2.2.2

/-- The same for every intermediate state: `k` transitions perform at most `min k maxiters`
outer iterations, with one KKT entry each. -/
theorem C11_iters_le_states (log : α → α) (c : Consts α) (cfg : Cfg α) (alg : Alg) (dir : Dir α)
    (X : Data α) (init : Ktensor α) (hk : 0 ≤ cfg.kappa) (heps : 0 < cfg.eps)
    (hfill : 0 ≤ c.zeroRowFill) (hv : validate (NumOps.ofField log) c cfg alg X init = true) (k : Nat) :
    (∀ s, muStates (NumOps.ofField log) cfg X init k = .ok s →
      s.iter ≤ cfg.maxiters ∧ s.kkt.length = s.iter) ∧
    (∀ s, nwStates (NumOps.ofField log) c cfg alg dir X init k = .ok s →
      s.iter ≤ cfg.maxiters ∧ s.kkt.length = s.iter) := by
  obtain ⟨hX, hi, _⟩ := validate_spec log hv
  constructor
  · intro s h
    have := muStates_inv log hk heps hX hi k s h
    exact ⟨this.2.2.2.2.2.2, this.2.2.2.1⟩
  · intro s h
    have := nwStates_inv log hfill cfg alg dir X hi k s h
    exact ⟨this.2.2.2.2, this.2.2.1⟩

/-! ### the objective -/

/-- The lemma the objective rests on: for a non-negative model, after
`normalize(weight_factor=0, normtype=1)` (L1-normalised columns, weights absorbed in mode 0) the
sum of ALL entries of the tensor equals `np.sum(factor_matrices[0])`. -/
theorem C11_sum_all_eq_sum_factor0 (log : α → α) (K : Ktensor α) (shape : List Nat) (R : Nat)
    (h : NonnegK K) (hs : ShapeK shape R K) (hN : 0 < shape.length) :
    ((allSubs shape).map (normalizeAbsorb0 (NumOps.ofField log) K).get).sum =
      matSum (factor (normalizeAbsorb0 (NumOps.ofField log) K) 0) :=
  normalizeAbsorb0_sum log h hs hN

/-- Dense data: the reported objective IS the Poisson log-likelihood of the data under the
RETURNED model `M`: `Σ_{cells, x ≠ 0} x · log m  −  Σ_{cells} m`, `m = M[cell]`
(`Ktensor.get`: `Σ_r λ_r ∏ₙ Aₙ[iₙ, r]`). -/
theorem C11_objective_dense (log : α → α) (c : Consts α) (cfg : Cfg α) (alg : Alg) (dir : Dir α)
    (sortPerm : List α → List Nat) (hsp : ∀ w, (sortPerm w).length = w.length)
    (T : Dense α) (init : Ktensor α) (out : Out α)
    (hk : 0 ≤ cfg.kappa) (heps : 0 < cfg.eps) (hfill : 0 ≤ c.zeroRowFill)
    (h : cpApr (NumOps.ofField log) c cfg alg dir sortPerm (.dense T) init = .ok out) :
    out.obj =
      ((List.range (numel T.shape)).map fun k =>
        if vget T.data k = 0 then 0 else vget T.data k * log (out.M.get (ind2sub T.shape k))).sum -
      ((allSubs T.shape).map out.M.get).sum := by
  obtain ⟨hv, F, hF, hM, hobj, _⟩ := cpApr_ok _ h
  obtain ⟨hX, hi, hshape, _, _, _, hN⟩ := validate_spec log hv
  have hFM : NonnegK F.M ∧ ShapeK T.shape cfg.rank F.M := by
    rcases hF with ⟨_, s, hs, rfl⟩ | ⟨_, s, hs, rfl⟩
    · exact ⟨(muStates_inv log hk heps hX hi _ s hs).1, muStates_shape _ cfg _ hshape _ s hs⟩
    · exact ⟨(nwStates_inv log hfill cfg alg dir _ hi _ s hs).1,
             nwStates_shape log c cfg alg dir _ hshape _ s hs⟩
  rw [hobj, hM, logLik_model]
  exact logLik_dense log T (normalizeSort_nonneg log hFM.1 sortPerm)
    (normalizeSort_shape _ sortPerm hsp hFM.2) hN

/-- Sparse data: the reported objective is `Σ_{stored entries} x · log m − Σ_{cells} m` under
the RETURNED model.  (For a well-formed sparse tensor the stored entries are exactly the
non-zero cells — `Sparse.WF`, C01/C06 — so this is `Σ_{x ≠ 0} x · log m − Σ m`.) -/
theorem C11_objective_sparse (log : α → α) (c : Consts α) (cfg : Cfg α) (alg : Alg) (dir : Dir α)
    (sortPerm : List α → List Nat) (hsp : ∀ w, (sortPerm w).length = w.length)
    (S : Sparse α) (init : Ktensor α) (out : Out α)
    (hk : 0 ≤ cfg.kappa) (heps : 0 < cfg.eps) (hfill : 0 ≤ c.zeroRowFill)
    (h : cpApr (NumOps.ofField log) c cfg alg dir sortPerm (.sparse S) init = .ok out) :
    out.obj =
      ((List.range S.subs.length).map fun k =>
        vget S.vals k * log (out.M.get (S.subs.getD k []))).sum -
      ((allSubs S.shape).map out.M.get).sum := by
  obtain ⟨hv, F, hF, hM, hobj, _⟩ := cpApr_ok _ h
  obtain ⟨hX, hi, hshape, _, _, _, hN⟩ := validate_spec log hv
  have hFM : NonnegK F.M ∧ ShapeK S.shape cfg.rank F.M := by
    rcases hF with ⟨_, s, hs, rfl⟩ | ⟨_, s, hs, rfl⟩
    · exact ⟨(muStates_inv log hk heps hX hi _ s hs).1, muStates_shape _ cfg _ hshape _ s hs⟩
    · exact ⟨(nwStates_inv log hfill cfg alg dir _ hi _ s hs).1,
             nwStates_shape log c cfg alg dir _ hshape _ s hs⟩
  rw [hobj, hM, logLik_model]
  exact logLik_sparse log S (normalizeSort_nonneg log hFM.1 sortPerm)
    (normalizeSort_shape _ sortPerm hsp hFM.2) hN

/-- The objective theorems are about `normalize(weight_factor=0, normtype=1)`; this is what
`tt_loglikelihood` calls (values read from the source by the translator: a change there breaks
this proof instead of silently invalidating `C11_objective_*`). -/
theorem C11_loglik_normalisation_anchor : Gen.llWeightFactor = 0 ∧ Gen.llNormType = 1 := by decide

/-! ### the returned model denotes the tensor of the last loop state -/

/-- The clean-up `normalize(sort=True, normtype=1)` and the in-place
`normalize(weight_factor=0, normtype=1)` of `tt_loglikelihood` do not change the tensor:
at every full subscript the returned model has the value of the model `M` held by the solver
when its outer loop ended (the state after `maxiters` transitions).  `sortPerm` must return a
permutation of the component indices, as `np.argsort` does. -/
theorem C11_returned_model_denote (log : α → α) (c : Consts α) (cfg : Cfg α) (alg : Alg) (dir : Dir α)
    (sortPerm : List α → List Nat) (hsp : ∀ w, (sortPerm w).Perm (List.range w.length))
    (X : Data α) (init : Ktensor α) (out : Out α)
    (hk : 0 ≤ cfg.kappa) (heps : 0 < cfg.eps) (hfill : 0 ≤ c.zeroRowFill)
    (h : cpApr (NumOps.ofField log) c cfg alg dir sortPerm X init = .ok out) :
    ∃ M : Ktensor α,
      ((alg = .mu ∧ ∃ s, muStates (NumOps.ofField log) cfg X init cfg.maxiters = .ok s ∧ M = s.M) ∨
       (alg ≠ .mu ∧ ∃ s, nwStates (NumOps.ofField log) c cfg alg dir X init cfg.maxiters = .ok s ∧
          M = s.M)) ∧
      ∀ i : List Nat, i.length = X.shape.length → out.M.get i = M.get i := by
  obtain ⟨hv, F, hF, hM, _⟩ := cpApr_ok _ h
  obtain ⟨hX, hi, hshape, _, _, _, hN⟩ := validate_spec log hv
  have hFM : NonnegK F.M ∧ ShapeK X.shape cfg.rank F.M := by
    rcases hF with ⟨_, s, hs, rfl⟩ | ⟨_, s, hs, rfl⟩
    · exact ⟨(muStates_inv log hk heps hX hi _ s hs).1, muStates_shape _ cfg _ hshape _ s hs⟩
    · exact ⟨(nwStates_inv log hfill cfg alg dir _ hi _ s hs).1,
             nwStates_shape log c cfg alg dir _ hshape _ s hs⟩
  have hlen : F.M.factors.length = X.shape.length := by
    have := congrArg List.length hFM.2.2.1
    rwa [List.length_map] at this
  refine ⟨F.M, ?_, ?_⟩
  · rcases hF with ⟨ha, s, hs, rfl⟩ | ⟨ha, s, hs, rfl⟩
    · exact Or.inl ⟨ha, s, hs, rfl⟩
    · exact Or.inr ⟨ha, s, hs, rfl⟩
  · intro i hi'
    rw [hM, logLik_model,
      normalizeAbsorb0_get log (normalizeSort_nonneg log hFM.1 sortPerm)
        (by rw [normalizeSort_nfactors, hlen]; exact hN) i (by rw [normalizeSort_nfactors, hlen]; exact hi'),
      normalizeSort_get log hFM.1 (by rw [hlen]; exact hN) sortPerm hsp i (by rw [hlen]; exact hi')]

/-- The set-up normalisation `M = init.copy(); M.normalize(normtype=1)` does not change the
tensor of a non-negative guess either. -/
theorem C11_initial_normalize_denote (log : α → α) (K : Ktensor α) (h : NonnegK K)
    (hN : 0 < K.factors.length) (i : List Nat) (hi : i.length = K.factors.length) :
    (normalize1 (NumOps.ofField log) K).get i = K.get i :=
  normalize1_get log h hN i hi

/-! ### likelihood: what is proved about "at least as likely as the start" -/

/-- PARTIAL.  "The result is at least as likely as the starting guess" is proved one step at a
time, for the two kinds of step that change a row of a factor matrix:

(1) ONE MULTIPLICATIVE STEP `m ↦ m ⊙ phi_row` — an inner MU update of one row of the factor
    (`calculate_phi` row `i` is `phi_row` of the data row `i`), and the fall-back of the line
    search — does not increase the negative row log-likelihood `Σ_r m_r − Σ_j x_j log v_j`.
    This is the majorisation (EM) argument; it uses of `log` only `log t ≤ t − 1` and
    `log (s t) = log s + log t` on positive numbers (true for the natural logarithm), and the
    `epsDivZero`-free hypothesis `eps ≤ v_j`, `0 < v_j` for every data column `j`
    (`v = m · Piᵀ`), under which `maximum(v, eps) = v`.
(2) ONE CALL OF THE PROJECTED LINE SEARCH of PDNR / PQNR, for ANY direction: either the
    multiplicative fall-back is what is returned (covered by (1) up to its projection, which is
    the identity on non-negative rows), or the returned row is at least as likely as the row
    it started from: it passed `f_new ≤ f_old + 1e-4·gDotd` with `gDotd ≤ 0`, or it was the last
    trial and not worse.

These two single-step facts need only LOCAL hypotheses (at the row in question); chained over
rows, modes and iterations they give `C11_likelihood_monotone_mu / _pdnr / _pqnr` and
`C11_likelihood_not_worse` below, for runs on which the safeguards are inactive.
NOT covered by any theorem (checked on the implementation by the harness for every run
instead): runs on which a safeguard IS active — `np.maximum(V, epsDivZero)` changing a
denominator, the inadmissible-zero bump (`+kappa`), the zero-row patch (`1e-8`), a zero column
norm in `normalize`; there the iterate CAN become less likely. -/
theorem C11_likelihood_not_worse_partial (log : α → α) (c : Consts α) (hc : 0 ≤ c.suffDecr)
    (sparse : Bool) (dir grad mOld x : List α) (Pi : Mat α) (phi : List α) (R : Nat) :
    -- (1) multiplicative step
    ((∀ t, 0 < t → log t ≤ t - 1) → (∀ s t, 0 < s → 0 < t → log (s * t) = log s + log t) →
      ∀ eps : α, NonnegL mOld → NonnegM Pi → NonnegL x →
      (∀ j < Pi.length, eps ≤ rowV Pi mOld R j ∧ 0 < rowV Pi mOld R j) →
      rowNegLL (NumOps.ofField log) sparse x Pi
        ((List.range R).map fun k =>
          lsFallback (vget mOld k) (vget (rowPhi (NumOps.ofField log) eps x Pi mOld R) k)) R ≤
      rowNegLL (NumOps.ofField log) sparse x Pi mOld R) ∧
    -- (2) line search
    (lineSearch (NumOps.ofField log) c sparse dir grad mOld x Pi phi R =
        ((List.range R).map fun k =>
          project (NumOps.ofField log).gt0 (lsFallback (vget mOld k) (vget phi k))) ∨
     rowNegLL (NumOps.ofField log) sparse x Pi
        (lineSearch (NumOps.ofField log) c sparse dir grad mOld x Pi phi R) R ≤
      rowNegLL (NumOps.ofField log) sparse x Pi mOld R) :=
  ⟨fun hL1 hL2 eps hm hPi hx hv => mu_step_not_worse log hL1 hL2 eps sparse x Pi mOld R hm hPi hx hv,
   lineSearch_descent log c hc sparse dir grad mOld x Pi phi R⟩

/-! ### likelihood never decreases while the safeguards are inactive: MU

`negLL log X K` is the negative Poisson log-likelihood of the data under the TENSOR that `K`
denotes, `Σ_cells m − Σ x · log m` (the objective of `C11_objective_dense / _sparse`, negated).
`LogLaws log` are the two facts about `log` the majorisation uses (`log t ≤ t − 1`,
`log (s t) = log s + log t` on positive numbers; the natural logarithm has them).
`muRunSafe log cfg X init k` is the DECIDABLE check (a `Bool` computed by re-running the model)
that on the first `k` outer iterations from `init` the safeguards of the code are inactive:
the normalised guess has no zero column, and in every mode of every iteration there is no
inadmissible-zero bump, `np.maximum(V, epsDivZero)` changes no denominator (`eps ≤ V`, `0 < V` for
every cell / stored entry the mode sees), and no column norm of the closing L1 `normalize` is
zero. -/

/-- The rows of a mode are independent given Pi: with unit weights (after `redistribute(n)`) and
unit column sums in the other modes, the negative log-likelihood of the tensor with factor `n`
replaced by ANY `I_n × R` matrix `A` is the sum of the row objectives
`−tt_loglikelihood_row(data row i, A[i, :], Pi)` — dense (unfolding against the Khatri-Rao
product) and sparse (stored entries grouped by their mode-`n` subscript) alike. -/
theorem C11_likelihood_rows (log : α → α) (X : Data α) (K : Ktensor α) (n R : Nat)
    (hs : ShapeK X.shape R K) (hn : n < K.factors.length) (hX : DataWF X)
    (hpos : ∀ e ∈ X.shape, 0 < e)
    (hw : ∀ r < K.weights.length, vget K.weights r = 1) (hc : ColsOneBut K n)
    (md : ModeData α) (hmd : modeData X K n = .ok md) (A : Mat α)
    (hA : IsMat (factor K n).length R A) :
    negLL log X (setFactor K n A) = sumOver (factor K n).length (rowObj log md K n R A) :=
  negLL_setFactor_rows log X K n hs hn hX hpos hw hc md hmd A hA

/-- One mode of MU — `redistribute(n)` (tensor unchanged), the whole inner loop of up to
`maxinneriters` multiplicative updates (each a majorisation step for every row), L1
`normalize(mode=n)` (tensor unchanged) — does not decrease the likelihood of the model tensor,
and re-establishes the invariant (non-negative, right shape, unit column sums in every mode). -/
theorem C11_likelihood_monotone_mu_mode (log : α → α) (hlog : LogLaws log) (cfg : Cfg α)
    (heps : 0 < cfg.eps) (X : Data α) (hX : DataWF X) (hXn : NonnegData X)
    (hpos : ∀ e ∈ X.shape, 0 < e) (iterPos : Bool) (R : Nat) (s s' : MuIt α) (n : Nat)
    (hn : n < X.shape.length) (hs : Good X.shape R s.M)
    (hsafe : muModeSafe log cfg X iterPos s n = true)
    (h : muMode (NumOps.ofField log) cfg X iterPos s n = .ok s') :
    Good X.shape R s'.M ∧ negLL log X s'.M ≤ negLL log X s.M :=
  muMode_mono log hlog cfg heps X hX hXn hpos iterPos s n s' hn hs hsafe h

/-- MU, whole runs: for every `k`, if the safeguards are inactive on the first `k` outer
iterations, the state after `k` outer iterations is at least as likely as the starting guess
(`init` itself — the set-up normalisation does not change the tensor), and any further outer
iteration on which the safeguards stay inactive does not decrease the likelihood either. -/
theorem C11_likelihood_monotone_mu (log : α → α) (hlog : LogLaws log) (c : Consts α) (cfg : Cfg α)
    (X : Data α) (init : Ktensor α) (heps : 0 < cfg.eps)
    (hv : validate (NumOps.ofField log) c cfg .mu X init = true) (k : Nat) (s : MuSt α)
    (hs : muStates (NumOps.ofField log) cfg X init k = .ok s)
    (hsafe : muRunSafe log cfg X init k = true) :
    negLL log X s.M ≤ negLL log X init ∧
    ∀ s', muOuterSafe log cfg X s = true → muOuter (NumOps.ofField log) cfg X s = .ok s' →
      negLL log X s'.M ≤ negLL log X s.M := by
  obtain ⟨hXn, hi, hshape, _, _, _, hN⟩ := validate_spec log hv
  obtain ⟨hX, hpos⟩ := validate_wf log hv
  have h := muRun_mono log hlog cfg heps X hX hXn hpos init hi hshape k s hsafe hs
  refine ⟨by rw [← negLL_normalize1 log hX hi hshape hN]; exact h.2, ?_⟩
  intro s' hsf hstep
  exact (muOuter_mono log hlog cfg heps X hX hXn hpos s s' h.1 hsf hstep).2

/-! ### likelihood never decreases while the safeguards are inactive: PDNR, PQNR

`nwRunSafe log c cfg alg dir X init k` is the decidable check that on the first `k` outer
iterations of the run with direction service `dir` the safeguards are inactive: no all-zero row in
the guess (zero-row patch), no zero column in the normalised guess, the `epsDivZero` clamp inactive
at every row from which a line search starts (incl. PQNR's priming gradient step), no zero column
norm in a closing `normalize`.  The DIRECTION is arbitrary, as in the non-negativity theorems. -/

/-- One row update of PDNR and of PQNR (the whole row loop: any number of inner iterations, any
directions) is not worse for the row objective.  The line search accepts only steps that pass the
sufficient-decrease test or a last trial that is not worse; an exhausted loop otherwise returns the
multiplicative fall-back, which is a majorisation step. -/
theorem C11_likelihood_monotone_row (log : α → α) (hlog : LogLaws log) (c : Consts α)
    (hc : 0 ≤ c.suffDecr) (cfg : Cfg α) (heps : 0 < cfg.eps)
    (dir : Nat → List α → List α → Option (List α)) (sparse : Bool) (x : List α) (Pi : Mat α) (R : Nat)
    (hPi : NonnegM Pi) (hx : NonnegL x) (fuel i : Nat) (s r : RowSt α) (hs : NonnegL s.m) :
    (pdnrRowSafe log c cfg dir sparse x Pi R fuel i s = true →
      pdnrRow (NumOps.ofField log) c cfg dir sparse x Pi R fuel i s = some r →
      rowNegLL (NumOps.ofField log) sparse x Pi r.m R ≤ rowNegLL (NumOps.ofField log) sparse x Pi s.m R) ∧
    (pqnrRowSafe log c cfg dir sparse x Pi R fuel i s = true →
      pqnrRow (NumOps.ofField log) c cfg dir sparse x Pi R fuel i s = some r →
      rowNegLL (NumOps.ofField log) sparse x Pi r.m R ≤ rowNegLL (NumOps.ofField log) sparse x Pi s.m R) :=
  ⟨fun hsafe h => (pdnrRow_mono log hlog c hc cfg heps dir sparse x Pi R hPi hx fuel i s r hs hsafe h).2,
   fun hsafe h => (pqnrRow_mono log hlog c hc cfg heps dir sparse x Pi R hPi hx fuel i s r hs hsafe h).2⟩

/-- One mode of PDNR / PQNR — `redistribute(n)`, all row sub-problems (incl. the empty-row
shortcut), L1 `normalize(mode=n)` — does not decrease the likelihood of the model tensor: the row
objectives add up to the tensor objective (`C11_likelihood_rows`) and no row gets worse. -/
theorem C11_likelihood_monotone_newton_mode (log : α → α) (hlog : LogLaws log) (c : Consts α)
    (hc : 0 ≤ c.suffDecr) (cfg : Cfg α) (heps : 0 < cfg.eps) (alg : Alg) (dir : Dir α) (X : Data α)
    (hX : DataWF X) (hXn : NonnegData X) (hpos : ∀ e ∈ X.shape, 0 < e) (iteration R : Nat)
    (s s' : NwIt α) (n : Nat) (hn : n < X.shape.length) (hs : Good X.shape R s.M)
    (hsafe : nwModeSafe log c cfg alg dir X iteration s n = true)
    (h : nwMode (NumOps.ofField log) c cfg alg dir X iteration s n = .ok s') :
    Good X.shape R s'.M ∧ negLL log X s'.M ≤ negLL log X s.M :=
  nwMode_mono log hlog c hc cfg heps alg dir X hX hXn hpos iteration s n s' hn hs hsafe h

/-- PDNR / PQNR (`alg ≠ mu`; `C11_likelihood_monotone_pdnr` / `_pqnr` are its two instances), whole
runs, ANY direction service: if the safeguards are inactive on the first `k` outer iterations, the
state after `k` outer iterations is at least as likely as the starting guess, and any further
outer iteration on which they stay inactive does not decrease the likelihood. -/
theorem C11_likelihood_monotone_newton (log : α → α) (hlog : LogLaws log) (c : Consts α)
    (hc : 0 ≤ c.suffDecr) (cfg : Cfg α) (alg : Alg) (dir : Dir α) (X : Data α) (init : Ktensor α)
    (heps : 0 < cfg.eps) (hv : validate (NumOps.ofField log) c cfg alg X init = true) (k : Nat)
    (s : NwSt α) (hs : nwStates (NumOps.ofField log) c cfg alg dir X init k = .ok s)
    (hsafe : nwRunSafe log c cfg alg dir X init k = true) :
    negLL log X s.M ≤ negLL log X init ∧
    ∀ s', nwOuterSafe log c cfg alg dir X s = true →
      nwOuter (NumOps.ofField log) c cfg alg dir X s = .ok s' → negLL log X s'.M ≤ negLL log X s.M := by
  obtain ⟨hXn, hi, hshape, _, _, _, hN⟩ := validate_spec log hv
  obtain ⟨hX, hpos⟩ := validate_wf log hv
  have h := nwRun_mono log hlog c hc cfg heps alg dir X hX hXn hpos init hi hshape k s hsafe hs
  refine ⟨by rw [← negLL_normalize1 log hX hi hshape hN]; exact h.2, ?_⟩
  intro s' hsf hstep
  exact (nwOuter_mono log hlog c hc cfg heps alg dir X hX hXn hpos s s' h.1 hsf hstep).2

theorem C11_likelihood_monotone_pdnr (log : α → α) (hlog : LogLaws log) (c : Consts α)
    (hc : 0 ≤ c.suffDecr) (cfg : Cfg α) (dir : Dir α) (X : Data α) (init : Ktensor α)
    (heps : 0 < cfg.eps) (hv : validate (NumOps.ofField log) c cfg .pdnr X init = true) (k : Nat)
    (s : NwSt α) (hs : nwStates (NumOps.ofField log) c cfg .pdnr dir X init k = .ok s)
    (hsafe : nwRunSafe log c cfg .pdnr dir X init k = true) :
    negLL log X s.M ≤ negLL log X init :=
  (C11_likelihood_monotone_newton log hlog c hc cfg .pdnr dir X init heps hv k s hs hsafe).1

theorem C11_likelihood_monotone_pqnr (log : α → α) (hlog : LogLaws log) (c : Consts α)
    (hc : 0 ≤ c.suffDecr) (cfg : Cfg α) (dir : Dir α) (X : Data α) (init : Ktensor α)
    (heps : 0 < cfg.eps) (hv : validate (NumOps.ofField log) c cfg .pqnr X init = true) (k : Nat)
    (s : NwSt α) (hs : nwStates (NumOps.ofField log) c cfg .pqnr dir X init k = .ok s)
    (hsafe : nwRunSafe log c cfg .pqnr dir X init k = true) :
    negLL log X s.M ≤ negLL log X init :=
  (C11_likelihood_monotone_newton log hlog c hc cfg .pqnr dir X init heps hv k s hs hsafe).1

/-! ### conclusion: the returned model is at least as likely as the starting guess -/

/-- The reported objective is the log-likelihood (`-negLL`) of the returned model. -/
theorem C11_objective_eq_negLL (log : α → α) (c : Consts α) (cfg : Cfg α) (alg : Alg) (dir : Dir α)
    (sortPerm : List α → List Nat) (hsp : ∀ w, (sortPerm w).length = w.length)
    (X : Data α) (init : Ktensor α) (out : Out α)
    (hk : 0 ≤ cfg.kappa) (heps : 0 < cfg.eps) (hfill : 0 ≤ c.zeroRowFill)
    (h : cpApr (NumOps.ofField log) c cfg alg dir sortPerm X init = .ok out) :
    out.obj = -negLL log X out.M := by
  cases X with
  | dense T =>
    rw [C11_objective_dense log c cfg alg dir sortPerm hsp T init out hk heps hfill h]
    unfold negLL
    simp only
    rw [neg_sub]
    congr 2
    apply List.map_congr_left
    intro k _
    split
    · next h0 => rw [h0, zero_mul]
    · rfl
  | sparse S =>
    rw [C11_objective_sparse log c cfg alg dir sortPerm hsp S init out hk heps hfill h]
    unfold negLL
    simp only
    rw [neg_sub]

/-- CONCLUSION.  If the safeguards are inactive on the run, the model `cp_apr` returns is at least
as likely as the starting guess, for each of the three solvers and any direction service: the
reported objective (the Poisson log-likelihood of the returned model) is at least the
log-likelihood of the guess. -/
theorem C11_likelihood_not_worse (log : α → α) (hlog : LogLaws log) (c : Consts α) (cfg : Cfg α)
    (alg : Alg) (dir : Dir α) (sortPerm : List α → List Nat)
    (hsp : ∀ w, (sortPerm w).Perm (List.range w.length)) (X : Data α) (init : Ktensor α) (out : Out α)
    (hk : 0 ≤ cfg.kappa) (heps : 0 < cfg.eps) (hfill : 0 ≤ c.zeroRowFill) (hc : 0 ≤ c.suffDecr)
    (h : cpApr (NumOps.ofField log) c cfg alg dir sortPerm X init = .ok out)
    (hsafe : SafeguardsInactive log c cfg alg dir X init = true) :
    negLL log X out.M ≤ negLL log X init ∧ -negLL log X init ≤ out.obj := by
  have hlen : ∀ w, (sortPerm w).length = w.length := fun w => by
    rw [(hsp w).length_eq, List.length_range]
  have hobj := C11_objective_eq_negLL log c cfg alg dir sortPerm hlen X init out hk heps hfill h
  obtain ⟨M, hM, hden⟩ := C11_returned_model_denote log c cfg alg dir sortPerm hsp X init out hk heps hfill h
  obtain ⟨hv, _⟩ := cpApr_ok _ h
  obtain ⟨hX, _⟩ := validate_wf log hv
  have heq : negLL log X out.M = negLL log X M := negLL_congr log hX hden
  have hle : negLL log X M ≤ negLL log X init := by
    rcases hM with ⟨ha, s, hs, rfl⟩ | ⟨ha, s, hs, rfl⟩
    · subst ha
      exact (C11_likelihood_monotone_mu log hlog c cfg X init heps hv _ s hs hsafe).1
    · have hsafe' : nwRunSafe log c cfg alg dir X init cfg.maxiters = true := by
        unfold SafeguardsInactive at hsafe
        cases alg with
        | mu => exact absurd rfl ha
        | pdnr => exact hsafe
        | pqnr => exact hsafe
      exact (C11_likelihood_monotone_newton log hlog c hc cfg alg dir X init heps hv _ s hs hsafe').1
  refine ⟨heq ▸ hle, ?_⟩
  rw [hobj, heq]
  exact neg_le_neg hle

/-! ### rejected requests -/

/-- A request that fails the argument checks is rejected, never answered. -/
theorem C11_rejects_invalid (o : NumOps α) (c : Consts α) (cfg : Cfg α) (alg : Alg) (dir : Dir α)
    (sortPerm : List α → List Nat) (X : Data α) (init : Ktensor α)
    (h : validate o c cfg alg X init = false) :
    cpApr o c cfg alg dir sortPerm X init = .error .reject := by
  unfold cpApr
  simp [h]

/-- Dense data with a negative entry fails the checks ("Data tensor must be nonnegative"). -/
theorem C11_rejects_negative_data (log : α → α) (c : Consts α) (cfg : Cfg α) (alg : Alg)
    (T : Dense α) (init : Ktensor α) (v : α) (hv : v ∈ T.data) (hneg : v < 0) :
    validate (NumOps.ofField log) c cfg alg (.dense T) init = false := by
  by_contra hcon
  have hval : validate (NumOps.ofField log) c cfg alg (.dense T) init = true := by
    cases hb : validate (NumOps.ofField log) c cfg alg (.dense T) init
    · exact absurd hb hcon
    · rfl
  have := (validate_spec log hval).1 v hv
  exact absurd hneg (not_lt.mpr this)

/-- A guess with a negative factor entry or weight fails the checks. -/
theorem C11_rejects_negative_guess (log : α → α) (c : Consts α) (cfg : Cfg α) (alg : Alg)
    (X : Data α) (init : Ktensor α) (h : ¬ NonnegK init) :
    validate (NumOps.ofField log) c cfg alg X init = false := by
  by_contra hcon
  have hval : validate (NumOps.ofField log) c cfg alg X init = true := by
    cases hb : validate (NumOps.ofField log) c cfg alg X init
    · exact absurd hb hcon
    · rfl
  exact h (validate_spec log hval).2.1

/-! ### the hypotheses are satisfiable -/

/-- A 2×2 count matrix, a rank-1 guess with a zero entry, and the default options pass the
argument checks (over ℚ). -/
example : validate (NumOps.ofField (fun x : ℚ => x)) (Consts.ofGen id)
    ⟨1, 1/10000, 3, 10, 1/10000000000, 1/100, 1/10000000000, true⟩ .pdnr
    (.dense ⟨[2, 2], [1, 0, 2, 3]⟩) ⟨[1], [[[1], [0]], [[1/2], [1/2]]]⟩ = true := by decide +kernel

example : (0 : ℚ) ≤ (Consts.ofGen (α := ℚ) id).zeroRowFill ∧ (0 : ℚ) ≤ (Consts.ofGen (α := ℚ) id).suffDecr := by
  constructor <;> decide +kernel

/-- The two facts about `log` that part (1) of `C11_likelihood_not_worse_partial` uses hold for the
natural logarithm over ℝ. -/
example : (∀ t : ℝ, 0 < t → Real.log t ≤ t - 1) ∧
    (∀ s t : ℝ, 0 < s → 0 < t → Real.log (s * t) = Real.log s + Real.log t) :=
  ⟨fun _ ht => Real.log_le_sub_one_of_pos ht, fun _ _ hs ht => Real.log_mul hs.ne' ht.ne'⟩

/-- `SafeguardsInactive` is satisfiable by non-trivial runs: two outer iterations of MU with two
inner iterations per mode, on a dense 2×2 count matrix (rank 1) and on a sparse 2×3 count matrix
with four stored entries (rank 2), all safeguards inactive throughout (the check does not
involve `log`). -/
example : muRunSafe (fun x : ℚ => x) ⟨1, 1/10000, 2, 2, 1/10000000000, 1/100, 1/10000000000, true⟩
    (.dense ⟨[2, 2], [1, 2, 2, 3]⟩) ⟨[1], [[[1], [2]], [[1/2], [1/2]]]⟩ 2 = true := by decide +kernel

example : muRunSafe (fun x : ℚ => x) ⟨2, 1/10000, 2, 2, 1/10000000000, 1/100, 1/10000000000, true⟩
    (.sparse ⟨[2, 3], [[0, 0], [0, 1], [1, 1], [1, 2]], [1, 2, 3, 1]⟩)
    ⟨[1, 2], [[[1, 1/2], [2, 1]], [[1/2, 1], [1/2, 1/3], [1, 1]]]⟩ 2 = true := by decide +kernel

example : nwRunSafe (fun x : ℚ => x) (Consts.ofGen id)
    ⟨1, 1/10000, 2, 2, 1/10000000000, 1/100, 1/10000000000, false⟩ .pdnr
    (fun _ _ _ _ _ g => some (g.map fun v => -v))
    (.dense ⟨[2, 2], [1, 2, 2, 3]⟩) ⟨[1], [[[1], [2]], [[1/2], [1/2]]]⟩ 2 = true := by decide +kernel

example : nwRunSafe (fun x : ℚ => x) (Consts.ofGen id)
    ⟨2, 1/10000, 2, 2, 1/10000000000, 1/100, 1/10000000000, true⟩ .pqnr
    (fun _ _ _ _ _ g => some (g.map fun v => -v))
    (.sparse ⟨[2, 3], [[0, 0], [0, 1], [1, 1], [1, 2]], [1, 2, 3, 1]⟩)
    ⟨[1, 2], [[[1, 1/2], [2, 1]], [[1/2, 1], [1/2, 1/3], [1, 1]]]⟩ 1 = true := by decide +kernel

/-- The natural logarithm satisfies `LogLaws`. -/
example : LogLaws Real.log :=
  ⟨fun _ ht => Real.log_le_sub_one_of_pos ht, fun _ _ hs ht => Real.log_mul hs.ne' ht.ne'⟩

/-- The solvers do return on such requests (so the theorems about `cpApr … = .ok out` are not
vacuous): MU on dense data, and PDNR on sparse data with steepest descent as the direction. -/
example : (match cpApr (NumOps.ofField (fun x : ℚ => x)) (Consts.ofGen id)
    ⟨1, 1/10000, 1, 2, 1/10000000000, 1/100, 1/10000000000, true⟩ .mu (fun _ _ _ _ _ _ => none)
    (fun w => List.range w.length)
    (.dense ⟨[2, 2], [1, 0, 2, 3]⟩) ⟨[1], [[[1], [0]], [[1/2], [1/2]]]⟩ with
    | .ok _ => true | .error _ => false) = true := by decide +kernel

example : (match cpApr (NumOps.ofField (fun x : ℚ => x)) (Consts.ofGen id)
    ⟨1, 1/10000, 1, 2, 1/10000000000, 1/100, 1/10000000000, true⟩ .pdnr
    (fun _ _ _ _ _ g => some (g.map fun v => -v)) (fun w => List.range w.length)
    (.sparse ⟨[2, 2], [[0, 0], [0, 1], [1, 1]], [1, 2, 3]⟩) ⟨[1], [[[1], [0]], [[1/2], [1/2]]]⟩ with
    | .ok _ => true | .error _ => false) = true := by decide +kernel

end Pyttb
