/-
C03 — sparse element-wise arithmetic, logic and comparison match dense semantics.

For a sparse tensor combined with a scalar, a dense tensor or another sparse tensor, the model
of every operation (`Ops/SparseElem.lean`, which mirrors sptensor.py branch by branch and is
tied to the implementation on every run) returns a well-formed result of the same shape whose
entry at EVERY position `i` is the scalar operation applied to the operands' entries at `i`
(`Sparse.get`, `Dense.get`: an unstored subscript denotes 0).  Results handed back dense and
results handed back sparse are read through the one denotation `get`.

The value type is abstract: a ring for `+ - neg`, a semiring for `*`, an additive monoid with a
`1 ≠ 0` for logic and `== !=`, additionally a linear order for `< <= > >=`, and an abstract
division for `/` whose behaviour at zero (`0/0 = nan`, `0/y = 0`, `x/y ≠ 0`) enters as explicit
hypotheses that are proved for the extended rationals (`C03_xrat_*`) at which the driver
executes the division model.  Kruskal and Tucker operands (`Ops/SparseElemKruskal.lean`) are
outside the letter of C03: `S * K` is the dense product, `S / K` is modelled and proved as coded
(divisor `max(eps, K[j])` on the stored pattern of `S`), the other combinations are refused.
Only property theorems and examples here; proofs are in Lemmas/SparseElem*.lean.
-/
import PyttbModel.Lemmas.SparseElemOrder
import PyttbModel.Lemmas.SparseElemKruskal
import PyttbModel.Lemmas.SparseElemKruskalXRat
namespace Pyttb
open SpElem

variable {α : Type}

/-! ### unary operations -/

/-- `-S` negates every entry and stays well-formed. -/
theorem C03_neg [Ring α] [DecidableEq α] (A : Sparse α) (hA : A.WF) :
    (neg A).WF ∧ (neg A).shape = A.shape ∧ ∀ i, (neg A).get i = - A.get i :=
  neg_spec A hA

/-- `+S` is the tensor itself. -/
theorem C03_pos (A : Sparse α) :
    pos A = A :=
  rfl

/-- `S.logical_not()` is 1 exactly on the cells where `S` is 0 (implicit zeros included). -/
theorem C03_not [AddMonoid α] [One α] [DecidableEq α] (A : Sparse α) (hA : A.WF) (h1 : (1 : α) ≠ 0) :
    (logicalNot A).WF ∧ (logicalNot A).shape = A.shape ∧
    ∀ i, InBounds A.shape i → (logicalNot A).get i = if A.get i = 0 then 1 else 0 :=
  logicalNot_spec A hA h1

/-- `S.ones()` is 1 exactly on the cells where `S` is not 0. -/
theorem C03_ones [AddMonoid α] [One α] [DecidableEq α] (A : Sparse α) (hA : A.WF) (h1 : (1 : α) ≠ 0) :
    (ones A).WF ∧ (ones A).shape = A.shape ∧ ∀ i, (ones A).get i = if A.get i = 0 then 0 else 1 :=
  ones_spec A hA h1

/-- `S.elemfun(f)` applies `f` to the non-zero entries (negative results are kept, zero results are not stored). -/
theorem C03_elemfun [AddMonoid α] [DecidableEq α] (A : Sparse α) (hA : A.WF) (f : α → α) :
    (elemfun f A).WF ∧ (elemfun f A).shape = A.shape ∧
    ∀ i, (elemfun f A).get i = if A.get i = 0 then 0 else f (A.get i) :=
  elemfun_spec A hA f

/-! ### `+` and `-` -/

/-- `S + c` (dense result): every cell, stored or not, is `S[i] + c`. -/
theorem C03_add_scalar [Ring α] [DecidableEq α] (A : Sparse α) (hA : A.WF) (c : α) :
    ∃ R, add A (.scalar c) = .ok (.dn R) ∧ R.WF ∧ R.shape = A.shape ∧
      ∀ i, InBounds A.shape i → (SpOrDense.dn R).get i = A.get i + c :=
  add_scalar_spec A hA c

/-- `S + D` for a dense `D` of the same shape (dense result). -/
theorem C03_add_dense [Ring α] [DecidableEq α] (A : Sparse α) (hA : A.WF) (D : Dense α) (hD : D.WF) (hs : A.shape = D.shape) :
    ∃ R, add A (.dense D) = .ok (.dn R) ∧ R.WF ∧ R.shape = A.shape ∧
      ∀ i, InBounds A.shape i → (SpOrDense.dn R).get i = A.get i + D.get i :=
  add_dense_spec A hA D hD hs

/-- `S + S2` (sparse result, well-formed: cancelling entries are not stored), at every position. -/
theorem C03_add_sparse [Ring α] [DecidableEq α] (A : Sparse α) (hA : A.WF) (B : Sparse α) (hB : B.WF) (hs : A.shape = B.shape) (hN : A.shape ≠ []) :
    ∃ R, add A (.sparse B) = .ok (.sp R) ∧ R.WF ∧ R.shape = A.shape ∧
      ∀ i, (SpOrDense.sp R).get i = A.get i + B.get i :=
  add_sparse_spec A B hA hB hs hN

/-- `S - c` (dense result): every cell, stored or not, is `S[i] - c`. -/
theorem C03_sub_scalar [Ring α] [DecidableEq α] (A : Sparse α) (hA : A.WF) (c : α) :
    ∃ R, sub A (.scalar c) = .ok (.dn R) ∧ R.WF ∧ R.shape = A.shape ∧
      ∀ i, InBounds A.shape i → (SpOrDense.dn R).get i = A.get i - c :=
  sub_scalar_spec A hA c

/-- `S - D` for a dense `D` of the same shape (dense result). -/
theorem C03_sub_dense [Ring α] [DecidableEq α] (A : Sparse α) (hA : A.WF) (D : Dense α) (hD : D.WF) (hs : A.shape = D.shape) :
    ∃ R, sub A (.dense D) = .ok (.dn R) ∧ R.WF ∧ R.shape = A.shape ∧
      ∀ i, InBounds A.shape i → (SpOrDense.dn R).get i = A.get i - D.get i :=
  sub_dense_spec A hA D hD hs

/-- `S - S2` (sparse result, well-formed: cancelling entries are not stored), at every position. -/
theorem C03_sub_sparse [Ring α] [DecidableEq α] (A : Sparse α) (hA : A.WF) (B : Sparse α) (hB : B.WF) (hs : A.shape = B.shape) (hN : A.shape ≠ []) :
    ∃ R, sub A (.sparse B) = .ok (.sp R) ∧ R.WF ∧ R.shape = A.shape ∧
      ∀ i, (SpOrDense.sp R).get i = A.get i - B.get i :=
  sub_sparse_spec A B hA hB hs hN

/-! ### `*` -/

/-- `S * c` and `c * S`: every entry times `c`; products equal to zero are not stored. -/
theorem C03_mul_scalar [Semiring α] [DecidableEq α] (A : Sparse α) (hA : A.WF) (c : α) :
    ∃ R, mul A (.scalar c) = .ok R ∧ R.WF ∧ R.shape = A.shape ∧ ∀ i, R.get i = A.get i * c :=
  mul_scalar_spec A hA c

/-- `S * D`: entry-wise product with a dense tensor of the same shape. -/
theorem C03_mul_dense [Semiring α] [DecidableEq α] (A : Sparse α) (hA : A.WF) (D : Dense α) (hs : A.shape = D.shape) :
    ∃ R, mul A (.dense D) = .ok R ∧ R.WF ∧ R.shape = A.shape ∧ ∀ i, R.get i = A.get i * D.get i :=
  mul_dense_spec A hA D hs

/-- `S * S2`: values are paired by SUBSCRIPT (whatever the stored orders of the two operands). -/
theorem C03_mul_sparse [Semiring α] [DecidableEq α] [NoZeroDivisors α] (A : Sparse α) (hA : A.WF) (B : Sparse α) (hB : B.WF) (hs : A.shape = B.shape) :
    ∃ R, mul A (.sparse B) = .ok R ∧ R.WF ∧ R.shape = A.shape ∧ ∀ i, R.get i = A.get i * B.get i :=
  mul_sparse_spec A B hA hB hs

/-- `S * K` for a Kruskal tensor `K` of the same shape: every stored value is multiplied by the
entry `Σ_r λ_r ∏ₙ Uₙ[iₙ, r]` of `K` at its subscript (the code accumulates it component by
component); products equal to zero are not stored. -/
theorem C03_mul_kruskal [CommSemiring α] [DecidableEq α] (A : Sparse α) (hA : A.WF) (K : Ktensor α)
    (hs : A.shape = K.shape) :
    ∃ R, mulK A K = .ok R ∧ R.WF ∧ R.shape = A.shape ∧ ∀ i, R.get i = A.get i * K.get i :=
  mulK_spec A hA K hs

/-! ### `/` over an abstract division; the facts used at zero are hypotheses -/

/-- `S / c`: every cell is `S[i] / c`; for `c = 0` the implicit zeros become `0/0 = nan` and are stored. -/
theorem C03_div_scalar [AddMonoid α] [Div α] [DecidableEq α] (nan : α) (A : Sparse α) (hA : A.WF) (c : α)
    (h00 : (0 : α) / 0 = nan) (h0c : c ≠ 0 → (0 : α) / c = 0) (hnan : nan ≠ 0) (hnz : ∀ x ∈ A.vals, x / c ≠ 0) :
    ∃ R, div nan A (.scalar c) = .ok R ∧ R.WF ∧ R.shape = A.shape ∧
      ∀ i, InBounds A.shape i → R.get i = A.get i / c :=
  div_scalar_spec nan A hA c h00 h0c hnan hnz

/-- `S / S2`: `x/y` where both are stored, `x/0` where only `S` is, `0/0 = nan` where neither is, and `0/y = 0` (not stored) where only `S2` is. -/
theorem C03_div_sparse [AddMonoid α] [Div α] [DecidableEq α] (nan : α) (A : Sparse α) (hA : A.WF) (B : Sparse α) (hB : B.WF) (hs : A.shape = B.shape)
    (h00 : (0 : α) / 0 = nan) (h0y : ∀ y ∈ B.vals, (0 : α) / y = 0) (hnan : nan ≠ 0)
    (hnz : ∀ x ∈ A.vals, ∀ y, (y ∈ B.vals ∨ y = 0) → x / y ≠ 0) :
    ∃ R, div nan A (.sparse B) = .ok R ∧ R.WF ∧ R.shape = A.shape ∧
      ∀ i, InBounds A.shape i → R.get i = A.get i / B.get i :=
  div_sparse_spec nan A B hA hB hs h00 h0y hnan hnz

/-- `S / D` for a dense `D`. -/
theorem C03_div_dense [AddMonoid α] [Div α] [DecidableEq α] (nan : α) (A : Sparse α) (hA : A.WF) (D : Dense α) (hD : D.WF) (hs : A.shape = D.shape)
    (h00 : (0 : α) / 0 = nan) (h0y : ∀ y ∈ D.data, y ≠ 0 → (0 : α) / y = 0) (hnan : nan ≠ 0)
    (hnz : ∀ x ∈ A.vals, ∀ y, (y ∈ D.data ∨ y = 0) → x / y ≠ 0) :
    ∃ R, div nan A (.dense D) = .ok R ∧ R.WF ∧ R.shape = A.shape ∧
      ∀ i, InBounds A.shape i → R.get i = A.get i / D.get i :=
  div_dense_spec nan A hA D hD hs h00 h0y hnan hnz

/-- `c / S` (dense result). -/
theorem C03_rdiv [AddMonoid α] [Div α] [DecidableEq α] (c : α) (A : Sparse α) (hA : A.WF) :
    (rdiv c A).WF ∧ (rdiv c A).shape = A.shape ∧ ∀ i, InBounds A.shape i → (rdiv c A).get i = c / A.get i :=
  rdiv_spec c A hA

/-- The hypotheses of the three division theorems hold for the extended rationals with IEEE
division whenever the stored values are finite and non-zero: `0/0 = nan`, `0/y = 0`,
`x/0 = ±inf` by the sign of `x`, `x/y ≠ 0`, `nan ≠ 0`. -/
theorem C03_xrat_division_facts :
    ((0 : XRat) / 0 = .nan) ∧ (∀ q : Rat, q ≠ 0 → (0 : XRat) / .fin q = 0) ∧
    (∀ q : Rat, q ≠ 0 → (.fin q : XRat) / 0 = if q < 0 then .ninf else .pinf) ∧
    (∀ p q : Rat, p ≠ 0 → (.fin p : XRat) / .fin q ≠ 0) ∧ (XRat.nan ≠ (0 : XRat)) :=
  ⟨XRat.zero_div_zero, XRat.zero_div_fin, XRat.fin_div_zero, XRat.fin_div_fin_ne_zero, XRat.nan_ne_zero⟩

/-- `S / S2` at the extended rationals, no hypothesis left: finite non-zero stored values. -/
theorem C03_div_sparse_xrat (A B : Sparse XRat) (hA : A.WF) (hB : B.WF) (hs : A.shape = B.shape)
    (hfa : ∀ x ∈ A.vals, ∃ q : Rat, x = .fin q) (hfb : ∀ y ∈ B.vals, ∃ q : Rat, y = .fin q) :
    ∃ R, div .nan A (.sparse B) = .ok R ∧ R.WF ∧ R.shape = A.shape ∧
      ∀ i, InBounds A.shape i → R.get i = A.get i / B.get i :=
  div_sparse_xrat A B hA hB hs hfa hfb

/-! ### `/` by a Kruskal tensor

A Kruskal divisor is outside the letter of C03 (scalar, dense and sparse right-hand sides).  The
documented semantics, ported from the MATLAB toolbox and used by `cp_apr`, are NOT the dense
quotient: the result has the stored pattern of `S` and every stored value is divided by
`max(eps, K[j])`.  They part from dense `/` in three places (noted, not judged):
(1) a stored cell with `K[j] < eps` (zero, tiny or NEGATIVE) holds `S[j]/eps`, dense `S[j]/K[j]`
(`±inf` for `K[j] = 0`); (2) a cell `S` does not store holds `0`, which is the dense `0/K[i]`
unless `K[i] = 0`, where dense `0/0` is `nan`; (3) an empty `S` raises. -/

/-- `S / K` for a non-empty `S` and a Kruskal tensor `K` of the same shape: the result is
well-formed, has the shape and exactly the stored subscripts of `S`, and denotes
`S[i] / max(eps, K[i])` at the stored subscripts of `S` and `0` at every other cell, where
`K[i] = Σ_r λ_r ∏ₙ Uₙ[iₙ, r]` (the code accumulates it component by component).  Division and
`max` are abstract; `hnz` (no quotient of a stored value is 0, needed for well-formedness only)
holds for finite values: `C03_div_kruskal_xrat`. -/
theorem C03_div_kruskal [CommSemiring α] [Div α] [Max α] [DecidableEq α] (eps : α) (A : Sparse α)
    (hA : A.WF) (K : Ktensor α) (hs : A.shape = K.shape) (hne : A.subs ≠ [])
    (hnz : ∀ j ∈ A.subs, A.get j / max eps (K.get j) ≠ 0) :
    ∃ R, divK eps A K = .ok R ∧ R.WF ∧ R.shape = A.shape ∧ R.subs = A.subs ∧
      ∀ i, R.get i = if i ∈ A.subs then A.get i / max eps (K.get i) else 0 :=
  divK_spec eps A hA K hs hne hnz

/-- The same at the extended rationals the driver executes the model at, with no hypothesis about
division or `max` left: finite stored values, a rational Kruskal tensor, `eps = 2⁻⁵²`. -/
theorem C03_div_kruskal_xrat (A : Sparse XRat) (hA : A.WF) (K : Ktensor Rat) (hs : A.shape = K.shape)
    (hne : A.subs ≠ []) (hfa : ∀ x ∈ A.vals, ∃ q : Rat, x = .fin q) :
    ∃ R, divK (.fin floatEps) A K.toX = .ok R ∧ R.WF ∧ R.shape = A.shape ∧ R.subs = A.subs ∧
      ∀ i, R.get i = if i ∈ A.subs then
        A.get i / .fin (if floatEps < K.get i then K.get i else floatEps) else 0 :=
  divK_xrat A hA K hs hne hfa

/-- When is that the dense quotient `S[i] / K[i]` at EVERY cell of the shape?  Exactly under the
two restrictions the code imposes: (`hfloor`) at the stored subscripts of `S` the floor is
inactive, `max(eps, K[j]) = K[j]`, i.e. `K[j] ≥ eps`; (`h0y`) at the cells `S` does not store
`0 / K[i] = 0`, i.e. `K[i] ≠ 0` there.  Outside them see `C03_div_kruskal_dense_counterexample`. -/
theorem C03_div_kruskal_dense [CommSemiring α] [Div α] [Max α] [DecidableEq α] (eps : α) (A : Sparse α)
    (hA : A.WF) (K : Ktensor α) (hs : A.shape = K.shape) (hne : A.subs ≠ [])
    (hfloor : ∀ j ∈ A.subs, max eps (K.get j) = K.get j)
    (h0y : ∀ i, InBounds A.shape i → i ∉ A.subs → (0 : α) / K.get i = 0)
    (hnz : ∀ j ∈ A.subs, A.get j / K.get j ≠ 0) :
    ∃ R, divK eps A K = .ok R ∧ R.WF ∧ R.shape = A.shape ∧
      ∀ i, InBounds A.shape i → R.get i = A.get i / K.get i :=
  divK_dense eps A hA K hs hne hfloor h0y hnz

/-- The documented semantics are not dense `/`: for `S = {(0): 2}` of shape `[2]` and the rank-1
`K = [-1, 0]` the code returns `{(0): 2/eps = 2⁵³}`; the dense quotient is `[2/(-1), 0/0] = [-2, nan]`. -/
theorem C03_div_kruskal_dense_counterexample :
    let A : Sparse XRat := ⟨[2], [[0]], [.fin 2]⟩
    let K : Ktensor Rat := ⟨[1], [[[-1], [0]]]⟩
    divK (.fin floatEps) A K.toX = .ok ⟨[2], [[0]], [.fin 9007199254740992]⟩ ∧
    A.get [0] / .fin (K.get [0]) = .fin (-2) ∧ A.get [1] / .fin (K.get [1]) = .nan := by
  decide +kernel

/-- `S / K` refuses a Kruskal tensor of another shape … -/
theorem C03_div_kruskal_rejects_shape [AddMonoid α] [Mul α] [One α] [Div α] [Max α] (eps : α) (A : Sparse α)
    (K : Ktensor α) (hs : A.shape ≠ K.shape) : divK eps A K = .error .reject :=
  divK_rejects_shape eps A K hs

/-- … and, as coded, an EMPTY sparse operand (there is no `nnz == 0` shortcut: `subs[:, n]` on the
`(1, 0)` subscript array raises IndexError; `*` has the shortcut). -/
theorem C03_div_kruskal_rejects_empty [AddMonoid α] [Mul α] [One α] [Div α] [Max α] (eps : α) (A : Sparse α)
    (K : Ktensor α) (he : A.subs = []) : divK eps A K = .error .reject :=
  divK_rejects_empty eps A K he

/-- `S * K` refuses a Kruskal tensor of another shape. -/
theorem C03_mul_kruskal_rejects_shape [Add α] [Mul α] [One α] [Zero α] [BEq α] [LawfulBEq α] (A : Sparse α)
    (K : Ktensor α) (hs : A.shape ≠ K.shape) : mulK A K = .error .reject := by
  unfold mulK
  have : (A.shape != K.shape) = true := by simpa using hs
  simp [this]

/-- `K * S` (ktensor.py hands the sparse operand back to `sptensor.__mul__`) is `S * K`. -/
theorem C03_rmul_kruskal [CommSemiring α] [DecidableEq α] (A : Sparse α) (hA : A.WF) (K : Ktensor α)
    (hs : A.shape = K.shape) :
    ∃ R, kmul K A = .ok R ∧ R.WF ∧ R.shape = A.shape ∧ ∀ i, R.get i = K.get i * A.get i := by
  obtain ⟨R, e, w, sh, g⟩ := mulK_spec A hA K hs
  exact ⟨R, e, w, sh, fun i => by rw [g i, mul_comm]⟩

/-- The reflected quotient `K / S` and every element-wise combination with a Tucker tensor
(`S * T`, `S / T`, `T * S`, `T / S`) do not exist: they are refused whatever the operands. -/
theorem C03_rdiv_kruskal_tucker_reject (A : Sparse α) (K : Ktensor α) (T : Ttensor α) :
    rdivK K A = .error .reject ∧ mulT A T = .error .reject ∧ divT A T = .error .reject ∧
    tmul T A = .error .reject ∧ rdivT T A = .error .reject :=
  ⟨rfl, rfl, rfl, rfl, rfl⟩

/-! ### logical operations -/

/-- `S.logical_and(c)`. -/
theorem C03_and_scalar [AddMonoid α] [One α] [DecidableEq α] (A : Sparse α) (hA : A.WF) (c : α) (h1 : (1 : α) ≠ 0) :
    ∃ R, logicalAnd A (.scalar c) = .ok R ∧ R.WF ∧ R.shape = A.shape ∧
      ∀ i, R.get i = if A.get i ≠ 0 ∧ c ≠ 0 then 1 else 0 :=
  and_scalar_spec A hA c h1

/-- `S.logical_and(S2)`. -/
theorem C03_and_sparse [AddMonoid α] [One α] [DecidableEq α] (A : Sparse α) (hA : A.WF) (B : Sparse α) (hB : B.WF) (hs : A.shape = B.shape) (hN : A.shape ≠ []) (hpos : ∀ e ∈ A.shape, 0 < e) (h1 : (1 : α) ≠ 0) :
    ∃ R, logicalAnd A (.sparse B) = .ok R ∧ R.WF ∧ R.shape = A.shape ∧
      ∀ i, R.get i = if A.get i ≠ 0 ∧ B.get i ≠ 0 then 1 else 0 :=
  and_sparse_spec A B hA hB hs hN hpos h1

/-- `S.logical_and(D)`: zeros of the dense operand count as false. -/
theorem C03_and_dense [AddMonoid α] [One α] [DecidableEq α] (A : Sparse α) (hA : A.WF) (D : Dense α) (hD : D.WF) (hs : A.shape = D.shape) (hN : A.shape ≠ []) (hpos : ∀ e ∈ A.shape, 0 < e) (h1 : (1 : α) ≠ 0) :
    ∃ R, logicalAnd A (.dense D) = .ok R ∧ R.WF ∧ R.shape = A.shape ∧
      ∀ i, InBounds A.shape i → R.get i = if A.get i ≠ 0 ∧ D.get i ≠ 0 then 1 else 0 :=
  and_dense_spec A hA D hD hs hN hpos h1

/-- `S.logical_or(c)` (dense result). -/
theorem C03_or_scalar [AddMonoid α] [One α] [DecidableEq α] (A : Sparse α) (hA : A.WF) (c : α) :
    ∃ R, logicalOr A (.scalar c) = .ok (.dn R) ∧ R.WF ∧ R.shape = A.shape ∧
      ∀ i, InBounds A.shape i → (SpOrDense.dn R).get i = if A.get i ≠ 0 ∨ c ≠ 0 then 1 else 0 :=
  or_scalar_spec A hA c

/-- `S.logical_or(D)` (dense result). -/
theorem C03_or_dense [AddMonoid α] [One α] [DecidableEq α] (A : Sparse α) (hA : A.WF) (D : Dense α) (hD : D.WF) (hs : A.shape = D.shape) :
    ∃ R, logicalOr A (.dense D) = .ok (.dn R) ∧ R.WF ∧ R.shape = A.shape ∧
      ∀ i, InBounds A.shape i → (SpOrDense.dn R).get i = if A.get i ≠ 0 ∨ D.get i ≠ 0 then 1 else 0 :=
  or_dense_spec A hA D hD hs

/-- `S.logical_or(S2)` (sparse result). -/
theorem C03_or_sparse [AddMonoid α] [One α] [DecidableEq α] (A : Sparse α) (hA : A.WF) (B : Sparse α) (hB : B.WF) (hs : A.shape = B.shape) (hN : A.shape ≠ []) (hpos : ∀ e ∈ A.shape, 0 < e) (h1 : (1 : α) ≠ 0) :
    ∃ R, logicalOr A (.sparse B) = .ok (.sp R) ∧ R.WF ∧ R.shape = A.shape ∧
      ∀ i, (SpOrDense.sp R).get i = if A.get i ≠ 0 ∨ B.get i ≠ 0 then 1 else 0 :=
  or_sparse_spec A B hA hB hs hN hpos h1

/-- `S.logical_xor(c)` (dense result). -/
theorem C03_xor_scalar [AddMonoid α] [One α] [DecidableEq α] (A : Sparse α) (hA : A.WF) (c : α) :
    ∃ R, logicalXor A (.scalar c) = .ok (.dn R) ∧ R.WF ∧ R.shape = A.shape ∧
      ∀ i, InBounds A.shape i → (SpOrDense.dn R).get i = if (A.get i ≠ 0) ≠ (c ≠ 0) then 1 else 0 :=
  xor_scalar_spec A hA c

/-- `S.logical_xor(D)` (dense result). -/
theorem C03_xor_dense [AddMonoid α] [One α] [DecidableEq α] (A : Sparse α) (hA : A.WF) (D : Dense α) (hD : D.WF) (hs : A.shape = D.shape) :
    ∃ R, logicalXor A (.dense D) = .ok (.dn R) ∧ R.WF ∧ R.shape = A.shape ∧
      ∀ i, InBounds A.shape i → (SpOrDense.dn R).get i = if (A.get i ≠ 0) ≠ (D.get i ≠ 0) then 1 else 0 :=
  xor_dense_spec A hA D hD hs

/-- `S.logical_xor(S2)` (sparse result). -/
theorem C03_xor_sparse [AddMonoid α] [One α] [DecidableEq α] (A : Sparse α) (hA : A.WF) (B : Sparse α) (hB : B.WF) (hs : A.shape = B.shape) (hN : A.shape ≠ []) (hpos : ∀ e ∈ A.shape, 0 < e) (h1 : (1 : α) ≠ 0) :
    ∃ R, logicalXor A (.sparse B) = .ok (.sp R) ∧ R.WF ∧ R.shape = A.shape ∧
      ∀ i, (SpOrDense.sp R).get i = if (A.get i ≠ 0) ≠ (B.get i ≠ 0) then 1 else 0 :=
  xor_sparse_spec A B hA hB hs hN hpos h1

/-! ### `==` and `!=` -/

/-- `S == c`: 1 exactly where the entry equals `c`; for `c = 0` that is every empty position. -/
theorem C03_eq_scalar [AddMonoid α] [One α] [DecidableEq α] (A : Sparse α) (hA : A.WF) (c : α) (h1 : (1 : α) ≠ 0) :
    ∃ R, SpElem.eq A (.scalar c) = .ok R ∧ R.WF ∧ R.shape = A.shape ∧
      ∀ i, InBounds A.shape i → R.get i = if A.get i = c then 1 else 0 :=
  eq_scalar_spec A hA c h1

/-- `S == S2`: positions where both are empty are marked, stored values are compared by subscript. -/
theorem C03_eq_sparse [AddMonoid α] [One α] [DecidableEq α] (A : Sparse α) (hA : A.WF) (B : Sparse α) (hB : B.WF) (hs : A.shape = B.shape) (h1 : (1 : α) ≠ 0) :
    ∃ R, SpElem.eq A (.sparse B) = .ok R ∧ R.WF ∧ R.shape = A.shape ∧
      ∀ i, InBounds A.shape i → R.get i = if A.get i = B.get i then 1 else 0 :=
  eq_sparse_spec A B hA hB hs h1

/-- `S == D`. -/
theorem C03_eq_dense [AddMonoid α] [One α] [DecidableEq α] (A : Sparse α) (hA : A.WF) (D : Dense α) (hD : D.WF) (hs : A.shape = D.shape) (h1 : (1 : α) ≠ 0) :
    ∃ R, SpElem.eq A (.dense D) = .ok R ∧ R.WF ∧ R.shape = A.shape ∧
      ∀ i, InBounds A.shape i → R.get i = if A.get i = D.get i then 1 else 0 :=
  eq_dense_spec A hA D hD hs h1

/-- `S != c`. -/
theorem C03_ne_scalar [AddMonoid α] [One α] [DecidableEq α] (A : Sparse α) (hA : A.WF) (c : α) (h1 : (1 : α) ≠ 0) :
    ∃ R, SpElem.ne A (.scalar c) = .ok R ∧ R.WF ∧ R.shape = A.shape ∧
      ∀ i, InBounds A.shape i → R.get i = if A.get i ≠ c then 1 else 0 :=
  ne_scalar_spec A hA c h1

/-- `S != S2`, at every position. -/
theorem C03_ne_sparse [AddMonoid α] [One α] [DecidableEq α] (A : Sparse α) (hA : A.WF) (B : Sparse α) (hB : B.WF) (hs : A.shape = B.shape) (h1 : (1 : α) ≠ 0) :
    ∃ R, SpElem.ne A (.sparse B) = .ok R ∧ R.WF ∧ R.shape = A.shape ∧
      ∀ i, R.get i = if A.get i ≠ B.get i then 1 else 0 :=
  ne_sparse_spec A B hA hB hs h1

/-- `S != D`. -/
theorem C03_ne_dense [AddMonoid α] [One α] [DecidableEq α] (A : Sparse α) (hA : A.WF) (D : Dense α) (hs : A.shape = D.shape) (h1 : (1 : α) ≠ 0) :
    ∃ R, SpElem.ne A (.dense D) = .ok R ∧ R.WF ∧ R.shape = A.shape ∧
      ∀ i, InBounds A.shape i → R.get i = if A.get i ≠ D.get i then 1 else 0 :=
  ne_dense_spec A hA D hs h1

/-! ### `<  <=  >  >=` over any linear order -/

/-- `S < c`: a comparison that holds for zero marks every empty position. -/
theorem C03_lt_scalar [AddMonoid α] [One α] [LinearOrder α] (A : Sparse α) (hA : A.WF) (c : α) (h1 : (1 : α) ≠ 0) :
    ∃ R, SpElem.lt A (.scalar c) = .ok R ∧ R.WF ∧ R.shape = A.shape ∧
      ∀ i, InBounds A.shape i → R.get i = if A.get i < c then 1 else 0 :=
  lt_scalar_spec A hA c h1

/-- `S < S2`. -/
theorem C03_lt_sparse [AddMonoid α] [One α] [LinearOrder α] (A : Sparse α) (hA : A.WF) (B : Sparse α) (hB : B.WF) (hs : A.shape = B.shape) (h1 : (1 : α) ≠ 0) :
    ∃ R, SpElem.lt A (.sparse B) = .ok R ∧ R.WF ∧ R.shape = A.shape ∧
      ∀ i, InBounds A.shape i → R.get i = if A.get i < B.get i then 1 else 0 :=
  lt_sparse_spec A B hA hB hs h1

/-- `S < D`. -/
theorem C03_lt_dense [AddMonoid α] [One α] [LinearOrder α] (A : Sparse α) (hA : A.WF) (D : Dense α) (hD : D.WF) (hs : A.shape = D.shape) (h1 : (1 : α) ≠ 0) :
    ∃ R, SpElem.lt A (.dense D) = .ok R ∧ R.WF ∧ R.shape = A.shape ∧
      ∀ i, InBounds A.shape i → R.get i = if A.get i < D.get i then 1 else 0 :=
  lt_dense_spec A hA D hD hs h1

/-- `S <= c`: a comparison that holds for zero marks every empty position. -/
theorem C03_le_scalar [AddMonoid α] [One α] [LinearOrder α] (A : Sparse α) (hA : A.WF) (c : α) (h1 : (1 : α) ≠ 0) :
    ∃ R, SpElem.le A (.scalar c) = .ok R ∧ R.WF ∧ R.shape = A.shape ∧
      ∀ i, InBounds A.shape i → R.get i = if A.get i ≤ c then 1 else 0 :=
  le_scalar_spec A hA c h1

/-- `S <= S2`. -/
theorem C03_le_sparse [AddMonoid α] [One α] [LinearOrder α] (A : Sparse α) (hA : A.WF) (B : Sparse α) (hB : B.WF) (hs : A.shape = B.shape) (h1 : (1 : α) ≠ 0) :
    ∃ R, SpElem.le A (.sparse B) = .ok R ∧ R.WF ∧ R.shape = A.shape ∧
      ∀ i, InBounds A.shape i → R.get i = if A.get i ≤ B.get i then 1 else 0 :=
  le_sparse_spec A B hA hB hs h1

/-- `S <= D`. -/
theorem C03_le_dense [AddMonoid α] [One α] [LinearOrder α] (A : Sparse α) (hA : A.WF) (D : Dense α) (hD : D.WF) (hs : A.shape = D.shape) (h1 : (1 : α) ≠ 0) :
    ∃ R, SpElem.le A (.dense D) = .ok R ∧ R.WF ∧ R.shape = A.shape ∧
      ∀ i, InBounds A.shape i → R.get i = if A.get i ≤ D.get i then 1 else 0 :=
  le_dense_spec A hA D hD hs h1

/-- `S > c`: a comparison that holds for zero marks every empty position. -/
theorem C03_gt_scalar [AddMonoid α] [One α] [LinearOrder α] (A : Sparse α) (hA : A.WF) (c : α) (h1 : (1 : α) ≠ 0) :
    ∃ R, SpElem.gt A (.scalar c) = .ok R ∧ R.WF ∧ R.shape = A.shape ∧
      ∀ i, InBounds A.shape i → R.get i = if c < A.get i then 1 else 0 :=
  gt_scalar_spec A hA c h1

/-- `S > S2`. -/
theorem C03_gt_sparse [AddMonoid α] [One α] [LinearOrder α] (A : Sparse α) (hA : A.WF) (B : Sparse α) (hB : B.WF) (hs : A.shape = B.shape) (h1 : (1 : α) ≠ 0) :
    ∃ R, SpElem.gt A (.sparse B) = .ok R ∧ R.WF ∧ R.shape = A.shape ∧
      ∀ i, InBounds A.shape i → R.get i = if B.get i < A.get i then 1 else 0 :=
  gt_sparse_spec A B hA hB hs h1

/-- `S > D`. -/
theorem C03_gt_dense [AddMonoid α] [One α] [LinearOrder α] (A : Sparse α) (hA : A.WF) (D : Dense α) (hD : D.WF) (hs : A.shape = D.shape) (h1 : (1 : α) ≠ 0) :
    ∃ R, SpElem.gt A (.dense D) = .ok R ∧ R.WF ∧ R.shape = A.shape ∧
      ∀ i, InBounds A.shape i → R.get i = if D.get i < A.get i then 1 else 0 :=
  gt_dense_spec A hA D hD hs h1

/-- `S >= c`: a comparison that holds for zero marks every empty position. -/
theorem C03_ge_scalar [AddMonoid α] [One α] [LinearOrder α] (A : Sparse α) (hA : A.WF) (c : α) (h1 : (1 : α) ≠ 0) :
    ∃ R, SpElem.ge A (.scalar c) = .ok R ∧ R.WF ∧ R.shape = A.shape ∧
      ∀ i, InBounds A.shape i → R.get i = if c ≤ A.get i then 1 else 0 :=
  ge_scalar_spec A hA c h1

/-- `S >= S2`. -/
theorem C03_ge_sparse [AddMonoid α] [One α] [LinearOrder α] (A : Sparse α) (hA : A.WF) (B : Sparse α) (hB : B.WF) (hs : A.shape = B.shape) (h1 : (1 : α) ≠ 0) :
    ∃ R, SpElem.ge A (.sparse B) = .ok R ∧ R.WF ∧ R.shape = A.shape ∧
      ∀ i, InBounds A.shape i → R.get i = if B.get i ≤ A.get i then 1 else 0 :=
  ge_sparse_spec A B hA hB hs h1

/-- `S >= D`. -/
theorem C03_ge_dense [AddMonoid α] [One α] [LinearOrder α] (A : Sparse α) (hA : A.WF) (D : Dense α) (hD : D.WF) (hs : A.shape = D.shape) (h1 : (1 : α) ≠ 0) :
    ∃ R, SpElem.ge A (.dense D) = .ok R ∧ R.WF ∧ R.shape = A.shape ∧
      ∀ i, InBounds A.shape i → R.get i = if D.get i ≤ A.get i then 1 else 0 :=
  ge_dense_spec A hA D hD hs h1

/-! ### sparse results are well-formed: one value per stored subscript, subscripts inside the shape and
pairwise distinct, no stored zero (also part of every theorem above) -/

/-- the sparse result of `add` is well-formed and has the operands' shape. -/
theorem C03_result_wf_add [Ring α] [DecidableEq α] (A B : Sparse α) (hA : A.WF) (hB : B.WF) (hs : A.shape = B.shape) (hN : A.shape ≠ []) :
    ∃ R, add A (.sparse B) = .ok (.sp R) ∧ R.WF ∧ R.shape = A.shape := by
  obtain ⟨R, e, w, sh, _⟩ := add_sparse_spec A B hA hB hs hN
  exact ⟨R, e, w, sh⟩

/-- the sparse result of `sub` is well-formed and has the operands' shape. -/
theorem C03_result_wf_sub [Ring α] [DecidableEq α] (A B : Sparse α) (hA : A.WF) (hB : B.WF) (hs : A.shape = B.shape) (hN : A.shape ≠ []) :
    ∃ R, sub A (.sparse B) = .ok (.sp R) ∧ R.WF ∧ R.shape = A.shape := by
  obtain ⟨R, e, w, sh, _⟩ := sub_sparse_spec A B hA hB hs hN
  exact ⟨R, e, w, sh⟩

/-- the sparse result of `mul` is well-formed and has the operands' shape. -/
theorem C03_result_wf_mul [Semiring α] [NoZeroDivisors α] [DecidableEq α] (A B : Sparse α) (hA : A.WF) (hB : B.WF) (hs : A.shape = B.shape) :
    ∃ R, mul A (.sparse B) = .ok R ∧ R.WF ∧ R.shape = A.shape := by
  obtain ⟨R, e, w, sh, _⟩ := mul_sparse_spec A B hA hB hs
  exact ⟨R, e, w, sh⟩

/-- the sparse result of `and` is well-formed and has the operands' shape. -/
theorem C03_result_wf_and [AddMonoid α] [One α] [DecidableEq α] (A B : Sparse α) (hA : A.WF) (hB : B.WF) (hs : A.shape = B.shape) (hN : A.shape ≠ []) (hpos : ∀ e ∈ A.shape, 0 < e) (h1 : (1 : α) ≠ 0) :
    ∃ R, logicalAnd A (.sparse B) = .ok R ∧ R.WF ∧ R.shape = A.shape := by
  obtain ⟨R, e, w, sh, _⟩ := and_sparse_spec A B hA hB hs hN hpos h1
  exact ⟨R, e, w, sh⟩

/-- the sparse result of `or` is well-formed and has the operands' shape. -/
theorem C03_result_wf_or [AddMonoid α] [One α] [DecidableEq α] (A B : Sparse α) (hA : A.WF) (hB : B.WF) (hs : A.shape = B.shape) (hN : A.shape ≠ []) (hpos : ∀ e ∈ A.shape, 0 < e) (h1 : (1 : α) ≠ 0) :
    ∃ R, logicalOr A (.sparse B) = .ok (.sp R) ∧ R.WF ∧ R.shape = A.shape := by
  obtain ⟨R, e, w, sh, _⟩ := or_sparse_spec A B hA hB hs hN hpos h1
  exact ⟨R, e, w, sh⟩

/-- the sparse result of `xor` is well-formed and has the operands' shape. -/
theorem C03_result_wf_xor [AddMonoid α] [One α] [DecidableEq α] (A B : Sparse α) (hA : A.WF) (hB : B.WF) (hs : A.shape = B.shape) (hN : A.shape ≠ []) (hpos : ∀ e ∈ A.shape, 0 < e) (h1 : (1 : α) ≠ 0) :
    ∃ R, logicalXor A (.sparse B) = .ok (.sp R) ∧ R.WF ∧ R.shape = A.shape := by
  obtain ⟨R, e, w, sh, _⟩ := xor_sparse_spec A B hA hB hs hN hpos h1
  exact ⟨R, e, w, sh⟩

/-- the sparse result of `eq` is well-formed and has the operands' shape. -/
theorem C03_result_wf_eq [AddMonoid α] [One α] [DecidableEq α] (A B : Sparse α) (hA : A.WF) (hB : B.WF) (hs : A.shape = B.shape) (h1 : (1 : α) ≠ 0) :
    ∃ R, SpElem.eq A (.sparse B) = .ok R ∧ R.WF ∧ R.shape = A.shape := by
  obtain ⟨R, e, w, sh, _⟩ := eq_sparse_spec A B hA hB hs h1
  exact ⟨R, e, w, sh⟩

/-- the sparse result of `ne` is well-formed and has the operands' shape. -/
theorem C03_result_wf_ne [AddMonoid α] [One α] [DecidableEq α] (A B : Sparse α) (hA : A.WF) (hB : B.WF) (hs : A.shape = B.shape) (h1 : (1 : α) ≠ 0) :
    ∃ R, SpElem.ne A (.sparse B) = .ok R ∧ R.WF ∧ R.shape = A.shape := by
  obtain ⟨R, e, w, sh, _⟩ := ne_sparse_spec A B hA hB hs h1
  exact ⟨R, e, w, sh⟩

/-- the sparse result of `lt` is well-formed and has the operands' shape. -/
theorem C03_result_wf_lt [AddMonoid α] [One α] [LinearOrder α] (A B : Sparse α) (hA : A.WF) (hB : B.WF) (hs : A.shape = B.shape) (h1 : (1 : α) ≠ 0) :
    ∃ R, SpElem.lt A (.sparse B) = .ok R ∧ R.WF ∧ R.shape = A.shape := by
  obtain ⟨R, e, w, sh, _⟩ := lt_sparse_spec A B hA hB hs h1
  exact ⟨R, e, w, sh⟩

/-- the sparse result of `le` is well-formed and has the operands' shape. -/
theorem C03_result_wf_le [AddMonoid α] [One α] [LinearOrder α] (A B : Sparse α) (hA : A.WF) (hB : B.WF) (hs : A.shape = B.shape) (h1 : (1 : α) ≠ 0) :
    ∃ R, SpElem.le A (.sparse B) = .ok R ∧ R.WF ∧ R.shape = A.shape := by
  obtain ⟨R, e, w, sh, _⟩ := le_sparse_spec A B hA hB hs h1
  exact ⟨R, e, w, sh⟩

/-- the sparse result of `gt` is well-formed and has the operands' shape. -/
theorem C03_result_wf_gt [AddMonoid α] [One α] [LinearOrder α] (A B : Sparse α) (hA : A.WF) (hB : B.WF) (hs : A.shape = B.shape) (h1 : (1 : α) ≠ 0) :
    ∃ R, SpElem.gt A (.sparse B) = .ok R ∧ R.WF ∧ R.shape = A.shape := by
  obtain ⟨R, e, w, sh, _⟩ := gt_sparse_spec A B hA hB hs h1
  exact ⟨R, e, w, sh⟩

/-- the sparse result of `ge` is well-formed and has the operands' shape. -/
theorem C03_result_wf_ge [AddMonoid α] [One α] [LinearOrder α] (A B : Sparse α) (hA : A.WF) (hB : B.WF) (hs : A.shape = B.shape) (h1 : (1 : α) ≠ 0) :
    ∃ R, SpElem.ge A (.sparse B) = .ok R ∧ R.WF ∧ R.shape = A.shape := by
  obtain ⟨R, e, w, sh, _⟩ := ge_sparse_spec A B hA hB hs h1
  exact ⟨R, e, w, sh⟩

/-- the sparse result of `/` at the extended rationals is well-formed: the stored `nan` and
`±inf` are not zeros, and `0/y = 0` is not stored. -/
theorem C03_result_wf_div (A B : Sparse XRat) (hA : A.WF) (hB : B.WF) (hs : A.shape = B.shape)
    (hfa : ∀ x ∈ A.vals, ∃ q : Rat, x = .fin q) (hfb : ∀ y ∈ B.vals, ∃ q : Rat, y = .fin q) :
    ∃ R, div .nan A (.sparse B) = .ok R ∧ R.WF ∧ R.shape = A.shape := by
  obtain ⟨R, e, w, sh, _⟩ := div_sparse_xrat A B hA hB hs hfa hfb
  exact ⟨R, e, w, sh⟩

/-! ### look-ups -/

/-- `S.extract(q)` returns the entries at the requested subscripts (0 where nothing is stored). -/
theorem C03_extract [AddMonoid α] [DecidableEq α] (S : Sparse α) (hS : S.WF) (q : List (List Nat))
    (hq : ∀ r ∈ q, InBounds S.shape r) : extract S q = .ok (q.map S.get) :=
  extract_eq S hS q hq

/-- … and refuses a subscript outside the shape. -/
theorem C03_extract_rejects [AddMonoid α] [One α] [DecidableEq α] (S : Sparse α) (q : List (List Nat))
    (r : List Nat) (hr : r ∈ q) (hbad : ¬ InBounds S.shape r) : extract S q = .error .reject :=
  extract_rejects S q r hr hbad

/-- `X.mask(W)`: one value per stored subscript of `W`, in `W`'s stored order, each the entry
of `X` there. -/
theorem C03_mask [AddMonoid α] [One α] [DecidableEq α] (X W : Sparse α) (hX : X.WF)
    (hl : W.shape.length = X.shape.length) (hle : ∀ p ∈ W.shape.zip X.shape, p.1 ≤ p.2) :
    mask X W = .ok (W.subs.map X.get) :=
  mask_spec X W hX hl hle

/-- … and a mask with another number of modes or a larger extent is refused. -/
theorem C03_mask_rejects [AddMonoid α] [One α] [DecidableEq α] (X W : Sparse α)
    (h : W.shape.length ≠ X.shape.length ∨ ∃ p ∈ W.shape.zip X.shape, p.1 > p.2) :
    mask X W = .error .reject :=
  mask_rejects X W h

/-! ### the pinned code: values paired by position after two independently ordered look-ups -/

/-- The multiplication as coded before the fix (values of the two operands paired by position
after two `tt_intersect_rows` calls) gives 21 and 10 on the witness of DESIGN 8.1 where the
products are 15 and 14; the model of the repaired code gives 14 and 15. -/
theorem C03_mul_pinned_counterexample :
    let A : Sparse Int := ⟨[2, 2], [[0, 0], [1, 1]], [2, 3]⟩
    let B : Sparse Int := ⟨[2, 2], [[1, 1], [0, 0]], [5, 7]⟩
    let iA := intersectRows (toRows A.subs) (toRows B.subs)
    let iB := intersectRows (toRows B.subs) (toRows A.subs)
    (List.zipWith (· * ·) (iA.map fun k => A.vals.getD k 0) (iB.map fun k => B.vals.getD k 0) = [21, 10]) ∧
    rowsAt A.subs iA = [[1, 1], [0, 0]] ∧
    mul A (.sparse B) = .ok ⟨[2, 2], [[0, 0], [1, 1]], [14, 15]⟩ := by decide

/-! ### the statements are about something -/

example : mul (⟨[2, 2], [[0, 0], [1, 1], [0, 1]], [2, 3, 4]⟩ : Sparse Int)
    (.sparse ⟨[2, 2], [[1, 1], [1, 0], [0, 0]], [5, 6, 7]⟩) = .ok ⟨[2, 2], [[0, 0], [1, 1]], [14, 15]⟩ := by decide
example : SpElem.eq (⟨[3], [[1], [2]], [-2, 5]⟩ : Sparse Int) (.scalar 5)
    = .ok ⟨[3], [[2]], [1]⟩ := by decide
example : div XRat.nan (⟨[2], [[0]], [.fin 2]⟩ : Sparse XRat) (.scalar 0)
    = .ok ⟨[2], [[0], [1]], [.pinf, .nan]⟩ := by decide +kernel
example : divK (.fin floatEps) (⟨[2, 1, 2], [[1, 0, 1], [0, 0, 0]], [.fin 6, .fin (-3)]⟩ : Sparse XRat)
    (⟨[2, -1], [[[1, 1], [2, 0]], [[1, 3]], [[1, 1], [2, 1]]]⟩ : Ktensor Rat).toX
    = .ok ⟨[2, 1, 2], [[1, 0, 1], [0, 0, 0]], [.fin (3 / 4), .fin (-13510798882111488)]⟩ := by decide +kernel
example : (⟨[2, 1, 2], [[1, 0, 1], [0, 0, 0]], [.fin 6, .fin (-3)]⟩ : Sparse XRat).WF :=
  ⟨rfl, by decide, by decide, by decide +kernel⟩
example : (⟨[2, 2], [[0, 0], [1, 1]], [2, 3]⟩ : Sparse Int).WF := ⟨rfl, by decide, by decide, by decide⟩

end Pyttb
