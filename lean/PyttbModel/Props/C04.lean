/-
C04 — entry reads and writes behave like an F-ordered mutable array over any history.

Specification: `Spec/MutArray.lean` (`MArr`: shape + cell function; `write` grows the
shape to cover the key, zero filled, then assigns the addressed cells in order; `read`
returns the addressed cells).  Models: `Ops/Index.lean` (tensor), `Ops/IndexSparse.lean`
(sptensor), histories in `Ops/IndexRun.lean`.  Proofs: `Lemmas/MutArray*.lean`.

STATEMENT: for every history `ops` of ACCEPTED operations, every dense `T` / sparse `S`
related to an abstract array `m` (`DRel T m`, `SRel S m`):
    DRel (T.run ops).1 (m.run ops).1 ∧ (T.run ops).2 = (m.run ops).2      (dense)
    SRel (S.run ops).1 (m.run ops).1 ∧ (S.run ops).2 = (m.run ops).2      (sparse)
"Accepted" is the decidable predicate `IdxOp.acceptedAt s op` (dense) /
`IdxOp.acceptedAtSparse s op` (sparse) on the operation and the current shape `s`
(`AcceptedHist`, `AcceptedHistS` along a history).  It is the property's domain: every key
form and right-hand side of the property that the class supports, minus the recorded
known findings.  In detail it contains
  * both classes: subscript arrays (any right-hand side; growth of extents and order;
    repeated rows, the last value wins; zeros); linear keys (integer, slice, index array);
    region keys of integers and slices (all slice forms; negative integers; growth of
    extents and order) written with a scalar, zero, or a tensor of exactly the region's
    shape (paired first-index-fastest), and read;
  * dense in addition: NumPy-array right-hand sides of the region's shape; an open slice
    on a new mode; region keys with ONE index list (also with repeated entries, also
    growing extents and order) in every position where NumPy's advanced indexing gives the
    rectangular region: the list preceded by integers only (anything but a second list may
    follow), or preceded by slices and integers with every integer of the key next to the
    list - written with a scalar / array / tensor, and read when the class returns a tensor
    (a slice, or a list of two or more entries, is present);
  * sparse in addition: index lists in region keys (writes with scalar / zero, also with
    repeated entries; writes with a sparse tensor and reads with duplicate-free lists).
and it leaves out, for these stated reasons,
  * KNOWN FINDINGS: exactly the two forms of K04-dense-region-lists-numpy-advanced - a dense
    region key with two or more index lists (NumPy pairs them element by element, or
    refuses lists of different lengths; a one-entry list is dropped from the result's shape),
    and a dense region key whose list has a slice in front of it and an integer separated
    from it by a slice (NumPy moves the list's mode to the front); sparse region reads whose
    index list repeats an entry (K04-sparse-read-repeated-list-entry);
  * NOT SUPPORTED by the class (the code raises; nothing to refine): sparse linear-index
    writes other than on a 1-way tensor with an in-range non-negative integer or a non-empty
    slice; NumPy-array right-hand sides of sparse region writes; a NEW mode of a sparse
    tensor addressed by an open slice with a scalar; sparse reads whose result would have a
    zero extent;
  * OUTSIDE THE PROPERTY'S DOMAIN (the specification rejects, the code does something else):
    right-hand sides that only fit after NumPy broadcasting (arrays of another shape, a
    vector for a region) and an empty array; linear keys on the order-0 tensor and the empty
    key `()`; a dense read with an empty index list (zero-extent result) or with a one-entry
    list and otherwise integers only (the class returns the scalar, the specification the
    1-element tensor - compared "up to singleton modes" by the harness); a new sparse mode created by a slice with stop ≤ 0; sparse reads with an
    integer outside `-extent .. extent-1` (the class returns 0 instead of raising), with an
    index list that is out of range, or a linear integer below `-cells` (wraps twice); a
    sparse-tensor right-hand side of another shape than the region, or with a repeated index
    in a list of the key.
These left-out forms are exercised by the correspondence harness (implementation = model =
oracle on every step), not by the theorems.

THE STEP IN FRONT OF THE OPERATION MODELS (`Ops/IndexForms.lean`): the operation models start
from a classified `Key`; which Python OBJECT spells the key is decided by `get_index_variant`
and the dispatch at the top of `__setitem__`.  `C04_dispatch_documented`,
`C04_dense_setitem_documented_form`, `C04_sparse_setitem_documented_form`: every documented
spelling of a key (`Key.forms`: Python int or NumPy integer scalar; slice; 1-d array or
non-empty list of Python ints, also of one element; 2-d array; tuple) reaches the operation
model of that key, so the history theorems hold whichever documented spelling is used;
`C04_dispatch_unrecognised_iff`, `C04_dense_setitem_unrecognised_refused`,
`C04_sparse_setitem_unrecognised_refused`: a key object the dispatcher does not recognise is
refused, never ignored.  `C04_extract`, `C04_extract_refuses`: `sptensor.extract` called
directly, with a `p × n` array or with one full subscript as a 1-d vector, returns the cells of
the specification.  NOT modelled: the separate `isinstance` chains at the top of the two
`__getitem__` methods (the harness runs every spelling through them), and what NumPy does with
an undocumented spelling that the dispatcher lets through (a float array, a `range`).
-/
import PyttbModel.Lemmas.MutArrayCor
import PyttbModel.Lemmas.MutArrayForms
import Mathlib.Algebra.Group.Int.Defs
namespace Pyttb

variable {α : Type}

/-! ### dense class -/

/-- One operation (accepted, see the header) on a dense tensor related to an abstract array: the
model returns the same output as the specification — the value read, "written", or
"rejected" — and the states afterwards are related again (same shape, same cells). -/
theorem C04_dense_step [Zero α] {T : Dense α} {m : MArr α} (h : DRel T m) (op : IdxOp α)
    (hp : op.acceptedAt T.shape = true) :
    DRel (T.step op).1 (m.step op).1 ∧ (T.step op).2 = (m.step op).2 :=
  Dense.step_refines h op hp

/-- Any history (of accepted operations), from any start: running `tensor.__setitem__` /
`__getitem__` step by step gives, at every step, the output of the mutable-array
specification and a tensor that represents the specification's state. -/
theorem C04_dense_history [Zero α] {T : Dense α} {m : MArr α} (h : DRel T m) (ops : List (IdxOp α))
    (hp : AcceptedHist m ops) :
    DRel (T.run ops).1 (m.run ops).1 ∧ (T.run ops).2 = (m.run ops).2 :=
  Dense.run_refines h ops hp

/-- Every well-formed dense tensor is related to the abstract array it tabulates, so the
history theorem applies from any start. -/
theorem C04_dense_start [Zero α] (T : Dense α) (hT : T.WF) : DRel T (MArr.ofDense T) := DRel.ofDense T hT

/-! ### sparse class -/

/-- One operation (accepted, see the header) on a sparse tensor related to an abstract array: same
output as the specification, and the stored tensor afterwards is again well formed and
denotes the specification's state. -/
theorem C04_sparse_step [AddMonoid α] [DecidableEq α] {S : Sparse α} {m : MArr α} (h : SRel S m)
    (op : IdxOp α) (hp : op.acceptedAtSparse S.shape = true) :
    SRel (S.step op).1 (m.step op).1 ∧ (S.step op).2 = (m.step op).2 :=
  Sparse.step_refines h op hp

/-- A write (accepted, see the header) keeps a sparse tensor well formed — equal lengths,
subscripts inside the shape, no repeated subscript, no stored zero — and a cell that is
zero afterwards (in particular one that was just assigned zero) has no stored entry. -/
theorem C04_sparse_step_wf [AddMonoid α] [DecidableEq α] {S : Sparse α} (hS : S.WF) (key : Key)
    (rhs : Rhs α) (hp : (IdxOp.write key rhs).acceptedAtSparse S.shape = true) (S' : Sparse α)
    (hw : S.setItem key rhs = .ok S') :
    S'.WF ∧ ∀ i, S'.get i = 0 → i ∉ S'.subs := by
  have hr := Sparse.setItem_refines (SRel.ofSparse S hS) key rhs hp
  rw [hw] at hr
  cases h2 : (⟨S.shape, S.get⟩ : MArr α).write key rhs with
  | error e => rw [h2] at hr; exact absurd hr (by simp [RefWS])
  | ok m' =>
    rw [h2] at hr
    have hr' : SRel S' m' := hr
    exact ⟨hr'.wf, fun i h0 hi => Sparse.get_ne_zero_of_mem hr'.wf hi h0⟩

/-- Any history (of accepted operations) on a sparse tensor: every step returns the
specification's output and the tensor stays well formed and denotes the specification's
state. -/
theorem C04_sparse_history [AddMonoid α] [DecidableEq α] {S : Sparse α} {m : MArr α} (h : SRel S m)
    (ops : List (IdxOp α)) (hp : AcceptedHistS m ops) :
    SRel (S.run ops).1 (m.run ops).1 ∧ (S.run ops).2 = (m.run ops).2 :=
  Sparse.run_refines h ops hp

/-- Any history of accepted operations keeps the sparse representation well formed: from a
well-formed start, after every prefix of the history the stored tensor has equal lengths,
subscripts inside the shape, no repeated subscript and no stored zero. -/
theorem C04_sparse_history_wf [AddMonoid α] [DecidableEq α] (S : Sparse α) (hS : S.WF) (ops : List (IdxOp α))
    (hp : AcceptedHistS (⟨S.shape, S.get⟩ : MArr α) ops) (k : Nat) :
    (S.run (ops.take k)).1.WF :=
  Sparse.run_wf_prefix (SRel.ofSparse S hS) ops hp k

/-- Every well-formed sparse tensor is related to the abstract array of its cells. -/
theorem C04_sparse_start [AddMonoid α] [DecidableEq α] (S : Sparse α) (hS : S.WF) :
    SRel S ⟨S.shape, S.get⟩ := SRel.ofSparse S hS

/-! ### what a write does to each cell (both classes) -/

/-- Last write wins: after an accepted write (accepted, see the header) every cell the key addresses
holds the LAST value the write assigns to it (a repeated position takes its last value);
the new shape and the assignments are the ones the specification derives from the key. -/
theorem C04_last_write_wins [AddMonoid α] [DecidableEq α] {T : Dense α} {S : Sparse α} {m : MArr α}
    (hT : DRel T m) (hS : SRel S m) (key : Key) (rhs : Rhs α)
    (hpT : (IdxOp.write key rhs).acceptedAt T.shape = true)
    (hpS : (IdxOp.write key rhs).acceptedAtSparse S.shape = true)
    (T' : Dense α) (S' : Sparse α) (hwT : T.setItem key rhs = .ok T') (hwS : S.setItem key rhs = .ok S') :
    ∃ s' asg, MArr.resolveWrite m.shape key rhs = .ok (s', asg) ∧ T'.shape = s' ∧ S'.shape = s' ∧
      ∀ i ∈ asg.map (·.1), T'.get i = kvLast asg i ∧ S'.get i = kvLast asg i := by
  have h1 := Dense.setItem_refines hT key rhs hpT
  have h2 := Sparse.setItem_refines hS key rhs hpS
  rw [hwT] at h1
  rw [hwS] at h2
  cases hm : m.write key rhs with
  | error e => rw [hm] at h1; exact absurd h1 (by simp [RefW])
  | ok m' =>
    rw [hm] at h1 h2
    have h1' : DRel T' m' := h1
    have h2' : SRel S' m' := h2
    obtain ⟨s', asg, hr, hs, hin, hget⟩ := MArr.write_get m key rhs m' hm
    refine ⟨s', asg, hr, by rw [h1'.shape, hs], by rw [h2'.shape, hs], ?_⟩
    intro i hi
    obtain ⟨p, hp, rfl⟩ := List.mem_map.1 hi
    have hb := hin p hp
    have := hget p.1 hb
    rw [if_pos hi] at this
    exact ⟨by rw [h1'.cell p.1 (by rw [h1'.shape, hs]; exact hb), this], by rw [h2'.cell p.1, this]⟩

/-- Frame: a cell the key does not address keeps its value — the cell `j ++ [0, …, 0]` of the
result is the old cell `j` (when the order grew, old cells are found under the subscript
padded with zeros). -/
theorem C04_frame [AddMonoid α] [DecidableEq α] {T : Dense α} {S : Sparse α} {m : MArr α}
    (hT : DRel T m) (hS : SRel S m) (key : Key) (rhs : Rhs α)
    (hpT : (IdxOp.write key rhs).acceptedAt T.shape = true)
    (hpS : (IdxOp.write key rhs).acceptedAtSparse S.shape = true)
    (T' : Dense α) (S' : Sparse α) (hwT : T.setItem key rhs = .ok T') (hwS : S.setItem key rhs = .ok S')
    (s' : List Nat) (asg : List (List Nat × α)) (hr : MArr.resolveWrite m.shape key rhs = .ok (s', asg))
    (i : List Nat) (hi : InBounds s' i) (hnot : i ∉ asg.map (·.1))
    (hold : (i.drop m.shape.length).all (· == 0) = true) :
    T'.get i = m.get (i.take m.shape.length) ∧ S'.get i = m.get (i.take m.shape.length) := by
  have h1 := Dense.setItem_refines hT key rhs hpT
  have h2 := Sparse.setItem_refines hS key rhs hpS
  rw [hwT] at h1
  rw [hwS] at h2
  cases hm : m.write key rhs with
  | error e => rw [hm] at h1; exact absurd h1 (by simp [RefW])
  | ok m' =>
    rw [hm] at h1 h2
    have h1' : DRel T' m' := h1
    have h2' : SRel S' m' := h2
    obtain ⟨s'', asg', hr', hs, _, hget⟩ := MArr.write_get m key rhs m' hm
    rw [hr] at hr'
    cases hr'
    have := hget i hi
    rw [if_neg hnot, if_pos hold] at this
    exact ⟨by rw [h1'.cell i (by rw [h1'.shape, hs]; exact hi), this], by rw [h2'.cell i, this]⟩

/-- Growth is zero filled: a cell of the enlarged tensor that the key does not address and
that is not an old cell (some coordinate in a new mode is non-zero) is zero; and a cell whose
old counterpart lies outside the old shape reads the specification's zero. -/
theorem C04_growth_zero_filled [AddMonoid α] [DecidableEq α] {T : Dense α} {S : Sparse α} {m : MArr α}
    (hT : DRel T m) (hS : SRel S m) (key : Key) (rhs : Rhs α)
    (hpT : (IdxOp.write key rhs).acceptedAt T.shape = true)
    (hpS : (IdxOp.write key rhs).acceptedAtSparse S.shape = true)
    (T' : Dense α) (S' : Sparse α) (hwT : T.setItem key rhs = .ok T') (hwS : S.setItem key rhs = .ok S')
    (s' : List Nat) (asg : List (List Nat × α)) (hr : MArr.resolveWrite m.shape key rhs = .ok (s', asg))
    (i : List Nat) (hi : InBounds s' i) (hnot : i ∉ asg.map (·.1))
    (hnew : (i.drop m.shape.length).all (· == 0) = false ∨ ¬ InBounds m.shape (i.take m.shape.length)) :
    T'.get i = 0 ∧ S'.get i = 0 := by
  have h1 := Dense.setItem_refines hT key rhs hpT
  have h2 := Sparse.setItem_refines hS key rhs hpS
  rw [hwT] at h1
  rw [hwS] at h2
  cases hm : m.write key rhs with
  | error e => rw [hm] at h1; exact absurd h1 (by simp [RefW])
  | ok m' =>
    rw [hm] at h1 h2
    have h1' : DRel T' m' := h1
    have h2' : SRel S' m' := h2
    obtain ⟨s'', asg', hr', hs, _, hget⟩ := MArr.write_get m key rhs m' hm
    rw [hr] at hr'
    cases hr'
    have := hget i hi
    rw [if_neg hnot] at this
    have hz : m'.get i = 0 := by
      rw [this]
      rcases hnew with h0 | h0
      · simp [h0]
      · split
        · exact MArr.get_of_not_inBounds m h0
        · rfl
    exact ⟨by rw [h1'.cell i (by rw [h1'.shape, hs]; exact hi), hz], by rw [h2'.cell i, hz]⟩

/-- A dense and a sparse tensor that represent the same array and are driven by the same
history (of operations accepted by both classes) return the same outputs at every step and
represent the same array afterwards: same shape, same cells. -/
theorem C04_dense_sparse_agree [AddMonoid α] [DecidableEq α] {T : Dense α} {S : Sparse α} {m : MArr α}
    (hT : DRel T m) (hS : SRel S m) (ops : List (IdxOp α)) (hpT : AcceptedHist m ops) (hpS : AcceptedHistS m ops) :
    (T.run ops).2 = (S.run ops).2 ∧ (T.run ops).1.shape = (S.run ops).1.shape ∧
      ∀ i, InBounds (T.run ops).1.shape i → (T.run ops).1.get i = (S.run ops).1.get i := by
  obtain ⟨h1, o1⟩ := Dense.run_refines hT ops hpT
  obtain ⟨h2, o2⟩ := Sparse.run_refines hS ops hpS
  refine ⟨by rw [o1, o2], by rw [h1.shape, h2.shape], ?_⟩
  intro i hi
  rw [h1.cell i hi, h2.cell i]

/-! ### the spelling of a key, and `extract` called directly -/

/-- `get_index_variant` sends every documented spelling of a key - a Python int or a NumPy integer
scalar; a slice; a 1-d array or a non-empty list of Python ints (of any length, also one); a
2-d array; a tuple - to the access kind of that key. -/
theorem C04_dispatch_documented (k : Key) (o : KeyObj) (h : o ∈ k.forms) :
    getIndexVariant o = .ok k.variant :=
  getIndexVariant_of_form k o h

/-- The key objects `get_index_variant` does not recognise are exactly: an object that is
neither an integer, a slice, an array, a tuple nor a sequence (a float, `None`, …), and a
non-empty sequence whose first element is not a Python int (a list of NumPy integers, a nested
list, a `str`). -/
theorem C04_dispatch_unrecognised_iff (o : KeyObj) :
    getIndexVariant o = .ok .unknown ↔ o = .other ∨ ∃ e es, o = .seq (e :: es) ∧ e ≠ .pyInt :=
  getIndexVariant_unknown_iff o

/-- `tensor.__setitem__` given any documented spelling of a key performs the operation model
of that key (to which `C04_dense_step` / `C04_dense_history` apply). -/
theorem C04_dense_setitem_documented_form [Zero α] (T : Dense α) (k : Key) (o : KeyObj) (rhs : Rhs α)
    (h : o ∈ k.forms) : T.setItemObj o k rhs = T.setItem k rhs :=
  Dense.setItemObj_of_form T k o rhs h

/-- `tensor.__setitem__` refuses a key object the dispatcher does not recognise, whatever its
content and whatever the value: the assignment is never silently dropped. -/
theorem C04_dense_setitem_unrecognised_refused [Zero α] (T : Dense α) (k : Key) (o : KeyObj) (rhs : Rhs α)
    (h : getIndexVariant o = .ok .unknown) : T.setItemObj o k rhs = .error .reject :=
  Dense.setItemObj_unknown T k o rhs h

/-- `sptensor.__setitem__` given any documented spelling of a key performs the operation model
of that key. -/
theorem C04_sparse_setitem_documented_form [Zero α] [BEq α] (S : Sparse α) (k : Key) (o : KeyObj)
    (rhs : Rhs α) (h : o ∈ k.forms) : S.setItemObj o k rhs = S.setItem k rhs :=
  Sparse.setItemObj_of_form S k o rhs h

/-- `sptensor.__setitem__` refuses a key object the dispatcher does not recognise - except in
the one case the code decides before looking at the key: an EMPTY array assigned to a tensor
without stored entries is a no-op (hypothesis `hne` excludes it). -/
theorem C04_sparse_setitem_unrecognised_refused [Zero α] [BEq α] (S : Sparse α) (k : Key) (o : KeyObj)
    (rhs : Rhs α) (h : getIndexVariant o = .ok .unknown)
    (hne : (S.vals.isEmpty && rhs.isEmptyValue) = false) : S.setItemObj o k rhs = .error .reject :=
  Sparse.setItemObj_unknown S k o rhs h hne

/-- `sptensor.extract` called directly on a tensor that represents the array `m`, with a `p × n`
array of subscripts or with ONE full subscript given as a 1-d vector: when every subscript
is a full subscript inside the shape, the result is the column of the cells of `m`. -/
theorem C04_extract [AddMonoid α] [DecidableEq α] {S : Sparse α} {m : MArr α} (h : SRel S m) (a : SubsArg)
    (hb : ∀ r ∈ a.rows, inBounds m.shape r = true) : S.extractArg a = .ok (a.rows.map m.get) := by
  rw [Sparse.extractArg_eq h a, if_neg]
  simp only [List.any_eq_true, Bool.not_eq_true', not_exists, not_and]
  intro r hr
  simp [hb r hr]

/-- … and when some subscript has another width than the order or lies outside the shape,
`extract` refuses. -/
theorem C04_extract_refuses [AddMonoid α] [DecidableEq α] {S : Sparse α} {m : MArr α} (h : SRel S m)
    (a : SubsArg) (r : List Nat) (hr : r ∈ a.rows) (hb : inBounds m.shape r = false) :
    S.extractArg a = .error .reject := by
  rw [Sparse.extractArg_eq h a, if_pos]
  simp only [List.any_eq_true, Bool.not_eq_true']
  exact ⟨r, hr, hb⟩

/-! ### the hypotheses are satisfiable by non-trivial inputs -/

/-- Documented spellings: `T[[5]] = v` (a one-element list), `T[[1, 13]] = v`, `T[np.int64(3)] = v`. -/
example : KeyObj.seq [.pyInt] ∈ (Key.linList [5]).forms ∧ KeyObj.seq [.pyInt, .pyInt] ∈ (Key.linList [1, 13]).forms
    ∧ KeyObj.npInt ∈ (Key.lin 3).forms := by decide

/-- Unrecognised: a list of NumPy integers, a nested list, a float. -/
example : getIndexVariant (.seq [.npInt, .npInt]) = .ok .unknown ∧ getIndexVariant (.seq [.seq]) = .ok .unknown
    ∧ getIndexVariant .other = .ok .unknown := ⟨rfl, rfl, rfl⟩

/-- The dispatch really computes: a list write reaches `_set_linear`, a list of NumPy integers is refused. -/
example : (⟨[2, 3], [1, 4, 2, 5, 3, 6]⟩ : Dense Int).setItemObj (.seq [.pyInt, .pyInt]) (.linList [1, 4]) (.col [9, 8])
    = .ok ⟨[2, 3], [1, 9, 2, 5, 8, 6]⟩ := by rfl

example : (⟨[2, 3], [1, 4, 2, 5, 3, 6]⟩ : Dense Int).setItemObj (.seq [.npInt, .npInt]) (.linList [1, 4]) (.col [9, 8])
    = .error .reject := by rfl

/-- `extract` with one full subscript as a 1-d vector, and with a 2 × 3 array. -/
example : (⟨[3, 4, 5], [[1, 1, 3], [2, 0, 4]], [2, -1]⟩ : Sparse Int).extractArg (.vec [2, 0, 4]) = .ok [-1]
    ∧ (⟨[3, 4, 5], [[1, 1, 3], [2, 0, 4]], [2, -1]⟩ : Sparse Int).extractArg (.mat [[0, 0, 0], [1, 1, 3]]) = .ok [0, 2] :=
  ⟨by rfl, by rfl⟩

/-- A history of accepted operations on a 2×2 dense tensor: a subscript write that adds a mode,
a region write with an open slice and a negative integer, reads through a negative linear
index and through a slice region. -/
example : AcceptedHist (MArr.ofDense (⟨[2, 2], [1, 0, 0, 4]⟩ : Dense Int))
    [.write (.subs [[0, 1, 1], [0, 1, 1]]) (.col [5, 0]),
     .write (.region [.slice none none none, .int (-1), .slice (some 0) (some 3) none]) (.scalar 7),
     .read (.lin (-1)),
     .read (.region [.int 0, .slice none none (some 2), .int 1])] :=
  ⟨rfl, rfl, rfl, rfl, trivial⟩

/-- A history of accepted operations for the sparse class on a 2×3 tensor: a region write with a
slice, a negative integer and growth by an index list; deletion of a region by zero; a
single-element read and a tensor-valued read. -/
example : AcceptedHistS (⟨[2, 3], fun i => if i = [1, 2] then (4 : Int) else 0⟩ : MArr Int)
    [.write (.region [.slice none none none, .int (-1), .list [0, 2, 2]]) (.scalar 7),
     .write (.region [.int 0, .slice (some 1) none none, .slice none (some 4) (some 2)]) (.scalar 0),
     .read (.region [.int 1, .int (-1), .int 2]),
     .read (.region [.slice none none none, .int 2, .list [2, 0]])] :=
  ⟨rfl, rfl, rfl, rfl, trivial⟩

/-- Array and tensor right-hand sides are accepted operations: a 2×2 array into the block
`X[0:2, -1, 1:3]` of a dense 2×2×3 tensor (growth by a new third mode would also do), and a
sparse 2-vector into `S[1, :]` followed by `S[0, 0, 0:2]` with an open slice `:` … on a new
mode of a sparse tensor. -/
example : AcceptedHist (MArr.ofDense (⟨[2, 2, 3], [1, 0, 0, 4, 0, 0, 0, 0, 0, 0, 0, 0]⟩ : Dense Int))
    [.write (.region [.slice (some 0) (some 2) none, .int (-1), .slice (some 1) (some 3) none])
       (.arr ⟨[2, 2], [5, 6, 0, 8]⟩),
     .write (.region [.int 0, .slice none none none, .int 0, .slice none none none]) (.tensor ⟨[2, 1], [3, 0]⟩),
     .read (.region [.slice none none none, .int 1, .int 2, .int 0])] :=
  ⟨rfl, rfl, rfl, trivial⟩

/-- Dense region keys with one index list in a rectangular position are accepted operations:
`X[[2, 0, 2], -1, :] = 7` (growth of mode 0 by the list, repeated entry), `X[:, 1, [0, 2]] =`
a 3×2 array, a read `X[0, [1, 0], :]` and a read `X[:, [1], 0]`. -/
example : AcceptedHist (MArr.ofDense (⟨[2, 2, 3], [1, 0, 0, 4, 0, 0, 0, 0, 0, 0, 0, 0]⟩ : Dense Int))
    [.write (.region [.list [2, 0, 2], .int (-1), .slice none none none]) (.scalar 7),
     .write (.region [.slice none none none, .int 1, .list [0, 2]]) (.arr ⟨[3, 2], [5, 6, 0, 8, 9, 1]⟩),
     .read (.region [.int 0, .list [1, 0], .slice none none none]),
     .read (.region [.slice none none none, .list [1], .int 0])] :=
  ⟨rfl, rfl, rfl, rfl, trivial⟩

example : ((⟨[2, 2, 3], [1, 0, 0, 4, 0, 0, 0, 0, 0, 0, 0, 0]⟩ : Dense Int).run
    [.write (.region [.list [2, 0, 2], .int (-1), .slice none none none]) (.scalar 7),
     .read (.region [.slice none none none, .list [1, 0], .int 0])]).2
    = [.written, .value (.tensor ⟨[3, 2], [7, 4, 7, 1, 0, 0]⟩)] := by decide

example : AcceptedHistS (⟨[2, 2], fun i => if i = [1, 0] then (4 : Int) else 0⟩ : MArr Int)
    [.write (.region [.int 1, .slice none none none]) (.tensor ⟨[2], [0, 9]⟩),
     .write (.region [.list [1, 0], .int (-1), .slice none none none]) (.tensor ⟨[2, 1], [7, 0]⟩),
     .read (.region [.slice none none none, .int 1, .int 0])] :=
  ⟨rfl, rfl, rfl, trivial⟩

/-- The same kind of history for the sparse class (1-way, so that linear writes are supported). -/
example : AcceptedHistS (⟨[3], fun i => if i = [1] then (2 : Int) else 0⟩ : MArr Int)
    [.write (.subs [[4], [1], [4]]) (.col [3, 0, 9]),
     .write (.lin 2) (.scalar 6),
     .write (.linSlice (some 0) none (some 2)) (.scalar 0),
     .read (.linList [-1, 0]),
     .read (.subs [[4]])] :=
  ⟨rfl, rfl, rfl, rfl, rfl, trivial⟩

/-- The models really compute on such inputs (no rejection hides behind the theorems). -/
example : ((⟨[2, 2], [1, 0, 0, 4]⟩ : Dense Int).run
    [.write (.subs [[0, 1, 1], [0, 1, 1]]) (.col [5, 0]),
     .write (.region [.slice none none none, .int (-1), .slice (some 0) (some 3) none]) (.scalar 7),
     .read (.lin (-1))]).2 = [.written, .written, .value (.scalar 7)] := by decide

example : ((⟨[3], [[1]], [2]⟩ : Sparse Int).run [.read (.linList [-1, 1]), .read (.subs [[1]])]).2
    = [.value (.vec [0, 2]), .value (.scalar 2)] := by decide

end Pyttb
