/-
C04 — entry reads and writes behave like an F-ordered mutable array over any history.

Specification: `Spec/MutArray.lean` (`MArr`: shape + cell function; `write` grows the
shape to cover the key, zero filled, then assigns the addressed cells in order; `read`
returns the addressed cells).  Models: `Ops/Index.lean` (tensor), `Ops/IndexSparse.lean`
(sptensor), histories in `Ops/IndexRun.lean`.  Proofs: `Lemmas/MutArray*.lean`.

FULL STATEMENT (kept visible): for every history `ops`, every dense `T` / sparse `S`
related to an abstract array `m` (`DRel T m`, `SRel S m`):
    DRel (T.run ops).1 (m.run ops).1 ∧ (T.run ops).2 = (m.run ops).2      (dense)
    SRel (S.run ops).1 (m.run ops).1 ∧ (S.run ops).2 = (m.run ops).2      (sparse)
for all key forms and all right-hand sides the class supports.

PROVED (`_partial`): the same statements for histories whose operations satisfy
`ProvedHist` (dense, `IdxOp.provedAt`) / `ProvedHistS` (sparse, `IdxOp.provedAtSparse`).
Covered for BOTH classes: subscript arrays (any right-hand side; growth of extents and
order; repeated rows, the last value wins; zeros), linear keys (integer, slice, index
array), region keys of integers and slices with a scalar right-hand side (zero included)
and region reads.  Covered for the sparse class in addition: index lists in region keys
(writes with a scalar; reads with duplicate-free lists), with growth of extents and order.
EXCLUDED key forms / right-hand sides:
  * dense:  index lists inside region keys (they are NumPy advanced indexing, known
            finding K04-dense-region-lists-numpy-advanced); array / tensor right-hand sides
            of region writes; linear keys on the order-0 (empty) tensor; the empty key `()`.
  * sparse: sparse-tensor right-hand sides of region writes; a NEW mode addressed by an
            open slice (refused by the class) or by a slice with stop ≤ 0; region reads with
            an integer outside `-extent .. extent-1` (the class returns 0 instead of raising),
            with a slice that selects nothing (the class cannot return a zero extent) or with
            an index list that is empty, out of range or repeats an entry (known finding
            K04-sparse-read-repeated-list-entry); an empty array as right-hand side; linear
            writes other than the ones the class supports (1-way tensor, in-range
            non-negative integer or non-empty slice); integer linear reads below `-cells`;
            the empty key `()`.
These excluded forms are exercised by the correspondence harness (implementation = model =
oracle on every step), not by the theorems.
-/
import PyttbModel.Lemmas.MutArrayCor
import Mathlib.Algebra.Group.Int.Defs
namespace Pyttb

variable {α : Type}

/-! ### dense class -/

/-- One operation (of a proved form) on a dense tensor related to an abstract array: the
model returns the same output as the specification — the value read, "written", or
"rejected" — and the states afterwards are related again (same shape, same cells). -/
theorem C04_dense_step_partial [Zero α] {T : Dense α} {m : MArr α} (h : DRel T m) (op : IdxOp α)
    (hp : op.provedAt T.shape = true) :
    DRel (T.step op).1 (m.step op).1 ∧ (T.step op).2 = (m.step op).2 :=
  Dense.step_refines h op hp

/-- Any history (of proved forms), from any start: running `tensor.__setitem__` /
`__getitem__` step by step gives, at every step, the output of the mutable-array
specification and a tensor that represents the specification's state. -/
theorem C04_dense_history_partial [Zero α] {T : Dense α} {m : MArr α} (h : DRel T m) (ops : List (IdxOp α))
    (hp : ProvedHist m ops) :
    DRel (T.run ops).1 (m.run ops).1 ∧ (T.run ops).2 = (m.run ops).2 :=
  Dense.run_refines h ops hp

/-- Every well-formed dense tensor is related to the abstract array it tabulates, so the
history theorem applies from any start. -/
theorem C04_dense_start [Zero α] (T : Dense α) (hT : T.WF) : DRel T (MArr.ofDense T) := DRel.ofDense T hT

/-! ### sparse class -/

/-- One operation (of a proved form) on a sparse tensor related to an abstract array: same
output as the specification, and the stored tensor afterwards is again well formed and
denotes the specification's state. -/
theorem C04_sparse_step_partial [AddMonoid α] [DecidableEq α] {S : Sparse α} {m : MArr α} (h : SRel S m)
    (op : IdxOp α) (hp : op.provedAtSparse S.shape = true) :
    SRel (S.step op).1 (m.step op).1 ∧ (S.step op).2 = (m.step op).2 :=
  Sparse.step_refines h op hp

/-- A write (of a proved form) keeps a sparse tensor well formed — equal lengths,
subscripts inside the shape, no repeated subscript, no stored zero — and a cell that is
zero afterwards (in particular one that was just assigned zero) has no stored entry. -/
theorem C04_sparse_step_wf_partial [AddMonoid α] [DecidableEq α] {S : Sparse α} (hS : S.WF) (key : Key)
    (rhs : Rhs α) (hp : (IdxOp.write key rhs).provedAtSparse S.shape = true) (S' : Sparse α)
    (hw : S.setItem key rhs = .ok S') :
    S'.WF ∧ ∀ i, S'.get i = 0 → i ∉ S'.subs := by
  have hr := Sparse.setItem_refines (SRel.ofSparse S hS) key rhs hp
  rw [hw] at hr
  cases h2 : (⟨S.shape, S.get⟩ : MArr α).write key rhs with
  | error e => rw [h2] at hr; exact absurd hr (by simp [RefWS])
  | ok m' =>
    rw [h2] at hr
    have hr' : SRel S' m' := hr
    exact ⟨hr'.wf, fun i h0 hi => Sparse.get_ne_zero_of_mem hr'.wf hi h0⟩

/-- Any history (of proved forms) on a sparse tensor: every step returns the
specification's output and the tensor stays well formed and denotes the specification's
state. -/
theorem C04_sparse_history_partial [AddMonoid α] [DecidableEq α] {S : Sparse α} {m : MArr α} (h : SRel S m)
    (ops : List (IdxOp α)) (hp : ProvedHistS m ops) :
    SRel (S.run ops).1 (m.run ops).1 ∧ (S.run ops).2 = (m.run ops).2 :=
  Sparse.run_refines h ops hp

/-- Every well-formed sparse tensor is related to the abstract array of its cells. -/
theorem C04_sparse_start [AddMonoid α] [DecidableEq α] (S : Sparse α) (hS : S.WF) :
    SRel S ⟨S.shape, S.get⟩ := SRel.ofSparse S hS

/-! ### what a write does to each cell (both classes) -/

/-- Last write wins: after an accepted write (of a proved form) every cell the key addresses
holds the LAST value the write assigns to it (a repeated position takes its last value);
the new shape and the assignments are the ones the specification derives from the key. -/
theorem C04_last_write_wins [AddMonoid α] [DecidableEq α] {T : Dense α} {S : Sparse α} {m : MArr α}
    (hT : DRel T m) (hS : SRel S m) (key : Key) (rhs : Rhs α)
    (hpT : (IdxOp.write key rhs).provedAt T.shape = true)
    (hpS : (IdxOp.write key rhs).provedAtSparse S.shape = true)
    (T' : Dense α) (S' : Sparse α) (hwT : T.setItem key rhs = .ok T') (hwS : S.setItem key rhs = .ok S') :
    ∃ s' asg, MArr.resolveWrite m.shape key rhs = .ok (s', asg) ∧ T'.shape = s' ∧ S'.shape = s' ∧
      ∀ i ∈ asg.map (·.1), T'.get i = kvLast asg i ∧ S'.get i = kvLast asg i := by
  have h1 := Dense.setItem_refines hT key rhs hpT
  have h2 := Sparse.setItem_refines hS key rhs hpS
  rw [hwT] at h1
  rw [hwS] at h2
  cases hm : m.write key rhs with
  | error e => rw [hm] at h1; exact absurd h1 (by simp [RefW])
  | ok m' =>
    rw [hm] at h1 h2
    have h1' : DRel T' m' := h1
    have h2' : SRel S' m' := h2
    obtain ⟨s', asg, hr, hs, hin, hget⟩ := MArr.write_get m key rhs m' hm
    refine ⟨s', asg, hr, by rw [h1'.shape, hs], by rw [h2'.shape, hs], ?_⟩
    intro i hi
    obtain ⟨p, hp, rfl⟩ := List.mem_map.1 hi
    have hb := hin p hp
    have := hget p.1 hb
    rw [if_pos hi] at this
    exact ⟨by rw [h1'.cell p.1 (by rw [h1'.shape, hs]; exact hb), this], by rw [h2'.cell p.1, this]⟩

/-- Frame: a cell the key does not address keeps its value — the cell `j ++ [0, …, 0]` of the
result is the old cell `j` (when the order grew, old cells are found under the subscript
padded with zeros). -/
theorem C04_frame [AddMonoid α] [DecidableEq α] {T : Dense α} {S : Sparse α} {m : MArr α}
    (hT : DRel T m) (hS : SRel S m) (key : Key) (rhs : Rhs α)
    (hpT : (IdxOp.write key rhs).provedAt T.shape = true)
    (hpS : (IdxOp.write key rhs).provedAtSparse S.shape = true)
    (T' : Dense α) (S' : Sparse α) (hwT : T.setItem key rhs = .ok T') (hwS : S.setItem key rhs = .ok S')
    (s' : List Nat) (asg : List (List Nat × α)) (hr : MArr.resolveWrite m.shape key rhs = .ok (s', asg))
    (i : List Nat) (hi : InBounds s' i) (hnot : i ∉ asg.map (·.1))
    (hold : (i.drop m.shape.length).all (· == 0) = true) :
    T'.get i = m.get (i.take m.shape.length) ∧ S'.get i = m.get (i.take m.shape.length) := by
  have h1 := Dense.setItem_refines hT key rhs hpT
  have h2 := Sparse.setItem_refines hS key rhs hpS
  rw [hwT] at h1
  rw [hwS] at h2
  cases hm : m.write key rhs with
  | error e => rw [hm] at h1; exact absurd h1 (by simp [RefW])
  | ok m' =>
    rw [hm] at h1 h2
    have h1' : DRel T' m' := h1
    have h2' : SRel S' m' := h2
    obtain ⟨s'', asg', hr', hs, _, hget⟩ := MArr.write_get m key rhs m' hm
    rw [hr] at hr'
    cases hr'
    have := hget i hi
    rw [if_neg hnot, if_pos hold] at this
    exact ⟨by rw [h1'.cell i (by rw [h1'.shape, hs]; exact hi), this], by rw [h2'.cell i, this]⟩

/-- Growth is zero filled: a cell of the enlarged tensor that the key does not address and
that is not an old cell (some coordinate in a new mode is non-zero) is zero; and a cell whose
old counterpart lies outside the old shape reads the specification's zero. -/
theorem C04_growth_zero_filled [AddMonoid α] [DecidableEq α] {T : Dense α} {S : Sparse α} {m : MArr α}
    (hT : DRel T m) (hS : SRel S m) (key : Key) (rhs : Rhs α)
    (hpT : (IdxOp.write key rhs).provedAt T.shape = true)
    (hpS : (IdxOp.write key rhs).provedAtSparse S.shape = true)
    (T' : Dense α) (S' : Sparse α) (hwT : T.setItem key rhs = .ok T') (hwS : S.setItem key rhs = .ok S')
    (s' : List Nat) (asg : List (List Nat × α)) (hr : MArr.resolveWrite m.shape key rhs = .ok (s', asg))
    (i : List Nat) (hi : InBounds s' i) (hnot : i ∉ asg.map (·.1))
    (hnew : (i.drop m.shape.length).all (· == 0) = false ∨ ¬ InBounds m.shape (i.take m.shape.length)) :
    T'.get i = 0 ∧ S'.get i = 0 := by
  have h1 := Dense.setItem_refines hT key rhs hpT
  have h2 := Sparse.setItem_refines hS key rhs hpS
  rw [hwT] at h1
  rw [hwS] at h2
  cases hm : m.write key rhs with
  | error e => rw [hm] at h1; exact absurd h1 (by simp [RefW])
  | ok m' =>
    rw [hm] at h1 h2
    have h1' : DRel T' m' := h1
    have h2' : SRel S' m' := h2
    obtain ⟨s'', asg', hr', hs, _, hget⟩ := MArr.write_get m key rhs m' hm
    rw [hr] at hr'
    cases hr'
    have := hget i hi
    rw [if_neg hnot] at this
    have hz : m'.get i = 0 := by
      rw [this]
      rcases hnew with h0 | h0
      · simp [h0]
      · split
        · exact MArr.get_of_not_inBounds m h0
        · rfl
    exact ⟨by rw [h1'.cell i (by rw [h1'.shape, hs]; exact hi), hz], by rw [h2'.cell i, hz]⟩

/-- A dense and a sparse tensor that represent the same array and are driven by the same
history (of forms proved for both classes) return the same outputs at every step and
represent the same array afterwards: same shape, same cells. -/
theorem C04_dense_sparse_agree_partial [AddMonoid α] [DecidableEq α] {T : Dense α} {S : Sparse α} {m : MArr α}
    (hT : DRel T m) (hS : SRel S m) (ops : List (IdxOp α)) (hpT : ProvedHist m ops) (hpS : ProvedHistS m ops) :
    (T.run ops).2 = (S.run ops).2 ∧ (T.run ops).1.shape = (S.run ops).1.shape ∧
      ∀ i, InBounds (T.run ops).1.shape i → (T.run ops).1.get i = (S.run ops).1.get i := by
  obtain ⟨h1, o1⟩ := Dense.run_refines hT ops hpT
  obtain ⟨h2, o2⟩ := Sparse.run_refines hS ops hpS
  refine ⟨by rw [o1, o2], by rw [h1.shape, h2.shape], ?_⟩
  intro i hi
  rw [h1.cell i hi, h2.cell i]

/-! ### the hypotheses are satisfiable by non-trivial inputs -/

/-- A history of proved forms on a 2×2 dense tensor: a subscript write that adds a mode,
a region write with an open slice and a negative integer, reads through a negative linear
index and through a slice region. -/
example : ProvedHist (MArr.ofDense (⟨[2, 2], [1, 0, 0, 4]⟩ : Dense Int))
    [.write (.subs [[0, 1, 1], [0, 1, 1]]) (.col [5, 0]),
     .write (.region [.slice none none none, .int (-1), .slice (some 0) (some 3) none]) (.scalar 7),
     .read (.lin (-1)),
     .read (.region [.int 0, .slice none none (some 2), .int 1])] :=
  ⟨rfl, rfl, rfl, rfl, trivial⟩

/-- A history of proved forms for the sparse class on a 2×3 tensor: a region write with a
slice, a negative integer and growth by an index list; deletion of a region by zero; a
single-element read and a tensor-valued read. -/
example : ProvedHistS (⟨[2, 3], fun i => if i = [1, 2] then (4 : Int) else 0⟩ : MArr Int)
    [.write (.region [.slice none none none, .int (-1), .list [0, 2, 2]]) (.scalar 7),
     .write (.region [.int 0, .slice (some 1) none none, .slice none (some 4) (some 2)]) (.scalar 0),
     .read (.region [.int 1, .int (-1), .int 2]),
     .read (.region [.slice none none none, .int 2, .list [2, 0]])] :=
  ⟨rfl, rfl, rfl, rfl, trivial⟩

/-- The same kind of history for the sparse class (1-way, so that linear writes are supported). -/
example : ProvedHistS (⟨[3], fun i => if i = [1] then (2 : Int) else 0⟩ : MArr Int)
    [.write (.subs [[4], [1], [4]]) (.col [3, 0, 9]),
     .write (.lin 2) (.scalar 6),
     .write (.linSlice (some 0) none (some 2)) (.scalar 0),
     .read (.linList [-1, 0]),
     .read (.subs [[4]])] :=
  ⟨rfl, rfl, rfl, rfl, rfl, trivial⟩

/-- The models really compute on such inputs (no rejection hides behind the theorems). -/
example : ((⟨[2, 2], [1, 0, 0, 4]⟩ : Dense Int).run
    [.write (.subs [[0, 1, 1], [0, 1, 1]]) (.col [5, 0]),
     .write (.region [.slice none none none, .int (-1), .slice (some 0) (some 3) none]) (.scalar 7),
     .read (.lin (-1))]).2 = [.written, .written, .value (.scalar 7)] := by decide

example : ((⟨[3], [[1]], [2]⟩ : Sparse Int).run [.read (.linList [-1, 1]), .read (.subs [[1]])]).2
    = [.value (.vec [0, 2]), .value (.scalar 2)] := by decide

end Pyttb
