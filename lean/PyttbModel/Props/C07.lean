/-
C07 — permute, reshape and squeeze are exact index maps (dense, sparse, Kruskal, Tucker).
Only property theorems and non-vacuity examples live here; proofs are in Lemmas/ShapeOps.lean,
Lemmas/ShapeOpsAgree.lean (Tucker, agreement of the holders, round trips) and Lemmas/ShapeOpsFull.lean
(expanding to dense commutes with the operation).  `Spec.permute` / `Spec.reshape`
(Spec/ShapeOps.lean) are the index formulas on the array an object denotes (`X.den`), and
`A.Same B` says two denotations are the same array (same shape, same entry at every subscript).
-/
import PyttbModel.Lemmas.ShapeOps
import PyttbModel.Lemmas.ShapeOpsAgree
import PyttbModel.Lemmas.ShapeOpsFull
import Mathlib.Algebra.Ring.Defs
namespace Pyttb

variable {α : Type}

/-! ### the index map of a permutation -/

/-- `gather j (invPerm p)` is the subscript `i` with `i[p[k]] = j[k]` for every `k`. -/
theorem C07_unperm_spec (p j : List Nat) (n : Nat) (hp : isPermOf p n = true) (hj : j.length = n)
    (k : Nat) (hk : k < n) :
    (gather j (invPerm p)).getD (p.getD k 0) 0 = j.getD k 0 := unperm_spec p j n hp hj k hk

/-- permuting a subscript and un-permuting it are inverse to each other. -/
theorem C07_gather_invPerm (p i : List Nat) (n : Nat) (hp : isPermOf p n = true) (hi : i.length = n) :
    gather (gather i p) (invPerm p) = i ∧ gather (gather i (invPerm p)) p = i :=
  gather_invPerm p i n hp hi

/-! ### dense -/

/-- `tensor.permute(p)`: mode `k` of the result is mode `p[k]` of the operand and the entry
at `j` is the operand's entry at the subscript `i` with `i[p[k]] = j[k]`; no value changes. -/
theorem C07_permute_at_dense [Zero α] (T : Dense α) (p : List Nat) (hT : T.WF)
    (hp : isPermOf p T.shape.length = true) (j : List Nat) (hj : InBounds (gather T.shape p) j) :
    ∃ P, T.permute p = .ok P ∧ P.shape = gather T.shape p ∧ P.WF ∧
      P.get j = T.get (gather j (invPerm p)) := permute_at_dense T p hT hp j hj

/-- permuting by `p` and then by the inverse order returns the original tensor. -/
theorem C07_permute_inverse_dense [Zero α] (T : Dense α) (p : List Nat) (hT : T.WF)
    (hp : isPermOf p T.shape.length = true) :
    ∃ P, T.permute p = .ok P ∧ P.permute (invPerm p) = .ok T := permute_inverse_dense T p hT hp

/-- the identity order changes nothing. -/
theorem C07_permute_id_dense [Zero α] (T : Dense α) (hT : T.WF) :
    T.permute (List.range T.shape.length) = .ok T := permute_id_dense T hT

/-- anything that is not a permutation of the modes is rejected (repaired code). -/
theorem C07_permute_rejects_dense [Zero α] (T : Dense α) (p : List Nat)
    (hp : isPermOf p T.shape.length = false) : T.permute p = .error .reject :=
  permute_rejects_dense T p hp

/-- The pinned code answered the non-permutation `[1,1]` with a copy. -/
theorem C07_permute_pinned_counterexample :
    Dense.permuteG false (⟨[2, 2], [1, 2, 3, 4]⟩ : Dense Int) [1, 1] = .ok ⟨[2, 2], [1, 2, 3, 4]⟩ ∧
    Dense.permute (⟨[2, 2], [1, 2, 3, 4]⟩ : Dense Int) [1, 1] = .error .reject := ⟨rfl, rfl⟩

/-- `tensor.reshape(s')` (first index fastest): the entry at `j` is the operand's entry with
the same linear index. -/
theorem C07_reshape_at_dense [Zero α] (T : Dense α) (s' : List Nat) (hT : T.WF)
    (hn : numel s' = numel T.shape) (j : List Nat) (hj : InBounds s' j) :
    ∃ P, T.reshape s' = .ok P ∧ P.shape = s' ∧ P.WF ∧
      P.get j = T.get (ind2sub T.shape (sub2ind s' j)) := reshape_at_dense T s' hT hn j hj

/-- reshaping and reshaping back returns the original tensor. -/
theorem C07_reshape_back_dense (T : Dense α) (s' : List Nat) (hn : numel s' = numel T.shape) :
    ∃ P, T.reshape s' = .ok P ∧ P.reshape T.shape = .ok T := reshape_back_dense T s' hn

/-- a target shape with a different element count is rejected (dense and sparse). -/
theorem C07_reshape_rejects (T : Dense α) (S : Sparse α) (s' : List Nat) :
    (numel s' ≠ numel T.shape → T.reshape s' = .error .reject) ∧
    (numel s' ≠ numel S.shape → S.reshape s' none = .error .reject) := reshape_rejects T S s'

/-- `tensor.squeeze()`: the modes of extent one disappear, every entry keeps its value; a
tensor with a single cell becomes that scalar.  (A 0-way tensor has no mode to drop and is
returned as it is: `np.all` of an empty array is true, so the code copies; hence the result
shape is non-empty only when the operand has at least one mode.) -/
theorem C07_squeeze_at_dense [Zero α] (T : Dense α) (hT : T.WF) (hpos : ∀ e ∈ T.shape, 1 ≤ e) :
    match T.squeeze with
    | .scalar v => (∀ e ∈ T.shape, e = 1) ∧ v = T.get (T.shape.map (fun _ => 0))
    | .obj P => P.shape = T.shape.filter (· > 1) ∧ P.WF ∧ (T.shape ≠ [] → P.shape ≠ []) ∧
        ∀ i, InBounds T.shape i → P.get (dropSingletons T.shape i) = T.get i :=
  squeeze_at_dense T hT hpos

/-! ### sparse -/

/-- `sptensor.permute(p)` denotes the same permuted array as the dense operation: the entry
at `j` is the operand's entry at `gather j (invPerm p)`; values and their stored order are kept. -/
theorem C07_permute_at_sparse [Add α] [Zero α] (S : Sparse α) (p : List Nat)
    (hp : isPermOf p S.shape.length = true) (hS : ∀ r ∈ S.subs, r.length = S.shape.length)
    (j : List Nat) (hj : j.length = S.shape.length) :
    ∃ P, S.permute p = .ok P ∧ P.shape = gather S.shape p ∧ P.vals = S.vals ∧
      P.subs = S.subs.map (fun r => gather r p) ∧
      P.get j = S.get (gather j (invPerm p)) := permute_at_sparse S p hp hS j hj

/-- sparse permutation preserves well-formedness. -/
theorem C07_permute_wf_sparse [Zero α] [BEq α] (S : Sparse α) (p : List Nat) (hS : S.WF)
    (hp : isPermOf p S.shape.length = true) :
    ∃ P, S.permute p = .ok P ∧ P.WF := permute_wf_sparse S p hS hp

/-- non-permutations are rejected by the sparse, Kruskal and Tucker operations. -/
theorem C07_permute_rejects_others [Zero α] (S : Sparse α) (K : Ktensor α) (T : Ttensor α) (p : List Nat) :
    (isPermOf p S.shape.length = false → S.permute p = .error .reject) ∧
    (isPermOf p K.factors.length = false → K.permute p = .error .reject) ∧
    (isPermOf p T.factors.length = false → T.permute p = .error .reject) :=
  permute_rejects_others S K T p

/-- `sptensor.reshape(s')` of all modes: the entry at `j` is the operand's entry with the same
first-index-fastest linear index (the dense formula). -/
theorem C07_reshape_at_sparse [Add α] [Zero α] [BEq α] (S : Sparse α) (s' : List Nat) (hS : S.WF)
    (hn : numel s' = numel S.shape) (j : List Nat) (hj : InBounds s' j) :
    ∃ P, S.reshape s' none = .ok P ∧ P.shape = s' ∧ P.vals = S.vals ∧
      P.get j = S.get (ind2sub S.shape (sub2ind s' j)) := reshape_at_sparse S s' hS hn j hj

/-- reshaping only the modes `om` (in the given order): the kept modes come first, and the
entry at `k ++ j` is the operand's entry whose kept coordinates are `k` and whose
`om`-coordinates have the same linear index as `j`. -/
theorem C07_sp_reshape_partial [Add α] [Zero α] [BEq α] (S : Sparse α) (s' om : List Nat) (hS : S.WF)
    (hom : om.Nodup ∧ ∀ m ∈ om, m < S.shape.length)
    (hn : numel s' = numel (gather S.shape om)) (i : List Nat) (hi : InBounds S.shape i) :
    ∃ P, S.reshape s' (some om) = .ok P ∧
      P.shape = gather S.shape (complDims S.shape.length om) ++ s' ∧ P.vals = S.vals ∧
      P.get (gather i (complDims S.shape.length om) ++
             ind2sub s' (sub2ind (gather S.shape om) (gather i om))) = S.get i :=
  sp_reshape_partial S s' om hS hom hn i hi

/-- `sptensor.squeeze()` keeps every stored value and drops the singleton coordinates.
(`Sparse.get` is a sum over the stored values, so the scalar case needs `v + 0 = v`: the value
type is an additive monoid.) -/
theorem C07_squeeze_at_sparse [AddMonoid α] [BEq α] (S : Sparse α) (hS : S.WF)
    (hpos : ∀ e ∈ S.shape, 1 ≤ e) :
    match S.squeeze with
    | .ok (.scalar v) => (∀ e ∈ S.shape, e = 1) ∧ v = S.get (S.shape.map (fun _ => 0))
    | .ok (.obj P) => P.shape = S.shape.filter (· > 1) ∧ P.vals = S.vals ∧
        ∀ i, InBounds S.shape i → P.get (dropSingletons S.shape i) = S.get i
    | .error _ => False := squeeze_at_sparse S hS hpos

/-! ### Kruskal and Tucker holders agree with the dense operation -/

/-- `ktensor.permute(p)` denotes the permuted array: entry `j` of the result is entry
`gather j (invPerm p)` of the operand. -/
theorem C07_permute_at_ktensor [CommSemiring α] (K : Ktensor α) (p : List Nat)
    (hp : isPermOf p K.factors.length = true) (j : List Nat) (hj : j.length = K.factors.length) :
    ∃ P, K.permute p = .ok P ∧ P.shape = gather K.shape p ∧ P.weights = K.weights ∧
      P.get j = K.get (gather j (invPerm p)) := permute_at_ktensor K p hp j hj

/-- `ttensor.permute(p)` (core permuted, factor matrices reordered) denotes the permuted array:
entry `j` of the result is entry `gather j (invPerm p)` of the operand, where a Tucker tensor
denotes `Σ_k G[k] ∏ₙ Uₙ[iₙ, kₙ]` (`Ttensor.get`, the denotation used by C02).  Only the core has to
be a well-formed array with one mode per factor; nothing is assumed of the factor matrices. -/
theorem C07_permute_at_ttensor [CommSemiring α] (T : Ttensor α) (p : List Nat) (hc : T.core.WF)
    (hlen : T.factors.length = T.core.shape.length) (hp : isPermOf p T.factors.length = true)
    (j : List Nat) (hj : j.length = T.factors.length) :
    ∃ P, T.permute p = .ok P ∧ P.shape = gather T.shape p ∧
      P.core.shape = gather T.core.shape p ∧ P.core.WF ∧ P.factors = gatherD T.factors p [] ∧
      P.get j = T.get (gather j (invPerm p)) := permute_at_ttensor T p hc hlen hp j hj

/-- `ttensor.permute` rejects everything that is not a permutation of the modes. -/
theorem C07_permute_rejects_ttensor [Zero α] (T : Ttensor α) (p : List Nat)
    (hp : isPermOf p T.factors.length = false) : T.permute p = .error .reject :=
  (permute_rejects_others (⟨[], [], []⟩ : Sparse α) ⟨[], []⟩ T p).2.2 hp

/-- permuting a well-formed Tucker tensor (in the sense of C02: well-formed core, one factor per
core mode, as many columns as the core mode has entries) gives a well-formed Tucker tensor. -/
theorem C07_permute_wf_ttensor [Zero α] (T : Ttensor α) (p : List Nat) (hT : ML.TuckerWF T)
    (hp : isPermOf p T.factors.length = true) :
    ∃ P, T.permute p = .ok P ∧ ML.TuckerWF P := permute_wf_ttensor T p hT hp

/-! ### every holder computes the one index formula -/

/-- For each of the four holders, `permute` succeeds and the result denotes `Spec.permute` of
what the operand denotes. -/
theorem C07_permute_spec [CommSemiring α] (D : Dense α) (S : Sparse α) (K : Ktensor α) (T : Ttensor α)
    (p : List Nat) :
    (D.WF → isPermOf p D.shape.length = true →
      ∃ P, D.permute p = .ok P ∧ P.WF ∧ P.den.Same (Spec.permute D.den p)) ∧
    ((∀ r ∈ S.subs, r.length = S.shape.length) → isPermOf p S.shape.length = true →
      ∃ P, S.permute p = .ok P ∧ P.den.Same (Spec.permute S.den p)) ∧
    (isPermOf p K.factors.length = true →
      ∃ P, K.permute p = .ok P ∧ P.den.Same (Spec.permute K.den p)) ∧
    (T.core.WF → T.factors.length = T.core.shape.length → isPermOf p T.factors.length = true →
      ∃ P, T.permute p = .ok P ∧ P.den.Same (Spec.permute T.den p)) :=
  ⟨fun hD hp => permute_den_dense D p hD hp, fun hS hp => permute_den_sparse S p hp hS,
    fun hp => permute_den_ktensor K p hp, fun hc hl hp => permute_den_ttensor T p hc hl hp⟩

/-- Dense, sparse, Kruskal and Tucker holders of ONE array `X`: for every permutation `p` of its
modes the four `permute`s succeed and the four results denote the same array, `Spec.permute X p`. -/
theorem C07_permute_agree [CommSemiring α] (X : Den α) (D : Dense α) (S : Sparse α) (K : Ktensor α)
    (T : Ttensor α) (p : List Nat) (hD : D.WF) (hS : ∀ r ∈ S.subs, r.length = S.shape.length)
    (hTc : T.core.WF) (hTl : T.factors.length = T.core.shape.length)
    (hDX : D.den.Same X) (hSX : S.den.Same X) (hKX : K.den.Same X) (hTX : T.den.Same X)
    (hp : isPermOf p X.shape.length = true) :
    ∃ PD PS PK PT, D.permute p = .ok PD ∧ S.permute p = .ok PS ∧ K.permute p = .ok PK ∧
      T.permute p = .ok PT ∧ PD.den.Same (Spec.permute X p) ∧ PS.den.Same (Spec.permute X p) ∧
      PK.den.Same (Spec.permute X p) ∧ PT.den.Same (Spec.permute X p) :=
  permute_agree X D S K T p hD hS hTc hTl hDX hSX hKX hTX hp

/-- Dense and sparse holders of one array `X`: `reshape(s')` succeeds on both and both results
denote `Spec.reshape X s'`. -/
theorem C07_reshape_agree_dense_sparse [Add α] [Zero α] [BEq α] (X : Den α) (D : Dense α)
    (S : Sparse α) (s' : List Nat) (hD : D.WF) (hS : S.WF) (hDX : D.den.Same X) (hSX : S.den.Same X)
    (hn : numel s' = numel X.shape) :
    ∃ PD PS, D.reshape s' = .ok PD ∧ S.reshape s' none = .ok PS ∧
      PD.den.Same (Spec.reshape X s') ∧ PS.den.Same (Spec.reshape X s') :=
  reshape_agree_dense_sparse X D S s' hD hS hDX hSX hn

/-- Dense and sparse holders of one array (positive extents): `squeeze` returns a scalar for both
or an object for both; the scalars are equal and the objects denote the same array. -/
theorem C07_squeeze_agree_dense_sparse [AddMonoid α] [BEq α] (D : Dense α) (S : Sparse α) (hD : D.WF)
    (hS : S.WF) (hpos : ∀ e ∈ D.shape, 1 ≤ e) (hSD : S.den.Same D.den) :
    match D.squeeze, S.squeeze with
    | .scalar v, .ok (.scalar w) => v = w
    | .obj PD, .ok (.obj PS) => PS.den.Same PD.den
    | _, _ => False := squeeze_agree_dense_sparse D S hD hS hpos hSD

/-- Expanding to dense commutes with `permute`, sparse holder: `S.full().permute(p)` is exactly
`S.permute(p).full()`. -/
theorem C07_permute_full_sparse [AddMonoid α] [DecidableEq α] (S : Sparse α) (p : List Nat) (hS : S.WF)
    (hp : isPermOf p S.shape.length = true) :
    ∃ P, S.permute p = .ok P ∧ P.WF ∧ S.full.permute p = .ok P.full := permute_full_sparse S p hS hp

/-- … Kruskal holder (positive extents: the model's list-of-rows matrices carry no column count
when there is no row): `K.full().permute(p)` is exactly `K.permute(p).full()`. -/
theorem C07_permute_full_ktensor [CommSemiring α] (K : Ktensor α) (p : List Nat) (hK : K.WF)
    (hN : 1 ≤ K.factors.length) (hpos : ∀ e ∈ K.shape, 1 ≤ e)
    (hp : isPermOf p K.factors.length = true) :
    ∃ P D D', K.permute p = .ok P ∧ K.full = .ok D ∧ P.full = .ok D' ∧ D.permute p = .ok D' :=
  permute_full_ktensor K p hK hN hpos hp

/-- … Tucker holder (`full` is the C02 model `core.ttm(factors)`): `T.full().permute(p)` is exactly
`T.permute(p).full()`. -/
theorem C07_permute_full_ttensor [CommSemiring α] (T : Ttensor α) (p : List Nat) (hT : ML.TuckerWF T)
    (hN : 1 ≤ T.factors.length) (hp : isPermOf p T.factors.length = true) :
    ∃ P D D', T.permute p = .ok P ∧ T.full = .ok D ∧ P.full = .ok D' ∧ D.permute p = .ok D' :=
  permute_full_ttensor T p hT hN hp

/-- Expanding to dense commutes with `reshape`: `S.full().reshape(s')` is exactly
`S.reshape(s').full()`. -/
theorem C07_reshape_full_sparse [AddMonoid α] [DecidableEq α] (S : Sparse α) (s' : List Nat) (hS : S.WF)
    (hn : numel s' = numel S.shape) :
    ∃ P, S.reshape s' none = .ok P ∧ P.WF ∧ S.full.reshape s' = .ok P.full :=
  reshape_full_sparse S s' hS hn

/-! ### round trips, every holder -/

/-- sparse: permuting by `p` and then by the inverse order returns the STORED tensor (same rows in
the same order, same values), hence the same array. -/
theorem C07_permute_inverse_sparse (S : Sparse α) (p : List Nat)
    (hp : isPermOf p S.shape.length = true) (hS : ∀ r ∈ S.subs, r.length = S.shape.length) :
    ∃ P, S.permute p = .ok P ∧ P.permute (invPerm p) = .ok S := permute_inverse_sparse S p hp hS

/-- sparse: the identity order changes nothing. -/
theorem C07_permute_id_sparse (S : Sparse α) (hS : ∀ r ∈ S.subs, r.length = S.shape.length) :
    S.permute (List.range S.shape.length) = .ok S := permute_id_sparse S hS

/-- Kruskal: permuting by `p` and then by the inverse order returns the very same weights and
factor matrices. -/
theorem C07_permute_inverse_ktensor (K : Ktensor α) (p : List Nat)
    (hp : isPermOf p K.factors.length = true) :
    ∃ P, K.permute p = .ok P ∧ P.permute (invPerm p) = .ok K := permute_inverse_ktensor K p hp

/-- Tucker: permuting by `p` and then by the inverse order returns the very same core and factor
matrices. -/
theorem C07_permute_inverse_ttensor [Zero α] (T : Ttensor α) (p : List Nat) (hc : T.core.WF)
    (hlen : T.factors.length = T.core.shape.length) (hp : isPermOf p T.factors.length = true) :
    ∃ P, T.permute p = .ok P ∧ P.permute (invPerm p) = .ok T := permute_inverse_ttensor T p hc hlen hp

/-- sparse reshape keeps well-formedness (in bounds, distinct subscripts, no stored zero), for all
modes and for a listed subset of modes. -/
theorem C07_reshape_wf_sparse [Zero α] [BEq α] (S : Sparse α) (s' om : List Nat) (hS : S.WF) :
    (numel s' = numel S.shape → ∃ P, S.reshape s' none = .ok P ∧ P.WF) ∧
    (om.Nodup ∧ (∀ m ∈ om, m < S.shape.length) → numel s' = numel (gather S.shape om) →
      ∃ P, S.reshape s' (some om) = .ok P ∧ P.WF) :=
  ⟨fun hn => reshape_all_wf_sparse S s' hS hn, fun hom hn => reshape_partial_wf_sparse S s' om hS hom hn⟩

/-- sparse: reshaping all modes and reshaping back returns the STORED tensor. -/
theorem C07_reshape_back_sparse [Zero α] [BEq α] (S : Sparse α) (s' : List Nat) (hS : S.WF)
    (hn : numel s' = numel S.shape) :
    ∃ P, S.reshape s' none = .ok P ∧ P.shape = s' ∧ P.reshape S.shape none = .ok S :=
  reshape_back_sparse S s' hS hn

/-- sparse partial reshape and back: reshape the modes `om` to `s'` (they become the trailing
modes), then reshape those trailing modes back to their old extents.  The result is exactly
`S.permute(kept modes ++ om)` as stored — the tensor with the reshaped modes moved last — and it is
`S` itself when `om` are the trailing modes in increasing order. -/
theorem C07_sp_reshape_partial_back [Zero α] [BEq α] (S : Sparse α) (s' om : List Nat) (hS : S.WF)
    (hom : om.Nodup ∧ ∀ m ∈ om, m < S.shape.length) (hn : numel s' = numel (gather S.shape om)) :
    ∃ P Q, S.reshape s' (some om) = .ok P ∧
      P.reshape (gather S.shape om)
        (some (List.range' (complDims S.shape.length om).length s'.length)) = .ok Q ∧
      S.permute (complDims S.shape.length om ++ om) = .ok Q ∧
      (complDims S.shape.length om ++ om = List.range S.shape.length → Q = S) :=
  sp_reshape_partial_back S s' om hS hom hn

/-! ### sparse tensors with nothing stored (the code returns early for these) -/

/-- `permute`, `reshape` (all modes / listed modes) and `squeeze` of a sparse tensor with no stored
entry: the empty tensor of the new shape; `squeeze` of an all-singleton empty tensor is the scalar 0
(repaired code). -/
theorem C07_empty_sparse [Zero α] (s s' p om : List Nat) :
    (isPermOf p s.length = true → (⟨s, [], []⟩ : Sparse α).permute p = .ok ⟨gather s p, [], []⟩) ∧
    (numel s' = numel s → (⟨s, [], []⟩ : Sparse α).reshape s' none = .ok ⟨s', [], []⟩) ∧
    (om.Nodup ∧ (∀ m ∈ om, m < s.length) → numel s' = numel (gather s om) →
      (⟨s, [], []⟩ : Sparse α).reshape s' (some om) =
        .ok ⟨gather s (complDims s.length om) ++ s', [], []⟩) ∧
    (⟨s, [], []⟩ : Sparse α).squeeze =
      (if s.all (· > 1) then .ok (.obj ⟨s, [], []⟩)
       else if s.filter (· > 1) = [] then .ok (.scalar 0)
       else .ok (.obj ⟨s.filter (· > 1), [], []⟩)) :=
  ⟨fun hp => permute_empty_sparse s p hp, fun hn => reshape_empty_sparse s s' hn,
    fun hom hn => reshape_partial_empty_sparse s s' om hom hn, squeeze_empty_sparse s⟩

/-! ### edge shapes, as instances of the general theorems -/

/-- 1-way dense tensor: the only order is `[0]`, and it returns the tensor. -/
example [Zero α] (T : Dense α) (hT : T.WF) (h1 : T.shape.length = 1) : T.permute [0] = .ok T := by
  have := C07_permute_id_dense T hT
  rwa [h1] at this

/-- 1-way sparse tensor: the only order `[0]` returns the stored tensor. -/
example (S : Sparse α) (h1 : S.shape.length = 1) (hS : ∀ r ∈ S.subs, r.length = 1) :
    S.permute [0] = .ok S := by
  have := C07_permute_id_sparse S (by rw [h1]; exact hS)
  rwa [h1] at this

/-- a sparse tensor with nothing stored needs no special case in the general theorem: every entry of
the permuted tensor is zero. -/
example [Add α] [Zero α] (s p j : List Nat) (hp : isPermOf p s.length = true) (hj : j.length = s.length) :
    ∃ P, (⟨s, [], []⟩ : Sparse α).permute p = .ok P ∧ P.get j = 0 := by
  obtain ⟨P, h, _, _, _, hg⟩ := C07_permute_at_sparse (⟨s, [], []⟩ : Sparse α) p hp (by simp) j hj
  exact ⟨P, h, by rw [hg]; rfl⟩

/-- 1-way Kruskal tensor: permute by `[0]` and back is the identity, and the result denotes the
same array. -/
example [CommSemiring α] (w : List α) (A : Mat α) (j : List Nat) (hj : j.length = 1) :
    ∃ P, (⟨w, [A]⟩ : Ktensor α).permute [0] = .ok P ∧ P.get j = (⟨w, [A]⟩ : Ktensor α).get (gather j [0]) := by
  obtain ⟨P, h1, _, _, h4⟩ := C07_permute_at_ktensor (⟨w, [A]⟩ : Ktensor α) [0] rfl j hj
  exact ⟨P, h1, h4⟩

/-- 1-way Tucker tensor (core of shape `[c]`, one factor). -/
example [CommSemiring α] (c : Nat) (g : List α) (U : Mat α) (hg : g.length = c) :
    ∃ P, (⟨⟨[c], g⟩, [U]⟩ : Ttensor α).permute [0] = .ok P ∧ P.permute (invPerm [0]) = .ok ⟨⟨[c], g⟩, [U]⟩ :=
  C07_permute_inverse_ttensor _ [0] (by simp [Dense.WF, hg]) rfl rfl

/-- all-singleton dense tensor with at least one mode: `squeeze` is the scalar entry. -/
example [Zero α] (T : Dense α) (hT : T.WF) (h : ∀ e ∈ T.shape, e = 1) (hne : T.shape ≠ []) :
    T.squeeze = .scalar (T.get (T.shape.map fun _ => 0)) := by
  have h0 := C07_squeeze_at_dense T hT (fun e he => by rw [h e he])
  cases hq : T.squeeze with
  | scalar v => rw [hq] at h0; rw [h0.2]
  | obj P =>
    rw [hq] at h0
    exfalso
    apply h0.2.2.1 hne
    rw [h0.1, List.filter_eq_nil_iff]
    intro e he
    simp [h e he]

/-- all-singleton shapes: every order is accepted and a reshape to any all-singleton shape keeps the
single entry. -/
example : (⟨[1, 1, 1], [7]⟩ : Dense Int).permute [2, 0, 1] = .ok ⟨[1, 1, 1], [7]⟩ ∧
    (⟨[1, 1, 1], [7]⟩ : Dense Int).reshape [1] = .ok ⟨[1], [7]⟩ ∧
    (⟨[1, 1, 1], [7]⟩ : Dense Int).squeeze = .scalar 7 ∧
    (⟨[1, 1], [[0, 0]], [7]⟩ : Sparse Int).squeeze = .ok (.scalar 7) ∧
    (⟨[1, 1], [], []⟩ : Sparse Int).squeeze = .ok (.scalar 0) := by decide

/-- a 3-cycle on a sparse tensor, its inverse, and a partial reshape of the two trailing modes. -/
example : (⟨[2, 3, 4], [[1, 2, 3], [0, 1, 2]], [5, 6]⟩ : Sparse Int).permute [2, 0, 1] =
      .ok ⟨[4, 2, 3], [[3, 1, 2], [2, 0, 1]], [5, 6]⟩ ∧
    (⟨[4, 2, 3], [[3, 1, 2], [2, 0, 1]], [5, 6]⟩ : Sparse Int).permute (invPerm [2, 0, 1]) =
      .ok ⟨[2, 3, 4], [[1, 2, 3], [0, 1, 2]], [5, 6]⟩ ∧
    (⟨[2, 3, 4], [[1, 2, 3], [0, 1, 2]], [5, 6]⟩ : Sparse Int).reshape [12] (some [1, 2]) =
      .ok ⟨[2, 12], [[1, 11], [0, 7]], [5, 6]⟩ ∧
    (⟨[2, 12], [[1, 11], [0, 7]], [5, 6]⟩ : Sparse Int).reshape [3, 4] (some [1]) =
      .ok ⟨[2, 3, 4], [[1, 2, 3], [0, 1, 2]], [5, 6]⟩ := by decide

/-- a Tucker tensor: the core is transposed and the factors reordered. -/
example : (⟨⟨[1, 2], [3, 4]⟩, [[[1], [2]], [[1, 0], [0, 1], [1, 1]]]⟩ : Ttensor Int).permute [1, 0] =
    .ok ⟨⟨[2, 1], [3, 4]⟩, [[[1, 0], [0, 1], [1, 1]], [[1], [2]]]⟩ := by decide

example : isPermOf [2, 0, 1] 3 = true ∧ invPerm [2, 0, 1] = [1, 2, 0] := by decide
example : (⟨[2, 3], [1, 2, 3, 4, 5, 6]⟩ : Dense Int).permute [1, 0] = .ok ⟨[3, 2], [1, 3, 5, 2, 4, 6]⟩ := rfl

end Pyttb
