/-
C07 — permute, reshape and squeeze are exact index maps (dense, sparse, Kruskal, Tucker).
Only property theorems and non-vacuity examples live here; proofs are in Lemmas/ShapeOps.lean.
-/
import PyttbModel.Lemmas.ShapeOps
import Mathlib.Algebra.Ring.Defs
namespace Pyttb

variable {α : Type}

/-! ### the index map of a permutation -/

/-- `gather j (invPerm p)` is the subscript `i` with `i[p[k]] = j[k]` for every `k`. -/
theorem C07_unperm_spec (p j : List Nat) (n : Nat) (hp : isPermOf p n = true) (hj : j.length = n)
    (k : Nat) (hk : k < n) :
    (gather j (invPerm p)).getD (p.getD k 0) 0 = j.getD k 0 := unperm_spec p j n hp hj k hk

/-- permuting a subscript and un-permuting it are inverse to each other. -/
theorem C07_gather_invPerm (p i : List Nat) (n : Nat) (hp : isPermOf p n = true) (hi : i.length = n) :
    gather (gather i p) (invPerm p) = i ∧ gather (gather i (invPerm p)) p = i :=
  gather_invPerm p i n hp hi

/-! ### dense -/

/-- `tensor.permute(p)`: mode `k` of the result is mode `p[k]` of the operand and the entry
at `j` is the operand's entry at the subscript `i` with `i[p[k]] = j[k]`; no value changes. -/
theorem C07_permute_at_dense [Zero α] (T : Dense α) (p : List Nat) (hT : T.WF)
    (hp : isPermOf p T.shape.length = true) (j : List Nat) (hj : InBounds (gather T.shape p) j) :
    ∃ P, T.permute p = .ok P ∧ P.shape = gather T.shape p ∧ P.WF ∧
      P.get j = T.get (gather j (invPerm p)) := permute_at_dense T p hT hp j hj

/-- permuting by `p` and then by the inverse order returns the original tensor. -/
theorem C07_permute_inverse_dense [Zero α] (T : Dense α) (p : List Nat) (hT : T.WF)
    (hp : isPermOf p T.shape.length = true) :
    ∃ P, T.permute p = .ok P ∧ P.permute (invPerm p) = .ok T := permute_inverse_dense T p hT hp

/-- the identity order changes nothing. -/
theorem C07_permute_id_dense [Zero α] (T : Dense α) (hT : T.WF) :
    T.permute (List.range T.shape.length) = .ok T := permute_id_dense T hT

/-- anything that is not a permutation of the modes is rejected (repaired code). -/
theorem C07_permute_rejects_dense [Zero α] (T : Dense α) (p : List Nat)
    (hp : isPermOf p T.shape.length = false) : T.permute p = .error .reject :=
  permute_rejects_dense T p hp

/-- The pinned code answered the non-permutation `[1,1]` with a copy. -/
theorem C07_permute_pinned_counterexample :
    Dense.permuteG false (⟨[2, 2], [1, 2, 3, 4]⟩ : Dense Int) [1, 1] = .ok ⟨[2, 2], [1, 2, 3, 4]⟩ ∧
    Dense.permute (⟨[2, 2], [1, 2, 3, 4]⟩ : Dense Int) [1, 1] = .error .reject := ⟨rfl, rfl⟩

/-- `tensor.reshape(s')` (first index fastest): the entry at `j` is the operand's entry with
the same linear index. -/
theorem C07_reshape_at_dense [Zero α] (T : Dense α) (s' : List Nat) (hT : T.WF)
    (hn : numel s' = numel T.shape) (j : List Nat) (hj : InBounds s' j) :
    ∃ P, T.reshape s' = .ok P ∧ P.shape = s' ∧ P.WF ∧
      P.get j = T.get (ind2sub T.shape (sub2ind s' j)) := reshape_at_dense T s' hT hn j hj

/-- reshaping and reshaping back returns the original tensor. -/
theorem C07_reshape_back_dense (T : Dense α) (s' : List Nat) (hn : numel s' = numel T.shape) :
    ∃ P, T.reshape s' = .ok P ∧ P.reshape T.shape = .ok T := reshape_back_dense T s' hn

/-- a target shape with a different element count is rejected (dense and sparse). -/
theorem C07_reshape_rejects (T : Dense α) (S : Sparse α) (s' : List Nat) :
    (numel s' ≠ numel T.shape → T.reshape s' = .error .reject) ∧
    (numel s' ≠ numel S.shape → S.reshape s' none = .error .reject) := reshape_rejects T S s'

/-- `tensor.squeeze()`: the modes of extent one disappear, every entry keeps its value; a
tensor with a single cell becomes that scalar.  (A 0-way tensor has no mode to drop and is
returned as it is: `np.all` of an empty array is true, so the code copies; hence the result
shape is non-empty only when the operand has at least one mode.) -/
theorem C07_squeeze_at_dense [Zero α] (T : Dense α) (hT : T.WF) (hpos : ∀ e ∈ T.shape, 1 ≤ e) :
    match T.squeeze with
    | .scalar v => (∀ e ∈ T.shape, e = 1) ∧ v = T.get (T.shape.map (fun _ => 0))
    | .obj P => P.shape = T.shape.filter (· > 1) ∧ P.WF ∧ (T.shape ≠ [] → P.shape ≠ []) ∧
        ∀ i, InBounds T.shape i → P.get (dropSingletons T.shape i) = T.get i :=
  squeeze_at_dense T hT hpos

/-! ### sparse -/

/-- `sptensor.permute(p)` denotes the same permuted array as the dense operation: the entry
at `j` is the operand's entry at `gather j (invPerm p)`; values and their stored order are kept. -/
theorem C07_permute_at_sparse [Add α] [Zero α] (S : Sparse α) (p : List Nat)
    (hp : isPermOf p S.shape.length = true) (hS : ∀ r ∈ S.subs, r.length = S.shape.length)
    (j : List Nat) (hj : j.length = S.shape.length) :
    ∃ P, S.permute p = .ok P ∧ P.shape = gather S.shape p ∧ P.vals = S.vals ∧
      P.subs = S.subs.map (fun r => gather r p) ∧
      P.get j = S.get (gather j (invPerm p)) := permute_at_sparse S p hp hS j hj

/-- sparse permutation preserves well-formedness. -/
theorem C07_permute_wf_sparse [Zero α] [BEq α] (S : Sparse α) (p : List Nat) (hS : S.WF)
    (hp : isPermOf p S.shape.length = true) :
    ∃ P, S.permute p = .ok P ∧ P.WF := permute_wf_sparse S p hS hp

/-- non-permutations are rejected by the sparse, Kruskal and Tucker operations. -/
theorem C07_permute_rejects_others [Zero α] (S : Sparse α) (K : Ktensor α) (T : Ttensor α) (p : List Nat) :
    (isPermOf p S.shape.length = false → S.permute p = .error .reject) ∧
    (isPermOf p K.factors.length = false → K.permute p = .error .reject) ∧
    (isPermOf p T.factors.length = false → T.permute p = .error .reject) :=
  permute_rejects_others S K T p

/-- `sptensor.reshape(s')` of all modes: the entry at `j` is the operand's entry with the same
first-index-fastest linear index (the dense formula). -/
theorem C07_reshape_at_sparse [Add α] [Zero α] [BEq α] (S : Sparse α) (s' : List Nat) (hS : S.WF)
    (hn : numel s' = numel S.shape) (j : List Nat) (hj : InBounds s' j) :
    ∃ P, S.reshape s' none = .ok P ∧ P.shape = s' ∧ P.vals = S.vals ∧
      P.get j = S.get (ind2sub S.shape (sub2ind s' j)) := reshape_at_sparse S s' hS hn j hj

/-- reshaping only the modes `om` (in the given order): the kept modes come first, and the
entry at `k ++ j` is the operand's entry whose kept coordinates are `k` and whose
`om`-coordinates have the same linear index as `j`. -/
theorem C07_sp_reshape_partial [Add α] [Zero α] [BEq α] (S : Sparse α) (s' om : List Nat) (hS : S.WF)
    (hom : om.Nodup ∧ ∀ m ∈ om, m < S.shape.length)
    (hn : numel s' = numel (gather S.shape om)) (i : List Nat) (hi : InBounds S.shape i) :
    ∃ P, S.reshape s' (some om) = .ok P ∧
      P.shape = gather S.shape (complDims S.shape.length om) ++ s' ∧ P.vals = S.vals ∧
      P.get (gather i (complDims S.shape.length om) ++
             ind2sub s' (sub2ind (gather S.shape om) (gather i om))) = S.get i :=
  sp_reshape_partial S s' om hS hom hn i hi

/-- `sptensor.squeeze()` keeps every stored value and drops the singleton coordinates.
(`Sparse.get` is a sum over the stored values, so the scalar case needs `v + 0 = v`: the value
type is an additive monoid.) -/
theorem C07_squeeze_at_sparse [AddMonoid α] [BEq α] (S : Sparse α) (hS : S.WF)
    (hpos : ∀ e ∈ S.shape, 1 ≤ e) :
    match S.squeeze with
    | .ok (.scalar v) => (∀ e ∈ S.shape, e = 1) ∧ v = S.get (S.shape.map (fun _ => 0))
    | .ok (.obj P) => P.shape = S.shape.filter (· > 1) ∧ P.vals = S.vals ∧
        ∀ i, InBounds S.shape i → P.get (dropSingletons S.shape i) = S.get i
    | .error _ => False := squeeze_at_sparse S hS hpos

/-! ### Kruskal and Tucker holders agree with the dense operation -/

/-- `ktensor.permute(p)` denotes the permuted array: entry `j` of the result is entry
`gather j (invPerm p)` of the operand. -/
theorem C07_permute_at_ktensor [CommSemiring α] (K : Ktensor α) (p : List Nat)
    (hp : isPermOf p K.factors.length = true) (j : List Nat) (hj : j.length = K.factors.length) :
    ∃ P, K.permute p = .ok P ∧ P.shape = gather K.shape p ∧ P.weights = K.weights ∧
      P.get j = K.get (gather j (invPerm p)) := permute_at_ktensor K p hp j hj

example : isPermOf [2, 0, 1] 3 = true ∧ invPerm [2, 0, 1] = [1, 2, 0] := by decide
example : (⟨[2, 3], [1, 2, 3, 4, 5, 6]⟩ : Dense Int).permute [1, 0] = .ok ⟨[3, 2], [1, 3, 5, 2, 4, 6]⟩ := rfl

end Pyttb
