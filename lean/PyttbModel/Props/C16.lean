/-
C16 — export followed by import reproduces the object exactly.

`encode` is the model of `pyttb.export_data` (default formats), `decode b` the model of
`pyttb.import_data(…, index_base=b)` on files seen as lines of tokens (`IO/Format.lean`).
Formatting and parsing of one number are opaque: `fmt` writes a value as text, `parse`
reads such text, `ofInt` is what an integer-looking token reads as at a value position.
The premise `∀ v, parse (fmt v) = v` (17 significant digits are enough for a double) is a
fact about libc/NumPy that the harness checks on every value it writes.
Only property theorems and their non-vacuity examples live here.
-/
import PyttbModel.Lemmas.Format
import PyttbModel.Props.C16Digits
namespace Pyttb
open Format

/-! ### round trips (for all shapes, orders, ranks, sparsity patterns, stored orders) -/

/-- A dense tensor of any order ≥ 1 (1-way, singleton and even empty modes included) written by
`export_data` and read by `import_data` comes back with the same shape and the same values in
the same (first-subscript-fastest) positions. -/
theorem C16_roundtrip_dense {α τ : Type} (fmt : α → τ) (parse : τ → α) (ofInt : Int → α)
    (hp : ∀ v, parse (fmt v) = v) (T : Dense α) (h : (Obj.dense T).WF) :
    decode parse ofInt 1 (encode fmt (.dense T)) = .ok (.dense T) :=
  roundtrip_dense fmt parse ofInt hp 1 T h

/-- A sparse tensor comes back with the same shape, the same subscripts, the same values and
the same stored order of its nonzeros (sorted or not; no nonzeros at all included). -/
theorem C16_roundtrip_sparse {α τ : Type} (fmt : α → τ) (parse : τ → α) (ofInt : Int → α)
    (hp : ∀ v, parse (fmt v) = v) (shape : List Nat) (subs : List (List Int)) (vals : List α)
    (h : (Obj.sparse shape subs vals).WF) :
    decode parse ofInt 1 (encode fmt (.sparse shape subs vals)) = .ok (.sparse shape subs vals) :=
  roundtrip_sparse fmt parse ofInt hp 1 shape subs vals h

/-- A Kruskal tensor of any rank ≥ 1 and any number ≥ 1 of modes comes back with the same
weights and the same factor matrices (same shapes – square or not – same entries in the same
places); the size line of every factor block agrees with the header and the rank line, which
`import_data` checks. -/
theorem C16_roundtrip_ktensor {α τ : Type} (fmt : α → τ) (parse : τ → α) (ofInt : Int → α)
    (hp : ∀ v, parse (fmt v) = v) (w : List α) (fs : List (NdC α)) (h : (Obj.ktensor w fs).WF) :
    decode parse ofInt 1 (encode fmt (.ktensor w fs)) = .ok (.ktensor w fs) :=
  roundtrip_ktensor fmt parse ofInt hp 1 w fs h

/-- A matrix (any NumPy array of order ≥ 1, entries in row-major order) comes back with the
same shape and the same entries in the same places. -/
theorem C16_roundtrip_matrix {α τ : Type} (fmt : α → τ) (parse : τ → α) (ofInt : Int → α)
    (hp : ∀ v, parse (fmt v) = v) (A : NdC α) (h : (Obj.matrix A).WF) :
    decode parse ofInt 1 (encode fmt (.matrix A)) = .ok (.matrix A) :=
  roundtrip_matrix fmt parse ofInt hp 1 A h

/-- The Kruskal round trip in the representation the other properties use (`Ktensor`: a factor
is its list of rows): when every row of every factor has one entry per weight, the file written
for it decodes to the very same weights and rows. -/
theorem C16_roundtrip_ktensor_rows {α τ : Type} (fmt : α → τ) (parse : τ → α) (ofInt : Int → α)
    (hp : ∀ v, parse (fmt v) = v) (K : Ktensor α) (hR : 0 < K.weights.length) (hne : K.factors ≠ [])
    (hrows : ∀ M ∈ K.factors, ∀ row ∈ M, row.length = K.weights.length) :
    decode parse ofInt 1 (encode fmt (ofKtensor K)) = .ok (ofKtensor K) ∧
    ∀ M ∈ K.factors, rowsOf (ofMat K.weights.length M) = M :=
  ⟨roundtrip_ktensor fmt parse ofInt hp 1 _ _ (ofKtensor_wf K hR hne hrows),
   fun M hM => rowsOf_ofMat K.weights.length M (hrows M hM)⟩

/-! ### index base -/

/-- The file of a sparse tensor has four header lines and one line per stored entry, in stored
order; on the line of entry `k` the token of mode `j` is the stored subscript plus one and the
last token is the entry's value. -/
theorem C16_one_based {α τ : Type} (fmt : α → τ) (shape : List Nat) (subs : List (List Int))
    (vals : List α) (hlen : subs.length = vals.length) :
    (encode fmt (.sparse shape subs vals)).length = 4 + subs.length ∧
    ∀ (k : Nat) (hk : k < subs.length),
      ∃ line, (encode fmt (.sparse shape subs vals))[4 + k]? = some line ∧
        line.length = subs[k].length + 1 ∧
        (∀ (j : Nat) (hj : j < subs[k].length), line[j]? = some (Token.int (subs[k][j] + 1))) ∧
        line[subs[k].length]? = some (Token.val (fmt (vals[k]'(hlen ▸ hk)))) :=
  one_based fmt shape subs vals hlen

/-- A file whose subscripts are written with base `b` (stored subscript + `b`; `b = 0` for
0-based tools, any integer) is read back exactly when that base is given – and the base is
irrelevant for dense tensors, Kruskal tensors and matrices. -/
theorem C16_index_base {α τ : Type} (fmt : α → τ) (parse : τ → α) (ofInt : Int → α)
    (hp : ∀ v, parse (fmt v) = v) (b : Int) (o : Obj α) (h : o.WF) :
    decode parse ofInt b (encodeBase fmt b o) = .ok o ∧
    ((∀ shape subs vals, o ≠ .sparse shape subs vals) → encodeBase fmt b o = encode fmt o) := by
  constructor
  · cases o with
    | dense T => exact roundtrip_dense fmt parse ofInt hp b T h
    | sparse shape subs vals => exact roundtrip_sparse fmt parse ofInt hp b shape subs vals h
    | ktensor w fs => exact roundtrip_ktensor fmt parse ofInt hp b w fs h
    | matrix A => exact roundtrip_matrix fmt parse ofInt hp b A h
  · intro hne
    cases o with
    | sparse s' subs' vals' => exact absurd rfl (hne s' subs' vals')
    | dense T => rfl
    | ktensor w fs => rfl
    | matrix A => rfl

/-- Reading with another base than the file was written with: every subscript comes back
shifted by the difference (values and stored order unchanged) when all shifted subscripts are
still inside the shape, and the file is rejected otherwise. -/
theorem C16_wrong_base_shift {α τ : Type} (fmt : α → τ) (parse : τ → α) (ofInt : Int → α)
    (hp : ∀ v, parse (fmt v) = v) (b b' : Int) (shape : List Nat) (subs : List (List Int)) (vals : List α)
    (hs : shape ≠ []) (hlen : subs.length = vals.length) (hrow : ∀ s ∈ subs, s.length = shape.length) :
    decode parse ofInt b (encodeBase fmt b' (.sparse shape subs vals)) =
      if (subs.map fun s => s.map fun i => i + b' - b).all (fits shape) then
        .ok (.sparse shape (subs.map fun s => s.map fun i => i + b' - b) vals)
      else .error .reject :=
  decode_sparse_shift fmt parse ofInt hp b b' shape subs vals hs hlen hrow

/-- In particular a file read with a base so large that some subscript would become negative
(a 1-based file holding a subscript 1 read with `index_base=2`, …) is rejected: the `sptensor`
constructor refuses negative subscripts. -/
theorem C16_wrong_base_rejected {α τ : Type} (fmt : α → τ) (parse : τ → α) (ofInt : Int → α)
    (hp : ∀ v, parse (fmt v) = v) (b b' : Int) (shape : List Nat) (subs : List (List Int)) (vals : List α)
    (hs : shape ≠ []) (hlen : subs.length = vals.length) (hrow : ∀ s ∈ subs, s.length = shape.length)
    (hneg : ∃ s ∈ subs, ∃ i ∈ s, i + b' < b) :
    decode parse ofInt b (encodeBase fmt b' (.sparse shape subs vals)) = .error .reject :=
  decode_sparse_negative_rejected fmt parse ofInt hp b b' shape subs vals hs hlen hrow hneg

/-- Giving the base is needed: the one-entry 1-way tensor written 1-based is rejected when
read with base 0 (its subscript lands above the shape) and when read with base 2 (its
subscript would be −1); a 0-based file of the tensor with one entry at subscript 1 of 3 read
with the default base 1 is silently another tensor (entry at subscript 0). -/
theorem C16_index_base_needed_witness :
    decode (α := Nat) (τ := Nat) id Int.toNat 0 (encode id (.sparse [1] [[0]] [7])) = .error .reject ∧
    decode (α := Nat) (τ := Nat) id Int.toNat 2 (encode id (.sparse [1] [[0]] [7])) = .error .reject ∧
    decode (α := Nat) (τ := Nat) id Int.toNat 1 (encodeBase id 0 (.sparse [3] [[1]] [7])) =
      .ok (.sparse [3] [[0]] [7]) := by
  refine ⟨?_, ?_, ?_⟩ <;> rfl

/-! ### rejection -/

/-- `import_data` refuses a file whose first token is not one of the four type words (an
unknown word, a number, a blank first line, an empty file), and a file of any type whose
order line disagrees with the number of extents on the size line (or whose size line is
blank). -/
theorem C16_decode_rejects {α τ : Type} (parse : τ → α) (ofInt : Int → α) (b : Int) :
    (∀ (w : String) (l : Line τ) (rest : File τ), w ∉ ["tensor", "sptensor", "matrix", "ktensor"] →
        decode parse ofInt b ((.word w :: l) :: rest) = .error .reject) ∧
    (∀ (n : Int) (l : Line τ) (rest : File τ), decode parse ofInt b ((.int n :: l) :: rest) = .error .reject) ∧
    (∀ (t : τ) (l : Line τ) (rest : File τ), decode parse ofInt b ((.val t :: l) :: rest) = .error .reject) ∧
    (∀ (rest : File τ), decode parse ofInt b ([] :: rest) = .error .reject) ∧
    decode parse ofInt b ([] : File τ) = .error .reject ∧
    (∀ (w : String) (junk0 junk : Line τ) (n : Int) (t : Token τ) (extents : Line τ) (rest : File τ),
        w ∈ ["tensor", "sptensor", "matrix", "ktensor"] → ((t :: extents).length : Int) ≠ n →
        decode parse ofInt b ((.word w :: junk0) :: (.int n :: junk) :: (t :: extents) :: rest) = .error .reject) ∧
    (∀ (w : String) (junk0 junk : Line τ) (n : Int) (rest : File τ),
        w ∈ ["tensor", "sptensor", "matrix", "ktensor"] →
        decode parse ofInt b ((.word w :: junk0) :: (.int n :: junk) :: [] :: rest) = .error .reject) :=
  decode_rejects parse ofInt b

/-- A ktensor file whose first factor block announces a size other than (first header extent,
rank) is refused ("Imported factor matrix does not match the header"): the header sizes and
the rank line are binding, not only the number of modes. -/
theorem C16_ktensor_header_checked {α τ : Type} (fmt : α → τ) (parse : τ → α) (ofInt : Int → α)
    (hp : ∀ v, parse (fmt v) = v) (b : Int) (d : Nat) (ds : List Nat) (w : List α) (hw : 0 < w.length)
    (fshape : List Nat) (rest : File τ) (hne : fshape ≠ []) (hmis : fshape ≠ [d, w.length]) :
    decode parse ofInt b ([.word "ktensor"] :: (sizeLines (d :: ds) ++ [[.int w.length]] ++ [w.map (tokV fmt)] ++
      ([.word "matrix"] :: (sizeLines fshape ++ rest)))) = .error .reject :=
  decode_ktensor_header_mismatch fmt parse ofInt hp b d ds w hw fshape rest hne hmis

/-- Rank ≥ 1 is needed: the file `export_data` writes for a rank-0 Kruskal tensor is refused
by `import_data` (after reading zero weights `np.fromfile` does not move past the blank
weights line, so that line is taken for the `matrix` line). -/
theorem C16_rank_positive_needed_witness :
    decode (α := Nat) (τ := Nat) id Int.toNat 1 (encode id (.ktensor [] [⟨[3, 0], []⟩])) = .error .reject := by
  rfl

/-! ### the hypotheses are satisfiable by non-trivial objects -/

/-- `fmt = parse = id` meets the premise. -/
example : ∀ v : Nat, (id : Nat → Nat) ((id : Nat → Nat) v) = v := fun _ => rfl

/-- a 2×3 dense tensor, a 1-way one and one with a singleton mode -/
example : (Obj.dense ⟨[2, 3], [1, 2, 3, 4, 5, 6]⟩ : Obj Nat).WF ∧ (Obj.dense ⟨[3], [7, 8, 9]⟩ : Obj Nat).WF ∧
    (Obj.dense ⟨[2, 1, 2], [1, 2, 3, 4]⟩ : Obj Nat).WF := by
  refine ⟨wf_of_wfb _ ?_, wf_of_wfb _ ?_, wf_of_wfb _ ?_⟩ <;> decide

/-- a 2×3×4 sparse tensor with three nonzeros stored out of order, and an empty one -/
example : (Obj.sparse [2, 3, 4] [[1, 2, 3], [0, 0, 0], [1, 0, 2]] [5, 6, 7] : Obj Nat).WF ∧
    (Obj.sparse [2, 3] [] [] : Obj Nat).WF := by
  refine ⟨wf_of_wfb _ ?_, wf_of_wfb _ ?_⟩ <;> decide

/-- a rank-2 Kruskal tensor with a 3×2 and a 1×2 factor; a 2×3 matrix -/
example : (Obj.ktensor [7, 8] [⟨[3, 2], [1, 2, 3, 4, 5, 6]⟩, ⟨[1, 2], [9, 10]⟩] : Obj Nat).WF ∧
    (Obj.matrix ⟨[2, 3], [1, 2, 3, 4, 5, 6]⟩ : Obj Nat).WF := by
  refine ⟨wf_of_wfb _ ?_, wf_of_wfb _ ?_⟩ <;> decide

/-- the model really computes: the file of the Kruskal tensor above, and its decoding -/
example : encode (α := Nat) (τ := Nat) id (.ktensor [7, 8] [⟨[3, 2], [1, 2, 3, 4, 5, 6]⟩, ⟨[1, 2], [9, 10]⟩]) =
    [[.word "ktensor"], [.int 2], [.int 3, .int 1], [.int 2], [.val 7, .val 8],
     [.word "matrix"], [.int 2], [.int 3, .int 2], [.val 1, .val 2], [.val 3, .val 4], [.val 5, .val 6],
     [.word "matrix"], [.int 2], [.int 1, .int 2], [.val 9, .val 10]] := by decide

example : decode (α := Nat) (τ := Nat) id Int.toNat 1
    [[.word "sptensor"], [.int 2], [.int 2, .int 3], [.int 2], [.int 2, .int 3, .val 5], [.int 1, .int 1, .val 6]] =
    .ok (.sparse [2, 3] [[1, 2], [0, 0]] [5, 6]) := by rfl

end Pyttb
