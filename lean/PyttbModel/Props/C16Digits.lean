/-
C16 — why `parse (fmt v) = v` holds for `"%.16e"`: 17 significant decimal digits identify a
binary64 value.

The round-trip theorems of `Props/C16.lean` assume `∀ v, parse (fmt v) = v`.  Here that premise
is reduced to the contracts of libc: *printf writes a nearest 17-digit decimal* and *strtod returns
a nearest binary64 value* (ties broken in any way).  The arithmetic in between is proved for every
finite nonzero binary64 value, normal and subnormal, over the whole exponent range:
`x = ±m·2^e` with `−1074 ≤ e ≤ 971` and `2^52 ≤ m < 2^53`, or `1 ≤ m < 2^52` and `e = −1074`
(`IO/Digits.lean`: `B64`, `Dec`, `IsNearestDec`, `IsNearestBin`; proofs in `Lemmas/Digits.lean`).

The argument: a nearest 17-digit decimal `y` of `x` is within `|x|/(2·10^16)` of `x`; two distinct
binary64 values `x ≠ z` are further apart than `|x|/10^16` (worst case `x = 2^j`, `z` its lower
neighbour: `|x|/2^53`, and `2^53 < 10^16`); so every other binary64 value is strictly further
from `y` than `x` is.
-/
import PyttbModel.Lemmas.Digits
namespace Pyttb
open Digits

/-- The margin: `2^53 < 10^16` (so 17 digits suffice), while `10^15 < 2^53` (so 16 do not). -/
theorem C16_digits_margin : (2 : ℕ) ^ 53 < 10 ^ 16 ∧ (10 : ℕ) ^ 15 < 2 ^ 53 := by
  constructor <;> norm_num

/-- Distinct finite binary64 values are far apart relative to their size: for a positive binary64
value `x = m·2^e` and any other finite binary64 value `z` (zero, any sign, normal or subnormal,
any binade – in particular the closer lower neighbour of a power of two), `x < 10^16·|x − z|`. -/
theorem C16_digits_gap (m : ℕ) (e : ℤ) (he : -1074 ≤ e ∧ e ≤ 971)
    (hm : (2 ^ 52 ≤ m ∧ m < 2 ^ 53) ∨ (1 ≤ m ∧ m < 2 ^ 52 ∧ e = -1074))
    (z : ℚ) (hz : z = 0 ∨ ∃ b : B64, b.WF ∧ b.toRat = z) (hne : z ≠ (m : ℚ) * 2 ^ e) :
    (m : ℚ) * 2 ^ e < 10 ^ 16 * |(m : ℚ) * 2 ^ e - z| :=
  gap_all (m := m) (e := e) ⟨he.1, he.2, hm⟩ z hz hne

/-- A nearest 17-digit decimal `y` of a positive rational `x` (any magnitude) is within half a
unit of the 17th digit: `2·10^16·|x − y| ≤ x`. -/
theorem C16_digits_decimal_close (x : ℚ) (hx : 0 < x) (y : Dec) (hy : IsNearestDec 17 x y) :
    2 * 10 ^ 16 * |x - y.toRat| ≤ x := by
  refine near_dec hx ?_
  rintro z ⟨w, hw, rfl⟩
  have := hy.2 w hw
  rwa [dist_eq, dist_eq] at this

/-- **17 digits round-trip.**  For every finite nonzero binary64 value `x = ±m·2^e`
(`−1074 ≤ e ≤ 971`; normal `2^52 ≤ m < 2^53`, or subnormal `1 ≤ m < 2^52` with `e = −1074`),
every nearest 17-significant-digit decimal `y` of `x` (ties in any way) and every finite binary64
value `x'` nearest to `y` (among zero and all finite nonzero binary64 values, ties in any way):
`x' = x` – same sign, same mantissa, same exponent. -/
theorem C16_digits_roundtrip (neg : Bool) (m : ℕ) (e : ℤ) (he : -1074 ≤ e ∧ e ≤ 971)
    (hm : (2 ^ 52 ≤ m ∧ m < 2 ^ 53) ∨ (1 ≤ m ∧ m < 2 ^ 52 ∧ e = -1074))
    (y : Dec) (hy : IsNearestDec 17 (B64.toRat ⟨neg, m, e⟩) y)
    (x' : B64) (hx' : IsNearestBin y.toRat x') : x' = ⟨neg, m, e⟩ := by
  have hwf : (B64.mk neg m e).WF := ⟨he.1, he.2, hm⟩
  refine B64.toRat_inj hx'.1 hwf ?_
  refine roundtrip_val ⟨_, hwf, rfl⟩ y.toRat x'.toRat ?_ (Or.inr ⟨x', hx'.1, rfl⟩) ?_
  · rintro z ⟨w, hw, rfl⟩
    have := hy.2 w hw
    rwa [dist_eq, dist_eq] at this
  · have := hx'.2.2 _ hwf
    rwa [dist_eq, dist_eq] at this

/-- The same with the strtod side weakened to what is used: `x'` is zero or a finite binary64
value (as a rational) that is merely *at least as close to `y` as `x` is*.  Then `x' = x`; in
particular the parsed value is never zero and never a neighbour. -/
theorem C16_digits_roundtrip_value (x : B64) (hx : x.WF) (y : Dec) (hy : IsNearestDec 17 x.toRat y)
    (q : ℚ) (hq : q = 0 ∨ ∃ b : B64, b.WF ∧ b.toRat = q) (hn : dist y.toRat q ≤ dist y.toRat x.toRat) :
    q = x.toRat := by
  refine roundtrip_val ⟨x, hx, rfl⟩ y.toRat q ?_ hq ?_
  · rintro z ⟨w, hw, rfl⟩
    have := hy.2 w hw
    rwa [dist_eq, dist_eq] at this
  · rwa [dist_eq, dist_eq] at hn

/-- The hypotheses of `C16_digits_roundtrip` are always satisfiable together: `x` itself is a
nearest binary64 value of each of its nearest 17-digit decimals (strictly nearer than all
others, by the theorem). -/
theorem C16_digits_self_nearest (x : B64) (hx : x.WF) (y : Dec) (hy : IsNearestDec 17 x.toRat y) :
    IsNearestBin y.toRat x := by
  refine ⟨hx, ?_, ?_⟩
  · by_contra hc
    have := C16_digits_roundtrip_value x hx y hy 0 (Or.inl rfl) (le_of_lt (not_le.1 hc))
    have hpos := bval_pos ((B64.wf_iff x).1 hx)
    rw [B64.toRat_eq] at this
    cases hn : x.neg <;> simp [hn] at this <;> linarith
  · intro z hz
    by_contra hc
    have := C16_digits_roundtrip_value x hx y hy z.toRat (Or.inr ⟨z, hz, rfl⟩) (le_of_lt (not_le.1 hc))
    rw [this] at hc
    exact hc (le_refl _)

set_option exponentiation.threshold 2000 in
/-- No overflow: a nearest 17-digit decimal of a finite binary64 value lies strictly below the
point `(2^53 − 1/2)·2^971` from which IEEE round-to-nearest returns infinity, so "nearest finite
value" is what a correctly rounding `strtod` returns for it. -/
theorem C16_digits_no_overflow (x : B64) (hx : x.WF) (y : Dec) (hy : IsNearestDec 17 x.toRat y) :
    |y.toRat| < (2 ^ 53 - 1 / 2) * 2 ^ 971 := by
  have hb : bval x.m x.e ≤ (2 ^ 53 - 1) * 2 ^ 971 := by
    obtain ⟨h1, h2, h3⟩ := (B64.wf_iff x).1 hx
    have hmle : (x.m : ℚ) ≤ 2 ^ 53 - 1 := by
      have : x.m + 1 ≤ 2 ^ 53 := by rcases h3 with h | h <;> omega
      have : ((x.m + 1 : ℕ) : ℚ) ≤ ((2 ^ 53 : ℕ) : ℚ) := by exact_mod_cast this
      push_cast at this; linarith
    have hele : (2 : ℚ) ^ x.e ≤ (2 : ℚ) ^ (971 : ℤ) := zpow_le_zpow_right₀ (by norm_num) h2
    have h971 : (2 : ℚ) ^ (971 : ℤ) = 2 ^ 971 := by norm_cast
    unfold bval
    calc (x.m : ℚ) * 2 ^ x.e ≤ (2 ^ 53 - 1) * 2 ^ x.e :=
          mul_le_mul_of_nonneg_right hmle (zpow_pos (by norm_num) _).le
      _ ≤ (2 ^ 53 - 1) * 2 ^ 971 := by
          rw [← h971]; exact mul_le_mul_of_nonneg_left hele (by norm_num)
  have hpos := bval_pos ((B64.wf_iff x).1 hx)
  have key : ∀ (w : ℚ), (∀ z, DecVal 17 z → |bval x.m x.e - w| ≤ |bval x.m x.e - z|) →
      |w| < (2 ^ 53 - 1 / 2) * 2 ^ 971 := by
    intro w hw
    have hc := near_dec hpos hw
    have h1 : |w| ≤ bval x.m x.e + |bval x.m x.e - w| := by
      have := abs_sub_abs_le_abs_sub w (bval x.m x.e)
      rw [abs_of_pos hpos, abs_sub_comm] at this
      linarith
    have hP : (0 : ℚ) < 2 ^ 971 := by positivity
    nlinarith
  have hyv : ∀ z, DecVal 17 z → |x.toRat - y.toRat| ≤ |x.toRat - z| := by
    rintro z ⟨w, hw, rfl⟩
    have := hy.2 w hw
    rwa [dist_eq, dist_eq] at this
  rw [B64.toRat_eq] at hyv
  cases hn : x.neg
  · simp only [hn, Bool.false_eq_true, if_false] at hyv
    exact key _ hyv
  · simp only [hn, if_true] at hyv
    rw [← abs_neg]
    refine key _ fun z hz => ?_
    have := hyv (-z) hz.neg
    rw [show bval x.m x.e - -y.toRat = -(-bval x.m x.e - y.toRat) by ring, abs_neg,
      show bval x.m x.e - z = -(-bval x.m x.e - -z) by ring, abs_neg]
    exact this

/-- The decision procedure of the model for "nearest `P`-digit decimal" (compare with the two
neighbouring `P`-digit decimals) is sound for every `x ≠ 0` and decimal of the sign of `x`:
no other `P`-digit decimal, of any exponent or sign, is closer.  The harness runs this procedure
on every token the real `"%.16e" % v` prints. -/
theorem C16_digits_nearest_decision_sound (P : ℕ) (x : ℚ) (y : Dec)
    (hs : (0 < x ∧ y.neg = false) ∨ (x < 0 ∧ y.neg = true)) (h : nearestDecB P x y = true) :
    IsNearestDec P x y :=
  nearestDecB_sound P x y hs h

/-- The decision procedure of the model for "nearest finite binary64 value" (compare with the two
neighbouring binary64 values; zero below the least subnormal, `2^1024` above the largest finite
value) is sound for every `y ≠ 0` and value of the sign of `y`: no other finite binary64 value,
of any binade or sign, and not zero, is closer.  The harness runs this procedure on every pair
(token printed, value read back) of the real export/import. -/
theorem C16_digits_nearest_bin_decision_sound (y : ℚ) (x : B64)
    (hs : (0 < y ∧ x.neg = false) ∨ (y < 0 ∧ x.neg = true)) (h : nearestBinB y x = true) :
    IsNearestBin y x :=
  nearestBinB_sound y x hs h

/-- **Connection to the round-trip theorems.**  Let values `α` be finite doubles seen through
`bin` (`none` for a zero, else the sign/mantissa/exponent triple) and `sgn` (the sign bit), which
together determine the value; let tokens `τ` be seen through `dec` (`none` for a zero token
`±0.0000000000000000e+00`, else the 17-digit decimal printed) and `tsgn`.  If
* `fmt` prints a nearest 17-digit decimal of every nonzero value and a zero token with the
  value's sign for a zero (the contract of a correctly rounding `printf("%.16e")`), and
* `parse` returns, on the tokens `fmt` produces, a finite value nearest to the decimal read
  (zero being a competitor) and the zero of the token's sign for a zero token (the contract of a
  correctly rounding `strtod`),
then `∀ v, parse (fmt v) = v`, which is the premise `hp` of every `C16_roundtrip_*` theorem. -/
theorem C16_digits_discharges_hypothesis {α τ : Type} (fmt : α → τ) (parse : τ → α)
    (bin : α → Option B64) (sgn : α → Bool) (dec : τ → Option Dec) (tsgn : τ → Bool)
    (hinj : ∀ a b, bin a = bin b → (bin a = none → sgn a = sgn b) → a = b)
    (hwf : ∀ a x, bin a = some x → x.WF)
    (hfmt : ∀ a x, bin a = some x → ∃ y, dec (fmt a) = some y ∧ IsNearestDec 17 x.toRat y)
    (hfmt0 : ∀ a, bin a = none → dec (fmt a) = none ∧ tsgn (fmt a) = sgn a)
    (hparse : ∀ a y, dec (fmt a) = some y →
      (∀ z : B64, z.WF → dist y.toRat (match bin (parse (fmt a)) with | none => 0 | some b => b.toRat)
          ≤ dist y.toRat z.toRat) ∧
      dist y.toRat (match bin (parse (fmt a)) with | none => 0 | some b => b.toRat) ≤ dist y.toRat 0)
    (hparse0 : ∀ a, dec (fmt a) = none →
      bin (parse (fmt a)) = none ∧ sgn (parse (fmt a)) = tsgn (fmt a)) :
    ∀ v, parse (fmt v) = v := by
  intro v
  cases hb : bin v with
  | none =>
    obtain ⟨h1, h2⟩ := hfmt0 v hb
    obtain ⟨h3, h4⟩ := hparse0 v h1
    exact hinj _ _ (by rw [h3, hb]) (fun _ => by rw [h4, h2])
  | some x =>
    have hx := hwf v x hb
    obtain ⟨y, hy1, hy2⟩ := hfmt v x hb
    obtain ⟨hp1, hp2⟩ := hparse v y hy1
    cases hp : bin (parse (fmt v)) with
    | none =>
      exfalso
      rw [hp] at hp1
      have := C16_digits_roundtrip_value x hx y hy2 0 (Or.inl rfl) (hp1 x hx)
      have hpos := bval_pos ((B64.wf_iff x).1 hx)
      rw [B64.toRat_eq] at this
      cases hn : x.neg <;> simp [hn] at this <;> linarith
    | some x' =>
      rw [hp] at hp1 hp2
      have hx'wf := hwf _ x' hp
      have : x' = x := by
        obtain ⟨n, m, e⟩ := x
        exact C16_digits_roundtrip n m e ⟨hx.1, hx.2.1⟩ hx.2.2 y hy2 x' ⟨hx'wf, hp2, hp1⟩
      refine hinj _ _ (by rw [hp, hb, this]) (fun h => ?_)
      rw [hp] at h; cases h

/-- **16 digits are not enough.**  The double `0.1 + 0.2 = 5404319552844596·2^-54`
(`0.30000000000000004`): its nearest 16-digit decimal is `3.000000000000000e-01`, whose nearest
binary64 value is the other double `0.3 = 5404319552844595·2^-54`, strictly closer to that
decimal – so no nearest binary64 value of the printed token is the value written (`"%.15e"`
would lose it). -/
theorem C16_digits_16_not_enough :
    let x : B64 := ⟨false, 5404319552844596, -54⟩
    let x2 : B64 := ⟨false, 5404319552844595, -54⟩
    let y : Dec := ⟨false, 3000000000000000, -16⟩
    x.WF ∧ x2.WF ∧ IsNearestDec 16 x.toRat y ∧ IsNearestBin y.toRat x2 ∧
      dist y.toRat x2.toRat < dist y.toRat x.toRat ∧ ∀ x' : B64, IsNearestBin y.toRat x' → x' ≠ x := by
  intro x x2 y
  have hx : x.WF := by decide
  have hx2 : x2.WF := by decide
  have hlt : dist y.toRat x2.toRat < dist y.toRat x.toRat := by
    rw [dist_eq, dist_eq, B64.toRat_eq, B64.toRat_eq, Dec.toRat_eq]
    norm_num [x, x2, y, bval, dval, abs_lt]
  refine ⟨hx, hx2, ?_, ?_, hlt, ?_⟩
  rotate_left
  · refine nearestBinB_sound _ x2 (Or.inl ⟨?_, rfl⟩) ?_
    · rw [Dec.toRat_eq]; exact dval_pos (P := 16) (by decide)
    · have hu : x2.up = some ⟨false, 5404319552844596, -54⟩ := by
        show B64.up ⟨false, 5404319552844595, -54⟩ = some ⟨false, 5404319552844596, -54⟩
        decide
      have hd : x2.down = some ⟨false, 5404319552844594, -54⟩ := by
        show B64.down ⟨false, 5404319552844595, -54⟩ = some ⟨false, 5404319552844594, -54⟩
        decide
      unfold nearestBinB
      rw [hu, hd]
      simp only [Bool.and_eq_true, decide_eq_true_eq]
      refine ⟨⟨hx2, ?_⟩, ?_⟩
      · rw [dist_eq, dist_eq, B64.toRat_eq, B64.toRat_eq, Dec.toRat_eq]
        norm_num [x2, y, bval, dval]
      · rw [dist_eq, dist_eq, B64.toRat_eq, B64.toRat_eq, Dec.toRat_eq]
        norm_num [x2, y, bval, dval]
  rotate_left
  · refine nearestDecB_sound 16 _ y (Or.inl ⟨?_, rfl⟩) ?_
    · rw [B64.toRat_eq]; exact bval_pos hx
    · unfold nearestDecB
      simp only [Bool.and_eq_true, decide_eq_true_eq]
      refine ⟨⟨by decide, ?_⟩, ?_⟩
      · rw [dist_eq, dist_eq, B64.toRat_eq, Dec.toRat_eq, Dec.toRat_eq]
        norm_num [x, y, Dec.up, bval, dval]
      · rw [dist_eq, dist_eq, B64.toRat_eq, Dec.toRat_eq, Dec.toRat_eq]
        norm_num [x, y, Dec.down, bval, dval]
  · intro x' hx' heq
    have := hx'.2.2 x2 hx2
    rw [heq] at this
    exact absurd this (not_le.2 hlt)

/-! ### the hypotheses are satisfiable by non-trivial concrete inputs -/

/-- `0.1 = 7205759403792794·2^-56` prints as `1.0000000000000001e-01`: that token is a nearest
17-digit decimal of it (so by `C16_digits_self_nearest` both hypotheses of the theorem hold). -/
theorem C16_digits_tenth_witness : (B64.mk false 7205759403792794 (-56)).WF ∧
    IsNearestDec 17 (B64.mk false 7205759403792794 (-56)).toRat ⟨false, 10000000000000001, -17⟩ := by
  refine ⟨by decide, nearestDecB_sound 17 _ _ (Or.inl ⟨?_, rfl⟩) ?_⟩
  · rw [B64.toRat_eq]; exact bval_pos (show (B64.mk false 7205759403792794 (-56)).WF by decide)
  · unfold nearestDecB
    simp only [Bool.and_eq_true, decide_eq_true_eq]
    refine ⟨⟨by decide, ?_⟩, ?_⟩
    · rw [dist_eq, dist_eq, B64.toRat_eq, Dec.toRat_eq, Dec.toRat_eq]
      norm_num [Dec.up, bval, dval]
    · rw [dist_eq, dist_eq, B64.toRat_eq, Dec.toRat_eq, Dec.toRat_eq]
      norm_num [Dec.down, bval, dval]

/-- The hypotheses of `C16_digits_discharges_hypothesis` are satisfiable by a world that holds
both zeros and a nonzero value whose decimal is not exact: `fmt`/`parse` map `+0.0`, `-0.0`, `0.1`
to the tokens `0.0…e+00`, `-0.0…e+00`, `1.0000000000000001e-01` and back. -/
example :
    let bin : DigitsDemo → Option B64 := fun a => match a with
      | .tenth => some ⟨false, 7205759403792794, -56⟩ | _ => none
    let sgn : DigitsDemo → Bool := fun a => match a with | .nz => true | _ => false
    let dec : DigitsDemo → Option Dec := fun t => match t with
      | .tenth => some ⟨false, 10000000000000001, -17⟩ | _ => none
    (∀ a b, bin a = bin b → (bin a = none → sgn a = sgn b) → a = b) ∧
    (∀ a x, bin a = some x → x.WF) ∧
    (∀ a x, bin a = some x → ∃ y, dec (id a) = some y ∧ IsNearestDec 17 x.toRat y) ∧
    (∀ a, bin a = none → dec (id a) = none ∧ sgn (id a) = sgn a) ∧
    (∀ a y, dec (id a) = some y →
      (∀ z : B64, z.WF → dist y.toRat (match bin (id (id a)) with | none => 0 | some b => b.toRat)
          ≤ dist y.toRat z.toRat) ∧
      dist y.toRat (match bin (id (id a)) with | none => 0 | some b => b.toRat) ≤ dist y.toRat 0) ∧
    (∀ a, dec (id a) = none → bin (id (id a)) = none ∧ sgn (id (id a)) = sgn (id a)) := by
  intro bin sgn dec
  obtain ⟨hwf, hnear⟩ := C16_digits_tenth_witness
  have hself := C16_digits_self_nearest _ hwf _ hnear
  refine ⟨?_, ?_, ?_, ?_, ?_, ?_⟩
  · intro a b; cases a <;> cases b <;> simp [bin, sgn]
  · intro a x h; cases a <;> simp [bin] at h; subst h; exact hwf
  · intro a x h; cases a <;> simp [bin] at h; subst h; exact ⟨_, rfl, hnear⟩
  · intro a h; cases a <;> simp [bin] at h <;> simp [dec]
  · intro a y h; cases a <;> simp [dec] at h; subst h
    exact ⟨hself.2.2, hself.2.1⟩
  · intro a h; cases a <;> simp [dec] at h <;> simp [bin]

/-- the least subnormal `2^-1074` and the largest finite value `(2^53−1)·2^971` are in range -/
example : (B64.mk true 1 (-1074)).WF ∧ (B64.mk false (2 ^ 53 - 1) 971).WF ∧
    (B64.mk false (2 ^ 52) (-1022)).WF := by decide

end Pyttb
