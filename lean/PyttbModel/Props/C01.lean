/-
C01 — converting between tensor representations preserves the tensor.
Only property theorems and non-vacuity examples; proofs are in Lemmas/Convert.lean; the Tucker and
sum-tensor expansions are proved with the multilinear kernels of C02 (Lemmas/MLTucker.lean,
Lemmas/MLSumFull.lean) and re-exported here under their C01 names.
-/
import PyttbModel.Lemmas.Convert
import PyttbModel.Lemmas.MLTucker
import PyttbModel.Lemmas.MLSumFull
import Mathlib.Algebra.Ring.Defs
namespace Pyttb

variable {α : Type}

/-! ### dense <-> sparse -/

/-- `tensor.to_sptensor()` denotes the same array. -/
theorem C01_toSparse_get [AddMonoid α] [DecidableEq α] (T : Dense α) (hT : T.WF) (i : List Nat)
    (hi : InBounds T.shape i) : T.toSparse.get i = T.get i := toSparse_get T hT i hi

/-- … is well-formed (one value per stored subscript, in bounds, distinct, no explicit zero)
and keeps the shape. -/
theorem C01_toSparse_wf [AddMonoid α] [DecidableEq α] (T : Dense α) (hT : T.WF) :
    T.toSparse.WF ∧ T.toSparse.shape = T.shape := toSparse_wf T hT

/-- … and reports as many nonzeros as the array has non-zero entries. -/
theorem C01_toSparse_nnz [AddMonoid α] [DecidableEq α] (T : Dense α) (hT : T.WF) :
    T.toSparse.nnz = T.nnz ∧
    T.nnz = ((allSubs T.shape).filter (fun i => !(T.get i == 0))).length := toSparse_nnz T hT

/-- `sptensor.full()` denotes the same array. -/
theorem C01_sp_full_at [AddMonoid α] [DecidableEq α] (S : Sparse α) (hS : S.WF) (i : List Nat)
    (hi : InBounds S.shape i) : S.full.get i = S.get i ∧ S.full.shape = S.shape ∧ S.full.WF :=
  sp_full_at S hS i hi

/-- dense → sparse → dense is the identity. -/
theorem C01_dense_sparse_dense [AddMonoid α] [DecidableEq α] (T : Dense α) (hT : T.WF) :
    T.toSparse.full = T := dense_sparse_dense T hT

/-- sparse → dense → sparse denotes the same array (everywhere) and is well-formed. -/
theorem C01_sparse_dense_sparse [AddMonoid α] [DecidableEq α] (S : Sparse α) (hS : S.WF) (i : List Nat) :
    S.full.toSparse.get i = S.get i ∧ S.full.toSparse.WF := sparse_dense_sparse S hS i

/-! ### dense matricization -/

/-- `to_tenmat(rdims=r, cdims=c)` for ANY ordered partition `r ++ c` of the modes (either side
may be empty): the entry of cell `i` sits in row `sub2ind shape[r] i[r]`, column
`sub2ind shape[c] i[c]` (listed modes enumerated first index fastest), and the object
reports the original shape, the split and a consistent matrix shape. -/
theorem C01_tenmat_entry [Zero α] (T : Dense α) (r c : List Nat) (hT : T.WF)
    (hp : isPermOf (r ++ c) T.shape.length = true) (i : List Nat) (hi : InBounds T.shape i) :
    ∃ M, T.toTenmat (some r) (some c) none = .ok M ∧ M.tshape = T.shape ∧ M.rdims = r ∧ M.cdims = c ∧
      M.data.shape = [numel (gather T.shape r), numel (gather T.shape c)] ∧ M.data.WF ∧
      M.data.get [sub2ind (gather T.shape r) (gather i r), sub2ind (gather T.shape c) (gather i c)]
        = T.get i := tenmat_entry T r c hT hp i hi

/-- matricizing and converting back returns the original tensor. -/
theorem C01_tenmat_roundtrip [Zero α] (T : Dense α) (r c : List Nat) (hT : T.WF)
    (hp : isPermOf (r ++ c) T.shape.length = true) :
    ∃ M, T.toTenmat (some r) (some c) none = .ok M ∧ M.toTensor = T := tenmat_roundtrip T r c hT hp

/-- a split that is not a partition of the modes is rejected. -/
theorem C01_tenmat_rejects [Zero α] (T : Dense α) (r c : List Nat)
    (hp : isPermOf (r ++ c) T.shape.length = false) :
    T.toTenmat (some r) (some c) none = .error .reject := tenmat_rejects T r c hp

/-- The single-row-mode conventions: forward cyclic `k+1,…,n-1,0,…,k-1`, backward cyclic
`k-1,…,0,n-1,…,k+1`, transposed (the mode becomes the column mode), and row modes alone
(columns are the remaining modes, increasing); each is a partition of the modes. -/
theorem C01_wrap_conventions (n k : Nat) (hk : k < n) (r : List Nat) :
    gatherWrapDims n (some [k]) none (some .fc) = .ok ([k], (List.range n).drop (k + 1) ++ List.range k) ∧
    gatherWrapDims n (some [k]) none (some .bc) =
      .ok ([k], (List.range k).reverse ++ ((List.range n).drop (k + 1)).reverse) ∧
    gatherWrapDims n (some [k]) none (some .t) = .ok ((List.range n).filter (· != k), [k]) ∧
    gatherWrapDims n (some r) none none = .ok (r, (List.range n).filter (fun m => !r.contains m)) ∧
    isPermOf ([k] ++ ((List.range n).drop (k + 1) ++ List.range k)) n = true ∧
    isPermOf ([k] ++ ((List.range k).reverse ++ ((List.range n).drop (k + 1)).reverse)) n = true ∧
    isPermOf ((List.range n).filter (· != k) ++ [k]) n = true := wrap_conventions n k hk r

/-! ### sparse matricization -/

/-! (`Sptenmat.get`, the denotation of a sparse matricized tensor at matrix cell `(a, b)`, is
defined in Ops/SptenmatGet.lean.) -/

/-- `sptensor.to_sptenmat(r, c)`: same cell placement as the dense matricization; the result
is well-formed as a sparse matrix and reports shape and split. -/
theorem C01_sptenmat_entry [AddCommMonoid α] [DecidableEq α] (S : Sparse α) (r c : List Nat) (hS : S.WF)
    (hp : isPermOf (r ++ c) S.shape.length = true) (i : List Nat) (hi : InBounds S.shape i) :
    ∃ M, S.toSptenmat (some r) (some c) none = .ok M ∧ M.tshape = S.shape ∧ M.rdims = r ∧ M.cdims = c ∧
      Sparse.WF (⟨M.mshape, M.subs, M.vals⟩ : Sparse α) ∧
      M.get (sub2ind (gather S.shape r) (gather i r)) (sub2ind (gather S.shape c) (gather i c)) = S.get i :=
  sptenmat_entry S r c hS hp i hi

/-- sparse → sparse-matricized → sparse denotes the same array and is well-formed. -/
theorem C01_sptenmat_roundtrip [AddCommMonoid α] [DecidableEq α] (S : Sparse α) (r c : List Nat) (hS : S.WF)
    (hp : isPermOf (r ++ c) S.shape.length = true) (i : List Nat) (hi : InBounds S.shape i) :
    ∃ M, S.toSptenmat (some r) (some c) none = .ok M ∧ M.toSparse.get i = S.get i ∧
      M.toSparse.shape = S.shape ∧ M.toSparse.WF := sptenmat_roundtrip S r c hS hp i hi

/-- expanding the sparse matricization equals matricizing the expanded tensor. -/
theorem C01_sptenmat_full [AddCommMonoid α] [DecidableEq α] (S : Sparse α) (r c : List Nat) (hS : S.WF)
    (hp : isPermOf (r ++ c) S.shape.length = true) (hpos : ∀ e ∈ S.shape, 1 ≤ e) :
    ∃ M D, S.toSptenmat (some r) (some c) none = .ok M ∧
      S.full.toTenmat (some r) (some c) none = .ok D ∧ M.full = D := sptenmat_full S r c hS hp hpos

/-! ### Kruskal -/

/-- `ktensor.full()` is `Σ_r λ_r ∏ₙ Aₙ[iₙ, r]` at every subscript, for every order `N ≥ 1`
(the 1-way case is the repaired code) and every rank. -/
theorem C01_kruskal_full [CommSemiring α] (K : Ktensor α) (hK : K.WF) (hN : 1 ≤ K.factors.length)
    (i : List Nat) (hi : InBounds K.shape i) :
    ∃ D, K.full = .ok D ∧ D.shape = K.shape ∧ D.WF ∧ D.get i = K.get i := kruskal_full K hK hN i hi

/-- The pinned code could not expand a 1-way Kruskal tensor. -/
theorem C01_kruskal_full_pinned_counterexample :
    Ktensor.fullG false (⟨[2], [[[1], [3]]]⟩ : Ktensor Int) = .error .reject ∧
    Ktensor.fullG true (⟨[2], [[[1], [3]]]⟩ : Ktensor Int) = .ok ⟨[2], [2, 6]⟩ := ⟨rfl, rfl⟩

/-! ### Tucker and sum tensors (the statements of `C02_tucker_full` / `C02_sum_full`) -/

/-- `ttensor.full()` (= `core.ttm(all factors)`) of a well-formed Tucker tensor (well-formed core,
one factor per core mode with as many columns as the core mode has entries): the dense result has
the Tucker tensor's shape and the entries `Σ_j G[j] ∏ₙ Uₙ[iₙ, jₙ]` (`Ttensor.get`).  Same statement
and proof as `C02_tucker_full`. -/
theorem C01_tucker_full [CommSemiring α] (T : Ttensor α) (hT : ML.TuckerWF T) (hN : 1 ≤ T.factors.length) :
    ∃ D, T.full = .ok D ∧ D.shape = T.shape ∧ D.WF ∧ ∀ i, InBounds D.shape i → D.get i = T.get i :=
  ML.tucker_full_spec T hT hN

/-- `sumtensor.full()` for parts of any representation (dense, sparse, Kruskal, Tucker) of one shape
with positive extents: the dense result has that shape and the entries `Σ_p ⟦p⟧[i]`.  Same statement
and proof as `C02_sum_full`. -/
theorem C01_sum_full [CommSemiring α] [DecidableEq α] (p0 : ML.Part α) (ps : List (ML.Part α))
    (hwf : ∀ p ∈ p0 :: ps, ML.PartWF p) (hsh : ∀ p ∈ ps, p.shape = p0.shape) (hpos : ∀ e ∈ p0.shape, 0 < e) :
    ∃ D, ML.Sumtensor.full (p0 :: ps) = .ok D ∧ D.shape = p0.shape ∧ D.WF ∧
      ∀ i, InBounds p0.shape i → D.get i = p0.get i + (ps.map fun p => p.get i).sum :=
  ML.sum_full_spec p0 ps hwf hsh hpos

/-- a 2 × 2 Tucker tensor with a 1 × 2 core is well-formed and expands. -/
example : ML.TuckerWF (⟨⟨[1, 2], [3, 4]⟩, [[[1], [2]], [[1, 0], [0, 1]]]⟩ : Ttensor Int) := ⟨rfl, rfl, by decide⟩
example : ∃ D, (⟨⟨[1, 2], [3, 4]⟩, [[[1], [2]], [[1, 0], [0, 1]]]⟩ : Ttensor Int).full = .ok D ∧ D.shape = [2, 2] := by
  obtain ⟨D, h, hs, _⟩ := C01_tucker_full (⟨⟨[1, 2], [3, 4]⟩, [[[1], [2]], [[1, 0], [0, 1]]]⟩ : Ttensor Int)
    ⟨rfl, rfl, by decide⟩ (by decide)
  exact ⟨D, h, hs⟩

example : (⟨[2, 2], [0, 5, 7, 0]⟩ : Dense Int).toSparse = ⟨[2, 2], [[1, 0], [0, 1]], [5, 7]⟩ := by decide
example : isPermOf ([2] ++ [0, 1]) 3 = true := by decide

end Pyttb
