/-
C01 — converting between tensor representations preserves the tensor.
Only property theorems and non-vacuity examples; proofs are in Lemmas/Convert.lean; the Tucker and
sum-tensor expansions are proved with the multilinear kernels of C02 (Lemmas/MLTucker.lean,
Lemmas/MLSumFull.lean) and re-exported here under their C01 names.
Second batch (reports, `double()` / `to_tensor()` of every class, `ktensor.to_tenmat`, chains of
conversions): models in Ops/ConvertChain.lean, proofs in Lemmas/Convert{Generic,Double,Chain,Reports}.lean.
-/
import PyttbModel.Lemmas.Convert
import PyttbModel.Lemmas.MLTucker
import PyttbModel.Lemmas.MLSumFull
import PyttbModel.Lemmas.ConvertReports
import Mathlib.Algebra.Ring.Defs
namespace Pyttb

variable {α : Type}

/-! ### dense <-> sparse -/

/-- `tensor.to_sptensor()` denotes the same array. -/
theorem C01_toSparse_get [AddMonoid α] [DecidableEq α] (T : Dense α) (hT : T.WF) (i : List Nat)
    (hi : InBounds T.shape i) : T.toSparse.get i = T.get i := toSparse_get T hT i hi

/-- … is well-formed (one value per stored subscript, in bounds, distinct, no explicit zero)
and keeps the shape. -/
theorem C01_toSparse_wf [AddMonoid α] [DecidableEq α] (T : Dense α) (hT : T.WF) :
    T.toSparse.WF ∧ T.toSparse.shape = T.shape := toSparse_wf T hT

/-- … and reports as many nonzeros as the array has non-zero entries. -/
theorem C01_toSparse_nnz [AddMonoid α] [DecidableEq α] (T : Dense α) (hT : T.WF) :
    T.toSparse.nnz = T.nnz ∧
    T.nnz = ((allSubs T.shape).filter (fun i => !(T.get i == 0))).length := toSparse_nnz T hT

/-- `sptensor.full()` denotes the same array. -/
theorem C01_sp_full_at [AddMonoid α] [DecidableEq α] (S : Sparse α) (hS : S.WF) (i : List Nat)
    (hi : InBounds S.shape i) : S.full.get i = S.get i ∧ S.full.shape = S.shape ∧ S.full.WF :=
  sp_full_at S hS i hi

/-- dense → sparse → dense is the identity. -/
theorem C01_dense_sparse_dense [AddMonoid α] [DecidableEq α] (T : Dense α) (hT : T.WF) :
    T.toSparse.full = T := dense_sparse_dense T hT

/-- sparse → dense → sparse denotes the same array (everywhere) and is well-formed. -/
theorem C01_sparse_dense_sparse [AddMonoid α] [DecidableEq α] (S : Sparse α) (hS : S.WF) (i : List Nat) :
    S.full.toSparse.get i = S.get i ∧ S.full.toSparse.WF := sparse_dense_sparse S hS i

/-! ### dense matricization -/

/-- `to_tenmat(rdims=r, cdims=c)` for ANY ordered partition `r ++ c` of the modes (either side
may be empty): the entry of cell `i` sits in row `sub2ind shape[r] i[r]`, column
`sub2ind shape[c] i[c]` (listed modes enumerated first index fastest), and the object
reports the original shape, the split and a consistent matrix shape. -/
theorem C01_tenmat_entry [Zero α] (T : Dense α) (r c : List Nat) (hT : T.WF)
    (hp : isPermOf (r ++ c) T.shape.length = true) (i : List Nat) (hi : InBounds T.shape i) :
    ∃ M, T.toTenmat (some r) (some c) none = .ok M ∧ M.tshape = T.shape ∧ M.rdims = r ∧ M.cdims = c ∧
      M.data.shape = [numel (gather T.shape r), numel (gather T.shape c)] ∧ M.data.WF ∧
      M.data.get [sub2ind (gather T.shape r) (gather i r), sub2ind (gather T.shape c) (gather i c)]
        = T.get i := tenmat_entry T r c hT hp i hi

/-- matricizing and converting back returns the original tensor. -/
theorem C01_tenmat_roundtrip [Zero α] (T : Dense α) (r c : List Nat) (hT : T.WF)
    (hp : isPermOf (r ++ c) T.shape.length = true) :
    ∃ M, T.toTenmat (some r) (some c) none = .ok M ∧ M.toTensor = T := tenmat_roundtrip T r c hT hp

/-- a split that is not a partition of the modes is rejected. -/
theorem C01_tenmat_rejects [Zero α] (T : Dense α) (r c : List Nat)
    (hp : isPermOf (r ++ c) T.shape.length = false) :
    T.toTenmat (some r) (some c) none = .error .reject := tenmat_rejects T r c hp

/-- The single-row-mode conventions: forward cyclic `k+1,…,n-1,0,…,k-1`, backward cyclic
`k-1,…,0,n-1,…,k+1`, transposed (the mode becomes the column mode), and row modes alone
(columns are the remaining modes, increasing); each is a partition of the modes. -/
theorem C01_wrap_conventions (n k : Nat) (hk : k < n) (r : List Nat) :
    gatherWrapDims n (some [k]) none (some .fc) = .ok ([k], (List.range n).drop (k + 1) ++ List.range k) ∧
    gatherWrapDims n (some [k]) none (some .bc) =
      .ok ([k], (List.range k).reverse ++ ((List.range n).drop (k + 1)).reverse) ∧
    gatherWrapDims n (some [k]) none (some .t) = .ok ((List.range n).filter (· != k), [k]) ∧
    gatherWrapDims n (some r) none none = .ok (r, (List.range n).filter (fun m => !r.contains m)) ∧
    isPermOf ([k] ++ ((List.range n).drop (k + 1) ++ List.range k)) n = true ∧
    isPermOf ([k] ++ ((List.range k).reverse ++ ((List.range n).drop (k + 1)).reverse)) n = true ∧
    isPermOf ((List.range n).filter (· != k) ++ [k]) n = true := wrap_conventions n k hk r

/-! ### sparse matricization -/

/-! (`Sptenmat.get`, the denotation of a sparse matricized tensor at matrix cell `(a, b)`, is
defined in Ops/SptenmatGet.lean.) -/

/-- `sptensor.to_sptenmat(r, c)`: same cell placement as the dense matricization; the result
is well-formed as a sparse matrix and reports shape and split. -/
theorem C01_sptenmat_entry [AddCommMonoid α] [DecidableEq α] (S : Sparse α) (r c : List Nat) (hS : S.WF)
    (hp : isPermOf (r ++ c) S.shape.length = true) (i : List Nat) (hi : InBounds S.shape i) :
    ∃ M, S.toSptenmat (some r) (some c) none = .ok M ∧ M.tshape = S.shape ∧ M.rdims = r ∧ M.cdims = c ∧
      Sparse.WF (⟨M.mshape, M.subs, M.vals⟩ : Sparse α) ∧
      M.get (sub2ind (gather S.shape r) (gather i r)) (sub2ind (gather S.shape c) (gather i c)) = S.get i :=
  sptenmat_entry S r c hS hp i hi

/-- sparse → sparse-matricized → sparse denotes the same array and is well-formed. -/
theorem C01_sptenmat_roundtrip [AddCommMonoid α] [DecidableEq α] (S : Sparse α) (r c : List Nat) (hS : S.WF)
    (hp : isPermOf (r ++ c) S.shape.length = true) (i : List Nat) (hi : InBounds S.shape i) :
    ∃ M, S.toSptenmat (some r) (some c) none = .ok M ∧ M.toSparse.get i = S.get i ∧
      M.toSparse.shape = S.shape ∧ M.toSparse.WF := sptenmat_roundtrip S r c hS hp i hi

/-- expanding the sparse matricization equals matricizing the expanded tensor. -/
theorem C01_sptenmat_full [AddCommMonoid α] [DecidableEq α] (S : Sparse α) (r c : List Nat) (hS : S.WF)
    (hp : isPermOf (r ++ c) S.shape.length = true) (hpos : ∀ e ∈ S.shape, 1 ≤ e) :
    ∃ M D, S.toSptenmat (some r) (some c) none = .ok M ∧
      S.full.toTenmat (some r) (some c) none = .ok D ∧ M.full = D := sptenmat_full S r c hS hp hpos

/-! ### Kruskal -/

/-- `ktensor.full()` is `Σ_r λ_r ∏ₙ Aₙ[iₙ, r]` at every subscript, for every order `N ≥ 1`
(the 1-way case is the repaired code) and every rank. -/
theorem C01_kruskal_full [CommSemiring α] (K : Ktensor α) (hK : K.WF) (hN : 1 ≤ K.factors.length)
    (i : List Nat) (hi : InBounds K.shape i) :
    ∃ D, K.full = .ok D ∧ D.shape = K.shape ∧ D.WF ∧ D.get i = K.get i := kruskal_full K hK hN i hi

/-- The pinned code could not expand a 1-way Kruskal tensor. -/
theorem C01_kruskal_full_pinned_counterexample :
    Ktensor.fullG false (⟨[2], [[[1], [3]]]⟩ : Ktensor Int) = .error .reject ∧
    Ktensor.fullG true (⟨[2], [[[1], [3]]]⟩ : Ktensor Int) = .ok ⟨[2], [2, 6]⟩ := ⟨rfl, rfl⟩

/-! ### Tucker and sum tensors (the statements of `C02_tucker_full` / `C02_sum_full`) -/

/-- `ttensor.full()` (= `core.ttm(all factors)`) of a well-formed Tucker tensor (well-formed core,
one factor per core mode with as many columns as the core mode has entries): the dense result has
the Tucker tensor's shape and the entries `Σ_j G[j] ∏ₙ Uₙ[iₙ, jₙ]` (`Ttensor.get`).  Same statement
and proof as `C02_tucker_full`. -/
theorem C01_tucker_full [CommSemiring α] (T : Ttensor α) (hT : ML.TuckerWF T) (hN : 1 ≤ T.factors.length) :
    ∃ D, T.full = .ok D ∧ D.shape = T.shape ∧ D.WF ∧ ∀ i, InBounds D.shape i → D.get i = T.get i :=
  ML.tucker_full_spec T hT hN

/-- `sumtensor.full()` for parts of any representation (dense, sparse, Kruskal, Tucker) of one shape
with positive extents: the dense result has that shape and the entries `Σ_p ⟦p⟧[i]`.  Same statement
and proof as `C02_sum_full`. -/
theorem C01_sum_full [CommSemiring α] [DecidableEq α] (p0 : ML.Part α) (ps : List (ML.Part α))
    (hwf : ∀ p ∈ p0 :: ps, ML.PartWF p) (hsh : ∀ p ∈ ps, p.shape = p0.shape) (hpos : ∀ e ∈ p0.shape, 0 < e) :
    ∃ D, ML.Sumtensor.full (p0 :: ps) = .ok D ∧ D.shape = p0.shape ∧ D.WF ∧
      ∀ i, InBounds p0.shape i → D.get i = p0.get i + (ps.map fun p => p.get i).sum :=
  ML.sum_full_spec p0 ps hwf hsh hpos

/-- a 2 × 2 Tucker tensor with a 1 × 2 core is well-formed and expands. -/
example : ML.TuckerWF (⟨⟨[1, 2], [3, 4]⟩, [[[1], [2]], [[1, 0], [0, 1]]]⟩ : Ttensor Int) := ⟨rfl, rfl, by decide⟩
example : ∃ D, (⟨⟨[1, 2], [3, 4]⟩, [[[1], [2]], [[1, 0], [0, 1]]]⟩ : Ttensor Int).full = .ok D ∧ D.shape = [2, 2] := by
  obtain ⟨D, h, hs, _⟩ := C01_tucker_full (⟨⟨[1, 2], [3, 4]⟩, [[[1], [2]], [[1, 0], [0, 1]]]⟩ : Ttensor Int)
    ⟨rfl, rfl, by decide⟩ (by decide)
  exact ⟨D, h, hs⟩

example : (⟨[2, 2], [0, 5, 7, 0]⟩ : Dense Int).toSparse = ⟨[2, 2], [[1, 0], [0, 1]], [5, 7]⟩ := by decide
example : isPermOf ([2] ++ [0, 1]) 3 = true := by decide

/-! ## Second batch -/

/-! ### what the converted objects report -/

/-- `T.to_tenmat(rdims, cdims, cdims_cyclic)`, every argument convention: whenever the call is
accepted the object reports the tensor's shape as `tshape`, the pair `gather_wrap_dims` derives
from the arguments (see `C01_wrap_conventions` for fc / bc / t / one-sided) as `rindices` /
`cindices` — a permutation of the modes —, holds a matrix of shape
`(prod tshape[rindices], prod tshape[cindices])` with one value per cell and as many cells as
the tensor, and (when the tensor has a cell) reports that shape as `shape` and `ndims = 2`. -/
theorem C01_tenmat_reports [Zero α] (T : Dense α) (hT : T.WF) (rd cd : Option (List Nat)) (cyc : Option Cyclic)
    (M : Tenmat α) (h : T.toTenmat rd cd cyc = .ok M) :
    ∃ r c, gatherWrapDims T.shape.length rd cd cyc = .ok (r, c) ∧
      isPermOf (r ++ c) T.shape.length = true ∧
      M.tshape = T.shape ∧ M.rdims = r ∧ M.cdims = c ∧ M.WF ∧
      M.data.shape = [numel (gather T.shape r), numel (gather T.shape c)] ∧
      numel M.data.shape = numel T.shape ∧
      (0 < numel T.shape →
        M.shapeProp = [numel (gather T.shape r), numel (gather T.shape c)] ∧ M.ndims = 2) :=
  tenmat_reports T hT rd cd cyc M h

/-- an acceptable split (listed modes in range, `gather_wrap_dims` yields a permutation of the
modes) is accepted by `to_tenmat`. -/
theorem C01_tenmat_accepts [Zero α] (T : Dense α) (hT : T.WF) (rd cd : Option (List Nat)) (cyc : Option Cyclic)
    (hv : splitValid T.shape.length rd cd cyc = true) : ∃ M, T.toTenmat rd cd cyc = .ok M := by
  obtain ⟨r, c, _, _, h⟩ := toTenmat_valid T hT rd cd cyc hv
  exact ⟨_, h⟩

/-- The `tenmat` constructor (data with at least one cell; the code after commit 8a75720): whenever
`tenmat(data, rdims, cdims, tshape)` is accepted the object holds the given values (a matrix
argument is kept as it is), reports the given `tshape` (default: the matrix shape), the pair
`gather_wrap_dims` derives from the arguments as `rindices` / `cindices` — a permutation of the
modes —, and its matrix has exactly the shape `(prod tshape[rindices], prod tshape[cindices])`
(a vector argument is reshaped to it, first index fastest), which it also reports as `shape`,
with `ndims = 2` and as many cells as the data. -/
theorem C01_tenmat_ctor_reports (data : Dense α) (rd cd ts : Option (List Nat)) (M : Tenmat α)
    (hpos : numel data.shape ≠ 0) (h : Tenmat.mk? data rd cd ts = .ok M) :
    M.data.data = data.data ∧
    (data.shape.length = 2 → M.data = data) ∧
    M.tshape = ts.getD data.shape ∧
    gatherWrapDims M.tshape.length rd cd none = .ok (M.rdims, M.cdims) ∧
    isPermOf (M.rdims ++ M.cdims) M.tshape.length = true ∧
    M.data.shape = [numel (gather M.tshape M.rdims), numel (gather M.tshape M.cdims)] ∧
    numel M.data.shape = numel data.shape ∧
    M.shapeProp = [numel (gather M.tshape M.rdims), numel (gather M.tshape M.cdims)] ∧ M.ndims = 2 :=
  tenmat_ctor_spec data rd cd ts M hpos h

/-- … hence for data with one value per cell the constructed object is a well-formed `tenmat`
(and `C01_tenmat_toTensor` / `C01_double_tenmat` apply to it). -/
theorem C01_tenmat_ctor_wf (data : Dense α) (rd cd ts : Option (List Nat)) (M : Tenmat α)
    (hpos : numel data.shape ≠ 0) (hd : data.WF) (h : Tenmat.mk? data rd cd ts = .ok M) : M.WF :=
  tenmat_ctor_wf data rd cd ts M hpos hd h

/-- a matrix whose shape is not `(prod tshape[r], prod tshape[c])` for the pair `(r, c)` that
`gather_wrap_dims` derives is refused. -/
theorem C01_tenmat_ctor_rejects_shape (data : Dense α) (rd cd ts : Option (List Nat)) (r c : List Nat)
    (hpos : numel data.shape ≠ 0) (h2 : data.shape.length = 2)
    (hg : gatherWrapDims (ts.getD data.shape).length rd cd none = .ok (r, c))
    (hne : data.shape ≠ [numel (gather (ts.getD data.shape) r), numel (gather (ts.getD data.shape) c)]) :
    Tenmat.mk? data rd cd ts = .error .reject :=
  tenmat_ctor_rejects_shape data rd cd ts r c hpos h2 hg hne

/-- The pinned code (its only test relating the matrix to the split compared the PRODUCT of the
two side sizes with the cell count, `Tenmat.mkCorePinned`) accepted a `2 × 6` matrix for the split
rows = mode 0, columns = mode 1 of a `3 × 4` tensor; the repaired code refuses it, and reshapes a
vector of 6 for the split 0 | 1 of a `2 × 3` tensor to `2 × 3`. -/
theorem C01_tenmat_ctor_pinned_counterexample :
    Tenmat.mkCorePinned (⟨[2, 6], [0, 1, 2, 3, 4, 5, 6, 7, 8, 9, 10, 11]⟩ : Dense Int) (some [0]) (some [1]) (some [3, 4]) =
      .ok ⟨[3, 4], [0], [1], ⟨[2, 6], [0, 1, 2, 3, 4, 5, 6, 7, 8, 9, 10, 11]⟩⟩ ∧
    Tenmat.mk? (⟨[2, 6], [0, 1, 2, 3, 4, 5, 6, 7, 8, 9, 10, 11]⟩ : Dense Int) (some [0]) (some [1]) (some [3, 4]) =
      .error .reject ∧
    Tenmat.mk? (⟨[6], [0, 1, 2, 3, 4, 5]⟩ : Dense Int) (some [0]) (some [1]) (some [2, 3]) =
      .ok ⟨[2, 3], [0], [1], ⟨[2, 3], [0, 1, 2, 3, 4, 5]⟩⟩ := ⟨rfl, rfl, rfl⟩

/-- `S.to_sptenmat(rdims, cdims, cdims_cyclic)` of a well-formed sparse tensor, every argument
convention: whenever the call is accepted the object reports the tensor's shape as `tshape`, the
pair `gather_wrap_dims` derives from the arguments as `rdims` / `cdims` — a permutation of the
modes —, `(prod tshape[rdims], prod tshape[cdims])` as `shape`, is a well-formed sparse matrix of
that shape, and reports as `nnz` the number of stored triples = the number of non-zero cells of
the denoted matrix = `nnz` of the sparse tensor. -/
theorem C01_sptenmat_reports [AddCommMonoid α] [DecidableEq α] (S : Sparse α) (hS : S.WF)
    (rd cd : Option (List Nat)) (cyc : Option Cyclic) (M : Sptenmat α) (h : S.toSptenmat rd cd cyc = .ok M) :
    ∃ r c, gatherWrapDims S.shape.length rd cd cyc = .ok (r, c) ∧
      isPermOf (r ++ c) S.shape.length = true ∧
      M.tshape = S.shape ∧ M.rdims = r ∧ M.cdims = c ∧ M.WF ∧
      M.mshape = [numel (gather S.shape r), numel (gather S.shape c)] ∧
      (1 ≤ S.shape.length → M.shapeProp = [numel (gather S.shape r), numel (gather S.shape c)]) ∧
      M.nnz = M.subs.length ∧ M.nnz = S.nnz ∧
      M.nnz = ((allSubs M.mshape).filter
        (fun u => !(M.get (u.getD 0 0) (u.getD 1 0) == 0))).length :=
  sptenmat_reports S hS rd cd cyc M h

/-- an acceptable split is accepted by `to_sptenmat`. -/
theorem C01_sptenmat_accepts [AddCommMonoid α] [DecidableEq α] (S : Sparse α) (hS : S.WF)
    (rd cd : Option (List Nat)) (cyc : Option Cyclic)
    (hv : splitValid S.shape.length rd cd cyc = true) : ∃ M, S.toSptenmat rd cd cyc = .ok M := by
  obtain ⟨r, c, _, _, h⟩ := toSptenmat_valid S hS rd cd cyc hv
  exact ⟨_, h⟩

/-- `tensor.to_sptensor()` keeps the shape and stores as many entries as the tensor has non-zero
cells (`= tensor.nnz`); `sptensor.full()` keeps the shape and has as many non-zero cells as the
sparse tensor stores; `full().to_sptensor()` stores as many again; and `sptensor.nnz` of a
well-formed sparse tensor is the number of non-zero cells of the array it denotes. -/
theorem C01_toSptensor_reports [AddMonoid α] [DecidableEq α] (T : Dense α) (hT : T.WF) (S : Sparse α) (hS : S.WF) :
    (T.toSparse.shape = T.shape ∧ T.toSparse.nnz = T.nnz ∧
      T.nnz = ((allSubs T.shape).filter (fun i => !(T.get i == 0))).length) ∧
    (S.full.shape = S.shape ∧ S.full.nnz = S.nnz ∧ S.full.toSparse.nnz = S.nnz ∧
      S.nnz = ((allSubs S.shape).filter (fun i => !(S.get i == 0))).length) :=
  toSptensor_reports T hT S hS

/-! ### matricized objects in general (whatever built them) -/

/-- `tenmat.to_tensor()` of ANY well-formed `tenmat` (split a permutation of the modes, matrix of
the two side sizes): a well-formed dense tensor of shape `tshape` whose entry `i` is the matrix
entry in row `sub2ind tshape[r] i[r]`, column `sub2ind tshape[c] i[c]` (`Tenmat.get`). -/
theorem C01_tenmat_toTensor [Zero α] (M : Tenmat α) (hM : M.WF) :
    M.toTensor.shape = M.tshape ∧ M.toTensor.WF ∧
      ∀ i, InBounds M.tshape i → M.toTensor.get i = M.get i := tenmat_toTensor_spec M hM

/-- `sptenmat.to_sptensor()` of ANY well-formed `sptenmat`: a well-formed sparse tensor of shape
`tshape` with as many stored entries that denotes at `i` the matrix entry at
`(sub2ind tshape[r] i[r], sub2ind tshape[c] i[c])` (`Sptenmat.den`). -/
theorem C01_sptenmat_toSptensor [AddCommMonoid α] [DecidableEq α] (M : Sptenmat α) (hM : M.WF) :
    M.toSparse.shape = M.tshape ∧ M.toSparse.WF ∧ M.toSparse.nnz = M.subs.length ∧
      ∀ i, InBounds M.tshape i → M.toSparse.get i = M.den i := sptenmat_toSparse_spec M hM

/-- `sptenmat.full()` of ANY well-formed `sptenmat`: a well-formed `tenmat` with the same shape
and split holding the same entries. -/
theorem C01_sptenmat_full_any [AddCommMonoid α] [DecidableEq α] (M : Sptenmat α) (hM : M.WF) :
    M.full.tshape = M.tshape ∧ M.full.rdims = M.rdims ∧ M.full.cdims = M.cdims ∧ M.full.WF ∧
      ∀ i, InBounds M.tshape i → M.full.get i = M.den i := sptenmat_full_spec M hM

/-! ### `double()` and `to_tensor()` of every class -/

/-- `tensor.double()` is the array of the tensor, `tensor.full()` the tensor itself. -/
theorem C01_double_tensor (T : Dense α) : T.double = T ∧ T.fullCopy = T := ⟨rfl, rfl⟩

/-- `sptensor.double()` (a direct scatter by subscript, separate from `full()`): for stored
subscripts inside the shape, one value each — repeated subscripts allowed, the last one wins in
both — it is exactly the array of `full()`; `to_tensor()` is `full()`; for a well-formed tensor
that array is the denoted one. -/
theorem C01_double_sptensor [AddMonoid α] [DecidableEq α] (S : Sparse α)
    (hin : ∀ i ∈ S.subs, InBounds S.shape i) (hlen : S.subs.length = S.vals.length) :
    S.double = .ok S.full ∧ S.toTensor = S.full ∧
      (S.WF → ∀ i, InBounds S.shape i → S.full.get i = S.get i) :=
  ⟨sp_double_eq_full S hin hlen, rfl, fun hS i hi => (sp_full_at S hS i hi).1⟩

/-- … and a stored subscript outside the shape makes `sptensor.double()` raise. -/
theorem C01_double_sptensor_rejects [Zero α] (S : Sparse α) (i : List Nat) (hi : i ∈ S.subs)
    (hout : ¬ InBounds S.shape i) : S.double = .error .reject := sp_double_rejects S i hi hout

/-- `ktensor.double()` and `ktensor.to_tensor()` are `full()` (raising exactly when it does), hence
for a well-formed Kruskal tensor the array `Σ_q λ_q ∏ₙ Aₙ[iₙ, q]`. -/
theorem C01_double_ktensor [CommSemiring α] (K : Ktensor α) :
    K.double = K.full ∧ K.toTensor = K.full ∧
      (K.WF → 1 ≤ K.factors.length → ∀ i, InBounds K.shape i →
        ∃ D, K.double = .ok D ∧ D.shape = K.shape ∧ D.WF ∧ D.get i = K.get i) := by
  refine ⟨Ktensor.double_eq_full K, rfl, ?_⟩
  intro hK hN i hi
  rw [Ktensor.double_eq_full]
  exact kruskal_full K hK hN i hi

/-- `ttensor.double()` and `ttensor.to_tensor()` are `full()`, hence for a well-formed Tucker
tensor the array `Σ_j G[j] ∏ₙ Uₙ[iₙ, jₙ]`. -/
theorem C01_double_ttensor [CommSemiring α] (T : Ttensor α) :
    T.double = T.full ∧ T.toTensor = T.full ∧
      (ML.TuckerWF T → 1 ≤ T.factors.length →
        ∃ D, T.double = .ok D ∧ D.shape = T.shape ∧ D.WF ∧ ∀ i, InBounds D.shape i → D.get i = T.get i) := by
  refine ⟨Ttensor.double_eq_full T, rfl, ?_⟩
  intro hT hN
  rw [Ttensor.double_eq_full]
  exact ML.tucker_full_spec T hT hN

/-- `sumtensor.double()` and `sumtensor.to_tensor()` are `full()`, hence for well-formed parts of
one shape with positive extents the array `Σ_p ⟦p⟧[i]`. -/
theorem C01_double_sumtensor [CommSemiring α] [DecidableEq α] (P : ML.Sumtensor α) :
    ML.Sumtensor.double P = ML.Sumtensor.full P ∧ ML.Sumtensor.toTensor P = ML.Sumtensor.full P ∧
      ∀ p0 ps, P = p0 :: ps → (∀ p ∈ p0 :: ps, ML.PartWF p) → (∀ p ∈ ps, p.shape = p0.shape) →
        (∀ e ∈ p0.shape, 0 < e) →
        ∃ D, ML.Sumtensor.double P = .ok D ∧ D.shape = p0.shape ∧ D.WF ∧
          ∀ i, InBounds p0.shape i → D.get i = p0.get i + (ps.map fun p => p.get i).sum := by
  refine ⟨Sumtensor.double_eq_full P, rfl, ?_⟩
  intro p0 ps hP hwf hsh hpos
  rw [Sumtensor.double_eq_full, hP]
  exact ML.sum_full_spec p0 ps hwf hsh hpos

/-- `tenmat.double()` is the matrix; for a well-formed `tenmat` its entry at
`(sub2ind tshape[r] i[r], sub2ind tshape[c] i[c])` is entry `i` of `to_tensor()`. -/
theorem C01_double_tenmat [Zero α] (M : Tenmat α) :
    M.double = M.data ∧
      (M.WF → ∀ i, InBounds M.tshape i →
        M.double.get (matSub M.tshape M.rdims M.cdims i) = M.toTensor.get i) :=
  ⟨rfl, fun hM i hi => ((tenmat_toTensor_spec M hM).2.2 i hi).symm⟩

/-- `sptenmat.double()` (SciPy COO matrix, values stored under one pair add up — separate from
`full()`, where the last one wins): for a well-formed `sptenmat` of a tensor with at least one
mode it is exactly the matrix of `full()`, whose entry at
`(sub2ind tshape[r] i[r], sub2ind tshape[c] i[c])` is the denoted tensor entry. -/
theorem C01_double_sptenmat [AddCommMonoid α] [DecidableEq α] (M : Sptenmat α) (hM : M.WF)
    (hN : 1 ≤ M.tshape.length) :
    M.double = .ok M.full.data ∧
      ∀ i, InBounds M.tshape i → M.full.data.get (matSub M.tshape M.rdims M.cdims i) = M.den i :=
  ⟨sptenmat_double_eq_full M hM hN, (sptenmat_full_spec M hM).2.2.2.2⟩

/-! ### `ktensor.to_tenmat` -/

/-- `ktensor.to_tenmat(rdims, cdims)` for every ordered partition `r ++ c` of the modes (either
side may be empty): the code expands and matricizes, so the object IS
`K.full().to_tenmat(rdims, cdims)`; it reports shape and split, is well-formed, and its entry in
row `sub2ind shape[r] i[r]`, column `sub2ind shape[c] i[c]` is `Σ_q λ_q ∏ₙ Aₙ[iₙ, q]`. -/
theorem C01_kruskal_tenmat_entry [CommSemiring α] (K : Ktensor α) (hK : K.WF) (hN : 1 ≤ K.factors.length)
    (r c : List Nat) (hp : isPermOf (r ++ c) K.factors.length = true) (i : List Nat)
    (hi : InBounds K.shape i) :
    ∃ D M, K.full = .ok D ∧ D.toTenmat (some r) (some c) none = .ok M ∧
      K.toTenmat (some r) (some c) none = .ok M ∧
      M.tshape = K.shape ∧ M.rdims = r ∧ M.cdims = c ∧ M.WF ∧
      M.data.shape = [numel (gather K.shape r), numel (gather K.shape c)] ∧
      M.data.get [sub2ind (gather K.shape r) (gather i r), sub2ind (gather K.shape c) (gather i c)]
        = K.get i := kruskal_tenmat_entry K hK hN r c hp i hi

/-- every argument convention of `ktensor.to_tenmat` is `K.full().to_tenmat(…)` with the same
arguments (also in what is refused). -/
theorem C01_kruskal_tenmat_conventions [CommSemiring α] (K : Ktensor α) (D : Dense α) (hD : K.full = .ok D)
    (rd cd : Option (List Nat)) (cyc : Option Cyclic) :
    K.toTenmat rd cd cyc = D.toTenmat rd cd cyc := by
  unfold Ktensor.toTenmat; rw [hD]

/-- The Khatri-Rao form of the same matrix (both sides non-empty):
`(khatrirao(A[r], reverse) · diag λ) · khatrirao(A[c], reverse)ᵀ` — entry `(a, b)` is
`Σ_q λ_q L[a, q] Rm[b, q]` with `L`, `Rm` the reversed Khatri-Rao products of the row and of the
column factor matrices. -/
theorem C01_kruskal_tenmat_khatrirao [CommSemiring α] (K : Ktensor α) (hK : K.WF) (r c : List Nat)
    (hr : r ≠ []) (hc : c ≠ []) (hp : isPermOf (r ++ c) K.factors.length = true) (i : List Nat)
    (hi : InBounds K.shape i) :
    ∃ L Rm M, khatrirao (gatherD K.factors r []) true = .ok L ∧
      khatrirao (gatherD K.factors c []) true = .ok Rm ∧
      K.toTenmat (some r) (some c) none = .ok M ∧
      L.length = numel (gather K.shape r) ∧ Rm.length = numel (gather K.shape c) ∧
      M.data.get [sub2ind (gather K.shape r) (gather i r), sub2ind (gather K.shape c) (gather i c)] =
        ((List.range K.ncomp).map fun q => K.weights.getD q 0 *
          (L.get (sub2ind (gather K.shape r) (gather i r)) q *
            Rm.get (sub2ind (gather K.shape c) (gather i c)) q)).sum :=
  kruskal_tenmat_khatrirao K hK r c hr hc hp i hi

/-- The executable Khatri-Rao form (`Ktensor.krTenmat`, what the driver computes as the third
witness) IS the matrix of `K.to_tenmat(r, c)`, for every ordered partition with both sides
non-empty and positive extents. -/
theorem C01_kruskal_tenmat_khatrirao_matrix [CommSemiring α] (K : Ktensor α) (hK : K.WF) (r c : List Nat)
    (hr : r ≠ []) (hc : c ≠ []) (hp : isPermOf (r ++ c) K.factors.length = true)
    (hpos : ∀ e ∈ K.shape, 0 < e) :
    ∃ M, K.toTenmat (some r) (some c) none = .ok M ∧ K.krTenmat r c = .ok M.data :=
  kruskal_krTenmat K hK r c hr hc hp hpos

/-! ### chains of conversions -/

/-- **Any finite chain of conversions** (`full`, `to_tensor`, `to_sptensor`, `to_tenmat(…)`,
`to_sptenmat(…)` with any arguments, in any order) starting from a well-formed holder of any of
the seven classes (dense, sparse, Kruskal, Tucker, sum, tenmat, sptenmat; at least one mode,
positive extents): whenever the chain is accepted, the final object is a well-formed holder of the
same shape that denotes the same array, element for element.  Induction over the chain from the
per-step theorems (`step_sound`). -/
theorem C01_chain [CommSemiring α] [DecidableEq α] (cs : List Conv) (h h' : Holder α) (hw : h.WF)
    (he : runChain cs h = .ok h') :
    h'.shape = h.shape ∧ h'.WF ∧ ∀ i, InBounds h.shape i → h'.get i = h.get i :=
  chain_sound cs h h' hw he

/-- … and every well-typed chain (each method exists on the class it is called on, each mode
split acceptable) IS accepted. -/
theorem C01_chain_accepts [CommSemiring α] [DecidableEq α] (cs : List Conv) (h : Holder α) (hw : h.WF)
    (hv : chainValid h.shape.length cs h.kind = true) :
    ∃ h', runChain cs h = .ok h' ∧ h'.shape = h.shape ∧ h'.WF ∧
      ∀ i, InBounds h.shape i → h'.get i = h.get i := by
  obtain ⟨h', he⟩ := chain_ok cs h hw hv
  exact ⟨h', he, chain_sound cs h h' hw he⟩

/-- `double()` of ANY well-formed holder (in particular of the end of any accepted chain) is
accepted and yields a well-formed array of the tensor shape (matrix shape for the matricized
classes) that holds, at the cell of every subscript `i` (`Holder.cell`: `i` itself, or
(row, column) for the matricized classes), the entry the holder denotes. -/
theorem C01_double_holder [CommSemiring α] [DecidableEq α] (h : Holder α) (hw : h.WF) :
    ∃ D, h.double = .ok D ∧ D.shape = h.dshape ∧ D.WF ∧
      ∀ i, InBounds h.shape i → D.get (h.cell i) = h.get i := holder_double h hw

/-- chain, then `double()`: the array at the end of any accepted chain holds the entries of the
array the chain started from. -/
theorem C01_chain_double [CommSemiring α] [DecidableEq α] (cs : List Conv) (h h' : Holder α) (hw : h.WF)
    (he : runChain cs h = .ok h') :
    ∃ D, h'.double = .ok D ∧ D.shape = h'.dshape ∧ D.WF ∧
      ∀ i, InBounds h.shape i → D.get (h'.cell i) = h.get i := by
  obtain ⟨hs, hw', hg⟩ := chain_sound cs h h' hw he
  obtain ⟨D, hD, hsD, hWD, hgD⟩ := holder_double h' hw'
  exact ⟨D, hD, hsD, hWD, fun i hi => by rw [hgD i (hs ▸ hi), hg i hi]⟩

/-- one ill-typed step — a method the class does not have, or a mode split that is not a
partition of the modes — is refused. -/
theorem C01_step_rejects [CommSemiring α] [DecidableEq α] (c : Conv) (h : Holder α) (hw : h.WF)
    (hbad : c.target h.kind = none ∨ c.argsValid h.shape.length = false) :
    c.apply h = .error .reject := step_rejects c h hw hbad

/-- a chain from a well-formed holder is accepted EXACTLY when it is well-typed (so the
acceptance of `C01_chain` is characterised, and the first ill-typed step ends the chain). -/
theorem C01_chain_accepts_iff [CommSemiring α] [DecidableEq α] (cs : List Conv) (h : Holder α) (hw : h.WF) :
    (∃ h', runChain cs h = .ok h') ↔ chainValid h.shape.length cs h.kind = true :=
  chain_ok_iff cs h hw

/-- a split is acceptable iff `gather_wrap_dims` yields a pair whose concatenation is a
permutation of the modes (the range test of `to_tenmat` is implied). -/
theorem C01_split_valid_iff (n : Nat) (rd cd : Option (List Nat)) (cyc : Option Cyclic) :
    splitValid n rd cd cyc = true ↔
      ∃ r c, gatherWrapDims n rd cd cyc = .ok (r, c) ∧ isPermOf (r ++ c) n = true :=
  splitValid_iff_perm n rd cd cyc

/-- a method the class does not have ends the chain. -/
theorem C01_chain_rejects_missing_method :
    runChain [Conv.toTensor] (Holder.dense (⟨[2], [1, 2]⟩ : Dense Int)) = .error .reject ∧
    runChain [Conv.full] (Holder.tenmat (⟨[2], [0], [], ⟨[2, 1], [1, 2]⟩⟩ : Tenmat Int)) = .error .reject :=
  ⟨rfl, rfl⟩

/-! non-vacuity of the second batch -/

/-- a well-formed 2 × 3 dense holder and a well-typed chain of six conversions through all the
matricized / sparse classes. -/
example : (Holder.dense (⟨[2, 3], [1, 0, 2, 0, 0, 3]⟩ : Dense Int)).WF :=
  ⟨rfl, by decide, by decide⟩
example : chainValid 2 [Conv.toSptensor, .toSptenmat (some [1]) none (some .fc), .full, .toTensor,
    .toTenmat none (some [0]) none, .toTensor] HKind.dense = true := by decide
example : ∃ h', runChain [Conv.toSptensor, .toSptenmat (some [1]) none (some .fc), .full, .toTensor,
    .toTenmat none (some [0]) none, .toTensor] (Holder.dense (⟨[2, 3], [1, 0, 2, 0, 0, 3]⟩ : Dense Int)) = .ok h' ∧
    h'.shape = [2, 3] ∧ h'.WF ∧ ∀ i, InBounds [2, 3] i → h'.get i = (⟨[2, 3], [1, 0, 2, 0, 0, 3]⟩ : Dense Int).get i :=
  C01_chain_accepts _ _ ⟨rfl, by decide, by decide⟩ (by decide)
example : runChain [Conv.toSptensor, .full, .toTenmat none (some [0]) none, .toTensor]
    (Holder.dense (⟨[2, 3], [1, 0, 2, 0, 0, 3]⟩ : Dense Int)) =
    .ok (Holder.dense ⟨[2, 3], [1, 0, 2, 0, 0, 3]⟩) := by decide
example : (⟨[2, 2], [[1, 0], [0, 1], [1, 0]], [5, 7, 9]⟩ : Sparse Int).double = .ok ⟨[2, 2], [0, 9, 7, 0]⟩ := by decide
example : Tenmat.WF (⟨[2, 3], [1], [0], ⟨[3, 2], [1, 2, 3, 4, 5, 6]⟩⟩ : Tenmat Int) := ⟨by decide, rfl, rfl⟩
example : Sptenmat.WF (⟨[2, 3], [1], [0], [[2, 0], [0, 1]], [4, 5]⟩ : Sptenmat Int) :=
  ⟨by decide, ⟨rfl, by decide, by decide, by decide⟩⟩
example : isPermOf ([1] ++ [0]) (⟨[1, 2], [[[1, 2], [3, 4]], [[5, 6], [7, 8]]]⟩ : Ktensor Int).factors.length = true := by
  decide


end Pyttb
