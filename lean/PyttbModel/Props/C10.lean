/-
C10 — Tucker decompositions meet their error bound and structural contract.

Only property theorems and non-vacuity examples; proofs are in Lemmas/Tucker*.lean,
Lemmas/Hosvd*.lean.  All statements are over ℝ about the executable models `Tk.hosvd` /
`Tk.tuckerAls` (Alg/Hosvd.lean, Alg/TuckerAls.lean) run with the real-number services
`Tk.realOps`, for ALL well-formed data tensors, tolerances, rank vectors, mode orders, both
truncation strategies, all initial guesses and iteration limits, and for ANY `eigh` / `nvecs`
service that satisfies its stated contract.

Vocabulary (defined in the lemma files, entry-wise):
* `Tk.OrthoCols U m p`     — `U` is an `m × p` matrix with orthonormal columns;
* `Tk.ttmFold X l true`    — `X` multiplied, for every `(n, U)` of the list `l`, in mode `n` by `Uᵀ`;
* `Tk.ascList Us d`        — the list `(0, Us[0]), …, (d-1, Us[d-1])`;
* `Tk.tail eig r`          — the sum of `eig[r:]` (the eigenvalues discarded when `r` are kept);
* `Tk.EighContract eigh`   — on every symmetric `n × n` matrix `Z`, `eigh` returns `n` values `D` and an
                             `n × n` matrix `V` with orthonormal columns and `Z V = V diag(D)`.
-/
import PyttbModel.Lemmas.HosvdThm
namespace Pyttb
open Tk

/-! ### HOSVD -/

theorem hosvd_run_of_ok {eigh : Nat → Mat ℝ → List ℝ × Mat ℝ} {X : Dense ℝ} {tol : ℝ}
    {dimorder : Option (List Nat)} {seq : Bool} {ranks : Option (List Nat)} {T : Ttensor ℝ}
    (h : hosvd realOps eigh X tol dimorder seq ranks = .ok T) :
    ∃ tr, hosvdRun realOps eigh X tol dimorder seq ranks = .ok (T, tr) := by
  unfold hosvd at h
  cases hr : hosvdRun realOps eigh X tol dimorder seq ranks with
  | error e => rw [hr] at h; cases h
  | ok p =>
    rw [hr] at h
    obtain ⟨T', tr⟩ := p
    cases h
    exact ⟨tr, rfl⟩

/-- The factor matrices returned by `hosvd` have orthonormal columns: factor `n` has as many rows
as mode `n` of the data and as many columns as mode `n` of the core, and its columns are
orthonormal — for sequential and non-sequential truncation, any mode order, automatic or
requested ranks. -/
theorem C10_hosvd_orthonormal (eigh : Nat → Mat ℝ → List ℝ × Mat ℝ) (hE : EighContract eigh)
    (X : Dense ℝ) (hX : X.WF) (tol : ℝ) (dimorder : Option (List Nat)) (seq : Bool) (ranks : Option (List Nat))
    (T : Ttensor ℝ) (h : hosvd realOps eigh X tol dimorder seq ranks = .ok T) (n : Nat) (hn : n < X.shape.length) :
    T.factors.length = X.shape.length ∧
    OrthoCols (T.factors.getD n []) (X.shape.getD n 0) (T.core.shape.getD n 0) := by
  obtain ⟨tr, hr⟩ := hosvd_run_of_ok h
  have hF := hosvd_facts hE hX hr
  refine ⟨hF.lenF, ?_⟩
  rw [hF.core_shape hn]
  exact hF.factor_ortho hn

/-- The core returned by `hosvd` is the data multiplied in every mode by the transposed factor
(mode products defined entry-wise, applied in increasing mode order — by `Tk.ttmFold_perm`
any other order gives the same tensor), whether the loop shrinks the tensor mode by mode in
the order `dimorder` (sequential) or multiplies at the end (non-sequential). -/
theorem C10_hosvd_core (eigh : Nat → Mat ℝ → List ℝ × Mat ℝ) (hE : EighContract eigh)
    (X : Dense ℝ) (hX : X.WF) (tol : ℝ) (dimorder : Option (List Nat)) (seq : Bool) (ranks : Option (List Nat))
    (T : Ttensor ℝ) (h : hosvd realOps eigh X tol dimorder seq ranks = .ok T) :
    T.core = ttmFold X (ascList T.factors X.shape.length) true := by
  obtain ⟨tr, hr⟩ := hosvd_run_of_ok h
  exact (hosvd_facts hE hX hr).core

/-- Requested ranks are met exactly: when mode `n` is given a rank `r ≥ 1` within the mode size,
factor `n` has exactly `r` (orthonormal) columns and the core has extent `r` in mode `n`.
(False on the tree before 62e9ddd, which kept `r + 1` columns.) -/
theorem C10_hosvd_rank_given (eigh : Nat → Mat ℝ → List ℝ × Mat ℝ) (hE : EighContract eigh)
    (X : Dense ℝ) (hX : X.WF) (tol : ℝ) (dimorder : Option (List Nat)) (seq : Bool) (r : List Nat)
    (T : Ttensor ℝ) (h : hosvd realOps eigh X tol dimorder seq (some r) = .ok T) (n : Nat) (hn : n < X.shape.length)
    (h0 : r.getD n 0 ≠ 0) (hle : r.getD n 0 ≤ X.shape.getD n 0) :
    OrthoCols (T.factors.getD n []) (X.shape.getD n 0) (r.getD n 0) ∧ T.core.shape.getD n 0 = r.getD n 0 := by
  obtain ⟨tr, hr⟩ := hosvd_run_of_ok h
  have hF := hosvd_facts hE hX hr
  obtain ⟨rec, hrec, rfl⟩ := hF.rec_of_mode hn
  obtain ⟨hok, hfac⟩ := hF.recs rec hrec
  have hrank : rec.rank = r.getD rec.k 0 := hok.given (by simpa [reqRanks] using h0)
  have ho := hok.ortho
  rw [hrank, Nat.min_eq_left hle] at ho
  rw [hF.core_shape hn, hfac]
  exact ⟨ho, ho.ncols⟩

/-- Automatic ranks: for every mode whose rank is chosen by `hosvd` (no rank vector, or a `0`
entry), the pass that processed the mode — its record `rec` in the trace — worked on the
eigenvalues of the Gram matrix `rec.gram` of the current unfolding, sorted decreasingly and
all non-negative (`rec.eig`), and kept `rec.rank` columns where `rec.rank` is the LEAST
count whose discarded eigenvalue tail is at most `tol² ‖X‖² / d`: the tail of `rec.rank` is
within the threshold, the tail of every smaller count exceeds it.  At least one and at most
all columns are kept, the factor has exactly that many orthonormal columns, and the tail is
exactly the energy `‖Y‖² − ‖Y ×ₖ Uₖᵀ‖²` lost by this truncation of the current tensor `Y`
(`Y = X` for the non-sequential strategy). -/
theorem C10_hosvd_rank_auto (eigh : Nat → Mat ℝ → List ℝ × Mat ℝ) (hE : EighContract eigh)
    (X : Dense ℝ) (hX : X.WF) (tol : ℝ) (dimorder : Option (List Nat)) (seq : Bool) (ranks : Option (List Nat))
    (T : Ttensor ℝ) (tr : List (ModeRec ℝ)) (h : hosvdRun realOps eigh X tol dimorder seq ranks = .ok (T, tr))
    (rec : ModeRec ℝ) (hrec : rec ∈ tr) (hauto : (reqRanks ranks X.shape.length).getD rec.k 0 = 0) :
    (∃ D V, EighOK rec.gram (X.shape.getD rec.k 0) D V ∧
        rec.eig = (argsortDesc realOps D).map (fun i => D.getD i 0)) ∧
    rec.eig.Pairwise (fun x y => y ≤ x) ∧ (∀ x ∈ rec.eig, 0 ≤ x) ∧
    tail rec.eig rec.rank ≤ tol ^ 2 * normSq X / X.shape.length ∧
    (∀ r' < rec.rank, tol ^ 2 * normSq X / X.shape.length < tail rec.eig r') ∧
    1 ≤ rec.rank ∧ rec.rank ≤ X.shape.getD rec.k 0 ∧
    OrthoCols (T.factors.getD rec.k []) (X.shape.getD rec.k 0) rec.rank ∧
    (∃ Y : Dense ℝ, Y.WF ∧ rec.gram = gramMode Y rec.k ∧
      tail rec.eig rec.rank = normSq Y - normSq (ttmT Y (T.factors.getD rec.k []) rec.k true) ∧
      (seq = false → Y = X)) := by
  have hF := hosvd_facts hE hX h
  obtain ⟨hok, hfac⟩ := hF.recs rec hrec
  have hcut := hok.auto hauto
  have h0 := thresh_nonneg tol (normSq X) X.shape.length (normSq_nonneg X hX)
  obtain ⟨c1, c2, _, _⟩ := rankCut_spec rec.eig _ h0 hcut
  obtain ⟨l1, l2⟩ := rankCut_least rec.eig hok.nonneg _ h0 hcut
  rw [thresh_eq] at l1 l2
  rw [hok.len] at c2
  have ho := hok.ortho
  rw [Nat.min_eq_left c2] at ho
  refine ⟨hok.eigOf, hok.sorted, hok.nonneg, l1, l2, c1, c2, by rw [hfac]; exact ho, ?_⟩
  obtain ⟨Y, hY, hg, ht, hs⟩ := hok.cur
  exact ⟨Y, hY, hg, by rw [hfac]; exact ht, hs⟩

/-- The error bound.  When every rank is chosen automatically, the Tucker tensor returned by
`hosvd` satisfies `‖X − T‖² ≤ tol² ‖X‖²`, i.e. the relative error is at most the tolerance —
for sequential and non-sequential truncation and any mode order.  (`T.full()` is
`tfull T`, the difference is `dsub`; both are part of the model.)  The proof goes through
`‖X − T‖² = ‖X‖² − ‖G‖²` (orthonormal factors, projected core), which telescopes into the
discarded eigenvalue tails (sequential), respectively is bounded by their sum because
compressing other modes cannot increase the projection defect of a mode (non-sequential);
every tail is at most `tol² ‖X‖² / d` by the cut-off rule. -/
theorem C10_hosvd_error_bound (eigh : Nat → Mat ℝ → List ℝ × Mat ℝ) (hE : EighContract eigh)
    (X : Dense ℝ) (hX : X.WF) (tol : ℝ) (dimorder : Option (List Nat)) (seq : Bool) (ranks : Option (List Nat))
    (hauto : ∀ k, (reqRanks ranks X.shape.length).getD k 0 = 0)
    (T : Ttensor ℝ) (h : hosvd realOps eigh X tol dimorder seq ranks = .ok T)
    (F E : Dense ℝ) (hfull : tfull T = .ok F) (hdiff : dsub X F = .ok E) :
    normSq E ≤ tol ^ 2 * normSq X := by
  obtain ⟨tr, hr⟩ := hosvd_run_of_ok h
  have hF := hosvd_facts hE hX hr
  rw [hF.err_eq hX hfull hdiff]
  set thresh := Gen.eigsumthresh realOps tol (normSq X) (realOps.ofNat X.shape.length) with hth
  have h0 : 0 ≤ thresh := thresh_nonneg tol (normSq X) X.shape.length (normSq_nonneg X hX)
  have htail : ∀ rec ∈ tr, tail rec.eig rec.rank ≤ thresh := by
    intro rec hrec
    exact (rankCut_spec rec.eig _ h0 ((hF.recs rec hrec).1.auto (hauto _))).2.2.1
  have hlen : tr.length = X.shape.length := by
    have := congrArg List.length hF.order
    simpa [isPermOf_perm' hF.perm |>.length_eq] using this
  have hsum : normSq X - normSq T.core ≤ (X.shape.length : ℝ) * thresh := by
    cases seq with
    | true =>
      rw [hF.energy rfl]
      have := List.sum_le_card_nsmul (tr.map fun r => tail r.eig r.rank) thresh
        (by
          intro x hx
          obtain ⟨rec, hrec, rfl⟩ := List.mem_map.1 hx
          exact htail rec hrec)
      simpa [hlen] using this
    | false =>
      have hb := normSq_sub_core_le (ascList T.factors X.shape.length) X hX (ascList_fst_nodup _ _) hF.asc_ortho
      rw [← hF.core] at hb
      have := List.sum_le_card_nsmul ((ascList T.factors X.shape.length).map fun q => defect X q.2 q.1) thresh
        (by
          intro x hx
          obtain ⟨q, hq, rfl⟩ := List.mem_map.1 hx
          simp only [ascList, List.mem_map, List.mem_range] at hq
          obtain ⟨k, hk, rfl⟩ := hq
          obtain ⟨rec, hrec, rfl⟩ := hF.rec_of_mode hk
          obtain ⟨hok, hfac⟩ := hF.recs rec hrec
          obtain ⟨Y, _, _, ht, hs⟩ := hok.cur
          have hYX := hs rfl
          subst hYX
          simp only
          rw [hfac, ← ht]
          exact htail rec hrec)
      have hl : ((ascList T.factors X.shape.length).map fun q => defect X q.2 q.1).length = X.shape.length := by
        simp [ascList]
      rw [hl] at this
      have : (ascList T.factors X.shape.length |>.map fun q => defect X q.2 q.1).sum ≤ (X.shape.length : ℝ) * thresh := by
        simpa using this
      linarith
  refine le_trans hsum ?_
  rw [hth, thresh_eq]
  by_cases hd : X.shape.length = 0
  · rw [hd]
    have := normSq_nonneg X hX
    simp only [Nat.cast_zero, zero_mul]
    positivity
  · have : (X.shape.length : ℝ) ≠ 0 := by exact_mod_cast hd
    rw [mul_div_cancel₀ _ this]

end Pyttb
