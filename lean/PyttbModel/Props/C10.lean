/-
C10 — Tucker decompositions meet their error bound and structural contract.

Only property theorems and non-vacuity examples; proofs are in Lemmas/Tucker*.lean,
Lemmas/Hosvd*.lean.  All statements are over ℝ about the executable models `Tk.hosvd` /
`Tk.tuckerAls` (Alg/Hosvd.lean, Alg/TuckerAls.lean) run with the real-number services
`Tk.realOps`, for ALL well-formed data tensors, tolerances, rank vectors, mode orders, both
truncation strategies, all initial guesses and iteration limits, and for ANY `eigh` / `nvecs`
service that satisfies its stated contract.

Vocabulary (defined in the lemma files, entry-wise):
* `Tk.OrthoCols U m p`     — `U` is an `m × p` matrix with orthonormal columns;
* `Tk.ttmFold X l true`    — `X` multiplied, for every `(n, U)` of the list `l`, in mode `n` by `Uᵀ`;
* `Tk.ascList Us d`        — the list `(0, Us[0]), …, (d-1, Us[d-1])`;
* `Tk.tail eig r`          — the sum of `eig[r:]` (the eigenvalues discarded when `r` are kept);
* `Tk.EighContract eigh`   — on every symmetric `n × n` matrix `Z`, `eigh` returns `n` values `D` and an
                             `n × n` matrix `V` with orthonormal columns and `Z V = V diag(D)`;
* `Tk.NvecsContract nvecs` — `W.nvecs(n, r)` is a `shape[n] × r` matrix with orthonormal columns (`r ≤ shape[n]`);
* `Tk.NvecsLeading nvecs`  — … whose columns are, up to sign, eigenvectors of the `r` largest eigenvalues of
                             the Gram matrix of the mode-`n` unfolding;
* `Tk.KyFan`               — Ky Fan's maximum principle as a proposition; it is PROVED (`KF.kyFan`,
                             Lemmas/TuckerKyFan.lean, from the C14 development behind `C14_max_energy`), so
                             `C10_tucker_fit_monotone` does not assume it; it survives only as the redundant
                             hypothesis of the older corollary `C10_tucker_fit_monotone_partial`.
-/
import PyttbModel.Lemmas.TuckerAlsAccept
import PyttbModel.Lemmas.TuckerWitness
import PyttbModel.Lemmas.TuckerKyFan
namespace Pyttb
open Tk

/-! ### HOSVD -/

/-- The factor matrices returned by `hosvd` have orthonormal columns: factor `n` has as many rows
as mode `n` of the data and as many columns as mode `n` of the core, and its columns are
orthonormal — for sequential and non-sequential truncation, any mode order, automatic or
requested ranks. -/
theorem C10_hosvd_orthonormal (eigh : Nat → Mat ℝ → List ℝ × Mat ℝ) (hE : EighContract eigh)
    (X : Dense ℝ) (hX : X.WF) (tol : ℝ) (dimorder : Option (List Nat)) (seq : Bool) (ranks : Option (List Nat))
    (T : Ttensor ℝ) (h : hosvd realOps eigh X tol dimorder seq ranks = .ok T) (n : Nat) (hn : n < X.shape.length) :
    T.factors.length = X.shape.length ∧
    OrthoCols (T.factors.getD n []) (X.shape.getD n 0) (T.core.shape.getD n 0) := by
  obtain ⟨tr, hr⟩ := hosvd_run_of_ok h
  have hF := hosvd_facts hE hX hr
  refine ⟨hF.lenF, ?_⟩
  rw [hF.core_shape hn]
  exact hF.factor_ortho hn

/-- The core returned by `hosvd` is the data multiplied in every mode by the transposed factor
(mode products defined entry-wise, applied in increasing mode order — by `Tk.ttmFold_perm`
any other order gives the same tensor), whether the loop shrinks the tensor mode by mode in
the order `dimorder` (sequential) or multiplies at the end (non-sequential). -/
theorem C10_hosvd_core (eigh : Nat → Mat ℝ → List ℝ × Mat ℝ) (hE : EighContract eigh)
    (X : Dense ℝ) (hX : X.WF) (tol : ℝ) (dimorder : Option (List Nat)) (seq : Bool) (ranks : Option (List Nat))
    (T : Ttensor ℝ) (h : hosvd realOps eigh X tol dimorder seq ranks = .ok T) :
    T.core = ttmFold X (ascList T.factors X.shape.length) true := by
  obtain ⟨tr, hr⟩ := hosvd_run_of_ok h
  exact (hosvd_facts hE hX hr).core

/-- Requested ranks are met exactly: when mode `n` is given a rank `r ≥ 1` (a successful run was
given ranks within the mode sizes — b0b6c00 rejects the others — which is the last conjunct),
factor `n` has exactly `r` (orthonormal) columns and the core has extent `r` in mode `n`.
(False on the tree before 62e9ddd, which kept `r + 1` columns.) -/
theorem C10_hosvd_rank_given (eigh : Nat → Mat ℝ → List ℝ × Mat ℝ) (hE : EighContract eigh)
    (X : Dense ℝ) (hX : X.WF) (tol : ℝ) (dimorder : Option (List Nat)) (seq : Bool) (r : List Nat)
    (T : Ttensor ℝ) (h : hosvd realOps eigh X tol dimorder seq (some r) = .ok T) (n : Nat) (hn : n < X.shape.length)
    (h0 : r.getD n 0 ≠ 0) :
    OrthoCols (T.factors.getD n []) (X.shape.getD n 0) (r.getD n 0) ∧ T.core.shape.getD n 0 = r.getD n 0 ∧
      r.getD n 0 ≤ X.shape.getD n 0 := by
  obtain ⟨tr, hr⟩ := hosvd_run_of_ok h
  have hle : r.getD n 0 ≤ X.shape.getD n 0 := by simpa [reqRanks] using hosvdRun_ranks_le hr n hn
  have hF := hosvd_facts hE hX hr
  obtain ⟨rec, hrec, rfl⟩ := hF.rec_of_mode hn
  obtain ⟨hok, hfac⟩ := hF.recs rec hrec
  have hrank : rec.rank = r.getD rec.k 0 := hok.given (by simpa [reqRanks] using h0)
  have ho := hok.ortho
  rw [hrank, Nat.min_eq_left hle] at ho
  rw [hF.core_shape hn, hfac]
  exact ⟨ho, ho.ncols, hle⟩

/-- The tree before 62e9ddd sliced `pi[0 : ranks[k] + 1]` for requested ranks too.  With an explicit
copy of that slice bound a request for rank 1 keeps both columns of a 2-column eigenvector matrix
(the core gets extent 2 instead of 1 in that mode), whereas the slice bound regenerated from the
fixed source is the requested rank itself. -/
theorem C10_hosvd_rank_given_pinned_counterexample :
    (matCols ([[1, 0], [0, 1]] : Mat Nat) (List.take (1 + 1) [0, 1])).ncols = 2 ∧ ∀ r, Gen.sliceBound r = r :=
  ⟨by decide, fun r => by simp [Gen.sliceBound]⟩

/-- Automatic ranks: for every mode whose rank is chosen by `hosvd` (no rank vector, or a `0`
entry), the pass that processed the mode — its record `rec` in the trace — worked on the
eigenvalues of the Gram matrix `rec.gram` of the current unfolding, sorted decreasingly and
all non-negative (`rec.eig`), and kept `rec.rank` columns where `rec.rank` is the LEAST
count whose discarded eigenvalue tail is at most `tol² ‖X‖² / d`: the tail of `rec.rank` is
within the threshold, the tail of every smaller count exceeds it.  At least one and at most
all columns are kept, the factor has exactly that many orthonormal columns, and the tail is
exactly the energy `‖Y‖² − ‖Y ×ₖ Uₖᵀ‖²` lost by this truncation of the current tensor `Y`
(`Y = X` for the non-sequential strategy). -/
theorem C10_hosvd_rank_auto (eigh : Nat → Mat ℝ → List ℝ × Mat ℝ) (hE : EighContract eigh)
    (X : Dense ℝ) (hX : X.WF) (tol : ℝ) (dimorder : Option (List Nat)) (seq : Bool) (ranks : Option (List Nat))
    (T : Ttensor ℝ) (tr : List (ModeRec ℝ)) (h : hosvdRun realOps eigh X tol dimorder seq ranks = .ok (T, tr))
    (rec : ModeRec ℝ) (hrec : rec ∈ tr) (hauto : (reqRanks ranks X.shape.length).getD rec.k 0 = 0) :
    (∃ D V, EighOK rec.gram (X.shape.getD rec.k 0) D V ∧
        rec.eig = (argsortDesc realOps D).map (fun i => D.getD i 0)) ∧
    rec.eig.Pairwise (fun x y => y ≤ x) ∧ (∀ x ∈ rec.eig, 0 ≤ x) ∧
    tail rec.eig rec.rank ≤ tol ^ 2 * normSq X / X.shape.length ∧
    (∀ r' < rec.rank, tol ^ 2 * normSq X / X.shape.length < tail rec.eig r') ∧
    1 ≤ rec.rank ∧ rec.rank ≤ X.shape.getD rec.k 0 ∧
    OrthoCols (T.factors.getD rec.k []) (X.shape.getD rec.k 0) rec.rank ∧
    (∃ Y : Dense ℝ, Y.WF ∧ rec.gram = gramMode Y rec.k ∧
      tail rec.eig rec.rank = normSq Y - normSq (ttmT Y (T.factors.getD rec.k []) rec.k true) ∧
      (seq = false → Y = X)) := by
  have hF := hosvd_facts hE hX h
  obtain ⟨hok, hfac⟩ := hF.recs rec hrec
  have hcut := hok.auto hauto
  have h0 := thresh_nonneg tol (normSq X) X.shape.length (normSq_nonneg X hX)
  obtain ⟨c1, c2, _, _⟩ := rankCut_spec rec.eig _ h0 hcut
  obtain ⟨l1, l2⟩ := rankCut_least rec.eig hok.nonneg _ h0 hcut
  rw [thresh_eq] at l1 l2
  rw [hok.len] at c2
  have ho := hok.ortho
  rw [Nat.min_eq_left c2] at ho
  refine ⟨hok.eigOf, hok.sorted, hok.nonneg, l1, l2, c1, c2, by rw [hfac]; exact ho, ?_⟩
  obtain ⟨Y, hY, hg, ht, hs⟩ := hok.cur
  exact ⟨Y, hY, hg, by rw [hfac]; exact ht, hs⟩

/-- The error bound.  When every rank is chosen automatically, the Tucker tensor returned by
`hosvd` satisfies `‖X − T‖² ≤ tol² ‖X‖²`, i.e. the relative error is at most the tolerance —
for sequential and non-sequential truncation and any mode order.  (`T.full()` is
`tfull T`, the difference is `dsub`; both are part of the model.)  The proof goes through
`‖X − T‖² = ‖X‖² − ‖G‖²` (orthonormal factors, projected core), which telescopes into the
discarded eigenvalue tails (sequential), respectively is bounded by their sum because
compressing other modes cannot increase the projection defect of a mode (non-sequential);
every tail is at most `tol² ‖X‖² / d` by the cut-off rule. -/
theorem C10_hosvd_error_bound (eigh : Nat → Mat ℝ → List ℝ × Mat ℝ) (hE : EighContract eigh)
    (X : Dense ℝ) (hX : X.WF) (tol : ℝ) (dimorder : Option (List Nat)) (seq : Bool) (ranks : Option (List Nat))
    (hauto : ∀ k, (reqRanks ranks X.shape.length).getD k 0 = 0)
    (T : Ttensor ℝ) (h : hosvd realOps eigh X tol dimorder seq ranks = .ok T)
    (F E : Dense ℝ) (hfull : tfull T = .ok F) (hdiff : dsub X F = .ok E) :
    normSq E ≤ tol ^ 2 * normSq X := by
  obtain ⟨tr, hr⟩ := hosvd_run_of_ok h
  have hF := hosvd_facts hE hX hr
  rw [hF.err_eq hX hfull hdiff]
  set thresh := Gen.eigsumthresh realOps tol (normSq X) (realOps.ofNat X.shape.length) with hth
  have h0 : 0 ≤ thresh := thresh_nonneg tol (normSq X) X.shape.length (normSq_nonneg X hX)
  have htail : ∀ rec ∈ tr, tail rec.eig rec.rank ≤ thresh := by
    intro rec hrec
    exact (rankCut_spec rec.eig _ h0 ((hF.recs rec hrec).1.auto (hauto _))).2.2.1
  have hlen : tr.length = X.shape.length := by
    have := congrArg List.length hF.order
    simpa [isPermOf_perm' hF.perm |>.length_eq] using this
  have hsum : normSq X - normSq T.core ≤ (X.shape.length : ℝ) * thresh := by
    cases seq with
    | true =>
      rw [hF.energy rfl]
      have := List.sum_le_card_nsmul (tr.map fun r => tail r.eig r.rank) thresh
        (by
          intro x hx
          obtain ⟨rec, hrec, rfl⟩ := List.mem_map.1 hx
          exact htail rec hrec)
      simpa [hlen] using this
    | false =>
      have hb := normSq_sub_core_le (ascList T.factors X.shape.length) X hX (ascList_fst_nodup _ _) hF.asc_ortho
      rw [← hF.core] at hb
      have := List.sum_le_card_nsmul ((ascList T.factors X.shape.length).map fun q => defect X q.2 q.1) thresh
        (by
          intro x hx
          obtain ⟨q, hq, rfl⟩ := List.mem_map.1 hx
          simp only [ascList, List.mem_map, List.mem_range] at hq
          obtain ⟨k, hk, rfl⟩ := hq
          obtain ⟨rec, hrec, rfl⟩ := hF.rec_of_mode hk
          obtain ⟨hok, hfac⟩ := hF.recs rec hrec
          obtain ⟨Y, _, _, ht, hs⟩ := hok.cur
          have hYX := hs rfl
          subst hYX
          simp only
          rw [hfac, ← ht]
          exact htail rec hrec)
      have hl : ((ascList T.factors X.shape.length).map fun q => defect X q.2 q.1).length = X.shape.length := by
        simp [ascList]
      rw [hl] at this
      have : (ascList T.factors X.shape.length |>.map fun q => defect X q.2 q.1).sum ≤ (X.shape.length : ℝ) * thresh := by
        simpa using this
      linarith
  refine le_trans hsum ?_
  rw [hth, thresh_eq]
  by_cases hd : X.shape.length = 0
  · rw [hd]
    have := normSq_nonneg X hX
    simp only [Nat.cast_zero, zero_mul]
    positivity
  · have : (X.shape.length : ℝ) ≠ 0 := by exact_mod_cast hd
    rw [mul_div_cancel₀ _ this]

/-! ### Tucker-ALS -/

/-- `tucker_als` returns orthonormal factors of the requested ranks: factor `n` has as many rows as
mode `n` of the data, exactly `rank[n]` columns (an integer rank is used for every mode), the
columns are orthonormal, and the core has extent `rank[n]` in mode `n` — for every initial guess
(random under any draws, leading vectors, given list), every mode order, every stop tolerance
and iteration limit. -/
theorem C10_tucker_orthonormal (nvecs : Nat → Dense ℝ → Nat → Nat → Mat ℝ) (hC : NvecsContract nvecs)
    (uniform : Nat → Nat → Nat → Mat ℝ) (X : Dense ℝ) (hX : X.WF) (rank : List Nat)
    (stoptol : ℝ) (maxiters : Int) (dimorder : Option (List Nat)) (init : Init ℝ) (out : TaOut ℝ)
    (h : tuckerAls realOps nvecs uniform X rank stoptol maxiters dimorder init = .ok out)
    (n : Nat) (hn : n < X.shape.length) :
    out.solution.factors.length = X.shape.length ∧
    OrthoCols (out.solution.factors.getD n []) (X.shape.getD n 0) ((parseRank rank X.shape.length).getD n 0) ∧
    out.solution.core.shape.getD n 0 = (parseRank rank X.shape.length).getD n 0 := by
  obtain ⟨recs, hr⟩ := tuckerAls_run_of_ok h
  have hR := (tuckerAlsRun_ranks hr).2.2
  obtain ⟨_, _, r, _, hrec, hsol, _⟩ := tucker_facts hC hX hR hr
  rw [hsol]
  refine ⟨hrec.lenF, hrec.ortho n hn, ?_⟩
  simp only
  rw [hrec.core, ttmFold_shape]
  rw [coreShape_getD_mem _ _ n (r.factors.getD n []) (ascList_fst_nodup _ _)
    (by simp only [ascList, List.mem_map, List.mem_range]; exact ⟨n, hn, rfl⟩) hn]
  exact (hrec.ortho n hn).ncols

/-- The core returned by `tucker_als` is the data multiplied in every mode by the transposed
factor (although the code computes it as `Utilde ×ₙ Uₙᵀ` for the LAST mode `n` of `dimorder`,
`Utilde` being the data multiplied in all other modes). -/
theorem C10_tucker_core (nvecs : Nat → Dense ℝ → Nat → Nat → Mat ℝ) (hC : NvecsContract nvecs)
    (uniform : Nat → Nat → Nat → Mat ℝ) (X : Dense ℝ) (hX : X.WF) (rank : List Nat)
    (stoptol : ℝ) (maxiters : Int) (dimorder : Option (List Nat)) (init : Init ℝ) (out : TaOut ℝ)
    (h : tuckerAls realOps nvecs uniform X rank stoptol maxiters dimorder init = .ok out) :
    out.solution.core = ttmFold X (ascList out.solution.factors X.shape.length) true := by
  obtain ⟨recs, hr⟩ := tuckerAls_run_of_ok h
  have hR := (tuckerAlsRun_ranks hr).2.2
  obtain ⟨_, _, r, _, hrec, hsol, _⟩ := tucker_facts hC hX hR hr
  rw [hsol]
  exact hrec.core

/-- The reported fit is the recomputed one: with `F = T.full()` and `E = X − F`,
`normresidual = ‖E‖` and `fit = 1 − ‖E‖ / ‖X‖` (norms as square roots of sums of squares).  The
code computes `sqrt(|‖X‖² − ‖G‖²|)`; for orthonormal factors and the projected core
`‖X − T‖² = ‖X‖² − ‖G‖² ≥ 0`. -/
theorem C10_tucker_fit (nvecs : Nat → Dense ℝ → Nat → Nat → Mat ℝ) (hC : NvecsContract nvecs)
    (uniform : Nat → Nat → Nat → Mat ℝ) (X : Dense ℝ) (hX : X.WF) (rank : List Nat)
    (stoptol : ℝ) (maxiters : Int) (dimorder : Option (List Nat)) (init : Init ℝ) (out : TaOut ℝ)
    (h : tuckerAls realOps nvecs uniform X rank stoptol maxiters dimorder init = .ok out)
    (F E : Dense ℝ) (hfull : tfull out.solution = .ok F) (hdiff : dsub X F = .ok E) :
    out.normresidual = Real.sqrt (normSq E) ∧
    out.fit = 1 - Real.sqrt (normSq E) / Real.sqrt (normSq X) := by
  obtain ⟨recs, hr⟩ := tuckerAls_run_of_ok h
  have hR := (tuckerAlsRun_ranks hr).2.2
  obtain ⟨_, _, r, _, hrec, hsol, _, hnr, hfit, _⟩ := tucker_facts hC hX hR hr
  rw [hsol, hrec.core] at hfull
  have herr := tucker_err_eq X hX r.factors hrec.ortho' hfull hdiff
  rw [← hrec.core] at herr
  obtain ⟨v1, v2, _⟩ := hrec.values hX
  rw [hnr, hfit, v1, v2, herr]
  exact ⟨rfl, rfl⟩

/-- The iteration limit is respected: the number of executed iterations is at least one and at
most `maxiters`, and the reported `iters` is the 0-based index of the last executed iteration
(number of iterations minus one, as the code reports it). -/
theorem C10_tucker_iters_le (nvecs : Nat → Dense ℝ → Nat → Nat → Mat ℝ) (hC : NvecsContract nvecs)
    (uniform : Nat → Nat → Nat → Mat ℝ) (X : Dense ℝ) (hX : X.WF) (rank : List Nat)
    (stoptol : ℝ) (maxiters : Int) (dimorder : Option (List Nat)) (init : Init ℝ) (out : TaOut ℝ)
    (recs : List (IterRec ℝ))
    (h : tuckerAlsRun realOps nvecs uniform X rank stoptol maxiters dimorder init = .ok (out, recs)) :
    1 ≤ recs.length ∧ (recs.length : Int) ≤ maxiters ∧ out.iters + 1 = recs.length := by
  obtain ⟨⟨Uinit, hI⟩, hpos, r, _, _, _, hiters, _, _, hlen⟩ := tucker_facts hC hX (tuckerAlsRun_ranks h).2.2 h
  have h1 := hI.len
  refine ⟨by omega, by omega, ?_⟩
  rw [hiters]
  simp only [Gen.itersReported]
  omega

/-- Monotonicity of the fit: the fit of Tucker-ALS never decreases over the iterations.  For every
`nvecs` service that keeps its contract — `NvecsContract` (an `shape[n] × r` matrix with orthonormal
columns) and `NvecsLeading` (the columns are, up to the sign of each column, eigenvectors of the `r`
largest eigenvalues of the Gram matrix of the mode-`n` unfolding it is given: what LAPACK / ARPACK
are trusted for) — and for all well-formed data, ranks within the mode sizes, stop tolerances,
iteration limits, mode orders and initial guesses, the fits of the executed iterations form a
non-decreasing sequence, so do the squared core norms `‖G‖²`, and the returned fit is the last of
them.  No mathematical hypothesis is left: Ky Fan's maximum principle (an orthonormal `Q` captures
at most the sum of the `r` largest eigenvalues, so replacing factor `n` by the leading eigenvectors
cannot decrease `‖G‖²`) is proved in this development — `KF.kyFan` (Lemmas/TuckerKyFan.lean)
derives the proposition `Tk.KyFan` from the C14 lemma `ky_fan_list`, the first half of
`C14_max_energy`. -/
theorem C10_tucker_fit_monotone (nvecs : Nat → Dense ℝ → Nat → Nat → Mat ℝ) (hC : NvecsContract nvecs)
    (hL : NvecsLeading nvecs)
    (uniform : Nat → Nat → Nat → Mat ℝ) (X : Dense ℝ) (hX : X.WF) (rank : List Nat)
    (stoptol : ℝ) (maxiters : Int) (dimorder : Option (List Nat)) (init : Init ℝ) (out : TaOut ℝ)
    (recs : List (IterRec ℝ))
    (h : tuckerAlsRun realOps nvecs uniform X rank stoptol maxiters dimorder init = .ok (out, recs)) :
    (recs.map fun r => r.fit).Pairwise (· ≤ ·) ∧ (recs.map fun r => normSq r.core).Pairwise (· ≤ ·) ∧
    (recs.map fun r => r.fit).getLast? = some out.fit := by
  obtain ⟨⟨Uinit, hI⟩, _, r, hlast, _, _, _, _, hfit, _⟩ := tucker_facts hC hX (tuckerAlsRun_ranks h).2.2 h
  have hs := hI.sorted hL KF.kyFan
  refine ⟨?_, hs, by rw [List.getLast?_map, hlast, hfit]; rfl⟩
  rw [List.pairwise_map] at hs ⊢
  refine List.Pairwise.imp_of_mem ?_ hs
  intro a b ha hb hab
  obtain ⟨_, va, _⟩ := (hI.each a ha).values hX
  obtain ⟨_, vb, lb⟩ := (hI.each b hb).values hX
  rw [va, vb]
  exact fit_mono _ _ _ hab lb

/-- Ky Fan's maximum principle (the proposition `Tk.KyFan`, until now a hypothesis) is a theorem:
for a matrix `Z` with `m` orthonormal eigenpairs `(D, V)` in any order and any `m × r` matrix `Q`
with orthonormal columns, `trace(Qᵀ Z Q) = Σ_c Σ_a Σ_b Q[a,c] Q[b,c] Z[a,b]` is at most the sum of the
`r` largest eigenvalues. -/
theorem C10_ky_fan : KyFan := KF.kyFan

/-- The earlier, conditional form of `C10_tucker_fit_monotone` (Ky Fan's principle as the explicit
hypothesis `hK : KyFan`), kept as a corollary: `hK` is redundant since `C10_ky_fan`. -/
theorem C10_tucker_fit_monotone_partial (nvecs : Nat → Dense ℝ → Nat → Nat → Mat ℝ) (hC : NvecsContract nvecs)
    (hL : NvecsLeading nvecs) (hK : KyFan)
    (uniform : Nat → Nat → Nat → Mat ℝ) (X : Dense ℝ) (hX : X.WF) (rank : List Nat)
    (stoptol : ℝ) (maxiters : Int) (dimorder : Option (List Nat)) (init : Init ℝ) (out : TaOut ℝ)
    (recs : List (IterRec ℝ))
    (h : tuckerAlsRun realOps nvecs uniform X rank stoptol maxiters dimorder init = .ok (out, recs)) :
    (recs.map fun r => r.fit).Pairwise (· ≤ ·) ∧ (recs.map fun r => normSq r.core).Pairwise (· ≤ ·) ∧
    (recs.map fun r => r.fit).getLast? = some out.fit :=
  (fun _ : KyFan => C10_tucker_fit_monotone nvecs hC hL uniform X hX rank stoptol maxiters dimorder init out recs h) hK

/-! ### Non-vacuity: the contracts are satisfiable and valid requests are accepted -/

/-- The service contracts are satisfiable: the spectral theorem provides an `eigh` with
`EighContract`, and the `nvecs` built from it satisfies `NvecsContract` and `NvecsLeading`. -/
theorem C10_contracts_satisfiable :
    (∃ eigh, EighContract eigh) ∧ (∃ nvecs, NvecsContract nvecs ∧ NvecsLeading nvecs) :=
  ⟨⟨eighSpec, eighSpec_contract⟩, ⟨nvecsSpec, nvecsSpec_contract, nvecsSpec_leading⟩⟩

/-- `hosvd` accepts every valid request (the theorems above speak about successful runs): data of
order ≥ 1 with positive extents, a rank vector of the right length, a mode order that is a
permutation, ranks within the mode sizes (b0b6c00 rejects larger and negative ones), and either
requested ranks `≥ 1` in every mode, or automatic ranks in every mode
with `tol² < 1` on non-zero data.  (Mixed requests may legitimately fail: a hard user
truncation can leave no eigenvalue sum above the threshold, where the Python code raises.) -/
theorem C10_hosvd_accepts (eigh : Nat → Mat ℝ → List ℝ × Mat ℝ) (hE : EighContract eigh) (X : Dense ℝ) (hX : X.WF)
    (hd : X.shape ≠ []) (hpos : ∀ k < X.shape.length, 1 ≤ X.shape.getD k 0) (tol : ℝ)
    (dimorder : Option (List Nat)) (hperm : isPermOf (modeOrder dimorder X.shape.length) X.shape.length = true)
    (seq : Bool) (ranks : Option (List Nat)) (hlen : (reqRanks ranks X.shape.length).length = X.shape.length)
    (hle : ∀ k < X.shape.length, (reqRanks ranks X.shape.length).getD k 0 ≤ X.shape.getD k 0)
    (hcase : (∀ k < X.shape.length, (reqRanks ranks X.shape.length).getD k 0 ≠ 0) ∨
      ((∀ k, (reqRanks ranks X.shape.length).getD k 0 = 0) ∧ tol ^ 2 < 1 ∧ 0 < normSq X)) :
    ∃ T, hosvd realOps eigh X tol dimorder seq ranks = .ok T :=
  hosvd_accepts hE X hX hd hpos tol dimorder hperm seq ranks hlen hle hcase

/-- `tucker_als` accepts every valid request on data of order ≥ 2 (order 1 is rejected the way the
Python code fails in `ttm`): ranks between one and the mode sizes (35fe719 rejects the others; an integer for all modes or one per
mode), an iteration limit ≥ 1, a mode order that is a permutation, and any of the three
initialisations — "random" (the `uniform` service returning matrices with the requested number of
rows), "nvecs" / "eigs", or a list with one matrix per mode whose shapes fit for all modes but the
first of the order. -/
theorem C10_tucker_accepts (nvecs : Nat → Dense ℝ → Nat → Nat → Mat ℝ) (hC : NvecsContract nvecs)
    (uniform : Nat → Nat → Nat → Mat ℝ) (hUni : ∀ c m p, (uniform c m p).nrows = m) (X : Dense ℝ) (hX : X.WF)
    (hN : 2 ≤ X.shape.length) (rank : List Nat)
    (hRl : (parseRank rank X.shape.length).length = X.shape.length)
    (hR1 : ∀ r ∈ parseRank rank X.shape.length, 1 ≤ r)
    (hR : ∀ n < X.shape.length, (parseRank rank X.shape.length).getD n 0 ≤ X.shape.getD n 0)
    (stoptol : ℝ) (maxiters : Int) (hmax : 1 ≤ maxiters)
    (dimorder : Option (List Nat)) (hp : isPermOf (modeOrder dimorder X.shape.length) X.shape.length = true)
    (init : Init ℝ)
    (hinit : match init with
      | .str s => s.toLower = "random" ∨ s.toLower = "nvecs" ∨ s.toLower = "eigs"
      | .list Us => Us.length = X.shape.length ∧ ∀ n ∈ (modeOrder dimorder X.shape.length).tail,
          (Us.getD n []).nrows = X.shape.getD n 0 ∧
          (Us.getD n []).ncols = (parseRank rank X.shape.length).getD n 0) :
    ∃ out, tuckerAls realOps nvecs uniform X rank stoptol maxiters dimorder init = .ok out :=
  tuckerAls_accepts hC hUni X hX hN rank hRl hR1 hR stoptol maxiters hmax dimorder hp init hinit

/-- A concrete instance: the 2 × 3 tensor `[[2, 1, 0], [1, 3, 1]]` (F order data `2 1 1 3 0 1`). -/
def c10ExampleX : Dense ℝ := ⟨[2, 3], [2, 1, 1, 3, 0, 1]⟩

/-- … is decomposed by the sequentially truncated HOSVD in the order (1, 0) with tolerance 1/2 and
automatic ranks (with the `eigh` of the spectral theorem), and the result has the error bound. -/
example : ∃ T F E, hosvd realOps eighSpec c10ExampleX (1 / 2) (some [1, 0]) true none = .ok T ∧
    tfull T = .ok F ∧ dsub c10ExampleX F = .ok E ∧ normSq E ≤ (1 / 2) ^ 2 * normSq c10ExampleX := by
  have hX : c10ExampleX.WF := by simp [c10ExampleX, Dense.WF, numel]
  have hn : normSq c10ExampleX = 16 := by simp [normSq, c10ExampleX]; norm_num
  obtain ⟨T, hT⟩ := C10_hosvd_accepts eighSpec eighSpec_contract c10ExampleX hX (by simp [c10ExampleX])
    (by intro k hk; have : k < 2 := by simpa [c10ExampleX] using hk
        interval_cases k <;> simp [c10ExampleX])
    (1 / 2) (some [1, 0]) (by show isPermOf [1, 0] 2 = true; decide) true none (by simp [c10ExampleX, reqRanks])
    (by intro k _; simp [reqRanks, List.getD_eq_getElem?_getD, List.getElem?_replicate]; split <;> simp)
    (Or.inr ⟨by intro k; simp [reqRanks, List.getD_eq_getElem?_getD, List.getElem?_replicate]; split <;> rfl,
      by norm_num, by rw [hn]; norm_num⟩)
  have hord := C10_hosvd_orthonormal eighSpec eighSpec_contract c10ExampleX hX _ _ _ _ T hT
  have hcore := C10_hosvd_core eighSpec eighSpec_contract c10ExampleX hX _ _ _ _ T hT
  -- the reconstruction exists: every factor has as many columns as the core has entries in its mode
  have hlen : T.factors.length = c10ExampleX.shape.length := (hord 0 (by simp [c10ExampleX])).1
  have hfull : ∃ F, tfull T = .ok F := by
    have hcl : T.core.shape.length = c10ExampleX.shape.length := by rw [hcore, ttmFold_shape_length]
    refine ⟨ttmFold T.core (ascList T.factors T.core.shape.length) false, ?_⟩
    unfold tfull ttmAll ttmDims
    rw [if_neg (by rw [hlen, hcl]; omega), if_neg (by simp [hlen, hcl]),
      if_neg (by rw [hcl]; simp [c10ExampleX]), ttmPairs_range]
    apply foldlM_ttm_succeeds false _ T.core (ascList_fst_nodup _ _)
    intro q hq
    simp only [ascList, List.mem_map, List.mem_range] at hq
    obtain ⟨k, hk, rfl⟩ := hq
    rw [hcl] at hk
    exact ⟨by rw [hcl]; exact hk, by simpa using ((hord k hk).2).ncols⟩
  obtain ⟨F, hF⟩ := hfull
  have hFs : F.shape = c10ExampleX.shape := by
    obtain ⟨tr, hr⟩ := hosvd_run_of_ok hT
    have hfa := hosvd_facts eighSpec_contract hX hr
    rw [hfa.full_eq hF]
    exact recon_shape _ _ hfa.adm _ (by rw [hfa.core, ttmFold_shape])
  obtain ⟨E, hE⟩ : ∃ E, dsub c10ExampleX F = .ok E := ⟨_, dsub_ok hFs.symm⟩
  exact ⟨T, F, E, hT, hF, hE,
    C10_hosvd_error_bound eighSpec eighSpec_contract c10ExampleX hX _ _ _ _
      (by intro k; simp [reqRanks, List.getD_eq_getElem?_getD, List.getElem?_replicate]; split <;> rfl)
      T hT F E hF hE⟩

/-- … and by Tucker-ALS with ranks (1, 2), two iterations, a given initial guess. -/
example : ∃ out, tuckerAls realOps nvecsSpec (fun _ m p => List.replicate m (List.replicate p 0)) c10ExampleX [1, 2] 0 2
      none (.list [[[1], [0]], [[1, 0], [0, 1], [0, 0]]]) = .ok out ∧
    out.solution.core = ttmFold c10ExampleX (ascList out.solution.factors 2) true := by
  have hX : c10ExampleX.WF := by simp [c10ExampleX, Dense.WF, numel]
  have hR : ∀ n < c10ExampleX.shape.length, (parseRank [1, 2] c10ExampleX.shape.length).getD n 0 ≤ c10ExampleX.shape.getD n 0 := by
    intro n hn
    have : n < 2 := by simpa [c10ExampleX] using hn
    interval_cases n <;> simp [c10ExampleX, parseRank]
  obtain ⟨out, ho⟩ := C10_tucker_accepts nvecsSpec nvecsSpec_contract
    (fun _ m p => List.replicate m (List.replicate p 0)) (fun _ _ _ => by simp [Mat.nrows])
    c10ExampleX hX (by simp [c10ExampleX]) [1, 2] (by simp [c10ExampleX, parseRank]) (by simp [c10ExampleX, parseRank]) hR 0 2 (by norm_num) none
    (by show isPermOf [0, 1] 2 = true; decide) (.list [[[1], [0]], [[1, 0], [0, 1], [0, 0]]])
    (by simp [c10ExampleX, modeOrder, parseRank, Mat.nrows, Mat.ncols])
  exact ⟨out, ho, C10_tucker_core nvecsSpec nvecsSpec_contract _ c10ExampleX hX [1, 2] 0 2 none _ out ho⟩

/-- … and the hypotheses of `C10_tucker_fit_monotone` are satisfiable: the same run, with the `nvecs` of the
spectral theorem (which keeps both contracts), executes at least one iteration and its fits are
non-decreasing, the last being the returned one — with no appeal to any unproved principle. -/
example : ∃ out recs, tuckerAlsRun realOps nvecsSpec (fun _ m p => List.replicate m (List.replicate p 0)) c10ExampleX
      [1, 2] 0 2 none (.list [[[1], [0]], [[1, 0], [0, 1], [0, 0]]]) = .ok (out, recs) ∧ 1 ≤ recs.length ∧
    (recs.map fun r => r.fit).Pairwise (· ≤ ·) ∧ (recs.map fun r => r.fit).getLast? = some out.fit := by
  have hX : c10ExampleX.WF := by simp [c10ExampleX, Dense.WF, numel]
  have hR : ∀ n < c10ExampleX.shape.length, (parseRank [1, 2] c10ExampleX.shape.length).getD n 0 ≤ c10ExampleX.shape.getD n 0 := by
    intro n hn
    have : n < 2 := by simpa [c10ExampleX] using hn
    interval_cases n <;> simp [c10ExampleX, parseRank]
  obtain ⟨out, ho⟩ := C10_tucker_accepts nvecsSpec nvecsSpec_contract
    (fun _ m p => List.replicate m (List.replicate p 0)) (fun _ _ _ => by simp [Mat.nrows])
    c10ExampleX hX (by simp [c10ExampleX]) [1, 2] (by simp [c10ExampleX, parseRank]) (by simp [c10ExampleX, parseRank]) hR 0 2 (by norm_num) none
    (by show isPermOf [0, 1] 2 = true; decide) (.list [[[1], [0]], [[1, 0], [0, 1], [0, 0]]])
    (by simp [c10ExampleX, modeOrder, parseRank, Mat.nrows, Mat.ncols])
  obtain ⟨recs, hr⟩ := tuckerAls_run_of_ok ho
  have hm := C10_tucker_fit_monotone nvecsSpec nvecsSpec_contract nvecsSpec_leading _ c10ExampleX hX [1, 2] 0 2
    none _ out recs hr
  exact ⟨out, recs, hr, (C10_tucker_iters_le nvecsSpec nvecsSpec_contract _ c10ExampleX hX [1, 2] 0 2 none _ out
    recs hr).1, hm.1, hm.2.2⟩

end Pyttb
