/-
C10 — Tucker decompositions meet their error bound and structural contract.

Only property theorems and non-vacuity examples; proofs are in Lemmas/Tucker*.lean,
Lemmas/Hosvd*.lean.  All statements are over ℝ about the executable models `Tk.hosvd` /
`Tk.tuckerAls` (Alg/Hosvd.lean, Alg/TuckerAls.lean) run with the real-number services
`Tk.realOps`, for ALL well-formed data tensors, tolerances, rank vectors, mode orders, both
truncation strategies, all initial guesses and iteration limits, and for ANY `eigh` / `nvecs`
service that satisfies its stated contract.

Vocabulary (defined in the lemma files, entry-wise):
* `Tk.OrthoCols U m p`     — `U` is an `m × p` matrix with orthonormal columns;
* `Tk.ttmFold X l true`    — `X` multiplied, for every `(n, U)` of the list `l`, in mode `n` by `Uᵀ`;
* `Tk.ascList Us d`        — the list `(0, Us[0]), …, (d-1, Us[d-1])`;
* `Tk.tail eig r`          — the sum of `eig[r:]` (the eigenvalues discarded when `r` are kept);
* `Tk.EighContract eigh`   — on every symmetric `n × n` matrix `Z`, `eigh` returns `n` values `D` and an
                             `n × n` matrix `V` with orthonormal columns and `Z V = V diag(D)`;
* `Tk.NvecsContract nvecs` — `W.nvecs(n, r)` is a `shape[n] × r` matrix with orthonormal columns (`r ≤ shape[n]`);
* `Tk.NvecsLeading nvecs`  — … whose columns are, up to sign, eigenvectors of the `r` largest eigenvalues of
                             the Gram matrix of the mode-`n` unfolding;
* `Tk.KyFan`               — Ky Fan's maximum principle (a hypothesis of the monotonicity theorem only).
-/
import PyttbModel.Lemmas.TuckerAlsThm
namespace Pyttb
open Tk

/-! ### HOSVD -/

/-- The factor matrices returned by `hosvd` have orthonormal columns: factor `n` has as many rows
as mode `n` of the data and as many columns as mode `n` of the core, and its columns are
orthonormal — for sequential and non-sequential truncation, any mode order, automatic or
requested ranks. -/
theorem C10_hosvd_orthonormal (eigh : Nat → Mat ℝ → List ℝ × Mat ℝ) (hE : EighContract eigh)
    (X : Dense ℝ) (hX : X.WF) (tol : ℝ) (dimorder : Option (List Nat)) (seq : Bool) (ranks : Option (List Nat))
    (T : Ttensor ℝ) (h : hosvd realOps eigh X tol dimorder seq ranks = .ok T) (n : Nat) (hn : n < X.shape.length) :
    T.factors.length = X.shape.length ∧
    OrthoCols (T.factors.getD n []) (X.shape.getD n 0) (T.core.shape.getD n 0) := by
  obtain ⟨tr, hr⟩ := hosvd_run_of_ok h
  have hF := hosvd_facts hE hX hr
  refine ⟨hF.lenF, ?_⟩
  rw [hF.core_shape hn]
  exact hF.factor_ortho hn

/-- The core returned by `hosvd` is the data multiplied in every mode by the transposed factor
(mode products defined entry-wise, applied in increasing mode order — by `Tk.ttmFold_perm`
any other order gives the same tensor), whether the loop shrinks the tensor mode by mode in
the order `dimorder` (sequential) or multiplies at the end (non-sequential). -/
theorem C10_hosvd_core (eigh : Nat → Mat ℝ → List ℝ × Mat ℝ) (hE : EighContract eigh)
    (X : Dense ℝ) (hX : X.WF) (tol : ℝ) (dimorder : Option (List Nat)) (seq : Bool) (ranks : Option (List Nat))
    (T : Ttensor ℝ) (h : hosvd realOps eigh X tol dimorder seq ranks = .ok T) :
    T.core = ttmFold X (ascList T.factors X.shape.length) true := by
  obtain ⟨tr, hr⟩ := hosvd_run_of_ok h
  exact (hosvd_facts hE hX hr).core

/-- Requested ranks are met exactly: when mode `n` is given a rank `r ≥ 1` within the mode size,
factor `n` has exactly `r` (orthonormal) columns and the core has extent `r` in mode `n`.
(False on the tree before 62e9ddd, which kept `r + 1` columns.) -/
theorem C10_hosvd_rank_given (eigh : Nat → Mat ℝ → List ℝ × Mat ℝ) (hE : EighContract eigh)
    (X : Dense ℝ) (hX : X.WF) (tol : ℝ) (dimorder : Option (List Nat)) (seq : Bool) (r : List Nat)
    (T : Ttensor ℝ) (h : hosvd realOps eigh X tol dimorder seq (some r) = .ok T) (n : Nat) (hn : n < X.shape.length)
    (h0 : r.getD n 0 ≠ 0) (hle : r.getD n 0 ≤ X.shape.getD n 0) :
    OrthoCols (T.factors.getD n []) (X.shape.getD n 0) (r.getD n 0) ∧ T.core.shape.getD n 0 = r.getD n 0 := by
  obtain ⟨tr, hr⟩ := hosvd_run_of_ok h
  have hF := hosvd_facts hE hX hr
  obtain ⟨rec, hrec, rfl⟩ := hF.rec_of_mode hn
  obtain ⟨hok, hfac⟩ := hF.recs rec hrec
  have hrank : rec.rank = r.getD rec.k 0 := hok.given (by simpa [reqRanks] using h0)
  have ho := hok.ortho
  rw [hrank, Nat.min_eq_left hle] at ho
  rw [hF.core_shape hn, hfac]
  exact ⟨ho, ho.ncols⟩

/-- Automatic ranks: for every mode whose rank is chosen by `hosvd` (no rank vector, or a `0`
entry), the pass that processed the mode — its record `rec` in the trace — worked on the
eigenvalues of the Gram matrix `rec.gram` of the current unfolding, sorted decreasingly and
all non-negative (`rec.eig`), and kept `rec.rank` columns where `rec.rank` is the LEAST
count whose discarded eigenvalue tail is at most `tol² ‖X‖² / d`: the tail of `rec.rank` is
within the threshold, the tail of every smaller count exceeds it.  At least one and at most
all columns are kept, the factor has exactly that many orthonormal columns, and the tail is
exactly the energy `‖Y‖² − ‖Y ×ₖ Uₖᵀ‖²` lost by this truncation of the current tensor `Y`
(`Y = X` for the non-sequential strategy). -/
theorem C10_hosvd_rank_auto (eigh : Nat → Mat ℝ → List ℝ × Mat ℝ) (hE : EighContract eigh)
    (X : Dense ℝ) (hX : X.WF) (tol : ℝ) (dimorder : Option (List Nat)) (seq : Bool) (ranks : Option (List Nat))
    (T : Ttensor ℝ) (tr : List (ModeRec ℝ)) (h : hosvdRun realOps eigh X tol dimorder seq ranks = .ok (T, tr))
    (rec : ModeRec ℝ) (hrec : rec ∈ tr) (hauto : (reqRanks ranks X.shape.length).getD rec.k 0 = 0) :
    (∃ D V, EighOK rec.gram (X.shape.getD rec.k 0) D V ∧
        rec.eig = (argsortDesc realOps D).map (fun i => D.getD i 0)) ∧
    rec.eig.Pairwise (fun x y => y ≤ x) ∧ (∀ x ∈ rec.eig, 0 ≤ x) ∧
    tail rec.eig rec.rank ≤ tol ^ 2 * normSq X / X.shape.length ∧
    (∀ r' < rec.rank, tol ^ 2 * normSq X / X.shape.length < tail rec.eig r') ∧
    1 ≤ rec.rank ∧ rec.rank ≤ X.shape.getD rec.k 0 ∧
    OrthoCols (T.factors.getD rec.k []) (X.shape.getD rec.k 0) rec.rank ∧
    (∃ Y : Dense ℝ, Y.WF ∧ rec.gram = gramMode Y rec.k ∧
      tail rec.eig rec.rank = normSq Y - normSq (ttmT Y (T.factors.getD rec.k []) rec.k true) ∧
      (seq = false → Y = X)) := by
  have hF := hosvd_facts hE hX h
  obtain ⟨hok, hfac⟩ := hF.recs rec hrec
  have hcut := hok.auto hauto
  have h0 := thresh_nonneg tol (normSq X) X.shape.length (normSq_nonneg X hX)
  obtain ⟨c1, c2, _, _⟩ := rankCut_spec rec.eig _ h0 hcut
  obtain ⟨l1, l2⟩ := rankCut_least rec.eig hok.nonneg _ h0 hcut
  rw [thresh_eq] at l1 l2
  rw [hok.len] at c2
  have ho := hok.ortho
  rw [Nat.min_eq_left c2] at ho
  refine ⟨hok.eigOf, hok.sorted, hok.nonneg, l1, l2, c1, c2, by rw [hfac]; exact ho, ?_⟩
  obtain ⟨Y, hY, hg, ht, hs⟩ := hok.cur
  exact ⟨Y, hY, hg, by rw [hfac]; exact ht, hs⟩

/-- The error bound.  When every rank is chosen automatically, the Tucker tensor returned by
`hosvd` satisfies `‖X − T‖² ≤ tol² ‖X‖²`, i.e. the relative error is at most the tolerance —
for sequential and non-sequential truncation and any mode order.  (`T.full()` is
`tfull T`, the difference is `dsub`; both are part of the model.)  The proof goes through
`‖X − T‖² = ‖X‖² − ‖G‖²` (orthonormal factors, projected core), which telescopes into the
discarded eigenvalue tails (sequential), respectively is bounded by their sum because
compressing other modes cannot increase the projection defect of a mode (non-sequential);
every tail is at most `tol² ‖X‖² / d` by the cut-off rule. -/
theorem C10_hosvd_error_bound (eigh : Nat → Mat ℝ → List ℝ × Mat ℝ) (hE : EighContract eigh)
    (X : Dense ℝ) (hX : X.WF) (tol : ℝ) (dimorder : Option (List Nat)) (seq : Bool) (ranks : Option (List Nat))
    (hauto : ∀ k, (reqRanks ranks X.shape.length).getD k 0 = 0)
    (T : Ttensor ℝ) (h : hosvd realOps eigh X tol dimorder seq ranks = .ok T)
    (F E : Dense ℝ) (hfull : tfull T = .ok F) (hdiff : dsub X F = .ok E) :
    normSq E ≤ tol ^ 2 * normSq X := by
  obtain ⟨tr, hr⟩ := hosvd_run_of_ok h
  have hF := hosvd_facts hE hX hr
  rw [hF.err_eq hX hfull hdiff]
  set thresh := Gen.eigsumthresh realOps tol (normSq X) (realOps.ofNat X.shape.length) with hth
  have h0 : 0 ≤ thresh := thresh_nonneg tol (normSq X) X.shape.length (normSq_nonneg X hX)
  have htail : ∀ rec ∈ tr, tail rec.eig rec.rank ≤ thresh := by
    intro rec hrec
    exact (rankCut_spec rec.eig _ h0 ((hF.recs rec hrec).1.auto (hauto _))).2.2.1
  have hlen : tr.length = X.shape.length := by
    have := congrArg List.length hF.order
    simpa [isPermOf_perm' hF.perm |>.length_eq] using this
  have hsum : normSq X - normSq T.core ≤ (X.shape.length : ℝ) * thresh := by
    cases seq with
    | true =>
      rw [hF.energy rfl]
      have := List.sum_le_card_nsmul (tr.map fun r => tail r.eig r.rank) thresh
        (by
          intro x hx
          obtain ⟨rec, hrec, rfl⟩ := List.mem_map.1 hx
          exact htail rec hrec)
      simpa [hlen] using this
    | false =>
      have hb := normSq_sub_core_le (ascList T.factors X.shape.length) X hX (ascList_fst_nodup _ _) hF.asc_ortho
      rw [← hF.core] at hb
      have := List.sum_le_card_nsmul ((ascList T.factors X.shape.length).map fun q => defect X q.2 q.1) thresh
        (by
          intro x hx
          obtain ⟨q, hq, rfl⟩ := List.mem_map.1 hx
          simp only [ascList, List.mem_map, List.mem_range] at hq
          obtain ⟨k, hk, rfl⟩ := hq
          obtain ⟨rec, hrec, rfl⟩ := hF.rec_of_mode hk
          obtain ⟨hok, hfac⟩ := hF.recs rec hrec
          obtain ⟨Y, _, _, ht, hs⟩ := hok.cur
          have hYX := hs rfl
          subst hYX
          simp only
          rw [hfac, ← ht]
          exact htail rec hrec)
      have hl : ((ascList T.factors X.shape.length).map fun q => defect X q.2 q.1).length = X.shape.length := by
        simp [ascList]
      rw [hl] at this
      have : (ascList T.factors X.shape.length |>.map fun q => defect X q.2 q.1).sum ≤ (X.shape.length : ℝ) * thresh := by
        simpa using this
      linarith
  refine le_trans hsum ?_
  rw [hth, thresh_eq]
  by_cases hd : X.shape.length = 0
  · rw [hd]
    have := normSq_nonneg X hX
    simp only [Nat.cast_zero, zero_mul]
    positivity
  · have : (X.shape.length : ℝ) ≠ 0 := by exact_mod_cast hd
    rw [mul_div_cancel₀ _ this]

/-! ### Tucker-ALS -/

/-- `tucker_als` returns orthonormal factors of the requested ranks: factor `n` has as many rows as
mode `n` of the data, exactly `rank[n]` columns (an integer rank is used for every mode), the
columns are orthonormal, and the core has extent `rank[n]` in mode `n` — for every initial guess
(random under any draws, leading vectors, given list), every mode order, every stop tolerance
and iteration limit. -/
theorem C10_tucker_orthonormal (nvecs : Nat → Dense ℝ → Nat → Nat → Mat ℝ) (hC : NvecsContract nvecs)
    (uniform : Nat → Nat → Nat → Mat ℝ) (X : Dense ℝ) (hX : X.WF) (rank : List Nat)
    (hR : ∀ n < X.shape.length, (parseRank rank X.shape.length).getD n 0 ≤ X.shape.getD n 0)
    (stoptol : ℝ) (maxiters : Int) (dimorder : Option (List Nat)) (init : Init ℝ) (out : TaOut ℝ)
    (h : tuckerAls realOps nvecs uniform X rank stoptol maxiters dimorder init = .ok out)
    (n : Nat) (hn : n < X.shape.length) :
    out.solution.factors.length = X.shape.length ∧
    OrthoCols (out.solution.factors.getD n []) (X.shape.getD n 0) ((parseRank rank X.shape.length).getD n 0) ∧
    out.solution.core.shape.getD n 0 = (parseRank rank X.shape.length).getD n 0 := by
  obtain ⟨recs, hr⟩ := tuckerAls_run_of_ok h
  obtain ⟨_, _, r, _, hrec, hsol, _⟩ := tucker_facts hC hX hR hr
  rw [hsol]
  refine ⟨hrec.lenF, hrec.ortho n hn, ?_⟩
  simp only
  rw [hrec.core, ttmFold_shape]
  rw [coreShape_getD_mem _ _ n (r.factors.getD n []) (ascList_fst_nodup _ _)
    (by simp only [ascList, List.mem_map, List.mem_range]; exact ⟨n, hn, rfl⟩) hn]
  exact (hrec.ortho n hn).ncols

/-- The core returned by `tucker_als` is the data multiplied in every mode by the transposed
factor (although the code computes it as `Utilde ×ₙ Uₙᵀ` for the LAST mode `n` of `dimorder`,
`Utilde` being the data multiplied in all other modes). -/
theorem C10_tucker_core (nvecs : Nat → Dense ℝ → Nat → Nat → Mat ℝ) (hC : NvecsContract nvecs)
    (uniform : Nat → Nat → Nat → Mat ℝ) (X : Dense ℝ) (hX : X.WF) (rank : List Nat)
    (hR : ∀ n < X.shape.length, (parseRank rank X.shape.length).getD n 0 ≤ X.shape.getD n 0)
    (stoptol : ℝ) (maxiters : Int) (dimorder : Option (List Nat)) (init : Init ℝ) (out : TaOut ℝ)
    (h : tuckerAls realOps nvecs uniform X rank stoptol maxiters dimorder init = .ok out) :
    out.solution.core = ttmFold X (ascList out.solution.factors X.shape.length) true := by
  obtain ⟨recs, hr⟩ := tuckerAls_run_of_ok h
  obtain ⟨_, _, r, _, hrec, hsol, _⟩ := tucker_facts hC hX hR hr
  rw [hsol]
  exact hrec.core

/-- The reported fit is the recomputed one: with `F = T.full()` and `E = X − F`,
`normresidual = ‖E‖` and `fit = 1 − ‖E‖ / ‖X‖` (norms as square roots of sums of squares).  The
code computes `sqrt(|‖X‖² − ‖G‖²|)`; for orthonormal factors and the projected core
`‖X − T‖² = ‖X‖² − ‖G‖² ≥ 0`. -/
theorem C10_tucker_fit (nvecs : Nat → Dense ℝ → Nat → Nat → Mat ℝ) (hC : NvecsContract nvecs)
    (uniform : Nat → Nat → Nat → Mat ℝ) (X : Dense ℝ) (hX : X.WF) (rank : List Nat)
    (hR : ∀ n < X.shape.length, (parseRank rank X.shape.length).getD n 0 ≤ X.shape.getD n 0)
    (stoptol : ℝ) (maxiters : Int) (dimorder : Option (List Nat)) (init : Init ℝ) (out : TaOut ℝ)
    (h : tuckerAls realOps nvecs uniform X rank stoptol maxiters dimorder init = .ok out)
    (F E : Dense ℝ) (hfull : tfull out.solution = .ok F) (hdiff : dsub X F = .ok E) :
    out.normresidual = Real.sqrt (normSq E) ∧
    out.fit = 1 - Real.sqrt (normSq E) / Real.sqrt (normSq X) := by
  obtain ⟨recs, hr⟩ := tuckerAls_run_of_ok h
  obtain ⟨_, _, r, _, hrec, hsol, _, hnr, hfit, _⟩ := tucker_facts hC hX hR hr
  rw [hsol, hrec.core] at hfull
  have herr := tucker_err_eq X hX r.factors hrec.ortho' hfull hdiff
  rw [← hrec.core] at herr
  obtain ⟨v1, v2, _⟩ := hrec.values hX
  rw [hnr, hfit, v1, v2, herr]
  exact ⟨rfl, rfl⟩

/-- The iteration limit is respected: the number of executed iterations is at least one and at
most `maxiters`, and the reported `iters` is the 0-based index of the last executed iteration
(number of iterations minus one, as the code reports it). -/
theorem C10_tucker_iters_le (nvecs : Nat → Dense ℝ → Nat → Nat → Mat ℝ) (hC : NvecsContract nvecs)
    (uniform : Nat → Nat → Nat → Mat ℝ) (X : Dense ℝ) (hX : X.WF) (rank : List Nat)
    (hR : ∀ n < X.shape.length, (parseRank rank X.shape.length).getD n 0 ≤ X.shape.getD n 0)
    (stoptol : ℝ) (maxiters : Int) (dimorder : Option (List Nat)) (init : Init ℝ) (out : TaOut ℝ)
    (recs : List (IterRec ℝ))
    (h : tuckerAlsRun realOps nvecs uniform X rank stoptol maxiters dimorder init = .ok (out, recs)) :
    1 ≤ recs.length ∧ (recs.length : Int) ≤ maxiters ∧ out.iters + 1 = recs.length := by
  obtain ⟨⟨Uinit, hI⟩, hpos, r, _, _, _, hiters, _, _, hlen⟩ := tucker_facts hC hX hR h
  have h1 := hI.len
  refine ⟨by omega, by omega, ?_⟩
  rw [hiters]
  simp only [Gen.itersReported]
  omega

/-- Monotonicity of the fit, PARTIAL: proved modulo Ky Fan's maximum principle, which enters as
the explicit hypothesis `hK : KyFan` (it is a true theorem of matrix analysis that is not
proved in this development), and under the stronger contract `NvecsLeading` of the `nvecs`
service (its columns are, up to sign, eigenvectors of the leading eigenvalues).  Under these
hypotheses the fits of the executed iterations form a non-decreasing sequence (and so do the
squared core norms), and the returned fit is the last of them. -/
theorem C10_tucker_fit_monotone_partial (nvecs : Nat → Dense ℝ → Nat → Nat → Mat ℝ) (hC : NvecsContract nvecs)
    (hL : NvecsLeading nvecs) (hK : KyFan)
    (uniform : Nat → Nat → Nat → Mat ℝ) (X : Dense ℝ) (hX : X.WF) (rank : List Nat)
    (hR : ∀ n < X.shape.length, (parseRank rank X.shape.length).getD n 0 ≤ X.shape.getD n 0)
    (stoptol : ℝ) (maxiters : Int) (dimorder : Option (List Nat)) (init : Init ℝ) (out : TaOut ℝ)
    (recs : List (IterRec ℝ))
    (h : tuckerAlsRun realOps nvecs uniform X rank stoptol maxiters dimorder init = .ok (out, recs)) :
    (recs.map fun r => r.fit).Pairwise (· ≤ ·) ∧ (recs.map fun r => normSq r.core).Pairwise (· ≤ ·) ∧
    (recs.map fun r => r.fit).getLast? = some out.fit := by
  obtain ⟨⟨Uinit, hI⟩, _, r, hlast, _, _, _, _, hfit, _⟩ := tucker_facts hC hX hR h
  have hs := hI.sorted hL hK
  refine ⟨?_, hs, by rw [List.getLast?_map, hlast, hfit]; rfl⟩
  rw [List.pairwise_map] at hs ⊢
  refine List.Pairwise.imp_of_mem ?_ hs
  intro a b ha hb hab
  obtain ⟨_, va, _⟩ := (hI.each a ha).values hX
  obtain ⟨_, vb, lb⟩ := (hI.each b hb).values hX
  rw [va, vb]
  exact fit_mono _ _ _ hab lb

end Pyttb
