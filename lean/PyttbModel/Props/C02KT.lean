/-
C02 (continued) — the Kruskal, Tucker and sum-tensor kernels of `ktensor.py`, `ttensor.py`,
`sumtensor.py` equal the definitions of `Spec/Multilinear.lean` applied to the array the object
denotes (`Ktensor.get`, `Ttensor.get`, the cell-wise sum of the parts).
Only property theorems and non-vacuity examples; proofs are in Lemmas/MLKruskal.lean,
MLTuckerOps.lean, MLSum.lean.
-/
import PyttbModel.Lemmas.MLKruskal
namespace Pyttb

variable {α : Type}

/-! ### Kruskal tensors -/

/-- `ktensor.ttv` after mode designation, for distinct in-range modes and vectors as long as the
factor has rows: each selected factor is contracted with its vector into the weights.  Every mode
selected → the scalar `Σ_r λ'_r`; otherwise a Kruskal tensor over the remaining factors (same number
of components).  Through the one denotation of either result kind, the value at every remaining
coordinate is `Σ_{k ∈ fiber} ⟦K⟧[k]·∏_d v_d[k_d]`.  No assumption on the weights or the row lengths. -/
theorem C02_ttv_kruskal [CommSemiring α] (K : Ktensor α) (pairs : List (Nat × List α))
    (hnd : (pairs.map (·.1)).Nodup) (hlt : ∀ p ∈ pairs, p.1 < K.factors.length)
    (hlen : ∀ p ∈ pairs, p.2.length = K.shape.getD p.1 0)
    (w : Nat → Nat → α) (hw : ∀ p ∈ pairs, ∀ k, w p.1 k = p.2.getD k 0) :
    ∃ r, K.ttvCore pairs = .ok r ∧ MLK.kresShape r = Spec.ttvShape K.shape (pairs.map (·.1)) ∧
      (∀ K', r = .obj K' → K'.weights.length = K.weights.length ∧
        K'.factors = gatherD K.factors (complDims K.factors.length (pairs.map (·.1))) []) ∧
      ∀ i, InBounds (MLK.kresShape r) i → MLK.kresGet r i = Spec.ttv K.den (pairs.map (·.1)) w i :=
  MLK.kruskal_ttvCore_spec K pairs hnd hlt hlen w hw

/-- `ktensor.ttv` as called with `dims` listed in any order and one vector per listed mode. -/
theorem C02_ttv_kruskal_dims [CommSemiring α] (K : Ktensor α) (d : List Nat) (vs : List (List α))
    (hd : d.Nodup) (hN : ∀ x ∈ d, x < K.factors.length) (hl : vs.length = d.length)
    (hsz : ∀ p ∈ d.zip vs, p.2.length = K.shape.getD p.1 0)
    (w : Nat → Nat → α) (hw : ∀ p ∈ d.zip vs, ∀ k, w p.1 k = p.2.getD k 0) :
    ∃ r, K.ttv vs (some (d.map Int.ofNat)) none = .ok r ∧ MLK.kresShape r = Spec.ttvShape K.shape d ∧
      ∀ i, InBounds (MLK.kresShape r) i → MLK.kresGet r i = Spec.ttv K.den d w i :=
  MLK.kruskal_ttv_dims K d vs hd hN hl hsz w hw

/-- `ktensor.innerprod(ktensor)` (weighted sum of the Hadamard product of the Gram matrices
`AₙᵀBₙ`) is `Σ_k ⟦K⟧[k]·⟦L⟧[k]`; different shapes are rejected. -/
theorem C02_innerprod_kruskal_kruskal [CommSemiring α] (K L : Ktensor α) :
    (K.shape = L.shape → K.innerprodK L = .ok (Spec.inner K.den L.den)) ∧
    (K.shape ≠ L.shape → K.innerprodK L = .error .reject) :=
  ⟨MLK.kruskal_innerprodK_spec K L, MLK.kruskal_innerprodK_rejects K L⟩

/-- The square of `ktensor.norm()` (sum of the coefficient matrix `λλᵀ ∗ ⊛ₙ AₙᵀAₙ`, before
`abs`/`sqrt`) is `Σ_k ⟦K⟧[k]²`. -/
theorem C02_norm_kruskal [CommSemiring α] (K : Ktensor α) : K.normSq = Spec.normSq K.den :=
  MLK.kruskal_normSq_spec K

/-- `ktensor.mttkrp(U, n)` with a list of factor matrices: entry `[i, r]` is
`Σ_{k, k_n = i} ⟦K⟧[k] ∏_{m ≠ n} U_m[k_m, r]`. -/
theorem C02_mttkrp_kruskal [CommSemiring α] (K : Ktensor α) (U : List (Mat α)) (n R : Nat)
    (hN2 : 2 ≤ K.factors.length) (hn : n < K.factors.length) (hlen : U.length = K.factors.length)
    (hrows : ∀ m, m < K.factors.length → m ≠ n → (U.getD m []).length = (K.factors.getD m []).length)
    (hcols : ∀ m, m < K.factors.length → m ≠ n → ∀ row ∈ U.getD m [], row.length = R)
    (hpos : ∀ m, m < K.factors.length → m ≠ n → 0 < (K.factors.getD m []).length) :
    ∃ V, K.mttkrp (.list U) n = .ok V ∧
      ∀ i r, i < (K.factors.getD n []).length → r < R →
        V.get i r = Spec.mttkrp K.den (fun m x c => (U.getD m []).get x c) (fun _ => 1) n i r :=
  MLK.kruskal_mttkrp_list_spec K U n R hN2 hn hlen hrows hcols hpos

/-- `ktensor.mttkrp(L, n)` with a Kruskal operand: its weights scale the columns. -/
theorem C02_mttkrp_kruskal_kruskal [CommSemiring α] (K L : Ktensor α) (n R : Nat)
    (hN2 : 2 ≤ K.factors.length) (hn : n < K.factors.length) (hlen : L.factors.length = K.factors.length)
    (hw : L.weights.length = R)
    (hrows : ∀ m, m < K.factors.length → m ≠ n → (L.factors.getD m []).length = (K.factors.getD m []).length)
    (hcols : ∀ m, m < K.factors.length → m ≠ n → ∀ row ∈ L.factors.getD m [], row.length = R)
    (hpos : ∀ m, m < K.factors.length → m ≠ n → 0 < (K.factors.getD m []).length) :
    ∃ V, K.mttkrp (.kruskal L) n = .ok V ∧
      ∀ i r, i < (K.factors.getD n []).length → r < R →
        V.get i r = Spec.mttkrp K.den (fun m x c => (L.factors.getD m []).get x c)
          (fun r => L.weights.getD r 0) n i r :=
  MLK.kruskal_mttkrp_kruskal_spec K L n R hN2 hn hlen hw hrows hcols hpos

end Pyttb
