/-
C02 (continued) — the Kruskal, Tucker and sum-tensor kernels of `ktensor.py`, `ttensor.py`,
`sumtensor.py` equal the definitions of `Spec/Multilinear.lean` applied to the array the object
denotes: `Ktensor.get` (`Σ_r λ_r ∏ₙ Aₙ[iₙ,r]`), `Ttensor.get` (`Σ_j G[j] ∏ₙ Uₙ[iₙ,jₙ]`), and for a sum
tensor the cell-wise sum of what its parts denote (`MLK.sumDen`).  All shapes, orders and ranks.
Only property theorems and non-vacuity examples; proofs are in Lemmas/MLKruskal.lean,
MLTuckerOps.lean, MLSum.lean.  `MLK.kresGet/kresShape`, `MLK.tresGet/tresShape`,
`MLK.partResGet`, `MLK.sumResGet` are the one denotation of a scalar-or-object result.
-/
import PyttbModel.Lemmas.MLSum
import PyttbModel.Lemmas.MLSumKruskal
namespace Pyttb

variable {α : Type}

/-! ### Kruskal tensors -/

/-- `ktensor.ttv` after mode designation, for distinct in-range modes and vectors as long as the
factor has rows: each selected factor is contracted with its vector into the weights.  Every mode
selected → the scalar `Σ_r λ'_r`; otherwise a Kruskal tensor over the remaining factors with the same
number of components (never a scalar).  Through the one denotation of either result kind, the value
at every remaining coordinate is `Σ_{k ∈ fiber} ⟦K⟧[k]·∏_d v_d[k_d]`.  Nothing is assumed of the
weights or of the row lengths of the factors. -/
theorem C02_ttv_kruskal [CommSemiring α] (K : Ktensor α) (pairs : List (Nat × List α))
    (hnd : (pairs.map (·.1)).Nodup) (hlt : ∀ p ∈ pairs, p.1 < K.factors.length)
    (hlen : ∀ p ∈ pairs, p.2.length = K.shape.getD p.1 0)
    (w : Nat → Nat → α) (hw : ∀ p ∈ pairs, ∀ k, w p.1 k = p.2.getD k 0) :
    ∃ r, K.ttvCore pairs = .ok r ∧ MLK.kresShape r = Spec.ttvShape K.shape (pairs.map (·.1)) ∧
      (∀ K', r = .obj K' → K'.weights.length = K.weights.length ∧
        K'.factors = gatherD K.factors (complDims K.factors.length (pairs.map (·.1))) []) ∧
      ((∃ v, r = .scalar v) ↔ complDims K.factors.length (pairs.map (·.1)) = []) ∧
      ∀ i, InBounds (MLK.kresShape r) i → MLK.kresGet r i = Spec.ttv K.den (pairs.map (·.1)) w i :=
  MLK.kruskal_ttvCore_spec K pairs hnd hlt hlen w hw

/-- `ktensor.ttv` rejects a vector whose length is not the extent of its mode. -/
theorem C02_ttv_kruskal_rejects [Add α] [Mul α] [Zero α] (K : Ktensor α) (pairs : List (Nat × List α))
    (h : ∃ p ∈ pairs, p.2.length ≠ K.shape.getD p.1 0) : K.ttvCore pairs = .error .reject :=
  MLK.kruskal_ttvCore_rejects K pairs h

/-- `ktensor.ttv` as called with `dims` listed in any order and one vector per listed mode. -/
theorem C02_ttv_kruskal_dims [CommSemiring α] (K : Ktensor α) (d : List Nat) (vs : List (List α))
    (hd : d.Nodup) (hN : ∀ x ∈ d, x < K.factors.length) (hl : vs.length = d.length)
    (hsz : ∀ p ∈ d.zip vs, p.2.length = K.shape.getD p.1 0)
    (w : Nat → Nat → α) (hw : ∀ p ∈ d.zip vs, ∀ k, w p.1 k = p.2.getD k 0) :
    ∃ r, K.ttv vs (some (d.map Int.ofNat)) none = .ok r ∧ MLK.kresShape r = Spec.ttvShape K.shape d ∧
      ((∃ v, r = .scalar v) ↔ complDims K.factors.length d = []) ∧
      ∀ i, InBounds (MLK.kresShape r) i → MLK.kresGet r i = Spec.ttv K.den d w i :=
  MLK.kruskal_ttv_dims K d vs hd hN hl hsz w hw

/-- `ktensor.innerprod(ktensor)` (weighted sum of the Hadamard product of the Gram matrices
`AₙᵀBₙ`) is `Σ_k ⟦K⟧[k]·⟦L⟧[k]`, for any two ranks; different shapes are rejected. -/
theorem C02_innerprod_kruskal_kruskal [CommSemiring α] (K L : Ktensor α) :
    (K.shape = L.shape → K.innerprodK L = .ok (Spec.inner K.den L.den)) ∧
    (K.shape ≠ L.shape → K.innerprodK L = .error .reject) :=
  ⟨MLK.kruskal_innerprodK_spec K L, MLK.kruskal_innerprodK_rejects K L⟩

/-- The square of `ktensor.norm()` (sum of the coefficient matrix `λλᵀ ∗ ⊛ₙ AₙᵀAₙ`, before
`abs`/`sqrt`) is `Σ_k ⟦K⟧[k]²`. -/
theorem C02_norm_kruskal [CommSemiring α] (K : Ktensor α) : K.normSq = Spec.normSq K.den :=
  MLK.kruskal_normSq_spec K

/-- `ktensor.mttkrp(U, n)` with a list of factor matrices (`U_m` has as many rows as mode `m`, `R`
columns, `m ≠ n`; at least two modes; the modes other than `n` non-empty): an `I_n × R` matrix whose
entry `[i, r]` is `Σ_{k, k_n = i} ⟦K⟧[k] ∏_{m ≠ n} U_m[k_m, r]`. -/
theorem C02_mttkrp_kruskal [CommSemiring α] (K : Ktensor α) (U : List (Mat α)) (n R : Nat)
    (hN2 : 2 ≤ K.factors.length) (hn : n < K.factors.length) (hlen : U.length = K.factors.length)
    (hrows : ∀ m, m < K.factors.length → m ≠ n → (U.getD m []).length = (K.factors.getD m []).length)
    (hcols : ∀ m, m < K.factors.length → m ≠ n → ∀ row ∈ U.getD m [], row.length = R)
    (hpos : ∀ m, m < K.factors.length → m ≠ n → 0 < (K.factors.getD m []).length) :
    ∃ V, K.mttkrp (.list U) n = .ok V ∧ V.length = (K.factors.getD n []).length ∧ (∀ row ∈ V, row.length = R) ∧
      ∀ i r, i < (K.factors.getD n []).length → r < R →
        V.get i r = Spec.mttkrp K.den (fun m x c => (U.getD m []).get x c) (fun _ => 1) n i r :=
  MLK.kruskal_mttkrp_list_spec K U n R hN2 hn hlen hrows hcols hpos

/-- `ktensor.mttkrp(L, n)` with a Kruskal operand: its weights (absorbed by `get_mttkrp_factors` into
mode 1 or 0) scale the columns. -/
theorem C02_mttkrp_kruskal_kruskal [CommSemiring α] (K L : Ktensor α) (n R : Nat)
    (hN2 : 2 ≤ K.factors.length) (hn : n < K.factors.length) (hlen : L.factors.length = K.factors.length)
    (hw : L.weights.length = R)
    (hrows : ∀ m, m < K.factors.length → m ≠ n → (L.factors.getD m []).length = (K.factors.getD m []).length)
    (hcols : ∀ m, m < K.factors.length → m ≠ n → ∀ row ∈ L.factors.getD m [], row.length = R)
    (hpos : ∀ m, m < K.factors.length → m ≠ n → 0 < (K.factors.getD m []).length) :
    ∃ V, K.mttkrp (.kruskal L) n = .ok V ∧ V.length = (K.factors.getD n []).length ∧ (∀ row ∈ V, row.length = R) ∧
      ∀ i r, i < (K.factors.getD n []).length → r < R →
        V.get i r = Spec.mttkrp K.den (fun m x c => (L.factors.getD m []).get x c)
          (fun r => L.weights.getD r 0) n i r :=
  MLK.kruskal_mttkrp_kruskal_spec K L n R hN2 hn hlen hw hrows hcols hpos

/-- `ktensor.innerprod(tensor)` (and `tensor.innerprod(ktensor)`, which dispatches to the same code):
one full dense `ttv` with the `r`-th columns per component, weighted and added, is `Σ_k ⟦K⟧[k]·D[k]`. -/
theorem C02_innerprod_kruskal_dense [CommSemiring α] [DecidableEq α] (K : Ktensor α) (D : Dense α) (hD : D.WF)
    (hs : K.shape = D.shape) :
    ML.Part.innerprod (.kruskal K) (.dense D) = .ok (Spec.inner K.den D.den) ∧
    ML.Part.innerprod (.dense D) (.kruskal K) = .ok (Spec.inner D.den K.den) :=
  ⟨MLK.kruskalVia_spec K (.dense D) hD hs, MLK.kruskalVia_spec' K (.dense D) hD hs⟩

/-- `ktensor.innerprod(sptensor)` (and the reverse call): one full sparse `ttv` per component. -/
theorem C02_innerprod_kruskal_sparse [CommSemiring α] [DecidableEq α] (K : Ktensor α) (S : Sparse α) (hS : S.WF)
    (hs : K.shape = S.shape) :
    ML.Part.innerprod (.kruskal K) (.sparse S) = .ok (Spec.inner K.den S.den) ∧
    ML.Part.innerprod (.sparse S) (.kruskal K) = .ok (Spec.inner S.den K.den) :=
  ⟨MLK.kruskalVia_spec K (.sparse S) hS hs, MLK.kruskalVia_spec' K (.sparse S) hS hs⟩

/-- `ktensor.innerprod(ttensor)` (and the reverse call): one full Tucker `ttv` per component. -/
theorem C02_innerprod_kruskal_tucker [CommSemiring α] [DecidableEq α] (K : Ktensor α) (T : Ttensor α)
    (hT : ML.TuckerWF T) (hN : 1 ≤ T.factors.length) (hs : K.shape = T.shape) :
    ML.Part.innerprod (.kruskal K) (.tucker T) = .ok (Spec.inner K.den T.den) ∧
    ML.Part.innerprod (.tucker T) (.kruskal K) = .ok (Spec.inner T.den K.den) :=
  ⟨MLK.kruskalVia_spec K (.tucker T) ⟨hT, hN⟩ hs, MLK.kruskalVia_spec' K (.tucker T) ⟨hT, hN⟩ hs⟩

/-! ### Tucker tensors -/

/-- `ttensor.ttv` after mode designation (Tucker tensor with one factor per core mode, factor `d`
having as many columns as core mode `d` has entries): every selected factor is contracted with its
vector (`Uₙᵀv`), the core is multiplied by the results with the dense `ttv`, the other factors are
kept.  A scalar exactly when every mode is selected; either way the result denotes
`Σ_{k ∈ fiber} ⟦T⟧[k]·∏_d v_d[k_d]`. -/
theorem C02_ttv_tucker [CommSemiring α] (T : Ttensor α) (hT : ML.TuckerWF T) (pairs : List (Nat × List α))
    (hnd : (pairs.map (·.1)).Nodup) (hlt : ∀ p ∈ pairs, p.1 < T.factors.length)
    (hlen : ∀ p ∈ pairs, p.2.length = T.shape.getD p.1 0)
    (w : Nat → Nat → α) (hw : ∀ p ∈ pairs, ∀ k, w p.1 k = p.2.getD k 0) :
    ∃ r, T.ttvCore pairs = .ok r ∧ MLK.tresShape r = Spec.ttvShape T.shape (pairs.map (·.1)) ∧
      ((∃ v, r = .scalar v) ↔ complDims T.factors.length (pairs.map (·.1)) = []) ∧
      ∀ i, InBounds (MLK.tresShape r) i → MLK.tresGet r i = Spec.ttv T.den (pairs.map (·.1)) w i :=
  MLK.tucker_ttvCore_spec T hT pairs hnd hlt hlen w hw

/-- `ttensor.ttv` rejects a vector whose length is not the extent of its mode. -/
theorem C02_ttv_tucker_rejects [Add α] [Mul α] [Zero α] (T : Ttensor α) (pairs : List (Nat × List α))
    (h : ∃ p ∈ pairs, p.2.length ≠ T.shape.getD p.1 0) : T.ttvCore pairs = .error .reject :=
  MLK.tucker_ttvCore_rejects T pairs h

/-- `ttensor.ttv` as called with `dims` listed in any order and one vector per listed mode. -/
theorem C02_ttv_tucker_dims [CommSemiring α] (T : Ttensor α) (hT : ML.TuckerWF T) (d : List Nat)
    (vs : List (List α)) (hd : d.Nodup) (hN : ∀ x ∈ d, x < T.factors.length) (hl : vs.length = d.length)
    (hsz : ∀ p ∈ d.zip vs, p.2.length = T.shape.getD p.1 0)
    (w : Nat → Nat → α) (hw : ∀ p ∈ d.zip vs, ∀ k, w p.1 k = p.2.getD k 0) :
    ∃ r, T.ttv vs (some (d.map Int.ofNat)) none = .ok r ∧ MLK.tresShape r = Spec.ttvShape T.shape d ∧
      ((∃ v, r = .scalar v) ↔ complDims T.factors.length d = []) ∧
      ∀ i, InBounds (MLK.tresShape r) i → MLK.tresGet r i = Spec.ttv T.den d w i :=
  MLK.tucker_ttv_dims T hT d vs hd hN hl hsz w hw

/-- `ttensor.ttm(list, dims, transpose)` with `dims` in any order and one matrix per listed mode,
plain and transposed: the matrices multiply the factors of their modes, the core and the other
factors are kept; the selected extents become the row counts of the effective matrices and
`Y[i] = Σ_{k = i off sel} ⟦T⟧[k]·∏_{d ∈ sel} M_d[i_d, k_d]`. -/
theorem C02_ttm_tucker [CommSemiring α] (T : Ttensor α) (hT : ML.TuckerWF T) (d : List Nat)
    (Ms : List (Dense.MatArg α)) (tr : Bool) (Mf : Nat → Nat → Nat → α)
    (hd : d.Nodup) (hN : ∀ x ∈ d, x < T.factors.length) (hl : Ms.length = d.length)
    (hsz : ∀ p ∈ d.zip Ms, (if tr then p.2.m else p.2.n) = T.shape.getD p.1 0)
    (hM : ∀ p ∈ d.zip Ms, ∀ a b, Mf p.1 a b = if tr then p.2.rows.get b a else p.2.rows.get a b) :
    ∃ T', T.ttm Ms (some (d.map Int.ofNat)) none tr = .ok T' ∧ T'.core = T.core ∧
      T'.shape.length = T.shape.length ∧
      (∀ m, m < T.factors.length → m ∉ d → T'.factors.getD m [] = T.factors.getD m []) ∧
      (∀ p ∈ d.zip Ms, T'.shape.getD p.1 0 = if tr then p.2.n else p.2.m) ∧
      ∀ i, InBounds T'.shape i → T'.get i = Spec.ttm T.den d Mf i :=
  MLK.tucker_ttm_dims T hT d Ms tr Mf hd hN hl hsz hM

/-- `ttensor.mttkrp(U, n)` with a list of factor matrices: the matrices `UₘᵀVₘ` go into the dense
`mttkrp` of the core, whose result is multiplied by `Uₙ`.  An `I_n × R` matrix with entry `[i, r]`
`Σ_{k, k_n = i} ⟦T⟧[k] ∏_{m ≠ n} V_m[k_m, r]` (at least two modes, non-empty modes and core modes). -/
theorem C02_mttkrp_tucker [CommSemiring α] (T : Ttensor α) (hT : ML.TuckerWF T) (U : List (Mat α)) (n R : Nat)
    (hN2 : 2 ≤ T.factors.length) (hn : n < T.factors.length) (hlen : U.length = T.factors.length)
    (hrows : ∀ m, m < T.factors.length → m ≠ n → (U.getD m []).length = (T.factors.getD m []).length)
    (hcols : ∀ m, m < T.factors.length → m ≠ n → ∀ row ∈ U.getD m [], row.length = R)
    (hpos : ∀ m, m < T.factors.length → m ≠ n → 0 < (T.factors.getD m []).length)
    (hcpos : ∀ e ∈ T.core.shape, 0 < e) :
    ∃ V, T.mttkrp (.list U) n = .ok V ∧ V.length = (T.factors.getD n []).length ∧ (∀ row ∈ V, row.length = R) ∧
      ∀ i r, i < (T.factors.getD n []).length → r < R →
        V.get i r = Spec.mttkrp T.den (fun m x c => (U.getD m []).get x c) (fun _ => 1) n i r :=
  MLK.tucker_mttkrp_list_spec T hT U n R hN2 hn hlen hrows hcols hpos hcpos

/-- `ttensor.mttkrp(L, n)` with a Kruskal operand: its weights scale the columns. -/
theorem C02_mttkrp_tucker_kruskal [CommSemiring α] (T : Ttensor α) (hT : ML.TuckerWF T) (L : Ktensor α) (n R : Nat)
    (hN2 : 2 ≤ T.factors.length) (hn : n < T.factors.length) (hlen : L.factors.length = T.factors.length)
    (hw : L.weights.length = R)
    (hrows : ∀ m, m < T.factors.length → m ≠ n → (L.factors.getD m []).length = (T.factors.getD m []).length)
    (hcols : ∀ m, m < T.factors.length → m ≠ n → ∀ row ∈ L.factors.getD m [], row.length = R)
    (hpos : ∀ m, m < T.factors.length → m ≠ n → 0 < (T.factors.getD m []).length)
    (hcpos : ∀ e ∈ T.core.shape, 0 < e) :
    ∃ V, T.mttkrp (.kruskal L) n = .ok V ∧ V.length = (T.factors.getD n []).length ∧ (∀ row ∈ V, row.length = R) ∧
      ∀ i r, i < (T.factors.getD n []).length → r < R →
        V.get i r = Spec.mttkrp T.den (fun m x c => (L.factors.getD m []).get x c)
          (fun r => L.weights.getD r 0) n i r :=
  MLK.tucker_mttkrp_kruskal_spec T hT L n R hN2 hn hlen hw hrows hcols hpos hcpos

/-- `ttensor.innerprod(tensor)` on both sides of its size switch (through `full()` when the tensor is
smaller than its core, otherwise `D.ttm(factors, transpose=True)` paired with the core) is
`Σ_k ⟦T⟧[k]·D[k]`; different shapes are rejected. -/
theorem C02_innerprod_tucker_dense [CommSemiring α] (T : Ttensor α) (hT : ML.TuckerWF T)
    (hN : 1 ≤ T.factors.length) (D : Dense α) (hD : D.WF) :
    (T.shape = D.shape → T.innerprodDense D = .ok (Spec.inner T.den D.den)) ∧
    (T.shape ≠ D.shape → T.innerprodDense D = .error .reject) :=
  ⟨MLK.tucker_innerprodDense_spec T hT hN D hD, MLK.tucker_innerprodDense_rejects T D⟩

/-- `ttensor.innerprod(ttensor)` (the operand with the smaller core first; the other core is
multiplied by the matrices `AₙᵀBₙ` and paired with it) is `Σ_k ⟦T⟧[k]·⟦O⟧[k]`, whichever core is
smaller; different shapes are rejected. -/
theorem C02_innerprod_tucker_tucker [CommSemiring α] (T O : Ttensor α) (hT : ML.TuckerWF T) (hO : ML.TuckerWF O)
    (hN : 1 ≤ T.factors.length) :
    (T.shape = O.shape → T.innerprodT O = .ok (Spec.inner T.den O.den)) ∧
    (T.shape ≠ O.shape → T.innerprodT O = .error .reject) :=
  ⟨MLK.tucker_innerprodT_spec T O hT hO hN, MLK.tucker_innerprodT_rejects T O⟩

/-- `ttensor.innerprod(sptensor)` on both sides of its size switch: through `full()` when the tensor
is smaller than its core, otherwise through the sparse kernel `sptensor.ttm(factors, transpose=True)`
against the core. -/
theorem C02_innerprod_tucker_sparse [CommSemiring α] [DecidableEq α] (T : Ttensor α) (hT : ML.TuckerWF T)
    (hN : 1 ≤ T.factors.length) (S : Sparse α) (hS : S.WF) (hs : T.shape = S.shape) :
    T.innerprodSparse S = .ok (Spec.inner T.den S.den) :=
  MLK.tucker_innerprodSparse_spec T hT hN S hS hs

/-- The square of `ttensor.norm()` on both sides of its size switch (Gram matrices `UₙᵀUₙ` applied to
the core when the tensor is larger than its core, `full()` otherwise) is `Σ_k ⟦T⟧[k]²`. -/
theorem C02_norm_tucker [CommSemiring α] (T : Ttensor α) (hT : ML.TuckerWF T) (hN : 1 ≤ T.factors.length) :
    T.normSq = .ok (Spec.normSq T.den) := MLK.tucker_normSq_spec T hT hN

/-! ### any two representations -/

/-- `x.innerprod(y)` for every pair of representations (dense, sparse, Kruskal, Tucker; 16 dispatch
cases, every data-dependent branch of each) is `Σ_k ⟦x⟧[k]·⟦y⟧[k]`. -/
theorem C02_innerprod_parts [CommSemiring α] [DecidableEq α] (x y : ML.Part α) (hx : ML.PartWF x) (hy : ML.PartWF y)
    (hs : x.shape = y.shape) :
    x.innerprod y = .ok (Spec.inner (MLK.partDen x) (MLK.partDen y)) :=
  MLK.part_innerprod_spec x y hx hy hs

/-- `ttv` of an object of any representation, `dims` in any order: a scalar exactly when every mode
is selected, and the result denotes `Spec.ttv` of what the object denotes. -/
theorem C02_ttv_parts [CommSemiring α] [DecidableEq α] (p : ML.Part α) (hp : ML.PartWF p) (d : List Nat)
    (vs : List (List α)) (hd : d.Nodup) (hN : ∀ x ∈ d, x < p.shape.length) (hl : vs.length = d.length)
    (hsz : ∀ q ∈ d.zip vs, q.2.length = p.shape.getD q.1 0)
    (w : Nat → Nat → α) (hw : ∀ q ∈ d.zip vs, ∀ k, w q.1 k = q.2.getD k 0) :
    ∃ r, p.ttv vs (some (d.map Int.ofNat)) none = .ok r ∧
      ((∃ v, r = .scalar v) ↔ complDims p.shape.length d = []) ∧
      ∀ i, InBounds (gather p.shape (complDims p.shape.length d)) i →
        MLK.partResGet r i = Spec.ttv (MLK.partDen p) d w i :=
  MLK.part_ttv_dims p hp d vs hd hN hl hsz w hw

/-- `mttkrp` of an object of any representation with a factor list: an `I_n × R` matrix with the
defined entries (`MLK.PartPos`: a Tucker part has non-empty core modes). -/
theorem C02_mttkrp_parts [CommSemiring α] [DecidableEq α] (p : ML.Part α) (hp : ML.PartWF p) (hpp : MLK.PartPos p)
    (U : List (Mat α)) (n R : Nat)
    (hN2 : 2 ≤ p.shape.length) (hn : n < p.shape.length) (hlen : U.length = p.shape.length)
    (hrows : ∀ m, m < p.shape.length → m ≠ n → (U.getD m []).length = p.shape.getD m 0)
    (hcols : ∀ m, m < p.shape.length → m ≠ n → ∀ row ∈ U.getD m [], row.length = R)
    (hpos : ∀ e ∈ p.shape, 0 < e) :
    ∃ V, p.mttkrp (.list U) n = .ok V ∧ MLK.MatShape V (p.shape.getD n 0) R ∧
      ∀ i r, i < p.shape.getD n 0 → r < R →
        V.get i r = Spec.mttkrp (MLK.partDen p) (fun m x c => (U.getD m []).get x c) (fun _ => 1) n i r :=
  MLK.part_mttkrp_list p hp hpp U n R hN2 hn hlen hrows hcols hpos

/-! ### sum tensors -/

/-- The definitions are linear in the operand: `ttv`, `mttkrp` and the inner product of a cell-wise
sum of arrays of one shape are the sums over the summands. -/
theorem C02_sum_linear [CommSemiring α] (s : List Nat) (dens : List (Den α)) (hs : ∀ p ∈ dens, p.shape = s) :
    (∀ sel w i, Spec.ttv (Spec.sumDen s dens) sel w i = (dens.map fun p => Spec.ttv p sel w i).sum) ∧
    (∀ U lam n i r, Spec.mttkrp (Spec.sumDen s dens) U lam n i r =
      (dens.map fun p => Spec.mttkrp p U lam n i r).sum) ∧
    (∀ Y, Spec.inner (Spec.sumDen s dens) Y = (dens.map fun p => Spec.inner p Y).sum) :=
  ⟨fun sel w i => MLK.spec_ttv_sum s dens sel w i hs,
   fun U lam n i r => MLK.spec_mttkrp_sum s dens U lam n i r hs,
   fun Y => MLK.spec_inner_sum s dens Y hs⟩

/-- `sumtensor.ttv` (`dims` in any order, one vector per listed mode) for well-formed parts of any
representations and one shape: every part is multiplied; the results are all scalars (every mode
selected; they are added) or all tensor objects (collected into a new sum tensor); the result denotes
`Spec.ttv` of the cell-wise sum of the parts. -/
theorem C02_ttv_sum [CommSemiring α] [DecidableEq α] (p0 : ML.Part α) (ps : List (ML.Part α))
    (hwf : ∀ p ∈ p0 :: ps, ML.PartWF p) (hsh : ∀ p ∈ ps, p.shape = p0.shape)
    (d : List Nat) (vs : List (List α)) (hd : d.Nodup) (hN : ∀ x ∈ d, x < p0.shape.length) (hl : vs.length = d.length)
    (hsz : ∀ q ∈ d.zip vs, q.2.length = p0.shape.getD q.1 0)
    (w : Nat → Nat → α) (hw : ∀ q ∈ d.zip vs, ∀ k, w q.1 k = q.2.getD k 0) :
    ∃ res, ML.Sumtensor.ttv (p0 :: ps) vs (some (d.map Int.ofNat)) none = .ok res ∧
      ((∃ v, res = .scalar v) ↔ complDims p0.shape.length d = []) ∧
      ∀ i, InBounds (gather p0.shape (complDims p0.shape.length d)) i →
        MLK.sumResGet res i = Spec.ttv (MLK.sumDen p0.shape (p0 :: ps)) d w i :=
  MLK.sum_ttv_full p0 ps hwf hsh d vs hd hN hl hsz w hw

/-- `sumtensor.mttkrp(U, n)` with a factor list, for well-formed parts of any representations and one
shape: the parts' `I_n × R` matrices are added entry by entry, and the result has the entries the
definition gives for the cell-wise sum. -/
theorem C02_mttkrp_sum [CommSemiring α] [DecidableEq α] (p0 : ML.Part α) (ps : List (ML.Part α))
    (hwf : ∀ p ∈ p0 :: ps, ML.PartWF p) (hpp : ∀ p ∈ p0 :: ps, MLK.PartPos p) (hsh : ∀ p ∈ ps, p.shape = p0.shape)
    (U : List (Mat α)) (n R : Nat)
    (hN2 : 2 ≤ p0.shape.length) (hn : n < p0.shape.length) (hlen : U.length = p0.shape.length)
    (hrows : ∀ m, m < p0.shape.length → m ≠ n → (U.getD m []).length = p0.shape.getD m 0)
    (hcols : ∀ m, m < p0.shape.length → m ≠ n → ∀ row ∈ U.getD m [], row.length = R)
    (hpos : ∀ e ∈ p0.shape, 0 < e) :
    ∃ W, ML.Sumtensor.mttkrp (p0 :: ps) (.list U) n = .ok W ∧ MLK.MatShape W (p0.shape.getD n 0) R ∧
      ∀ i r, i < p0.shape.getD n 0 → r < R →
        W.get i r = Spec.mttkrp (MLK.sumDen p0.shape (p0 :: ps)) (fun m x c => (U.getD m []).get x c)
          (fun _ => 1) n i r :=
  MLK.sum_mttkrp_full p0 ps hwf hpp hsh U n R hN2 hn hlen hrows hcols hpos

/-- Every representation's `mttkrp` consumes a Kruskal operand through `get_mttkrp_factors` only:
the call with the Kruskal operand IS the call with the factor list that has the weights absorbed
(into mode 1 when `n = 0`, else into mode 0). -/
theorem C02_mttkrp_parts_kruskal_eq_list [Add α] [Mul α] [Zero α] [BEq α] (p : ML.Part α) (K : Ktensor α) (n : Nat)
    (hlen : K.factors.length = p.shape.length) (hN2 : 2 ≤ p.shape.length) :
    p.mttkrp (.kruskal K) n = p.mttkrp (.list (absorbWeights K.weights K.factors n)) n :=
  MLK.part_mttkrp_kruskal_eq_list p K n hlen hN2

/-- `sumtensor.mttkrp(K, n)` with a Kruskal operand at full strength (parts of any representations,
weights non-unit / negative / zero / mixed): column `r` of the sum of the parts' matrices is `λ_r` times
the matricized product of the cell-wise sum. -/
theorem C02_mttkrp_sum_kruskal [CommSemiring α] [DecidableEq α] (p0 : ML.Part α) (ps : List (ML.Part α))
    (hwf : ∀ p ∈ p0 :: ps, ML.PartWF p) (hpp : ∀ p ∈ p0 :: ps, MLK.PartPos p) (hsh : ∀ p ∈ ps, p.shape = p0.shape)
    (K : Ktensor α) (n R : Nat)
    (hN2 : 2 ≤ p0.shape.length) (hn : n < p0.shape.length) (hlen : K.factors.length = p0.shape.length)
    (hw : K.weights.length = R)
    (hrows : ∀ m, m < p0.shape.length → m ≠ n → (K.factors.getD m []).length = p0.shape.getD m 0)
    (hcols : ∀ m, m < p0.shape.length → m ≠ n → ∀ row ∈ K.factors.getD m [], row.length = R)
    (hpos : ∀ e ∈ p0.shape, 0 < e) :
    ∃ W, ML.Sumtensor.mttkrp (p0 :: ps) (.kruskal K) n = .ok W ∧ MLK.MatShape W (p0.shape.getD n 0) R ∧
      ∀ i r, i < p0.shape.getD n 0 → r < R →
        W.get i r = Spec.mttkrp (MLK.sumDen p0.shape (p0 :: ps)) (fun m x c => (K.factors.getD m []).get x c)
          (fun r => K.weights.getD r 0) n i r :=
  MLK.sum_mttkrp_kruskal p0 ps hwf hpp hsh K n R hN2 hn hlen hw hrows hcols hpos

/-- `sumtensor.innerprod(other)` for well-formed parts of any representations and one shape: the sum
of the parts' inner products is `Σ_k (Σ_p ⟦p⟧[k])·⟦other⟧[k]`. -/
theorem C02_innerprod_sum [CommSemiring α] [DecidableEq α] (p0 : ML.Part α) (ps : List (ML.Part α)) (o : ML.Part α)
    (hwf : ∀ p ∈ p0 :: ps, ML.PartWF p) (ho : ML.PartWF o) (hsh : ∀ p ∈ ps, p.shape = p0.shape)
    (hso : p0.shape = o.shape) :
    ML.Sumtensor.innerprod (p0 :: ps) o = .ok (Spec.inner (MLK.sumDen p0.shape (p0 :: ps)) (MLK.partDen o)) :=
  MLK.sum_innerprod_full p0 ps o hwf ho hsh hso

/-- A sum tensor without parts, or with a part whose inner product is rejected, is rejected. -/
theorem C02_innerprod_sum_rejects [Add α] [Mul α] [Zero α] [BEq α] (S : ML.Sumtensor α) (o : ML.Part α) :
    (S = [] → ML.Sumtensor.innerprod S o = .error .reject) ∧
    ((∃ p ∈ S, p.innerprod o = .error .reject) → ML.Sumtensor.innerprod S o = .error .reject) :=
  ⟨fun h => by subst h; rfl, MLK.sum_innerprod_rejects S o⟩

/-- The three sum-tensor operations are the sum over the parts whatever the parts are, as long as
each part's result is the defined one (no well-formedness of the parts is used here). -/
theorem C02_sum_of_parts [CommSemiring α] [BEq α] (p0 : ML.Part α) (ps : List (ML.Part α))
    (hsh : ∀ p ∈ ps, p.shape = p0.shape) :
    (∀ o, (∀ p ∈ p0 :: ps, p.innerprod o = .ok (Spec.inner (MLK.partDen p) (MLK.partDen o))) →
      ML.Sumtensor.innerprod (p0 :: ps) o = .ok (Spec.inner (MLK.sumDen p0.shape (p0 :: ps)) (MLK.partDen o))) ∧
    (∀ U Uf lam n I R, (∀ p ∈ p0 :: ps, ∃ V, p.mttkrp U n = .ok V ∧ MLK.MatShape V I R ∧
        ∀ i r, i < I → r < R → V.get i r = Spec.mttkrp (MLK.partDen p) Uf lam n i r) →
      ∃ W, ML.Sumtensor.mttkrp (p0 :: ps) U n = .ok W ∧ MLK.MatShape W I R ∧
        ∀ i r, i < I → r < R → W.get i r = Spec.mttkrp (MLK.sumDen p0.shape (p0 :: ps)) Uf lam n i r) ∧
    (∀ vs dims excl sel w rshape, (∀ p ∈ p0 :: ps, ∃ r, p.ttv vs dims excl = .ok r ∧
        ((∃ v, r = .scalar v) ↔ rshape = []) ∧
        ∀ i, InBounds rshape i → MLK.partResGet r i = Spec.ttv (MLK.partDen p) sel w i) →
      ∃ res, ML.Sumtensor.ttv (p0 :: ps) vs dims excl = .ok res ∧ ((∃ v, res = .scalar v) ↔ rshape = []) ∧
        ∀ i, InBounds rshape i → MLK.sumResGet res i = Spec.ttv (MLK.sumDen p0.shape (p0 :: ps)) sel w i) :=
  ⟨fun o h => MLK.sum_innerprod_spec p0 ps o hsh h,
   fun U Uf lam n I R h => MLK.sum_mttkrp_spec p0 ps U Uf lam n I R hsh h,
   fun vs dims excl sel w rshape h => MLK.sum_ttv_spec p0 ps vs dims excl sel w rshape hsh h⟩

/-! ### non-vacuity -/

/-- A rank-2 Kruskal tensor of shape `2 × 3` with weights of both signs. -/
example : (⟨[2, -1], [[[1, 2], [3, 4]], [[1, 0], [0, 1], [2, 2]]]⟩ : Ktensor Int).ttv [[1, 1, 1]] (some [1]) none =
    .ok (.obj ⟨[6, -3], [[[1, 2], [3, 4]]]⟩) := by decide +kernel
example : (⟨[2, -1], [[[1, 2], [3, 4]], [[1, 0], [0, 1], [2, 2]]]⟩ : Ktensor Int).ttvCore
    [(0, [1, 1]), (1, [1, 1, 1])] = .ok (.scalar 6) := by decide +kernel
example : (⟨[2, -1], [[[1, 2], [3, 4]], [[1, 0], [0, 1], [2, 2]]]⟩ : Ktensor Int).normSq = 76 := by decide +kernel
example : Spec.normSq (⟨[2, -1], [[[1, 2], [3, 4]], [[1, 0], [0, 1], [2, 2]]]⟩ : Ktensor Int).den = 76 := by
  decide +kernel
example : (⟨[2, -1], [[[1, 2], [3, 4]], [[1, 0], [0, 1], [2, 2]]]⟩ : Ktensor Int).mttkrp
    (.list [[], [[1, -1], [2, 0], [1, 1]]]) 0 = .ok [[-2, -2], [2, -2]] := by decide +kernel
/-- A well-formed Tucker tensor (core `2 × 2`, shape `3 × 2`). -/
example : ML.TuckerWF (⟨⟨[2, 2], [1, 2, 3, 4]⟩, [[[1, 0], [0, 1], [1, 1]], [[1, 2], [0, 1]]]⟩ : Ttensor Int) :=
  ⟨rfl, rfl, by decide⟩
example : Spec.normSq (⟨⟨[2, 2], [1, 2, 3, 4]⟩, [[[1, 0], [0, 1], [1, 1]], [[1, 2], [0, 1]]]⟩ : Ttensor Int).den = 512 := by
  decide +kernel
example : (⟨⟨[2, 2], [1, 2, 3, 4]⟩, [[[1, 0], [0, 1], [1, 1]], [[1, 2], [0, 1]]]⟩ : Ttensor Int).ttvCore [(1, [1, 1])] =
    .ok (.obj ⟨⟨[2], [10, 14]⟩, [[[1, 0], [0, 1], [1, 1]]]⟩) := by decide +kernel
example : (⟨⟨[2, 2], [1, 2, 3, 4]⟩, [[[1, 0], [0, 1], [1, 1]], [[1, 2], [0, 1]]]⟩ : Ttensor Int).mttkrp
    (.list [[], [[1, -1], [2, 0]]]) 0 = .ok [[13, -7], [18, -10], [31, -17]] := by decide +kernel
/-- A sum tensor with a dense and a Kruskal part: `ttv` in mode 1 leaves a sum tensor of two parts. -/
example : ML.Sumtensor.ttv [.dense ⟨[2, 3], [1, 2, 3, 4, 5, 6]⟩,
      .kruskal (⟨[2, -1], [[[1, 2], [3, 4]], [[1, 0], [0, 1], [2, 2]]]⟩ : Ktensor Int)] [[1, 1, 1]] (some [1]) none =
    .ok (.obj [.dense ⟨[2], [9, 12]⟩, .kruskal ⟨[6, -3], [[[1, 2], [3, 4]]]⟩]) := by decide +kernel

end Pyttb
