/-
C17 — index arithmetic, row-set helpers and the Khatri-Rao product obey their laws.
Only property theorems and their non-vacuity examples live here.
-/
import PyttbModel.Lemmas.Idx
import PyttbModel.Lemmas.Rows
import PyttbModel.Lemmas.Dims
import PyttbModel.Lemmas.KhatriRao
import Mathlib.Algebra.BigOperators.Group.List.Basic
import Mathlib.Algebra.Ring.Defs
namespace Pyttb

/-! ### linear index <-> subscript -/

/-- `ind2sub ∘ sub2ind = id` on the subscripts of a shape. -/
theorem C17_ind2sub_sub2ind (s i : List Nat) (h : InBounds s i) :
    ind2sub s (sub2ind s i) = i := ind2sub_sub2ind h

/-- `sub2ind ∘ ind2sub = id` on `0 .. numel-1`. -/
theorem C17_sub2ind_ind2sub (s : List Nat) (n : Nat) (h : n < numel s) :
    sub2ind s (ind2sub s n) = n := sub2ind_ind2sub h

/-- linear indices of in-bounds subscripts are below the number of cells. -/
theorem C17_sub2ind_lt (s i : List Nat) (h : InBounds s i) : sub2ind s i < numel s := sub2ind_lt h

/-- subscripts of valid linear indices are in bounds. -/
theorem C17_ind2sub_inBounds (s : List Nat) (n : Nat) (h : n < numel s) :
    InBounds s (ind2sub s n) := ind2sub_inBounds h

/-- Distinct in-bounds subscripts have distinct linear indices (so a coordinate list and its
linearised form carry the same information — what `sptensor` relies on when it sorts and
deduplicates by linear index). -/
theorem C17_sub2ind_injective (s i j : List Nat) (hi : InBounds s i) (hj : InBounds s j)
    (h : sub2ind s i = sub2ind s j) : i = j := by
  rw [← C17_ind2sub_sub2ind s i hi, ← C17_ind2sub_sub2ind s j hj, h]

/-- Distinct valid linear indices have distinct subscripts. -/
theorem C17_ind2sub_injective (s : List Nat) (m n : Nat) (hm : m < numel s) (hn : n < numel s)
    (h : ind2sub s m = ind2sub s n) : m = n := by
  rw [← C17_sub2ind_ind2sub s m hm, ← C17_sub2ind_ind2sub s n hn, h]

/-- Enumerating the subscripts in the model's order and linearising gives `0,1,…,numel-1`:
the two maps are mutually inverse bijections. -/
theorem C17_sub2ind_enum (s : List Nat) : (allSubs s).map (sub2ind s) = List.range (numel s) :=
  allSubs_map_sub2ind s

/-- The enumeration is "first subscript fastest": the subscripts of `a :: s` are, for each
subscript `t` of `s` in order, `0 :: t, 1 :: t, …, (a-1) :: t`. -/
theorem C17_allSubs_first_fastest (a : Nat) (s : List Nat) :
    allSubs (a :: s) = (allSubs s).flatMap (fun t => (List.range a).map (fun i => i :: t)) :=
  allSubs_cons a s

/-- Raising subscript `k` by one raises the linear index by the product of the extents
before mode `k` (so mode 0 has stride 1). -/
theorem C17_sub2ind_stride (s i : List Nat) (k : Nat) (hl : i.length = s.length) (hk : k < s.length) :
    sub2ind s (i.set k (i.getD k 0 + 1)) = sub2ind s i + stride s k := sub2ind_set_succ s i k hl hk

/-- `tt_sub2ind` followed by `tt_ind2sub` returns the subscripts it was given, and
rejects nothing that is in bounds. -/
theorem C17_tt_roundtrip (s : List Nat) (subs : List (List Nat)) (h : ∀ i ∈ subs, InBounds s i) :
    ∃ l, ttSub2ind s subs = .ok l ∧ ttInd2sub s (l.map Int.ofNat) = .ok subs := tt_roundtrip s subs h

/-- `tt_sub2ind` rejects a batch containing a subscript outside the shape. -/
theorem C17_ttSub2ind_rejects (s : List Nat) (subs : List (List Nat)) (i : List Nat) (hi : i ∈ subs)
    (h : ¬ InBounds s i) : ttSub2ind s subs = .error .reject := ttSub2ind_rejects s subs i hi h

/-- A negative linear index `-k` (1 ≤ k ≤ numel) addresses cell `numel - k`. -/
theorem C17_ttInd2sub_negative (s : List Nat) (k : Nat) (h1 : 1 ≤ k) (h2 : k ≤ numel s) :
    ttInd2sub s [-(k : Int)] = .ok [ind2sub s (numel s - k)] := ttInd2sub_neg s k h1 h2

example : InBounds [2, 3, 4] [1, 2, 3] ∧ sub2ind [2, 3, 4] [1, 2, 3] = 23 := by decide

/-! ### tt_dimscheck -/

/-- `dims` given (any order, no multiplicand count): the answer is `dims` sorted. -/
theorem C17_dimscheck_dims (N : Nat) (d : List Nat) (hd : d.Nodup) (hN : ∀ x ∈ d, x < N) :
    ∃ sd, dimscheck N none (some (d.map Int.ofNat)) none = .ok ⟨sd, none⟩ ∧
      sd.Pairwise (· < ·) ∧ sd.Perm d := dimscheck_dims N d hd hN

/-- `exclude_dims` given: the answer is the complement, increasing. -/
theorem C17_dimscheck_exclude (N : Nat) (e : List Nat) (he : ∀ x ∈ e, x < N) (hn : e.Nodup) :
    dimscheck N none none (some (e.map Int.ofNat)) =
      .ok ⟨(List.range N).filter (fun k => !e.contains k), none⟩ := dimscheck_exclude N e he hn

/-- neither given: all modes. -/
theorem C17_dimscheck_all (N : Nat) : dimscheck N none none none = .ok ⟨List.range N, none⟩ :=
  dimscheck_all N

/-- One multiplicand per listed mode (`M = |dims|`): `vidx` is a permutation of the
multiplicand positions and multiplicand `vidx[k]` is the one listed for mode `sdims[k]`,
i.e. `sdims[k] = dims[vidx[k]]`. -/
theorem C17_dimscheck_vidx_P (N : Nat) (d : List Nat) (hd : d.Nodup) (hN : ∀ x ∈ d, x < N) :
    ∃ sd vi, dimscheck N (some d.length) (some (d.map Int.ofNat)) none = .ok ⟨sd, some vi⟩ ∧
      vi.Perm (List.range d.length) ∧ sd = vi.map (fun k => d.getD k 0) ∧
      sd.Pairwise (· < ·) := dimscheck_vidx_P N d hd hN

/-- One multiplicand per mode of the tensor (`M = N ≠ |dims|`): multiplicands are indexed
by the selected modes themselves. -/
theorem C17_dimscheck_vidx_N (N : Nat) (d : List Nat) (hne : d.length ≠ N) (hd : d.Nodup)
    (hN : ∀ x ∈ d, x < N) :
    ∃ sd, dimscheck N (some N) (some (d.map Int.ofNat)) none = .ok ⟨sd, some sd⟩ ∧
      sd.Pairwise (· < ·) ∧ sd.Perm d := dimscheck_vidx_N N d hne hd hN

/-- The requests `tt_dimscheck` itself refuses: both conventions at once; an excluded mode
outside the tensor; a negative, too large or repeated listed mode; repeated excluded modes;
more multiplicands than modes; a multiplicand count that is neither `N` nor `|dims|`. -/
theorem C17_dimscheck_rejects (N : Nat) (M : Option Nat) (d e : List Int) :
    dimscheck N M (some d) (some e) = .error .reject ∧
    ((∃ x ∈ e, x < 0 ∨ (N : Int) ≤ x) → dimscheck N M none (some e) = .error .reject) ∧
    ((∃ x ∈ d, x < 0) → dimscheck N M (some d) none = .error .reject) ∧
    ((∃ x ∈ d, (N : Int) ≤ x) → dimscheck N M (some d) none = .error .reject) ∧
    (¬ d.Nodup → dimscheck N M (some d) none = .error .reject) ∧
    (¬ e.Nodup → dimscheck N M none (some e) = .error .reject) ∧
    (∀ m, N < m → dimscheck N (some m) (some d) none = .error .reject) ∧
    (∀ m, m ≠ N → m ≠ d.length → dimscheck N (some m) (some d) none = .error .reject) :=
  dimscheck_rejects N M d e

example : dimscheck 4 (some 2) (some [3, 1]) none = .ok ⟨[1, 3], some [1, 0]⟩ :=
  dimscheck_example

/-! ### row-set helpers -/

/-- First-occurrence indices: exactly the positions whose row has not occurred before,
in increasing order. -/
theorem C17_firstOccIdx_spec (A : List Row) :
    (firstOccIdx A).Pairwise (· < ·) ∧
    ∀ k, k ∈ firstOccIdx A ↔ k < A.length ∧ ∀ j, j < k → A.getD j [] ≠ A.getD k [] :=
  firstOccIdx_spec A

/-- De-duplication keeps every row once. -/
theorem C17_dedupRows_spec (A : List Row) :
    (dedupRows A).Nodup ∧ ∀ r, r ∈ dedupRows A ↔ r ∈ A := dedupRows_spec A

/-- `tt_ismember_rows`: a search row that occurs in the source is matched and located at
its last occurrence; one that does not is reported `(false, -1)`. -/
theorem C17_ismember_spec (search source : List Row) (k : Nat) (hk : k < search.length) :
    ∃ p, (ismemberRows search source)[k]? = some p ∧
      (search[k] ∈ source → p.1 = true ∧ ∃ j : Nat, p.2 = (j : Int) ∧ source[j]? = some search[k] ∧
          ∀ j', j < j' → source[j']? ≠ some search[k]) ∧
      (search[k] ∉ source → p = (false, -1)) := ismember_spec search source k hk

/-- `tt_intersect_rows A B` (repaired code): the rows addressed are exactly the distinct rows
of `B` that occur in `A`, in the order they first occur in `B`, and each index is the first
occurrence of its row in `A`. -/
theorem C17_intersect_spec (A B : List Row) :
    (intersectRows A B).map (fun k => A.getD k []) = (dedupRows B).filter (fun r => A.contains r) ∧
    ∀ k ∈ intersectRows A B, k ∈ firstOccIdx A := intersect_spec A B

/-- `tt_setdiff_rows A B` (repaired code): the first-occurrence indices of the rows of `A`
that do not occur in `B`, increasing. -/
theorem C17_setdiff_spec (A B : List Row) :
    setdiffRows A B = (firstOccIdx A).filter (fun k => !B.contains (A.getD k [])) :=
  setdiff_spec A B

/-- `tt_union_rows A B`: every row of `A` or `B` exactly once. -/
theorem C17_union_spec (A B : List Row) :
    (unionRows A B).Nodup ∧ ∀ r, r ∈ unionRows A B ↔ r ∈ A ∨ r ∈ B := union_spec A B

/-- The code at the pinned commit was wrong when `A` has repeated rows (witness). -/
theorem C17_intersect_pinned_counterexample :
    intersectRowsPinned [[1], [1], [0]] [[0]] = [1] ∧ intersectRows [[1], [1], [0]] [[0]] = [2] := by
  decide

/-! ### Khatri-Rao product -/

/-- One step: rows of the accumulated product vary slowest, rows of the new matrix fastest. -/
theorem C17_kr2_entry {α : Type} [Mul α] [Zero α] (P M : Mat α) (R a b r : Nat)
    (hP : ∀ row ∈ P, row.length = R) (hM : ∀ row ∈ M, row.length = R)
    (ha : a < P.length) (hb : b < M.length) (hr : r < R) :
    (kr2 P M).length = P.length * M.length ∧
    (kr2 P M).get (a * M.length + b) r = M.get b r * P.get a r := kr2_entry P M R a b r hP hM ha hb hr

/-- `khatrirao(M₀,…,M_{k-1})` is the column-wise Kronecker product: row
`sub2ind (reverse dims) (reverse i)` (last matrix fastest), column `r`, holds `∏ₖ Mₖ[iₖ, r]`. -/
theorem C17_khatrirao_entry {α : Type} [CommSemiring α] (Ms : List (Mat α)) (R : Nat) (i : List Nat) (r : Nat)
    (hne : Ms ≠ []) (hR : ∀ M ∈ Ms, ∀ row ∈ M, row.length = R) (hr : r < R)
    (hi : InBounds (Ms.map List.length) i) :
    ∃ K, khatrirao Ms false = .ok K ∧ K.length = numel (Ms.map List.length) ∧
      K.get (sub2ind (Ms.map List.length).reverse i.reverse) r =
        (List.zipWith (fun M ik => M.get ik r) Ms i).prod := khatrirao_entry Ms R i r hne hR hr hi

/-- `reverse=True` is the product of the reversed argument list. -/
theorem C17_khatrirao_reverse {α : Type} [Mul α] (Ms : List (Mat α)) :
    khatrirao Ms true = khatrirao Ms.reverse false := by
  simp [khatrirao]

/-- `reverse=True` entrywise: the FIRST matrix varies fastest — row `sub2ind dims i`
(the F-order linear index of the row subscripts), column `r`, holds `∏ₖ Mₖ[iₖ, r]`.  This is the
layout `mttkrp` / `tenmat` rely on. -/
theorem C17_khatrirao_reverse_entry {α : Type} [CommSemiring α] (Ms : List (Mat α)) (R : Nat) (i : List Nat)
    (r : Nat) (hne : Ms ≠ []) (hR : ∀ M ∈ Ms, ∀ row ∈ M, row.length = R) (hr : r < R)
    (hi : InBounds (Ms.map List.length) i) :
    ∃ K, khatrirao Ms true = .ok K ∧ K.length = numel (Ms.map List.length) ∧
      K.get (sub2ind (Ms.map List.length) i) r =
        (List.zipWith (fun M ik => M.get ik r) Ms i).prod := by
  rw [C17_khatrirao_reverse]
  have hi' : InBounds (Ms.reverse.map List.length) i.reverse := by
    rw [List.map_reverse]; exact kr_InBounds_reverse hi
  obtain ⟨K, hK, hl, he⟩ := C17_khatrirao_entry Ms.reverse R i.reverse r (by simpa using hne)
    (by intro M hM; exact hR M (List.mem_reverse.mp hM)) hr hi'
  refine ⟨K, hK, ?_, ?_⟩
  · rw [hl, List.map_reverse, numel_reverse]
  · rw [List.map_reverse, List.reverse_reverse, List.reverse_reverse] at he
    rw [he]
    exact zipWith_reverse_prod _ Ms i (by simpa using hi.length_eq.symm)

/-- differing column counts are rejected. -/
theorem C17_khatrirao_rejects {α : Type} [Mul α] (M0 : Mat α) (rest : List (Mat α))
    (h : ∃ M ∈ rest, M.ncols ≠ M0.ncols) : khatrirao (M0 :: rest) false = .error .reject :=
  khatrirao_rejects M0 rest h

example : khatrirao [[[1, 2], [3, 4]], [[5, 6], [7, 8]]] false
    = .ok ([[5, 12], [7, 16], [15, 24], [21, 32]] : Mat Int) := by decide

example : khatrirao [[[1, 2], [3, 4]], [[5, 6], [7, 8]]] true
    = .ok ([[5, 12], [15, 24], [7, 16], [21, 32]] : Mat Int) := by decide

end Pyttb
