/-
C02 — multilinear products equal their definition (a sum over the subscripts of the array the
operand denotes) in every representation and under every way of designating the modes.
Only property theorems and non-vacuity examples; proofs are in Lemmas/ML*.lean.
`Spec.*` (Spec/Multilinear.lean) are the definitions by sums over indices; `X.den` is the array
an object denotes; `r.get` / `r.shape` the one denotation of a scalar / dense / sparse result.
-/
import PyttbModel.Lemmas.MLTtvUser
import PyttbModel.Lemmas.MLSparseCollapse
import PyttbModel.Lemmas.MLTucker
import PyttbModel.Lemmas.MLMttkrpW
import PyttbModel.Lemmas.MLSparseMttkrp
import PyttbModel.Lemmas.MLDenseContract
import PyttbModel.Lemmas.MLSumFull
import PyttbModel.Lemmas.MLSparseTtm
import PyttbModel.Lemmas.MLTtt
import PyttbModel.Lemmas.MLMttkrps
import PyttbModel.Lemmas.MLMask
import PyttbModel.Lemmas.MLTuckerSparseCore
import PyttbModel.Lemmas.MLReconstruct
import PyttbModel.Props.C02KT
import PyttbModel.Props.C02TS
namespace Pyttb

variable {α : Type}

/-! ### how modes are designated (shared by `ttv` and `ttm`, every representation) -/

/-- One multiplicand per listed mode: whatever order `dims` is listed in, the kernel receives the
modes in increasing order, each paired with the multiplicand listed at the same position. -/
theorem C02_list_len_P {β : Type} (N : Nat) (mults : List β) (d : List Nat) (hd : d.Nodup)
    (hN : ∀ x ∈ d, x < N) (hl : mults.length = d.length) :
    ∃ pairs, resolveModes N mults (some (d.map Int.ofNat)) none = .ok pairs ∧
      (pairs.map (·.1)).Pairwise (· < ·) ∧ pairs.Perm (d.zip mults) := ML.resolve_dims_P N mults d hd hN hl

/-- One multiplicand per mode of the tensor (`len(mults) = N ≠ len(dims)`): mode `m` uses `mults[m]`. -/
theorem C02_list_len_N_vs_P {β : Type} (N : Nat) (mults : List β) (d : List Nat) (hd : d.Nodup)
    (hN : ∀ x ∈ d, x < N) (hl : mults.length = N) (hne : d.length ≠ N) :
    ∃ pairs, resolveModes N mults (some (d.map Int.ofNat)) none = .ok pairs ∧
      (pairs.map (·.1)).Pairwise (· < ·) ∧ (pairs.map (·.1)).Perm d ∧
      ∀ p ∈ pairs, mults[p.1]? = some p.2 := ML.resolve_dims_N N mults d hd hN hl hne

/-- The answer depends on which multiplicand belongs to which mode, not on the order in which
`dims` lists the modes. -/
theorem C02_dims_any_order {β : Type} (N : Nat) (m₁ m₂ : List β) (d₁ d₂ : List Nat) (hd : d₁.Nodup)
    (hN : ∀ x ∈ d₁, x < N) (hl₁ : m₁.length = d₁.length) (hl₂ : m₂.length = d₂.length)
    (h : (d₁.zip m₁).Perm (d₂.zip m₂)) :
    resolveModes N m₁ (some (d₁.map Int.ofNat)) none = resolveModes N m₂ (some (d₂.map Int.ofNat)) none :=
  ML.resolve_any_order N m₁ m₂ d₁ d₂ hd hN hl₁ hl₂ h

/-- `exclude_dims = e` designates exactly the modes not in `e` (and no designation at all
designates every mode). -/
theorem C02_exclude_dims {β : Type} (N : Nat) (mults : List β) (e : List Nat) (he : ∀ x ∈ e, x < N) (hn : e.Nodup) :
    resolveModes N mults none (some (e.map Int.ofNat)) =
      resolveModes N mults (some ((complDims N e).map Int.ofNat)) none ∧
    resolveModes N mults none none = resolveModes N mults (some ((List.range N).map Int.ofNat)) none :=
  ⟨ML.resolve_exclude N mults e he hn, ML.resolve_none N mults⟩

/-- The value `ttv` is specified to have depends on the set of selected modes only. -/
theorem C02_ttv_spec_set [CommSemiring α] (X : Den α) {a b : List Nat} (h : a.Perm b) (w : Nat → Nat → α)
    (i : List Nat) : Spec.ttv X a w i = Spec.ttv X b w i ∧ Spec.ttvShape X.shape a = Spec.ttvShape X.shape b :=
  ⟨ML.spec_ttv_perm X h w i, ML.spec_ttvShape_perm _ h⟩

/-! ### tensor times vector -/

/-- Dense `ttv` kernel (transpose selected modes last, reshape·dot from the highest mode down):
for distinct in-range modes and vectors of matching length the result — a scalar when every mode
is selected, otherwise a tensor over the remaining modes — is `Σ_{k ∈ fiber} X[k]·∏_d v_d[k_d]`. -/
theorem C02_ttv_dense [CommSemiring α] (T : Dense α) (hT : T.WF) (pairs : List (Nat × List α))
    (hnd : (pairs.map (·.1)).Nodup) (hlt : ∀ p ∈ pairs, p.1 < T.shape.length)
    (hlen : ∀ p ∈ pairs, p.2.length = T.shape.getD p.1 0)
    (w : Nat → Nat → α) (hw : ∀ p ∈ pairs, ∀ k, w p.1 k = p.2.getD k 0) :
    ∃ r, T.ttvCore pairs = .ok r ∧ r.toRes.shape = Spec.ttvShape T.shape (pairs.map (·.1)) ∧
      ∀ i, InBounds r.toRes.shape i → r.toRes.get i = Spec.ttv T.den (pairs.map (·.1)) w i :=
  ML.dense_ttvCore_spec T hT pairs hnd hlt hlen w hw

/-- Dense `ttv` as called with `dims` listed in any order and one vector per listed mode. -/
theorem C02_ttv_dense_dims [CommSemiring α] (T : Dense α) (hT : T.WF) (d : List Nat) (vs : List (List α))
    (hd : d.Nodup) (hN : ∀ x ∈ d, x < T.shape.length) (hl : vs.length = d.length)
    (hsz : ∀ p ∈ d.zip vs, p.2.length = T.shape.getD p.1 0)
    (w : Nat → Nat → α) (hw : ∀ p ∈ d.zip vs, ∀ k, w p.1 k = p.2.getD k 0) :
    ∃ r, T.ttv vs (some (d.map Int.ofNat)) none = .ok r ∧ r.toRes.shape = Spec.ttvShape T.shape d ∧
      ∀ i, InBounds r.toRes.shape i → r.toRes.get i = Spec.ttv T.den d w i :=
  ML.dense_ttv_dims T hT d vs hd hN hl hsz w hw

/-- Sparse `ttv` kernel on both sides of every data-dependent switch: all modes selected (scalar),
one mode left (accumulated vector kept sparse at ≤ 50 % fill, dense above), several modes left
(aggregated, densified above 50 % fill), nothing stored. One statement covers all result kinds. -/
theorem C02_ttv_sparse [CommSemiring α] [DecidableEq α] (S : Sparse α) (hS : S.WF)
    (pairs : List (Nat × List α))
    (hnd : (pairs.map (·.1)).Nodup) (hlt : ∀ p ∈ pairs, p.1 < S.shape.length)
    (hlen : ∀ p ∈ pairs, p.2.length = S.shape.getD p.1 0)
    (w : Nat → Nat → α) (hw : ∀ p ∈ pairs, ∀ k, w p.1 k = p.2.getD k 0) :
    ∃ r, S.ttvCore pairs = .ok r ∧ r.shape = Spec.ttvShape S.shape (pairs.map (·.1)) ∧
      ∀ i, InBounds r.shape i → r.get i = Spec.ttv S.den (pairs.map (·.1)) w i :=
  ML.sparse_ttvCore_spec S hS pairs hnd hlt hlen w hw

/-- Sparse `ttv` as called with `dims` listed in any order and one vector per listed mode. -/
theorem C02_ttv_sparse_dims [CommSemiring α] [DecidableEq α] (S : Sparse α) (hS : S.WF) (d : List Nat)
    (vs : List (List α))
    (hd : d.Nodup) (hN : ∀ x ∈ d, x < S.shape.length) (hl : vs.length = d.length)
    (hsz : ∀ p ∈ d.zip vs, p.2.length = S.shape.getD p.1 0)
    (w : Nat → Nat → α) (hw : ∀ p ∈ d.zip vs, ∀ k, w p.1 k = p.2.getD k 0) :
    ∃ r, S.ttv vs (some (d.map Int.ofNat)) none = .ok r ∧ r.shape = Spec.ttvShape S.shape d ∧
      ∀ i, InBounds r.shape i → r.get i = Spec.ttv S.den d w i :=
  ML.sparse_ttv_dims S hS d vs hd hN hl hsz w hw

/-! ### tensor times matrix -/

/-- Dense single-mode `ttm` (permute the mode first, F-reshape, matmul, reshape, permute back),
plain and transposed: `Y[i] = Σ_k M_eff[i_n, k]·X[i with i_n ↦ k]`, mode-`n` extent replaced by the
number of rows of the effective matrix. -/
theorem C02_ttm_dense_mode [CommSemiring α] (T : Dense α) (hT : T.WF) (M : Mat α) (p q n : Nat) (tr : Bool)
    (hn : n < T.shape.length) (hsz : (if tr then p else q) = T.shape.getD n 0) :
    ∃ Y, T.ttmMode M p q n tr = .ok Y ∧ Y.WF ∧ Y.shape = T.shape.set n (if tr then q else p) ∧
      ∀ i, InBounds Y.shape i → Y.get i = sumRange (T.shape.getD n 0) fun k =>
        (if tr then M.get k (i.getD n 0) else M.get (i.getD n 0) k) * T.get (i.set n k) :=
  ML.dense_ttmMode_spec T hT M p q n tr hn hsz

/-- Dense `ttm` with a list of matrices over distinct modes (the pairs are what the mode
designation lemmas above produce): `Y[i] = Σ_{k = i off sel} X[k]·∏_{d ∈ sel} M_d[i_d, k_d]`, where
`Mf d` is the effective (possibly transposed) matrix of mode `d`; selected extents become the row
counts, the other extents are kept. -/
theorem C02_ttm_dense [CommSemiring α] (T : Dense α) (hT : T.WF) (tr : Bool) (Mf : Nat → Nat → Nat → α)
    (pairs : List (Nat × Dense.MatArg α)) (hnd : (pairs.map (·.1)).Nodup)
    (hlt : ∀ p ∈ pairs, p.1 < T.shape.length)
    (hsz : ∀ p ∈ pairs, (if tr then p.2.m else p.2.n) = T.shape.getD p.1 0)
    (hM : ∀ p ∈ pairs, ∀ a b, Mf p.1 a b = if tr then p.2.rows.get b a else p.2.rows.get a b) :
    ∃ Y, T.ttmList pairs tr = .ok Y ∧ Y.WF ∧ Y.shape.length = T.shape.length ∧
      (∀ d, d ∉ pairs.map (·.1) → Y.shape.getD d 0 = T.shape.getD d 0) ∧
      (∀ p ∈ pairs, Y.shape.getD p.1 0 = if tr then p.2.n else p.2.m) ∧
      ∀ i, InBounds Y.shape i → Y.get i = Spec.ttm T.den (pairs.map (·.1)) Mf i :=
  ML.dense_ttmList_spec T hT tr Mf pairs hnd hlt hsz hM

/-- Sparse single-mode `ttm` (sparse matricization with mode `n` as the column mode, product with the
dense matrix, `sptenmat.from_array`, `to_sptensor`, `to_tensor`), plain and transposed: the dense
result has the entries `Σ_k M_eff[i_n, k]·X[i with i_n ↦ k]`. -/
theorem C02_ttm_sparse_mode [CommSemiring α] [DecidableEq α] (S : Sparse α) (hS : S.WF) (M : Mat α)
    (p q n : Nat) (tr : Bool) (hn : n < S.shape.length) (hsz : (if tr then p else q) = S.shape.getD n 0) :
    ∃ Y, S.ttmMode M p q n tr = .ok Y ∧ Y.WF ∧ Y.shape = S.shape.set n (if tr then q else p) ∧
      ∀ i, InBounds Y.shape i → Y.get i = sumRange (S.shape.getD n 0) fun k =>
        (if tr then M.get k (i.getD n 0) else M.get (i.getD n 0) k) * S.get (i.set n k) :=
  ML.sparse_ttmMode_spec S hS M p q n tr hn hsz

/-- Sparse `ttm` with a list of matrices over distinct modes (first product on the sparse tensor, the
others on the dense intermediate results), plain or transposed:
`Y[i] = Σ_{k = i off sel} X[k]·∏_{d ∈ sel} M_d[i_d, k_d]`. -/
theorem C02_ttm_sparse [CommSemiring α] [DecidableEq α] (S : Sparse α) (hS : S.WF) (tr : Bool)
    (Mf : Nat → Nat → Nat → α) (pairs : List (Nat × Dense.MatArg α)) (hne : pairs ≠ [])
    (hnd : (pairs.map (·.1)).Nodup) (hlt : ∀ p ∈ pairs, p.1 < S.shape.length)
    (hsz : ∀ p ∈ pairs, (if tr then p.2.m else p.2.n) = S.shape.getD p.1 0)
    (hM : ∀ p ∈ pairs, ∀ a b, Mf p.1 a b = if tr then p.2.rows.get b a else p.2.rows.get a b) :
    ∃ Y, S.ttmList pairs tr = .ok Y ∧ Y.WF ∧ Y.shape.length = S.shape.length ∧
      (∀ d, d ∉ pairs.map (·.1) → Y.shape.getD d 0 = S.shape.getD d 0) ∧
      (∀ p ∈ pairs, Y.shape.getD p.1 0 = if tr then p.2.n else p.2.m) ∧
      ∀ i, InBounds Y.shape i → Y.get i = Spec.ttm S.den (pairs.map (·.1)) Mf i :=
  ML.sparse_ttmList_spec S hS tr Mf pairs hne hnd hlt hsz hM

/-- Cross-representation form: `sptensor.ttm(...)` as called (any mode designation, any flag, accepted
or rejected) returns exactly what `tensor.ttm(...)` returns for the expanded tensor. -/
theorem C02_ttm_sparse_eq_dense [CommSemiring α] [DecidableEq α] (S : Sparse α) (hS : S.WF)
    (Ms : List (Dense.MatArg α)) (dims excl : Option (List Int)) (tr : Bool) :
    S.ttm Ms dims excl tr = S.full.ttm Ms dims excl tr := ML.sparse_ttm_eq_full S hS Ms dims excl tr

/-- The definition of a multi-mode product peels off one mode at a time (so the order in which the
single-mode products are applied cannot matter). -/
theorem C02_ttm_spec_peel [CommSemiring α] (X : Den α) (sel : List Nat) (n : Nat) (M : Nat → Nat → Nat → α)
    (i : List Nat) (hn : n < X.shape.length) (hns : n ∉ sel) (hil : i.length = X.shape.length) :
    Spec.ttm X (sel ++ [n]) M i =
      sumRange (X.shape.getD n 0) fun x => M n (i.getD n 0) x * Spec.ttm X sel M (i.set n x) :=
  ML.spec_ttm_snoc X sel n M i hn hns hil

/-- Tucker `full` (= `core.ttm(all factors)`): the expanded tensor has the Tucker tensor's shape
and entries `Σ_j G[j] ∏ₙ Uₙ[iₙ, jₙ]`. -/
theorem C02_tucker_full [CommSemiring α] (T : Ttensor α) (hT : ML.TuckerWF T) (hN : 1 ≤ T.factors.length) :
    ∃ D, T.full = .ok D ∧ D.shape = T.shape ∧ D.WF ∧ ∀ i, InBounds D.shape i → D.get i = T.get i :=
  ML.tucker_full_spec T hT hN

/-- `sumtensor.full()` for parts of any representation (dense, sparse, Kruskal, Tucker) of one shape
with positive extents: the first part is expanded, the others are expanded and added, and the result
denotes `Σ_p ⟦p⟧[i]`. -/
theorem C02_sum_full [CommSemiring α] [DecidableEq α] (p0 : ML.Part α) (ps : List (ML.Part α))
    (hwf : ∀ p ∈ p0 :: ps, ML.PartWF p) (hsh : ∀ p ∈ ps, p.shape = p0.shape) (hpos : ∀ e ∈ p0.shape, 0 < e) :
    ∃ D, ML.Sumtensor.full (p0 :: ps) = .ok D ∧ D.shape = p0.shape ∧ D.WF ∧
      ∀ i, InBounds p0.shape i → D.get i = p0.get i + (ps.map fun p => p.get i).sum :=
  ML.sum_full_spec p0 ps hwf hsh hpos

/-! ### tensor times tensor -/

/-- Dense `ttt` (both operands matricized, matrix product, folded back): the outer product when no
modes are listed, the contraction over the listed pairs of modes otherwise, a scalar when nothing is
left. The entry at `a ++ b` (free coordinates of `X`, then of `Y`) is
`Σ_{kx[remX] = a} Σ_{ky[remY] = b, ky[yd] = kx[xd]} X[kx]·Y[ky]`. -/
theorem C02_ttt_dense [CommSemiring α] (X Y : Dense α) (hX : X.WF) (hY : Y.WF) (xd yd : List Nat)
    (hxnd : xd.Nodup) (hxlt : ∀ d ∈ xd, d < X.shape.length)
    (hynd : yd.Nodup) (hylt : ∀ d ∈ yd, d < Y.shape.length)
    (hcom : gather X.shape xd = gather Y.shape yd) :
    ∃ r, X.ttt Y xd yd = .ok r ∧ r.toRes.shape = Spec.tttShape X.shape Y.shape xd yd ∧
      ∀ a b, InBounds (gather X.shape (complDims X.shape.length xd)) a →
        InBounds (gather Y.shape (complDims Y.shape.length yd)) b →
        r.toRes.get (a ++ b) = Spec.ttt X.den Y.den xd yd a b :=
  ML.dense_ttt_spec X Y hX hY xd yd hxnd hxlt hynd hylt hcom

/-! ### matricized tensor times Khatri-Rao product -/

/-- Dense `mttkrp` with a list of factor matrices, all three branches of the code (mode first /
last / in the middle, each with its own reshapes and Khatri-Rao products in reverse order):
entry `[i, r]` is `Σ_{k, k_n = i} X[k] ∏_{m ≠ n} U_m[k_m, r]`. -/
theorem C02_mttkrp_dense [CommSemiring α] (T : Dense α) (U : List (Mat α)) (n R : Nat)
    (hT : T.WF) (hN2 : 2 ≤ T.shape.length) (hn : n < T.shape.length) (hlen : U.length = T.shape.length)
    (hrows : ∀ m, m < T.shape.length → m ≠ n → (U.getD m []).length = T.shape.getD m 0)
    (hcols : ∀ m, m < T.shape.length → m ≠ n → ∀ row ∈ U.getD m [], row.length = R)
    (hpos : ∀ e ∈ T.shape, 0 < e) :
    ∃ V, T.mttkrpCore U n = .ok V ∧
      ∀ i r, i < T.shape.getD n 0 → r < R →
        V.get i r = Spec.mttkrp T.den (fun m x c => (U.getD m []).get x c) (fun _ => 1) n i r :=
  ML.dense_mttkrpCore_spec T U n R hT hN2 hn hlen hrows hcols hpos

/-- The weights of a Kruskal operand: `get_mttkrp_factors` absorbs them into mode 1 (when `n = 0`)
or mode 0, and column `r` of the answer is `λ_r` times the answer for the bare factor list. Stated at
the level of the definition: absorbing `λ` into ANY one factor other than `n` gives the same value. -/
theorem C02_mttkrp_weights_spec [CommSemiring α] (X : Den α) (Uf : Nat → Nat → Nat → α) (w : Nat → α)
    (n mm i r : Nat) (hmm : mm < X.shape.length) (hne : mm ≠ n) :
    Spec.mttkrp X (fun m x c => if m = mm then Uf m x c * w c else Uf m x c) (fun _ => 1) n i r =
      Spec.mttkrp X Uf w n i r := ML.spec_mttkrp_absorb X Uf w n mm i r hmm hne

/-- Dense `mttkrp` with a Kruskal operand (weights non-unit, negative or zero alike). -/
theorem C02_mttkrp_dense_kruskal [CommSemiring α] (T : Dense α) (K : Ktensor α) (n R : Nat)
    (hT : T.WF) (hN2 : 2 ≤ T.shape.length) (hn : n < T.shape.length) (hlen : K.factors.length = T.shape.length)
    (hw : K.weights.length = R)
    (hrows : ∀ m, m < T.shape.length → m ≠ n → (K.factors.getD m []).length = T.shape.getD m 0)
    (hcols : ∀ m, m < T.shape.length → m ≠ n → ∀ row ∈ K.factors.getD m [], row.length = R)
    (hpos : ∀ e ∈ T.shape, 0 < e) :
    ∃ V, T.mttkrp (.kruskal K) n = .ok V ∧
      ∀ i r, i < T.shape.getD n 0 → r < R →
        V.get i r = Spec.mttkrp T.den (fun m x c => (K.factors.getD m []).get x c)
          (fun r => K.weights.getD r 0) n i r :=
  ML.dense_mttkrp_kruskal_spec T K n R hT hN2 hn hlen hw hrows hcols hpos

/-- Sparse `mttkrp` (factor shapes validated up front, then one `ttv` over all modes but `n` per
column, each of which may come back sparse or densified): same value as the dense kernel. -/
theorem C02_mttkrp_sparse [CommSemiring α] [DecidableEq α] (S : Sparse α) (hS : S.WF) (U : List (Mat α))
    (n R : Nat) (hN2 : 2 ≤ S.shape.length) (hn : n < S.shape.length) (hlen : U.length = S.shape.length)
    (hrows : ∀ m, m < S.shape.length → m ≠ n → (U.getD m []).length = S.shape.getD m 0)
    (hcols : ∀ m, m < S.shape.length → m ≠ n → ∀ row ∈ U.getD m [], row.length = R)
    (hpos : ∀ e ∈ S.shape, 0 < e) :
    ∃ V, S.mttkrp (.list U) n = .ok V ∧
      ∀ i r, i < S.shape.getD n 0 → r < R →
        V.get i r = Spec.mttkrp S.den (fun m x c => (U.getD m []).get x c) (fun _ => 1) n i r :=
  ML.sparse_mttkrp_list_spec S hS U n R hN2 hn hlen hrows hcols hpos

/-- `tensor.mttkrps` for ANY split index `sp` with `sp + 1 < N` (two partial products with the
right / left Khatri-Rao factor, then `mttv_mid` / `mttv_left` peeling one mode per iteration): the `N`
returned matrices are the `N` matricized products `Σ_{k, k_n = i} X[k] ∏_{m ≠ n} U_m[k_m, r]`. -/
theorem C02_mttkrps_dense_at [CommSemiring α] (T : Dense α) (U : List (Mat α)) (R : Nat) (H : ML.KPre T U R)
    (sp : Nat) (hsp : sp + 1 < T.shape.length) :
    ∃ V, T.mttkrpsAt U sp = .ok V ∧ V.length = T.shape.length ∧
      ∀ n i r, n < T.shape.length → i < T.shape.getD n 0 → r < R →
        (V.getD n []).get i r =
          Spec.mttkrp T.den (fun m x c => (U.getD m []).get x c) (fun _ => 1) n i r :=
  ML.dense_mttkrpsAt_spec T U R H sp hsp

/-- The split index `min_split` chooses is always admissible (for positive extents, order ≥ 2). -/
theorem C02_min_split_bound (s : List Nat) (hpos : ∀ e ∈ s, 0 < e) (hN : 2 ≤ s.length) :
    minSplit s + 1 < s.length := ML.minSplit_bound s hpos hN

/-- `tensor.mttkrps(U)` with a list of factor matrices, as the code runs it (split chosen by
`min_split`). -/
theorem C02_mttkrps_dense [CommSemiring α] (T : Dense α) (U : List (Mat α)) (R : Nat) (H : ML.KPre T U R)
    (hN2 : 2 ≤ T.shape.length) :
    ∃ V, T.mttkrps (.list U) = .ok V ∧ V.length = T.shape.length ∧
      ∀ n i r, n < T.shape.length → i < T.shape.getD n 0 → r < R →
        (V.getD n []).get i r =
          Spec.mttkrp T.den (fun m x c => (U.getD m []).get x c) (fun _ => 1) n i r :=
  ML.dense_mttkrps_list_spec T U R H hN2

/-- `tensor.mttkrps(K)` with a Kruskal operand (after the fix): every column `r` of every result is
multiplied by `λ_r` — non-unit, negative, zero or mixed weights alike. -/
theorem C02_mttkrps_dense_kruskal [CommSemiring α] (T : Dense α) (K : Ktensor α) (R : Nat)
    (H : ML.KPre T K.factors R) (hw : K.weights.length = R) (hN2 : 2 ≤ T.shape.length) :
    ∃ V, T.mttkrps (.kruskal K) = .ok V ∧ V.length = T.shape.length ∧
      ∀ n i r, n < T.shape.length → i < T.shape.getD n 0 → r < R →
        (V.getD n []).get i r =
          Spec.mttkrp T.den (fun m x c => (K.factors.getD m []).get x c) (fun r => K.weights.getD r 0) n i r :=
  ML.dense_mttkrps_kruskal_spec T K R H hw hN2

/-! ### inner product and norm -/

/-- Dense inner product is `Σ_k A[k]·B[k]`; different shapes are rejected. -/
theorem C02_innerprod_dense [CommSemiring α] (A B : Dense α) (hA : A.WF) (hB : B.WF) :
    (A.shape = B.shape → A.innerprod B = .ok (Spec.inner A.den B.den)) ∧
    (A.shape ≠ B.shape → A.innerprod B = .error .reject) :=
  ⟨ML.dense_innerprod_spec A B hA hB, ML.dense_innerprod_rejects A B⟩

/-- Sparse · dense inner product (values gathered at the stored subscripts). -/
theorem C02_innerprod_sparse_dense [CommSemiring α] [DecidableEq α] (S : Sparse α) (hS : S.WF) (D : Dense α)
    (hs : S.shape = D.shape) : S.innerprodDense D = .ok (Spec.inner S.den D.den) :=
  ML.sparse_innerprodDense_spec S hS D hs

/-- Sparse · sparse inner product, whichever operand is looked up in the other, and with either
operand empty. -/
theorem C02_innerprod_sparse_sparse [CommSemiring α] [DecidableEq α] (S O : Sparse α) (hS : S.WF) (hO : O.WF)
    (hs : S.shape = O.shape) : S.innerprodSparse O = .ok (Spec.inner S.den O.den) :=
  ML.sparse_innerprodSparse_spec S O hS hO hs

/-- The square of the dense norm is `Σ_k A[k]²` (`norm` is the `sqrt` service applied to it). -/
theorem C02_norm_dense [CommSemiring α] (A : Dense α) (hA : A.WF) : A.normSq = Spec.normSq A.den :=
  ML.dense_normSq_spec A hA

/-- The square of the sparse norm is `Σ_k S[k]²`. -/
theorem C02_norm_sparse [CommSemiring α] [DecidableEq α] (S : Sparse α) (hS : S.WF) :
    S.normSq = Spec.normSq S.den := ML.sparse_normSq_spec S hS

/-! ### dense collapse / scale -/

/-- Dense `collapse` (matricize with the collapsed modes as columns, reduce every row): for any
reducer that ignores the order of its arguments the entry at the remaining coordinates is the
reducer applied to the fiber; all modes collapsed gives a scalar. -/
theorem C02_collapse_dense [AddMonoid α] (T : Dense α) (hT : T.WF)
    (dims : Option (List Nat)) (sel : List Nat)
    (hdims : match dims with
      | none => sel = List.range T.shape.length
      | some d => d.Nodup ∧ (∀ x ∈ d, x < T.shape.length) ∧ sel = sdimsOf d)
    (hne : sel ≠ []) (f : List α → α) (hf : ML.PermInvariant f) :
    ∃ r, T.collapse (dims.map fun d => d.map Int.ofNat) f = .ok r ∧
      r.toRes.shape = gather T.shape (complDims T.shape.length sel) ∧
      ∀ i, InBounds r.toRes.shape i → r.toRes.get i = Spec.collapse T.den sel f i :=
  ML.dense_collapse_spec T hT dims sel hdims hne f hf

/-- Dense `scale` (both sides matricized with the scaled modes as rows, factor column broadcast,
folded back): `Y[i] = X[i]·F[i[sel]]`, `sel` = the listed modes in increasing order. -/
theorem C02_scale_dense [CommSemiring α] (T F : Dense α) (hT : T.WF) (d : List Nat) (hd : d.Nodup)
    (hN : ∀ x ∈ d, x < T.shape.length) (hF : F.shape = gather T.shape (sdimsOf d)) :
    ∃ Y, T.scale F (d.map Int.ofNat) = .ok Y ∧ Y.shape = T.shape ∧
      ∀ i, InBounds T.shape i → Y.get i = Spec.scale T.den F.den (sdimsOf d) i :=
  ML.dense_scale_spec T F hT d hd hN hF

/-- Dense `contract` of two distinct modes of equal extent: `np.trace` for a matrix (scalar),
otherwise permute the two modes last, reshape `(m, n, n)` and add the diagonal slices. -/
theorem C02_contract_dense [AddCommMonoid α] (T : Dense α) (hT : T.WF) (a b : Nat)
    (ha : a < T.shape.length) (hb : b < T.shape.length) (hab : a ≠ b)
    (hsz : T.shape.getD a 0 = T.shape.getD b 0) :
    ∃ r, T.contract a b = .ok r ∧ r.toRes.shape = gather T.shape (complDims T.shape.length [a, b]) ∧
      ∀ i, InBounds r.toRes.shape i → r.toRes.get i = Spec.contract T.den a b i :=
  ML.dense_contract_spec T hT a b ha hb hab hsz

/-! ### sparse scale / contract / collapse -/

/-- Sparse `scale` by a dense tensor, a sparse tensor or a plain array over the selected modes
(taken in increasing order, however `dims` lists them): `Y[i] = X[i]·F[i[sel]]` at EVERY subscript;
vanishing products are not stored, so the result is a well-formed sparse tensor. -/
theorem C02_scale_sparse [CommSemiring α] [DecidableEq α] (S : Sparse α) (hS : S.WF) (F : Sparse.ScaleFactor α)
    (d : List Nat) (hd : d.Nodup) (hN : ∀ x ∈ d, x < S.shape.length) (Fden : Den α)
    (hF : match F with
      | .dense D => D.shape = gather S.shape (sdimsOf d) ∧ Fden = D.den
      | .sparse G => G.shape = gather S.shape (sdimsOf d) ∧ G.WF ∧ Fden = G.den
      | .array v => d.length = 1 ∧ [v.length] = gather S.shape (sdimsOf d) ∧ Fden = (⟨[v.length], v⟩ : Dense α).den) :
    ∃ Y, S.scale F (d.map Int.ofNat) = .ok Y ∧ Y.shape = S.shape ∧ Y.WF ∧
      ∀ i, Y.get i = Spec.scale S.den Fden (sdimsOf d) i := ML.sparse_scale_spec S hS F d hd hN Fden hF

/-- Sparse `contract` of two distinct modes of equal extent on every branch (nothing stored,
2-way → scalar, aggregated result kept sparse or densified above 50 % fill). -/
theorem C02_contract_sparse [CommSemiring α] [DecidableEq α] (S : Sparse α) (hS : S.WF) (a b : Nat)
    (ha : a < S.shape.length) (hb : b < S.shape.length) (hab : a ≠ b)
    (hsz : S.shape.getD a 0 = S.shape.getD b 0) :
    ∃ r, S.contract a b = .ok r ∧ r.shape = gather S.shape (complDims S.shape.length [a, b]) ∧
      ∀ i, InBounds r.shape i → r.get i = Spec.contract S.den a b i :=
  ML.sparse_contract_spec S hS a b ha hb hab hsz

/-- Sparse `collapse` with a reducer that depends only on the multiset of its non-zero arguments
and maps the empty list to 0 (the sparse code hands the reducer the stored values only): all
modes (scalar), one mode left (plain vector), several left (sparse), nothing stored. -/
theorem C02_collapse_sparse [CommSemiring α] [DecidableEq α] (S : Sparse α) (hS : S.WF)
    (dims : Option (List Nat)) (sel : List Nat)
    (hdims : match dims with
      | none => sel = List.range S.shape.length
      | some d => d.Nodup ∧ (∀ x ∈ d, x < S.shape.length) ∧ sel = sdimsOf d)
    (f : List α → α) (hf : ML.ZeroInsensitive f) (hf0 : f [] = 0) :
    ∃ r, S.collapse (dims.map fun d => d.map Int.ofNat) f = .ok r ∧
      r.shape = gather S.shape (complDims S.shape.length sel) ∧
      ∀ i, InBounds r.shape i → r.get i = Spec.collapse S.den sel f i :=
  ML.sparse_collapse_spec S hS dims sel hdims f hf hf0

/-- `sum` is such a reducer. -/
theorem C02_collapse_sum_ok [CommSemiring α] [DecidableEq α] :
    ML.ZeroInsensitive (List.sum : List α → α) ∧ (List.sum ([] : List α) = 0) :=
  ⟨ML.zeroInsensitive_sum, rfl⟩

/-! ### mask, sparse-core Tucker -/

/-- `ktensor.mask(W)`: for a mask of the same order and no larger extents the result lists, in the order
of the mask's non-zero subscripts, the entries `Σ_j λ_j ∏_k A_k[i_k, j]` of the Kruskal tensor. -/
theorem C02_mask_kruskal [CommSemiring α] (K : Ktensor α) (wshape : List Nat) (wsubs : List (List Nat))
    (hl : wshape.length = K.factors.length) (hle : ∀ p ∈ wshape.zip K.shape, p.1 ≤ p.2)
    (hsub : ∀ i ∈ wsubs, i.length = K.factors.length) :
    K.mask wshape wsubs = .ok (wsubs.map K.get) := ML.kruskal_mask_spec K wshape wsubs hl hle hsub

/-- A mask of another order or with a larger extent is rejected. -/
theorem C02_mask_kruskal_rejects [Add α] [Mul α] [Zero α] (K : Ktensor α) (wshape : List Nat) (wsubs : List (List Nat))
    (h : wshape.length ≠ K.factors.length ∨ ∃ p ∈ wshape.zip K.shape, p.1 > p.2) :
    K.mask wshape wsubs = .error .reject := ML.kruskal_mask_rejects K wshape wsubs h

/-- Tucker `full` with a SPARSE core (sparse `ttm` kernel) returns exactly what `full` returns for the
same Tucker tensor with the core expanded (for which `C02_tucker_full` gives the entries). -/
theorem C02_tucker_full_sparse_core [CommSemiring α] [DecidableEq α] (T : TtensorS α) (hS : T.core.WF) :
    T.full = (⟨T.core.full, T.factors⟩ : Ttensor α).full := ML.tuckerS_full_eq T hS

/-- `ttensor.ttv` of a Tucker tensor with a SPARSE core (after mode designation): the selected
factors are contracted with their vectors, the core goes through the sparse `ttv` kernel, so the new
core may come back as a scalar, a densified tensor or a sparse tensor; the result — a scalar exactly
when every mode is selected — denotes `Σ_{k ∈ fiber} ⟦T⟧[k]·∏_d v_d[k_d]` (`MLK.tsGet` is
`Σ_j G[j] ∏ₙ Uₙ[iₙ, jₙ]` with `G` the sparse core). -/
theorem C02_ttv_tucker_sparse_core [CommSemiring α] [DecidableEq α] (T : TtensorS α) (hS : T.core.WF)
    (hlenT : T.factors.length = T.core.shape.length)
    (hcols : ∀ d, d < T.factors.length → (T.factors.getD d []).ncols = T.core.shape.getD d 0)
    (pairs : List (Nat × List α))
    (hnd : (pairs.map (·.1)).Nodup) (hlt : ∀ p ∈ pairs, p.1 < T.factors.length)
    (hlen : ∀ p ∈ pairs, p.2.length = (T.factors.getD p.1 []).length)
    (w : Nat → Nat → α) (hw : ∀ p ∈ pairs, ∀ k, w p.1 k = p.2.getD k 0) :
    ∃ r, T.ttvCore pairs = .ok r ∧
      ((∃ v, r = .scalar v) ↔ complDims T.factors.length (pairs.map (·.1)) = []) ∧
      ∀ i, InBounds (Spec.ttvShape (MLK.tsShape T) (pairs.map (·.1))) i →
        MLK.tanyGet r i = Spec.ttv ⟨MLK.tsShape T, MLK.tsGet T⟩ (pairs.map (·.1)) w i :=
  MLK.tuckerS_ttvCore_spec T hS hlenT hcols pairs hnd hlt hlen w hw

/-- A Tucker tensor with a sparse core denotes what the one with the expanded core denotes. -/
theorem C02_tucker_sparse_core_den [CommSemiring α] [DecidableEq α] (T : TtensorS α) (hS : T.core.WF) (i : List Nat) :
    MLK.tsGet T i = (⟨T.core.full, T.factors⟩ : Ttensor α).get i := MLK.tsGet_eq_full T hS i

/-- `ttensor.reconstruct(samples, modes)` for distinct modes (listed in any order) with one usable
sample each — a non-empty vector of row indices (repeats allowed) or a non-empty mixing matrix with one
column per row of the factor; the factors are rectangular: the sampled factors are formed (rows gathered /
matrix multiplied on) and the Tucker tensor is expanded. The result is the multi-mode product of `⟦T⟧` with
the selection / mixing matrices `S_d` of the samples (`MLK.sampleEntry`). -/
theorem C02_reconstruct_tucker [CommSemiring α] (T : Ttensor α) (hT : ML.TuckerWF T) (hN : 1 ≤ T.factors.length)
    (hrect : ∀ d, d < T.factors.length → ∀ row ∈ T.factors.getD d [], row.length = T.core.shape.getD d 0)
    (ss : List (ReconSample α)) (md : List Nat) (hl : ss.length = md.length) (hnd : md.Nodup)
    (hlt : ∀ d ∈ md, d < T.factors.length) (hok : ∀ p ∈ ss.zip md, MLK.SampleOk T p.2 p.1)
    (S : Nat → Nat → Nat → α) (hS : ∀ p ∈ ss.zip md, ∀ a x, S p.2 a x = MLK.sampleEntry p.1 a x) :
    ∃ D, T.reconstruct (some ss) (some md) = .ok D ∧ D.WF ∧ D.shape.length = T.factors.length ∧
      ∀ i, InBounds D.shape i → D.get i = Spec.ttm T.den md S i :=
  MLK.tucker_reconstruct_spec T hT hN hrect ss md hl hnd hlt hok S hS

/-- Replacing the factors of some modes by `S_d·U_d` and expanding is the multi-mode product of the
Tucker tensor with the `S_d` (the step shared by `reconstruct` and `ttm` followed by `full`). -/
theorem C02_tucker_refactor_full [CommSemiring α] (T : Ttensor α) (hT : ML.TuckerWF T) (hN : 1 ≤ T.factors.length)
    (fs : List (Mat α)) (hfl : fs.length = T.factors.length)
    (sel : List Nat) (hnd : sel.Nodup) (hlt : ∀ d ∈ sel, d < T.factors.length)
    (S : Nat → Nat → Nat → α)
    (hkeep : ∀ d, d < T.factors.length → d ∉ sel → fs.getD d [] = T.factors.getD d [])
    (hcols : ∀ d ∈ sel, (fs.getD d []).ncols = T.core.shape.getD d 0)
    (hnew : ∀ d ∈ sel, ∀ a c, a < (fs.getD d []).length → c < T.core.shape.getD d 0 →
      (fs.getD d []).get a c = sumRange (T.shape.getD d 0) fun x => (T.factors.getD d []).get x c * S d a x) :
    ∃ D, Ttensor.full ⟨T.core, fs⟩ = .ok D ∧ D.shape = fs.map List.length ∧ D.WF ∧
      ∀ i, InBounds D.shape i → D.get i = Spec.ttm T.den sel S i :=
  MLK.tucker_refactor_full T hT hN fs hfl sel hnd hlt S hkeep hcols hnew

/-- `reconstruct()` without arguments is `full()`; `modes` without `samples` is rejected. -/
theorem C02_reconstruct_trivial [Add α] [Mul α] [Zero α] (T : Ttensor α) (md : List Nat) :
    T.reconstruct none none = T.full ∧ T.reconstruct none (some md) = .error .reject := ⟨rfl, rfl⟩

/-! ### non-vacuity -/

example : (⟨[2, 3], [1, 2, 3, 4, 5, 6]⟩ : Dense Int).ttv [[1, 1, 1]] (some [1]) none =
    .ok (.obj ⟨[2], [9, 12]⟩) := by decide +kernel
example : (⟨[2, 3], [[0, 1], [1, 2]], [5, 7]⟩ : Sparse Int).ttv [[1, 1, 1]] (some [1]) none =
    .ok (.dense ⟨[2], [5, 7]⟩) := by decide +kernel
example : (⟨[2, 3], [[0, 1], [1, 2]], [5, 7]⟩ : Sparse Int).WF :=
  ⟨rfl, by decide, by decide, by decide⟩
example : (⟨[2, 3], [1, 2, 3, 4, 5, 6]⟩ : Dense Int).WF := rfl
example : Spec.ttv (⟨[2, 3], [1, 2, 3, 4, 5, 6]⟩ : Dense Int).den [1] (fun _ _ => 1) [1] = 12 := by decide

end Pyttb
